import XalanModel.C13.Eval
/-
C13 — the XSLT-level observation paths that ask `shouldStripSourceNode` themselves or walk the physical tree:

* `xsl:copy-of` / `xsl:copy`: `XSLTEngineImpl::outputToResultTree` walks the selected subtree and sends every
  node through `cloneToResultTree(node, type, overrideStrip = false, …)`; the text case
  (`cloneToResultTree(const XalanText&, bool)`, XSLTEngineImpl.cpp:1965-1983) emits `characters` only when
  `shouldStripSourceNode(node) == false`.  → `copyEvents`
* `xsl:key`: `KeyTable` visits every node of the document, tests the match pattern, evaluates `use`
  (a node-set contributes the string-value of each member).  → `keyLookup`
* `xsl:number level="any"`: `ElemNumber::findPrecedingOrAncestorOrSelf` / `getPreviousNode`
  (ElemNumber.cpp:312-372, 638-735) walk backwards over the *physical* tree (previous sibling, dive to the
  last descendant, else parent) and test the count pattern on every node and the `from` pattern only on
  the way up.  → `numberAny`  (this one is *not* insensitive to stripped nodes: see the counterexample)
Core Lean only.
-/
namespace XalanModel.C13

/-! ### copy-of -/

inductive Event where
  | startElement (name : Option QName)
  | endElement
  | characters (data : String)
  | comment (data : String)
  | pi (target data : String)
deriving DecidableEq, Repr, Inhabited

mutual
/-- events of the deep copy of one selected node (the node itself is never a stripped text node: a node-set
never contains one) -/
def copyEvents (sp : StripFn) : Node → List Event
  | .elem _ n kids => .startElement n :: (copyKidsEvents sp n kids ++ [.endElement])
  | .text _ d => [.characters d]
  | .comment _ d => [.comment d]
  | .pi _ t d => [.pi t d]
def copyKidsEvents (sp : StripFn) (pn : Option QName) : List Node → List Event
  | [] => []
  | k :: ks =>       -- a text child goes through cloneToResultTree(text, overrideStrip = false)
    (if k.stripped sp pn then [] else copyEvents sp k) ++ copyKidsEvents sp pn ks
end

/-- `xsl:copy-of select="e"` for a node-set value: the members in document order -/
def copyOf (sp : StripFn) : Option Value → Option (List Event)
  | some (.ns l) => some (l.flatMap fun x => copyEvents sp x.focus)
  | some v => some [.characters (v.toStr sp)]
  | none => none

/-! ### one-step patterns -/

def Loc.isDocument (l : Loc) : Bool :=
  match l.focus with
  | .elem _ none _ => true
  | _ => false

/-- `getMatchScore != eMatchScoreNone` for a one-step pattern (`a`, `text()`, `node()` …): the strip-aware node
test; the document node matches no such pattern -/
def patMatches (sp : StripFn) (t : Test) (l : Loc) : Bool := !l.isDocument && t.accepts sp l

/-! ### keys -/

structure KeyDecl where
  matchT : Test          -- one-step match pattern
  use : Expr

/-- the entries one node contributes -/
def keyEntriesAt (sp : StripFn) (k : KeyDecl) (n : Loc) : Option (List (String × Loc)) :=
  if patMatches sp k.matchT n then
    match k.use.eval sp ⟨n, 1, 1⟩ with
    | some (.ns l) => some (l.map fun x => (x.strVal sp, n))
    | some v => some [(v.toStr sp, n)]
    | none => none
  else some []

def mergeEntries (g : Loc → Option (List (String × Loc))) : List Loc → Option (List (String × Loc))
  | [] => some []
  | x :: xs =>
    match g x, mergeEntries g xs with
    | some a, some b => some (a ++ b)
    | _, _ => none

/-- the table: all nodes of the document (document node first, then document order) -/
def keyTable (sp : StripFn) (k : KeyDecl) (root : Loc) : Option (List (String × Loc)) :=
  mergeEntries (keyEntriesAt sp k) (root :: root.descendants)

/-- `key(name, s)` -/
def keyLookup (sp : StripFn) (k : KeyDecl) (root : Loc) (s : String) : Option (List Loc) :=
  (keyTable sp k root).map fun t => docOrder ((t.filter fun e => e.1 == s).map (·.2))

/-! ### xsl:number level="any" -/

def Loc.prevSibling (l : Loc) : Option Loc := l.precedingSiblings.head?
def Loc.lastChild (l : Loc) : Option Loc := l.children.getLast?
def Loc.parent? (l : Loc) : Option Loc := l.parent.head?

/-- "dive down to the lowest right-hand (last) child" -/
def deepestLast : Nat → Loc → Loc
  | 0, l => l
  | f + 1, l =>
    match l.lastChild with
    | some c => deepestLast f c
    | none => l

def fromMatches (sp : StripFn) (fromT : Option Test) (l : Loc) : Bool :=
  match fromT with
  | some f => patMatches sp f l
  | none => false

/-- `ElemNumber::findPrecedingOrAncestorOrSelf` -/
def findTargetAny (sp : StripFn) (countT : Test) (fromT : Option Test) : Nat → Loc → Option Loc
  | 0, _ => none
  | fuel + 1, pos =>
    if fromMatches sp fromT pos then none
    else if patMatches sp countT pos then some pos
    else
      match pos.prevSibling with
      | none =>
        match pos.parent? with
        | none => none
        | some p => findTargetAny sp countT fromT fuel p
      | some sib => findTargetAny sp countT fromT fuel (deepestLast fuel sib)

/-- `ElemNumber::getPreviousNode`, `eAny == m_level` branch -/
def getPreviousNodeAny (sp : StripFn) (countT : Test) (fromT : Option Test) : Nat → Loc → Option Loc
  | 0, _ => none
  | fuel + 1, pos =>
    match pos.prevSibling with
    | none =>
      match pos.parent? with
      | none => none
      | some next =>
        if next.isDocument || fromMatches sp fromT next then none      -- "return 0 from function"
        else if patMatches sp countT next then some next
        else getPreviousNodeAny sp countT fromT fuel next
    | some sib =>
      let next := deepestLast fuel sib
      if patMatches sp countT next then some next
      else getPreviousNodeAny sp countT fromT fuel next

/-- `CountersTable::countNode` without its cache: the length of the chain target, previous, previous, … -/
def chainLength (sp : StripFn) (countT : Test) (fromT : Option Test) : Nat → Loc → Nat
  | 0, _ => 0
  | fuel + 1, t =>
    match getPreviousNodeAny sp countT fromT fuel t with
    | none => 1
    | some p => 1 + chainLength sp countT fromT fuel p

def numberAny (sp : StripFn) (countT : Test) (fromT : Option Test) (fuel : Nat) (l : Loc) : Nat :=
  match findTargetAny sp countT fromT fuel l with
  | none => 0
  | some t => chainLength sp countT fromT fuel t

end XalanModel.C13
