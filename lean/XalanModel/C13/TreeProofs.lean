import XalanModel.C13.Eval
/-
Helper lemmas: every axis and the string-value commute with physical stripping.
`keep sp l` = the location is not a stripped text node.
-/
namespace XalanModel.C13

def keep (sp : StripFn) (l : Loc) : Bool := !l.stripped sp

theorem stripKids_nil (sp : StripFn) (pn : Option Tag) : Node.stripKids sp pn [] = [] := by
  simp [Node.stripKids]

theorem stripKids_cons (sp : StripFn) (pn : Option Tag) (k : Node) (ks : List Node) :
    Node.stripKids sp pn (k :: ks) =
      if k.stripped sp pn then Node.stripKids sp pn ks else k.strip sp :: Node.stripKids sp pn ks := by
  simp [Node.stripKids]

theorem stripKids_eq_filterMap (sp : StripFn) (pn : Option Tag) (ks : List Node) :
    Node.stripKids sp pn ks = ks.filterMap (fun k => if k.stripped sp pn then none else some (k.strip sp)) := by
  induction ks with
  | nil => simp [stripKids_nil]
  | cons k ks ih =>
    rw [stripKids_cons, List.filterMap_cons, ih]
    cases k.stripped sp pn <;> simp

theorem node_strip_id (sp : StripFn) (n : Node) : (n.strip sp).id = n.id := by
  cases n <;> simp [Node.strip, Node.id]

theorem Loc.strip_id (sp : StripFn) (l : Loc) : (l.strip sp).id = l.id := by
  simp only [Loc.strip, Loc.id]; exact node_strip_id sp l.focus

/-- an unstripped focus stays where it is between its stripped siblings -/
theorem stripKids_around (sp : StripFn) (pn : Option Tag) (left right : List Node) (focus : Node)
    (h : focus.stripped sp pn = false) :
    Node.stripKids sp pn (left.reverse ++ focus :: right)
      = (Node.stripKids sp pn left).reverse ++ focus.strip sp :: Node.stripKids sp pn right := by
  simp only [stripKids_eq_filterMap, List.filterMap_append, List.filterMap_reverse, List.filterMap_cons, h]
  simp

/-! ### string-value -/

theorem empty_append_str (s : String) : "" ++ s = s := by simp

mutual
theorem textOf_strip (sp : StripFn) : ∀ n : Node, n.textOf sp = (n.strip sp).textOf noStrip
  | .elem i n kids => by
    simp only [Node.textOf, Node.strip]
    exact textOfKids_strip sp n kids
  | .text _ _ => by simp [Node.textOf, Node.strip]
  | .comment _ _ => by simp [Node.textOf, Node.strip]
  | .pi _ _ _ => by simp [Node.textOf, Node.strip]
theorem textOfKids_strip (sp : StripFn) (pn : Option Tag) : ∀ ks : List Node,
    Node.textOfKids sp pn ks = Node.textOfKids noStrip pn (Node.stripKids sp pn ks)
  | [] => by simp [Node.textOfKids, Node.stripKids]
  | k :: ks => by
    rw [stripKids_cons]
    simp only [Node.textOfKids]
    by_cases h : k.stripped sp pn = true
    · simp only [h, if_true]
      rw [textOfKids_strip sp pn ks]
      simp
    · have h' : k.stripped sp pn = false := (Bool.not_eq_true _).mp h
      have hn : (k.strip sp).stripped noStrip pn = false := by cases k <;> rfl
      simp only [h', Bool.false_eq_true, if_false, Node.textOfKids, hn]
      rw [textOfKids_strip sp pn ks, textOf_strip sp k]
end

theorem Node.strVal_strip (sp : StripFn) (n : Node) : n.strVal sp = (n.strip sp).strVal noStrip := by
  cases n with
  | elem i nm kids =>
    have := textOf_strip sp (.elem i nm kids)
    simpa [Node.strVal, Node.strip] using this
  | text i d => rfl
  | comment i d => rfl
  | pi i t d => rfl

theorem Loc.strVal_strip (sp : StripFn) (l : Loc) : (l.strip sp).strVal noStrip = l.strVal sp := by
  simp [Loc.strVal, Loc.strip, ← Node.strVal_strip]

/-! ### sibling walks -/

theorem strippedLoc_frame (sp : StripFn) (k : Node) (f : Frame) (p : List Frame) :
    Loc.stripped sp ⟨k, f :: p⟩ = k.stripped sp f.pname := rfl

theorem sibsRight_strip (sp : StripFn) (pid : Nat) (pn : Option Tag) (path : List Frame) :
    ∀ (ks left : List Node),
      ((sibsRight pid pn path left ks).filter (keep sp)).map (Loc.strip sp)
        = sibsRight pid pn (path.map (Frame.strip sp)) (Node.stripKids sp pn left) (Node.stripKids sp pn ks)
  | [], left => by simp [sibsRight, stripKids_nil]
  | k :: ks, left => by
    have ih := sibsRight_strip sp pid pn path ks (k :: left)
    rw [stripKids_cons] at ih
    rw [stripKids_cons]
    simp only [sibsRight, List.filter_cons, keep, strippedLoc_frame]
    by_cases hk : k.stripped sp pn = true
    · simp only [hk, if_true] at ih
      simp only [hk, Bool.not_true, Bool.false_eq_true, if_false, if_true]
      exact ih
    · have hk' : k.stripped sp pn = false := (Bool.not_eq_true _).mp hk
      simp only [hk', Bool.false_eq_true, if_false] at ih
      simp only [hk', Bool.not_false, if_true, List.map_cons, Bool.false_eq_true, if_false, sibsRight]
      rw [← ih]
      simp [Loc.strip, Frame.strip]

theorem sibsLeft_strip (sp : StripFn) (pid : Nat) (pn : Option Tag) (path : List Frame) :
    ∀ (ks right : List Node),
      ((sibsLeft pid pn path ks right).filter (keep sp)).map (Loc.strip sp)
        = sibsLeft pid pn (path.map (Frame.strip sp)) (Node.stripKids sp pn ks) (Node.stripKids sp pn right)
  | [], right => by simp [sibsLeft, stripKids_nil]
  | k :: ks, right => by
    have ih := sibsLeft_strip sp pid pn path ks (k :: right)
    rw [stripKids_cons] at ih
    rw [stripKids_cons]
    simp only [sibsLeft, List.filter_cons, keep, strippedLoc_frame]
    by_cases hk : k.stripped sp pn = true
    · simp only [hk, if_true] at ih
      simp only [hk, Bool.not_true, Bool.false_eq_true, if_false, if_true]
      exact ih
    · have hk' : k.stripped sp pn = false := (Bool.not_eq_true _).mp hk
      simp only [hk', Bool.false_eq_true, if_false] at ih
      simp only [hk', Bool.not_false, if_true, List.map_cons, Bool.false_eq_true, if_false, sibsLeft]
      rw [← ih]
      simp [Loc.strip, Frame.strip]

/-! ### the axes -/

theorem Loc.strip_path (sp : StripFn) (l : Loc) : (l.strip sp).path = l.path.map (Frame.strip sp) := rfl
theorem Loc.strip_focus (sp : StripFn) (l : Loc) : (l.strip sp).focus = l.focus.strip sp := rfl

theorem children_strip (sp : StripFn) (l : Loc) :
    ((l.children).filter (keep sp)).map (Loc.strip sp) = (l.strip sp).children := by
  obtain ⟨focus, path⟩ := l
  cases focus with
  | elem i n kids =>
    simp only [Loc.children, Loc.strip, Node.strip]
    have := sibsRight_strip sp i n path kids []
    simpa [stripKids_nil] using this
  | text i d => simp [Loc.children, Loc.strip, Node.strip]
  | comment i d => simp [Loc.children, Loc.strip, Node.strip]
  | pi i t d => simp [Loc.children, Loc.strip, Node.strip]

theorem followingSiblings_strip (sp : StripFn) (l : Loc) (h : l.stripped sp = false) :
    ((l.followingSiblings).filter (keep sp)).map (Loc.strip sp) = (l.strip sp).followingSiblings := by
  obtain ⟨focus, path⟩ := l
  cases path with
  | nil => simp [Loc.followingSiblings, Loc.strip]
  | cons f p =>
    have hf : focus.stripped sp f.pname = false := h
    simp only [Loc.followingSiblings, Loc.strip, List.map_cons, Frame.strip]
    have := sibsRight_strip sp f.pid f.pname p f.right (focus :: f.left)
    rw [stripKids_cons] at this
    simpa [hf] using this

theorem precedingSiblings_strip (sp : StripFn) (l : Loc) (h : l.stripped sp = false) :
    ((l.precedingSiblings).filter (keep sp)).map (Loc.strip sp) = (l.strip sp).precedingSiblings := by
  obtain ⟨focus, path⟩ := l
  cases path with
  | nil => simp [Loc.precedingSiblings, Loc.strip]
  | cons f p =>
    have hf : focus.stripped sp f.pname = false := h
    simp only [Loc.precedingSiblings, Loc.strip, List.map_cons, Frame.strip]
    have := sibsLeft_strip sp f.pid f.pname p f.left (focus :: f.right)
    rw [stripKids_cons] at this
    simpa [hf] using this

/-- a rebuilt parent element is never a stripped node -/
theorem parentNode_not_stripped (sp : StripFn) (f : Frame) (focus : Node) (pn : Option Tag) :
    (f.parentNode focus).stripped sp pn = false := rfl

theorem parentLoc_not_stripped (sp : StripFn) (f : Frame) (focus : Node) (p : List Frame) :
    Loc.stripped sp ⟨f.parentNode focus, p⟩ = false := by
  cases p <;> rfl

theorem parentNode_strip (sp : StripFn) (f : Frame) (focus : Node) (h : focus.stripped sp f.pname = false) :
    (f.parentNode focus).strip sp = (f.strip sp).parentNode (focus.strip sp) := by
  simp only [Frame.parentNode, Node.strip, Frame.strip]
  rw [stripKids_around sp f.pname f.left f.right focus h]

theorem parent_strip (sp : StripFn) (l : Loc) (h : l.stripped sp = false) :
    ((l.parent).filter (keep sp)).map (Loc.strip sp) = (l.strip sp).parent := by
  obtain ⟨focus, path⟩ := l
  cases path with
  | nil => simp [Loc.parent, Loc.strip]
  | cons f p =>
    have hf : focus.stripped sp f.pname = false := h
    simp only [Loc.parent, Loc.strip, List.map_cons, List.filter_cons, keep, parentLoc_not_stripped]
    simp [Loc.strip, parentNode_strip sp f focus hf]

theorem ancestorsAux_strip (sp : StripFn) : ∀ (path : List Frame) (focus : Node),
    Loc.stripped sp ⟨focus, path⟩ = false →
    ((ancestorsAux focus path).filter (keep sp)).map (Loc.strip sp)
      = ancestorsAux (focus.strip sp) (path.map (Frame.strip sp))
  | [], _, _ => by simp [ancestorsAux]
  | f :: p, focus, h => by
    have hf : focus.stripped sp f.pname = false := h
    have ih := ancestorsAux_strip sp p (f.parentNode focus) (parentLoc_not_stripped sp f focus p)
    simp only [ancestorsAux, List.filter_cons, keep, parentLoc_not_stripped, List.map_cons]
    simp only [Bool.not_false, if_true, List.map_cons]
    rw [ih]
    simp [Loc.strip, parentNode_strip sp f focus hf]

theorem ancestors_strip (sp : StripFn) (l : Loc) (h : l.stripped sp = false) :
    ((l.ancestors).filter (keep sp)).map (Loc.strip sp) = (l.strip sp).ancestors :=
  ancestorsAux_strip sp l.path l.focus h

theorem rootAux_strip (sp : StripFn) : ∀ (path : List Frame) (focus : Node),
    Loc.stripped sp ⟨focus, path⟩ = false →
    (rootAux focus path).strip sp = rootAux (focus.strip sp) (path.map (Frame.strip sp))
      ∧ (rootAux focus path).stripped sp = false
  | [], _, _ => by simp [rootAux, Loc.strip, Loc.stripped]
  | f :: p, focus, h => by
    have hf : focus.stripped sp f.pname = false := h
    have ih := rootAux_strip sp p (f.parentNode focus) (parentLoc_not_stripped sp f focus p)
    simp only [rootAux, List.map_cons]
    rw [← parentNode_strip sp f focus hf]
    exact ih

theorem root_strip (sp : StripFn) (l : Loc) (h : l.stripped sp = false) :
    l.root.strip sp = (l.strip sp).root ∧ l.root.stripped sp = false :=
  rootAux_strip sp l.path l.focus h

mutual
theorem descNode_strip (sp : StripFn) (path : List Frame) : ∀ n : Node,
    ((descNode path n).filter (keep sp)).map (Loc.strip sp)
      = descNode (path.map (Frame.strip sp)) (n.strip sp)
  | .elem i n kids => by
    simp only [descNode, Node.strip]
    have := descKids_strip sp i n path kids []
    simpa [stripKids_nil] using this
  | .text _ _ => by simp [descNode, Node.strip]
  | .comment _ _ => by simp [descNode, Node.strip]
  | .pi _ _ _ => by simp [descNode, Node.strip]
theorem descKids_strip (sp : StripFn) (pid : Nat) (pn : Option Tag) (path : List Frame) :
    ∀ (ks left : List Node),
      ((descKids pid pn path left ks).filter (keep sp)).map (Loc.strip sp)
        = descKids pid pn (path.map (Frame.strip sp)) (Node.stripKids sp pn left) (Node.stripKids sp pn ks)
  | [], left => by simp [descKids, stripKids_nil]
  | k :: ks, left => by
    have ih := descKids_strip sp pid pn path ks (k :: left)
    have ihn := descNode_strip sp (⟨left, pid, pn, ks⟩ :: path) k
    rw [stripKids_cons] at ih
    rw [stripKids_cons]
    simp only [descKids, List.filter_append, List.filter_cons, List.map_append, keep, strippedLoc_frame]
    by_cases hk : k.stripped sp pn = true
    · -- a stripped node is a text node: no descendants
      have hd : descNode (⟨left, pid, pn, ks⟩ :: path) k = [] := by
        cases k <;> simp_all [Node.stripped, descNode]
      simp only [hk, if_true] at ih
      simp only [hk, Bool.not_true, Bool.false_eq_true, if_false, if_true, hd, List.filter_nil, List.map_nil,
        List.nil_append]
      exact ih
    · have hk' : k.stripped sp pn = false := (Bool.not_eq_true _).mp hk
      simp only [hk', Bool.false_eq_true, if_false] at ih
      simp only [hk', Bool.not_false, if_true, List.map_cons, Bool.false_eq_true, if_false, descKids]
      rw [ih, ihn]
      simp [Loc.strip, Frame.strip]
end

theorem descendants_strip (sp : StripFn) (l : Loc) :
    ((l.descendants).filter (keep sp)).map (Loc.strip sp) = (l.strip sp).descendants :=
  descNode_strip sp l.path l.focus

/-! ### `following` / `preceding`: compositions -/

theorem flatMap_strip (sp : StripFn) (h h' : Loc → List Loc) (L : List Loc)
    (hk : ∀ x ∈ L, keep sp x = true → ((h x).filter (keep sp)).map (Loc.strip sp) = h' (x.strip sp))
    (hn : ∀ x ∈ L, keep sp x = false → (h x).filter (keep sp) = []) :
    ((L.flatMap h).filter (keep sp)).map (Loc.strip sp)
      = ((L.filter (keep sp)).map (Loc.strip sp)).flatMap h' := by
  induction L with
  | nil => rfl
  | cons x xs ih =>
    have ih' := ih (fun y hy => hk y (List.mem_cons_of_mem _ hy)) (fun y hy => hn y (List.mem_cons_of_mem _ hy))
    simp only [List.flatMap_cons, List.filter_append, List.map_append, List.filter_cons]
    by_cases hx : keep sp x = true
    · simp only [hx, if_true, List.map_cons, List.flatMap_cons]
      rw [hk x (by simp) hx, ih']
    · have hx' : keep sp x = false := (Bool.not_eq_true _).mp hx
      simp only [hx', Bool.false_eq_true, if_false]
      rw [hn x (by simp) hx', ih']
      rfl

/-- a stripped node is a text node: nothing below it -/
theorem descendants_of_stripped (sp : StripFn) (l : Loc) (h : l.stripped sp = true) : l.descendants = [] := by
  obtain ⟨focus, path⟩ := l
  cases path with
  | nil => simp [Loc.stripped] at h
  | cons f p => cases focus <;> simp_all [Loc.stripped, Node.stripped, Loc.descendants, descNode]

theorem descOrSelf_strip (sp : StripFn) (l : Loc) (h : keep sp l = true) :
    ((l.descOrSelf).filter (keep sp)).map (Loc.strip sp) = (l.strip sp).descOrSelf := by
  simp only [Loc.descOrSelf, List.filter_cons, h, if_true, List.map_cons]
  rw [descendants_strip]

theorem descOrSelf_stripped (sp : StripFn) (l : Loc) (h : keep sp l = false) :
    (l.descOrSelf).filter (keep sp) = [] := by
  have hs : l.stripped sp = true := by simpa [keep] using h
  simp [Loc.descOrSelf, descendants_of_stripped sp l hs, h]

theorem descOrSelfRev_strip (sp : StripFn) (l : Loc) (h : keep sp l = true) :
    ((l.descOrSelf.reverse).filter (keep sp)).map (Loc.strip sp) = (l.strip sp).descOrSelf.reverse := by
  rw [List.filter_reverse, List.map_reverse, descOrSelf_strip sp l h]

theorem descOrSelfRev_stripped (sp : StripFn) (l : Loc) (h : keep sp l = false) :
    (l.descOrSelf.reverse).filter (keep sp) = [] := by
  rw [List.filter_reverse, descOrSelf_stripped sp l h]; rfl

theorem ancestorsAux_keep (sp : StripFn) : ∀ (path : List Frame) (focus : Node),
    ∀ a ∈ ancestorsAux focus path, keep sp a = true
  | [], _ => by simp [ancestorsAux]
  | f :: p, focus => by
    intro a ha
    simp only [ancestorsAux, List.mem_cons] at ha
    rcases ha with rfl | ha
    · simp [keep, parentLoc_not_stripped]
    · exact ancestorsAux_keep sp p _ a ha

theorem selfAndAncestors_strip (sp : StripFn) (l : Loc) (h : l.stripped sp = false) :
    ((l :: l.ancestors).filter (keep sp)).map (Loc.strip sp) = l.strip sp :: (l.strip sp).ancestors := by
  have hk : keep sp l = true := by simp [keep, h]
  simp only [List.filter_cons, hk, if_true, List.map_cons]
  rw [ancestors_strip sp l h]

theorem selfAndAncestors_keep (sp : StripFn) (l : Loc) (h : l.stripped sp = false) :
    ∀ a ∈ l :: l.ancestors, keep sp a = true := by
  intro a ha
  rcases List.mem_cons.mp ha with rfl | ha
  · simp [keep, h]
  · exact ancestorsAux_keep sp l.path l.focus a ha

theorem following_strip (sp : StripFn) (l : Loc) (h : l.stripped sp = false) :
    ((l.following).filter (keep sp)).map (Loc.strip sp) = (l.strip sp).following := by
  unfold Loc.following
  rw [flatMap_strip sp _ (fun a => a.followingSiblings.flatMap Loc.descOrSelf) (l :: l.ancestors)
    (fun a _ hak => by
      have has : a.stripped sp = false := by simpa [keep] using hak
      rw [flatMap_strip sp Loc.descOrSelf Loc.descOrSelf a.followingSiblings
        (fun x _ hx => descOrSelf_strip sp x hx) (fun x _ hx => descOrSelf_stripped sp x hx)]
      rw [followingSiblings_strip sp a has])
    (fun a ha hak => by
      have := selfAndAncestors_keep sp l h a ha
      rw [this] at hak; cases hak)]
  rw [selfAndAncestors_strip sp l h]

theorem preceding_strip (sp : StripFn) (l : Loc) (h : l.stripped sp = false) :
    ((l.preceding).filter (keep sp)).map (Loc.strip sp) = (l.strip sp).preceding := by
  unfold Loc.preceding
  rw [flatMap_strip sp _ (fun a => a.precedingSiblings.flatMap fun s => s.descOrSelf.reverse) (l :: l.ancestors)
    (fun a _ hak => by
      have has : a.stripped sp = false := by simpa [keep] using hak
      rw [flatMap_strip sp (fun s => s.descOrSelf.reverse) (fun s => s.descOrSelf.reverse) a.precedingSiblings
        (fun x _ hx => descOrSelfRev_strip sp x hx) (fun x _ hx => descOrSelfRev_stripped sp x hx)]
      rw [precedingSiblings_strip sp a has])
    (fun a ha hak => by
      have := selfAndAncestors_keep sp l h a ha
      rw [this] at hak; cases hak)]
  rw [selfAndAncestors_strip sp l h]

/-- every axis: the unstripped nodes of the axis on `D`, carried over, are the axis on `D'` -/
theorem axis_strip (sp : StripFn) (ax : Axis) (l : Loc) (h : l.stripped sp = false) :
    ((ax.locs l).filter (keep sp)).map (Loc.strip sp) = ax.locs (l.strip sp) := by
  have hk : keep sp l = true := by simp [keep, h]
  cases ax with
  | child => exact children_strip sp l
  | descendant => exact descendants_strip sp l
  | descendantOrSelf =>
    simp only [Axis.locs, List.filter_cons, hk, if_true, List.map_cons]
    rw [descendants_strip]
  | followingSibling => exact followingSiblings_strip sp l h
  | precedingSibling => exact precedingSiblings_strip sp l h
  | self => simp [Axis.locs, hk]
  | parent => exact parent_strip sp l h
  | ancestor => exact ancestors_strip sp l h
  | ancestorOrSelf =>
    simp only [Axis.locs, List.filter_cons, hk, if_true, List.map_cons]
    rw [ancestors_strip sp l h]
  | following => exact following_strip sp l h
  | preceding => exact preceding_strip sp l h
  | attrAxis => rfl
  | nsAxis => rfl

/-! ### node tests -/

theorem stripped_after_strip (sp : StripFn) (l : Loc) : (l.strip sp).stripped noStrip = false := by
  obtain ⟨focus, path⟩ := l
  cases path with
  | nil => rfl
  | cons f p => cases focus <;> rfl

/-- the strip-aware node test on `D` = "not stripped" and the plain node test on `D'` -/
theorem accepts_strip (sp : StripFn) (t : Test) (l : Loc) :
    t.accepts sp l = (keep sp l && t.accepts noStrip (l.strip sp)) := by
  have hs := stripped_after_strip sp l
  obtain ⟨focus, path⟩ := l
  by_cases hk : Loc.stripped sp ⟨focus, path⟩ = true
  · -- stripped: a text node; every test rejects it
    have : ∃ i d, focus = .text i d := by
      cases path with
      | nil => simp [Loc.stripped] at hk
      | cons f p => cases focus <;> simp_all [Loc.stripped, Node.stripped]
    obtain ⟨i, d, rfl⟩ := this
    cases t <;> simp [Test.accepts, keep, hk]
  · have hk' : Loc.stripped sp ⟨focus, path⟩ = false := (Bool.not_eq_true _).mp hk
    cases focus with
    | elem i n kids =>
      cases n <;> cases t <;> simp_all [Test.accepts, keep, Loc.strip, Node.strip]
    | text i d => cases t <;> simp_all [Test.accepts, keep, Loc.strip, Node.strip]
    | comment i d => cases t <;> simp_all [Test.accepts, keep, Loc.strip, Node.strip]
    | pi i tg d => cases t <;> simp_all [Test.accepts, keep, Loc.strip, Node.strip]

theorem filter_accepts_strip (sp : StripFn) (t : Test) (ls : List Loc) :
    (ls.filter (t.accepts sp)).map (Loc.strip sp)
      = ((ls.filter (keep sp)).map (Loc.strip sp)).filter (t.accepts noStrip) := by
  induction ls with
  | nil => rfl
  | cons x xs ih =>
    simp only [List.filter_cons, accepts_strip sp t x]
    by_cases h1 : keep sp x = true
    · by_cases h2 : Test.accepts noStrip t (Loc.strip sp x) = true
      · simp [h1, h2, ih]
      · simp [h1, h2, ih]
    · simp [h1, ih]

/-- candidates of a step (axis then node test) -/
theorem cands_strip (sp : StripFn) (ax : Axis) (t : Test) (l : Loc) (h : l.stripped sp = false) :
    ((ax.locs l).filter (t.accepts sp)).map (Loc.strip sp)
      = (ax.locs (l.strip sp)).filter (t.accepts noStrip) := by
  rw [filter_accepts_strip, axis_strip sp ax l h]

theorem cands_keep (sp : StripFn) (ax : Axis) (t : Test) (l x : Loc)
    (hx : x ∈ (ax.locs l).filter (t.accepts sp)) : x.stripped sp = false := by
  have := (List.mem_filter.mp hx).2
  rw [accepts_strip] at this
  simp only [Bool.and_eq_true, keep, Bool.not_eq_true'] at this
  exact this.1

end XalanModel.C13
