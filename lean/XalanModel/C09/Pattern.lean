import XalanModel.C09.Tree
/-!
# C09 — XSLT match patterns: abstract syntax, concrete syntax, and the *defining* semantics

XSLT 1.0 §5.2: "a node matches a pattern if the node is a member of the result of evaluating the pattern
as an expression with respect to some possible context; the possible contexts are those whose context node
is the node being matched or one of its ancestors."  `Spec.matchesPattern` is that sentence, with the
expression semantics of XPath 1.0 §2 (location steps: axis, node test, predicates filtered one after the
other with proximity positions; `//` = `/descendant-or-self::node()/`; a leading `/` selects the root).

Nothing here refers to how Xalan matches.
-/
namespace XalanModel.C09

/-- node tests of the pattern grammar.  A node's `name` in the document table is its *expanded* name: `local` when it
is in no namespace, `{uri}local` otherwise. -/
inductive Test where
  | name (s : String)      -- NCName: an unprefixed name; selects names in *no* namespace (the default namespace
                           --   never applies to patterns / expressions)
  | qname (pfx uri loc : String)   -- pfx:loc, the prefix being bound to `uri`
  | nsAny (pfx uri : String)       -- pfx:*
  | any                    -- *
  | text | comment | pi    -- text() comment() processing-instruction()
  | piLit (s : String)     -- processing-instruction('s')
  | node                   -- node()
deriving DecidableEq, Repr, Inhabited

/-- predicate shapes (the ones the generator produces) -/
inductive Pred where
  | idx (k : Nat)          -- [k]               a number literal
  | last                   -- [last()]
  | posEq (k : Nat)        -- [position()=k]
  | posNeLast              -- [position()!=last()]
  | lastEq (k : Nat)       -- [last()=k]        last() inside a comparison, no position()
  | lastGt (k : Nat)       -- [last()>k]
  | posLtLast              -- [position()<last()]
  | lastMinus1             -- [last()-1]        last() inside arithmetic: a number
  -- number-VALUED predicates that are neither literals nor call position()/last(): positional by XPath 2.4
  | sumLit (a b : Nat)     -- [a+b]
  | divLit (a b : Nat)     -- [a div b]             (non-integer, Infinity, NaN: equal to no position)
  | ceilDiv (a b : Nat)    -- [ceiling(a div b)]
  | negLit (k : Nat)       -- [-k]
  | countChild (x : String) -- [count(x)]            number of child elements named x
  | countSib (x : String)  -- [count(../x)]         number of elements named x among the children of the parent
  | strlenAttr (x : String) -- [string-length(@x)]   (attribute values in generated documents have length 1)
  | numberAttr (x : String) -- [number(@x)]          (value 1, or NaN when there is no such attribute)
  | attr (x : String)      -- [@x]
  | child (x : String)     -- [x]
  | notAttr (x : String)   -- [not(@x)]
deriving DecidableEq, Repr, Inhabited

structure Step where
  attrAxis : Bool          -- `@`/attribute::  (otherwise child::)
  test : Test
  preds : List Pred
  /-- the axis is spelled out (`child::name`, `attribute::name`) instead of abbreviated (`name`, `@name`) -/
  explicit : Bool := false
deriving DecidableEq, Repr, Inhabited

inductive Sep where
  | child                  -- '/'
  | desc                   -- '//'
deriving DecidableEq, Repr, Inhabited

/-- One LocationPathPattern.  `steps` carries, with each step, the separator written *before* it.
`abs = false`: relative pattern, the first separator is `child` by convention.
`abs = true`: `/` (no steps), `/s…` (first separator `child`) or `//s…` (first separator `desc`). -/
structure Path where
  abs : Bool
  steps : List (Sep × Step)
deriving DecidableEq, Repr, Inhabited

/-- `IdKeyPattern (('/' | '//') RelativePathPattern)?`: `txt` is the call as written (`id('v')`), `S` the node-set it
evaluates to in the document at hand (it does not depend on the context node); every step carries the separator
before it, the first one being the separator after the call -/
structure FnPath where
  txt : String
  S : List Nat
  steps : List (Sep × Step)
deriving DecidableEq, Repr, Inhabited

/-- the same step / path with every axis abbreviated -/
def Step.abbrev (s : Step) : Step := { s with explicit := false }
def Path.abbrev (p : Path) : Path := { p with steps := p.steps.map fun x => (x.1, x.2.abbrev) }

/-- Pattern ::= LocationPathPattern ('|' LocationPathPattern)* -/
abbrev Pattern := List Path

/-- (An earlier version restricted steps to one `position()`-calling predicate because of the stale
context-position cache of `XPathExecutionContextDefault`; that defect was repaired in /repo by 5c6363f and the
restriction is lifted: any predicate list is in the model's domain.) -/
def Path.valid (p : Path) : Bool :=
  match p.abs, p.steps with
  | true, _ => true
  | false, [] => false
  | false, (s, _) :: _ => s == .child

/-! ## concrete syntax (what is handed to `XPathProcessorImpl::initMatchPattern`) -/

def Test.render : Test → String
  | .name s => s
  | .qname pfx _ loc => pfx ++ ":" ++ loc
  | .nsAny pfx _ => pfx ++ ":*"
  | .any => "*"
  | .text => "text()"
  | .comment => "comment()"
  | .pi => "processing-instruction()"
  | .piLit s => "processing-instruction('" ++ s ++ "')"
  | .node => "node()"

def Pred.render : Pred → String
  | .idx k => "[" ++ toString k ++ "]"
  | .last => "[last()]"
  | .posEq k => "[position()=" ++ toString k ++ "]"
  | .posNeLast => "[position()!=last()]"
  | .lastEq k => "[last()=" ++ toString k ++ "]"
  | .lastGt k => "[last()>" ++ toString k ++ "]"
  | .posLtLast => "[position()<last()]"
  | .lastMinus1 => "[last()-1]"
  | .sumLit a b => "[" ++ toString a ++ "+" ++ toString b ++ "]"
  | .divLit a b => "[" ++ toString a ++ " div " ++ toString b ++ "]"
  | .ceilDiv a b => "[ceiling(" ++ toString a ++ " div " ++ toString b ++ ")]"
  | .negLit k => "[-" ++ toString k ++ "]"
  | .countChild x => "[count(" ++ x ++ ")]"
  | .countSib x => "[count(../" ++ x ++ ")]"
  | .strlenAttr x => "[string-length(@" ++ x ++ ")]"
  | .numberAttr x => "[number(@" ++ x ++ ")]"
  | .attr x => "[@" ++ x ++ "]"
  | .child x => "[" ++ x ++ "]"
  | .notAttr x => "[not(@" ++ x ++ ")]"

def Step.render (s : Step) : String :=
  (if s.explicit then (if s.attrAxis then "attribute::" else "child::") else (if s.attrAxis then "@" else "")) ++
    s.test.render ++ String.join (s.preds.map Pred.render)

def Sep.render : Sep → String
  | .child => "/"
  | .desc => "//"

def Path.render (p : Path) : String :=
  match p.steps with
  | [] => if p.abs then "/" else ""
  | (s0, st0) :: rest =>
    (if p.abs then s0.render else "") ++ st0.render ++
      String.join (rest.map fun (s, st) => s.render ++ st.render)

def FnPath.render (p : FnPath) : String :=
  p.txt ++ String.join (p.steps.map fun (s, st) => s.render ++ st.render)

def Pattern.render (p : Pattern) : String := "|".intercalate (p.map Path.render)

/-! ## XPath 1.0 semantics of the pattern read as an expression -/
namespace Spec

/-- §2.3 node tests.  Principal node type: attribute on the attribute axis, element otherwise. -/
def testOK (d : Doc) (attrAxis : Bool) (t : Test) (m : Nat) : Bool :=
  match t with
  -- a name test selects nodes of the principal node type; a namespace declaration is not an attribute (§5.3/§5.4)
  | .name s => d.kind m == (if attrAxis then Kind.attr else Kind.elem) && d.name m == s && !(attrAxis && Doc.isNsDeclName (d.name m))
  | .qname _ uri loc => d.kind m == (if attrAxis then Kind.attr else Kind.elem) && d.name m == "{" ++ uri ++ "}" ++ loc &&
      !(attrAxis && Doc.isNsDeclName (d.name m))
  | .nsAny _ uri => d.kind m == (if attrAxis then Kind.attr else Kind.elem) && ("{" ++ uri ++ "}").isPrefixOf (d.name m) &&
      !(attrAxis && Doc.isNsDeclName (d.name m))
  | .any => d.kind m == (if attrAxis then Kind.attr else Kind.elem) && !(attrAxis && Doc.isNsDeclName (d.name m))
  | .text => d.kind m == .text
  | .comment => d.kind m == .comment
  | .pi => d.kind m == .pi
  | .piLit s => d.kind m == .pi && d.name m == s
  | .node => true

/-- value of a PredicateExpr at context node `m`, context position `pos`, context size `size` -/
inductive PVal where
  | num (k : Nat)
  | bool (b : Bool)
deriving DecidableEq, Repr

def predVal (d : Doc) (p : Pred) (m pos size : Nat) : PVal :=
  match p with
  | .idx k => .num k
  | .last => .num size
  | .posEq k => .bool (pos == k)
  | .posNeLast => .bool (pos != size)
  | .lastEq k => .bool (size == k)
  | .lastGt k => .bool (decide (size > k))
  | .posLtLast => .bool (decide (pos < size))
  | .lastMinus1 => .num (size - 1)
  -- a number that is not a positive integer (0, negative, fractional, ±Infinity, NaN) equals no position and is
  -- false as a boolean only when 0/NaN; both evaluators only ever compare it with a position: it is recorded as 0
  | .sumLit a b => .num (a + b)
  | .divLit a b => .num (if b != 0 && a % b == 0 then a / b else 0)
  | .ceilDiv a b => .num (if b == 0 then 0 else (a + b - 1) / b)
  | .negLit _ => .num 0
  | .countChild x => .num ((d.children m).filter fun c => d.kind c == .elem && d.name c == x).length
  | .countSib x =>
    .num (match d.parent m with
          | some p => ((d.children p).filter fun c => d.kind c == .elem && d.name c == x).length
          | none => 0)
  | .strlenAttr x => .num (if (d.attrs m).any fun a => d.name a == x then 1 else 0)
  | .numberAttr x => .num (if (d.attrs m).any fun a => d.name a == x then 1 else 0)
  | .attr x => .bool ((d.attrs m).any fun a => d.name a == x)
  | .child x => .bool ((d.children m).any fun c => d.kind c == .elem && d.name c == x)
  | .notAttr x => .bool (!(d.attrs m).any fun a => d.name a == x)

/-- §2.4: a number is compared with the context position, anything else is converted to boolean -/
def predTrue (d : Doc) (p : Pred) (m pos size : Nat) : Bool :=
  match predVal d p m pos size with
  | .num k => k == pos
  | .bool b => b

/-- §2.4: filter a node list (forward axis: document order = proximity order) by one predicate -/
def applyPred (d : Doc) (p : Pred) (l : List Nat) : List Nat :=
  (l.zipIdx.filter fun (m, i) => predTrue d p m (i + 1) l.length).map Prod.fst

/-- §2.1 one location step from context node `c` -/
def evalStep (d : Doc) (c : Nat) (s : Step) : List Nat :=
  s.preds.foldl (fun l p => applyPred d p l)
    ((if s.attrAxis then d.attrs c else d.children c).filter (testOK d s.attrAxis s.test))

/-- `n` is selected by the remaining steps starting from context `c` -/
def fwd (d : Doc) : List (Sep × Step) → Nat → Nat → Bool
  | [], c, n => c == n
  | (.child, s) :: r, c, n => (evalStep d c s).any fun m => fwd d r m n
  | (.desc, s) :: r, c, n => (d.descOrSelf c).any fun c' => (evalStep d c' s).any fun m => fwd d r m n

/-- `n ∈ ⟦p⟧(A)`; an absolute path starts at the root of the document containing `A` (node 0) -/
def selects (d : Doc) (p : Path) (A n : Nat) : Bool := fwd d p.steps (if p.abs then 0 else A) n

/-- an id()/key()-leading pattern read as an expression selects the same nodes from every context: those reached
from a node of the call's node-set by the remaining steps -/
def matchesFn (d : Doc) (p : FnPath) (n : Nat) : Bool := p.S.any fun k => fwd d p.steps k n

def matchesPath (d : Doc) (p : Path) (n : Nat) : Bool := (d.ancOrSelf n).any fun A => selects d p A n

/-- **the definition of matching** (XSLT 1.0 §5.2); a union matches when an alternative does -/
def matchesPattern (d : Doc) (P : Pattern) (n : Nat) : Bool := P.any fun p => matchesPath d p n

end Spec
end XalanModel.C09
