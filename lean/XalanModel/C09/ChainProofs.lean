import XalanModel.C09.Proofs
/-!
# C09 — helper lemmas for the multi-step (chain) part of `Props/C09.lean`
-/
namespace XalanModel.C09
open Spec

variable {v : Variant}

/-- `a` is `n` or an ancestor of `n` -/
inductive Anc (d : Doc) : Nat → Nat → Prop
  | refl (a : Nat) : Anc d a a
  | step {a n p : Nat} : d.parent n = some p → Anc d a p → Anc d a n

theorem Anc.trans {d : Doc} {a b c : Nat} (h1 : Anc d a b) (h2 : Anc d b c) : Anc d a c := by
  induction h2 with
  | refl => exact h1
  | step hp _ ih => exact Anc.step hp ih

theorem Anc.le {d : Doc} {a n : Nat} (h : Anc d a n) : a ≤ n := by
  induction h with
  | refl => exact Nat.le_refl _
  | step hp _ ih => exact Nat.le_trans ih (Nat.le_of_lt (Doc.parent_lt hp))

theorem parent_zero (d : Doc) : d.parent 0 = none := by simp [Doc.parent]

theorem Anc.zero {d : Doc} {a : Nat} (h : Anc d a 0) : a = 0 := by
  cases h with
  | refl => rfl
  | step hp _ => rw [parent_zero] at hp; cases hp

theorem mem_ancOrSelfF (d : Doc) (a : Nat) (fuel n : Nat) (h : n ≤ fuel) :
    a ∈ d.ancOrSelfF fuel n ↔ Anc d a n := by
  induction fuel generalizing n with
  | zero =>
    have : n = 0 := by omega
    subst this
    simp only [Doc.ancOrSelfF, List.mem_singleton]
    constructor
    · rintro rfl; exact Anc.refl _
    · exact Anc.zero
  | succ fuel ih =>
    simp only [Doc.ancOrSelfF, List.mem_cons]
    constructor
    · rintro (rfl | hm)
      · exact Anc.refl _
      · cases hp : d.parent n with
        | none => simp [hp] at hm
        | some p =>
          simp only [hp] at hm
          have := Doc.parent_lt hp
          exact Anc.step hp ((ih p (by omega)).mp hm)
    · intro ha
      cases ha with
      | refl => exact Or.inl rfl
      | step hp hanc =>
        right
        simp only [hp]
        have := Doc.parent_lt hp
        exact (ih _ (by omega)).mpr hanc

theorem mem_ancOrSelf (d : Doc) (a n : Nat) : a ∈ d.ancOrSelf n ↔ Anc d a n :=
  mem_ancOrSelfF d a n n (Nat.le_refl _)

/-- nearest-first search among ancestors: the first hit is at or below every hit -/
theorem find_anc_complete (d : Doc) (f : Nat → Bool) (fuel x : Nat) (hx : x ≤ fuel) (c : Nat)
    (hc : Anc d c x) (hf : f c = true) :
    ∃ c0, (d.ancOrSelfF fuel x).find? f = some c0 ∧ Anc d c c0 := by
  induction fuel generalizing x with
  | zero =>
    have : x = 0 := by omega
    subst this
    have := Anc.zero hc
    subst this
    exact ⟨0, by simp [Doc.ancOrSelfF, hf], Anc.refl _⟩
  | succ fuel ih =>
    simp only [Doc.ancOrSelfF, List.find?_cons]
    by_cases hfx : f x = true
    · exact ⟨x, by simp [hfx], hc⟩
    · have hfx' : f x = false := by simpa using hfx
      rw [hfx']
      cases hc with
      | refl => exact absurd hf hfx
      | step hp hanc =>
        simp only [hp]
        have := Doc.parent_lt hp
        exact ih _ (by omega) hanc

theorem find_anc_sound (d : Doc) (f : Nat → Bool) (fuel x : Nat) (hx : x ≤ fuel) (c0 : Nat)
    (h : (d.ancOrSelfF fuel x).find? f = some c0) : f c0 = true ∧ Anc d c0 x := by
  have h1 := List.find?_some h
  have h2 := List.mem_of_find?_eq_some h
  exact ⟨h1, (mem_ancOrSelfF d c0 fuel x hx).mp h2⟩

theorem climb_eq (d : Doc) (g : Nat → Score) (fuel x : Nat) (hx : x ≤ fuel) :
    climb d g fuel x =
      match (d.ancOrSelfF fuel x).find? (fun a => g a != .none) with
      | some a => (g a, some a)
      | none => (Score.none, none) := by
  induction fuel generalizing x with
  | zero =>
    have : x = 0 := by omega
    subst this
    simp only [climb, Doc.ancOrSelfF, List.find?_cons, List.find?_nil, parent_zero]
    by_cases h : (g 0 != Score.none) = true
    · simp [h]
    · have h' : g 0 = Score.none := by simpa using h
      simp [h']
  | succ fuel ih =>
    simp only [climb, Doc.ancOrSelfF, List.find?_cons]
    by_cases h : (g x != Score.none) = true
    · simp [h]
    · have h' : g x = Score.none := by simpa using h
      simp only [h', bne_self_eq_false, Bool.false_eq_true, if_false]
      cases hp : d.parent x with
      | none => simp
      | some p =>
        have := Doc.parent_lt hp
        simp only []
        rw [ih p (by omega)]



/-- codes of child-axis steps, of the leading `//` pseudo-step, and of attribute steps -/
def Code.up (c : Code) : Bool := c == .immAnc || c == .anyAnc || c == .anyAncPred || c == .attr

/-- the node a step settles on when tested at `p`: `p` itself (attribute step, immediate ancestor), or the nearest
ancestor-or-self of `p` passing the loop body (any ancestor) -/
def headAt (v : Variant) (d : Doc) (c : MStep) (p : Nat) : Option Nat :=
  if c.code == .attr then (if attrBody v d c p != .none then some p else none)
  else if d.kind p != .attr then
    if c.code == .immAnc then (if anyBody v d c p != .none then some p else none)
    else (d.ancOrSelf p).find? (fun a => anyBody v d c a != .none)
  else none

theorem evalStepAt_up (d : Doc) (c : MStep) (nc : Option Code) (p : Nat) (sh : Score) (hc : c.code.up = true) :
    (evalStepAt v d c nc p sh).1 = headAt v d c p ∧
    ((evalStepAt v d c nc p sh).2 ≠ .none ↔ (headAt v d c p).isSome = true) := by
  unfold evalStepAt headAt
  rcases c with ⟨code, test, preds⟩
  cases code <;> simp [Code.up] at hc
  · -- attr
    simp only [beq_self_eq_true, if_true]
    unfold attrBody
    by_cases hg : (v.attrGuard && d.kind p != Kind.attr) = true
    · simp [hg]
    · simp only [hg, Bool.false_eq_true, if_false]
      by_cases ht : tester d true test p = Score.none
      · simp [ht]
      · simp [ht]
        by_cases hd : doStepPredicate v d ⟨Code.attr, test, preds⟩ preds p (tester d true test p) = Score.none
        · simp [hd]
        · simp [hd]
          split <;> simp_all
  · -- anyAnc
    have hna : (Code.anyAnc == Code.attr) = false := by decide
    simp only [hna, Bool.false_eq_true, if_false]
    by_cases hk : (d.kind p != Kind.attr) = true
    · simp only [hk, if_true]
      rw [climb_eq d _ p p (Nat.le_refl _)]
      unfold Doc.ancOrSelf
      cases hf : (d.ancOrSelfF p p).find? (fun a => anyBody v d ⟨Code.anyAnc, test, preds⟩ a != Score.none) with
      | none => simp
      | some a =>
        have := List.find?_some hf
        have hne : anyBody v d ⟨Code.anyAnc, test, preds⟩ a ≠ Score.none := by simpa using this
        simp [hne]
        split <;> simp_all
    · simp [hk]
  · -- immAnc
    have hna : (Code.immAnc == Code.attr) = false := by decide
    simp only [hna, Bool.false_eq_true, if_false]
    by_cases hk : (d.kind p != Kind.attr) = true
    · simp only [hk, if_true]
      unfold anyBody
      generalize hsc : childTest v d ⟨Code.immAnc, test, preds⟩ p = sc0
      by_cases ht : sc0 = Score.none
      · simp [ht]
      · simp [ht]
        by_cases hd : doStepPredicate v d ⟨Code.immAnc, test, preds⟩ preds p sc0 = Score.none
        · simp [hd]
        · simp [hd]
          split <;> simp_all
    · simp [hk]
  · -- anyAncPred
    have hna : (Code.anyAncPred == Code.attr) = false := by decide
    simp only [hna, Bool.false_eq_true, if_false]
    by_cases hk : (d.kind p != Kind.attr) = true
    · simp only [hk, if_true]
      rw [climb_eq d _ p p (Nat.le_refl _)]
      unfold Doc.ancOrSelf
      cases hf : (d.ancOrSelfF p p).find? (fun a => anyBody v d ⟨Code.anyAncPred, test, preds⟩ a != Score.none) with
      | none => simp
      | some a =>
        have := List.find?_some hf
        have hne : anyBody v d ⟨Code.anyAncPred, test, preds⟩ a ≠ Score.none := by simpa using this
        simp [hne]
        split <;> simp_all
    · simp [hk]

/-- what `stepPattern` returns as node, for lists of upward codes: right-to-left, each step settling on one node -/
def chain (v : Variant) (d : Doc) : List MStep → Nat → Option Nat
  | [], _ => none
  | [c], n => headAt v d c n
  | c :: c' :: r, n =>
    match chain v d (c' :: r) n with
    | none => none
    | some x =>
      match d.parent x with
      | none => none
      | some p => headAt v d c p

/-- the second "big ugly return": the steps to the right settled on a parentless node -/
def rootExit (v : Variant) (d : Doc) : List MStep → Nat → Bool
  | c :: c' :: r, n =>
    (match chain v d (c' :: r) n with
     | none => false
     | some x => (d.parent x).isNone)
  | _, _ => false

theorem stepPattern_chain (d : Doc) (L : List MStep) (n : Nat) (sh : Score) (hL : ∀ c ∈ L, c.code.up = true)
    (hne : L ≠ []) :
    (stepPattern v d L n sh).1 = chain v d L n ∧
    ((stepPattern v d L n sh).2 ≠ .none ↔ ((chain v d L n).isSome = true ∨ rootExit v d L n = true)) := by
  induction L with
  | nil => exact absurd rfl hne
  | cons c rest ih =>
    cases rest with
    | nil =>
      have hc := hL c (List.mem_cons_self ..)
      have := evalStepAt_up (v := v) d c none n sh hc
      simp only [stepPattern, chain, rootExit, Bool.false_eq_true, or_false]
      exact this
    | cons c' r =>
      have hc := hL c (List.mem_cons_self ..)
      have ih' := ih (fun x hx => hL x (List.mem_cons_of_mem _ hx)) (by simp)
      simp only [stepPattern, chain, rootExit]
      cases hch : chain v d (c' :: r) n with
      | none =>
        have h1 : (stepPattern v d (c' :: r) n sh).1 = none := by rw [ih'.1, hch]
        simp [h1]
      | some x =>
        have h1 : (stepPattern v d (c' :: r) n sh).1 = some x := by rw [ih'.1, hch]
        have h2 : (stepPattern v d (c' :: r) n sh).2 ≠ .none := ih'.2.mpr (Or.inl (by simp [hch]))
        have h2' : ((stepPattern v d (c' :: r) n sh).2 == Score.none) = false := by simpa using h2
        simp only [h1, h2', Bool.false_eq_true, if_false]
        cases hp : d.parent x with
        | none => simp
        | some p =>
          have := evalStepAt_up (v := v) d c (some c'.code) p Score.other hc
          simp only [Option.isNone_some, Bool.false_eq_true, or_false]
          exact this



theorem wf_parent_kind {d : Doc} (h : d.WF = true) {i p : Nat} (hp : d.parent i = some p) :
    d.kind p ≠ .attr := by
  have hi := Doc.parent_lt_size hp
  have hw := wf_node h hi
  have h0 : i ≠ 0 := by
    intro h0; subst h0; rw [parent_zero] at hp; cases hp
  unfold Doc.wfNode at hw
  rw [if_neg h0, hp] at hw
  simp only [Bool.and_eq_true, Bool.or_eq_true, beq_iff_eq, bne_iff_ne] at hw
  intro hk
  rcases hw.2 with h1 | h1
  · rw [hk] at h1; cases h1
  · rw [hk] at h1; cases h1.1.1

theorem Anc.is_parent {d : Doc} {a n : Nat} (h : Anc d a n) (hne : a ≠ n) : ∃ x, d.parent x = some a := by
  induction h with
  | refl => exact absurd rfl hne
  | step hp hanc ih =>
    rename_i n' p
    by_cases hap : a = p
    · subst hap; exact ⟨_, hp⟩
    · exact ih hap

theorem Anc.kind_ne_attr {d : Doc} (hwf : d.WF = true) {a n : Nat} (h : Anc d a n) (hn : d.kind n ≠ .attr) :
    d.kind a ≠ .attr := by
  by_cases hne : a = n
  · subst hne; exact hn
  · obtain ⟨x, hx⟩ := h.is_parent hne
    exact wf_parent_kind hwf hx

/-- a step of the class of `match_iff_select_partial`: child axis; test other than `node()` unless the tree has the
root guard (`proposed/C09-node-test-root.diff`) -/
def Step.simple (v : Variant) (s : Step) : Prop := s.attrAxis = false ∧ (v.rootGuard = false → s.test ≠ .node)

theorem body_iff_selfSel (d : Doc) (hwf : d.WF = true) (s : Step) (hs : s.simple v) (fd : Bool)
    (a : Nat) (ha : a < d.size) (hk : d.kind a ≠ .attr) :
    (anyBody v d (compileStep s fd) a != .none) = true ↔ selfSel d s a := by
  rw [bne_iff_ne]
  exact anyBody_iff d hwf s fd hs.1 a ha hk (fun hg h => absurd h (hs.2 hg))

theorem headAt_imm (d : Doc) (hwf : d.WF = true) (s : Step) (hs : s.simple v) (p : Nat) (hp : p < d.size) (c0 : Nat) :
    headAt v d (compileStep s false) p = some c0 ↔ (c0 = p ∧ selfSel d s p) := by
  unfold headAt
  have hcode : (compileStep s false).code = .immAnc := by simp [compileStep, hs.1]
  have hna : ((compileStep s false).code == Code.attr) = false := by simp [compileStep, hs.1]
  simp only [hna, Bool.false_eq_true, if_false]
  by_cases hk : d.kind p = .attr
  · simp only [hk, bne_self_eq_false, Bool.false_eq_true, if_false]
    constructor
    · intro h; cases h
    · rintro ⟨_, hsel⟩; exact absurd hk (selfSel_not_attr d s hs.1 p hsel)
  · have hk' : (d.kind p != Kind.attr) = true := by simpa using hk
    simp only [hk', if_true, hcode, beq_self_eq_true]
    have hb := body_iff_selfSel (v := v) d hwf s hs false p hp hk
    by_cases hsel : selfSel d s p
    · have := hb.mpr hsel
      simp only [this, if_true, Option.some.injEq]
      constructor
      · intro h; exact ⟨h.symm, hsel⟩
      · intro h; exact h.1.symm
    · have : ¬ (anyBody v d (compileStep s false) p != Score.none) = true := fun h => hsel (hb.mp h)
      simp only [this, if_false]
      constructor
      · intro h; cases h
      · intro h; exact absurd h.2 hsel

theorem headAt_any_sound (d : Doc) (hwf : d.WF = true) (s : Step) (hs : s.simple v) (p : Nat) (hp : p < d.size)
    (c0 : Nat) (h : headAt v d (compileStep s true) p = some c0) : Anc d c0 p ∧ selfSel d s c0 := by
  unfold headAt at h
  have hcode : ((compileStep s true).code == Code.immAnc) = false := by simp [compileStep, hs.1]
  have hna : ((compileStep s true).code == Code.attr) = false := by simp [compileStep, hs.1]
  simp only [hna, Bool.false_eq_true, if_false] at h
  by_cases hk : d.kind p = .attr
  · simp [hk] at h
  · have hk' : (d.kind p != Kind.attr) = true := by simpa using hk
    simp only [hk', if_true, hcode, Bool.false_eq_true, if_false] at h
    have := find_anc_sound d _ p p (Nat.le_refl _) c0 h
    refine ⟨this.2, ?_⟩
    have hle := this.2.le
    exact (body_iff_selfSel (v := v) d hwf s hs true c0 (by omega) (this.2.kind_ne_attr hwf hk)).mp this.1

theorem headAt_any_complete (d : Doc) (hwf : d.WF = true) (s : Step) (hs : s.simple v) (p : Nat) (hp : p < d.size)
    (hk : d.kind p ≠ .attr) (c : Nat) (hc : Anc d c p) (hsel : selfSel d s c) :
    ∃ c0, headAt v d (compileStep s true) p = some c0 ∧ Anc d c c0 := by
  unfold headAt
  have hcode : ((compileStep s true).code == Code.immAnc) = false := by simp [compileStep, hs.1]
  have hna : ((compileStep s true).code == Code.attr) = false := by simp [compileStep, hs.1]
  have hk' : (d.kind p != Kind.attr) = true := by simpa using hk
  simp only [hna, hk', if_true, hcode, Bool.false_eq_true, if_false]
  have hle := hc.le
  have hf := (body_iff_selfSel (v := v) d hwf s hs true c (by omega) (hc.kind_ne_attr hwf hk)).mpr hsel
  exact find_anc_complete d _ p p (Nat.le_refl _) c hc hf





/-- attribute step of the class.  As found: `@name` or `@*` with predicates `[@x]`/`[x]`/`[not(@x)]` only.
With `attrGuard` any node test is allowed, with `findAttrFix` any predicates
(`proposed/C09-attribute-step.diff`). -/
def Step.attrOK (v : Variant) (s : Step) : Prop :=
  s.attrAxis = true ∧ (v.attrGuard = false → ((∃ nm, s.test = .name nm) ∨ s.test = .any)) ∧
    (v.findAttrFix = false → ∀ q ∈ s.preds, q.plain = true)

theorem tester_attr_eq_testOK (d : Doc) (t : Test) (m : Nat) :
    (tester d true (.t t) m != .none) = testOK d true t m := by
  have key : ∀ (c : Bool) (sc : Score), sc ≠ .none → ((if c = true then sc else Score.none) != Score.none) = c := by
    intro c sc hs; cases c <;> simp [hs]
  cases t <;> simp only [tester, testOK, if_true] <;> first | exact key _ _ (by decide) | rfl

theorem tester_attr_kind (d : Doc) (t : Test) (ht : (∃ nm, t = .name nm) ∨ t = .any) (m : Nat)
    (h : tester d true (.t t) m ≠ .none) : d.kind m = .attr := by
  rcases ht with ⟨nm, rfl⟩ | rfl
  · simp only [tester, if_true] at h
    by_cases hk : d.kind m = .attr
    · exact hk
    · simp [hk] at h
  · simp only [tester, if_true] at h
    by_cases hk : d.kind m = .attr
    · exact hk
    · simp [hk] at h

theorem wf_attr_parent_elem {d : Doc} (hwf : d.WF = true) {m p : Nat} (hp : d.parent m = some p)
    (hk : d.kind m = .attr) : d.kind p = .elem := by
  have hi := Doc.parent_lt_size hp
  have hw := wf_node hwf hi
  have h0 : m ≠ 0 := by
    intro h0; subst h0; rw [parent_zero] at hp; cases hp
  unfold Doc.wfNode at hw
  rw [if_neg h0, hp] at hw
  simp only [Bool.and_eq_true, Bool.or_eq_true, beq_iff_eq, bne_iff_ne] at hw
  rcases hw.2 with h1 | h1
  · exact h1
  · exact absurd hk h1.1.2

theorem fwdStep_attr_eq (d : Doc) (hwf : d.WF = true) (c : Nat) (s : Step) (fd : Bool) (h : s.attrAxis = true)
    (hv : v.findAttrFix = true) : fwdStep v d c (compileStep s fd) = evalStep d c s := by
  have hf : (fun m => tester d true (MTest.t s.test) m != Score.none) = testOK d true s.test := by
    funext m; exact tester_attr_eq_testOK d s.test m
  have hcode : (compileStep s fd).code = .attr := by simp [compileStep, h]
  unfold fwdStep
  rw [hcode]
  simp only [evalStep, h, if_true, predicates_eq, hv]
  have ht : (compileStep s fd).test = .t s.test := rfl
  have hpr : (compileStep s fd).preds = s.preds := rfl
  rw [ht, hpr, hf]
  by_cases hk : d.kind c = .elem
  · simp [hk]
  · have hnil : d.attrs c = [] := by
      apply List.eq_nil_iff_forall_not_mem.mpr
      intro m hm
      have := Doc.mem_attrs.mp hm
      exact hk (wf_attr_parent_elem hwf this.1 this.2)
    simp [hk, hnil]

theorem handleFoundIndex_attr (d : Doc) (hwf : d.WF = true) (s : Step) (fd : Bool) (h : s.attrAxis = true)
    (hv : v.findAttrFix = true) (m : Nat) :
    handleFoundIndex v d (compileStep s fd) m =
      (if (∃ p, d.parent m = some p ∧ m ∈ evalStep d p s) then Score.other else Score.none) := by
  unfold handleFoundIndex
  cases hp : d.parent m with
  | none => simp
  | some p =>
    simp only [fwdStep_attr_eq d hwf p s fd h hv, List.contains_iff_mem, Option.some.injEq, exists_eq_left']

theorem attrBody_iff (d : Doc) (hwf : d.WF = true) (s : Step) (hs : s.attrOK v) (fd : Bool)
    (m : Nat) (hm : m < d.size) :
    attrBody v d (compileStep s fd) m ≠ .none ↔ selfSel d s m := by
  have hcs : (compileStep s fd).test = .t s.test := rfl
  have hcp : (compileStep s fd).preds = s.preds := rfl
  have hT := tester_attr_eq_testOK d s.test m
  -- when some predicate is not plain the tree has the findAttributes fix, and handleFoundIndex is exact
  have hnp : (s.preds.any fun p => !p.plain) = true →
      handleFoundIndex v d (compileStep s fd) m =
        (if (∃ p, d.parent m = some p ∧ m ∈ evalStep d p s) then Score.other else Score.none) := by
    intro h
    by_cases hv : v.findAttrFix = true
    · exact handleFoundIndex_attr d hwf s fd hs.1 hv m
    · exfalso
      obtain ⟨q, hq, hqq⟩ := List.any_eq_true.mp h
      rw [hs.2.2 (by simpa using hv) q hq] at hqq
      exact Bool.noConfusion hqq
  unfold attrBody
  simp only [hcs, hcp]
  rw [dsp_char]
  constructor
  · intro hne
    by_cases hg : (v.attrGuard && d.kind m != Kind.attr) = true
    · simp [hg] at hne
    · simp only [hg, Bool.false_eq_true, if_false] at hne
      by_cases ht : (tester d true (MTest.t s.test) m != Score.none) = true
      · rw [if_pos ht] at hne
        have hkm : d.kind m = .attr := by
          by_cases hag : v.attrGuard = true
          · by_cases hk : d.kind m = .attr
            · exact hk
            · exfalso; apply hg; simp [hag, hk]
          · exact tester_attr_kind d s.test (hs.2.1 (by simpa using hag)) m (by simpa using ht)
        have hm0 : m ≠ 0 := by
          intro h0
          rw [h0, wf_kind0 hwf] at hkm
          cases hkm
        obtain ⟨p, hp⟩ := wf_parent hwf hm0 hm
        by_cases hbad : (s.preds.any fun p => p.plain && !plainTrue d p m) = true
        · rw [if_pos hbad] at hne; exact absurd rfl hne
        · rw [if_neg hbad] at hne
          by_cases hnpl : (s.preds.any fun p => !p.plain) = true
          · rw [if_pos hnpl, hnp hnpl] at hne
            by_cases hex : ∃ p, d.parent m = some p ∧ m ∈ evalStep d p s
            · exact hex
            · rw [if_neg hex] at hne; exact absurd rfl hne
          · refine ⟨p, hp, ?_⟩
            unfold evalStep
            apply fold_all_plain
            · intro q hq
              have h1 : q.plain = true := by
                by_cases hq1 : q.plain = true
                · exact hq1
                · exfalso; apply hnpl
                  exact List.any_eq_true.mpr ⟨q, hq, by simpa using hq1⟩
              refine ⟨h1, ?_⟩
              by_cases hq2 : plainTrue d q m = true
              · exact hq2
              · exfalso; apply hbad
                exact List.any_eq_true.mpr ⟨q, hq, by simp [h1, hq2]⟩
            · rw [hs.1]
              simp only [if_true]
              refine List.mem_filter.mpr ⟨Doc.mem_attrs.mpr ⟨hp, hkm⟩, ?_⟩
              rw [← hT]; exact ht
      · rw [if_neg ht] at hne
        exfalso; apply ht
        simpa using hne
  · rintro ⟨p, hp, hmem⟩
    have hbase := fold_subset d s.preds _ m hmem
    rw [hs.1] at hbase
    simp only [if_true] at hbase
    have hkm := (Doc.mem_attrs.mp (List.mem_filter.mp hbase).1).2
    have htok := (List.mem_filter.mp hbase).2
    rw [← hT] at htok
    have hg : ¬ (v.attrGuard && d.kind m != Kind.attr) = true := by simp [hkm]
    simp only [hg, Bool.false_eq_true, if_false]
    rw [if_pos htok]
    have hpl := fold_plainTrue d s.preds _ m hmem
    have hbad : ¬ (s.preds.any fun p => p.plain && !plainTrue d p m) = true := by
      intro hb
      obtain ⟨q, hq, hqq⟩ := List.any_eq_true.mp hb
      simp only [Bool.and_eq_true, Bool.not_eq_true'] at hqq
      have := hpl q hq hqq.1
      rw [this] at hqq
      exact Bool.noConfusion hqq.2
    rw [if_neg hbad]
    have hex : ∃ p, d.parent m = some p ∧ m ∈ evalStep d p s := ⟨p, hp, hmem⟩
    by_cases hnpl : (s.preds.any fun p => !p.plain) = true
    · rw [if_pos hnpl, hnp hnpl, if_pos hex]; simp
    · rw [if_neg hnpl]; simpa using htok

theorem headAt_attr (d : Doc) (hwf : d.WF = true) (s : Step) (hs : s.attrOK v) (fd : Bool) (p : Nat) (hp : p < d.size)
    (c0 : Nat) :
    headAt v d (compileStep s fd) p = some c0 ↔ (c0 = p ∧ selfSel d s p) := by
  unfold headAt
  have hcode : ((compileStep s fd).code == Code.attr) = true := by simp [compileStep, hs.1]
  simp only [hcode, if_true]
  have hb := attrBody_iff (v := v) d hwf s hs fd p hp
  by_cases hsel : selfSel d s p
  · have : (attrBody v d (compileStep s fd) p != Score.none) = true := by
      rw [bne_iff_ne]; exact hb.mpr hsel
    simp only [this, if_true, Option.some.injEq]
    constructor
    · intro h; exact ⟨h.symm, hsel⟩
    · intro h; exact h.1.symm
  · have : ¬ (attrBody v d (compileStep s fd) p != Score.none) = true := by
      rw [bne_iff_ne]; exact fun h => hsel (hb.mp h)
    simp only [this]
    constructor
    · intro h; cases h
    · intro h; exact absurd h.2 hsel

/-- the last step of a pattern of the class: a simple child-axis step or an attribute step of the class -/
def Step.lastOK (v : Variant) (s : Step) : Prop := s.simple v ∨ s.attrOK v

/-- steps of the class: all simple, except that the last one may be an attribute step -/
def StepsOK (v : Variant) : List (Sep × Step) → Prop
  | [] => True
  | [x] => x.2.lastOK v
  | x :: y :: r => x.2.simple v ∧ StepsOK v (y :: r)

theorem headAt_last (d : Doc) (hwf : d.WF = true) (s : Step) (hs : s.lastOK v) (p : Nat) (hp : p < d.size) (c0 : Nat) :
    headAt v d (compileStep s false) p = some c0 ↔ (c0 = p ∧ selfSel d s p) := by
  rcases hs with hs | hs
  · exact headAt_imm d hwf s hs p hp c0
  · exact headAt_attr d hwf s hs false p hp c0

/-- how two consecutive chain nodes are related by the separator between their steps -/
def link (d : Doc) : Sep → Nat → Nat → Prop
  | .child, c, c' => d.parent c' = some c
  | .desc, c, c' => ∃ p, d.parent c' = some p ∧ Anc d c p

/-- `Reach d steps c n`: there are nodes, one per step, each selected by its step from its own parent, linked as
the separators say, the first being `c` and the last `n` -/
def Reach (d : Doc) : List (Sep × Step) → Nat → Nat → Prop
  | [], _, _ => False
  | [(_, s)], c, n => c = n ∧ selfSel d s c
  | (_, s) :: (sep', s') :: r, c, n => selfSel d s c ∧ ∃ c', link d sep' c c' ∧ Reach d ((sep', s') :: r) c' n

theorem link_anc {d : Doc} {sep : Sep} {c c' : Nat} (h : link d sep c c') : Anc d c c' := by
  cases sep with
  | child => exact Anc.step h (Anc.refl _)
  | desc => obtain ⟨p, hp, ha⟩ := h; exact Anc.step hp ha

theorem reach_anc {d : Doc} {steps : List (Sep × Step)} {c n : Nat} (h : Reach d steps c n) : Anc d c n := by
  induction steps generalizing c with
  | nil => exact absurd h (by simp [Reach])
  | cons x rest ih =>
    obtain ⟨sep, s⟩ := x
    cases rest with
    | nil => simp only [Reach] at h; rw [h.1]; exact Anc.refl _
    | cons y r =>
      obtain ⟨sep', s'⟩ := y
      simp only [Reach] at h
      obtain ⟨_, c', hl, hr⟩ := h
      exact (link_anc hl).trans (ih hr)

theorem compileSteps_cons2 (sep : Sep) (s : Step) (sep' : Sep) (s' : Step) (r : List (Sep × Step)) :
    compileSteps ((sep, s) :: (sep', s') :: r) = compileStep s (sep' == .desc) :: compileSteps ((sep', s') :: r) := by
  simp [compileSteps]

theorem compileSteps_ne_nil (x : Sep × Step) (r : List (Sep × Step)) : compileSteps (x :: r) ≠ [] := by
  obtain ⟨sep, s⟩ := x
  cases r with
  | nil => simp [compileSteps]
  | cons y r => obtain ⟨sep', s'⟩ := y; simp [compileSteps]

theorem chain_cons2 (d : Doc) (c : MStep) (L : List MStep) (hL : L ≠ []) (n : Nat) :
    chain v d (c :: L) n =
      match chain v d L n with
      | none => none
      | some x => match d.parent x with
        | none => none
        | some p => headAt v d c p := by
  cases L with
  | nil => exact absurd rfl hL
  | cons c' r =>
    cases hch : chain v d (c' :: r) n with
    | none => simp [chain, hch]
    | some x => cases hp : d.parent x <;> simp [chain, hch, hp]

/-- soundness: whatever node the matcher settles on for the leftmost step heads a chain of the specification -/
theorem chain_sound (d : Doc) (hwf : d.WF = true) (steps : List (Sep × Step)) (hs : StepsOK v steps)
    (n : Nat) (hn : n < d.size) (c0 : Nat) (h : chain v d (compileSteps steps) n = some c0) :
    Reach d steps c0 n := by
  induction steps generalizing c0 with
  | nil => simp [compileSteps, chain] at h
  | cons x rest ih =>
    obtain ⟨sep, s⟩ := x
    cases rest with
    | nil =>
      simp only [compileSteps, chain] at h
      have := (headAt_last d hwf s hs n hn c0).mp h
      simp only [Reach]
      exact ⟨this.1, this.1 ▸ this.2⟩
    | cons y r =>
      obtain ⟨sep', s'⟩ := y
      have hss : s.simple v := hs.1
      rw [compileSteps_cons2, chain_cons2 d _ _ (compileSteps_ne_nil _ _)] at h
      cases hch : chain v d (compileSteps ((sep', s') :: r)) n with
      | none => simp [hch] at h
      | some x =>
        have hr := ih hs.2 x hch
        have hxn := (reach_anc hr).le
        simp only [hch] at h
        cases hp : d.parent x with
        | none => simp [hp] at h
        | some p =>
          simp only [hp] at h
          have hpl := Doc.parent_lt hp
          simp only [Reach]
          cases sep' with
          | child =>
            have hb : (Sep.child == Sep.desc) = false := by decide
            rw [hb] at h
            have := (headAt_imm d hwf s hss p (by omega) c0).mp h
            refine ⟨this.1 ▸ this.2, x, ?_, hr⟩
            simp only [link]; rw [this.1]; exact hp
          | desc =>
            have hb : (Sep.desc == Sep.desc) = true := by decide
            rw [hb] at h
            have := headAt_any_sound d hwf s hss p (by omega) c0 h
            exact ⟨this.2, x, ⟨p, hp, this.1⟩, hr⟩



/-- every `//` separator between steps comes before every `/` separator between steps -/
def descPrefix : List (Sep × Step) → Bool
  | [] => true
  | [_] => true
  | _ :: (sep', s') :: r => if sep' == .desc then descPrefix ((sep', s') :: r) else r.all (fun y => y.1 == .child)

theorem allChild_descPrefix (x : Sep × Step) (r : List (Sep × Step)) (h : r.all (fun y => y.1 == .child) = true) :
    descPrefix (x :: r) = true := by
  induction r generalizing x with
  | nil => rfl
  | cons y r ih =>
    obtain ⟨sep', s'⟩ := y
    simp only [List.all_cons, Bool.and_eq_true, beq_iff_eq] at h
    simp only [descPrefix, h.1]
    have : (Sep.child == Sep.desc) = false := by decide
    simp only [this, Bool.false_eq_true, if_false]
    exact h.2

/-- the leftmost step of `steps` is followed by `/` (or by nothing) -/
def headI : List (Sep × Step) → Prop
  | _ :: (sep', _) :: _ => sep' = .child
  | _ => True

theorem anc_parent {d : Doc} {a x p : Nat} (h : Anc d a x) (hp : d.parent a = some p) :
    ∃ p0, d.parent x = some p0 ∧ Anc d p p0 := by
  induction h with
  | refl => exact ⟨p, hp, Anc.refl _⟩
  | step hq hanc ih =>
    rename_i n q
    obtain ⟨q0, hq0, ha⟩ := ih
    exact ⟨q, hq, Anc.step hq0 ha⟩

/-- completeness on the class: if the specification has a chain, the matcher settles on a node at or below the
chain's first node (exactly on it while only `/` separators have been crossed) -/
theorem chain_complete (d : Doc) (hwf : d.WF = true) (steps : List (Sep × Step)) (hs : StepsOK v steps)
    (hd : descPrefix steps = true) (n : Nat) (hn : n < d.size) (c : Nat) (h : Reach d steps c n) :
    ∃ c0, chain v d (compileSteps steps) n = some c0 ∧ Anc d c c0 ∧ (headI steps → c0 = c) := by
  induction steps generalizing c with
  | nil => simp [Reach] at h
  | cons x rest ih =>
    obtain ⟨sep, s⟩ := x
    cases rest with
    | nil =>
      simp only [Reach] at h
      obtain ⟨rfl, hsel⟩ := h
      refine ⟨c, ?_, Anc.refl _, fun _ => rfl⟩
      simp only [compileSteps, chain]
      exact (headAt_last d hwf s hs c hn c).mpr ⟨rfl, hsel⟩
    | cons y r =>
      obtain ⟨sep', s'⟩ := y
      have hss : s.simple v := hs.1
      simp only [Reach] at h
      obtain ⟨hsel, c', hl, hr⟩ := h
      have hs' : StepsOK v ((sep', s') :: r) := hs.2
      rw [compileSteps_cons2, chain_cons2 d _ _ (compileSteps_ne_nil _ _)]
      cases sep' with
      | child =>
        have hall : r.all (fun y => y.1 == Sep.child) = true := by
          simpa [descPrefix] using hd
        obtain ⟨c0', hch, hanc, hI⟩ := ih hs' (allChild_descPrefix _ _ hall) c' hr
        have hc0 : c0' = c' := by
          apply hI
          cases r with
          | nil => trivial
          | cons z r' =>
            obtain ⟨sep'', s''⟩ := z
            simp only [List.all_cons, Bool.and_eq_true, beq_iff_eq] at hall
            exact hall.1
        subst hc0
        simp only [link] at hl
        have hle := (reach_anc hr).le
        have hlt := Doc.parent_lt hl
        refine ⟨c, ?_, Anc.refl _, fun _ => rfl⟩
        simp only [hch, hl]
        have hb : (Sep.child == Sep.desc) = false := by decide
        rw [hb]
        exact (headAt_imm d hwf s hss c (by omega) c).mpr ⟨rfl, hsel⟩
      | desc =>
        have hd' : descPrefix ((Sep.desc, s') :: r) = true := by
          simpa [descPrefix] using hd
        obtain ⟨c0', hch, hanc, _⟩ := ih hs' hd' c' hr
        obtain ⟨p, hp, hcp⟩ := hl
        obtain ⟨p0, hp0, hpp0⟩ := anc_parent hanc hp
        have hr0 := chain_sound d hwf _ hs' n hn c0' hch
        have hle := (reach_anc hr0).le
        have hlt := Doc.parent_lt hp0
        obtain ⟨c0, hh, hac⟩ := headAt_any_complete d hwf s hss p0 (by omega) (wf_parent_kind hwf hp0) c
          (hcp.trans hpp0) hsel
        refine ⟨c0, ?_, hac, fun hI => ?_⟩
        · simp only [hch, hp0]
          have hb : (Sep.desc == Sep.desc) = true := by decide
          rw [hb]
          exact hh
        · simp only [headI] at hI
          cases hI



theorem isAncOrSelfF_iff (d : Doc) (a : Nat) (fuel n : Nat) (h : n ≤ fuel) :
    d.isAncOrSelfF a fuel n = true ↔ Anc d a n := by
  induction fuel generalizing n with
  | zero =>
    have : n = 0 := by omega
    subst this
    simp only [Doc.isAncOrSelfF, beq_iff_eq]
    constructor
    · rintro rfl; exact Anc.refl _
    · exact Anc.zero
  | succ fuel ih =>
    simp only [Doc.isAncOrSelfF, Bool.or_eq_true, beq_iff_eq]
    constructor
    · rintro (rfl | hm)
      · exact Anc.refl _
      · cases hp : d.parent n with
        | none => simp [hp] at hm
        | some p =>
          simp only [hp] at hm
          have := Doc.parent_lt hp
          exact Anc.step hp ((ih p (by omega)).mp hm)
    · intro ha
      cases ha with
      | refl => exact Or.inl rfl
      | step hp hanc =>
        right
        simp only [hp]
        have := Doc.parent_lt hp
        exact (ih _ (by omega)).mpr hanc

theorem isAncOrSelf_iff (d : Doc) (a n : Nat) : d.isAncOrSelf a n = true ↔ Anc d a n :=
  isAncOrSelfF_iff d a n n (Nat.le_refl _)

theorem wf_anc_root {d : Doc} (hwf : d.WF = true) (i : Nat) (hi : i < d.size) : Anc d 0 i := by
  induction i using Nat.strongRecOn with
  | _ i ih =>
    by_cases h0 : i = 0
    · subst h0; exact Anc.refl _
    · obtain ⟨p, hp⟩ := wf_parent hwf h0 hi
      have := Doc.parent_lt hp
      exact Anc.step hp (ih p this (by omega))

/-- a parent node is in `descendant-or-self::node()` of `c` exactly when `c` is its ancestor-or-self -/
theorem parent_mem_descOrSelf {d : Doc} (hwf : d.WF = true) {m p : Nat} (hp : d.parent m = some p) (c : Nat) :
    p ∈ d.descOrSelf c ↔ Anc d c p := by
  have hlt := Doc.parent_lt hp
  have hsz := Doc.parent_lt_size hp
  have hk := wf_parent_kind hwf hp
  simp only [Doc.descOrSelf, List.mem_filter, List.mem_range, Bool.or_eq_true, beq_iff_eq, Bool.and_eq_true,
    bne_iff_ne, ne_eq, isAncOrSelf_iff]
  constructor
  · rintro ⟨_, (rfl | ⟨h, _⟩)⟩
    · exact Anc.refl _
    · exact h
  · intro h
    exact ⟨by omega, Or.inr ⟨h, hk⟩⟩

theorem mem_evalStep_iff (d : Doc) (s : Step) (x m : Nat) :
    m ∈ evalStep d x s ↔ d.parent m = some x ∧ selfSel d s m := by
  constructor
  · intro hm
    have hb := fold_subset d s.preds _ m hm
    have hp : d.parent m = some x := by
      have hb1 := (List.mem_filter.mp hb).1
      by_cases ha : s.attrAxis = true
      · rw [if_pos ha] at hb1; exact (Doc.mem_attrs.mp hb1).1
      · rw [if_neg ha] at hb1; exact (Doc.mem_children.mp hb1).1
    exact ⟨hp, x, hp, hm⟩
  · rintro ⟨hp, p, hp', hm⟩
    rw [hp] at hp'
    cases hp'
    exact hm

/-- the forward semantics below the first step, as a chain -/
theorem reach_iff_fwd (d : Doc) (hwf : d.WF = true) (sep : Sep) (s : Step) (r : List (Sep × Step))
    (c n : Nat) :
    Reach d ((sep, s) :: r) c n ↔ (selfSel d s c ∧ fwd d r c n = true) := by
  induction r generalizing sep s c with
  | nil =>
    simp only [Reach, fwd, beq_iff_eq]
    exact ⟨fun h => ⟨h.2, h.1⟩, fun h => ⟨h.2, h.1⟩⟩
  | cons y r ih =>
    obtain ⟨sep', s'⟩ := y
    have ih' := fun c' => ih sep' s' c'
    simp only [Reach]
    apply and_congr_right
    intro _
    cases sep' with
    | child =>
      simp only [fwd, List.any_eq_true, link]
      constructor
      · rintro ⟨c', hl, hr⟩
        have := (ih' c').mp hr
        exact ⟨c', (mem_evalStep_iff d s' c c').mpr ⟨hl, this.1⟩, this.2⟩
      · rintro ⟨c', hm, hf⟩
        have := (mem_evalStep_iff d s' c c').mp hm
        exact ⟨c', this.1, (ih' c').mpr ⟨this.2, hf⟩⟩
    | desc =>
      simp only [fwd, List.any_eq_true, link]
      constructor
      · rintro ⟨c', ⟨p, hp, ha⟩, hr⟩
        have := (ih' c').mp hr
        exact ⟨p, (parent_mem_descOrSelf hwf hp c).mpr ha, c',
          (mem_evalStep_iff d s' p c').mpr ⟨hp, this.1⟩, this.2⟩
      · rintro ⟨p, hpd, c', hm, hf⟩
        have := (mem_evalStep_iff d s' p c').mp hm
        exact ⟨c', ⟨p, this.1, (parent_mem_descOrSelf hwf this.1 c).mp hpd⟩, (ih' c').mpr ⟨this.2, hf⟩⟩



theorem matchesPath_rel (d : Doc) (hwf : d.WF = true) (s1 : Step) (r : List (Sep × Step))
    (n : Nat) :
    matchesPath d ⟨false, (.child, s1) :: r⟩ n = true ↔ ∃ c, Reach d ((.child, s1) :: r) c n := by
  unfold matchesPath selects
  simp only [Bool.false_eq_true, if_false, fwd, List.any_eq_true]
  constructor
  · rintro ⟨A, _, m, hm, hf⟩
    have := (mem_evalStep_iff d s1 A m).mp hm
    exact ⟨m, (reach_iff_fwd d hwf .child s1 r m n).mpr ⟨this.2, hf⟩⟩
  · rintro ⟨c, hr⟩
    have h := (reach_iff_fwd d hwf .child s1 r c n).mp hr
    obtain ⟨p, hp, hm⟩ := h.1
    refine ⟨p, ?_, c, hm, h.2⟩
    exact (mem_ancOrSelf d p n).mpr ((Anc.step hp (Anc.refl _)).trans (reach_anc hr))

theorem matchesPath_absdesc (d : Doc) (hwf : d.WF = true) (s1 : Step) (r : List (Sep × Step))
    (n : Nat) :
    matchesPath d ⟨true, (.desc, s1) :: r⟩ n = true ↔ ∃ c, Reach d ((.desc, s1) :: r) c n := by
  unfold matchesPath selects
  simp only [if_true, fwd, List.any_eq_true]
  constructor
  · rintro ⟨_, _, x, _, m, hm, hf⟩
    have := (mem_evalStep_iff d s1 x m).mp hm
    exact ⟨m, (reach_iff_fwd d hwf .desc s1 r m n).mpr ⟨this.2, hf⟩⟩
  · rintro ⟨c, hr⟩
    have h := (reach_iff_fwd d hwf .desc s1 r c n).mp hr
    obtain ⟨p, hp, hm⟩ := h.1
    have hpsz : p < d.size := by
      have := Doc.parent_lt hp
      have := Doc.parent_lt_size hp
      omega
    exact ⟨n, (mem_ancOrSelf d n n).mpr (Anc.refl _), p,
      (parent_mem_descOrSelf hwf hp 0).mpr (wf_anc_root hwf p hpsz), c, hm, h.2⟩

theorem compileStep_up (s : Step) (fd : Bool) : (compileStep s fd).code.up = true := by
  cases fd <;> by_cases h : s.attrAxis = true <;> simp [compileStep, h, Code.up]

theorem compileSteps_up (steps : List (Sep × Step)) : ∀ c ∈ compileSteps steps, c.code.up = true := by
  induction steps with
  | nil => intro c hc; simp [compileSteps] at hc
  | cons x rest ih =>
    obtain ⟨sep, s⟩ := x
    cases rest with
    | nil =>
      intro c hc
      simp only [compileSteps, List.mem_singleton] at hc
      subst hc
      exact compileStep_up s false
    | cons y r =>
      obtain ⟨sep', s'⟩ := y
      intro c hc
      rw [compileSteps_cons2] at hc
      rcases List.mem_cons.mp hc with rfl | hc'
      · exact compileStep_up s _
      · exact ih c hc'

theorem rootExit_cons2 (d : Doc) (c : MStep) (L : List MStep) (hL : L ≠ []) (n : Nat) :
    rootExit v d (c :: L) n =
      match chain v d L n with
      | none => false
      | some x => (d.parent x).isNone := by
  cases L with
  | nil => exact absurd rfl hL
  | cons c' r => cases hch : chain v d (c' :: r) n <;> simp [rootExit, hch]

theorem rootExit_false (d : Doc) (hwf : d.WF = true) (steps : List (Sep × Step)) (hs : StepsOK v steps)
    (n : Nat) (hn : n < d.size) : rootExit v d (compileSteps steps) n = false := by
  cases steps with
  | nil => simp [compileSteps, rootExit]
  | cons x rest =>
    obtain ⟨sep, s⟩ := x
    cases rest with
    | nil => simp [compileSteps, rootExit]
    | cons y r =>
      obtain ⟨sep', s'⟩ := y
      rw [compileSteps_cons2, rootExit_cons2 d _ _ (compileSteps_ne_nil _ _)]
      cases hch : chain v d (compileSteps ((sep', s') :: r)) n with
      | none => rfl
      | some x =>
        have hr := chain_sound d hwf _ hs.2 n hn x hch
        have hsel : selfSel d s' x := by
          cases r with
          | nil => simp only [Reach] at hr; exact hr.2
          | cons z r' => obtain ⟨sep'', s''⟩ := z; simp only [Reach] at hr; exact hr.1
        obtain ⟨p, hp, _⟩ := hsel
        simp [hp]

/-- the pseudo-step compiled for a leading `//` -/
def leadDesc : MStep := { code := .anyAncPred, test := .t .node, preds := [] }

theorem headAt_leadDesc (d : Doc) (p : Nat) (hk : d.kind p ≠ .attr) : headAt v d leadDesc p = some p := by
  unfold headAt
  have hk' : (d.kind p != Kind.attr) = true := by simpa using hk
  have hb : ∀ a, (anyBody v d leadDesc a != Score.none) = true := by
    intro a; simp [anyBody, childTest, leadDesc, tester, doStepPredicate]
  have : (leadDesc.code == Code.immAnc) = false := by decide
  have hna : (leadDesc.code == Code.attr) = false := by decide
  simp only [hna, hk', if_true, this, Bool.false_eq_true, if_false]
  unfold Doc.ancOrSelf
  cases p with
  | zero => simp [Doc.ancOrSelfF, hb]
  | succ k => simp [Doc.ancOrSelfF, hb]



theorem chain_isSome_iff_reach (d : Doc) (hwf : d.WF = true) (steps : List (Sep × Step))
    (hs : StepsOK v steps) (hd : descPrefix steps = true) (n : Nat) (hn : n < d.size) :
    (chain v d (compileSteps steps) n).isSome = true ↔ ∃ c, Reach d steps c n := by
  constructor
  · intro h
    obtain ⟨c0, hc0⟩ := Option.isSome_iff_exists.mp h
    exact ⟨c0, chain_sound d hwf steps hs n hn c0 hc0⟩
  · rintro ⟨c, hr⟩
    obtain ⟨c0, hc0, _⟩ := chain_complete d hwf steps hs hd n hn c hr
    simp [hc0]

/-- relative pattern of the class: `s1 sep2 s2 …`, every `//` before every `/` -/
theorem lpp_rel_iff (d : Doc) (hwf : d.WF = true) (s1 : Step) (r : List (Sep × Step))
    (hs : StepsOK v ((Sep.child, s1) :: r)) (hd : descPrefix ((Sep.child, s1) :: r) = true)
    (n : Nat) (hn : n < d.size) :
    locationPathPattern v d (compilePath ⟨false, (.child, s1) :: r⟩) n ≠ .none ↔
      matchesPath d ⟨false, (.child, s1) :: r⟩ n = true := by
  have hcp : compilePath ⟨false, (Sep.child, s1) :: r⟩ = compileSteps ((Sep.child, s1) :: r) := by
    simp [compilePath]
  rw [hcp]
  unfold locationPathPattern
  rw [(stepPattern_chain d _ n .none (compileSteps_up _) (compileSteps_ne_nil _ _)).2,
    rootExit_false d hwf _ hs n hn, chain_isSome_iff_reach d hwf _ hs hd n hn,
    matchesPath_rel d hwf s1 r n]
  simp

/-- pattern of the class with a leading `//` -/
theorem lpp_absdesc_iff (d : Doc) (hwf : d.WF = true) (s1 : Step) (r : List (Sep × Step))
    (hs : StepsOK v ((Sep.desc, s1) :: r)) (hd : descPrefix ((Sep.desc, s1) :: r) = true)
    (n : Nat) (hn : n < d.size) :
    locationPathPattern v d (compilePath ⟨true, (.desc, s1) :: r⟩) n ≠ .none ↔
      matchesPath d ⟨true, (.desc, s1) :: r⟩ n = true := by
  have hcp : compilePath ⟨true, (Sep.desc, s1) :: r⟩ = leadDesc :: compileSteps ((Sep.desc, s1) :: r) := by
    simp [compilePath, leadDesc]
  have hup : ∀ c ∈ leadDesc :: compileSteps ((Sep.desc, s1) :: r), c.code.up = true := by
    intro c hc
    rcases List.mem_cons.mp hc with rfl | hc'
    · decide
    · exact compileSteps_up _ c hc'
  rw [hcp]
  unfold locationPathPattern
  rw [(stepPattern_chain d _ n .none hup (by simp)).2,
    chain_cons2 d _ _ (compileSteps_ne_nil _ _), rootExit_cons2 d _ _ (compileSteps_ne_nil _ _),
    matchesPath_absdesc d hwf s1 r n,
    ← chain_isSome_iff_reach d hwf _ hs hd n hn]
  cases hch : chain v d (compileSteps ((Sep.desc, s1) :: r)) n with
  | none => simp
  | some x =>
    cases hp : d.parent x with
    | none => simp [hp]
    | some p => simp [hp, headAt_leadDesc d p (wf_parent_kind hwf hp)]



/-- the step compiled for a leading `/` -/
def leadRoot : MStep := { code := .fromRoot, test := .root, preds := [] }

theorem evalStepAt_leadRoot (d : Doc) (nc : Option Code) (hnc : nc ≠ some .anyAnc ∧ nc ≠ some .anyAncPred)
    (p : Nat) (sh : Score) :
    ((evalStepAt v d leadRoot nc p sh).2 ≠ .none ↔ d.kind p = .root) := by
  unfold evalStepAt leadRoot
  by_cases hk : d.kind p = .root
  · simp [hk, doStepPredicate]
    split <;> simp_all
  · have h1 : (nc == some Code.anyAnc) = false := by simpa using hnc.1
    have h2 : (nc == some Code.anyAncPred) = false := by simpa using hnc.2
    simp [hk, h1, h2]

theorem wf_kind_root {d : Doc} (hwf : d.WF = true) {i : Nat} (hi : i < d.size) (hk : d.kind i = .root) : i = 0 := by
  by_cases h0 : i = 0
  · exact h0
  · have := wf_node hwf hi
    unfold Doc.wfNode at this
    rw [if_neg h0] at this
    simp only [Bool.and_eq_true, bne_iff_ne] at this
    exact absurd hk this.1

theorem compileSteps_head_code (sep : Sep) (s : Step) (r : List (Sep × Step))
    (hall : r.all (fun y => y.1 == .child) = true) :
    ∃ c' r', compileSteps ((sep, s) :: r) = c' :: r' ∧ (c'.code ≠ .anyAnc ∧ c'.code ≠ .anyAncPred) := by
  cases r with
  | nil =>
    refine ⟨_, [], rfl, ?_⟩
    by_cases h : s.attrAxis = true <;> simp [compileStep, h]
  | cons y r =>
    obtain ⟨sep', s'⟩ := y
    simp only [List.all_cons, Bool.and_eq_true, beq_iff_eq] at hall
    refine ⟨_, _, compileSteps_cons2 sep s sep' s' r, ?_⟩
    rw [hall.1]
    by_cases h : s.attrAxis = true <;> simp [compileStep, h]

theorem headI_of_allChild (x : Sep × Step) (r : List (Sep × Step)) (hall : r.all (fun y => y.1 == .child) = true) :
    headI (x :: r) := by
  cases r with
  | nil => trivial
  | cons y r =>
    obtain ⟨sep', s'⟩ := y
    simp only [List.all_cons, Bool.and_eq_true, beq_iff_eq] at hall
    exact hall.1

/-- absolute pattern `/s1/s2/…/sk` (only `/` separators) -/
theorem lpp_absroot_iff (d : Doc) (hwf : d.WF = true) (s1 : Step) (r : List (Sep × Step))
    (hs : StepsOK v ((Sep.child, s1) :: r)) (hall : r.all (fun y => y.1 == .child) = true)
    (n : Nat) (hn : n < d.size) :
    locationPathPattern v d (compilePath ⟨true, (.child, s1) :: r⟩) n ≠ .none ↔
      matchesPath d ⟨true, (.child, s1) :: r⟩ n = true := by
  obtain ⟨c', r', hcs, hcode⟩ := compileSteps_head_code .child s1 r hall
  have hcp : compilePath ⟨true, (Sep.child, s1) :: r⟩ = leadRoot :: c' :: r' := by
    simp [compilePath, leadRoot, hcs]
  have hup : ∀ c ∈ c' :: r', c.code.up = true := by
    rw [← hcs]; exact compileSteps_up _
  have hsp := stepPattern_chain (v := v) d (c' :: r') n .none hup (by simp)
  have hre : rootExit v d (c' :: r') n = false := by rw [← hcs]; exact rootExit_false d hwf _ hs n hn
  have hdp := allChild_descPrefix (Sep.child, s1) r hall
  -- specification side
  have hspec : matchesPath d ⟨true, (.child, s1) :: r⟩ n = true ↔
      ∃ m, Reach d ((.child, s1) :: r) m n ∧ d.parent m = some 0 := by
    unfold matchesPath selects
    simp only [if_true, fwd, List.any_eq_true]
    constructor
    · rintro ⟨_, _, m, hm, hf⟩
      have := (mem_evalStep_iff d s1 0 m).mp hm
      exact ⟨m, (reach_iff_fwd d hwf .child s1 r m n).mpr ⟨this.2, hf⟩, this.1⟩
    · rintro ⟨m, hr, hp⟩
      have h := (reach_iff_fwd d hwf .child s1 r m n).mp hr
      exact ⟨n, (mem_ancOrSelf d n n).mpr (Anc.refl _), m,
        (mem_evalStep_iff d s1 0 m).mpr ⟨hp, h.1⟩, h.2⟩
  rw [hspec, hcp]
  unfold locationPathPattern
  simp only [stepPattern]
  rw [hsp.1]
  cases hch : chain v d (c' :: r') n with
  | none =>
    simp only [ne_eq, not_true_eq_false, false_iff]
    rintro ⟨m, hr, _⟩
    obtain ⟨c0, hc0, _⟩ := chain_complete d hwf _ hs hdp n hn m hr
    rw [hcs, hch] at hc0
    cases hc0
  | some x =>
    have h2 : (stepPattern v d (c' :: r') n Score.none).2 ≠ .none := hsp.2.mpr (Or.inl (by simp [hch]))
    have h2' : ((stepPattern v d (c' :: r') n Score.none).2 == Score.none) = false := by simpa using h2
    have hrx : Reach d ((.child, s1) :: r) x n := chain_sound d hwf _ hs n hn x (by rw [hcs]; exact hch)
    have hxle := (reach_anc hrx).le
    simp only [h2', Bool.false_eq_true, if_false]
    cases hp : d.parent x with
    | none =>
      -- impossible: x is selected by s1 from its parent
      have hsel : selfSel d s1 x := by
        cases r with
        | nil => simp only [Reach] at hrx; exact hrx.2
        | cons z r'' => obtain ⟨sep'', s''⟩ := z; simp only [Reach] at hrx; exact hrx.1
      obtain ⟨p, hp', _⟩ := hsel
      rw [hp] at hp'; cases hp'
    | some p =>
      simp only []
      rw [evalStepAt_leadRoot d (some c'.code) (by simpa using hcode) p .other]
      have hpl := Doc.parent_lt hp
      constructor
      · intro hk
        have := wf_kind_root hwf (by omega : p < d.size) hk
        subst this
        exact ⟨x, hrx, hp⟩
      · rintro ⟨m, hr, hpm⟩
        obtain ⟨c0, hc0, _, hI⟩ := chain_complete d hwf _ hs hdp n hn m hr
        rw [hcs, hch] at hc0
        cases hc0
        have := hI (headI_of_allChild _ r hall)
        subst this
        rw [hp] at hpm
        cases hpm
        exact wf_kind0 hwf

/-- the pattern `/` -/
theorem lpp_slash_iff (d : Doc) (hwf : d.WF = true) (n : Nat) (hn : n < d.size) :
    locationPathPattern v d (compilePath ⟨true, []⟩) n ≠ .none ↔ matchesPath d ⟨true, []⟩ n = true := by
  have hcp : compilePath ⟨true, []⟩ = [leadRoot] := by simp [compilePath, leadRoot, compileSteps]
  rw [hcp]
  unfold locationPathPattern
  simp only [stepPattern]
  rw [evalStepAt_leadRoot d none ⟨by simp, by simp⟩ n .none]
  unfold matchesPath selects
  simp only [if_true, fwd, List.any_eq_true, beq_iff_eq]
  constructor
  · intro hk
    have := wf_kind_root hwf hn hk
    exact ⟨n, (mem_ancOrSelf d n n).mpr (Anc.refl _), this.symm⟩
  · rintro ⟨_, _, h0⟩
    rw [← h0]; exact wf_kind0 hwf



/-- no spurious match, any order of separators: relative pattern -/
theorem lpp_rel_sound (d : Doc) (hwf : d.WF = true) (s1 : Step) (r : List (Sep × Step))
    (hs : StepsOK v ((Sep.child, s1) :: r)) (n : Nat) (hn : n < d.size)
    (h : locationPathPattern v d (compilePath ⟨false, (.child, s1) :: r⟩) n ≠ .none) :
    matchesPath d ⟨false, (.child, s1) :: r⟩ n = true := by
  have hcp : compilePath ⟨false, (Sep.child, s1) :: r⟩ = compileSteps ((Sep.child, s1) :: r) := by
    simp [compilePath]
  rw [hcp] at h
  unfold locationPathPattern at h
  rw [(stepPattern_chain d _ n .none (compileSteps_up _) (compileSteps_ne_nil _ _)).2,
    rootExit_false d hwf _ hs n hn] at h
  simp only [Bool.false_eq_true, or_false] at h
  obtain ⟨c0, hc0⟩ := Option.isSome_iff_exists.mp h
  exact (matchesPath_rel d hwf s1 r n).mpr ⟨c0, chain_sound d hwf _ hs n hn c0 hc0⟩

/-- no spurious match, any order of separators: pattern with a leading `//` -/
theorem lpp_absdesc_sound (d : Doc) (hwf : d.WF = true) (s1 : Step) (r : List (Sep × Step))
    (hs : StepsOK v ((Sep.desc, s1) :: r)) (n : Nat) (hn : n < d.size)
    (h : locationPathPattern v d (compilePath ⟨true, (.desc, s1) :: r⟩) n ≠ .none) :
    matchesPath d ⟨true, (.desc, s1) :: r⟩ n = true := by
  have hcp : compilePath ⟨true, (Sep.desc, s1) :: r⟩ = leadDesc :: compileSteps ((Sep.desc, s1) :: r) := by
    simp [compilePath, leadDesc]
  have hup : ∀ c ∈ leadDesc :: compileSteps ((Sep.desc, s1) :: r), c.code.up = true := by
    intro c hc
    rcases List.mem_cons.mp hc with rfl | hc'
    · decide
    · exact compileSteps_up _ c hc'
  rw [hcp] at h
  unfold locationPathPattern at h
  rw [(stepPattern_chain d _ n .none hup (by simp)).2,
    chain_cons2 d _ _ (compileSteps_ne_nil _ _), rootExit_cons2 d _ _ (compileSteps_ne_nil _ _)] at h
  rw [matchesPath_absdesc d hwf s1 r n]
  cases hch : chain v d (compileSteps ((Sep.desc, s1) :: r)) n with
  | none => simp [hch] at h
  | some x => exact ⟨x, chain_sound d hwf _ hs n hn x hch⟩



/-! ## the backtracking matcher (`lppB`) -/

/-- how a left step is compiled, given the separator to its right -/
def cmpL (x : Sep × Step) : MStep := compileStep x.2 (x.1 == .desc)

/-- right-to-left chain of the specification: `acc` lists, nearest first, the steps to the left of a step whose
node is `x`, each with the separator on its right; `c` is the node of the leftmost one -/
def UpR (d : Doc) : List (Sep × Step) → Nat → Nat → Prop
  | [], x, c => c = x
  | (sep, s) :: rest, x, c => ∃ y, link d sep y x ∧ selfSel d s y ∧ UpR d rest y c

theorem stepAtB_simple (d : Doc) (hwf : d.WF = true) (s : Step) (hs : s.simple v) (fd : Bool) (a : Nat)
    (ha : a < d.size) : (stepAtB v d (compileStep s fd) a != .none) = true ↔ selfSel d s a := by
  have hcode : (compileStep s fd).code = .anyAnc ∨ (compileStep s fd).code = .immAnc := by
    cases fd <;> simp [compileStep, hs.1]
  unfold stepAtB
  by_cases hk : d.kind a = .attr
  · have : ¬ selfSel d s a := fun h => selfSel_not_attr d s hs.1 a h hk
    rcases hcode with hc | hc <;> simp [hc, hk, this]
  · have hk' : (d.kind a != Kind.attr) = true := by simpa using hk
    have := body_iff_selfSel (v := v) d hwf s hs fd a ha hk
    rcases hcode with hc | hc <;> simp only [hc, hk', if_true] <;> exact this

theorem stepAtB_last (d : Doc) (hwf : d.WF = true) (s : Step) (hs : s.lastOK v) (a : Nat) (ha : a < d.size) :
    (stepAtB v d (compileStep s false) a != .none) = true ↔ selfSel d s a := by
  rcases hs with hs | hs
  · exact stepAtB_simple d hwf s hs false a ha
  · have hcode : (compileStep s false).code = .attr := by simp [compileStep, hs.1]
    unfold stepAtB
    simp only [hcode, bne_iff_ne]
    exact attrBody_iff (v := v) d hwf s hs false a ha

theorem UpR_le {d : Doc} {acc : List (Sep × Step)} {x c : Nat} (h : UpR d acc x c) : c ≤ x := by
  induction acc generalizing x with
  | nil => simp only [UpR] at h; omega
  | cons e rest ih =>
    obtain ⟨sep, s⟩ := e
    simp only [UpR] at h
    obtain ⟨y, hl, _, hr⟩ := h
    have := (link_anc hl).le
    have := ih hr
    omega

theorem selfSel_attr_kind (d : Doc) (s : Step) (h : s.attrAxis = true) (y : Nat) (hs : selfSel d s y) :
    d.kind y = .attr := by
  obtain ⟨p, _, hm⟩ := hs
  have hb := fold_subset d s.preds _ y hm
  rw [h] at hb
  simp only [if_true] at hb
  exact (Doc.mem_attrs.mp (List.mem_filter.mp hb).1).2

theorem stepsOK_all {steps : List (Sep × Step)} (h : StepsOK v steps) : ∀ x ∈ steps, x.2.lastOK v := by
  induction steps with
  | nil => intro x hx; cases hx
  | cons a rest ih =>
    cases rest with
    | nil =>
      intro x hx
      simp only [List.mem_singleton] at hx
      subst hx; exact h
    | cons b r =>
      intro x hx
      rcases List.mem_cons.mp hx with rfl | hx'
      · exact Or.inl h.1
      · exact ih h.2 x hx'

/-- `leftOK` on the compiled left steps followed by `rev0`, whose meaning is `Q` -/
theorem leftOK_iff (d : Doc) (hwf : d.WF = true) (rev0 : List MStep) (Q : Nat → Prop)
    (hQ : ∀ x, x < d.size → (leftOK v d rev0 x = true ↔ Q x))
    (acc : List (Sep × Step)) (hacc : ∀ e ∈ acc, e.2.lastOK v) (x : Nat) (hx : x < d.size) :
    leftOK v d (acc.map cmpL ++ rev0) x = true ↔ ∃ c, UpR d acc x c ∧ Q c := by
  induction acc generalizing x with
  | nil =>
    simp only [List.map_nil, List.nil_append, UpR]
    rw [hQ x hx]
    exact ⟨fun h => ⟨x, rfl, h⟩, fun ⟨c, hc, hq⟩ => hc ▸ hq⟩
  | cons e rest ih =>
    obtain ⟨sep, s⟩ := e
    have hsl : s.lastOK v := hacc (sep, s) (List.mem_cons_self ..)
    have hrest : ∀ e ∈ rest, e.2.lastOK v := fun e he => hacc e (List.mem_cons_of_mem _ he)
    simp only [List.map_cons, List.cons_append, leftOK, UpR]
    cases hp : d.parent x with
    | none =>
      simp only [Bool.false_eq_true, false_iff]
      rintro ⟨c, ⟨y, hl, _⟩, _⟩
      cases sep with
      | child => simp only [link] at hl; rw [hp] at hl; cases hl
      | desc => obtain ⟨p, hp', _⟩ := hl; rw [hp] at hp'; cases hp'
    | some p =>
      have hpl := Doc.parent_lt hp
      rcases hsl with hs | ha
      case inr =>
        -- an attribute step in a non-final position: nothing is below an attribute, on either side
        have hc : ((cmpL (sep, s)).code == Code.anyAnc || (cmpL (sep, s)).code == Code.anyAncPred || (cmpL (sep, s)).code == Code.fn true) = false := by
          simp [cmpL, compileStep, ha.1]
        simp only [hc, Bool.false_eq_true, if_false, Bool.and_eq_true]
        have hkp := wf_parent_kind hwf hp
        constructor
        · rintro ⟨hst, _⟩
          exfalso
          have hcode : (cmpL (sep, s)).code = .attr := by simp [cmpL, compileStep, ha.1]
          unfold stepAtB at hst
          simp only [hcode, bne_iff_ne] at hst
          have hsel := (attrBody_iff (v := v) d hwf s ha (sep == Sep.desc) p (by omega)).mp hst
          exact hkp (selfSel_attr_kind d s ha.1 p hsel)
        · rintro ⟨c, ⟨y, hl, hsel, _⟩, _⟩
          exfalso
          have hky := selfSel_attr_kind d s ha.1 y hsel
          cases sep with
          | child =>
            simp only [link] at hl
            rw [hp] at hl; cases hl
            exact hkp hky
          | desc =>
            obtain ⟨p', hp', hanc⟩ := hl
            rw [hp] at hp'; cases hp'
            exact (hanc.kind_ne_attr hwf hkp) hky
      cases sep with
      | child =>
        have hc : ((cmpL (Sep.child, s)).code == Code.anyAnc || (cmpL (Sep.child, s)).code == Code.anyAncPred || (cmpL (Sep.child, s)).code == Code.fn true) = false := by
          simp [cmpL, compileStep, hs.1]
        simp only [hc, Bool.false_eq_true, if_false, Bool.and_eq_true]
        rw [show cmpL (Sep.child, s) = compileStep s false from rfl,
          stepAtB_simple d hwf s hs false p (by omega), ih hrest p (by omega)]
        constructor
        · rintro ⟨hsel, c, hu, hq⟩
          exact ⟨c, ⟨p, hp, hsel, hu⟩, hq⟩
        · rintro ⟨c, ⟨y, hl, hsel, hu⟩, hq⟩
          simp only [link] at hl
          rw [hp] at hl; cases hl
          exact ⟨hsel, c, hu, hq⟩
      | desc =>
        have hc : ((cmpL (Sep.desc, s)).code == Code.anyAnc || (cmpL (Sep.desc, s)).code == Code.anyAncPred || (cmpL (Sep.desc, s)).code == Code.fn true) = true := by
          simp [cmpL, compileStep, hs.1]
        simp only [hc, if_true, List.any_eq_true, Bool.and_eq_true, mem_ancOrSelf]
        constructor
        · rintro ⟨a, ha, hst, hl⟩
          have hle := ha.le
          have hsel := (stepAtB_simple d hwf s hs true a (by omega)).mp hst
          obtain ⟨c, hu, hq⟩ := (ih hrest a (by omega)).mp hl
          exact ⟨c, ⟨a, ⟨p, hp, ha⟩, hsel, hu⟩, hq⟩
        · rintro ⟨c, ⟨y, ⟨p', hp', ha⟩, hsel, hu⟩, hq⟩
          rw [hp] at hp'; cases hp'
          have hle := ha.le
          exact ⟨y, ha, (stepAtB_simple d hwf s hs true y (by omega)).mpr hsel,
            (ih hrest y (by omega)).mpr ⟨c, hu, hq⟩⟩

/-- the recursion to the right of the patched matcher, in terms of the specification's chains -/
theorem lppB_iff (d : Doc) (hwf : d.WF = true) (rev0 : List MStep) (Q : Nat → Prop)
    (hQ : ∀ x, x < d.size → (leftOK v d rev0 x = true ↔ Q x))
    (sep : Sep) (s : Step) (r : List (Sep × Step)) (hs : ∀ e ∈ (sep, s) :: r, e.2.lastOK v)
    (acc : List (Sep × Step)) (hacc : ∀ e ∈ acc, e.2.lastOK v) (n : Nat) (hn : n < d.size) :
    lppB v d (compileSteps ((sep, s) :: r)) (acc.map cmpL ++ rev0) n ≠ .none ↔
      ∃ c, Reach d ((sep, s) :: r) c n ∧ ∃ c0, UpR d acc c c0 ∧ Q c0 := by
  induction r generalizing sep s acc with
  | nil =>
    simp only [compileSteps, lppB, Reach]
    have h1 := stepAtB_last (v := v) d hwf s (hs _ (List.mem_cons_self ..)) n hn
    have h2 := leftOK_iff (v := v) d hwf rev0 Q hQ acc hacc n hn
    constructor
    · intro h
      by_cases hc : (stepAtB v d (compileStep s false) n != Score.none && leftOK v d (acc.map cmpL ++ rev0) n) = true
      · simp only [Bool.and_eq_true] at hc
        exact ⟨n, ⟨rfl, h1.mp hc.1⟩, h2.mp hc.2⟩
      · simp [hc] at h
    · rintro ⟨c, ⟨rfl, hsel⟩, hu⟩
      have hc : (stepAtB v d (compileStep s false) c != Score.none && leftOK v d (acc.map cmpL ++ rev0) c) = true := by
        simp only [Bool.and_eq_true]; exact ⟨h1.mpr hsel, h2.mpr hu⟩
      rw [if_pos hc]
      split
      · simpa using h1.mpr hsel
      · simp
  | cons y r' ih =>
    obtain ⟨sep', s'⟩ := y
    have hss : s.lastOK v := hs _ (List.mem_cons_self ..)
    rw [compileSteps_cons2]
    obtain ⟨c2, r2, hcs⟩ : ∃ c2 r2, compileSteps ((sep', s') :: r') = c2 :: r2 := by
      cases hh : compileSteps ((sep', s') :: r') with
      | nil => exact absurd hh (compileSteps_ne_nil _ _)
      | cons c2 r2 => exact ⟨c2, r2, rfl⟩
    have hstep : lppB v d (compileStep s (sep' == Sep.desc) :: compileSteps ((sep', s') :: r')) (acc.map cmpL ++ rev0) n =
        lppB v d (compileSteps ((sep', s') :: r')) (((sep', s) :: acc).map cmpL ++ rev0) n := by
      rw [hcs]; rfl
    rw [hstep, ih sep' s' (fun e he => hs e (List.mem_cons_of_mem _ he)) ((sep', s) :: acc) (by
      intro e he
      rcases List.mem_cons.mp he with rfl | he'
      · exact hss
      · exact hacc e he')]
    simp only [Reach, UpR]
    constructor
    · rintro ⟨c', hr, c0, ⟨y, hl, hsel, hu⟩, hq⟩
      exact ⟨y, ⟨hsel, c', hl, hr⟩, c0, hu, hq⟩
    · rintro ⟨c, ⟨hsel, c', hl, hr⟩, c0, hu, hq⟩
      exact ⟨c', hr, c0, ⟨c, hl, hsel, hu⟩, hq⟩



theorem matchesPath_absroot (d : Doc) (hwf : d.WF = true) (s1 : Step) (r : List (Sep × Step)) (n : Nat) :
    matchesPath d ⟨true, (.child, s1) :: r⟩ n = true ↔ ∃ m, Reach d ((.child, s1) :: r) m n ∧ d.parent m = some 0 := by
  unfold matchesPath selects
  simp only [if_true, fwd, List.any_eq_true]
  constructor
  · rintro ⟨_, _, m, hm, hf⟩
    have := (mem_evalStep_iff d s1 0 m).mp hm
    exact ⟨m, (reach_iff_fwd d hwf .child s1 r m n).mpr ⟨this.2, hf⟩, this.1⟩
  · rintro ⟨m, hr, hp⟩
    have h := (reach_iff_fwd d hwf .child s1 r m n).mp hr
    exact ⟨n, (mem_ancOrSelf d n n).mpr (Anc.refl _), m, (mem_evalStep_iff d s1 0 m).mpr ⟨hp, h.1⟩, h.2⟩

theorem reach_head_sel {d : Doc} {sep : Sep} {s : Step} {r : List (Sep × Step)} {c n : Nat}
    (h : Reach d ((sep, s) :: r) c n) : selfSel d s c := by
  cases r with
  | nil => simp only [Reach] at h; exact h.2
  | cons y r' => obtain ⟨sep', s'⟩ := y; simp only [Reach] at h; exact h.1

theorem leftOK_leadDesc (d : Doc) (hwf : d.WF = true) (x : Nat) :
    leftOK v d [leadDesc] x = true ↔ ∃ p, d.parent x = some p := by
  simp only [leftOK]
  cases hp : d.parent x with
  | none => simp
  | some p =>
    have hk := wf_parent_kind hwf hp
    have hk' : (d.kind p != Kind.attr) = true := by simpa using hk
    have hc : (leadDesc.code == Code.anyAnc || leadDesc.code == Code.anyAncPred || leadDesc.code == Code.fn true) = true := by decide
    simp only [hc, if_true, List.any_eq_true, Bool.and_true, Option.some.injEq, exists_eq', iff_true]
    refine ⟨p, (mem_ancOrSelf d p p).mpr (Anc.refl _), ?_⟩
    simp [stepAtB, leadDesc, hk', anyBody, childTest, tester, doStepPredicate]

theorem leftOK_leadRoot (d : Doc) (hwf : d.WF = true) (x : Nat) (hx : x < d.size) :
    leftOK v d [leadRoot] x = true ↔ d.parent x = some 0 := by
  simp only [leftOK]
  cases hp : d.parent x with
  | none => simp
  | some p =>
    have hpl := Doc.parent_lt hp
    have hc : (leadRoot.code == Code.anyAnc || leadRoot.code == Code.anyAncPred || leadRoot.code == Code.fn true) = false := by decide
    simp only [hc, Bool.false_eq_true, if_false, Bool.and_true, Option.some.injEq]
    by_cases hk : d.kind p = .root
    · have := wf_kind_root hwf (by omega : p < d.size) hk
      subst this
      simp [stepAtB, leadRoot, hk]
    · have : p ≠ 0 := fun h => hk (h ▸ wf_kind0 hwf)
      simp [stepAtB, leadRoot, hk, this]

/-- **the patched matcher is the definition** on every location path pattern with steps as in `StepsOK`:
any order of `/` and `//`, relative, `/`-leading or `//`-leading, attribute steps anywhere -/
theorem lppB_path_iff (d : Doc) (hwf : d.WF = true) (pabs : Bool) (sep : Sep) (s : Step) (r : List (Sep × Step))
    (hs : ∀ e ∈ (sep, s) :: r, e.2.lastOK v) (hrel : pabs = false → sep = .child) (n : Nat) (hn : n < d.size) :
    lppB v d (compilePath ⟨pabs, (sep, s) :: r⟩) [] n ≠ .none ↔ matchesPath d ⟨pabs, (sep, s) :: r⟩ n = true := by
  obtain ⟨c2, r2, hcs⟩ : ∃ c2 r2, compileSteps ((sep, s) :: r) = c2 :: r2 := by
    cases hh : compileSteps ((sep, s) :: r) with
    | nil => exact absurd hh (compileSteps_ne_nil _ _)
    | cons c2 r2 => exact ⟨c2, r2, rfl⟩
  cases pabs with
  | false =>
    have := hrel rfl; subst this
    have hcp : compilePath ⟨false, (Sep.child, s) :: r⟩ = compileSteps ((Sep.child, s) :: r) := by simp [compilePath]
    have h := lppB_iff (v := v) d hwf [] (fun _ => True) (fun x _ => by simp [leftOK]) .child s r hs [] (by simp) n hn
    simp only [List.map_nil, List.nil_append] at h
    rw [hcp, h, matchesPath_rel d hwf s r n]
    constructor
    · rintro ⟨c, hr, _⟩; exact ⟨c, hr⟩
    · rintro ⟨c, hr⟩; exact ⟨c, hr, c, rfl, trivial⟩
  | true =>
    cases sep with
    | desc =>
      have hcp : compilePath ⟨true, (Sep.desc, s) :: r⟩ = leadDesc :: compileSteps ((Sep.desc, s) :: r) := by
        simp [compilePath, leadDesc]
      have hstep : lppB v d (leadDesc :: compileSteps ((Sep.desc, s) :: r)) [] n =
          lppB v d (compileSteps ((Sep.desc, s) :: r)) [leadDesc] n := by rw [hcs]; rfl
      have h := lppB_iff (v := v) d hwf [leadDesc] (fun x => ∃ p, d.parent x = some p)
        (fun x _ => leftOK_leadDesc d hwf x) .desc s r hs [] (by simp) n hn
      simp only [List.map_nil, List.nil_append] at h
      rw [hcp, hstep, h, matchesPath_absdesc d hwf s r n]
      constructor
      · rintro ⟨c, hr, _⟩; exact ⟨c, hr⟩
      · rintro ⟨c, hr⟩
        obtain ⟨p, hp, _⟩ := reach_head_sel hr
        exact ⟨c, hr, c, rfl, p, hp⟩
    | child =>
      have hcp : compilePath ⟨true, (Sep.child, s) :: r⟩ = leadRoot :: compileSteps ((Sep.child, s) :: r) := by
        simp [compilePath, leadRoot]
      have hstep : lppB v d (leadRoot :: compileSteps ((Sep.child, s) :: r)) [] n =
          lppB v d (compileSteps ((Sep.child, s) :: r)) [leadRoot] n := by rw [hcs]; rfl
      have h := lppB_iff (v := v) d hwf [leadRoot] (fun x => d.parent x = some 0)
        (fun x hx => leftOK_leadRoot d hwf x hx) .child s r hs [] (by simp) n hn
      simp only [List.map_nil, List.nil_append] at h
      rw [hcp, hstep, h, matchesPath_absroot d hwf s r n]
      constructor
      · rintro ⟨c, hr, c0, hc0, hq⟩; simp only [UpR] at hc0; subst hc0; exact ⟨c0, hr, hq⟩
      · rintro ⟨c, hr, hq⟩; exact ⟨c, hr, c, rfl, hq⟩

theorem lppB_slash_iff (d : Doc) (hwf : d.WF = true) (n : Nat) (hn : n < d.size) :
    lppB v d (compilePath ⟨true, []⟩) [] n ≠ .none ↔ matchesPath d ⟨true, []⟩ n = true := by
  have hcp : compilePath ⟨true, []⟩ = [leadRoot] := by simp [compilePath, leadRoot, compileSteps]
  rw [hcp]
  unfold matchesPath selects
  simp only [lppB, leftOK, Bool.and_true, List.isEmpty_nil, if_true, fwd, List.any_eq_true, beq_iff_eq]
  by_cases hk : d.kind n = .root
  · have := wf_kind_root hwf hn hk
    subst this
    simp [stepAtB, leadRoot, hk]
    exact ⟨0, (mem_ancOrSelf d 0 0).mpr (Anc.refl _)⟩
  · have : n ≠ 0 := fun h => hk (h ▸ wf_kind0 hwf)
    simp [stepAtB, leadRoot, hk]
    intro _ _ h0; exact this h0.symm



theorem fwd_cons_iff (d : Doc) (hwf : d.WF = true) (sep : Sep) (s : Step) (r : List (Sep × Step)) (k n : Nat) :
    fwd d ((sep, s) :: r) k n = true ↔ ∃ m, link d sep k m ∧ Reach d ((sep, s) :: r) m n := by
  cases sep with
  | child =>
    simp only [fwd, List.any_eq_true, link]
    constructor
    · rintro ⟨m, hm, hf⟩
      have := (mem_evalStep_iff d s k m).mp hm
      exact ⟨m, this.1, (reach_iff_fwd d hwf .child s r m n).mpr ⟨this.2, hf⟩⟩
    · rintro ⟨m, hp, hr⟩
      have h := (reach_iff_fwd d hwf .child s r m n).mp hr
      exact ⟨m, (mem_evalStep_iff d s k m).mpr ⟨hp, h.1⟩, h.2⟩
  | desc =>
    simp only [fwd, List.any_eq_true, link]
    constructor
    · rintro ⟨x, hx, m, hm, hf⟩
      have := (mem_evalStep_iff d s x m).mp hm
      exact ⟨m, ⟨x, this.1, (parent_mem_descOrSelf hwf this.1 k).mp hx⟩,
        (reach_iff_fwd d hwf .desc s r m n).mpr ⟨this.2, hf⟩⟩
    · rintro ⟨m, ⟨p, hp, ha⟩, hr⟩
      have h := (reach_iff_fwd d hwf .desc s r m n).mp hr
      exact ⟨p, (parent_mem_descOrSelf hwf hp k).mpr ha, m, (mem_evalStep_iff d s p m).mpr ⟨hp, h.1⟩, h.2⟩

/-- the compiled id()/key() call -/
def fnStep (any : Bool) (S : List Nat) : MStep := { code := .fn any, test := .set S, preds := [] }

theorem leftOK_fn (d : Doc) (any : Bool) (S : List Nat) (x : Nat) :
    leftOK v d [fnStep any S] x = true ↔ ∃ k ∈ S, link d (if any then Sep.desc else Sep.child) k x := by
  cases any with
  | true =>
    have hc : ((fnStep true S).code == Code.anyAnc || (fnStep true S).code == Code.anyAncPred ||
        (fnStep true S).code == Code.fn true) = true := by simp [fnStep]
    simp only [leftOK, hc, if_true, link]
    cases hp : d.parent x with
    | none =>
      simp only [Bool.false_eq_true, false_iff]
      rintro ⟨k, _, p, hp', _⟩
      cases hp'
    | some p =>
      simp only [List.any_eq_true, Bool.and_true, mem_ancOrSelf, Option.some.injEq]
      constructor
      · rintro ⟨a, ha, hst⟩
        have : a ∈ S := by simpa [stepAtB, fnStep, tester] using hst
        exact ⟨a, this, p, rfl, ha⟩
      · rintro ⟨k, hk, p', hp', ha⟩
        subst hp'
        exact ⟨k, ha, by simpa [stepAtB, fnStep, tester] using hk⟩
  | false =>
    have hc : ((fnStep false S).code == Code.anyAnc || (fnStep false S).code == Code.anyAncPred ||
        (fnStep false S).code == Code.fn true) = false := by simp [fnStep]
    simp only [leftOK, hc, Bool.false_eq_true, if_false, link]
    cases hp : d.parent x with
    | none =>
      simp only [Bool.false_eq_true, false_iff]
      rintro ⟨k, _, hp'⟩
      cases hp'
    | some p =>
      simp only [Bool.and_true, Option.some.injEq]
      constructor
      · intro hst
        have : p ∈ S := by simpa [stepAtB, fnStep, tester] using hst
        exact ⟨p, this, rfl⟩
      · rintro ⟨k, hk, hkp⟩
        subst hkp
        simpa [stepAtB, fnStep, tester] using hk

/-- **id()/key()-leading patterns, backtracking matcher**: match ⇔ selected (from any context) -/
theorem lppB_fn_iff (d : Doc) (hwf : d.WF = true) (p : FnPath) (hs : ∀ e ∈ p.steps, e.2.lastOK v)
    (n : Nat) (hn : n < d.size) :
    lppB v d (compileFn p) [] n ≠ .none ↔ matchesFn d p n = true := by
  obtain ⟨txt, S, steps⟩ := p
  cases steps with
  | nil =>
    simp only [compileFn, compileSteps, lppB, leftOK, Bool.and_true, List.isEmpty_nil, if_true, matchesFn, fwd,
      List.any_eq_true, beq_iff_eq]
    constructor
    · intro h
      by_cases hm : n ∈ S
      · exact ⟨n, hm, rfl⟩
      · simp [stepAtB, tester, hm] at h
    · rintro ⟨k, hk, rfl⟩
      simp [stepAtB, tester, hk]
  | cons x r =>
    obtain ⟨sep, s⟩ := x
    simp only at hs
    obtain ⟨c2, r2, hcs⟩ : ∃ c2 r2, compileSteps ((sep, s) :: r) = c2 :: r2 := by
      cases hh : compileSteps ((sep, s) :: r) with
      | nil => exact absurd hh (compileSteps_ne_nil _ _)
      | cons c2 r2 => exact ⟨c2, r2, rfl⟩
    have hany : (match ((sep, s) :: r) with | (Sep.desc, _) :: _ => true | _ => false) = (sep == Sep.desc) := by
      cases sep <;> rfl
    have hcf : compileFn ⟨txt, S, (sep, s) :: r⟩ = fnStep (sep == Sep.desc) S :: compileSteps ((sep, s) :: r) := by
      cases sep <;> rfl
    have hstep : lppB v d (fnStep (sep == Sep.desc) S :: compileSteps ((sep, s) :: r)) [] n =
        lppB v d (compileSteps ((sep, s) :: r)) [fnStep (sep == Sep.desc) S] n := by rw [hcs]; rfl
    have hsepeq : (if (sep == Sep.desc) = true then Sep.desc else Sep.child) = sep := by cases sep <;> rfl
    have h := lppB_iff (v := v) d hwf [fnStep (sep == Sep.desc) S] (fun x => ∃ k ∈ S, link d sep k x)
      (fun x _ => by rw [leftOK_fn, hsepeq]) sep s r hs [] (by simp) n hn
    simp only [List.map_nil, List.nil_append] at h
    rw [hcf, hstep, h]
    simp only [matchesFn, List.any_eq_true]
    constructor
    · rintro ⟨c, hr, c0, hc0, k, hk, hl⟩
      simp only [UpR] at hc0; subst hc0
      exact ⟨k, hk, (fwd_cons_iff d hwf sep s r k n).mpr ⟨c0, hl, hr⟩⟩
    · rintro ⟨k, hk, hf⟩
      obtain ⟨m, hl, hr⟩ := (fwd_cons_iff d hwf sep s r k n).mp hf
      exact ⟨m, hr, m, rfl, k, hk, hl⟩


/-! ## explicit axis spellings -/


theorem compileStepW_eq (s : Step) (fd pend : Bool) : compileStepW s fd pend = compileStep s fd := by
  cases fd <;> cases pend <;> cases he : s.explicit <;> cases ha : s.attrAxis <;>
    simp [compileStepW, compileStep, branchOf, branchEmit, he, ha]

theorem compileStepsW_eq (steps : List (Sep × Step)) (pend : Bool) : compileStepsW steps pend = compileSteps steps := by
  induction steps generalizing pend with
  | nil => rfl
  | cons x rest ih =>
    obtain ⟨sep, s⟩ := x
    cases rest with
    | nil => simp [compileStepsW, compileSteps, compileStepW_eq]
    | cons y r =>
      obtain ⟨sep', s'⟩ := y
      simp only [compileStepsW, compileSteps, compileStepW_eq, ih]

theorem compilePathW_eq (p : Path) : compilePathW p = compilePath p := by
  simp only [compilePathW, compilePath, compileStepsW_eq]

theorem compileFnW_eq (p : FnPath) : compileFnW p = compileFn p := by
  simp only [compileFnW, compileFn, compileStepsW_eq]

theorem compileStep_abbrev (s : Step) (fd : Bool) : compileStep s.abbrev fd = compileStep s fd := rfl

theorem compileSteps_abbrev (steps : List (Sep × Step)) :
    compileSteps (steps.map fun x => (x.1, x.2.abbrev)) = compileSteps steps := by
  induction steps with
  | nil => rfl
  | cons x rest ih =>
    obtain ⟨sep, s⟩ := x
    cases rest with
    | nil => rfl
    | cons y r =>
      obtain ⟨sep', s'⟩ := y
      simp only [List.map_cons, compileSteps] at ih ⊢
      rw [ih]; rfl

theorem compilePath_abbrev (p : Path) : compilePath p.abbrev = compilePath p := by
  obtain ⟨pabs, steps⟩ := p
  simp only [compilePath, Path.abbrev, compileSteps_abbrev]
  cases steps with
  | nil => rfl
  | cons x r => obtain ⟨sep, s⟩ := x; cases sep <;> rfl

theorem fwd_abbrev (d : Doc) (steps : List (Sep × Step)) (c n : Nat) :
    fwd d (steps.map fun x => (x.1, x.2.abbrev)) c n = fwd d steps c n := by
  induction steps generalizing c with
  | nil => rfl
  | cons x rest ih =>
    obtain ⟨sep, s⟩ := x
    have he : ∀ c', evalStep d c' s.abbrev = evalStep d c' s := fun _ => rfl
    cases sep <;> simp only [List.map_cons, fwd, he, ih]

theorem matchesPath_abbrev (d : Doc) (p : Path) (n : Nat) : matchesPath d p.abbrev n = matchesPath d p n := by
  obtain ⟨pabs, steps⟩ := p
  simp only [matchesPath, selects, Path.abbrev, fwd_abbrev]
  try rfl

end XalanModel.C09
