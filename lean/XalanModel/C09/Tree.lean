/-!
# C09 — documents as the matcher sees them

A document is a table of nodes in document order (root first; an element is followed by its
attributes, then by its children, recursively).  A node is its index in the table.  Only what
`XPath::stepPattern` / `XPath::step` look at is kept: node type, name (element / attribute name,
PI target) and the parent (`DOMServices::getParentOfNode`, which for an attribute is the owner
element).  `children` / `attrs` are *derived* from `parent`, so that the upward view used by the
matcher and the downward view used by the forward evaluator cannot disagree.

Core Lean only (the driver `xm_c09` imports this file).
-/
namespace XalanModel.C09

inductive Kind where
  | root | elem | attr | text | comment | pi
deriving DecidableEq, Repr, Inhabited

structure NodeInfo where
  kind : Kind
  name : String
  parent : Nat
deriving DecidableEq, Repr, Inhabited

/-- what kind of node roots the tree: a document node (source documents, `document()` loads) or a document fragment
node (result tree fragments, also nested ones, reached through exsl:node-set / xalan:nodeset) -/
inductive RootKind where
  | document | fragment
deriving DecidableEq, Repr, Inhabited

structure Doc where
  nodes : List NodeInfo
  /-- node type of node 0 -/
  rootKind : RootKind := .document
deriving Repr

namespace Doc

def size (d : Doc) : Nat := d.nodes.length

/-- node type; outside the table: `root` (never consulted for indices a well-formed walk reaches) -/
def kind (d : Doc) (i : Nat) : Kind :=
  match d.nodes[i]? with
  | some ni => ni.kind
  | none => .root

def name (d : Doc) (i : Nat) : String :=
  match d.nodes[i]? with
  | some ni => ni.name
  | none => ""

/-- `DOMServices::getParentOfNode`: none for node 0 (the document node).  The recorded parent must
precede the node (document order), which makes every upward walk terminate. -/
def parent (d : Doc) (i : Nat) : Option Nat :=
  if i = 0 then none else
  match d.nodes[i]? with
  | some ni => if ni.parent < i then some ni.parent else none
  | none => none

theorem parent_lt {d : Doc} {i p : Nat} (h : d.parent i = some p) : p < i := by
  unfold parent at h
  split at h
  · cases h
  · split at h
    · split at h
      · cases h; assumption
      · cases h
    · cases h

theorem parent_lt_size {d : Doc} {i p : Nat} (h : d.parent i = some p) : i < d.size := by
  unfold parent at h
  split at h
  · cases h
  · split at h
    · rename_i ni hn
      have := (List.getElem?_eq_some_iff.mp hn).1
      exact this
    · cases h

/-- In the DOM a namespace declaration is an attribute node named `xmlns` or `xmlns:prefix`
(`DOMServices::isNamespaceDeclaration`); in the XPath data model it is a namespace node, not an attribute.  The node
tables the harness produces do not number them; a table that lists one (kind `attr`, such a name) models the raw DOM
attribute that e.g. `KeyTable` offers to the matcher. -/
def isNsDeclName (s : String) : Bool := s == "xmlns" || s.toList.take 6 == "xmlns:".toList

def isNsDecl (d : Doc) (m : Nat) : Bool := d.kind m == .attr && isNsDeclName (d.name m)

/-- child axis of `p` in document order (`getFirstChild` / `getNextSibling`) -/
def children (d : Doc) (p : Nat) : List Nat :=
  (List.range d.size).filter fun c => d.parent c = some p && d.kind c != .attr

/-- attribute axis of `p` (`getAttributes()->item(j)`) -/
def attrs (d : Doc) (p : Nat) : List Nat :=
  (List.range d.size).filter fun c => d.parent c = some p && d.kind c == .attr

theorem mem_children {d : Doc} {p c : Nat} :
    c ∈ d.children p ↔ d.parent c = some p ∧ d.kind c ≠ .attr := by
  simp only [children, List.mem_filter, List.mem_range, Bool.and_eq_true, decide_eq_true_eq, bne_iff_ne, ne_eq]
  constructor
  · rintro ⟨_, h1, h2⟩; exact ⟨h1, h2⟩
  · rintro ⟨h1, h2⟩; exact ⟨parent_lt_size h1, h1, h2⟩

theorem mem_attrs {d : Doc} {p c : Nat} :
    c ∈ d.attrs p ↔ d.parent c = some p ∧ d.kind c = .attr := by
  simp only [attrs, List.mem_filter, List.mem_range, Bool.and_eq_true, decide_eq_true_eq, beq_iff_eq]
  constructor
  · rintro ⟨_, h1, h2⟩; exact ⟨h1, h2⟩
  · rintro ⟨h1, h2⟩; exact ⟨parent_lt_size h1, h1, h2⟩

/-- `a` is `n` or an ancestor of `n` (walk up at most `fuel` parents) -/
def isAncOrSelfF (d : Doc) (a : Nat) : Nat → Nat → Bool
  | 0, n => a == n
  | fuel + 1, n => a == n || match d.parent n with
    | some p => isAncOrSelfF d a fuel p
    | none => false

def isAncOrSelf (d : Doc) (a n : Nat) : Bool := isAncOrSelfF d a n n

/-- ancestor-or-self axis of `n`, nearest first -/
def ancOrSelfF (d : Doc) : Nat → Nat → List Nat
  | 0, n => [n]
  | fuel + 1, n => n :: match d.parent n with
    | some p => ancOrSelfF d fuel p
    | none => []

def ancOrSelf (d : Doc) (n : Nat) : List Nat := ancOrSelfF d n n

/-- descendant-or-self::node() of `c`: `c` and every non-attribute node below it -/
def descOrSelf (d : Doc) (c : Nat) : List Nat :=
  (List.range d.size).filter fun m => m == c || (d.isAncOrSelf c m && d.kind m != .attr)

/-- Shape conditions a parsed XML document satisfies (checked by the driver on every table it receives):
node 0 and only node 0 is the document node; every other node's parent precedes it and is the document
node or an element; attributes hang off elements. -/
def wfNode (d : Doc) (i : Nat) : Bool :=
  if i = 0 then d.kind 0 == .root
  else
    d.kind i != .root &&
    match d.parent i with
    | some p => (d.kind p == .elem || (d.kind p == .root && d.kind i != .attr && d.kind i != .text))
    | none => false

def WF (d : Doc) : Bool := d.size > 0 && (List.range d.size).all (wfNode d)

end Doc
end XalanModel.C09
