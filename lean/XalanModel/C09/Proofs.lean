import XalanModel.C09.Matcher
/-!
# C09 — helper lemmas for `Props/C09.lean`
-/
namespace XalanModel.C09
open Spec

variable {v : Variant}

theorem zipIdx_filter_idx {α : Type} (l : List α) (s j : Nat) :
    ((l.zipIdx s).filter (fun p => p.2 == j)).map Prod.fst = if s ≤ j then (l[j - s]?).toList else [] := by
  induction l generalizing s with
  | nil => simp
  | cons x xs ih =>
    rw [List.zipIdx_cons, List.filter_cons]
    have ih' := ih (s + 1)
    by_cases h : s = j
    · subst h
      have h1 : ¬ (s + 1 ≤ s) := by omega
      rw [if_neg h1] at ih'
      simp [ih']
    · have hb : ((x, s).2 == j) = false := by simp [h]
      rw [hb]
      simp only [Bool.false_eq_true, if_false]
      rw [ih']
      by_cases h2 : s ≤ j
      · have h3 : s + 1 ≤ j := by omega
        have h4 : j - s = (j - (s + 1)) + 1 := by omega
        rw [if_pos h2, if_pos h3, h4]
        simp
      · have h3 : ¬ (s + 1 ≤ j) := by omega
        rw [if_neg h2, if_neg h3]

theorem tester_eq_testOK (d : Doc) (t : Test) (m : Nat) :
    (tester d false (.t t) m != .none) = testOK d false t m := by
  cases t <;> simp [tester, testOK] <;> split <;> simp_all

theorem predicates1_idx (d : Doc) (k : Nat) (l : List Nat) :
    predicates1 d (.idx k) l = applyPred d (.idx k) l := by
  unfold predicates1 applyPred
  by_cases hl : l.length = 0
  · have : l = [] := List.eq_nil_of_length_eq_zero hl
    subst this; simp
  · rw [if_neg hl]
    simp only [predTrue, predVal]
    by_cases hk : k = 0
    · subst hk
      simp
    · have hf : (fun (x : Nat × Nat) => match x with | (_, i) => k == i + 1) = (fun p => p.2 == k - 1) := by
        funext ⟨m, i⟩
        by_cases h : k = i + 1
        · subst h; simp
        · have : ¬ (i = k - 1) := by omega
          have h1 : (k == i + 1) = false := beq_false_of_ne h
          have h2 : (i == k - 1) = false := beq_false_of_ne this
          show (k == i + 1) = (i == k - 1)
          rw [h1, h2]
      rw [hf, zipIdx_filter_idx l 0 (k - 1)]
      simp only [Nat.zero_le, if_true, Nat.sub_zero]
      by_cases hk2 : k > l.length
      · have : l[k - 1]? = none := by
          apply List.getElem?_eq_none; omega
        simp [hk2, this]
      · have hlt : k - 1 < l.length := by omega
        have hs : l[k - 1]? = some l[k - 1] := List.getElem?_eq_getElem hlt
        have h0 : ¬ (k = 0 ∨ k > l.length) := by omega
        rw [if_neg h0, hs]
        by_cases h1 : l.length > 1
        · simp [h1]
        · rw [if_neg h1]
          have hl1 : l.length = 1 := by omega
          have hk1 : k = 1 := by omega
          subst hk1
          match l, hl1 with
          | [x], _ => simp

theorem num_keep (k i : Nat) : (!(i + 1 != k) && k != 0) = (k == i + 1) := by
  by_cases h : k = i + 1
  · subst h; simp
  · have h1 : (k == i + 1) = false := beq_false_of_ne h
    have h2 : (i + 1 != k) = true := by simp; omega
    rw [h1, h2]; simp

theorem keep_eq (pv : PVal) (i : Nat) :
    (match pv with | .num k => !(i + 1 != k) && k != 0 | .bool b => b) =
      (match pv with | .num k => k == i + 1 | .bool b => b) := by
  cases pv with
  | num k => exact num_keep k i
  | bool b => rfl

theorem predicates1_eq (d : Doc) (p : Pred) (l : List Nat) :
    predicates1 d p l = applyPred d p l := by
  cases p with
  | idx k => exact predicates1_idx d k l
  | _ =>
    unfold predicates1 applyPred
    by_cases hl : l.length = 0
    · have : l = [] := List.eq_nil_of_length_eq_zero hl
      subst this; simp
    · rw [if_neg hl]
      simp only [predTrue]
      congr 2
      all_goals
        funext x
        obtain ⟨m, i⟩ := x
        simp only []
        generalize predVal d _ m (i + 1) l.length = pv
        cases pv with
        | num k => exact num_keep k i
        | bool b => rfl


theorem predicates_eq (d : Doc) (ps : List Pred) (l : List Nat) :
    predicates d ps l = ps.foldl (fun l p => applyPred d p l) l := by
  unfold predicates
  induction ps generalizing l with
  | nil => rfl
  | cons p ps ih => simp only [List.foldl_cons, predicates1_eq]



theorem fwdStep_child_eq (d : Doc) (c : Nat) (s : Step) (fd : Bool) (h : s.attrAxis = false) :
    fwdStep v d c (compileStep s fd) = evalStep d c s := by
  have hf : (fun m => tester d false (MTest.t s.test) m != Score.none) = testOK d false s.test := by
    funext m; exact tester_eq_testOK d s.test m
  cases fd <;> simp [fwdStep, compileStep, evalStep, h, predicates_eq, hf]

/-- `m` is selected by step `s` from its own parent -/
def selfSel (d : Doc) (s : Step) (m : Nat) : Prop := ∃ p, d.parent m = some p ∧ m ∈ evalStep d p s

theorem handleFoundIndex_child (d : Doc) (s : Step) (fd : Bool) (h : s.attrAxis = false) (m : Nat) :
    handleFoundIndex v d (compileStep s fd) m = (if (∃ p, d.parent m = some p ∧ m ∈ evalStep d p s) then Score.other else Score.none) := by
  unfold handleFoundIndex
  cases hp : d.parent m with
  | none => simp
  | some p =>
    simp only [fwdStep_child_eq d p s fd h, List.contains_iff_mem, Option.some.injEq, exists_eq_left']



/-- predicates whose value does not depend on the context position/size and is a boolean -/
def Pred.plain : Pred → Bool
  | .attr _ | .child _ | .notAttr _ => true
  | _ => false

def plainTrue (d : Doc) (p : Pred) (m : Nat) : Bool :=
  match predVal d p m 0 0 with
  | .bool b => b
  | .num _ => true

theorem dsp_cons_plain (d : Doc) (s' : MStep) (p : Pred) (ps : List Pred) (m : Nat) (sc : Score)
    (hp : p.plain = true) :
    doStepPredicate v d s' (p :: ps) m sc = if plainTrue d p m then doStepPredicate v d s' ps m sc else Score.none := by
  cases p <;> simp [Pred.plain] at hp <;> simp [doStepPredicate, Pred.usesPos, predVal, plainTrue]

theorem dsp_cons_nonplain (d : Doc) (s' : MStep) (p : Pred) (ps : List Pred) (m : Nat) (sc : Score)
    (hp : p.plain = false) :
    doStepPredicate v d s' (p :: ps) m sc = doStepPredicate v d s' ps m (handleFoundIndex v d s' m) := by
  cases p <;> simp [Pred.plain] at hp <;> simp [doStepPredicate, Pred.usesPos, predVal]

theorem dsp_char (d : Doc) (s' : MStep) (ps : List Pred) (m : Nat) (sc : Score) :
    doStepPredicate v d s' ps m sc =
      if ps.any (fun p => p.plain && !plainTrue d p m) then Score.none
      else if ps.any (fun p => !p.plain) then handleFoundIndex v d s' m else sc := by
  induction ps generalizing sc with
  | nil => simp [doStepPredicate]
  | cons p ps ih =>
    by_cases hp : p.plain = true
    · rw [dsp_cons_plain d s' p ps m sc hp, ih]
      by_cases ht : plainTrue d p m = true
      · simp [hp, ht]
      · simp [hp, ht]
    · have hp' : p.plain = false := by simpa using hp
      rw [dsp_cons_nonplain d s' p ps m sc hp', ih]
      simp [hp']



theorem wf_node {d : Doc} (h : d.WF = true) {i : Nat} (hi : i < d.size) : d.wfNode i = true := by
  unfold Doc.WF at h
  simp only [Bool.and_eq_true, List.all_eq_true, List.mem_range] at h
  exact h.2 i hi

theorem wf_size {d : Doc} (h : d.WF = true) : 0 < d.size := by
  unfold Doc.WF at h
  simp only [Bool.and_eq_true, decide_eq_true_eq] at h
  exact h.1

theorem wf_kind0 {d : Doc} (h : d.WF = true) : d.kind 0 = .root := by
  have := wf_node h (wf_size h)
  simpa [Doc.wfNode] using this

theorem wf_parent {d : Doc} (h : d.WF = true) {i : Nat} (h0 : i ≠ 0) (hi : i < d.size) :
    ∃ p, d.parent i = some p := by
  have := wf_node h hi
  unfold Doc.wfNode at this
  rw [if_neg h0] at this
  cases hp : d.parent i with
  | none => simp [hp] at this
  | some p => exact ⟨p, rfl⟩

theorem zipIdx_filter_fst {α : Type} (f : α → Bool) (l : List α) (s : Nat) :
    ((l.zipIdx s).filter (fun p => f p.1)).map Prod.fst = l.filter f := by
  induction l generalizing s with
  | nil => simp
  | cons x xs ih =>
    rw [List.zipIdx_cons, List.filter_cons, List.filter_cons]
    by_cases h : f x = true
    · simp [h, ih]
    · simp [h, ih]

theorem predTrue_plain (d : Doc) (q : Pred) (hq : q.plain = true) (m pos size : Nat) :
    predTrue d q m pos size = plainTrue d q m := by
  cases q <;> simp [Pred.plain] at hq <;> simp [predTrue, plainTrue, predVal]

theorem applyPred_plain (d : Doc) (q : Pred) (hq : q.plain = true) (l : List Nat) :
    applyPred d q l = l.filter (plainTrue d q) := by
  unfold applyPred
  have : (fun (x : Nat × Nat) => match x with | (m, i) => predTrue d q m (i + 1) l.length) = (fun p => plainTrue d q p.1) := by
    funext ⟨m, i⟩
    exact predTrue_plain d q hq m (i + 1) l.length
  rw [this, zipIdx_filter_fst]

theorem applyPred_subset (d : Doc) (q : Pred) (l : List Nat) (x : Nat) (h : x ∈ applyPred d q l) : x ∈ l := by
  unfold applyPred at h
  simp only [List.mem_map, List.mem_filter] at h
  obtain ⟨⟨a, i⟩, ⟨hmem, _⟩, rfl⟩ := h
  exact (List.mem_zipIdx hmem).2.2 ▸ List.getElem_mem _



theorem fold_subset (d : Doc) (ps : List Pred) (l : List Nat) (x : Nat)
    (h : x ∈ ps.foldl (fun l p => applyPred d p l) l) : x ∈ l := by
  induction ps generalizing l with
  | nil => exact h
  | cons p ps ih => exact applyPred_subset d p l x (ih _ h)

theorem fold_plainTrue (d : Doc) (ps : List Pred) (l : List Nat) (x : Nat)
    (h : x ∈ ps.foldl (fun l p => applyPred d p l) l) :
    ∀ q ∈ ps, q.plain = true → plainTrue d q x = true := by
  induction ps generalizing l with
  | nil => intro q hq; cases hq
  | cons p ps ih =>
    intro q hq hpl
    rcases List.mem_cons.mp hq with rfl | hq'
    · have := fold_subset d ps _ x h
      simp only [] at this
      rw [applyPred_plain d q hpl] at this
      exact (List.mem_filter.mp this).2
    · exact ih _ h q hq' hpl

theorem fold_all_plain (d : Doc) (ps : List Pred) (l : List Nat) (x : Nat)
    (hall : ∀ q ∈ ps, q.plain = true ∧ plainTrue d q x = true) (hx : x ∈ l) :
    x ∈ ps.foldl (fun l p => applyPred d p l) l := by
  induction ps generalizing l with
  | nil => exact hx
  | cons p ps ih =>
    have hp := hall p (List.mem_cons_self ..)
    apply ih
    · intro q hq; exact hall q (List.mem_cons_of_mem _ hq)
    · show x ∈ applyPred d p l
      rw [applyPred_plain d p hp.1]; exact List.mem_filter.mpr ⟨hx, hp.2⟩

theorem tester_ne_none_not_root (d : Doc) (t : Test) (m : Nat) (ht : t ≠ .node)
    (h : tester d false (.t t) m ≠ .none) : d.kind m ≠ .root := by
  intro hk
  cases t <;> simp [tester, hk] at h
  exact ht rfl

theorem wf_kind_ne_root {d : Doc} (hwf : d.WF = true) {i : Nat} (hi : i < d.size) (h0 : i ≠ 0) : d.kind i ≠ .root := by
  have := wf_node hwf hi
  unfold Doc.wfNode at this
  rw [if_neg h0] at this
  simp only [Bool.and_eq_true, bne_iff_ne] at this
  exact this.1

theorem childTest_compile (d : Doc) (s : Step) (fd : Bool) (m : Nat) :
    childTest v d (compileStep s fd) m =
      if v.rootGuard && d.kind m == .root then Score.none else tester d false (.t s.test) m := by
  unfold childTest
  have : ((compileStep s fd).code != Code.anyAncPred) = true := by
    cases fd <;> by_cases h : s.attrAxis = true <;> simp [compileStep, h]
  have ht : (compileStep s fd).test = .t s.test := rfl
  rw [this, ht, Bool.and_true]

theorem childTest_ne_none (d : Doc) (s : Step) (fd : Bool) (m : Nat)
    (h : (childTest v d (compileStep s fd) m != Score.none) = true) :
    (tester d false (.t s.test) m != Score.none) = true ∧ (v.rootGuard = true → d.kind m ≠ .root) := by
  rw [childTest_compile] at h
  by_cases hg : (v.rootGuard && d.kind m == .root) = true
  · simp [hg] at h
  · rw [if_neg hg] at h
    refine ⟨h, fun hr hk => hg ?_⟩
    simp [hr, hk]

theorem childTest_of_not_root (d : Doc) (s : Step) (fd : Bool) (m : Nat) (hk : d.kind m ≠ .root) :
    childTest v d (compileStep s fd) m = tester d false (.t s.test) m := by
  rw [childTest_compile]
  have : ¬ (v.rootGuard && d.kind m == .root) = true := by simp [hk]
  rw [if_neg this]

/-- **single step**: on a non-attribute node, the node test followed by `doStepPredicate` (the body of the
any-ancestor loop; for an immediate-ancestor step the same two calls) succeeds exactly when the node is selected
by the step evaluated forward from its parent.  Without the root guard (`rootGuard = false`, the code as found)
a `node()` test needs the node not to be the document node. -/
theorem anyBody_iff (d : Doc) (hwf : d.WF = true) (s : Step) (fd : Bool) (h : s.attrAxis = false)
    (m : Nat) (hm : m < d.size) (hk : d.kind m ≠ .attr) (hn : v.rootGuard = false → s.test = .node → m ≠ 0) :
    anyBody v d (compileStep s fd) m ≠ .none ↔ selfSel d s m := by
  have hcp : (compileStep s fd).preds = s.preds := rfl
  have hT := tester_eq_testOK d s.test m
  unfold anyBody
  simp only [hcp]
  rw [dsp_char, handleFoundIndex_child d s fd h m]
  constructor
  · intro hne
    by_cases ht : (childTest v d (compileStep s fd) m != Score.none) = true
    · rw [if_pos ht] at hne
      obtain ⟨htt, hroot⟩ := childTest_ne_none d s fd m ht
      have hm0 : m ≠ 0 := by
        by_cases hg : v.rootGuard = true
        · intro h0
          have := hroot hg
          rw [h0] at this
          exact this (wf_kind0 hwf)
        · have hg' : v.rootGuard = false := by simpa using hg
          by_cases hnode : s.test = .node
          · exact hn hg' hnode
          · intro h0
            have := tester_ne_none_not_root d s.test m hnode (by simpa using htt)
            rw [h0] at this
            exact this (wf_kind0 hwf)
      obtain ⟨p, hp⟩ := wf_parent hwf hm0 hm
      by_cases hbad : (s.preds.any fun p => p.plain && !plainTrue d p m) = true
      · rw [if_pos hbad] at hne; exact absurd rfl hne
      · rw [if_neg hbad] at hne
        by_cases hnp : (s.preds.any fun p => !p.plain) = true
        · rw [if_pos hnp] at hne
          by_cases hex : ∃ p, d.parent m = some p ∧ m ∈ evalStep d p s
          · exact hex
          · rw [if_neg hex] at hne; exact absurd rfl hne
        · refine ⟨p, hp, ?_⟩
          unfold evalStep
          apply fold_all_plain
          · intro q hq
            have h1 : q.plain = true := by
              by_cases hq1 : q.plain = true
              · exact hq1
              · exfalso; apply hnp
                exact List.any_eq_true.mpr ⟨q, hq, by simpa using hq1⟩
            refine ⟨h1, ?_⟩
            by_cases hq2 : plainTrue d q m = true
            · exact hq2
            · exfalso; apply hbad
              exact List.any_eq_true.mpr ⟨q, hq, by simp [h1, hq2]⟩
          · rw [h]
            simp only [Bool.false_eq_true, if_false]
            refine List.mem_filter.mpr ⟨Doc.mem_children.mpr ⟨hp, hk⟩, ?_⟩
            rw [← hT]; exact htt
    · rw [if_neg ht] at hne
      exfalso; apply ht
      simpa using hne
  · rintro ⟨p, hp, hmem⟩
    have hbase := fold_subset d s.preds _ m hmem
    rw [h] at hbase
    simp only [Bool.false_eq_true, if_false] at hbase
    have htok := (List.mem_filter.mp hbase).2
    rw [← hT] at htok
    have hm0 : m ≠ 0 := by
      intro h0; subst h0; simp [Doc.parent] at hp
    have hct := childTest_of_not_root (v := v) d s fd m (wf_kind_ne_root hwf hm hm0)
    rw [hct, if_pos htok]
    have hpl := fold_plainTrue d s.preds _ m hmem
    have hbad : ¬ (s.preds.any fun p => p.plain && !plainTrue d p m) = true := by
      intro hb
      obtain ⟨q, hq, hqq⟩ := List.any_eq_true.mp hb
      simp only [Bool.and_eq_true, Bool.not_eq_true'] at hqq
      have := hpl q hq hqq.1
      rw [this] at hqq
      exact Bool.noConfusion hqq.2
    rw [if_neg hbad]
    have hex : ∃ p, d.parent m = some p ∧ m ∈ evalStep d p s := ⟨p, hp, hmem⟩
    rw [if_pos hex]
    split
    · simp
    · simpa using htok

theorem lpp_single (d : Doc) (s : Step) (h : s.attrAxis = false) (n : Nat) :
    locationPathPattern v d [compileStep s false] n =
      if d.kind n != .attr then anyBody v d (compileStep s false) n else Score.none := by
  unfold locationPathPattern stepPattern evalStepAt anyBody
  simp only [compileStep, h]
  by_cases hk : (d.kind n != Kind.attr) = true
  · simp [hk]
  · simp [hk]

theorem parent_mem_ancOrSelf (d : Doc) (n p : Nat) (hp : d.parent n = some p) : p ∈ d.ancOrSelf n := by
  have hlt := Doc.parent_lt hp
  unfold Doc.ancOrSelf
  match n, hlt, hp with
  | k + 1, _, hp =>
    simp only [Doc.ancOrSelfF, hp]
    apply List.mem_cons_of_mem
    cases k <;> simp [Doc.ancOrSelfF]

theorem matchesPath_single (d : Doc) (s : Step) (h : s.attrAxis = false) (n : Nat) :
    matchesPath d ⟨false, [(.child, s)]⟩ n = true ↔ selfSel d s n := by
  unfold matchesPath selects
  simp only [fwd, Bool.false_eq_true, if_false, List.any_eq_true, beq_iff_eq]
  constructor
  · rintro ⟨A, _, m, hm, rfl⟩
    refine ⟨A, ?_, hm⟩
    have hb := fold_subset d s.preds _ m hm
    rw [h] at hb
    simp only [Bool.false_eq_true, if_false] at hb
    exact (Doc.mem_children.mp (List.mem_filter.mp hb).1).1
  · rintro ⟨p, hp, hm⟩
    exact ⟨p, parent_mem_ancOrSelf d n p hp, n, hm, rfl⟩

theorem selfSel_not_attr (d : Doc) (s : Step) (h : s.attrAxis = false) (n : Nat) (hs : selfSel d s n) :
    d.kind n ≠ .attr := by
  obtain ⟨p, _, hm⟩ := hs
  have hb := fold_subset d s.preds _ n hm
  rw [h] at hb
  simp only [Bool.false_eq_true, if_false] at hb
  exact (Doc.mem_children.mp (List.mem_filter.mp hb).1).2

theorem getMatchScoreC_ne_none (d : Doc) (alts : List (List MStep)) (n : Nat) :
    getMatchScoreC v d alts n ≠ .none ↔ ∃ a ∈ alts, lpp v d a n ≠ .none := by
  induction alts with
  | nil => simp [getMatchScoreC]
  | cons a as ih =>
    simp only [getMatchScoreC, List.mem_cons, exists_eq_or_imp]
    by_cases h : lpp v d a n = .none
    · simp [h, ih]
    · simp [h]

theorem getMatchScoreAltC_eq (d : Doc) (alts : List (List MStep)) (i n : Nat) :
    getMatchScoreAltC v d alts i n = match alts[i]? with | some a => lpp v d a n | none => Score.none := by
  induction alts generalizing i with
  | nil => simp [getMatchScoreAltC]
  | cons a as ih =>
    cases i with
    | zero => simp [getMatchScoreAltC]
    | succ i => simp [getMatchScoreAltC, ih]

/-- the union entry point returns the score of the first alternative whose own score is not None -/
theorem getMatchScoreC_first (d : Doc) (alts : List (List MStep)) (n : Nat) :
    getMatchScoreC v d alts n = ((alts.map fun a => lpp v d a n).find? (· != Score.none)).getD Score.none := by
  induction alts with
  | nil => simp [getMatchScoreC]
  | cons a as ih =>
    simp only [getMatchScoreC, List.map_cons, List.find?_cons]
    by_cases h : lpp v d a n = Score.none
    · simp [h, ih]
    · have hb : (lpp v d a n != Score.none) = true := by simpa using h
      have hb2 : (lpp v d a n == Score.none) = false := by simpa using h
      simp [hb, hb2]

end XalanModel.C09
