import XalanModel.C09.ChainProofs
import XalanModel.Generated.C10_Priority
import XalanModel.Generated.C09_KeyTable
import XalanModel.Generated.C09_StepPredicate
import XalanModel.Generated.C09_FromRoot
import XalanModel.Generated.C09_NodeTester
/-!
# C09 — consumers that pre-filter candidate nodes by target data

`XPath::getTargetData` classifies the *last step* of every alternative (pseudo name, target type); consumers use that
classification to decide which nodes a pattern is tried on: `Stylesheet::addTemplate` files the pattern in lists that
`locateMatchPatternDataList` consults by node type and name.  Such a pre-filter is only right if it never removes a
node the step can match.  The classification table and the routing table are *generated from the source*
(`Generated.C10` — translate/c10_priority.py; `Generated.C09_KeyTable` — translate/c09_keytable.py); the node kinds a
step can match come from this property's model of the matcher (`stepAtB`).

Codes (translate/c10_priority.py): last step 0 function, 1 fromRoot, 2 comment, 3 text, 4 node, 7 piAny, 8 piLiteral,
9/10 name on element/attribute axis, 11/12 `*`, 13/14 `prefix:*`; lists 0 text, 1 comment, 2 root, 3 pi, 4 node,
5 elementAny, 6 attributeAny, 7 elementTable[name], 8 attributeTable[name]; target types 0 eAttribute, 1 eElement,
2 eAny, 3 eOther.
-/
namespace XalanModel.C09
open XalanModel.Generated

/-- shapes of a last step -/
inductive LastStep where
  | fn                              -- id()/key() call
  | root                            -- the pattern `/`
  | step (attrAxis : Bool) (t : Test)
deriving DecidableEq, Repr

/-- the last-step kind `getTargetData` distinguishes (which token the compiler emitted for the node test) -/
def Test.targetCode (attrAxis : Bool) : Test → Nat
  | .comment => 2 | .text => 3 | .node => 4 | .pi => 7 | .piLit _ => 8
  | .name _ | .qname _ _ _ => if attrAxis then 10 else 9
  | .any => if attrAxis then 12 else 11
  | .nsAny _ _ => if attrAxis then 14 else 13

def LastStep.code : LastStep → Nat
  | .fn => 0 | .root => 1 | .step ax t => t.targetCode ax

/-- (pseudo name, target type) from the generated `getTargetData` table -/
def targetOf (ls : LastStep) : Option (Nat × Nat) :=
  (C10.targetRows.find? fun r => r.1 == ls.code).map fun r => (r.2.1, r.2.2.2)

/-- the lists `Stylesheet::addTemplate` files a target in (first matching row of the generated if/else-if chain) -/
def listsOf (tg : Nat × Nat) : List Nat :=
  match C10.routeRows.find? fun r => r.1 == tg.1 && (r.2.1 == 9 || r.2.1 == tg.2) with
  | some r => r.2.2
  | none => []

/-- `Stylesheet::locateMatchPatternDataList`: the lists consulted for a node of the given kind (a named table falls
back to, and after `postConstruction` contains, the corresponding wildcard list) -/
def consulted : Kind → List Nat
  | .elem => [7, 5] | .attr => [8, 6] | .text => [0] | .comment => [1] | .pi => [3] | .root => [2]

/-- node kinds a last step can match in the repaired matcher (an over-approximation by kind of `stepAtB`) -/
def canMatchKind : LastStep → Kind → Bool
  | .fn, _ => true                                  -- a key() call may return nodes of any kind
  | .root, k => k == .root
  | .step true t, k => k == .attr && (match t with | .text | .comment | .pi | .piLit _ => false | _ => true)
  | .step false t, k =>
    match t with
    | .name _ | .qname _ _ _ | .any | .nsAny _ _ => k == .elem
    | .text => k == .text
    | .comment => k == .comment
    | .pi | .piLit _ => k == .pi
    | .node => k != .attr && k != .root

/-- the kind over-approximation is sound for the matcher model -/
theorem stepAtB_kind (d : Doc) (s : Step) (fd : Bool) (x : Nat)
    (h : stepAtB Variant.backtracking d (compileStep s fd) x ≠ .none) :
    canMatchKind (.step s.attrAxis s.test) (d.kind x) = true := by
  obtain ⟨ax, t, ps, ex⟩ := s
  cases ax
  · -- child axis
    have hcode : (compileStep ⟨false, t, ps, ex⟩ fd).code = .anyAnc ∨ (compileStep ⟨false, t, ps, ex⟩ fd).code = .immAnc := by
      cases fd <;> simp [compileStep]
    by_cases hk : d.kind x = .attr
    · exfalso; apply h
      rcases hcode with hc | hc <;> simp [stepAtB, hc, hk]
    · have hk' : (d.kind x != Kind.attr) = true := by simpa using hk
      have hb : anyBody Variant.backtracking d (compileStep ⟨false, t, ps, ex⟩ fd) x ≠ .none := by
        rcases hcode with hc | hc <;> simpa [stepAtB, hc, hk'] using h
      have hct : childTest Variant.backtracking d (compileStep ⟨false, t, ps, ex⟩ fd) x ≠ .none := by
        intro h0; apply hb; simp [anyBody, h0]
      have hsplit := childTest_ne_none (v := Variant.backtracking) d ⟨false, t, ps, ex⟩ fd x (by simpa using hct)
      have hroot : d.kind x ≠ .root := hsplit.2 rfl
      have htest : tester d false (.t t) x ≠ .none := by simpa using hsplit.1
      cases t <;> simp [canMatchKind, tester] at htest ⊢ <;> first | exact htest.1 | exact htest | exact ⟨hk, hroot⟩
  · -- attribute axis
    have hcode : (compileStep ⟨true, t, ps, ex⟩ fd).code = .attr := by simp [compileStep]
    have hb : attrBody Variant.backtracking d (compileStep ⟨true, t, ps, ex⟩ fd) x ≠ .none := by
      simpa [stepAtB, hcode] using h
    have hk : d.kind x = .attr := by
      by_cases hk : d.kind x = .attr
      · exact hk
      · exfalso; apply hb; simp [attrBody, Variant.backtracking, hk]
    have htest : tester d true (.t t) x ≠ .none := by
      intro h0; apply hb; simp [attrBody, Variant.backtracking, hk, compileStep, h0]
    cases t <;> simp [canMatchKind, tester, hk] at htest ⊢

end XalanModel.C09
