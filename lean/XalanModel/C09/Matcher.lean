import XalanModel.C09.Pattern
/-!
# C09 — Xalan's pattern compiler and right-to-left matcher, as written

Mirrors (src/xalanc/XPath):
* `XPathProcessorImpl::LocationPathPattern` / `AbbreviatedNodeTestStep` — which `eMATCH_*` code each
  step gets (`compilePath`);
* `XPath::NodeTester` — the node-test functions and the `eMatchScore` they return (`tester`);
* `XPath::step` restricted to the `eMATCH_*` codes (`findChildren` / `findAttributes` + `predicates`,
  no step recursion) — used by `handleFoundIndex` (`fwdStep`, `predicates`);
* `XPath::doStepPredicate`, `handleFoundIndex`;
* `XPath::stepPattern` (recursion to the right first, then parent, the per-code `switch`, the
  `eMATCH_ANY_ANCESTOR` loop that keeps the *nearest* candidate, `scoreHolder` threading, both
  "big ugly return"s);
* `XPath::locationPathPattern`, `doGetMatchScore` (first alternative with a score wins).

`handleFoundIndexPositional` is not modelled: it is only entered for an `eOP_PREDICATE_WITH_POSITION`
whose body starts with `eOP_NUMBERLIT`; `PredicateExpr` sets that op code only when the body calls
`position()`/`last()`, and such a body never starts with a number literal in the modelled predicate
shapes (`[k]` compiles to a plain `eOP_PREDICATE`).
-/
namespace XalanModel.C09

/-- `XPath::eMatchScore` -/
inductive Score where
  | none | nodeTest | nsWild | qname | other
deriving DecidableEq, Repr, Inhabited

def Score.toNat : Score → Nat
  | .none => 0 | .nodeTest => 1 | .nsWild => 2 | .qname => 3 | .other => 4

/-- **Which of the proposed repairs the working tree contains** (`proposed/C09-*.diff`); the check determines the
three flags by probing the real library (harness request `probe`) and hands them to the driver, so that the model
follows the tree both before and after the `fix:` commits.  `Variant.asWritten` is the code as found.
* `findAttrFix` — `findAttributes` builds its `NodeTester` with `eFROM_ATTRIBUTES` (attribute name tests) also
  when the step type is `eMATCH_ATTRIBUTE` (so `handleFoundIndex` works for `@x[1]`);
* `attrGuard` — the `eMATCH_ATTRIBUTE` case of `stepPattern` tests attribute nodes only;
* `rootGuard` — the `eMATCH_IMMEDIATE_ANCESTOR` / `eMATCH_ANY_ANCESTOR` cases never accept a root node (the
  pseudo-step for a leading `//`, `eMATCH_ANY_ANCESTOR_WITH_PREDICATE`, still does). -/
structure Variant where
  findAttrFix : Bool
  attrGuard : Bool
  rootGuard : Bool
  /-- the any-ancestor loop backtracks (`proposed/C09-any-ancestor-backtracking.diff`, on top of the other two) -/
  backtrack : Bool
deriving DecidableEq, Repr, Inhabited

def Variant.asWritten : Variant := ⟨false, false, false, false⟩
def Variant.repaired : Variant := ⟨true, true, true, false⟩
def Variant.backtracking : Variant := ⟨true, true, true, true⟩

/-- step op codes of a compiled pattern -/
inductive Code where
  | fromRoot      -- eFROM_ROOT                          R
  | attr          -- eMATCH_ATTRIBUTE                    @
  | anyAnc        -- eMATCH_ANY_ANCESTOR                 A
  | immAnc        -- eMATCH_IMMEDIATE_ANCESTOR           I
  | anyAncPred    -- eMATCH_ANY_ANCESTOR_WITH_PREDICATE  P
  | fn (any : Bool) -- eOP_FUNCTION (id()/key() call) F, followed by eMATCH_ANY_ANCESTOR_WITH_FUNCTION_CALL (G) when `//` follows
deriving DecidableEq, Repr, Inhabited

def Code.char : Code → Char
  | .fromRoot => 'R' | .attr => '@' | .anyAnc => 'A' | .immAnc => 'I' | .anyAncPred => 'P' | .fn _ => 'F'

/-- node test operand of a compiled step: the pattern grammar's tests plus `eNODETYPE_ROOT` -/
inductive MTest where
  | t (t : Test)
  | root
  | set (S : List Nat)   -- the node-set an id()/key() call evaluates to (eOP_FUNCTION step)
deriving DecidableEq, Repr, Inhabited

structure MStep where
  code : Code
  test : MTest
  preds : List Pred
deriving DecidableEq, Repr, Inhabited

/-! ## compilation -/

/-- `AbbreviatedNodeTestStep`: `@`/`attribute::` → eMATCH_ATTRIBUTE; otherwise eMATCH_IMMEDIATE_ANCESTOR,
rewritten to eMATCH_ANY_ANCESTOR when the step is followed by `//` (`matchTypePos > -1` only for
non-attribute steps). -/
def compileStep (s : Step) (followedByDesc : Bool) : MStep :=
  { code := if s.attrAxis then .attr else if followedByDesc then .anyAnc else .immAnc
    test := .t s.test
    preds := s.preds }

def compileSteps : List (Sep × Step) → List MStep
  | [] => []
  | [(_, s)] => [compileStep s false]
  | (_, s) :: (sep', s') :: r => compileStep s (sep' == .desc) :: compileSteps ((sep', s') :: r)

/-- `LocationPathPattern`: leading `//` → eMATCH_ANY_ANCESTOR_WITH_PREDICATE node(); leading `/` →
eFROM_ROOT with eNODETYPE_ROOT; then the relative path. -/
def compilePath (p : Path) : List MStep :=
  (if p.abs then
     match p.steps with
     | (.desc, _) :: _ => [{ code := .anyAncPred, test := .t .node, preds := [] }]
     | _ => [{ code := .fromRoot, test := .root, preds := [] }]
   else []) ++ compileSteps p.steps

/-! ### `AbbreviatedNodeTestStep` branch by branch

The compiler reaches a step in one of several parallel branches, depending on how the axis is written and on
whether the current token is still a `/` (the second slash of `//`, or the slash after an id()/key() call — the
caller consumed only one).  Every branch that emits a child-axis step must record `matchTypePos`, otherwise the
`//` that follows cannot re-flag the step as any-ancestor.  `compilePathW` follows the branches; `compilePath` above
is what they all amount to (`compilePathW_eq`), and the op codes of `compilePathW` are what the driver prints for the
comparison with the real op map. -/

inductive Branch where
  | at_            -- token `@`
  | axisName       -- `lookahead("::", 1)`: token is `child` / `attribute`
  | slashAbbrev    -- token `/`, then an abbreviated non-attribute step
  | slashAt        -- token `/`, then `@`
  | slashAxis      -- token `/`, then `child::` / `attribute::`
  | plain          -- none of the above: abbreviated child step
deriving DecidableEq, Repr

/-- which branch compiles step `s`; `afterSlash`: the current token is still a `/` -/
def branchOf (s : Step) (afterSlash : Bool) : Branch :=
  if afterSlash then
    (if s.explicit then .slashAxis else if s.attrAxis then .slashAt else .slashAbbrev)
  else
    (if s.explicit then .axisName else if s.attrAxis then .at_ else .plain)

/-- (axis op code emitted, `matchTypePos > -1`) of a branch for a step on the given axis -/
def branchEmit (b : Branch) (attrAxis : Bool) : Code × Bool :=
  match b with
  | .at_ | .slashAt => (.attr, false)
  | .axisName | .slashAxis => if attrAxis then (.attr, false) else (.immAnc, true)
  | .slashAbbrev | .plain => (.immAnc, true)

def compileStepW (s : Step) (followedByDesc afterSlash : Bool) : MStep :=
  let e := branchEmit (branchOf s afterSlash) s.attrAxis
  { code := if e.2 && followedByDesc then .anyAnc else e.1     -- setOpCodeMapValue(matchTypePos, eMATCH_ANY_ANCESTOR)
    test := .t s.test
    preds := s.preds }

/-- `RelativePathPattern`: after a `//` separator the second slash is still the current token when the step is
compiled; `first` says whether the first step of the list is compiled with a pending `/` (after id()/key()) -/
def compileStepsW : List (Sep × Step) → Bool → List MStep
  | [], _ => []
  | [(_, s)], pend => [compileStepW s false pend]
  | (_, s) :: (sep', s') :: r, pend =>
    compileStepW s (sep' == .desc) pend :: compileStepsW ((sep', s') :: r) (sep' == .desc)

def compilePathW (p : Path) : List MStep :=
  (if p.abs then
     match p.steps with
     | (.desc, _) :: _ => [{ code := .anyAncPred, test := .t .node, preds := [] }]
     | _ => [{ code := .fromRoot, test := .root, preds := [] }]
   else []) ++ compileStepsW p.steps false

/-- node types the matcher takes for "the root of the tree": the eFROM_ROOT case of `stepPattern` and
`NodeTester::testRoot` accept `DOCUMENT_NODE` and `DOCUMENT_FRAGMENT_NODE` alike (compared with the source on every run
by translate/c09_fromroot.py), so an absolute pattern is matched relative to whatever root the node's tree has -/
def rootTypeAccepted : RootKind → Bool
  | .document => true       -- nodeType == XalanNode::DOCUMENT_NODE
  | .fragment => true       -- nodeType == XalanNode::DOCUMENT_FRAGMENT_NODE

@[simp] theorem rootTypeAccepted_eq (k : RootKind) : rootTypeAccepted k = true := by cases k <;> rfl

/-! ## NodeTester -/

/-- `NodeTester::operator()`: `attrTester` is `stepType == eFROM_ATTRIBUTES` at construction
(selects `testAttribute*` instead of `testElement*` for eNODENAME). -/
def tester (d : Doc) (attrTester : Bool) (t : MTest) (m : Nat) : Score :=
  match t with
  | .root => if d.kind m == .root && rootTypeAccepted d.rootKind then .other else .none   -- testRoot
  | .set S => if S.contains m then .other else .none                             -- `n == context` over the node list
  -- every testAttribute* function also requires `isNamespaceDeclaration(context) == false`
  | .t (.name s) =>
    if d.kind m == (if attrTester then Kind.attr else Kind.elem) && d.name m == s &&
        !(attrTester && Doc.isNsDeclName (d.name m)) then .qname else .none
  | .t (.qname _ uri loc) =>                                                    -- testElementQName / testAttributeQName
    if d.kind m == (if attrTester then Kind.attr else Kind.elem) && d.name m == "{" ++ uri ++ "}" ++ loc &&
        !(attrTester && Doc.isNsDeclName (d.name m)) then .qname
    else .none
  | .t (.nsAny _ uri) =>                                                        -- test…NamespaceOnly: eMatchScoreNSWild
    if d.kind m == (if attrTester then Kind.attr else Kind.elem) && ("{" ++ uri ++ "}").isPrefixOf (d.name m) &&
        !(attrTester && Doc.isNsDeclName (d.name m)) then .nsWild
    else .none
  | .t .any =>
    if d.kind m == (if attrTester then Kind.attr else Kind.elem) && !(attrTester && Doc.isNsDeclName (d.name m)) then .nodeTest
    else .none
  | .t .text => if d.kind m == .text then .nodeTest else .none
  | .t .comment => if d.kind m == .comment then .nodeTest else .none
  | .t .pi => if d.kind m == .pi then .nodeTest else .none
  | .t (.piLit s) => if d.kind m == .pi && d.name m == s then .qname else .none
  | .t .node => .nodeTest                                                        -- testNode: any node type

/-! ## the forward `step()` on an eMATCH_* code, as `handleFoundIndex` calls it -/

open Spec (PVal predVal)

/-- `XPath::predicates`, one predicate over the current list `l`.
Number literal: keep only the k-th node (the "huge hack/optimization"); otherwise evaluate per node with
position `i+1` and size `l.length`, drop a node when the value is a number different from `i+1` or its
boolean value is false. -/
def predicates1 (d : Doc) (p : Pred) (l : List Nat) : List Nat :=
  if l.length = 0 then l else
  match p with
  | .idx k =>
    if k = 0 ∨ k > l.length then []
    else if l.length > 1 then (match l[k - 1]? with | some x => [x] | none => [])
    else l
  | p =>
    (l.zipIdx.filter fun (m, i) =>
      match predVal d p m (i + 1) l.length with
      | .num k => !(i + 1 != k) && k != 0
      | .bool b => b).map Prod.fst

def predicates (d : Doc) (ps : List Pred) (l : List Nat) : List Nat :=
  ps.foldl (fun l p => predicates1 d p l) l

/-- `XPath::step(parent, startOpPos)` for a match step: `findAttributes` (eMATCH_ATTRIBUTE) or
`findChildren` (the other eMATCH codes), the NodeTester being built with the *match* step type, i.e.
never with eFROM_ATTRIBUTES (as written; with `findAttrFix`, `findAttributes` uses eFROM_ATTRIBUTES); then
`predicates`; `continueStepRecursion == false`. -/
def fwdStep (v : Variant) (d : Doc) (c : Nat) (s : MStep) : List Nat :=
  match s.code with
  | .fromRoot => [0]                          -- findRoot (not reachable from handleFoundIndex: no predicates)
  | .attr =>
    predicates d s.preds
      ((if d.kind c == .elem then d.attrs c else []).filter fun m => tester d v.findAttrFix s.test m != .none)
  | _ => predicates d s.preds ((d.children c).filter fun m => tester d false s.test m != .none)

/-- `XPath::handleFoundIndex` -/
def handleFoundIndex (v : Variant) (d : Doc) (s : MStep) (ctx : Nat) : Score :=
  match d.parent ctx with
  | none => .none
  | some p => if (fwdStep v d p s).contains ctx then .other else .none

/-- `PredicateExpr` replaces eOP_PREDICATE by eOP_PREDICATE_WITH_POSITION exactly when the body calls `position()`
or `last()` anywhere (`m_positionPredicateStack`); compared with the real op map on every run -/
def Pred.usesPos : Pred → Bool
  | .last | .posEq _ | .posNeLast | .lastEq _ | .lastGt _ | .posLtLast | .lastMinus1 => true
  | _ => false

/-- `XPath::doStepPredicate` over the predicates still to be looked at -/
def doStepPredicate (v : Variant) (d : Doc) (s : MStep) : List Pred → Nat → Score → Score
  | [], _, score => score
  | p :: ps, ctx, score =>
    if p.usesPos then                                   -- eOP_PREDICATE_WITH_POSITION
      doStepPredicate v d s ps ctx (handleFoundIndex v d s ctx)
    else
      match predVal d p ctx 0 0 with                    -- predicate(context, opPos, executionContext)
      | .num _ => doStepPredicate v d s ps ctx (handleFoundIndex v d s ctx)
      | .bool b =>
        if b then doStepPredicate v d s ps ctx score
        else .none                                      -- score = eMatchScoreNone; break

/-! ## stepPattern -/

/-- The two upward loops of `stepPattern` (eFROM_ROOT: `while(0 != context)`; eMATCH_ANY_ANCESTOR: `for(;;)`):
evaluate `f` on the context, stop at the first (nearest) node where it is not None, otherwise go to the
parent; when the parents run out the result is (None, null).  `fuel` ≥ the node index suffices because a
parent precedes its child. -/
def climb (d : Doc) (f : Nat → Score) : Nat → Nat → Score × Option Nat
  | 0, ctx => (f ctx, if f ctx != .none then some ctx else d.parent ctx)
  | fuel + 1, ctx =>
    if f ctx != .none then (f ctx, some ctx)
    else match d.parent ctx with
      | some p => climb d f fuel p
      | none => (f ctx, none)

/-- node test of a child-axis match step on `ctx`; with `rootGuard`, a root node is refused unless the step is the
pseudo-step of a leading `//` -/
def childTest (v : Variant) (d : Doc) (s : MStep) (ctx : Nat) : Score :=
  if v.rootGuard && s.code != .anyAncPred && d.kind ctx == .root then .none else tester d false s.test ctx

/-- body of the eMATCH_ANY_ANCESTOR loop: node test, then (only if it passed) the step's predicates -/
def anyBody (v : Variant) (d : Doc) (s : MStep) (ctx : Nat) : Score :=
  let sc := childTest v d s ctx
  if sc != .none then doStepPredicate v d s s.preds ctx sc else sc

/-- The second half of `XPath::stepPattern` — everything after the recursion block: `switch(stepType)`, the
trailing `doStepPredicate` call (`fDoPredicates`), the `scoreHolder` update and the return value.
`nextCode` is the op code of the step to the right (`prevStepType` in the eFROM_ROOT case), `context` the node
this step is tested on, `sh` the value of `scoreHolder` on entry.  Returns (returned node, scoreHolder). -/
def evalStepAt (v : Variant) (d : Doc) (s : MStep) (nextCode : Option Code) (context : Nat) (sh : Score) :
    Option Nat × Score :=
  -- switch(stepType): (score, context, fDoPredicates)
  let r : Score × Option Nat × Bool :=
    match s.code with
    | .fromRoot =>
      if d.kind context == .root && rootTypeAccepted d.rootKind then (.other, some context, true)
      else if nextCode == some .anyAnc || nextCode == some .anyAncPred then
        let (sc, c) := climb d (tester d false s.test) context context
        (sc, c, true)
      else (.none, some context, true)
    | .attr =>
      if v.attrGuard && d.kind context != .attr then (.none, some context, true)
      else (tester d true s.test context, some context, true)
    | .anyAnc | .anyAncPred =>
      if d.kind context != .attr then
        let (sc, c) := climb d (anyBody v d s) context context
        (sc, c, false)
      else (.none, some context, false)
    | .immAnc =>
      if d.kind context != .attr then (childTest v d s context, some context, true)
      else (.none, some context, true)
    | .fn _ => (.none, some context, true)     -- id()/key() steps: modelled for the backtracking matcher only (`lppB`)
  let score := r.1
  let score :=
    match r.2.1 with
    | some c => if r.2.2 && score != .none then doStepPredicate v d s s.preds c score else score
    | none => score
  let sh' := if sh == .none || score == .none then score else sh
  (if score == .none then none else r.2.1, sh')

/-- `XPath::stepPattern(executionContext, context, opPos, scoreHolder)`: the steps from `opPos` to the
end of the LocationPathPattern are the list; returns (returned node, scoreHolder afterwards).
`if (eENDOP != nextStepType)`: recurse on the steps to the right with the *same* context; a null result or a
None score returns (0, None); then `scoreHolder = eMatchScoreOther`, `context = parent` — and when there is no
parent the second "big ugly return" leaves (0, Other). -/
def stepPattern (v : Variant) (d : Doc) : List MStep → Nat → Score → Option Nat × Score
  | [], _, sh => (none, sh)
  | [s], context, sh => evalStepAt v d s none context sh
  | s :: s' :: rest, context, sh0 =>
    let r := stepPattern v d (s' :: rest) context sh0
    match r.1 with
    | none => (none, .none)                         -- 0 == context → scoreHolder = None → return 0
    | some c =>
      if r.2 == .none then (none, .none)
      else
        match d.parent c with                       -- scoreHolder = eMatchScoreOther; context = parent
        | none => (none, .other)                    -- second "big ugly return": scoreHolder stays Other
        | some p => evalStepAt v d s (some s'.code) p .other

/-! ## the matcher with a backtracking any-ancestor loop (`proposed/C09-any-ancestor-backtracking.diff`)

In the patched `stepPattern` the any-ancestor loop, having found an ancestor that passes the step, matches the steps
to the *left* of it (`stepPattern(parent, patternStartPos, …, stopPos = startOpPos)`) before settling, and goes on
climbing when they fail; the eFROM_ROOT case no longer climbs; the second early return clears `scoreHolder`.  The
callers to the left then repeat the evaluation the loop has already made, with the same outcome.  The model keeps
the control structure — recursion to the right first, carrying the steps to the left (`lppB`); at each step
leftwards either the parent or, for an any-ancestor step, every ancestor-or-self of the parent, nearest first
(`leftOK`) — and drops the duplicated work and the `scoreHolder` bookkeeping (the result is the step's own score for
a one-step pattern and `eMatchScoreOther` otherwise, as before). -/

/-- node test (with the attribute testers) followed by `doStepPredicate`: what the eMATCH_ATTRIBUTE case and the
trailing `doStepPredicate` call compute -/
def attrBody (v : Variant) (d : Doc) (s : MStep) (ctx : Nat) : Score :=
  let sc := if v.attrGuard && d.kind ctx != .attr then Score.none else tester d true s.test ctx
  if sc != .none then doStepPredicate v d s s.preds ctx sc else sc

/-- one step tested on one node: the `switch` of `stepPattern` without the loops -/
def stepAtB (v : Variant) (d : Doc) (s : MStep) (x : Nat) : Score :=
  match s.code with
  | .fromRoot => if d.kind x == .root && rootTypeAccepted d.rootKind then .other else .none
  | .attr => attrBody v d s x
  | .fn _ => tester d false s.test x              -- eOP_FUNCTION: is the node in the call's node-set
  | _ => if d.kind x != .attr then anyBody v d s x else .none

/-- the steps to the left (`revLeft`, nearest first) of a step matched at `x` -/
def leftOK (v : Variant) (d : Doc) : List MStep → Nat → Bool
  | [], _ => true
  | s :: rest, x =>
    match d.parent x with
    | none => false
    | some p =>
      if s.code == .anyAnc || s.code == .anyAncPred || s.code == .fn true then
        (d.ancOrSelf p).any fun a => stepAtB v d s a != .none && leftOK v d rest a
      else stepAtB v d s p != .none && leftOK v d rest p

/-- `locationPathPattern` of the patched code: recursion to the right carrying the steps to the left -/
def lppB (v : Variant) (d : Doc) : List MStep → List MStep → Nat → Score
  | [], _, _ => .none
  | [s], revLeft, n =>
    let sc := stepAtB v d s n
    if sc != .none && leftOK v d revLeft n then (if revLeft.isEmpty then sc else .other) else .none
  | s :: s' :: r, revLeft, n => lppB v d (s' :: r) (s :: revLeft) n

/-- `IdKeyPattern (('/' | '//') RelativePathPattern)?` compiled: eOP_FUNCTION, then
eMATCH_ANY_ANCESTOR_WITH_FUNCTION_CALL when `//` follows, then the relative path -/
def compileFn (p : FnPath) : List MStep :=
  { code := .fn (match p.steps with | (.desc, _) :: _ => true | _ => false), test := .set p.S, preds := [] } ::
    compileSteps p.steps

def compileFnW (p : FnPath) : List MStep :=
  { code := .fn (match p.steps with | (.desc, _) :: _ => true | _ => false), test := .set p.S, preds := [] } ::
    compileStepsW p.steps true

/-- `getMatchScore` of an id()/key()-leading pattern (backtracking matcher; the any-ancestor search of the
eOP_FUNCTION case — `while(context != 0 && fFound == false)` — is the `fn true` arm of `leftOK`) -/
def getMatchScoreFn (v : Variant) (d : Doc) (p : FnPath) (n : Nat) : Score :=
  if v.backtrack then lppB v d (compileFn p) [] n else .none

/-- `XPath::locationPathPattern` -/
def locationPathPattern (v : Variant) (d : Doc) (steps : List MStep) (n : Nat) : Score :=
  (stepPattern v d steps n .none).2

/-- `locationPathPattern` of the variant under consideration -/
def lpp (v : Variant) (d : Doc) (steps : List MStep) (n : Nat) : Score :=
  if v.backtrack then lppB v d steps [] n else locationPathPattern v d steps n

/-- `XPath::doGetMatchScore`: alternatives in order, the first score ≠ None wins -/
def getMatchScoreC (v : Variant) (d : Doc) : List (List MStep) → Nat → Score
  | [], _ => .none
  | alt :: alts, n =>
    let sc := lpp v d alt n
    if sc == .none then getMatchScoreC v d alts n else sc

/-- `XPath::getMatchScore(node, resolver, executionContext, theAlternative)`: skip `theAlternative`
eOP_LOCATIONPATHPATTERNs, then `locationPathPattern` of the one reached; None when there is no such alternative -/
def getMatchScoreAltC (v : Variant) (d : Doc) : List (List MStep) → Nat → Nat → Score
  | [], _, _ => .none
  | alt :: _, 0, n => lpp v d alt n
  | _ :: alts, i + 1, n => getMatchScoreAltC v d alts i n

def getMatchScoreAlt (v : Variant) (d : Doc) (P : Pattern) (i n : Nat) : Score :=
  getMatchScoreAltC v d (P.map compilePath) i n

/-- `XPath::getMatchScore` of the compiled pattern -/
def getMatchScore (v : Variant) (d : Doc) (P : Pattern) (n : Nat) : Score :=
  getMatchScoreC v d (P.map compilePath) n

end XalanModel.C09
