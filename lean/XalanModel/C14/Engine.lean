/-!
# C14 — result-event state machine of XSLTEngineImpl (namespace fix-up)

Hand transcription (core Lean only) of

* `XalanNamespacesStack` (src/xalanc/DOMSupport/XalanNamespacesStack.cpp — the type of
  `XSLTEngineImpl::m_resultNamespacesStack`; `XSLT/ResultNamespacesStack.*` has the same design but is **not
  used** by the library): `addDeclaration` (187), `pushContext` (220), `popContext` (233, entries are `reset()`
  and re-used), `findEntry` (253: innermost created entry first, newest declaration first),
  `getNamespaceForPrefix` (295: `xml`/`xmlns` answered first), `getPrefixForNamespace` (header; **no shadowing
  test**), `prefixIsPresentLocal` (313), with the lazily created entries (`m_createNewContextStack`);
* `AttributeListImpl::addAttribute` (replace the value of an attribute with the same *qname*, else append);
* `XSLTEngineImpl::addResultAttribute` (1246-1352), `flushPending` (1414), `startElement` (1525),
  `endElement` (1576), `getUniqueNamespaceValue` (2975), `isPendingResultPrefix` (2702),
  `addResultNamespace` / `copyNamespaceAttributes` (2726-2825), `checkDefaultNamespace` (1921),
  `cloneToResultTree` for elements (2179-2197);
* `ElemAttribute::startElement/endElement` (src/xalanc/XSLT/ElemAttribute.cpp:131-424);
* `ElemElement::startElement` (src/xalanc/XSLT/ElemElement.cpp:135-286) and `fixupDefaultNamespace`;
* `ElemLiteralResult::startElement` (src/xalanc/XSLT/ElemLiteralResult.cpp:317) with
  `NamespacesHandler::outputResultNamespaces` (NamespacesHandler.cpp:589).

Abstraction: a *valid* QName string `p:l` / `l` is the pair `⟨p, l⟩` / `⟨"", l⟩` (`isValidQName` is
checked by the code before every use modelled here); string tests are restated on the pair
(`equals(aname,"xmlns")` ⇔ `⟨"", "xmlns"⟩`; `startsWith(aname,"xmlns:")` ⇔ `pfx = "xmlns"` …).
The driver converts; the correspondence run validates the conversion.
-/
namespace XalanModel.C14

structure QN where
  pfx : String
  loc : String
deriving DecidableEq, Repr, Inhabited

/-- the attribute name that declares prefix `p` (`xmlns` for the default namespace) -/
def QN.decl (p : String) : QN := if p = "" then ⟨"", "xmlns"⟩ else ⟨"xmlns", p⟩

def QN.str (q : QN) : String := if q.pfx = "" then q.loc else q.pfx ++ ":" ++ q.loc

structure NS where
  pfx : String
  uri : String
deriving DecidableEq, Repr, Inhabited

/-- one `NamespaceVectorType`, **newest declaration first** (the code appends and searches from the back) -/
abbrev Frame := List NS

def xmlURI : String := "http://www.w3.org/XML/1998/namespace"
def xmlnsURI : String := "http://www.w3.org/2000/xmlns/"

/-- `XalanNamespacesStackEntry::getNamespaceForPrefix` (`findEntry` from `m_position` back to `begin()`) -/
def Frame.nsForPrefix (f : Frame) (p : String) : Option String :=
  (f.find? (fun n => n.pfx = p)).map (·.uri)

/-- `XalanNamespacesStackEntry::getPrefixForNamespace` -/
def Frame.prefixForNs (f : Frame) (u : String) : Option String :=
  (f.find? (fun n => n.uri = u)).map (·.pfx)

/-- `XalanNamespacesStack`: `frames` = entries `1 … m_stackPosition` of `m_resultNamespaces` (each entry: its
declarations `begin() … m_position`),
innermost first (entry 0 is the always-empty dummy); `createNew` = `m_createNewContextStack`, back first. -/
structure RNS where
  frames : List Frame := []
  createNew : List Bool := []
deriving Repr, DecidableEq

/-- `XalanNamespacesStack::getNamespaceForPrefix` (XalanNamespacesStack.cpp:295-309): the two built-in prefixes are
answered before the stack is consulted -/
def RNS.nsForPrefix (r : RNS) (p : String) : Option String :=
  if p = "xml" then some xmlURI
  else if p = "xmlns" then some xmlnsURI
  else if r.frames.isEmpty then none       -- m_stackPosition == m_stackBegin
  else r.frames.findSome? (·.nsForPrefix p)

def RNS.prefixForNs (r : RNS) (u : String) : Option String :=
  if r.frames.isEmpty then none
  else r.frames.findSome? (·.prefixForNs u)

/-- `getPrefixForNamespace` after `C14-prefix-for-namespace-skips-shadowed.diff`: a declaration `p ↦ u` only
counts when `p` still resolves to `u` from the top of the stack -/
def RNS.prefixForNsChecked (r : RNS) (u : String) : Option String :=
  if r.frames.isEmpty then none
  else r.frames.findSome? (fun f =>
    (f.find? (fun n => n.uri = u && r.nsForPrefix n.pfx == some u)).map (·.pfx))

def RNS.addDeclaration (r : RNS) (p u : String) : RNS :=
  match r.createNew with
  | [] => r                                    -- asserted non-empty in the code
  | true :: cs => { frames := [⟨p, u⟩] :: r.frames, createNew := false :: cs }
  | false :: cs =>
    match r.frames with
    | [] => { frames := [[⟨p, u⟩]], createNew := false :: cs }   -- would write the dummy; unreachable
    | f :: fs => { frames := (⟨p, u⟩ :: f) :: fs, createNew := false :: cs }

def RNS.pushContext (r : RNS) : RNS := { r with createNew := true :: r.createNew }

def RNS.popContext (r : RNS) : RNS :=
  match r.createNew with
  | [] => r
  | false :: cs => { frames := r.frames.tail, createNew := cs }
  | true :: cs => { r with createNew := cs }

def RNS.prefixIsPresentLocal (r : RNS) (p : String) : Bool :=
  match r.createNew, r.frames with
  | false :: _, f :: _ => f.any (fun n => n.pfx = p)
  | _, _ => false

structure Att where
  name : QN
  val : String
deriving DecidableEq, Repr, Inhabited

/-- `AttributeListImpl::addAttribute` -/
def addAttribute : List Att → QN → String → List Att
  | [], n, v => [⟨n, v⟩]
  | a :: as, n, v => if a.name = n then ⟨n, v⟩ :: as else a :: addAttribute as n v

inductive Ev where
  | start (n : QN) (atts : List Att)
  | stop (n : QN)
  | text
deriving DecidableEq, Repr

/-- Which of the proposed repairs (`proposed/C14-*.diff`) the modelled tree contains.  The value for the
current working tree is regenerated on every run by `translate/c14_variant.py`
(`XalanModel.Generated.C14_Variant.variant`); all-`false` is the tree as it was first analysed. -/
structure Variant where
  /-- `C14-attr-declare-own-prefix.diff`: declare unless the attribute's *own* prefix is bound to the namespace -/
  ownPrefixDecl : Bool := false
  /-- `C14-late-attribute-needs-pending-element.diff`: the namespace branch of xsl:attribute tests `isElementPending` -/
  lateAttrCheck : Bool := false
  /-- `C14-element-empty-namespace.diff`: xsl:element `namespace=""` drops the prefix -/
  emptyNsStrips : Bool := false
  /-- `C14-prefix-for-namespace-skips-shadowed.diff`: `getPrefixForNamespace` skips re-bound prefixes -/
  shadowCheck : Bool := false
  /-- `C14-lre-default-namespace-not-an-avt.diff`: a plain `xmlns="u"` on a literal result element is no AVT -/
  noXmlnsAvt : Bool := false
  /-- `C14-no-alias-for-xsl-attribute.diff`: xsl:attribute's own namespace table is not aliased -/
  attrNoAlias : Bool := false
  /-- `C14-copied-attribute-prefix-declared.diff`: a copied namespaced attribute gets its prefix declared / re-prefixed -/
  copyAttrNs : Bool := false
  /-- `C14-replace-attribute-with-same-expanded-name.diff`: `flushPending` drops a pending attribute whose expanded
  name is that of a later one -/
  dedupExpanded : Bool := false
  /-- `C14-literal-attribute-keeps-namespace.diff`: `evaluateAVTs` re-prefixes a literal attribute whose prefix was re-bound -/
  literalAttrResolve : Bool := false
  /-- `C14-handler-own-bindings-first.diff`: `NamespacesHandler::getNamespace` / `copyExcludeResultPrefixes` -/
  handlerOwnFirst : Bool := false
  /-- `C14-attribute-xml-prefix-exact.diff`: ElemAttribute reserves exactly the prefixes `xml` / `xmlns`, not every name
  that starts with "xml"; `xml:` with another namespace is re-prefixed -/
  xmlPrefixExact : Bool := false
  /-- `C14-namespace-alias-collect-import-tree.diff`: `Stylesheet::postConstruction` first collects the aliases of the whole
  import tree -/
  aliasCollectFirst : Bool := false
  /-- `C14-result-tree-fragment-own-namespace-scope.diff`: `pushOutputContext` starts an isolated scope of the result
  namespaces stack (a result tree fragment does not see what is declared where it is built) -/
  rtfIsolatedNs : Bool := false
deriving Repr, DecidableEq

/-- the part of `XSLTEngineImpl` the property is about -/
structure St where
  v : Variant := {}
  ns : RNS := { frames := [], createNew := [true] }   -- after `startDocument` (pushContext at 1183)
  pendName : Option QN := none                        -- `none` = empty pending element name
  pendAtts : List Att := []
  uniq : Nat := 0
  out : List Ev := []                                 -- events delivered to the FormatterListener, newest first
  err : Bool := false                                 -- an XSLException was thrown (transformation aborted)
deriving Repr, DecidableEq

def St.resultNs (s : St) (p : String) : Option String := s.ns.nsForPrefix p
def St.resultPrefix (s : St) (u : String) : Option String :=
  if s.v.shadowCheck then s.ns.prefixForNsChecked u else s.ns.prefixForNs u
def St.isElementPending (s : St) : Bool := s.pendName.isSome

def St.addDecl (s : St) (p u : String) : St := { s with ns := s.ns.addDeclaration p u }

/-- expanded name of a namespaced pending attribute as the engine resolves it (`none`: no prefix, an `xmlns:` declaration,
or an unbound prefix — not compared) -/
def St.attKey (s : St) (a : Att) : Option (String × String) :=
  if a.name.pfx = "" || a.name.pfx = "xmlns" then none
  else (s.resultNs a.name.pfx).map (fun u => (u, a.name.loc))

/-- `C14-replace-attribute-with-same-expanded-name.diff`, `addResultAttribute`: an attribute in a namespace that is set
again is removed first, so that it is re-appended at the end (position = recency for the comparison in `flushPending`) -/
def St.dropSameExpanded (s : St) (n : QN) : List Att :=
  if s.v.dedupExpanded && n.pfx ≠ "" && n.pfx ≠ "xmlns" then s.pendAtts.filter (fun a => a.name ≠ n)
  else s.pendAtts

def St.addAtt (s : St) (n : QN) (v : String) : St := { s with pendAtts := addAttribute (s.dropSameExpanded n) n v }

/-- `XSLTEngineImpl::addResultAttribute(attList = pending attributes, aname, value, fromCopy)` -/
def St.addResultAttribute (s : St) (aname : QN) (value : String) (fromCopy : Bool := false) : St :=
  if aname = ⟨"xmlns", "xml"⟩ then s
  else if aname = ⟨"", "xmlns"⟩ then
    let cur := s.resultNs ""
    if value ≠ "" then
      if cur = some value then s
      else if fromCopy = false || s.ns.prefixIsPresentLocal "" = false then
        (s.addDecl "" value).addAtt aname value
      else { s with err := true }
    else
      match cur with
      | some c => if c ≠ "" then (s.addDecl "" value).addAtt aname value else s
      | none => s
  else if aname.pfx = "xmlns" then
    let p := aname.loc
    match s.resultNs p with
    | none => (s.addDecl p value).addAtt aname value
    | some u =>
      if u ≠ value then
        if fromCopy = false then (s.addDecl p value).addAtt aname value
        else { s with err := true }
      else s
  else s.addAtt aname value

/-- keep, of the attributes with one key, only the last (`removeReplacedPendingAttributes`) -/
def dedupLast {κ : Type} [DecidableEq κ] (key : Att → Option κ) : List Att → List Att
  | [] => []
  | a :: as =>
    match key a with
    | some k => if as.any (fun b => key b = some k) then dedupLast key as else a :: dedupLast key as
    | none => a :: dedupLast key as

/-- `flushPending` once the start-document has been flushed -/
def St.flushPending (s : St) : St :=
  match s.pendName with
  | some n =>
    { s with out := Ev.start n (if s.v.dedupExpanded then dedupLast s.attKey s.pendAtts else s.pendAtts) :: s.out,
             pendAtts := [], pendName := none }
  | none => s

def St.startElement (s : St) (n : QN) : St :=
  let s := s.flushPending
  { s with ns := s.ns.pushContext, pendName := some n }

def St.endElement (s : St) (n : QN) : St :=
  let s := s.flushPending
  { s with out := Ev.stop n :: s.out, ns := s.ns.popContext }

def St.characters (s : St) : St :=
  let s := s.flushPending
  { s with out := Ev.text :: s.out }

def St.declCount (s : St) : Nat := (s.ns.frames.map List.length).sum

/-- `getUniqueNamespaceValue`: `do ns<m_uniqueNSValue++> while (bound)`; fuel = number of declarations + 1 -/
def uniqueLoop (r : RNS) : Nat → Nat → String × Nat
  | 0, k => ("ns" ++ toString k, k + 1)
  | fuel + 1, k =>
    let c := "ns" ++ toString k
    if (r.nsForPrefix c).isSome then uniqueLoop r fuel (k + 1) else (c, k + 1)

def St.unique (s : St) : String × St :=
  let (c, k) := uniqueLoop s.ns s.declCount s.uniq
  (c, { s with uniq := k })

/-- `isPendingResultPrefix` (2702): used by the pending element name, by a pending attribute, or
declared by a pending `xmlns:p` attribute -/
def St.isPendingResultPrefix (s : St) (p : String) : Bool :=
  (match s.pendName with
   | some n => n.pfx = p && n.loc ≠ ""
   | none => false)
  || s.pendAtts.any (fun a => (a.name.pfx = p && a.name.loc ≠ "") || (a.name.pfx = "xmlns" && a.name.loc = p))

/-- `equals(prefix->c_str(), attrName.c_str(), indexOfNSSep)`: the first `|q|` code units of the
NUL-terminated `p` equal `q` -/
def prefixEq (p q : String) : Bool := q.toList.isPrefixOf p.toList

/-- branch taken by `ElemAttribute::startElement`, reported by the driver for classification -/
inductive ABranch where
  | nsEmpty | nsReuse | nsReuseShadowed | nsKeep | nsKeepXml | xmlLikeName | nsConflictNew | nsNoPrefixNew | nsXmlnsNew
  | plain | xmlName | noNsUnbound | noNsConflictDecl | noNsConflictNoDecl | noNsDecl | noNsBound | noNsPrefixUnbound
  | notPending | invalid
deriving DecidableEq, Repr

/-- `ElemAttribute.cpp:190-200`: the prefix already declared for the namespace is used when it is non-empty
and the name has no prefix or "the same" prefix -/
def St.attrReuse (s : St) (name : QN) (ns : String) : Option String :=
  match s.resultPrefix ns with
  | some p => if p ≠ "" && (name.pfx = "" || prefixEq p name.pfx) then some p else none
  | none => none

/-- `fPrefixIsXMLNS`: the prefix of the name cannot be declared, so it cannot be used for the attribute
(`xmlns`; with `C14-attribute-xml-prefix-exact.diff` also `xml`) -/
def St.attrPrefixUnusable (s : St) (name : QN) : Bool :=
  name.pfx = "xmlns" || (s.v.xmlPrefixExact && name.pfx = "xml")

/-- the test that sends a name without namespace attribute past all prefix handling: the code first analysed asks
`startsWith(name, "xml")` (so `xmlq:a`, `xmlfoo` … qualify), the repaired code asks for the prefix `xml` exactly -/
def St.attrIsXmlName (s : St) (name : QN) : Bool :=
  if s.v.xmlPrefixExact then name.pfx = "xml" else (name.str.toList.take 3 == "xml".toList)

/-- `ElemAttribute.cpp:229-251`: the given prefix means another namespace in the result and is in use by
the pending element -/
def St.attrNsConflict (s : St) (name : QN) (ns : String) : Bool :=
  name.pfx ≠ "" && !s.attrPrefixUnusable name &&
    (match s.resultNs name.pfx with
     | some u => u ≠ ns && s.isPendingResultPrefix name.pfx
     | none => false)

/-- `ElemAttribute.cpp:321-325`: the given prefix is bound to another namespace in the result -/
def St.attrNoNsConflict (s : St) (name : QN) (u : String) : Bool :=
  match s.resultNs name.pfx with
  | some r => decide (u ≠ r)
  | none => false

/-- `ElemAttribute.cpp:353-357`: is an `xmlns:p` declaration needed for the prefix `p` the attribute is written with?
Old code: only when the namespace is bound to *no* prefix; after `C14-attr-declare-own-prefix.diff`: unless `p`
itself is bound to the namespace. -/
def St.attrNeedDecl (s : St) (p u : String) : Bool :=
  if s.v.ownPrefixDecl then decide (s.resultNs p ≠ some u) else (s.resultPrefix u).isNone

/-- `ElemAttribute::startElement` + `endElement`.
`name`: the evaluated name AVT (valid QName); `nsAvt`: the evaluated namespace AVT if the attribute is
present; `ssNs`: `ElemAttribute::getNamespaceForPrefix(name.pfx)` (stylesheet side). -/
def St.elemAttribute (s : St) (name : QN) (nsAvt : Option String) (ssNs : Option String)
    (value : String) : St × ABranch :=
  match nsAvt with
  | some attrNameSpace =>
    if s.v.lateAttrCheck && !s.isElementPending then (s, .notPending)
    else if attrNameSpace = "" then
      ((s.addResultAttribute ⟨"", name.loc⟩ value), .nsEmpty)
    else if s.v.xmlPrefixExact && name.pfx = "xml" && attrNameSpace = xmlURI then
      (s.addResultAttribute name value, .xmlName)       -- `xml:lang` with its own namespace given explicitly
    else
      match s.attrReuse name attrNameSpace with
      | some p =>
        -- `.nsReuseShadowed`: the prefix found for the namespace has been re-bound by a nearer element (known finding)
        (s.addResultAttribute ⟨p, name.loc⟩ value,
          if s.resultNs p = some attrNameSpace then .nsReuse else .nsReuseShadowed)
      | none =>
        if name.pfx ≠ "" && !s.attrPrefixUnusable name && !s.attrNsConflict name attrNameSpace then
          -- `.nsKeepXml`: the prefix `xml` is kept although it cannot be declared for this namespace (known finding)
          ((s.addResultAttribute ⟨"xmlns", name.pfx⟩ attrNameSpace).addResultAttribute name value,
            if name.pfx = "xml" then .nsKeepXml else .nsKeep)
        else
          (((s.unique.2.addResultAttribute ⟨"xmlns", s.unique.1⟩ attrNameSpace).addResultAttribute
              ⟨s.unique.1, name.loc⟩ value),
            if s.attrNsConflict name attrNameSpace then .nsConflictNew
            else if s.attrPrefixUnusable name then .nsXmlnsNew else .nsNoPrefixNew)
  | none =>
    if s.isElementPending && name ≠ ⟨"", "xmlns"⟩ then
      if s.attrIsXmlName name then
        -- `.xmlLikeName`: a prefix that merely starts with "xml" gets no prefix handling at all (known finding)
        (s.addResultAttribute name value, if name.pfx = "" || name.pfx = "xml" then .xmlName else .xmlLikeName)
      else if name.pfx = "" then
        (s.addResultAttribute name value, .plain)
      else
        match ssNs with
        | none => (s, .noNsUnbound)
        | some u =>
          if u = "" then (s, .noNsUnbound)
          else if s.attrNoNsConflict name u then
            if s.unique.2.attrNeedDecl s.unique.1 u then
              ((s.unique.2.addResultAttribute ⟨"xmlns", s.unique.1⟩ u).addResultAttribute ⟨s.unique.1, name.loc⟩ value,
                .noNsConflictDecl)
            else (s.unique.2.addResultAttribute ⟨s.unique.1, name.loc⟩ value, .noNsConflictNoDecl)
          else
            if s.attrNeedDecl name.pfx u then
              ((s.addResultAttribute ⟨"xmlns", name.pfx⟩ u).addResultAttribute name value, .noNsDecl)
            else
              -- `.noNsBound`: the attribute's own prefix already means `u`; `.noNsPrefixUnbound`: only some *other*
              -- prefix does and nothing is declared for this one (known finding)
              (s.addResultAttribute name value,
                if s.resultNs name.pfx = some u then .noNsBound else .noNsPrefixUnbound)
    else (s, .notPending)

/-- `ElemElement::fixupDefaultNamespace` / the same test inlined in `ElemLiteralResult::startElement` -/
def St.fixupDefault (s : St) (eltDefault : Option String) (alsoWhenNoCurrent : Bool) : St :=
  match s.resultNs "" with
  | some cur =>
    match eltDefault with
    | none => s.addResultAttribute ⟨"", "xmlns"⟩ ""
    | some d => if cur ≠ d then s.addResultAttribute ⟨"", "xmlns"⟩ d else s
  | none =>
    match eltDefault with
    | some d => if alsoWhenNoCurrent then s.addResultAttribute ⟨"", "xmlns"⟩ d else s
    | none => s

inductive EBranch where
  | illegal | plainFixup | nsDefault | nsOffDefault | prefixed | prefixStripped
deriving DecidableEq, Repr

/-- `ElemElement::startElement` up to (excluding) the children.  `hNs` = own
`NamespacesHandler::getNamespace(name.pfx)`, `hDefault` = own `getNamespace("")`, `parentDefault` =
`getParentDefaultNamespace()`.  Returns the name used for `endElement` (or `none` = element skipped). -/
def St.elemElementStart (s : St) (name : QN) (nsAvt : Option String) (hNs hDefault : Option String)
    (parentDefault : String) : St × Option QN × EBranch :=
  let nsLen0 := (nsAvt.getD "") = ""       -- namespaceLen == 0 (computed before any assignment)
  -- `C14-element-empty-namespace.diff`: an empty namespace was requested, the prefix is dropped first
  let name : QN := if s.v.emptyNsStrips && nsAvt = some "" then ⟨"", name.loc⟩ else name
  let havePrefix := name.pfx ≠ ""
  -- first block: resolve / strip the prefix
  let r : Option (QN × String × Bool) :=      -- (elemName, elemNameSpace, stripped)
    if havePrefix then
      match hNs with
      | none =>
        if nsLen0 then
          if nsAvt.isSome then some (⟨"", name.loc⟩, nsAvt.getD "", true) else none
        else some (name, nsAvt.getD "", false)
      | some u =>
        if nsLen0 && name.pfx ≠ "xmlns" then some (name, u, false)
        else some (name, nsAvt.getD "", false)
    else some (name, nsAvt.getD "", false)
  match r with
  | none => (s, none, .illegal)
  | some (elemName, elemNameSpace, stripped) =>
    let s := s.startElement elemName
    if nsAvt.isNone && !havePrefix then
      (s.fixupDefault hDefault true, some elemName, .plainFixup)
    else if !havePrefix then
      if !nsLen0 then
        let s := match s.resultNs "" with
          | some d => if d ≠ elemNameSpace then s.addResultAttribute ⟨"", "xmlns"⟩ elemNameSpace else s
          | none => s.addResultAttribute ⟨"", "xmlns"⟩ elemNameSpace
        (s, some elemName, .nsDefault)
      else
        let s := if parentDefault ≠ "" || (s.resultNs "").isSome
                 then s.addResultAttribute ⟨"", "xmlns"⟩ elemNameSpace else s
        (s, some elemName, .nsOffDefault)
    else
      let s := match s.resultNs name.pfx with
        | some u => if u ≠ elemNameSpace then s.addResultAttribute ⟨"xmlns", name.pfx⟩ elemNameSpace else s
        | none => s.addResultAttribute ⟨"xmlns", name.pfx⟩ elemNameSpace
      (s, some elemName, if stripped then .prefixStripped else .prefixed)

/-- `NamespacesHandler::outputResultNamespaces` (supressDefault = false); `decls` in vector order -/
def St.outputResultNamespaces (s : St) : List NS → St
  | [] => s
  | d :: ds =>
    let s := match s.resultNs d.pfx with
      | some u => if d.uri ≠ u then s.addResultAttribute (QN.decl d.pfx) d.uri else s
      | none => s.addResultAttribute (QN.decl d.pfx) d.uri
    s.outputResultNamespaces ds

/-- `ElemLiteralResult::startElement` (before attribute sets / AVTs / children) -/
def St.lreStart (s : St) (name : QN) (decls : List NS) (hDefault : Option String) : St :=
  let s := s.startElement name
  let s := s.outputResultNamespaces decls
  if name.pfx = "" then s.fixupDefault hDefault false else s

/-- `ElemLiteralResult::evaluateAVTs` -/
def St.addAtts (s : St) : List Att → St
  | [] => s
  | a :: as => (s.addResultAttribute a.name a.val).addAtts as

/-- one literal attribute in `evaluateAVTs`; `ssNs` = `getNamespacesHandler().getNamespace(prefix)`.  With
`C14-literal-attribute-keeps-namespace.diff` a prefix that no longer means `ssNs` in the result (an attribute set has
re-bound it on this element) is replaced by a prefix bound to `ssNs` or an invented, declared one. -/
def St.addLiteralAtt (s : St) (a : Att) (ssNs : Option String) : St :=
  if !s.v.literalAttrResolve || a.name.pfx = "" || a.name.pfx = "xmlns" || a.name.pfx = "xml" then
    s.addResultAttribute a.name a.val
  else
    match ssNs, s.resultNs a.name.pfx with
    | some n, some b =>
      if n = b then s.addResultAttribute a.name a.val
      else
        match s.resultPrefix n with
        | some p2 =>
          if p2 ≠ "" then s.addResultAttribute ⟨p2, a.name.loc⟩ a.val
          else (s.unique.2.addResultAttribute ⟨"xmlns", s.unique.1⟩ n).addResultAttribute ⟨s.unique.1, a.name.loc⟩ a.val
        | none =>
          (s.unique.2.addResultAttribute ⟨"xmlns", s.unique.1⟩ n).addResultAttribute ⟨s.unique.1, a.name.loc⟩ a.val
    | _, _ => s.addResultAttribute a.name a.val

/-- `addResultNamespace(thePrefix, theName, theNode, pending, fOnlyIfPrefixNotPresent = true)` -/
def St.addResultNamespace (s : St) (a : Att) : St :=
  let go (p : String) : St :=
    if s.ns.prefixIsPresentLocal p = false then
      let add : Bool := match s.resultNs p with
        | some d => decide (a.val ≠ d)
        | none => true
      if add then (s.addResultAttribute a.name a.val).addDecl p a.val else s
    else s
  if a.name = ⟨"", "xmlns"⟩ then go ""
  else if a.name.pfx = "xmlns" then go a.name.loc
  else s

/-- `copyNamespaceAttributes`: `chain` = attribute lists of the node and of its element ancestors,
nearest first; `visited` = `m_attributeNamesVisited` -/
def St.copyNamespaceAttributes (s : St) (chain : List (List Att)) : St :=
  let rec goAtts (s : St) (visited : List QN) : List Att → St × List QN
    | [] => (s, visited)
    | a :: as =>
      if visited.contains a.name then goAtts s visited as
      else goAtts (s.addResultNamespace a) (a.name :: visited) as
  let rec goChain (s : St) (visited : List QN) : List (List Att) → St
    | [] => s
    | atts :: rest =>
      let (s, v) := goAtts s visited atts
      goChain s v rest
  goChain s [] chain

/-- `checkDefaultNamespace(theElementName, theElementNamespaceURI)` -/
def St.checkDefaultNamespace (s : St) (name : QN) (uri : String) : St :=
  if name.pfx = "" then
    match s.resultNs "" with
    | some r => if uri ≠ r then s.addResultAttribute ⟨"", "xmlns"⟩ uri else s
    | none => s
  else s

inductive CBranch where
  | notPending | plain | bound | asIsUnbound | declared | rebound | invented
deriving DecidableEq, Repr

/-- `cloneToResultTree(node, ATTRIBUTE_NODE, …)` (XSLTEngineImpl.cpp:2207-2231): `xsl:copy-of` / `xsl:copy` of an
attribute node (`name`, namespace `uri`, `value`) taken without its element.  The code first analysed adds the source
qname as it is (`.asIsUnbound` = its prefix does not mean `uri` in the result: known finding); with
`C14-copied-attribute-prefix-declared.diff` a free prefix is declared, a prefix that means something else is replaced
by one bound to `uri` or by an invented, declared one. -/
def St.cloneAttribute (s : St) (name : QN) (uri value : String) : St × CBranch :=
  if !s.isElementPending then (s, .notPending)
  else if uri = "" || name.pfx = "" || uri = xmlURI then (s.addResultAttribute name value true, .plain)
  else if !s.v.copyAttrNs then
    (s.addResultAttribute name value true, if s.resultNs name.pfx = some uri then .bound else .asIsUnbound)
  else
    match s.resultNs name.pfx with
    | none => ((s.addResultAttribute ⟨"xmlns", name.pfx⟩ uri).addResultAttribute name value true, .declared)
    | some b =>
      if b = uri then (s.addResultAttribute name value true, .bound)
      else
        match s.resultPrefix uri with
        | some p2 =>
          if p2 ≠ "" then (s.addResultAttribute ⟨p2, name.loc⟩ value, .rebound)
          else ((s.unique.2.addResultAttribute ⟨"xmlns", s.unique.1⟩ uri).addResultAttribute ⟨s.unique.1, name.loc⟩ value,
                .invented)
        | none =>
          ((s.unique.2.addResultAttribute ⟨"xmlns", s.unique.1⟩ uri).addResultAttribute ⟨s.unique.1, name.loc⟩ value,
            .invented)

/-- `cloneToResultTree(node, ELEMENT_NODE, …, shouldCloneAttributes, …)` for one source element -/
def St.cloneElementStart (s : St) (name : QN) (uri : String) (chain : List (List Att))
    (cloneAtts : Bool) : St :=
  let s := s.startElement name
  let s := if cloneAtts then
      (s.addAtts (chain.headD [])).copyNamespaceAttributes chain
    else s
  s.checkDefaultNamespace name uri

end XalanModel.C14
