import XalanModel.C14.Engine
/-!
# C14 — compile-time namespace handling and the instruction interpreter

* `Handler` mirrors `NamespacesHandler` (src/xalanc/XSLT/NamespacesHandler.cpp): the constructor from the
  stylesheet's namespaces stack (256-313), `processExcludeResultPrefixes(value, stack)` (398-448),
  `postConstruction` (501-540) = `copyExcludeResultPrefixes` (890) + `processExcludeResultPrefixes(prefix,
  checker)` (745-785), `getNamespace` (333-347: excluded prefixes first, then declarations).
  Namespace aliases: `setNamespaceAlias`, `copyNamespaceAliases`, `processNamespaceAliases`; extension namespaces
  are not modelled (generated stylesheets have none).
* `exec` interprets a tree of result-constructing instructions the way the element classes drive the
  engine (`ElemLiteralResult`, `ElemElement`, `ElemAttribute`, `ElemCopyOf` on an element node,
  `xsl:for-each`/`xsl:copy` on an element node).
-/
namespace XalanModel.C14

def xsltURI : String := "http://www.w3.org/1999/XSL/Transform"

structure Handler where
  excluded : List NS := []     -- m_excludedResultPrefixes (vector order)
  decls : List NS := []        -- m_namespaceDeclarations (vector order)
  aliases : List (String × String) := []   -- m_namespaceAliases: stylesheet URI ↦ result URI
  /-- the tree has `C14-handler-own-bindings-first.diff` (set from the variant on the stylesheet's handler, inherited) -/
  ownFirst : Bool := false
deriving Repr, DecidableEq

def addByPrefix (v : List NS) (p u : String) : List NS :=
  if v.any (fun n => n.pfx = p) then v else v ++ [⟨p, u⟩]

def addOrUpdateByPrefix : List NS → String → String → List NS
  | [], p, u => [⟨p, u⟩]
  | n :: ns, p, u => if n.pfx = p then ⟨p, u⟩ :: ns else n :: addOrUpdateByPrefix ns p u

def Handler.isExcludedURI (h : Handler) (u : String) : Bool := h.excluded.any (fun n => n.uri = u)

/-- constructor: namespaces stack innermost vector first, each vector in attribute order -/
def Handler.ctor (stack : List (List NS)) : Handler :=
  stack.foldl (fun h vec =>
    vec.foldl (fun h n =>
      if n.uri = xsltURI || n.uri = xmlURI || h.isExcludedURI n.uri
      then { h with excluded := addByPrefix h.excluded n.pfx n.uri }
      else { h with decls := addByPrefix h.decls n.pfx n.uri }) h) {}

/-- `XalanQName::getNamespaceForPrefix(NamespacesStackType, prefix)` on the stylesheet's stack -/
def stackLookup (stack : List (List NS)) (p : String) : Option String :=
  if p = "xml" then (if stack.isEmpty then none else some xmlURI)
  else if p = "xmlns" then (if stack.isEmpty then none else some xmlnsURI)
  else stack.findSome? (fun vec => (vec.reverse.find? (fun n => n.pfx = p)).map (·.uri))

/-- `processExcludeResultPrefixes(value, stack)`; `none` = a prefix is not declared (compile error) -/
def Handler.excludeTokens (h : Handler) (stack : List (List NS)) : List String → Option Handler
  | [] => some h
  | p :: ps =>
    match stackLookup stack p with
    | none => none
    | some u => ({ h with excluded := addOrUpdateByPrefix h.excluded p u } : Handler).excludeTokens stack ps

def Handler.copyExcluded (h : Handler) (parent : List NS) : Handler :=
  if parent.isEmpty then h
  else if h.excluded.isEmpty then { h with excluded := parent }
  else if h.ownFirst then
    -- repaired: every inherited (prefix, URI) pair not already present is kept, in front of the own entries
    { h with excluded := parent.filter (fun n => !((h.excluded.find? (fun m => m.pfx = n.pfx)).map (·.uri) == some n.uri))
                          ++ h.excluded }
  else { h with excluded := parent.foldl (fun e n => if e.any (fun m => m.pfx = n.pfx) then e else e ++ [n]) h.excluded }

/-- `processExcludeResultPrefixes(theElementPrefix, prefixChecker)` -/
def Handler.processExcluded (h : Handler) (elemPrefix : String) (active : List String) : Handler :=
  if h.excluded.isEmpty then h
  else
    let moved := h.decls.filter (fun n => n.pfx ≠ elemPrefix && !active.contains n.pfx && h.isExcludedURI n.uri)
    let kept := h.decls.filter (fun n => !(n.pfx ≠ elemPrefix && !active.contains n.pfx && h.isExcludedURI n.uri))
    { h with excluded := h.excluded ++ moved, decls := kept }

/-- `getNamespaceAlias` -/
def Handler.aliasOf (h : Handler) (u : String) : Option String :=
  (h.aliases.find? (fun a => a.1 = u)).map (·.2)

/-- `setNamespaceAlias` (a map: a later alias for the same stylesheet URI replaces the earlier one) -/
def setAlias : List (String × String) → String → String → List (String × String)
  | [], k, v => [(k, v)]
  | a :: as, k, v => if a.1 = k then (k, v) :: as else a :: setAlias as k v

/-- `copyNamespaceAliases` (`map::insert`: existing keys are kept) -/
def Handler.copyAliases (h : Handler) (parent : List (String × String)) : Handler :=
  if parent.isEmpty then h
  else if h.aliases.isEmpty then { h with aliases := parent }
  else { h with aliases := parent.foldl (fun e a => if e.any (fun b => b.1 = a.1) then e else e ++ [a]) h.aliases }

/-- `processNamespaceAliases` (790-820): every declaration whose URI has an alias gets the result URI -/
def Handler.processAliases (h : Handler) : Handler :=
  { h with decls := h.decls.map (fun n => match h.aliasOf n.uri with
      | some a => ⟨n.pfx, a⟩
      | none => n) }

/-- `postConstruction` (501-540); `aliasing` = `fProcessNamespaceAliases` (false only for xsl:element) -/
def Handler.postConstruct (h : Handler) (parent : Option Handler) (elemPrefix : String)
    (active : List String) (aliasing : Bool := true) : Handler :=
  let h := match parent with
    | some p => (({ h with ownFirst := p.ownFirst } : Handler).copyAliases p.aliases).copyExcluded p.excluded
    | none => h
  let h := h.processExcluded elemPrefix active
  if aliasing then h.processAliases else h

def Handler.getNamespace (h : Handler) (p : String) : Option String :=
  if h.ownFirst then
    -- repaired: the declarations first, then the excluded list from the back (own entries after inherited ones)
    match h.decls.find? (fun n => n.pfx = p) with
    | some n => some n.uri
    | none => (h.excluded.reverse.find? (fun n => n.pfx = p)).map (·.uri)
  else
    match h.excluded.find? (fun n => n.pfx = p) with
    | some n => some n.uri
    | none => (h.decls.find? (fun n => n.pfx = p)).map (·.uri)

/-- source element: name, namespace URI, attributes (xmlns attributes included), element children -/
inductive Src where
  | elem (name : QN) (uri : String) (atts : List Att) (kids : List Src)
deriving Repr, Inhabited

inductive Instr where
  | lre (name : QN) (nsdecls : List NS) (atts : List Att) (excl : List String) (use : List Nat) (body : List Instr)
  | element (name : QN) (ns : Option String) (body : List Instr)
  | attribute (name : QN) (ns : Option String) (value : String)
  | text
  | copyOf (k : Nat)
  | copy (k : Nat) (body : List Instr)
  | copyAttr (k : Nat) (name : QN)      -- copy-of / for-each+copy of the attribute `name` of source element `k`
  | useSets (ks : List Nat)             -- `use-attribute-sets` of the enclosing xsl:element / xsl:copy (first child)
  | rtfVar (k : Nat) (body : List Instr) -- `<xsl:variable name="f<k>"> body </xsl:variable>`: a result tree fragment
  | copyVar (k : Nat)                   -- `<xsl:copy-of select="$f<k>"/>`
  | call (k : Nat) (body : List Instr)  -- `xsl:call-template name="t<k>"`: the named template of imported module `k`
                                        -- (its body is carried along so that `exec` stays structurally recursive)
deriving Repr, Inhabited

mutual
/-- pre-order numbering (1-based) of the elements of the source document with the chain of attribute
lists (node first, then ancestors) -/
def Src.index (chain : List (List Att)) : Src → List (Src × List (List Att))
  | .elem name uri atts kids => (.elem name uri atts kids, atts :: chain) :: Src.indexList (atts :: chain) kids
def Src.indexList (chain : List (List Att)) : List Src → List (Src × List (List Att))
  | [] => []
  | k :: ks => Src.index chain k ++ Src.indexList chain ks
end

/-- one `xsl:attribute` of a top-level `xsl:attribute-set` -/
structure SetAttr where
  name : QN
  ns : Option String
  value : String
deriving Repr, Inhabited

structure Env where
  stack : List (List NS)
  parent : Handler
  nodes : List (Src × List (List Att))
  sets : List (List SetAttr) := []          -- the stylesheet's attribute sets, by index
  topStack : List (List NS) := []           -- namespaces stack / parent handler of an xsl:attribute inside a
  topParent : Handler := {}                 -- top-level xsl:attribute-set
  modules : List (List (List NS) × Handler) := []   -- per imported module: namespaces stack and handler of its template

structure Run where
  st : St
  tags : List String := []     -- branch tags, newest first
  frags : List (Nat × List Src) := []    -- result tree fragments bound to variables
  bad : Bool := false          -- the stylesheet would not compile (undeclared prefix in exclude-result-prefixes)

mutual
/-- `cloneToResultTree(node, …)` walk of a source subtree (elements only) -/
def cloneTree (chain : List (List Att)) (s : St) : Src → St
  | .elem name uri atts kids =>
    ((cloneList (atts :: chain) (s.cloneElementStart name uri (atts :: chain) true) kids)).endElement name
def cloneList (chain : List (List Att)) (s : St) : List Src → St
  | [] => s
  | k :: ks => cloneList chain (cloneTree chain s k) ks
end

/-- `ElemLiteralResult::evaluateAVTs` with the element's own handler -/
def addLiteralAtts (h : Handler) (s : St) : List Att → St
  | [] => s
  | a :: as => addLiteralAtts h (s.addLiteralAtt a (h.getNamespace a.name.pfx)) as

/-- namespace URI of a source attribute name: nearest `xmlns:p` in the chain of attribute lists -/
def srcNsOf (chain : List (List Att)) (p : String) : String :=
  if p = "" then "" else if p = "xml" then xmlURI
  else (chain.findSome? (fun atts => (atts.find? (fun a => a.name = ⟨"xmlns", p⟩)).map (·.val))).getD ""

/-! ### result tree fragments (`beginCreateXResultTreeFrag` … `endCreateXResultTreeFrag`, `FormatterToSourceTree`) -/

/-- namespace URI `FormatterToSourceTree` / `XalanSourceTreeDocument::createElementNode` records for an element name: the
prefix resolver is the engine, i.e. the result namespaces stack at the moment the start tag is delivered — the fragment's own
open elements (`chain`, nearest first) and, unless the fragment has its own scope, whatever the *enclosing result context*
binds (`outer`).  The flag says the enclosing context was needed. -/
def fragNsOf (outer : String → Option String) (chain : List (List Att)) (p : String) : String × Bool :=
  if p = "xml" then (xmlURI, false)
  else
    match chain.findSome? (fun atts => (atts.find? (fun a => a.name = QN.decl p)).map (·.val)) with
    | some u => (u, false)
    | none =>
      match outer p with
      | some u => (u, u ≠ "")
      | none => ("", false)

/-- the events delivered to the fragment's `FormatterToSourceTree`, oldest first, as a forest.  `open_` = the open elements
(name, attributes, children so far, newest first); attribute nodes are created namespace declarations first
(`createElementNode`).  Returns the top-level nodes and whether a binding of the enclosing context was used. -/
def fragBuild (outer : String → Option String) :
    List Ev → List (QN × List Att × List Src) → List Src → Bool → List Src × Bool
  | [], _, top, used => (top.reverse, used)
  | .start n atts :: evs, open_, top, used =>
    let sorted := atts.filter (fun a => a.name.pfx = "xmlns" || a.name = ⟨"", "xmlns"⟩) ++
                  atts.filter (fun a => !(a.name.pfx = "xmlns" || a.name = ⟨"", "xmlns"⟩))
    fragBuild outer evs ((n, sorted, []) :: open_) top used
  | .stop _ :: evs, (n, atts, kids) :: rest, top, used =>
    let chain := atts :: rest.map (fun e => e.2.1)
    let r := fragNsOf outer chain n.pfx
    let usedA := atts.any (fun a => a.name.pfx ≠ "" && a.name.pfx ≠ "xmlns" && (fragNsOf outer chain a.name.pfx).2)
    let node := Src.elem n r.1 atts kids.reverse
    match rest with
    | [] => fragBuild outer evs [] (node :: top) (used || r.2 || usedA)
    | (pn, pa, pk) :: rest' => fragBuild outer evs ((pn, pa, node :: pk) :: rest') top (used || r.2 || usedA)
  | .stop _ :: evs, [], top, used => fragBuild outer evs [] top used
  | .text :: evs, open_, top, used => fragBuild outer evs open_ top used

def elementHandler (env : Env) (aliasing : Bool := true) : Handler :=
  (Handler.ctor ([] :: env.stack)).postConstruct (some env.parent) "xsl" [] aliasing

/-- `ElemUse::getNextAttributeSet` … : the `xsl:attribute` children of the named sets, in order, executed against the
element that is pending (`ElemAttributeSet` children are ordinary `ElemAttribute`s whose stylesheet context is the
top level) -/
def execSetAttrs (env : Env) (r : Run) : List SetAttr → Run
  | [] => r
  | a :: as =>
    let h := (Handler.ctor ([] :: env.topStack)).postConstruct (some env.topParent) "xsl" [] (!r.st.v.attrNoAlias)
    let ssNs := if a.name.pfx = "xml" then some xmlURI else h.getNamespace a.name.pfx
    let sb := r.st.elemAttribute a.name a.ns ssNs a.value
    execSetAttrs env { r with st := sb.1, tags := ("A:" ++ reprStr sb.2) :: r.tags } as

def execSets (env : Env) (r : Run) : List Nat → Run
  | [] => r
  | k :: ks => execSets env (execSetAttrs env r (env.sets.getD k [])) ks

mutual
/-- one instruction; `execList … skipAttrs` is `ElemElement::executeChildElement` (the children of an
`xsl:element` with an illegal name are executed, its `xsl:attribute` children are not) -/
def exec (env : Env) (r : Run) : Instr → Run
  | .text => { r with st := r.st.characters }
  | .attribute name ns value =>
    let h := elementHandler env (!r.st.v.attrNoAlias)
    let ssNs := if name.pfx = "xml" then some xmlURI else h.getNamespace name.pfx
    let sb := r.st.elemAttribute name ns ssNs value
    { r with st := sb.1, tags := ("A:" ++ reprStr sb.2) :: r.tags }
  | .element name ns body =>
    let h := elementHandler env false      -- ElemElement::namespacesPostConstruction: no aliasing
    let seb := r.st.elemElementStart name ns (h.getNamespace name.pfx) (h.getNamespace "")
        ((env.parent.getNamespace "").getD "")
    let r := { r with st := seb.1, tags := ("E:" ++ reprStr seb.2.2) :: r.tags }
    let env' : Env := { env with stack := [] :: env.stack, parent := h }
    match seb.2.1 with
    | none => execList env' r true body
    | some n =>
      let r := execList env' r false body
      { r with st := r.st.endElement n }
  | .useSets ks => execSets env r ks
  | .rtfVar k body =>
    -- `pushOutputContext`: new pending element / attributes / target; the namespaces stack is shared, or (repaired) isolated
    let s0 := r.st
    let inner : St := { s0 with pendName := none, pendAtts := [], out := [],
                                ns := if s0.v.rtfIsolatedNs then { frames := [], createNew := [] } else s0.ns }
    let r1 := execList env { r with st := inner, tags := "V" :: r.tags } false body
    let s1 := r1.st.flushPending
    let outer : String → Option String := if s0.v.rtfIsolatedNs then (fun _ => none) else s0.resultNs
    let built := fragBuild outer s1.out.reverse [] [] false
    { r1 with st := { s1 with pendName := s0.pendName, pendAtts := s0.pendAtts, out := s0.out,
                              ns := if s0.v.rtfIsolatedNs then s0.ns else s1.ns },
              tags := (if built.2 then "V:outerBinding" else "V:selfContained") :: r1.tags,
              frags := (k, built.1) :: r1.frags }
  | .copyVar k =>
    match r.frags.find? (fun f => f.1 = k) with
    | some f => { r with st := cloneList [] r.st f.2, tags := "CV" :: r.tags }
    | none => { r with bad := true }
  | .call k body =>
    match env.modules[k]? with
    | some (stk, th) => execList { env with stack := stk, parent := th } r false body
    | none => { r with bad := true }
  | .lre name nsdecls atts excl use body =>
    let stack' := nsdecls :: env.stack
    match (Handler.ctor stack').excludeTokens stack' excl with
    | none => { r with bad := true }
    | some h1 =>
      let h := h1.postConstruct (some env.parent) name.pfx ((atts.map (·.name.pfx)).filter (· ≠ ""))
      let s := r.st.lreStart name h.decls (h.getNamespace "")
      -- `ElemLiteralResult::init`: a plain `xmlns="u"` attribute is not skipped (only `xmlns:p` is) and
      -- becomes an AVT named `xmlns`, evaluated with the other attributes in document order
      let xmlnsAvts : List Att :=
        if r.st.v.noXmlnsAvt then []
        else (nsdecls.filter (fun n => n.pfx = "")).map (fun n => ⟨⟨"", "xmlns"⟩, n.uri⟩)
      -- `ElemUse`: the attribute sets run before `evaluateAVTs`
      let r1 := execSets env { r with st := s, tags := "L" :: r.tags } use
      let s := addLiteralAtts h r1.st (xmlnsAvts ++ atts)
      let r := execList { env with stack := stack', parent := h } { r1 with st := s } false body
      { r with st := r.st.endElement name }
  | .copyOf k =>
    match env.nodes[k - 1]? with
    | some (t, chain) => { r with st := cloneTree chain.tail r.st t, tags := "C" :: r.tags }
    | none => { r with bad := true }
  | .copy k body =>
    match env.nodes[k - 1]? with
    | some (.elem name uri _ _, chain) =>
      let hf := elementHandler env
      let envf : Env := { env with stack := [] :: env.stack, parent := hf }
      let hc := elementHandler envf
      let envc : Env := { envf with stack := [] :: envf.stack, parent := hc }
      let s := r.st.cloneElementStart name uri chain false
      let s := s.copyNamespaceAttributes chain
      let r := execList envc { r with st := s, tags := "Y" :: r.tags } false body
      { r with st := r.st.endElement name }
    | none => { r with bad := true }
  | .copyAttr k name =>
    match env.nodes[k - 1]? with
    | some (_, chain) =>
      match (chain.headD []).find? (fun a => a.name = name) with
      | some a =>
        let sb := r.st.cloneAttribute name (srcNsOf chain name.pfx) a.val
        { r with st := sb.1, tags := ("CA:" ++ reprStr sb.2) :: r.tags }
      | none => { r with bad := true }
    | none => { r with bad := true }
def execList (env : Env) (r : Run) (skipAttrs : Bool) : List Instr → Run
  | [] => r
  | .attribute name ns value :: is =>
    if skipAttrs then execList env r skipAttrs is
    else execList env (exec env r (.attribute name ns value)) skipAttrs is
  | i :: is => execList env (exec env r i) skipAttrs is
end

/-! ### the import tree and `xsl:namespace-alias` across it -/

abbrev Table := List (String × String)      -- stylesheet namespace URI ↦ result namespace URI

/-- `NamespacesHandler::overrideNamespaceAliases`: `m_namespaceAliases[key] = value` for every alias of the source -/
def tblOverride (dst src : Table) : Table := src.foldl (fun t a => setAlias t a.1 a.2) dst

/-- `NamespacesHandler::copyNamespaceAliases`: `insert`, which never replaces an alias -/
def tblCopy (dst src : Table) : Table :=
  if src.isEmpty then dst
  else if dst.isEmpty then src
  else src.foldl (fun e a => if e.any (fun b => b.1 = a.1) then e else e ++ [a]) dst

/-- one stylesheet module of the import tree, flattened in document (pre-)order: index 0 is the main module, module
`i > 0` is imported by module `parent < i`; siblings are in import order -/
structure Module where
  parent : Nat
  decls : List NS
  excl : List String
  aliases : List (String × String)        -- (stylesheet-prefix, result-prefix), `""` = #default

def importsOf (mods : List Module) (m : Nat) : List Nat :=
  (List.range mods.length).filter (fun i => decide (m < i) && (mods.getD i ⟨0, [], [], []⟩).parent == m)

/-- `Stylesheet::collectNamespaceAliases` (`C14-namespace-alias-collect-import-tree.diff`): imports from the last `xsl:import`
(highest import precedence) to the first, each collected first, then copied without replacing -/
def collectAliases (mods : List Module) : Nat → Nat → List Table → List Table
  | 0, _, t => t
  | f + 1, m, t =>
    (importsOf mods m).reverse.foldl (fun t c =>
      let t := collectAliases mods f c t
      t.set m (tblCopy (t.getD m []) (t.getD c []))) t

/-- the alias part of `Stylesheet::postConstruction`: (collect,) then for every import in document order: push this
module's table down (assignment), post-construct the import, copy its table back (insert).  `t[m]` at the end is the table
the literal result elements of module `m` are processed with. -/
def postAliases (mods : List Module) (collectFirst : Bool) : Nat → Nat → List Table → List Table
  | 0, _, t => t
  | f + 1, m, t =>
    let t := if collectFirst then collectAliases mods (f + 1) m t else t
    -- `m_imports` holds the last import first (`addImport` inserts at the front) and the loop runs over it backwards:
    -- the imports are post-constructed from the first `xsl:import` to the last
    (importsOf mods m).foldl (fun t c =>
      let t := t.set c (tblOverride (t.getD c []) (t.getD m []))
      let t := postAliases mods collectFirst f c t
      t.set m (tblCopy (t.getD m []) (t.getD c []))) t

/-- import precedence, highest first: a module before the modules it imports, a later import before an earlier one -/
def precedenceOrder (mods : List Module) : Nat → Nat → List Nat
  | 0, _ => []
  | f + 1, m => m :: ((importsOf mods m).reverse.map (precedenceOrder mods f)).flatten

/-- XSLT 1.0 §7.1.1: the alias for stylesheet namespace `u` is the declaration with the highest import precedence -/
def specAlias (own : List Table) (order : List Nat) (u : String) : Option String :=
  order.findSome? (fun m => ((own.getD m []).find? (fun a => a.1 = u)).map (·.2))

/-- `Stylesheet::processNSAliasElement` for each `xsl:namespace-alias` (prefix pairs, `""` = `#default`);
`none` = a prefix is not declared on xsl:stylesheet (compile error) -/
def resolveAliases (rootDecls : List NS) : List (String × String) → Option (List (String × String))
  | [] => some []
  | (sp, rp) :: rest =>
    match stackLookup [rootDecls] sp, stackLookup [rootDecls] rp, resolveAliases rootDecls rest with
    | some su, some ru, some tail => some ((su, ru) :: tail)
    | _, _, _ => none

/-- stylesheet handler, namespaces stack and template handler of one module, given its final alias table -/
def moduleEnv (v : Variant) (m : Module) (aliases : Table) : Option (List (List NS) × Handler) :=
  match ({} : Handler).excludeTokens [m.decls] m.excl with
  | none => none
  | some sh00 =>
    let sh0 : Handler := { sh00 with aliases := aliases, ownFirst := v.handlerOwnFirst }
    let sh := sh0.postConstruct none "" []
    let stack := [[], m.decls]
    some (stack, (Handler.ctor stack).postConstruct (some sh) "xsl" [])

/-- own alias tables of all modules (`none`: an alias names an undeclared prefix) -/
def ownTables : List Module → Option (List Table)
  | [] => some []
  | m :: ms =>
    match resolveAliases m.decls m.aliases, ownTables ms with
    | some al, some rest => some (al.foldl (fun t a => setAlias t a.1 a.2) [] :: rest)
    | _, _ => none

def moduleEnvs (v : Variant) : List Module → List Table → Option (List (List (List NS) × Handler))
  | [], _ => some []
  | m :: ms, ts =>
    match moduleEnv v m (ts.headD []), moduleEnvs v ms ts.tail with
    | some e, some es => some (e :: es)
    | _, _ => none

/-- a whole generated stylesheet: main module `mods[0]` (`<xsl:stylesheet …><xsl:import …/>* … <xsl:template match="/"> body
</xsl:template></xsl:stylesheet>`) with its import tree, applied to `src` -/
def runCase (v : Variant) (mods : List Module) (sets : List (List SetAttr)) (src : Src) (body : List Instr) : Run :=
  match ownTables mods with
  | none => { st := { v := v }, bad := true }
  | some own =>
    let final := postAliases mods v.aliasCollectFirst (mods.length + 1) 0 own
    match moduleEnvs v mods final with
    | none => { st := { v := v }, bad := true }
    | some envs =>
      match envs with
      | [] => { st := { v := v }, bad := true }
      | (stack, th) :: _ =>
        let env : Env := { stack := stack, parent := th, nodes := Src.index [] src, sets := sets,
                           topStack := stack, topParent := th, modules := envs }
        execList env { st := { v := v } } false body

end XalanModel.C14
