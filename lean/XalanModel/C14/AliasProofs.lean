import XalanModel.C14.Stylesheet
/-! `xsl:namespace-alias` across the import tree: table operations, precedence specification (helpers for `Props/C14.lean`). -/
namespace XalanModel.C14

def Table.lookup (t : Table) (u : String) : Option String := (t.find? (fun a => a.1 = u)).map (·.2)

@[simp] theorem lookup_nil (u : String) : Table.lookup [] u = none := rfl

theorem lookup_cons (a : String × String) (t : Table) (u : String) :
    Table.lookup (a :: t) u = if a.1 = u then some a.2 else Table.lookup t u := by
  unfold Table.lookup
  by_cases h : a.1 = u <;> simp [List.find?, h]

theorem lookup_none_of_not_mem (t : Table) (u : String) (h : u ∉ t.map (·.1)) : Table.lookup t u = none := by
  induction t with
  | nil => rfl
  | cons a as ih =>
    rw [lookup_cons]
    have h1 : a.1 ≠ u := fun e => h (by simp [e])
    have h2 : u ∉ as.map (·.1) := fun e => h (by simp at e ⊢; exact Or.inr e)
    simp [h1, ih h2]

theorem lookup_setAlias (t : Table) (k v u : String) :
    Table.lookup (setAlias t k v) u = if k = u then some v else Table.lookup t u := by
  induction t with
  | nil => simp [setAlias, lookup_cons]
  | cons a as ih =>
    unfold setAlias
    by_cases h : a.1 = k
    · simp only [h, if_true, lookup_cons]
      by_cases hk : k = u
      · simp [hk]
      · simp [hk, h]
    · simp only [h, if_false, lookup_cons, ih]
      by_cases ha : a.1 = u
      · have : ¬ k = u := fun e => h (ha.trans e.symm)
        simp [ha, this]
      · simp [ha]

/-- `overrideNamespaceAliases` **assigns**: after it every alias of the source (the importing module) is in force, the
destination's own aliases only remain for other namespace URIs -/
theorem lookup_tblOverride (dst src : Table) (u : String) (hs : (src.map (·.1)).Nodup) :
    Table.lookup (tblOverride dst src) u = (Table.lookup src u).orElse (fun _ => Table.lookup dst u) := by
  unfold tblOverride
  induction src generalizing dst with
  | nil => simp
  | cons a as ih =>
    have hn : a.1 ∉ as.map (·.1) ∧ (as.map (·.1)).Nodup := List.nodup_cons.mp (by rw [List.map_cons] at hs; exact hs)
    simp only [List.foldl_cons]
    rw [ih _ hn.2, lookup_setAlias, lookup_cons]
    by_cases h : a.1 = u
    · have : Table.lookup as u = none := lookup_none_of_not_mem as u (h ▸ hn.1)
      simp [h, this]
    · simp [h]

theorem keys_foldl_insert (src dst : Table) :
    ∀ u, Table.lookup (src.foldl (fun e a => if e.any (fun b => b.1 = a.1) then e else e ++ [a]) dst) u =
      (Table.lookup dst u).orElse (fun _ => Table.lookup src u) := by
  induction src generalizing dst with
  | nil => intro u; cases h : Table.lookup dst u <;> simp [h]
  | cons a as ih =>
    intro u
    simp only [List.foldl_cons]
    rw [ih, lookup_cons]
    have happ : ∀ (t : Table) (b : String × String), Table.lookup (t ++ [b]) u =
        (Table.lookup t u).orElse (fun _ => if b.1 = u then some b.2 else none) := by
      intro t b
      induction t with
      | nil => simp [lookup_cons]
      | cons c cs ihc =>
        simp only [List.cons_append, lookup_cons, ihc]
        by_cases hc : c.1 = u <;> simp [hc]
    by_cases hany : dst.any (fun b => b.1 = a.1) = true
    · simp only [hany, if_true]
      by_cases h : a.1 = u
      · -- `a`'s key is already in `dst`, so `dst` answers
        obtain ⟨b, hb, hbk⟩ := List.any_eq_true.mp hany
        have hk : b.1 = u := by simp at hbk; exact hbk.trans h
        have : ∃ v, Table.lookup dst u = some v := by
          clear ih happ hany
          induction dst with
          | nil => cases hb
          | cons d ds ihd =>
            rw [lookup_cons]
            by_cases hd : d.1 = u
            · exact ⟨d.2, by simp [hd]⟩
            · rcases List.mem_cons.mp hb with e | e
              · exact absurd (e ▸ hk) hd
              · simpa [hd] using ihd e
        obtain ⟨v, hv⟩ := this
        simp [hv]
      · simp [h]
    · simp only [hany, Bool.false_eq_true, if_false]
      rw [happ]
      by_cases h : a.1 = u
      · cases Table.lookup dst u <;> simp [h]
      · cases Table.lookup dst u <;> simp [h]

/-- `copyNamespaceAliases` **inserts**: an alias the destination already has is kept -/
theorem lookup_tblCopy (dst src : Table) (u : String) :
    Table.lookup (tblCopy dst src) u = (Table.lookup dst u).orElse (fun _ => Table.lookup src u) := by
  unfold tblCopy
  split
  · rename_i h
    have : src = [] := by simpa using h
    subst this
    cases Table.lookup dst u <;> simp
  · split
    · rename_i h
      have : dst = [] := by simpa using h
      subst this
      simp
    · exact keys_foldl_insert src dst u


/-! ### the import tree as a tree: precedence specification and the collected table -/

/-- a stylesheet module with its own alias table and the modules it imports, in document order -/
inductive ATree where
  | node (own : Table) (imports : List ATree)

mutual
/-- `Stylesheet::collectNamespaceAliases`: own aliases, then the imports from the last (highest precedence) to the first,
each collected first, copied without replacing -/
def ATree.collect : ATree → Table
  | .node own imps => collectList own imps
def collectList (acc : Table) : List ATree → Table
  | [] => acc
  | c :: cs => tblCopy (collectList acc cs) c.collect
end

mutual
/-- XSLT 1.0 §7.1.1 for the (sub)tree: the alias for `u` declared with the highest import precedence — the module itself
before the modules it imports, a later import (and everything it imports) before an earlier one -/
def ATree.spec (u : String) : ATree → Option String
  | .node own imps => (Table.lookup own u).orElse (fun _ => specList u imps)
def specList (u : String) : List ATree → Option String
  | [] => none
  | c :: cs => (specList u cs).orElse (fun _ => c.spec u)
end

theorem collect_eq_spec (u : String) :
    (∀ t : ATree, Table.lookup t.collect u = t.spec u) ∧
      ∀ (acc : Table) (imps : List ATree),
        Table.lookup (collectList acc imps) u = (Table.lookup acc u).orElse (fun _ => specList u imps) := by
  refine ATree.collect.mutual_induct
    (motive_1 := fun t => Table.lookup t.collect u = t.spec u)
    (motive_2 := fun acc imps => Table.lookup (collectList acc imps) u = (Table.lookup acc u).orElse (fun _ => specList u imps))
    ?_ ?_ ?_
  · intro own imps ih
    unfold ATree.collect ATree.spec
    exact ih
  · intro acc
    unfold collectList specList
    cases Table.lookup acc u <;> simp
  · intro acc c cs ih1 ih2
    unfold collectList specList
    rw [lookup_tblCopy, ih1, ih2]
    cases Table.lookup acc u <;> cases specList u cs <;> simp


/-- push-down step: a module that is handed a table `mine` which answers as the precedence specification `R` of the whole
stylesheet, and whose own subtree declares nothing that `R` does not know, ends — after `overrideNamespaceAliases` — with
exactly `R` -/
theorem pushdown_keeps_spec (mine : Table) (R : String → Option String) (hmine : ∀ u, Table.lookup mine u = R u)
    (hk : (mine.map (·.1)).Nodup) (c : ATree) (hcov : ∀ u, c.spec u ≠ none → R u ≠ none) (u : String) :
    Table.lookup (tblOverride c.collect mine) u = R u := by
  rw [lookup_tblOverride _ _ _ hk, hmine, (collect_eq_spec u).1 c]
  cases hR : R u with
  | some v => simp
  | none =>
    have : c.spec u = none := by
      cases hc : c.spec u with
      | none => rfl
      | some v => exact absurd hR (hcov u (by simp [hc]))
    simp [this]

end XalanModel.C14
