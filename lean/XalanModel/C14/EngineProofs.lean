import XalanModel.C14.Engine
import Std.Data.String.ToNat
/-! Helper lemmas about the engine model (`Engine.lean`) used by `Props/C14.lean`. -/
namespace XalanModel.C14

/-! ### attribute list -/

theorem mem_addAttribute (l : List Att) (n : QN) (v : String) : ⟨n, v⟩ ∈ addAttribute l n v := by
  induction l with
  | nil => simp [addAttribute]
  | cons a as ih =>
    unfold addAttribute
    split
    · simp
    · exact List.mem_cons_of_mem _ ih

theorem names_addAttribute (l : List Att) (n : QN) (v : String) :
    (addAttribute l n v).map (·.name) =
      if n ∈ l.map (·.name) then l.map (·.name) else l.map (·.name) ++ [n] := by
  induction l with
  | nil => simp [addAttribute]
  | cons a as ih =>
    unfold addAttribute
    by_cases h : a.name = n
    · simp [h]
    · have h' : ¬ n = a.name := fun e => h e.symm
      simp only [h, if_false, List.map_cons, List.mem_cons, h', false_or, ih]
      split <;> simp

theorem nodup_addAttribute (l : List Att) (n : QN) (v : String) (h : (l.map (·.name)).Nodup) :
    ((addAttribute l n v).map (·.name)).Nodup := by
  rw [names_addAttribute]
  split
  · exact h
  · rename_i hn
    rw [List.nodup_append]
    refine ⟨h, by simp, ?_⟩
    intro a ha b hb
    simp at hb
    subst hb
    intro e
    exact hn (e ▸ ha)

theorem nodup_dropSameExpanded (s : St) (n : QN) (h : (s.pendAtts.map (·.name)).Nodup) :
    ((s.dropSameExpanded n).map (·.name)).Nodup := by
  unfold St.dropSameExpanded
  split
  · exact List.Nodup.sublist (List.Sublist.map _ List.filter_sublist) h
  · exact h

theorem nodup_addAtt (s : St) (n : QN) (v : String) (h : (s.pendAtts.map (·.name)).Nodup) :
    ((s.addAtt n v).pendAtts.map (·.name)).Nodup :=
  nodup_addAttribute _ _ _ (nodup_dropSameExpanded s n h)

/-! ### namespace stack -/

theorem Frame.nsForPrefix_cons_self (f : Frame) (p u : String) :
    Frame.nsForPrefix (⟨p, u⟩ :: f) p = some u := by
  simp [Frame.nsForPrefix]

theorem RNS.nsForPrefix_addDeclaration (r : RNS) (p u : String) (hc : r.createNew ≠ [])
    (h1 : p ≠ "xml") (h2 : p ≠ "xmlns") : (r.addDeclaration p u).nsForPrefix p = some u := by
  unfold RNS.addDeclaration
  match hcn : r.createNew with
  | [] => exact absurd hcn hc
  | true :: cs =>
    simp [RNS.nsForPrefix, Frame.nsForPrefix_cons_self, h1, h2]
  | false :: cs =>
    match hf : r.frames with
    | [] => simp [RNS.nsForPrefix, Frame.nsForPrefix_cons_self, h1, h2]
    | f :: fs => simp [RNS.nsForPrefix, Frame.nsForPrefix_cons_self, h1, h2]

theorem RNS.createNew_addDeclaration (r : RNS) (p u : String) (hc : r.createNew ≠ []) :
    (r.addDeclaration p u).createNew ≠ [] := by
  unfold RNS.addDeclaration
  match hcn : r.createNew with
  | [] => exact absurd hcn hc
  | true :: cs => simp
  | false :: cs =>
    match r.frames with
    | [] => simp
    | f :: fs => simp

/-! ### addResultAttribute -/

@[simp] theorem St.addAtt_ns (s : St) (n : QN) (v : String) : (s.addAtt n v).ns = s.ns := rfl
@[simp] theorem St.addAtt_pendName (s : St) (n : QN) (v : String) : (s.addAtt n v).pendName = s.pendName := rfl
@[simp] theorem St.addDecl_pendAtts (s : St) (p u : String) : (s.addDecl p u).pendAtts = s.pendAtts := rfl
@[simp] theorem St.addDecl_pendName (s : St) (p u : String) : (s.addDecl p u).pendName = s.pendName := rfl

/-- a name that is neither `xmlns` nor `xmlns:…` goes straight to the pending attribute list -/
theorem St.addResultAttribute_plain (s : St) (n : QN) (v : String) (fc : Bool)
    (h1 : n.pfx ≠ "xmlns") (h2 : n ≠ ⟨"", "xmlns"⟩) :
    s.addResultAttribute n v fc = s.addAtt n v := by
  unfold St.addResultAttribute
  have h0 : n ≠ ⟨"xmlns", "xml"⟩ := by
    intro e; apply h1; rw [e]
  simp [h0, h1, h2]

/-- declaring `xmlns:p = u` (not from a copy) makes the engine resolve `p` to `u` -/
theorem St.resultNs_after_decl (s : St) (p u : String) (hc : s.ns.createNew ≠ [])
    (h1 : p ≠ "xml") (h2 : p ≠ "xmlns") :
    (s.addResultAttribute ⟨"xmlns", p⟩ u).resultNs p = some u := by
  unfold St.addResultAttribute
  have ha : (⟨"xmlns", p⟩ : QN) ≠ ⟨"xmlns", "xml"⟩ := by
    intro e; apply h1; injection e
  have hb : (⟨"xmlns", p⟩ : QN) ≠ ⟨"", "xmlns"⟩ := by
    intro e; injection e with e1 _; exact absurd e1 (by decide)
  simp only [ha, hb, if_false]
  simp only [if_true]
  match hr : s.resultNs p with
  | none =>
    simp [St.resultNs, St.addDecl, RNS.nsForPrefix_addDeclaration _ _ _ hc h1 h2]
  | some u' =>
    by_cases hu : u' = u
    · subst hu
      simp [hr]
    · simp [hu, St.resultNs, St.addDecl, RNS.nsForPrefix_addDeclaration _ _ _ hc h1 h2]

theorem St.createNew_addResultAttribute (s : St) (n : QN) (v : String) (fc : Bool)
    (hc : s.ns.createNew ≠ []) : (s.addResultAttribute n v fc).ns.createNew ≠ [] := by
  unfold St.addResultAttribute
  dsimp only
  repeat' split
  all_goals first
    | exact hc
    | (simp only [St.addAtt_ns, St.addDecl]; exact RNS.createNew_addDeclaration _ _ _ hc)

theorem St.pendName_addResultAttribute (s : St) (n : QN) (v : String) (fc : Bool) :
    (s.addResultAttribute n v fc).pendName = s.pendName := by
  unfold St.addResultAttribute
  dsimp only
  repeat' split
  all_goals rfl

theorem St.nodup_addResultAttribute (s : St) (n : QN) (v : String) (fc : Bool)
    (h : (s.pendAtts.map (·.name)).Nodup) :
    ((s.addResultAttribute n v fc).pendAtts.map (·.name)).Nodup := by
  unfold St.addResultAttribute
  dsimp only
  repeat' split
  all_goals first
    | exact h
    | exact nodup_addAtt _ _ _ h
    | exact nodup_addAtt (s.addDecl _ _) _ _ h

/-! ### invented prefixes -/

theorem uniqueLoop_ns (r : RNS) (fuel k : Nat) : ∃ j : Nat, (uniqueLoop r fuel k).1 = "ns" ++ toString j := by
  induction fuel generalizing k with
  | zero => exact ⟨k, rfl⟩
  | succ f ih =>
    unfold uniqueLoop
    simp only
    split
    · exact ih (k + 1)
    · exact ⟨k, rfl⟩

/-- either the candidate returned is unbound, or the fuel ran out with every candidate bound -/
theorem uniqueLoop_fresh (r : RNS) (fuel k : Nat) :
    r.nsForPrefix (uniqueLoop r fuel k).1 = none ∨
      ∀ j : Nat, k ≤ j → j < k + fuel → (r.nsForPrefix ("ns" ++ toString j)).isSome = true := by
  induction fuel generalizing k with
  | zero => right; intro j h1 h2; omega
  | succ f ih =>
    unfold uniqueLoop
    simp only
    split
    · rename_i hb
      rcases ih (k + 1) with h | h
      · left; exact h
      · right
        intro j h1 h2
        by_cases hj : j = k
        · subst hj; exact hb
        · exact h j (by omega) (by omega)
    · rename_i hb
      left
      simpa using hb

theorem ns_prefix_ne (x : String) : "ns" ++ x ≠ "xml" ∧ "ns" ++ x ≠ "xmlns" ∧ "ns" ++ x ≠ "" := by
  refine ⟨?_, ?_, ?_⟩ <;> intro h <;> have := congrArg String.toList h <;> simp at this

theorem St.unique_ns (s : St) : (s.unique).2.ns = s.ns := rfl
theorem St.unique_pendAtts (s : St) : (s.unique).2.pendAtts = s.pendAtts := rfl
theorem St.unique_pendName (s : St) : (s.unique).2.pendName = s.pendName := rfl

theorem St.unique_prefix (s : St) : ∃ j : Nat, (s.unique).1 = "ns" ++ toString j := by
  unfold St.unique
  exact uniqueLoop_ns _ _ _

/-- pigeonhole on lists: a duplicate-free list contained in `D` is no longer than `D` -/
theorem nodup_subset_length_le : ∀ (cs D : List String), cs.Nodup → (∀ c ∈ cs, c ∈ D) → cs.length ≤ D.length
  | [], _, _, _ => Nat.zero_le _
  | c :: cs, D, hn, hs => by
    have hc : c ∈ D := hs c (by simp)
    have hn' := List.nodup_cons.mp hn
    have ih := nodup_subset_length_le cs (D.erase c) hn'.2 (by
      intro c' hc'
      have hne : c' ≠ c := fun e => hn'.1 (e ▸ hc')
      exact (List.mem_erase_of_ne hne).mpr (hs c' (by simp [hc'])))
    rw [List.length_erase_of_mem hc] at ih
    have : 0 < D.length := List.length_pos_of_mem hc
    simp only [List.length_cons]
    omega

def RNS.declared (r : RNS) : List String := r.frames.flatten.map (·.pfx)

theorem RNS.mem_declared_of_bound (r : RNS) (c u : String) (h : r.nsForPrefix c = some u)
    (h1 : c ≠ "xml") (h2 : c ≠ "xmlns") : c ∈ r.declared := by
  unfold RNS.nsForPrefix at h
  simp only [h1, h2, if_false] at h
  split at h
  · cases h
  · obtain ⟨f, hf, hfu⟩ := List.exists_of_findSome?_eq_some h
    simp only [Frame.nsForPrefix] at hfu
    cases hfind : f.find? (fun n => n.pfx = c) with
    | none => simp [hfind] at hfu
    | some n =>
      have hm := List.mem_of_find?_eq_some hfind
      have hp := List.find?_some hfind
      simp at hp
      simp only [RNS.declared, List.mem_map, List.mem_flatten]
      exact ⟨n, ⟨f, hf, hm⟩, hp⟩

theorem ns_inj (a b : Nat) (h : "ns" ++ toString a = "ns" ++ toString b) : a = b := by
  have h' : toString a = toString b := by
    have := congrArg String.toList h
    simp only [String.toList_append, List.append_cancel_left_eq] at this
    exact String.toList_inj.mp this
  exact Nat.repr_injective h'

theorem RNS.declared_length (r : RNS) : r.declared.length = (r.frames.map List.length).sum := by
  simp only [RNS.declared, List.length_map, List.length_flatten]

private theorem cand_fresh (r : RNS) (k : Nat) (seen : List String) (hn : seen.Nodup)
    (hs : ∀ c ∈ seen, c ∈ r.declared) (hk : ∀ c ∈ seen, ∃ j : Nat, j < k ∧ c = "ns" ++ toString j)
    (u : String) (hb : r.nsForPrefix ("ns" ++ toString k) = some u) :
    (("ns" ++ toString k) :: seen).Nodup ∧ ∀ c ∈ ("ns" ++ toString k) :: seen, c ∈ r.declared := by
  have hne := ns_prefix_ne (toString k)
  refine ⟨List.nodup_cons.mpr ⟨?_, hn⟩, ?_⟩
  · intro hm
    obtain ⟨j, hj, e⟩ := hk _ hm
    have := ns_inj _ _ e
    omega
  · intro c hc
    rcases List.mem_cons.mp hc with e | hc
    · subst e; exact RNS.mem_declared_of_bound r _ u hb hne.1 hne.2.1
    · exact hs c hc

/-- the loop returns an unbound prefix: `seen` are the (distinct, declared) candidates already rejected -/
theorem uniqueLoop_unbound (r : RNS) (fuel k : Nat) (seen : List String) (hn : seen.Nodup)
    (hs : ∀ c ∈ seen, c ∈ r.declared) (hk : ∀ c ∈ seen, ∃ j : Nat, j < k ∧ c = "ns" ++ toString j)
    (hl : r.declared.length ≤ seen.length + fuel) :
    r.nsForPrefix (uniqueLoop r fuel k).1 = none := by
  induction fuel generalizing k seen with
  | zero =>
    show r.nsForPrefix ("ns" ++ toString k) = none
    cases hb : r.nsForPrefix ("ns" ++ toString k) with
    | none => rfl
    | some u =>
      have ⟨h1, h2⟩ := cand_fresh r k seen hn hs hk u hb
      have := nodup_subset_length_le _ _ h1 h2
      simp only [List.length_cons] at this
      omega
  | succ f ih =>
    unfold uniqueLoop
    simp only
    cases hb : r.nsForPrefix ("ns" ++ toString k) with
    | none => simpa using hb
    | some u =>
      simp only [Option.isSome_some, if_true]
      have ⟨h1, h2⟩ := cand_fresh r k seen hn hs hk u hb
      apply ih (k + 1) (("ns" ++ toString k) :: seen) h1 h2
      · intro c hc
        rcases List.mem_cons.mp hc with e | hc
        · exact ⟨k, by omega, e⟩
        · obtain ⟨j, hj, e⟩ := hk c hc
          exact ⟨j, by omega, e⟩
      · simp only [List.length_cons]; omega

theorem St.unique_unbound (s : St) : s.resultNs s.unique.1 = none := by
  unfold St.unique St.resultNs
  apply uniqueLoop_unbound s.ns s.declCount s.uniq [] List.nodup_nil (by simp) (by simp)
  simp [RNS.declared_length, St.declCount]


end XalanModel.C14
