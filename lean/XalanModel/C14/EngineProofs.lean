import XalanModel.C14.Engine
/-! Helper lemmas about the engine model (`Engine.lean`) used by `Props/C14.lean`. -/
namespace XalanModel.C14

/-! ### attribute list -/

theorem mem_addAttribute (l : List Att) (n : QN) (v : String) : ⟨n, v⟩ ∈ addAttribute l n v := by
  induction l with
  | nil => simp [addAttribute]
  | cons a as ih =>
    unfold addAttribute
    split
    · simp
    · exact List.mem_cons_of_mem _ ih

theorem names_addAttribute (l : List Att) (n : QN) (v : String) :
    (addAttribute l n v).map (·.name) =
      if n ∈ l.map (·.name) then l.map (·.name) else l.map (·.name) ++ [n] := by
  induction l with
  | nil => simp [addAttribute]
  | cons a as ih =>
    unfold addAttribute
    by_cases h : a.name = n
    · simp [h]
    · have h' : ¬ n = a.name := fun e => h e.symm
      simp only [h, if_false, List.map_cons, List.mem_cons, h', false_or, ih]
      split <;> simp

theorem nodup_addAttribute (l : List Att) (n : QN) (v : String) (h : (l.map (·.name)).Nodup) :
    ((addAttribute l n v).map (·.name)).Nodup := by
  rw [names_addAttribute]
  split
  · exact h
  · rename_i hn
    rw [List.nodup_append]
    refine ⟨h, by simp, ?_⟩
    intro a ha b hb
    simp at hb
    subst hb
    intro e
    exact hn (e ▸ ha)

/-! ### namespace stack -/

theorem Frame.nsForPrefix_cons_self (f : Frame) (p u : String) (h1 : p ≠ "xml") (h2 : p ≠ "xmlns") :
    Frame.nsForPrefix (⟨p, u⟩ :: f) p = some u := by
  simp [Frame.nsForPrefix, h1, h2]

theorem RNS.nsForPrefix_addDeclaration (r : RNS) (p u : String) (hc : r.createNew ≠ [])
    (h1 : p ≠ "xml") (h2 : p ≠ "xmlns") : (r.addDeclaration p u).nsForPrefix p = some u := by
  unfold RNS.addDeclaration
  match hcn : r.createNew with
  | [] => exact absurd hcn hc
  | true :: cs =>
    simp [RNS.nsForPrefix, Frame.nsForPrefix_cons_self, h1, h2]
  | false :: cs =>
    match hf : r.frames with
    | [] => simp [RNS.nsForPrefix, Frame.nsForPrefix_cons_self, h1, h2]
    | f :: fs => simp [RNS.nsForPrefix, Frame.nsForPrefix_cons_self, h1, h2]

theorem RNS.createNew_addDeclaration (r : RNS) (p u : String) (hc : r.createNew ≠ []) :
    (r.addDeclaration p u).createNew ≠ [] := by
  unfold RNS.addDeclaration
  match hcn : r.createNew with
  | [] => exact absurd hcn hc
  | true :: cs => simp
  | false :: cs =>
    match r.frames with
    | [] => simp
    | f :: fs => simp

/-! ### addResultAttribute -/

@[simp] theorem St.addAtt_ns (s : St) (n : QN) (v : String) : (s.addAtt n v).ns = s.ns := rfl
@[simp] theorem St.addAtt_pendName (s : St) (n : QN) (v : String) : (s.addAtt n v).pendName = s.pendName := rfl
@[simp] theorem St.addDecl_pendAtts (s : St) (p u : String) : (s.addDecl p u).pendAtts = s.pendAtts := rfl
@[simp] theorem St.addDecl_pendName (s : St) (p u : String) : (s.addDecl p u).pendName = s.pendName := rfl

/-- a name that is neither `xmlns` nor `xmlns:…` goes straight to the pending attribute list -/
theorem St.addResultAttribute_plain (s : St) (n : QN) (v : String) (fc : Bool)
    (h1 : n.pfx ≠ "xmlns") (h2 : n ≠ ⟨"", "xmlns"⟩) :
    s.addResultAttribute n v fc = s.addAtt n v := by
  unfold St.addResultAttribute
  have h0 : n ≠ ⟨"xmlns", "xml"⟩ := by
    intro e; apply h1; rw [e]
  simp [h0, h1, h2]

/-- declaring `xmlns:p = u` (not from a copy) makes the engine resolve `p` to `u` -/
theorem St.resultNs_after_decl (s : St) (p u : String) (hc : s.ns.createNew ≠ [])
    (h1 : p ≠ "xml") (h2 : p ≠ "xmlns") :
    (s.addResultAttribute ⟨"xmlns", p⟩ u).resultNs p = some u := by
  unfold St.addResultAttribute
  have ha : (⟨"xmlns", p⟩ : QN) ≠ ⟨"xmlns", "xml"⟩ := by
    intro e; apply h1; injection e
  have hb : (⟨"xmlns", p⟩ : QN) ≠ ⟨"", "xmlns"⟩ := by
    intro e; injection e with e1 _; exact absurd e1 (by decide)
  simp only [ha, hb, if_false]
  simp only [if_true]
  match hr : s.resultNs p with
  | none =>
    simp [St.resultNs, St.addDecl, RNS.nsForPrefix_addDeclaration _ _ _ hc h1 h2]
  | some u' =>
    by_cases hu : u' = u
    · subst hu
      simp [hr]
    · simp [hu, St.resultNs, St.addDecl, RNS.nsForPrefix_addDeclaration _ _ _ hc h1 h2]

theorem St.createNew_addResultAttribute (s : St) (n : QN) (v : String) (fc : Bool)
    (hc : s.ns.createNew ≠ []) : (s.addResultAttribute n v fc).ns.createNew ≠ [] := by
  unfold St.addResultAttribute
  dsimp only
  repeat' split
  all_goals first
    | exact hc
    | (simp only [St.addAtt_ns, St.addDecl]; exact RNS.createNew_addDeclaration _ _ _ hc)

theorem St.pendName_addResultAttribute (s : St) (n : QN) (v : String) (fc : Bool) :
    (s.addResultAttribute n v fc).pendName = s.pendName := by
  unfold St.addResultAttribute
  dsimp only
  repeat' split
  all_goals rfl

theorem St.nodup_addResultAttribute (s : St) (n : QN) (v : String) (fc : Bool)
    (h : (s.pendAtts.map (·.name)).Nodup) :
    ((s.addResultAttribute n v fc).pendAtts.map (·.name)).Nodup := by
  unfold St.addResultAttribute
  dsimp only
  repeat' split
  all_goals first
    | exact h
    | exact nodup_addAttribute _ _ _ h

/-! ### invented prefixes -/

theorem uniqueLoop_ns (r : RNS) (fuel k : Nat) : ∃ j : Nat, (uniqueLoop r fuel k).1 = "ns" ++ toString j := by
  induction fuel generalizing k with
  | zero => exact ⟨k, rfl⟩
  | succ f ih =>
    unfold uniqueLoop
    simp only
    split
    · exact ih (k + 1)
    · exact ⟨k, rfl⟩

/-- either the candidate returned is unbound, or the fuel ran out with every candidate bound -/
theorem uniqueLoop_fresh (r : RNS) (fuel k : Nat) :
    r.nsForPrefix (uniqueLoop r fuel k).1 = none ∨
      ∀ j : Nat, k ≤ j → j < k + fuel → (r.nsForPrefix ("ns" ++ toString j)).isSome = true := by
  induction fuel generalizing k with
  | zero => right; intro j h1 h2; omega
  | succ f ih =>
    unfold uniqueLoop
    simp only
    split
    · rename_i hb
      rcases ih (k + 1) with h | h
      · left; exact h
      · right
        intro j h1 h2
        by_cases hj : j = k
        · subst hj; exact hb
        · exact h j (by omega) (by omega)
    · rename_i hb
      left
      simpa using hb

theorem ns_prefix_ne (x : String) : "ns" ++ x ≠ "xml" ∧ "ns" ++ x ≠ "xmlns" ∧ "ns" ++ x ≠ "" := by
  refine ⟨?_, ?_, ?_⟩ <;> intro h <;> have := congrArg String.toList h <;> simp at this

theorem St.unique_ns (s : St) : (s.unique).2.ns = s.ns := rfl
theorem St.unique_pendAtts (s : St) : (s.unique).2.pendAtts = s.pendAtts := rfl
theorem St.unique_pendName (s : St) : (s.unique).2.pendName = s.pendName := rfl

theorem St.unique_prefix (s : St) : ∃ j : Nat, (s.unique).1 = "ns" ++ toString j := by
  unfold St.unique
  exact uniqueLoop_ns _ _ _

end XalanModel.C14
