import XalanModel.C14.Engine
/-! The lazily created `XalanNamespacesStack` refines a plain stack of frames (helpers for `Props/C14.lean`). -/
namespace XalanModel.C14

/-- the eager reading of the lazily created stack: one frame per open context, innermost first -/
def absFrames : List Bool → List Frame → List Frame
  | [], _ => []
  | true :: cs, fs => [] :: absFrames cs fs
  | false :: cs, f :: fs => f :: absFrames cs fs
  | false :: cs, [] => [] :: absFrames cs []

def RNS.abs (r : RNS) : List Frame := absFrames r.createNew r.frames

def countFalse : List Bool → Nat
  | [] => 0
  | true :: cs => countFalse cs
  | false :: cs => countFalse cs + 1

/-- invariant of `ResultNamespacesStack`: `m_stackPosition` = number of contexts that created their frame, and a
created frame holds at least one declaration -/
def RNS.Inv (r : RNS) : Prop := countFalse r.createNew = r.frames.length ∧ ∀ f ∈ r.frames, f ≠ []

/-- the obvious stack of frames -/
def Eager.add (fs : List Frame) (p u : String) : List Frame :=
  match fs with
  | [] => []
  | f :: fs => (⟨p, u⟩ :: f) :: fs
def Eager.nsForPrefix (fs : List Frame) (p : String) : Option String :=
  if p = "xml" then some xmlURI
  else if p = "xmlns" then some xmlnsURI
  else if fs.all (·.isEmpty) then none else fs.findSome? (·.nsForPrefix p)
def Eager.prefixForNs (fs : List Frame) (u : String) : Option String :=
  if fs.all (·.isEmpty) then none else fs.findSome? (·.prefixForNs u)

theorem RNS.abs_push (r : RNS) : r.pushContext.abs = [] :: r.abs := rfl
theorem RNS.inv_push (r : RNS) (h : r.Inv) : r.pushContext.Inv := by
  simpa [RNS.Inv, RNS.pushContext, countFalse] using h

theorem RNS.abs_pop (r : RNS) (h : r.Inv) : r.popContext.abs = r.abs.tail ∧ r.popContext.Inv := by
  obtain ⟨hc, hne⟩ := h
  unfold RNS.popContext RNS.abs RNS.Inv
  match hcn : r.createNew, hf : r.frames with
  | [], fs => simp [absFrames, hcn, hf, countFalse] at *; exact ⟨hc, hne⟩
  | true :: cs, fs =>
    simp only [hcn, hf, absFrames, List.tail_cons]
    simp only [hcn, hf, countFalse] at hc
    exact ⟨trivial, hc, by simpa [hf] using hne⟩
  | false :: cs, [] => simp [hcn, hf, countFalse] at hc
  | false :: cs, f :: fs =>
    simp only [hcn, hf, absFrames, List.tail_cons]
    simp only [hcn, hf, countFalse, List.length_cons, Nat.add_right_cancel_iff] at hc
    refine ⟨trivial, hc, ?_⟩
    intro g hg
    exact hne g (by simp [hf, hg])

theorem RNS.abs_add (r : RNS) (p u : String) (h : r.Inv) :
    (r.addDeclaration p u).abs = Eager.add r.abs p u ∧ (r.addDeclaration p u).Inv := by
  obtain ⟨hc, hne⟩ := h
  unfold RNS.addDeclaration RNS.abs RNS.Inv
  match hcn : r.createNew, hf : r.frames with
  | [], fs => simp [absFrames, hcn, hf, countFalse, Eager.add] at *; exact ⟨hc, hne⟩
  | true :: cs, fs =>
    simp only [hcn, hf, countFalse] at hc
    simp only [absFrames, Eager.add, countFalse, List.length_cons, hc, true_and]
    intro g hg
    rcases List.mem_cons.mp hg with e | hg
    · subst e; simp
    · exact hne g (by simpa [hf] using hg)
  | false :: cs, [] => simp [hcn, hf, countFalse] at hc
  | false :: cs, f :: fs =>
    simp only [hcn, hf, countFalse, List.length_cons] at hc
    simp only [absFrames, Eager.add, countFalse, List.length_cons, hc, true_and]
    intro g hg
    rcases List.mem_cons.mp hg with e | hg
    · subst e; simp
    · exact hne g (by simp [hf, hg])

private theorem absFrames_nil_all (cs : List Bool) (h : countFalse cs = 0) :
    ∀ f ∈ absFrames cs [], f = [] := by
  induction cs with
  | nil => simp [absFrames]
  | cons c cs ih =>
    cases c with
    | true => simp only [countFalse] at h; simp [absFrames]; exact ih h
    | false => simp [countFalse] at h

private theorem findSome_all_nil {β : Type} (g : Frame → Option β) (l : List Frame) (h : ∀ f ∈ l, f = [])
    (hg : g [] = none) : l.findSome? g = none := by
  induction l with
  | nil => rfl
  | cons a l ih =>
    have : a = [] := h a (by simp)
    subst this
    simp only [List.findSome?, hg]
    exact ih (fun f hf => h f (by simp [hf]))

/-- a lookup that an empty frame answers only in the way every frame answers sees the same thing in both stacks -/
private theorem findSome_abs {β : Type} (g : Frame → Option β)
    (hg : ∀ v, g [] = some v → ∀ f, g f = some v) :
    ∀ (cs : List Bool) (fs : List Frame), countFalse cs = fs.length → fs ≠ [] →
      (absFrames cs fs).findSome? g = fs.findSome? g
  | [], fs, hc, hne => by
    simp [countFalse] at hc
    exact absurd (List.length_eq_zero_iff.mp hc.symm) hne
  | true :: cs, fs, hc, hne => by
    simp only [countFalse] at hc
    simp only [absFrames, List.findSome?]
    cases h0 : g [] with
    | some v =>
      match fs, hne with
      | f :: fs', _ => simp [List.findSome?, hg v h0 f]
    | none => exact findSome_abs g hg cs fs hc hne
  | false :: cs, [], hc, _ => by simp [countFalse] at hc
  | false :: cs, f :: fs, hc, _ => by
    simp only [countFalse, List.length_cons, Nat.add_right_cancel_iff] at hc
    simp only [absFrames, List.findSome?]
    cases hf : g f with
    | some v => rfl
    | none =>
      simp only
      by_cases hfs : fs = []
      · subst hfs
        have h0 : g [] = none := by
          cases h0 : g [] with
          | none => rfl
          | some v => rw [hg v h0 f] at hf; cases hf
        simp only [List.findSome?]
        exact findSome_all_nil g _ (absFrames_nil_all cs (by simpa using hc)) h0
      · exact findSome_abs g hg cs fs hc hfs

private theorem abs_all_empty_iff (cs : List Bool) (fs : List Frame) (hc : countFalse cs = fs.length)
    (hne : ∀ f ∈ fs, f ≠ []) : (absFrames cs fs).all (·.isEmpty) = fs.isEmpty := by
  induction cs generalizing fs with
  | nil =>
    simp [countFalse] at hc
    have := List.length_eq_zero_iff.mp hc.symm
    subst this; rfl
  | cons c cs ih =>
    cases c with
    | true =>
      simp only [countFalse] at hc
      simp only [absFrames, List.all_cons, List.isEmpty_nil, Bool.true_and]
      exact ih fs hc hne
    | false =>
      match fs with
      | [] => simp [countFalse] at hc
      | f :: fs =>
        have : f ≠ [] := hne f (by simp)
        simp only [absFrames, List.all_cons, List.isEmpty_cons, Bool.and_eq_false_imp]
        cases f with
        | nil => exact absurd rfl this
        | cons a as => simp

/-- **the lazily created stack refines the plain stack of frames** for both look-ups -/
theorem RNS.lookups_refine (r : RNS) (h : r.Inv) (x : String) :
    r.nsForPrefix x = Eager.nsForPrefix r.abs x ∧ r.prefixForNs x = Eager.prefixForNs r.abs x := by
  obtain ⟨hc, hne⟩ := h
  unfold RNS.nsForPrefix RNS.prefixForNs Eager.nsForPrefix Eager.prefixForNs RNS.abs
  rw [abs_all_empty_iff _ _ hc hne]
  by_cases he : r.frames = []
  · simp [he]
  · have he' : r.frames.isEmpty = false := by simpa using he
    simp only [he', Bool.false_eq_true, if_false]
    constructor
    · split
      · rfl
      · split
        · rfl
        · refine (findSome_abs _ ?_ _ _ hc he).symm
          intro v hv
          simp [Frame.nsForPrefix] at hv
    · refine (findSome_abs _ ?_ _ _ hc he).symm
      intro v hv
      simp [Frame.prefixForNs] at hv

end XalanModel.C14
