import XalanModel.Containers.VectorTrace
import XalanModel.Containers.Deque
import XalanModel.Containers.XList
import XalanModel.Containers.XMap
/-
Element-object events of `XalanDeque`, `XalanList` and `XalanMap`, in the vocabulary of
`VectorTrace.lean` (`construct` / `assign` / `destroy` of cell `idx` of "buffer" `buf`):

* deque: buffer = position of the block in `m_blockIndex`, cell = index inside the block (every block is
  a `XalanVector` that never re-allocates: `push_back` constructs the first raw cell, `pop_back` destroys
  the last constructed one, `clear()` pops every block from its end);
* list and map: buffer = node id, cell 0 = the element stored in the node (`constructNode` /
  `doCreateEntry` construct it, `freeNode` / `doRemoveEntry` destroy it, `map[k] = v` assigns it).

`liveOf` is the set of constructed cells a state stands for.  `ElemTraceProofs.lean` shows that the events
of every operation lead from `liveOf` of the state before to `liveOf` of the state after under `replay`,
i.e. each element object is constructed exactly once before use and destroyed exactly once.
Core Lean only.
-/
namespace XalanModel.Containers

namespace Deq
variable {α : Type}

def liveOf (d : Deq α) : Live := fun k => (d.blocks.map List.length).getD k 0

/-- `push_back` -/
def evPush (d : Deq α) : List Ev :=
  match d.blocks.getLast? with
  | none => [.construct 0 0]
  | some last =>
    if last.length ≥ d.blockSize then [.construct d.blocks.length 0]
    else [.construct (d.blocks.length - 1) last.length]

/-- `pop_back` -/
def evPop (d : Deq α) : List Ev :=
  match d.blocks.getLast? with
  | none => []
  | some last => [.destroy (d.blocks.length - 1) (last.length - 1)]

/-- destroying one block's elements from the end (`XalanVector::clear`) -/
def evClearBlock (k n : Nat) : List Ev := (List.range' 0 n).reverse.map (.destroy k ·)

/-- `clear()`: every block of the index, first to last -/
def evClearFrom (k : Nat) : List (List α) → List Ev
  | [] => []
  | b :: bs => evClearBlock k b.length ++ evClearFrom (k + 1) bs

def evClear (d : Deq α) : List Ev := evClearFrom 0 d.blocks

end Deq

namespace XL
variable {α : Type}

def liveOf (l : XL α) : Live := fun id => if id ∈ l.live.map (·.1) then 1 else 0

/-- `constructNode` with the node it uses -/
def evConstruct (id : Nat) : List Ev := [.construct id 0]
/-- `freeNode` -/
def evErase (id : Nat) : List Ev := [.destroy id 0]
/-- `clear()`: `freeNode` on every node from the front -/
def evClear (l : XL α) : List Ev := l.live.map fun p => .destroy p.1 0

end XL

namespace XMap
variable {κ ν : Type}

def liveOf (m : XMap κ ν) : Live := fun id => if id ∈ m.entries.map (·.id) then 1 else 0

/-- `doCreateEntry` with the node it uses: the mapped value is constructed in place -/
def evCreate (id : Nat) : List Ev := [.construct id 0]
/-- assignment through the reference returned by `operator[]` -/
def evAssign (id : Nat) : List Ev := [.assign id 0]
/-- `doRemoveEntry` -/
def evRemove (id : Nat) : List Ev := [.destroy id 0]
/-- `doRemoveEntries` (`clear`, destructor): from the front -/
def evClear (m : XMap κ ν) : List Ev := m.entries.map fun e => .destroy e.id 0

end XMap
end XalanModel.Containers
