import XalanModel.Containers.VectorTrace
import XalanModel.Containers.VectorProofs
/-!
The event log of every `XalanVector` operation obeys the placement discipline (`replay` succeeds), and
forgetting the log gives back the operations of `Vector.lean`.
-/
namespace XalanModel.Containers

theorem Live.upd_same (l : Live) (b n : Nat) : (l.upd b n) b = n := by simp [Live.upd]
theorem Live.upd_other (l : Live) (b n x : Nat) (h : x ≠ b) : (l.upd b n) x = l x := by simp [Live.upd, h]
theorem Live.upd_upd (l : Live) (b n m : Nat) : (l.upd b n).upd b m = l.upd b m := by
  funext x; simp only [Live.upd]; split <;> rfl

theorem replay_append (a b : List Ev) (l : Live) : replay (a ++ b) l = (replay a l).bind (replay b) := by
  induction a generalizing l with
  | nil => rfl
  | cons e es ih =>
    simp only [List.cons_append, replay]
    cases e.apply l with
    | none => rfl
    | some l1 => simp only [Option.bind_some]; exact ih l1

theorem replay_constructs (b : Nat) : ∀ (k c : Nat) (l : Live), l b = c →
    replay ((List.range' c k).map (.construct b ·)) l = some (l.upd b (c + k)) := by
  intro k
  induction k with
  | zero => intro c l h; simp only [List.range'_zero, List.map_nil, replay, Nat.add_zero]
            congr 1; funext x; simp only [Live.upd]; split
            · rename_i hx; rw [hx, h]
            · rfl
  | succ k ih =>
    intro c l h
    simp only [List.range'_succ, List.map_cons, replay, Ev.apply, h, if_true, Option.bind_some]
    rw [ih (c + 1) (l.upd b (c + 1)) (Live.upd_same ..), Live.upd_upd]
    congr 2; omega

theorem replay_assigns (b : Nat) : ∀ (k pos : Nat) (l : Live), pos + k ≤ l b →
    replay ((List.range' pos k).map (.assign b ·)) l = some l := by
  intro k
  induction k with
  | zero => intro pos l _; rfl
  | succ k ih =>
    intro pos l h
    have h1 : pos < l b := by omega
    simp only [List.range'_succ, List.map_cons, replay, Ev.apply, h1, if_true, Option.bind_some]
    exact ih (pos + 1) l (by omega)

namespace TVec
variable {α : Type}

/-- the log so far passes the discipline from the initial cells `l0`, leaving `l`: the current buffer has
exactly `size` constructed cells, buffers not yet allocated have none -/
def TInv (t : TVec α) (l0 l : Live) : Prop :=
  replay t.tr l0 = some l ∧ l t.buf = t.v.items.length ∧ t.buf < t.next ∧ ∀ b, t.next ≤ b → l b = 0

/-- what an operation may change: it allocates only fresh buffers and leaves foreign buffers alone -/
structure Ext (t : TVec α) (l : Live) (t' : TVec α) (l' : Live) : Prop where
  next_le : t.next ≤ t'.next
  buf : t'.buf = t.buf ∨ t.next ≤ t'.buf
  frame : ∀ b, b < t.next → b ≠ t.buf → l' b = l b

theorem Ext.refl (t : TVec α) (l : Live) : Ext t l t l := ⟨Nat.le_refl _, Or.inl rfl, fun _ _ _ => rfl⟩

theorem Ext.trans {t t1 t2 : TVec α} {l l1 l2 : Live} (hb : t.buf < t.next) (a : Ext t l t1 l1) (b : Ext t1 l1 t2 l2) :
    Ext t l t2 l2 := by
  refine ⟨Nat.le_trans a.next_le b.next_le, ?_, ?_⟩
  · rcases b.buf with h | h
    · rw [h]; exact a.buf
    · exact Or.inr (Nat.le_trans a.next_le h)
  · intro x hx hne
    have h1 : x < t1.next := Nat.lt_of_lt_of_le hx a.next_le
    have h2 : x ≠ t1.buf := by
      rcases a.buf with h | h
      · rw [h]; exact hne
      · omega
    rw [b.frame x h1 h2, a.frame x hx hne]

def Pres (f : TVec α → Option (TVec α)) : Prop :=
  ∀ t l0 l, TInv t l0 l → ∀ t', f t = some t' → ∃ l', TInv t' l0 l' ∧ Ext t l t' l'

theorem pres_some : Pres (fun t : TVec α => some t) := by
  intro t l0 l h t' e; cases e; exact ⟨l, h, Ext.refl t l⟩

theorem pres_bind {f : TVec α → Option (TVec α)} {g : TVec α → TVec α → Option (TVec α)}
    (hf : Pres f) (hg : ∀ t, Pres (g t)) : Pres (fun t => (f t).bind (g t)) := by
  intro t l0 l h t' e
  cases hft : f t with
  | none => simp [hft] at e
  | some t1 =>
    simp only [hft, Option.bind_some] at e
    obtain ⟨l1, i1, e1⟩ := hf t l0 l h t1 hft
    obtain ⟨l2, i2, e2⟩ := hg t t1 l0 l1 i1 t' e
    exact ⟨l2, i2, Ext.trans h.2.2.1 e1 e2⟩

theorem pres_of_total {f : TVec α → TVec α} (hf : Pres (fun t => some (f t))) (t : TVec α) (l0 l : Live)
    (h : TInv t l0 l) : ∃ l', TInv (f t) l0 l' ∧ Ext t l (f t) l' := hf t l0 l h (f t) rfl

theorem pres_rawPush (x : α) : Pres (fun t : TVec α => rawPush t x) := by
  intro t l0 l h t' e
  unfold rawPush at e
  cases hv : t.v.rawPush x with
  | none => simp [hv] at e
  | some v' =>
    simp only [hv, Option.map_some, Option.some.injEq] at e
    subst e
    have hi : v'.items = t.v.items ++ [x] := by
      unfold Vec.rawPush at hv; split at hv
      · cases hv; rfl
      · cases hv
    obtain ⟨hr, hb, hlt, hz⟩ := h
    refine ⟨l.upd t.buf (t.v.items.length + 1), ⟨?_, ?_, hlt, ?_⟩, ⟨Nat.le_refl _, Or.inl rfl, ?_⟩⟩
    · simp only [replay_append, hr, Option.bind_some, replay, Ev.apply, hb, if_true]
    · simp [Live.upd_same, hi]
    · intro b hb'
      have hb2 : t.next ≤ b := hb'
      rw [Live.upd_other _ _ _ _ (by omega)]; exact hz b hb2
    · intro b _ hne; exact Live.upd_other _ _ _ _ hne

theorem pres_popBack : Pres (fun t : TVec α => popBack t) := by
  intro t l0 l h t' e
  unfold popBack at e
  cases hv : t.v.popBack with
  | none => simp [hv] at e
  | some v' =>
    simp only [hv, Option.map_some, Option.some.injEq] at e
    subst e
    have hi : v'.items = t.v.items.dropLast ∧ t.v.items.length ≠ 0 := by
      unfold Vec.popBack at hv; split at hv
      · cases hv
      · rename_i h0; cases hv; exact ⟨rfl, h0⟩
    obtain ⟨hr, hb, hlt, hz⟩ := h
    refine ⟨l.upd t.buf (t.v.items.length - 1), ⟨?_, ?_, hlt, ?_⟩, ⟨Nat.le_refl _, Or.inl rfl, ?_⟩⟩
    · have : l t.buf = t.v.items.length - 1 + 1 := by rw [hb]; omega
      simp only [replay_append, hr, Option.bind_some, replay, Ev.apply, this, if_true]
    · simp [Live.upd_same, hi.1]
    · intro b hb'
      have hb2 : t.next ≤ b := hb'
      rw [Live.upd_other _ _ _ _ (by omega)]; exact hz b hb2
    · intro b _ hne; exact Live.upd_other _ _ _ _ hne

theorem pres_overwrite (pos : Nat) (seg : List α) : Pres (fun t : TVec α => overwrite t pos seg) := by
  intro t l0 l h t' e
  unfold overwrite at e
  cases hv : t.v.overwrite pos seg with
  | none => simp [hv] at e
  | some v' =>
    simp only [hv, Option.map_some, Option.some.injEq] at e
    subst e
    have hle : pos + seg.length ≤ t.v.items.length := by
      unfold Vec.overwrite at hv; split at hv
      · assumption
      · cases hv
    have hi : v'.items.length = t.v.items.length := by
      rw [Vec.overwrite_spec _ _ _ hle] at hv; cases hv
      simp only [List.length_append, List.length_take, List.length_drop]; omega
    obtain ⟨hr, hb, hlt, hz⟩ := h
    refine ⟨l, ⟨?_, by rw [hi]; exact hb, hlt, hz⟩, ⟨Nat.le_refl _, Or.inl rfl, fun _ _ _ => rfl⟩⟩
    simp only [replay_append, hr, Option.bind_some]
    exact replay_assigns t.buf seg.length pos l (by rw [hb]; exact hle)

theorem pres_assignCell (src dst : Nat) : Pres (fun t : TVec α => assignCell t src dst) := by
  intro t l0 l h t' e
  unfold assignCell at e
  cases hv : t.v.assignCell src dst with
  | none => simp [hv] at e
  | some v' =>
    simp only [hv, Option.map_some, Option.some.injEq] at e
    subst e
    unfold Vec.assignCell at hv
    cases hs : t.v.items[src]? with
    | none => simp [hs] at hv
    | some x =>
      simp only [hs] at hv
      have hle : dst + 1 ≤ t.v.items.length := by
        unfold Vec.overwrite at hv; split at hv
        · rename_i h1; simpa using h1
        · cases hv
      have hi : v'.items.length = t.v.items.length := by
        rw [Vec.overwrite_spec _ _ _ (by simpa using hle)] at hv; cases hv
        simp only [List.length_append, List.length_take, List.length_drop, List.length_cons, List.length_nil]; omega
      obtain ⟨hr, hb, hlt, hz⟩ := h
      refine ⟨l, ⟨?_, by rw [hi]; exact hb, hlt, hz⟩, ⟨Nat.le_refl _, Or.inl rfl, fun _ _ _ => rfl⟩⟩
      have : dst < l t.buf := by rw [hb]; omega
      simp only [replay_append, hr, Option.bind_some, replay, Ev.apply, this, if_true]

/-- a re-allocating path: constructs in a fresh buffer, then the old buffer is released with exactly
its constructed cells -/
theorem pres_rebuild (items : List α) (alloc : Nat) : Pres (fun t : TVec α => some (rebuild t items alloc)) := by
  intro t l0 l h t' e
  simp only [Option.some.injEq] at e
  subst e
  obtain ⟨hr, hb, hlt, hz⟩ := h
  have hne : t.buf ≠ t.next := by omega
  refine ⟨(l.upd t.next items.length).upd t.buf 0, ⟨?_, ?_, ?_, ?_⟩, ⟨?_, Or.inr (Nat.le_refl _), ?_⟩⟩
  · simp only [rebuild, replay_append, hr, Option.bind_some]
    rw [replay_constructs t.next items.length 0 l (hz t.next (Nat.le_refl _))]
    simp only [Option.bind_some, Nat.zero_add, replay, Ev.apply]
    rw [Live.upd_other _ _ _ _ hne, hb]
    simp
  · show ((l.upd t.next items.length).upd t.buf 0) t.next = items.length
    rw [Live.upd_other _ _ _ _ (Ne.symm hne), Live.upd_same]
  · show t.next < t.next + 1; omega
  · intro b hb'
    have h1 : t.next + 1 ≤ b := hb'
    rw [Live.upd_other _ _ _ _ (by omega), Live.upd_other _ _ _ _ (by omega)]
    exact hz b (by omega)
  · show t.next ≤ t.next + 1; omega
  · intro b hb1 hb2
    rw [Live.upd_other _ _ _ _ hb2, Live.upd_other _ _ _ _ (by omega)]

/-- sequencing at a fixed state -/
theorem bind_step {t t' : TVec α} {l0 l : Live} (h : TInv t l0 l) {f : Option (TVec α)} {g : TVec α → Option (TVec α)}
    (hf : ∀ t1, f = some t1 → ∃ l1, TInv t1 l0 l1 ∧ Ext t l t1 l1) (hg : Pres g)
    (e : f.bind g = some t') : ∃ l', TInv t' l0 l' ∧ Ext t l t' l' := by
  cases hft : f with
  | none => simp [hft] at e
  | some t1 =>
    simp only [hft, Option.bind_some] at e
    obtain ⟨l1, i1, e1⟩ := hf t1 hft
    obtain ⟨l2, i2, e2⟩ := hg t1 l0 l1 i1 t' e
    exact ⟨l2, i2, Ext.trans h.2.2.1 e1 e2⟩

theorem pres_doPushBack (x : α) (t : TVec α) (l0 l : Live) (h : TInv t l0 l) (t' : TVec α) (m : Bool)
    (e : doPushBack t x = some (t', m)) : ∃ l', TInv t' l0 l' ∧ Ext t l t' l' := by
  unfold doPushBack at e
  split at e
  · cases hr : rawPush t x with
    | none => simp [hr] at e
    | some t1 =>
      simp only [hr, Option.map_some, Option.some.injEq, Prod.mk.injEq] at e
      obtain ⟨rfl, _⟩ := e
      exact pres_rawPush x t l0 l h t1 hr
  · split at e
    · simp only [Option.some.injEq, Prod.mk.injEq] at e
      obtain ⟨rfl, _⟩ := e
      exact pres_rebuild _ _ t l0 l h _ rfl
    · simp only [Option.some.injEq, Prod.mk.injEq] at e
      obtain ⟨rfl, _⟩ := e
      exact pres_rebuild _ _ t l0 l h _ rfl

theorem pres_pushBack (x : α) : Pres (fun t : TVec α => pushBack t x) := by
  intro t l0 l h t' e
  unfold pushBack at e
  cases hd : doPushBack t x with
  | none => simp [hd] at e
  | some r =>
    obtain ⟨t1, m⟩ := r
    simp only [hd, Option.map_some, Option.some.injEq] at e
    subst e
    exact pres_doPushBack x t l0 l h t1 m hd

theorem pres_popN (n : Nat) : Pres (fun t : TVec α => popN n t) := by
  induction n with
  | zero => exact pres_some
  | succ n ih =>
    intro t l0 l h t' e
    simp only [popN] at e
    exact bind_step h (fun t1 e1 => pres_popBack t l0 l h t1 e1) ih e

theorem pres_copyFwd (n : Nat) : ∀ s d, Pres (fun t : TVec α => copyFwd t s d n) := by
  induction n with
  | zero => intro s d; exact pres_some
  | succ n ih =>
    intro s d t l0 l h t' e
    simp only [copyFwd] at e
    exact bind_step h (fun t1 e1 => pres_assignCell s d t l0 l h t1 e1) (ih (s + 1) (d + 1)) e

theorem pres_copyBwd (n : Nat) : ∀ s d, Pres (fun t : TVec α => copyBwd t s d n) := by
  induction n with
  | zero => intro s d; exact pres_some
  | succ n ih =>
    intro s d t l0 l h t' e
    simp only [copyBwd] at e
    exact bind_step h (fun t1 e1 => pres_assignCell (s + n) (d + n) t l0 l h t1 e1) (ih s d) e

theorem pres_pushAll (st : Bool) (xs : List α) : Pres (fun t : TVec α => pushAll st xs t) := by
  induction xs with
  | nil => exact pres_some
  | cons x xs ih =>
    intro t l0 l h t' e
    simp only [pushAll] at e
    cases hd : doPushBack t x with
    | none => simp [hd] at e
    | some r =>
      obtain ⟨t1, m⟩ := r
      simp only [hd] at e
      obtain ⟨l1, i1, e1⟩ := pres_doPushBack x t l0 l h t1 m hd
      split at e
      · cases e
      · obtain ⟨l2, i2, e2⟩ := ih t1 l0 l1 i1 t' e
        exact ⟨l2, i2, Ext.trans h.2.2.1 e1 e2⟩

theorem pres_rawPushAll (xs : List α) : Pres (fun t : TVec α => rawPushAll xs t) := by
  induction xs with
  | nil => exact pres_some
  | cons x xs ih =>
    intro t l0 l h t' e
    simp only [rawPushAll] at e
    exact bind_step h (fun t1 e1 => pres_rawPush x t l0 l h t1 e1) ih e

theorem pres_reserve (n : Nat) : Pres (fun t : TVec α => some (reserve t n)) := by
  intro t l0 l h t' e
  simp only [Option.some.injEq] at e
  subst e
  unfold reserve
  split
  · exact pres_rebuild _ _ t l0 l h _ rfl
  · exact ⟨l, h, Ext.refl t l⟩

theorem pres_insertRange (pos : Nat) (ins : List α) : Pres (fun t : TVec α => insertRange t pos ins) := by
  intro t l0 l h t' e
  simp only [] at e
  unfold insertRange at e
  split at e
  · cases e
  split at e
  · cases e; exact ⟨l, h, Ext.refl t l⟩
  simp only at e
  split at e
  · obtain ⟨l1, i1, e1⟩ := pres_reserve (t.v.items.length + ins.length) t l0 l h _ rfl
    obtain ⟨l2, i2, e2⟩ := pres_rawPushAll ins _ l0 l1 i1 t' e
    exact ⟨l2, i2, Ext.trans h.2.2.1 e1 e2⟩
  split at e
  · cases e; exact pres_rebuild _ _ t l0 l h _ rfl
  split at e
  · exact bind_step h (fun t1 e1 => pres_pushAll true _ t l0 l h t1 e1)
      (fun t1 l0' l1 i1 t2 e2 => bind_step i1 (fun t3 e3 => pres_pushAll true _ t1 l0' l1 i1 t3 e3)
        (pres_overwrite pos _) e2) e
  · exact bind_step h (fun t1 e1 => pres_pushAll true _ t l0 l h t1 e1)
      (fun t1 l0' l1 i1 t2 e2 => bind_step i1 (fun t3 e3 => pres_copyBwd _ _ _ t1 l0' l1 i1 t3 e3)
        (pres_overwrite pos _) e2) e

theorem pres_insertN (pos n : Nat) (x : α) : Pres (fun t : TVec α => insertN t pos n x) := by
  intro t l0 l h t' e
  simp only [] at e
  unfold insertN at e
  split at e
  · cases e
  simp only at e
  split at e
  · obtain ⟨l1, i1, e1⟩ := pres_reserve (t.v.items.length + n) t l0 l h _ rfl
    obtain ⟨l2, i2, e2⟩ := pres_rawPushAll (List.replicate n x) _ l0 l1 i1 t' e
    exact ⟨l2, i2, Ext.trans h.2.2.1 e1 e2⟩
  split at e
  · cases e; exact pres_rebuild _ _ t l0 l h _ rfl
  split at e
  · exact bind_step h (fun t1 e1 => pres_pushAll true _ t l0 l h t1 e1)
      (fun t1 l0' l1 i1 t2 e2 => bind_step i1 (fun t3 e3 => pres_pushAll true _ t1 l0' l1 i1 t3 e3)
        (pres_overwrite pos _) e2) e
  · exact bind_step h (fun t1 e1 => pres_pushAll true _ t l0 l h t1 e1)
      (fun t1 l0' l1 i1 t2 e2 => bind_step i1 (fun t3 e3 => pres_copyBwd _ _ _ t1 l0' l1 i1 t3 e3)
        (pres_overwrite pos _) e2) e

theorem pres_erase (first last : Nat) : Pres (fun t : TVec α => erase t first last) := by
  intro t l0 l h t' e
  simp only [] at e
  unfold erase at e
  split at e
  · cases e
  split at e
  · cases e; exact ⟨l, h, Ext.refl t l⟩
  · exact bind_step h (fun t1 e1 => pres_copyFwd _ _ _ t l0 l h t1 e1) (pres_popN _) e

theorem pres_resize (n : Nat) (x : α) : Pres (fun t : TVec α => resize t n x) := by
  intro t l0 l h t' e
  simp only [] at e
  unfold resize at e
  split at e
  · exact pres_popN _ t l0 l h t' e
  split at e
  · obtain ⟨l1, i1, e1⟩ := pres_reserve n t l0 l h _ rfl
    obtain ⟨l2, i2, e2⟩ := pres_rawPushAll _ _ l0 l1 i1 t' e
    exact ⟨l2, i2, Ext.trans h.2.2.1 e1 e2⟩
  · cases e; exact ⟨l, h, Ext.refl t l⟩

theorem pres_clear : Pres (fun t : TVec α => clear t) := by
  intro t l0 l h t' e
  simp only [] at e
  unfold clear at e
  split at e
  · exact pres_popN _ t l0 l h t' e
  · cases e; exact ⟨l, h, Ext.refl t l⟩

theorem pres_assign (src : List α) : Pres (fun t : TVec α => assign t src) := by
  intro t l0 l h t' e
  simp only [] at e
  unfold assign at e
  exact bind_step h (fun t1 e1 => pres_clear t l0 l h t1 e1) (pres_insertRange 0 src) e

theorem pres_copyAssign (rhs : Vec α) : Pres (fun t : TVec α => copyAssign t rhs) := by
  intro t l0 l h t' e
  simp only [] at e
  unfold copyAssign at e
  split at e
  · cases e; exact pres_rebuild _ _ t l0 l h _ rfl
  split at e
  · exact bind_step h (fun t1 e1 => pres_popN _ t l0 l h t1 e1) (pres_overwrite 0 _) e
  split at e
  · exact bind_step h (fun t1 e1 => pres_insertRange _ _ t l0 l h t1 e1) (pres_overwrite 0 _) e
  · exact pres_overwrite 0 _ t l0 l h t' e

/-- the temporary one-element vector of the alias repair is constructed before and released after the
body, whatever buffers the body allocates in between -/
theorem pres_withValueCopy {body : TVec α → Option (TVec α)} (hb : Pres body) :
    Pres (fun t : TVec α => withValueCopy t body) := by
  intro t l0 l h t' e
  simp only [] at e
  unfold withValueCopy at e
  obtain ⟨hr, hbuf, hlt, hz⟩ := h
  have hne : t.buf ≠ t.next := by omega
  -- state after the temporary has been built
  have i1 : TInv { t with next := t.next + 1, tr := t.tr ++ [.construct t.next 0] } l0 (l.upd t.next 1) := by
    refine ⟨?_, ?_, ?_, ?_⟩
    · simp only [replay_append, hr, Option.bind_some, replay, Ev.apply, hz t.next (Nat.le_refl _), if_true]
    · show (l.upd t.next 1) t.buf = _; rw [Live.upd_other _ _ _ _ hne]; exact hbuf
    · show t.buf < t.next + 1; omega
    · intro b hb'; have : t.next + 1 ≤ b := hb'
      rw [Live.upd_other _ _ _ _ (by omega)]; exact hz b (by omega)
  cases hbd : body { t with next := t.next + 1, tr := t.tr ++ [.construct t.next 0] } with
  | none => simp [hbd] at e
  | some t2 =>
    simp only [hbd, Option.map_some, Option.some.injEq] at e
    subst e
    obtain ⟨l2, ⟨hr2, hb2, hlt2, hz2⟩, e2⟩ := hb _ l0 _ i1 t2 hbd
    have hnext : t.next + 1 ≤ t2.next := e2.next_le
    have hbuf2 : t2.buf ≠ t.next := by
      rcases e2.buf with h1 | h1
      · rw [h1]; exact hne
      · have : t.next + 1 ≤ t2.buf := h1; omega
    have htmp : l2 t.next = 1 := by
      rw [e2.frame t.next (by show t.next < t.next + 1; omega) (by show t.next ≠ t.buf; omega), Live.upd_same]
    refine ⟨l2.upd t.next 0, ⟨?_, ?_, hlt2, ?_⟩, ⟨by show t.next ≤ t2.next; omega, ?_, ?_⟩⟩
    · simp only [replay_append, hr2, Option.bind_some, replay, Ev.apply, htmp, if_true]
    · show (l2.upd t.next 0) t2.buf = _; rw [Live.upd_other _ _ _ _ hbuf2]; exact hb2
    · intro b hb'
      have hb3 : t2.next ≤ b := hb'
      rw [Live.upd_other _ _ _ _ (by omega)]; exact hz2 b hb3
    · rcases e2.buf with h1 | h1
      · exact Or.inl h1
      · exact Or.inr (by show t.next ≤ t2.buf; have : t.next + 1 ≤ t2.buf := h1; omega)
    · intro b hb1 hb2'
      have hbn : b ≠ t.next := by omega
      rw [Live.upd_other _ _ _ _ hbn]
      rw [e2.frame b (by show b < t.next + 1; omega) hb2', Live.upd_other _ _ _ _ hbn]

theorem pres_insertNSelf (pos n i : Nat) : Pres (fun t : TVec α => insertNSelf t pos n i) := by
  intro t l0 l h t' e
  simp only [] at e
  unfold insertNSelf at e
  split at e
  · cases e
  · exact pres_withValueCopy (pres_insertN pos n _) t l0 l h t' e

theorem pres_resizeSelf (n i : Nat) : Pres (fun t : TVec α => resizeSelf t n i) := by
  intro t l0 l h t' e
  simp only [] at e
  unfold resizeSelf at e
  split at e
  · cases e
  · split at e
    · exact pres_withValueCopy (pres_resize n _) t l0 l h t' e
    · exact pres_resize n _ t l0 l h t' e

theorem pres_pushBackSelf (i : Nat) : Pres (fun t : TVec α => pushBackSelf t i) := by
  intro t l0 l h t' e
  simp only [] at e
  unfold pushBackSelf at e
  split at e
  · cases e
  · exact pres_pushBack _ t l0 l h t' e

/-! ### forgetting the log gives `Vector.lean` -/

theorem proj_rawPush (t : TVec α) (x : α) : (rawPush t x).map (·.v) = t.v.rawPush x := by
  unfold rawPush; cases t.v.rawPush x <;> rfl

theorem proj_popBack (t : TVec α) : (popBack t).map (·.v) = t.v.popBack := by
  unfold popBack; cases t.v.popBack <;> rfl

theorem proj_overwrite (t : TVec α) (pos : Nat) (seg : List α) :
    (overwrite t pos seg).map (·.v) = t.v.overwrite pos seg := by
  unfold overwrite; cases t.v.overwrite pos seg <;> rfl

theorem proj_assignCell (t : TVec α) (s d : Nat) : (assignCell t s d).map (·.v) = t.v.assignCell s d := by
  unfold assignCell; cases t.v.assignCell s d <;> rfl

theorem map_bind_proj {f : Option (TVec α)} {g : TVec α → Option (TVec α)} {g' : Vec α → Option (Vec α)}
    (hg : ∀ t1, (g t1).map (·.v) = g' t1.v) : (f.bind g).map (·.v) = (f.map (·.v)).bind g' := by
  cases f with
  | none => rfl
  | some t1 => simp only [Option.bind_some, Option.map_some]; exact hg t1

theorem proj_doPushBack (t : TVec α) (x : α) :
    (doPushBack t x).map (fun r => (r.1.v, r.2)) = t.v.doPushBack x := by
  unfold doPushBack Vec.doPushBack
  by_cases h1 : t.v.items.length < t.v.alloc
  · simp only [h1, if_true, Option.map_map]
    rw [← proj_rawPush]; cases rawPush t x <;> rfl
  simp only [h1, if_false]
  by_cases h2 : t.v.items.length = 0
  · simp [h2, rebuild, Vec.rawPush]
  simp only [h2, if_false]
  have hg := Vec.growSize_gt t.v.items.length (by omega)
  have hpos : t.v.items.length > 0 := by omega
  have : t.v.items.length < max t.v.items.length (Vec.growSize t.v.items.length) := by omega
  simp [rebuild, Vec.rawPush, Vec.copyWith, hpos, this]

theorem proj_pushBack (t : TVec α) (x : α) : (pushBack t x).map (·.v) = t.v.pushBack x := by
  unfold pushBack Vec.pushBack
  rw [← proj_doPushBack]; cases doPushBack t x <;> rfl

theorem proj_popN (n : Nat) (t : TVec α) : (popN n t).map (·.v) = Vec.popN n t.v := by
  induction n generalizing t with
  | zero => rfl
  | succ n ih =>
    simp only [popN, Vec.popN]
    rw [map_bind_proj (g' := Vec.popN n) (fun t1 => ih t1), proj_popBack]

theorem proj_copyFwd (n : Nat) (t : TVec α) (s d : Nat) : (copyFwd t s d n).map (·.v) = Vec.copyFwd t.v s d n := by
  induction n generalizing t s d with
  | zero => rfl
  | succ n ih =>
    simp only [copyFwd, Vec.copyFwd]
    rw [map_bind_proj (g' := fun v' => Vec.copyFwd v' (s + 1) (d + 1) n) (fun t1 => ih t1 _ _), proj_assignCell]

theorem proj_copyBwd (n : Nat) (t : TVec α) (s d : Nat) : (copyBwd t s d n).map (·.v) = Vec.copyBwd t.v s d n := by
  induction n generalizing t with
  | zero => rfl
  | succ n ih =>
    simp only [copyBwd, Vec.copyBwd]
    rw [map_bind_proj (g' := fun v' => Vec.copyBwd v' s d n) (fun t1 => ih t1), proj_assignCell]

theorem proj_pushAll (st : Bool) (xs : List α) (t : TVec α) : (pushAll st xs t).map (·.v) = Vec.pushAll st xs t.v := by
  induction xs generalizing t with
  | nil => rfl
  | cons x xs ih =>
    simp only [pushAll, Vec.pushAll]
    rw [← proj_doPushBack]
    cases doPushBack t x with
    | none => rfl
    | some r =>
      obtain ⟨t1, m⟩ := r
      simp only [Option.map_some]
      split
      · rfl
      · exact ih t1

theorem proj_rawPushAll (xs : List α) (t : TVec α) : (rawPushAll xs t).map (·.v) = Vec.rawPushAll xs t.v := by
  induction xs generalizing t with
  | nil => rfl
  | cons x xs ih =>
    simp only [rawPushAll, Vec.rawPushAll]
    rw [map_bind_proj (g' := Vec.rawPushAll xs) (fun t1 => ih t1), proj_rawPush]

theorem copyWith_items (v : Vec α) (n : Nat) : (Vec.copyWith v n).items = v.items := by
  unfold Vec.copyWith; split
  · rfl
  · rename_i h; simp at h; simp [h]

theorem proj_reserve (t : TVec α) (n : Nat) : (reserve t n).v = Vec.reserve t.v n := by
  unfold reserve Vec.reserve Vec.doReserve
  split
  · show (⟨t.v.items, (Vec.copyWith t.v n).alloc⟩ : Vec α) = Vec.copyWith t.v n
    rw [← copyWith_items t.v n]
  · rfl

theorem proj_insertRange (t : TVec α) (pos : Nat) (ins : List α) :
    (insertRange t pos ins).map (·.v) = Vec.insertRange t.v pos ins := by
  unfold insertRange Vec.insertRange
  by_cases h1 : pos > t.v.items.length
  · simp [h1]
  simp only [h1, if_false]
  by_cases h2 : ins.length = 0
  · simp [h2]
  simp only [h2, if_false]
  by_cases h3 : pos = t.v.items.length
  · simp only [h3, if_true]
    rw [proj_rawPushAll, proj_reserve]; rfl
  simp only [h3, if_false]
  by_cases h4 : t.v.items.length + ins.length > t.v.alloc
  · simp only [h4, if_true, Option.map_some]
    have hl : t.v.items.length + ins.length =
        (t.v.items.take pos).length + (t.v.items.drop pos).length + ins.length := by
      simp only [List.length_take, List.length_drop]; omega
    rw [hl, Vec.realloc_case]; rfl
  simp only [h4, if_false]
  by_cases h5 : t.v.items.length - pos ≤ ins.length
  · simp only [h5, if_true]
    rw [map_bind_proj (g' := fun v1 => (Vec.pushAll true (t.v.items.drop pos) v1).bind fun v2 =>
      Vec.overwrite v2 pos (ins.take (t.v.items.length - pos))), proj_pushAll]
    intro t1
    rw [map_bind_proj (g' := fun v2 => Vec.overwrite v2 pos (ins.take (t.v.items.length - pos))), proj_pushAll]
    intro t2; exact proj_overwrite ..
  · simp only [h5, if_false]
    rw [map_bind_proj (g' := fun v1 => (Vec.copyBwd v1 pos (pos + ins.length) (t.v.items.length - ins.length - pos)).bind
      fun v2 => Vec.overwrite v2 pos ins), proj_pushAll]
    intro t1
    rw [map_bind_proj (g' := fun v2 => Vec.overwrite v2 pos ins), proj_copyBwd]
    intro t2; exact proj_overwrite ..

theorem proj_insertN (t : TVec α) (pos n : Nat) (x : α) :
    (insertN t pos n x).map (·.v) = Vec.insertN t.v pos n x := by
  unfold insertN Vec.insertN
  by_cases h1 : pos > t.v.items.length
  · simp [h1]
  simp only [h1, if_false]
  by_cases h3 : pos = t.v.items.length
  · simp only [h3, if_true]
    rw [proj_rawPushAll, proj_reserve]; rfl
  simp only [h3, if_false]
  by_cases h4 : t.v.items.length + n > t.v.alloc
  · simp only [h4, if_true, Option.map_some]
    have hl : t.v.items.length + n =
        (t.v.items.take pos).length + (t.v.items.drop pos).length + (List.replicate n x).length := by
      simp only [List.length_take, List.length_drop, List.length_replicate]; omega
    rw [hl, Vec.realloc_case]; rfl
  simp only [h4, if_false]
  by_cases h5 : t.v.items.length - pos ≤ n
  · simp only [h5, if_true]
    rw [map_bind_proj (g' := fun v1 => (Vec.pushAll true (t.v.items.drop pos) v1).bind fun v2 =>
      Vec.overwrite v2 pos (List.replicate (t.v.items.length - pos) x)), proj_pushAll]
    intro t1
    rw [map_bind_proj (g' := fun v2 => Vec.overwrite v2 pos (List.replicate (t.v.items.length - pos) x)), proj_pushAll]
    intro t2; exact proj_overwrite ..
  · simp only [h5, if_false]
    rw [map_bind_proj (g' := fun v1 => (Vec.copyBwd v1 pos (pos + n) (t.v.items.length - n - pos)).bind
      fun v2 => Vec.overwrite v2 pos (List.replicate n x)), proj_pushAll]
    intro t1
    rw [map_bind_proj (g' := fun v2 => Vec.overwrite v2 pos (List.replicate n x)), proj_copyBwd]
    intro t2; exact proj_overwrite ..

theorem proj_erase (t : TVec α) (first last : Nat) : (erase t first last).map (·.v) = Vec.erase t.v first last := by
  unfold erase Vec.erase
  by_cases h1 : first > last ∨ last > t.v.items.length
  · simp [h1]
  simp only [h1, if_false]
  by_cases h2 : first = last
  · simp [h2]
  simp only [h2, if_false]
  rw [map_bind_proj (g' := Vec.popN (last - first)) (fun t1 => proj_popN _ t1), proj_copyFwd]

theorem proj_resize (t : TVec α) (n : Nat) (x : α) : (resize t n x).map (·.v) = Vec.resize t.v n x := by
  unfold resize Vec.resize
  by_cases h1 : t.v.items.length > n
  · simp only [h1, if_true]; exact proj_popN _ t
  simp only [h1, if_false]
  by_cases h2 : t.v.items.length < n
  · simp only [h2, if_true]; rw [proj_rawPushAll, proj_reserve]
  · simp [h2]

theorem proj_clear (t : TVec α) : (clear t).map (·.v) = Vec.clear t.v := by
  unfold clear Vec.clear
  by_cases h1 : t.v.items.length > 0
  · simp only [h1, if_true]; exact proj_popN _ t
  · simp [h1]

theorem proj_assign (t : TVec α) (src : List α) : (assign t src).map (·.v) = Vec.assign t.v src := by
  unfold assign Vec.assign
  rw [map_bind_proj (g' := fun c => Vec.insertRange c 0 src) (fun t1 => proj_insertRange t1 0 src), proj_clear]

theorem proj_copyAssign (t : TVec α) (rhs : Vec α) : (copyAssign t rhs).map (·.v) = Vec.copyAssign t.v rhs := by
  unfold copyAssign Vec.copyAssign
  by_cases h1 : t.v.alloc < rhs.items.length
  · simp only [h1, if_true, Option.map_some]
    show some (⟨rhs.items, (Vec.copyWith rhs 0).alloc⟩ : Vec α) = some (Vec.copyWith rhs 0)
    rw [← copyWith_items rhs 0]
  simp only [h1, if_false]
  by_cases h2 : t.v.items.length > rhs.items.length
  · simp only [h2, if_true]
    rw [map_bind_proj (g' := fun v1 => Vec.overwrite v1 0 rhs.items) (fun t1 => proj_overwrite ..), proj_popN]
  simp only [h2, if_false]
  by_cases h3 : t.v.items.length < rhs.items.length
  · simp only [h3, if_true]
    rw [map_bind_proj (g' := fun v1 => Vec.overwrite v1 0 (rhs.items.take t.v.items.length))
      (fun t1 => proj_overwrite ..), proj_insertRange]
  · simp only [h3, if_false]; exact proj_overwrite ..

theorem proj_withValueCopy (t : TVec α) (body : TVec α → Option (TVec α)) (f : Vec α → Option (Vec α))
    (hb : ∀ t1, (body t1).map (·.v) = f t1.v) : (withValueCopy t body).map (·.v) = f t.v := by
  unfold withValueCopy
  simp only [Option.map_map]
  rw [← hb { t with next := t.next + 1, tr := t.tr ++ [.construct t.next 0] }]
  cases body { t with next := t.next + 1, tr := t.tr ++ [.construct t.next 0] } <;> rfl

theorem proj_insertNSelf (t : TVec α) (pos n i : Nat) :
    (insertNSelf t pos n i).map (·.v) = Vec.insertNSelf t.v pos n i := by
  unfold insertNSelf Vec.insertNSelf
  cases t.v.items[i]? with
  | none => rfl
  | some x => exact proj_withValueCopy t _ (fun v => Vec.insertN v pos n x) (fun t1 => proj_insertN t1 pos n x)

theorem proj_resizeSelf (t : TVec α) (n i : Nat) : (resizeSelf t n i).map (·.v) = Vec.resizeSelf t.v n i := by
  unfold resizeSelf Vec.resizeSelf
  cases t.v.items[i]? with
  | none => rfl
  | some x =>
    simp only
    split
    · exact proj_withValueCopy t _ (fun v => Vec.resize v n x) (fun t1 => proj_resize t1 n x)
    · exact proj_resize t n x

theorem proj_pushBackSelf (t : TVec α) (i : Nat) : (pushBackSelf t i).map (·.v) = Vec.pushBackSelf t.v i := by
  unfold pushBackSelf Vec.pushBackSelf
  cases t.v.items[i]? with
  | none => rfl
  | some x => exact proj_pushBack t x

/-! ### which operations leave the buffer where it is (returned iterators stay valid) -/

def Keeps (f : TVec α → Option (TVec α)) : Prop := ∀ t t', f t = some t' → t'.buf = t.buf

theorem keeps_map {f : TVec α → Option (Vec α)} {g : TVec α → Vec α → TVec α} (hg : ∀ t v, (g t v).buf = t.buf) :
    Keeps (fun t => (f t).map (g t)) := by
  intro t t' e
  cases hf : f t with
  | none => simp [hf] at e
  | some v => simp only [hf, Option.map_some, Option.some.injEq] at e; rw [← e]; exact hg t v

theorem keeps_rawPush (x : α) : Keeps (fun t : TVec α => rawPush t x) := keeps_map (fun _ _ => rfl)
theorem keeps_popBack : Keeps (fun t : TVec α => popBack t) := keeps_map (fun _ _ => rfl)
theorem keeps_overwrite (pos : Nat) (seg : List α) : Keeps (fun t : TVec α => overwrite t pos seg) :=
  keeps_map (fun _ _ => rfl)
theorem keeps_assignCell (s d : Nat) : Keeps (fun t : TVec α => assignCell t s d) := keeps_map (fun _ _ => rfl)

theorem keeps_bind {f g : TVec α → Option (TVec α)} (hf : Keeps f) (hg : Keeps g) :
    Keeps (fun t => (f t).bind g) := by
  intro t t' e
  cases hft : f t with
  | none => simp [hft] at e
  | some t1 =>
    simp only [hft, Option.bind_some] at e
    rw [hg t1 t' e, hf t t1 hft]

theorem keeps_popN (n : Nat) : Keeps (fun t : TVec α => popN n t) := by
  induction n with
  | zero => intro t t' e; cases e; rfl
  | succ n ih => exact keeps_bind keeps_popBack ih

theorem keeps_rawPushAll (xs : List α) : Keeps (fun t : TVec α => rawPushAll xs t) := by
  induction xs with
  | nil => intro t t' e; cases e; rfl
  | cons x xs ih => exact keeps_bind (keeps_rawPush x) ih

theorem keeps_copyFwd (n : Nat) : ∀ s d, Keeps (fun t : TVec α => copyFwd t s d n) := by
  induction n with
  | zero => intro s d t t' e; cases e; rfl
  | succ n ih => intro s d; exact keeps_bind (keeps_assignCell s d) (ih (s + 1) (d + 1))

theorem keeps_copyBwd (n : Nat) : ∀ s d, Keeps (fun t : TVec α => copyBwd t s d n) := by
  induction n with
  | zero => intro s d t t' e; cases e; rfl
  | succ n ih => intro s d; exact keeps_bind (keeps_assignCell (s + n) (d + n)) (ih s d)

/-- `pushAll` with live iterators of the caller (`stable`) succeeds only while nothing re-allocates -/
theorem keeps_pushAll_stable (xs : List α) : Keeps (fun t : TVec α => pushAll true xs t) := by
  induction xs with
  | nil => intro t t' e; cases e; rfl
  | cons x xs ih =>
    intro t t' e
    simp only [pushAll] at e
    cases hd : doPushBack t x with
    | none => simp [hd] at e
    | some r =>
      obtain ⟨t1, m⟩ := r
      simp only [hd] at e
      cases m with
      | true => simp at e
      | false =>
        simp only [Bool.and_false, Bool.false_eq_true, if_false] at e
        rw [ih t1 t' e]
        -- not moved: the element was constructed in place
        unfold doPushBack at hd
        split at hd
        · cases hr : rawPush t x with
          | none => simp [hr] at hd
          | some t2 =>
            simp only [hr, Option.map_some, Option.some.injEq, Prod.mk.injEq] at hd
            rw [← hd.1]; exact keeps_rawPush x t t2 hr
        · split at hd <;> simp at hd

/-- `erase` never moves the buffer -/
theorem keeps_erase (first last : Nat) : Keeps (fun t : TVec α => erase t first last) := by
  intro t t' e
  have e' : erase t first last = some t' := e
  unfold erase at e'
  split at e'
  · cases e'
  split at e'
  · cases e'; rfl
  · exact keeps_bind (keeps_copyFwd _ _ _) (keeps_popN _) t t' e'

/-- an insertion of `n` copies that fits into the spare capacity does not move the buffer -/
theorem keeps_insertN_room (pos n : Nat) (x : α) (t t' : TVec α) (hroom : t.v.items.length + n ≤ t.v.alloc)
    (e : insertN t pos n x = some t') : t'.buf = t.buf := by
  unfold insertN at e
  have hno : ¬ t.v.items.length + n > t.v.alloc := by omega
  by_cases h1 : pos > t.v.items.length
  · simp [h1] at e
  simp only [h1, if_false] at e
  by_cases h2 : pos = t.v.items.length
  · simp only [h2, if_true] at e
    have hr : reserve t (t.v.items.length + n) = t := by simp [reserve, hno]
    rw [hr] at e
    exact keeps_rawPushAll _ t t' e
  simp only [h2, hno, if_false] at e
  by_cases h3 : t.v.items.length - pos ≤ n
  · simp only [h3, if_true] at e
    exact keeps_bind (keeps_pushAll_stable _) (keeps_bind (keeps_pushAll_stable _) (keeps_overwrite pos _)) t t' e
  · simp only [h3, if_false] at e
    exact keeps_bind (keeps_pushAll_stable _) (keeps_bind (keeps_copyBwd _ _ _) (keeps_overwrite pos _)) t t' e

/-- **insert(position, value)** returns an iterator to the inserted element — never one into a released buffer —
at every fill level, `size == capacity` included -/
theorem insertOneRet_spec (t t' : TVec α) (pos : Nat) (x : α) (r : Option Nat)
    (e : insertOneRet t pos x = some (t', r)) : r = some pos ∧ insertN t pos 1 x = some t' := by
  unfold insertOneRet at e
  split at e
  · rename_i hroom
    cases hi : insertN t pos 1 x with
    | none => simp [hi] at e
    | some t1 =>
      simp only [hi, Option.map_some, Option.some.injEq, Prod.mk.injEq] at e
      obtain ⟨rfl, hr⟩ := e
      have := keeps_insertN_room pos 1 x t t1 (by omega) hi
      simp only [this, if_true] at hr
      exact ⟨hr.symm, rfl⟩
  · cases hi : insertN t pos 1 x with
    | none => simp [hi] at e
    | some t1 =>
      simp only [hi, Option.map_some, Option.some.injEq, Prod.mk.injEq] at e
      exact ⟨e.2.symm, by rw [e.1]⟩

/-- **erase(first, last)** returns `first`, an iterator into the (unmoved) buffer -/
theorem eraseRet_spec (t t' : TVec α) (first last : Nat) (r : Option Nat)
    (e : eraseRet t first last = some (t', r)) : r = some first ∧ erase t first last = some t' := by
  unfold eraseRet at e
  cases he : erase t first last with
  | none => simp [he] at e
  | some t1 =>
    simp only [he, Option.map_some, Option.some.injEq, Prod.mk.injEq] at e
    obtain ⟨rfl, hr⟩ := e
    have := keeps_erase first last t t1 he
    simp only [this, if_true] at hr
    exact ⟨hr.symm, rfl⟩

end TVec
end XalanModel.Containers
