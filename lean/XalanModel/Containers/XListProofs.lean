import XalanModel.Containers.XList
/-!
Helper lemmas for `XalanList` (property C20): node identities (iterators) are stable, the free list
and the live nodes never share a node, ids come from the shared allocation counter.
-/
namespace XalanModel.Containers.XL
variable {α : Type}

/-- node bookkeeping invariant (relative to the shared allocation counter `next`) -/
structure Inv (l : XL α) (next : Nat) : Prop where
  live_nodup : (l.live.map (·.1)).Nodup
  free_nodup : l.free.Nodup
  disjoint : ∀ p ∈ l.live, p.1 ∉ l.free
  fresh_l : ∀ p ∈ l.live, p.1 < next
  fresh_f : ∀ id ∈ l.free, id < next

theorem inv_mono {l : XL α} {n n' : Nat} (h : Inv l n) (hn : n ≤ n') : Inv l n' :=
  ⟨h.live_nodup, h.free_nodup, h.disjoint, fun p hp => Nat.lt_of_lt_of_le (h.fresh_l p hp) hn,
   fun i hi => Nat.lt_of_lt_of_le (h.fresh_f i hi) hn⟩

theorem nodup_insert_mid {xs : List Nat} (i : Nat) (y : Nat) (h : xs.Nodup) (hy : y ∉ xs) :
    (xs.take i ++ [y] ++ xs.drop i).Nodup := by
  have hs : xs.take i ++ xs.drop i = xs := List.take_append_drop i xs
  rw [← hs, List.nodup_append] at h
  rw [List.append_assoc, List.nodup_append]
  refine ⟨h.1, ?_, ?_⟩
  · rw [List.singleton_append, List.nodup_cons]
    exact ⟨fun hin => hy (List.mem_of_mem_drop hin), h.2.1⟩
  · intro a ha b hb
    rcases List.mem_append.mp hb with h1 | h1
    · have : b = y := by simpa using h1
      rw [this]; intro heq; exact hy (heq ▸ List.mem_of_mem_take ha)
    · exact h.2.2 a ha b h1

/-- **constructNode**: the element sequence gets `x` at the position, every existing node keeps its
identity and value (iterators stay valid), the invariant holds for the returned counter. -/
theorem constructNode_spec (l : XL α) (next : Nat) (x : α) (pos : LPos) (i : Nat) (h : Inv l next)
    (hi : l.touch.indexOf pos = some i) :
    ∃ l' next' id, l.constructNode next x pos = some (l', next', id) ∧ Inv l' next' ∧ next ≤ next' ∧
      l'.live = l.live.take i ++ [(id, x)] ++ l.live.drop i ∧ (∀ p ∈ l.live, p ∈ l'.live) := by
  unfold constructNode
  simp only [hi, Option.map_some]
  have hmem : ∀ (id : Nat) (p : Nat × α), p ∈ l.live → p ∈ l.live.take i ++ [(id, x)] ++ l.live.drop i := by
    intro id p hp
    rw [← List.take_append_drop i l.live] at hp
    rcases List.mem_append.mp hp with h1 | h1
    · exact List.mem_append_left _ (List.mem_append_left _ h1)
    · exact List.mem_append_right _ h1
  have hmem' : ∀ (id : Nat) (p : Nat × α), p ∈ l.live.take i ++ [(id, x)] ++ l.live.drop i → p = (id, x) ∨ p ∈ l.live := by
    intro id p hp
    rcases List.mem_append.mp hp with h1 | h1
    · rcases List.mem_append.mp h1 with h2 | h2
      · exact Or.inr (List.mem_of_mem_take h2)
      · left; simpa using h2
    · exact Or.inr (List.mem_of_mem_drop h1)
  have hmap : ∀ id : Nat, (l.live.take i ++ [(id, x)] ++ l.live.drop i).map (·.1) =
      (l.live.map (·.1)).take i ++ [id] ++ (l.live.map (·.1)).drop i := by
    intro id; simp [List.map_take, List.map_drop]
  cases hf : l.free with
  | nil =>
    have : l.touch.free = [] := hf
    simp only [this]
    refine ⟨_, _, _, rfl, ?_, Nat.le_succ _, rfl, hmem next⟩
    refine ⟨?_, by simp [touch, hf], ?_, ?_, ?_⟩
    · show ((l.live.take i ++ [(next, x)] ++ l.live.drop i).map (·.1)).Nodup
      rw [hmap]
      apply nodup_insert_mid _ _ h.live_nodup
      intro hin
      obtain ⟨p, hp, hpe⟩ := List.mem_map.mp hin
      have := h.fresh_l p hp; omega
    · intro p _ hin; simp [touch, hf] at hin
    · intro p hp
      rcases hmem' next p hp with h1 | h1
      · rw [h1]; exact Nat.lt_succ_self _
      · exact Nat.lt_succ_of_lt (h.fresh_l p h1)
    · intro id hid; simp [touch, hf] at hid
  | cons f rest =>
    have : l.touch.free = f :: rest := hf
    simp only [this]
    have hfn := h.free_nodup
    rw [hf, List.nodup_cons] at hfn
    refine ⟨_, _, _, rfl, ?_, Nat.le_refl _, rfl, hmem f⟩
    refine ⟨?_, hfn.2, ?_, ?_, ?_⟩
    · show ((l.live.take i ++ [(f, x)] ++ l.live.drop i).map (·.1)).Nodup
      rw [hmap]
      apply nodup_insert_mid _ _ h.live_nodup
      intro hin
      obtain ⟨p, hp, hpe⟩ := List.mem_map.mp hin
      exact h.disjoint p hp (by rw [hf, hpe]; exact List.mem_cons_self ..)
    · intro p hp hin
      rcases hmem' f p hp with h1 | h1
      · rw [h1] at hin; exact hfn.1 hin
      · exact h.disjoint p h1 (by rw [hf]; exact List.mem_cons_of_mem _ hin)
    · intro p hp
      rcases hmem' f p hp with h1 | h1
      · rw [h1]; exact h.fresh_f f (by rw [hf]; exact List.mem_cons_self ..)
      · exact h.fresh_l p h1
    · intro id hid; exact h.fresh_f id (by rw [hf]; exact List.mem_cons_of_mem _ hid)

/-- **erase(pos)** (`freeNode`): exactly that node leaves the sequence and becomes the head of the
free list; every other node keeps identity and value. -/
theorem erase_spec (l : XL α) (next id i : Nat) (h : Inv l next) (hi : l.indexOf (.node id) = some i) :
    ∃ l', l.erase (.node id) = some l' ∧ Inv l' next ∧ l'.live = l.live.eraseIdx i ∧ l'.free = id :: l.free ∧
      (∀ p ∈ l.live, p.1 ≠ id → p ∈ l'.live) := by
  unfold erase
  simp only [hi, Option.map_some]
  -- the index found is the position of the node with that id
  have hlt : i < l.live.length ∧ (l.live[i]?).map (·.1) = some id := by
    have hi' : l.indexOf (.node id) = some i := hi
    revert hi'
    simp only [indexOf]
    intro hi
    by_cases hlt : List.findIdx (fun p => p.fst == id) l.live < l.live.length
    · rw [if_pos hlt] at hi
      simp only [Option.some.injEq] at hi
      subst hi
      refine ⟨hlt, ?_⟩
      have := List.findIdx_getElem (w := hlt)
      simp only [List.getElem?_eq_getElem hlt, Option.map_some]
      simpa using this
    · rw [if_neg hlt] at hi; cases hi
  obtain ⟨hlt, hget⟩ := hlt
  have hgi : (l.live[i]).1 = id := by
    rw [List.getElem?_eq_getElem hlt] at hget; simpa using hget
  have hsub : (l.live.eraseIdx i).Sublist l.live := List.eraseIdx_sublist ..
  have hnot : ∀ p ∈ l.live.eraseIdx i, p.1 ≠ id := by
    intro p hp heq
    -- ids are distinct, the node with this id sits at index i only
    have hnd := h.live_nodup
    rw [List.eraseIdx_eq_take_drop_succ] at hp
    have hsplit : l.live = l.live.take i ++ l.live[i] :: l.live.drop (i + 1) := by
      rw [List.getElem_cons_drop hlt, List.take_append_drop]
    rw [hsplit, List.map_append, List.map_cons, List.nodup_append] at hnd
    rcases List.mem_append.mp hp with h1 | h1
    · exact hnd.2.2 p.1 (List.mem_map_of_mem h1) (l.live[i]).1 (List.mem_cons_self ..) (by rw [heq, hgi])
    · have := (List.nodup_cons.mp hnd.2.1).1
      apply this; rw [hgi, ← heq]; exact List.mem_map_of_mem h1
  refine ⟨_, rfl, ?_, rfl, rfl, ?_⟩
  · refine ⟨List.Nodup.sublist (hsub.map _) h.live_nodup, ?_, ?_, ?_, ?_⟩
    · show (id :: l.free).Nodup
      rw [List.nodup_cons]
      refine ⟨?_, h.free_nodup⟩
      intro hin
      exact h.disjoint _ (List.getElem_mem hlt) (hgi ▸ hin)
    · intro p hp hin
      rcases List.mem_cons.mp (show p.1 ∈ id :: l.free from hin) with h1 | h1
      · exact hnot p hp h1
      · exact h.disjoint p (hsub.subset hp) h1
    · intro p hp; exact h.fresh_l p (hsub.subset hp)
    · intro j hj
      rcases List.mem_cons.mp (show j ∈ id :: l.free from hj) with h1 | h1
      · rw [h1, ← hgi]; exact h.fresh_l _ (List.getElem_mem hlt)
      · exact h.fresh_f j h1
  · intro p hp hne
    show p ∈ l.live.eraseIdx i
    rw [List.eraseIdx_eq_take_drop_succ]
    have hsplit : l.live = l.live.take i ++ l.live[i] :: l.live.drop (i + 1) := by
      rw [List.getElem_cons_drop hlt, List.take_append_drop]
    rw [hsplit] at hp
    rcases List.mem_append.mp hp with h1 | h1
    · exact List.mem_append_left _ h1
    · rcases List.mem_cons.mp h1 with h2 | h2
      · exact absurd (h2 ▸ hgi) hne
      · exact List.mem_append_right _ h2

/-- **clear()**: every node goes to the free list, none is lost or duplicated -/
theorem clear_spec (l : XL α) (next : Nat) (h : Inv l next) :
    Inv l.clear next ∧ l.clear.live = [] ∧ l.clear.free.length = l.live.length + l.free.length := by
  refine ⟨⟨by simp [clear], ?_, ?_, ?_, ?_⟩, rfl, by simp [clear]⟩
  · show ((l.live.map (·.1)).reverse ++ l.free).Nodup
    rw [List.nodup_append]
    refine ⟨(List.reverse_perm _).nodup_iff.mpr h.live_nodup, h.free_nodup, ?_⟩
    intro a ha b hb heq
    obtain ⟨p, hp, rfl⟩ := List.mem_map.mp (List.mem_reverse.mp ha)
    exact h.disjoint p hp (heq ▸ hb)
  · intro p hp; cases hp
  · intro p hp; cases hp
  · intro id hid
    rcases List.mem_append.mp (show id ∈ (l.live.map (·.1)).reverse ++ l.free from hid) with h1 | h1
    · obtain ⟨p, hp, rfl⟩ := List.mem_map.mp (List.mem_reverse.mp h1)
      exact h.fresh_l p hp
    · exact h.fresh_f id h1

end XalanModel.Containers.XL
