import XalanModel.Containers.Vector
/-
Model of `XalanDOMString` (src/xalanc/XalanDOM/XalanDOMString.{hpp,cpp}) as written: the member
`m_data : XalanVector<XalanDOMChar>` (the model `Vec Nat` of `Vector.lean`, so every mutator below
runs through the transcribed XalanVector code paths and inherits their memory checks) and the
separately tracked `m_size`.  `m_data` is either empty or holds the characters followed by one
terminating 0.

`none` = undefined behaviour (a memory error of the underlying vector, an index past the buffer).
Three places follow the *repaired* source (see proposed/C20-domstring-*.diff); the unrepaired code
is kept next to them as `…AsWritten` for the counterexample theorems:
* `resize` (growing a non-empty buffer left the old terminator inside the string),
* `append(const XalanDOMChar*, npos)` on a non-empty buffer (`m_size += theCount` with `npos`),
* `substr(…, pos, npos)` (asked `assign` for `length()` characters from `pos`).
Core Lean only.
-/
namespace XalanModel.Containers

structure DStr where
  data : Vec Nat := Vec.empty
  size : Nat := 0
deriving Repr, DecidableEq

namespace DStr

/-- the characters `c_str()[0 … length())` -/
def chars (s : DStr) : List Nat := s.data.items.take s.size

/-- `invariants()` of the class (both asserts) -/
def Inv (s : DStr) : Prop :=
  s.data.Inv ∧ ((s.data.items = [] ∧ s.size = 0) ∨ (s.size + 1 = s.data.items.length ∧ s.data.items.getLast? = some 0))

instance (s : DStr) : Decidable s.Inv := by unfold Inv; infer_instance

/-- `capacity()` -/
def capacity (s : DStr) : Nat := if s.data.alloc = 0 then 0 else s.data.alloc - 1

/-- `m_data.back() = 0` -/
def setBack0 (v : Vec Nat) : Option (Vec Nat) :=
  if v.items.length = 0 then none else Vec.overwrite v (v.items.length - 1) [0]

/-- `append(const XalanDOMChar* theString, theCount)` with an explicit count (`theLength = theCount`) -/
def append (s : DStr) (xs : List Nat) : Option DStr :=
  if xs.length = 0 then some s
  else if s.data.items.length = 0 then
    (Vec.insertRange (Vec.reserve s.data (xs.length + 1)) 0 xs).bind fun v1 =>
    (Vec.pushBack v1 0).map fun v2 => ⟨v2, xs.length⟩
  else
    (Vec.insertRange s.data (s.data.items.length - 1) xs).map fun v1 => ⟨v1, s.size + xs.length⟩

/-- `append(theCount, theChar)` -/
def appendN (s : DStr) (n c : Nat) : Option DStr :=
  if s.data.items.length = 0 then
    (Vec.insertN s.data 0 (n + 1) c).bind fun v1 => (setBack0 v1).map fun v2 => ⟨v2, n⟩
  else
    (Vec.insertN s.data (s.data.items.length - 1) n c).map fun v1 => ⟨v1, s.size + n⟩

/-- `erase(theStartPosition, theCount)` (string form; `count = none` is `npos`) -/
def erase (s : DStr) (start : Nat) (count : Option Nat) : Option DStr :=
  let actual := match count with | none => s.size - start | some c => c
  let all := match count with | none => true | some c => decide (c ≥ s.size)
  if start = 0 ∧ all = true then
    (Vec.erase s.data 0 s.data.items.length).map fun v => ⟨v, 0⟩
  else
    (Vec.erase s.data start (start + actual)).map fun v =>
      if v.items.length < 2 then ⟨v, 0⟩ else ⟨v, v.items.length - 1⟩

/-- `erase(iterator)`: `m_data.erase(pos); --m_size` -/
def eraseAt (s : DStr) (pos : Nat) : Option DStr :=
  if s.size = 0 then none
  else (Vec.erase s.data pos (pos + 1)).map fun v => ⟨v, s.size - 1⟩

/-- `clear()` -/
def clear (s : DStr) : Option DStr :=
  (Vec.erase s.data 0 s.data.items.length).map fun v => ⟨v, 0⟩

/-- `assign(theCount, theChar)` = `erase(); append(theCount, theChar)` -/
def assignN (s : DStr) (n c : Nat) : Option DStr := (erase s 0 none).bind fun s1 => appendN s1 n c

/-- `insert(thePosition, theString, theCount)` -/
def insert (s : DStr) (pos : Nat) (xs : List Nat) : Option DStr :=
  if s.data.items.length = 0 then append s xs
  else (Vec.insertRange s.data pos xs).map fun v => ⟨v, s.size + xs.length⟩

/-- `insert(thePosition, theCount, theChar)` -/
def insertN (s : DStr) (pos n c : Nat) : Option DStr :=
  if s.data.items.length = 0 then assignN s n c
  else (Vec.insertN s.data pos n c).map fun v => ⟨v, s.size + n⟩

/-- `push_back(ch)` = `append(1, ch)` -/
def pushBack (s : DStr) (c : Nat) : Option DStr := appendN s 1 c

/-- `resize(theCount, theChar)` after the repair: the old terminator cell receives `theChar` first. -/
def resize (s : DStr) (n c : Nat) : Option DStr :=
  if n = s.size then some s
  else
    (if s.data.items.length = 0 then some s.data else Vec.overwrite s.data (s.data.items.length - 1) [c]).bind fun v0 =>
    (Vec.resize v0 (n + 1) c).bind fun v1 => (setBack0 v1).map fun v2 => ⟨v2, n⟩

/-- `resize` **as written in the unrepaired source** (both branches identical) -/
def resizeAsWritten (s : DStr) (n c : Nat) : Option DStr :=
  if n = s.size then some s
  else (Vec.resize s.data (n + 1) c).bind fun v1 => (setBack0 v1).map fun v2 => ⟨v2, n⟩

/-- `reserve(theCount)` -/
def reserve (s : DStr) (n : Nat) : DStr := { s with data := Vec.reserve s.data (n + 1) }

/-- `assign(const XalanDOMString& theSource)` for `&theSource != this`: `m_data = theSource.m_data` -/
def assign (s src : DStr) : Option DStr :=
  (Vec.copyAssign s.data src.data).map fun v => ⟨v, src.size⟩

/-- `assign(theSource, thePosition, theCount)` for `&theSource != this`
(`assert(thePosition < theSource.size() && thePosition + theCount <= theSource.size())`) -/
def assignSub (s src : DStr) (pos count : Nat) : Option DStr :=
  if ¬ (pos < src.size ∧ pos + count ≤ src.size) then none
  else (erase s 0 none).bind fun s1 => append s1 ((src.chars.drop pos).take count)

/-- `assign(*this, thePosition, theCount)`: the self-assignment branch (memmove, then `resize`) -/
def assignSelfSub (s : DStr) (pos count : Nat) : Option DStr :=
  if ¬ (pos < s.size ∧ pos + count ≤ s.size) then none
  else if pos = 0 then (if count ≠ s.size then resize s count 0 else some s)
  else (Vec.overwrite s.data 0 ((s.data.items.drop pos).take count)).bind fun v => resize ⟨v, s.size⟩ count 0

/-- `theString.substr(theSubstring, thePosition, theCount)` into a different string, after the repair
(`npos` means "to the end") -/
def substrInto (s dst : DStr) (pos : Nat) (count : Option Nat) : Option DStr :=
  assignSub dst s pos (match count with | none => s.size - pos | some c => c)

/-- … **as written**: `npos` is replaced by `length()`, not `length() - thePosition`; the call reads
`length()` characters starting at `pos`, i.e. past the terminator (beyond the buffer when
`pos ≥ 2` and the buffer is full).  `none` when the read leaves the buffer. -/
def substrIntoAsWritten (s dst : DStr) (pos : Nat) (count : Option Nat) : Option DStr :=
  let c := match count with | none => s.size | some c => c
  if pos + c > s.data.items.length then none
  else (erase dst 0 none).bind fun d1 => append d1 ((s.data.items.drop pos).take c)

/-- `append(theSource, thePosition, theCount)` (`count = none` is `npos`): forwards to
`append(theSource.c_str() + thePosition, theCount)`, where `npos` means "up to the first 0"
(`length(theString)`).  After the repair `m_size` grows by the computed length. -/
def appendSub (s src : DStr) (pos : Nat) (count : Option Nat) : Option DStr :=
  let okc := match count with | none => true | some c => decide (pos + c ≤ src.size)
  if ¬ (pos < src.size ∧ okc = true) then none
  else
    let xs := match count with
      | none => (src.data.items.drop pos).takeWhile (· ≠ 0)
      | some c => (src.data.items.drop pos).take c
    append s xs

/-- … **as written**: in the non-empty branch `m_size += theCount`, with `theCount == npos == 2^64-1`. -/
def appendSubAsWritten (s src : DStr) (pos : Nat) (count : Option Nat) : Option DStr :=
  (appendSub s src pos count).map fun r =>
    match count with
    | none => if s.data.items.length = 0 ∨ r.data.items.length = s.data.items.length then r
              else { r with size := (s.size + (2^64 - 1)) % 2^64 }
    | some _ => r

/-- `erase(iterator theFirst, iterator theLast)` after the repair `proposed/C20-domstring-erase-range.diff`
(`m_size = m_data.size() - 1` only when there is a buffer) -/
def eraseRange (s : DStr) (a b : Nat) : Option DStr :=
  (Vec.erase s.data a b).map fun v => ⟨v, if v.items.length = 0 then 0 else v.items.length - 1⟩

/-- … **as written**: `m_size = m_data.size() - 1` in `size_t` arithmetic, also for a string that has
no buffer (`erase(begin(), end())` on a default-constructed string). -/
def eraseRangeAsWritten (s : DStr) (a b : Nat) : Option DStr :=
  (Vec.erase s.data a b).map fun v => ⟨v, (v.items.length + (2^64 - 1)) % 2^64⟩

/-- `assign(iterator theFirst, iterator theLast)` with the range outside this string -/
def assignIt (s : DStr) (xs : List Nat) : Option DStr :=
  (Vec.assign (Vec.reserve s.data (xs.length + 1)) xs).bind fun v1 =>
  (Vec.pushBack v1 0).map fun v2 => ⟨v2, v2.items.length - 1⟩

/-- `insert(iterator thePosition, theChar)` with the returned iterator (as an index into the string) -/
def insertAt (s : DStr) (pos c : Nat) : Option (DStr × Nat) :=
  if s.data.items.length = 0 then (assignN s 1 c).map (·, 0)
  else (Vec.insertOne s.data pos c).map fun v => (⟨v, s.size + 1⟩, pos)

/-- the iterators returned by `erase(iterator)` and `erase(iterator, iterator)`: the position following the
removed units -/
def eraseAtRet (s : DStr) (pos : Nat) : Option (DStr × Nat) := (eraseAt s pos).map (·, pos)

/-- `operator[]` -/
def get (s : DStr) (i : Nat) : Option Nat := s.data.items[i]?

end DStr
end XalanModel.Containers
