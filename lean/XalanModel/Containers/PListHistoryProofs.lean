/-
`XalanList` at pointer level: a *history* theorem.  Every sequence of `push_back`, `push_front`,
`pop_front`, `pop_back` and `clear()` calls on one list object — starting from the freshly constructed
object (no head node, no free chain) in any heap — run through the executable pointer code of
`PList.lean` never dereferences an invalid pointer, keeps the heap well formed, and the values read by
following `next` from the head node are exactly the `List` the same calls produce on `std::list`
(`none` where the standard leaves the call undefined: `pop_*` on an empty list).
It composes `constructNode_refines` (recycled node), `constructNode_alloc_refines` (fresh node),
`constructNode_first_refines` (lazy head), `freeNode_refines` and `clear_refines`.
Core Lean only.
-/
import XalanModel.Containers.PListClearProofs
import XalanModel.Containers.PListAllocProofs

namespace XalanModel.Containers
namespace PL
variable {α : Type}

/-- the state between calls: still the untouched object, or a well-formed ring whose values are `s` -/
def Rep (h : PHeap α) (l : PL) (s : List α) : Prop :=
  h.nodes.length ≠ 0 ∧
  ((l.head = 0 ∧ l.free = 0 ∧ s = []) ∨ ∃ ns fs, PWF h l ns fs ∧ ns.map h.valOf = s.map some)

theorem map_val_congr {h h' : PHeap α} {ns : List Nat} (hv : ∀ n ∈ ns, h'.valOf n = h.valOf n) :
    ns.map h'.valOf = ns.map h.valOf := List.map_congr_left hv

theorem pwf_lt {h : PHeap α} {l : PL} {ns fs : List Nat} (w : PWF h l ns fs) {n : Nat} (hn : n ∈ ns) :
    n < h.nodes.length := (w.valid n (by simp [hn])).2

theorem pwf_not_mem {h : PHeap α} {l : PL} {A B fs : List Nat} {m : Nat} (w : PWF h l (A ++ m :: B) fs) :
    m ∉ A ∧ m ∉ B ∧ m ≠ l.head ∧ m ≠ 0 := by
  have hnd := w.nodup
  have hv := w.valid m (by simp)
  have h1 : (l.head :: A ++ m :: (B ++ fs)).Nodup := by simpa [List.append_assoc] using hnd
  have h2 := List.nodup_append.mp h1
  have h3 := List.nodup_cons.mp h2.2.1
  refine ⟨fun hA => h2.2.2 m (List.mem_cons_of_mem _ hA) m (List.mem_cons_self ..) rfl,
    fun hB => h3.1 (List.mem_append_left _ hB),
    fun e => h2.2.2 l.head (List.mem_cons_self ..) m (List.mem_cons_self ..) e.symm, hv.1⟩

theorem pwf_prev_head {h : PHeap α} {l : PL} {A fs : List Nat} {m : Nat} (w : PWF h l (A ++ [m]) fs) :
    h.prevOf l.head = m := by
  have := w.bwd
  simp only [List.reverse_append, List.reverse_cons, List.reverse_nil, List.nil_append, List.cons_append, lseg]
    at this
  exact this.2.1

theorem hB_of (hd : Nat) (B : List Nat) : ∃ P', hd :: B.reverse = P' ++ [firstOr B hd] := by
  cases B with
  | nil => exact ⟨[], by simp [firstOr]⟩
  | cons b B' => exact ⟨hd :: B'.reverse, by simp [firstOr]⟩

/-- following `next` visits exactly the segment (enough fuel) -/
theorem walk_lseg (h : PHeap α) (stop : Nat) (ns : List Nat) : ∀ (a fuel : Nat), lseg h.nextOf a ns stop →
    (∀ n ∈ ns, n ≠ stop ∧ n ≠ 0) → ns.length ≤ fuel → walk h stop fuel a = ns := by
  induction ns with
  | nil =>
    intro a fuel hl _ _
    have : a = stop := by simpa [lseg] using hl
    cases fuel <;> simp [walk, this]
  | cons n t ih =>
    intro a fuel hl hne hf
    obtain ⟨f, rfl⟩ : ∃ f, fuel = f + 1 := ⟨fuel - 1, by simp at hf; omega⟩
    obtain ⟨rfl, hl'⟩ : a = n ∧ lseg h.nextOf (h.nextOf n) t stop := by simpa [lseg] using hl
    have h1 := hne a (by simp)
    simp only [walk, h1.1, h1.2, or_self, if_false, List.cons.injEq, true_and]
    exact ih _ f hl' (fun x hx => hne x (List.mem_cons_of_mem _ hx)) (by simp at hf; omega)

/-- `begin()` … `end()` of a well-formed list enumerates exactly its linked nodes -/
theorem nodesOf_of_pwf {h : PHeap α} {l : PL} {ns fs : List Nat} (w : PWF h l ns fs) : nodesOf h l = ns := by
  unfold nodesOf
  rw [if_neg w.head_ne]
  have hnd : ns.Nodup ∧ l.head ∉ ns := by
    have := w.nodup
    simp only [List.nodup_cons, List.nodup_append, List.mem_append, not_or] at this
    exact ⟨this.2.1, this.1.1⟩
  have hl : lseg h.nextOf (h.nextOf l.head) ns l.head := by
    have := w.fwd
    simp only [lseg, true_and] at this
    exact this
  apply walk_lseg h l.head ns _ _ hl
  · intro n hn
    exact ⟨fun e => hnd.2 (e ▸ hn), (w.valid n (by simp [hn])).1⟩
  · exact nodup_length_le hnd.1 (fun a ha => (w.valid a (by simp [ha])).2)

theorem posAt_pwf {h : PHeap α} {l : PL} {ns fs : List Nat} (w : PWF h l ns fs) (idx : Nat) (hi : idx ≤ ns.length) :
    posAt h l idx = some (firstOr (ns.drop idx) l.head) := by
  unfold posAt
  simp only [nodesOf_of_pwf w, endPos, firstOr, List.head?_drop]
  by_cases he : idx = ns.length
  · simp [he]
  · have hlt : idx < ns.length := by omega
    simp [he, List.getElem?_eq_getElem hlt]

theorem map_take_some {β : Type} {ns : List Nat} {f : Nat → Option β} {s : List β} (hc : ns.map f = s.map some) (i : Nat) :
    (ns.take i).map f = (s.take i).map some ∧ (ns.drop i).map f = (s.drop i).map some := by
  refine ⟨by rw [List.map_take, List.map_take, hc], by rw [List.map_drop, List.map_drop, hc]⟩

theorem pwf_mem_not_free {h : PHeap α} {l : PL} {ns fs : List Nat} (w : PWF h l ns fs) {m : Nat} (hm : m ∈ fs) :
    m ∉ ns := by
  have := w.nodup
  simp only [List.nodup_cons, List.nodup_append] at this
  intro hin; exact this.2.2.2 m hin m hm rfl

/-- one call preserves the representation -/
theorem pstep_refines (h : PHeap α) (l : PL) (s s' : List α) (op : POp α) (r : Rep h l s)
    (hs : pspecStep s op = some s') : ∃ h' l', pstep h l op = some (h', l') ∧ Rep h' l' s' := by
  obtain ⟨hlen, r⟩ := r
  cases op with
  | pushBack x =>
    simp only [pspecStep, Option.some.injEq] at hs; subst hs
    rcases r with ⟨hh, hf, rfl⟩ | ⟨ns, fs, w, hc⟩
    · obtain ⟨h', l', hcn, w', _, hv, _, hl⟩ := constructNode_first_refines h l x hh hf hlen
      refine ⟨h', l', by simp [pstep, endPos, hh, hcn], by omega, Or.inr ⟨_, _, w', by simp [hv]⟩⟩
    · cases fs with
      | nil =>
        obtain ⟨h', l', hcn, w', _, hv, hvo, hl⟩ :=
          constructNode_alloc_refines h l x ns [] l.head [] (by simpa using w) (by simp)
        refine ⟨h', l', by simp [pstep, endPos, hcn], by omega, Or.inr ⟨_, _, w', ?_⟩⟩
        rw [List.map_append, List.map_append, map_val_congr (fun n hn => hvo n (pwf_lt w hn)), hc]
        simp [hv]
      | cons m fs' =>
        obtain ⟨h', l', hcn, w', _, hv, hvo, hl⟩ :=
          constructNode_refines h l x ns [] fs' m l.head [] (by simpa using w) (by simp)
        have hm : m ∉ ns := by
          have := w.nodup
          simp only [List.nodup_cons, List.nodup_append, List.mem_append, List.mem_cons, not_or] at this
          intro hin; exact this.2.2.2 m hin m (Or.inl rfl) rfl
        refine ⟨h', l', by simp [pstep, endPos, hcn], by omega, Or.inr ⟨_, _, w', ?_⟩⟩
        rw [List.map_append, List.map_append,
          map_val_congr (fun n hn => hvo n (fun e => hm (e ▸ hn))), hc]
        simp [hv]
  | pushFront x =>
    simp only [pspecStep, Option.some.injEq] at hs; subst hs
    rcases r with ⟨hh, hf, rfl⟩ | ⟨ns, fs, w, hc⟩
    · obtain ⟨h', l', hcn, w', _, hv, _, hl⟩ := constructNode_first_refines h l x hh hf hlen
      refine ⟨h', l', by simp [pstep, beginPos, hh, hcn], by omega, Or.inr ⟨_, _, w', by simp [hv]⟩⟩
    · obtain ⟨P', hB⟩ := hB_of l.head ns
      have hbeg : beginPos h l = firstOr ns l.head := by
        unfold beginPos; rw [if_neg w.head_ne, pwf_begin w]
      cases fs with
      | nil =>
        obtain ⟨h', l', hcn, w', _, hv, hvo, hl⟩ :=
          constructNode_alloc_refines h l x [] ns (firstOr ns l.head) P' (by simpa using w) hB
        refine ⟨h', l', by simp [pstep, hbeg, hcn], by omega, Or.inr ⟨_, _, w', ?_⟩⟩
        simp only [List.nil_append, List.map_cons, hv]
        rw [map_val_congr (fun n hn => hvo n (pwf_lt w hn)), hc]
      | cons m fs' =>
        obtain ⟨h', l', hcn, w', _, hv, hvo, hl⟩ :=
          constructNode_refines h l x [] ns fs' m (firstOr ns l.head) P' (by simpa using w) hB
        have hm : m ∉ ns := by
          have := w.nodup
          simp only [List.nodup_cons, List.nodup_append, List.mem_append, List.mem_cons, not_or] at this
          intro hin; exact this.2.2.2 m hin m (Or.inl rfl) rfl
        refine ⟨h', l', by simp [pstep, hbeg, hcn], by omega, Or.inr ⟨_, _, w', ?_⟩⟩
        simp only [List.nil_append, List.map_cons, hv]
        rw [map_val_congr (fun n hn => hvo n (fun e => hm (e ▸ hn))), hc]
  | popFront =>
    simp only [pspecStep] at hs
    split at hs
    · cases hs
    · rename_i hne
      simp only [Option.some.injEq] at hs; subst hs
      rcases r with ⟨_, _, rfl⟩ | ⟨ns, fs, w, hc⟩
      · exact absurd rfl hne
      · cases ns with
        | nil => cases s with
          | nil => exact absurd rfl hne
          | cons _ _ => simp at hc
        | cons m B =>
          obtain ⟨P', hB⟩ := hB_of l.head B
          have hbeg : beginPos h l = m := by
            unfold beginPos; rw [if_neg w.head_ne, pwf_begin w]; simp [firstOr]
          obtain ⟨hmA, hmB, hmh, hm0⟩ := pwf_not_mem (A := []) (by simpa using w)
          obtain ⟨h', l', hfn, w', _, hvo, hl⟩ :=
            freeNode_refines h l [] B fs m (firstOr B l.head) P' (by simpa using w) hB
          refine ⟨h', l', by simp [pstep, hbeg, erase, hm0, hmh, hfn], by omega,
            Or.inr ⟨_, _, by simpa using w', ?_⟩⟩
          rw [map_val_congr (fun n hn => hvo n (fun e => hmB (e ▸ hn)))]
          cases s with
          | nil => simp at hc
          | cons a t => simpa using (List.cons.inj (by simpa using hc)).2
  | popBack =>
    simp only [pspecStep] at hs
    split at hs
    · cases hs
    · rename_i hne
      simp only [Option.some.injEq] at hs; subst hs
      rcases r with ⟨_, _, rfl⟩ | ⟨ns, fs, w, hc⟩
      · exact absurd rfl hne
      · rcases List.eq_nil_or_concat ns with rfl | ⟨A, m, rfl⟩
        · cases s with
          | nil => exact absurd rfl hne
          | cons _ _ => simp at hc
        · have w2 : PWF h l (A ++ m :: []) fs := by simpa using w
          obtain ⟨hmA, _, hmh, hm0⟩ := pwf_not_mem w2
          have hprev : h.prevOf l.head = m := pwf_prev_head (by simpa using w)
          obtain ⟨h', l', hfn, w', _, hvo, hl⟩ :=
            freeNode_refines h l A [] fs m l.head [] w2 (by simp)
          refine ⟨h', l', by simp [pstep, w.head_ne, hprev, erase, hm0, hmh, hfn], by omega,
            Or.inr ⟨_, _, by simpa using w', ?_⟩⟩
          rw [map_val_congr (fun n hn => hvo n (fun e => hmA (e ▸ hn)))]
          have hc' : (A.map h.valOf ++ [h.valOf m]).dropLast = (s.map some).dropLast := by
            rw [← hc]; simp
          simpa [List.dropLast_concat, List.map_dropLast] using hc'
  | clear =>
    simp only [pspecStep, Option.some.injEq] at hs; subst hs
    rcases r with ⟨hh, hf, rfl⟩ | ⟨ns, fs, w, hc⟩
    · refine ⟨h, l, ?_, hlen, Or.inl ⟨hh, hf, rfl⟩⟩
      simp only [pstep, clear, beginPos, hh, if_true]
      cases h.nodes.length <;> simp [clearLoop]
    · obtain ⟨h', l', hcl, w', _, _, hl⟩ := clear_refines h l ns fs w
      exact ⟨h', l', by simp [pstep, hcl], by omega, Or.inr ⟨_, _, w', by simp⟩⟩
  | insertAt idx x =>
    simp only [pspecStep] at hs
    split at hs
    · rename_i hle
      simp only [Option.some.injEq] at hs; subst hs
      rcases r with ⟨hh, hf, rfl⟩ | ⟨ns, fs, w, hc⟩
      · have hi : idx = 0 := by simpa using hle
        subst hi
        obtain ⟨h', l', hcn, w', _, hv, _, hl⟩ := constructNode_first_refines h l x hh hf hlen
        refine ⟨h', l', by simp [pstep, posAt, nodesOf, endPos, hh, hcn], by omega, Or.inr ⟨_, _, w', by simp [hv]⟩⟩
      · have hlens : ns.length = s.length := by simpa using congrArg List.length hc
        have hi : idx ≤ ns.length := by omega
        obtain ⟨P', hB⟩ := hB_of l.head (ns.drop idx)
        have hpos := posAt_pwf w idx hi
        have hsplit : ns.take idx ++ ns.drop idx = ns := List.take_append_drop idx ns
        obtain ⟨hcA, hcB⟩ := map_take_some hc idx
        have hltA : ∀ n ∈ ns.take idx, n ∈ ns := fun n hn => List.mem_of_mem_take hn
        have hltB : ∀ n ∈ ns.drop idx, n ∈ ns := fun n hn => List.mem_of_mem_drop hn
        cases fs with
        | nil =>
          obtain ⟨h', l', hcn, w', _, hv, hvo, hl⟩ :=
            constructNode_alloc_refines h l x (ns.take idx) (ns.drop idx) (firstOr (ns.drop idx) l.head) P'
              (by rw [hsplit]; exact w) hB
          refine ⟨h', l', by simp [pstep, hpos, hcn], by omega, Or.inr ⟨_, _, w', ?_⟩⟩
          rw [List.map_append, List.map_cons, List.map_append, List.map_cons, hv,
            map_val_congr (fun n hn => hvo n (pwf_lt w (hltA n hn))),
            map_val_congr (fun n hn => hvo n (pwf_lt w (hltB n hn))), hcA, hcB]
        | cons m fs' =>
          obtain ⟨h', l', hcn, w', _, hv, hvo, hl⟩ :=
            constructNode_refines h l x (ns.take idx) (ns.drop idx) fs' m (firstOr (ns.drop idx) l.head) P'
              (by rw [hsplit]; exact w) hB
          have hm : m ∉ ns := pwf_mem_not_free w (by simp)
          refine ⟨h', l', by simp [pstep, hpos, hcn], by omega, Or.inr ⟨_, _, w', ?_⟩⟩
          rw [List.map_append, List.map_cons, List.map_append, List.map_cons, hv,
            map_val_congr (fun n hn => hvo n (fun e => hm (e ▸ hltA n hn))),
            map_val_congr (fun n hn => hvo n (fun e => hm (e ▸ hltB n hn))), hcA, hcB]
    · cases hs
  | eraseAt idx =>
    simp only [pspecStep] at hs
    split at hs
    · rename_i hlt
      simp only [Option.some.injEq] at hs; subst hs
      rcases r with ⟨_, _, rfl⟩ | ⟨ns, fs, w, hc⟩
      · simp at hlt
      · have hlens : ns.length = s.length := by simpa using congrArg List.length hc
        have hi : idx < ns.length := by omega
        have hdrop : ns.drop idx = ns[idx] :: ns.drop (idx + 1) := List.drop_eq_getElem_cons hi
        have hsplit : ns.take idx ++ ns[idx] :: ns.drop (idx + 1) = ns := by
          rw [← hdrop]; exact List.take_append_drop idx ns
        have w2 : PWF h l (ns.take idx ++ ns[idx] :: ns.drop (idx + 1)) fs := by rw [hsplit]; exact w
        obtain ⟨hmA, hmB, hmh, hm0⟩ := pwf_not_mem w2
        obtain ⟨P', hB⟩ := hB_of l.head (ns.drop (idx + 1))
        have hpos : posAt h l idx = some ns[idx] := by
          rw [posAt_pwf w idx (by omega)]; simp [firstOr, List.getElem?_eq_getElem hi]
        obtain ⟨h', l', hfn, w', _, hvo, hl⟩ :=
          freeNode_refines h l (ns.take idx) (ns.drop (idx + 1)) fs ns[idx] (firstOr (ns.drop (idx + 1)) l.head) P' w2 hB
        refine ⟨h', l', by simp [pstep, nodesOf_of_pwf w, hi, hpos, erase, hm0, hmh, hfn], by omega,
          Or.inr ⟨_, _, w', ?_⟩⟩
        obtain ⟨hcA, _⟩ := map_take_some hc idx
        obtain ⟨_, hcB⟩ := map_take_some hc (idx + 1)
        rw [List.map_append, map_val_congr (fun n hn => hvo n (fun e => hmA (e ▸ hn))),
          map_val_congr (fun n hn => hvo n (fun e => hmB (e ▸ hn))), hcA, hcB, List.eraseIdx_eq_take_drop_succ,
          List.map_append]
    · cases hs

theorem prun_refines (ops : List (POp α)) : ∀ (h : PHeap α) (l : PL) (s s' : List α), Rep h l s →
    pspecRun s ops = some s' → ∃ h' l', prun h l ops = some (h', l') ∧ Rep h' l' s' := by
  induction ops with
  | nil => intro h l s s' r hs; simp only [pspecRun, Option.some.injEq] at hs; subst hs; exact ⟨h, l, rfl, r⟩
  | cons op ops ih =>
    intro h l s s' r hs
    simp only [pspecRun] at hs
    cases h1 : pspecStep s op with
    | none => simp [h1] at hs
    | some s1 =>
      simp only [h1, Option.bind_some] at hs
      obtain ⟨h', l', hp, r'⟩ := pstep_refines h l s s1 op r h1
      obtain ⟨h'', l'', hp', r''⟩ := ih h' l' s1 s' r' hs
      exact ⟨h'', l'', by simp [prun, hp, hp'], r''⟩

/-- what `Rep` says about the observable list: following `next` from the head yields the values -/
theorem rep_toList {h : PHeap α} {l : PL} {s : List α} (r : Rep h l s) : toList h l = s := by
  obtain ⟨_, r⟩ := r
  rcases r with ⟨hh, _, rfl⟩ | ⟨ns, fs, w, hc⟩
  · simp [toList, nodesOf, hh]
  · unfold toList
    rw [nodesOf_of_pwf w]
    have : ∀ (ns : List Nat) (s : List α), ns.map h.valOf = s.map some → ns.filterMap h.valOf = s := by
      intro ns
      induction ns with
      | nil => intro s h1; cases s <;> simp_all
      | cons n t ih =>
        intro s h1
        cases s with
        | nil => simp at h1
        | cons a s' =>
          simp only [List.map_cons, List.cons.injEq] at h1
          simp [h1.1, ih s' h1.2]
    exact this ns s hc

/-- **history**: from the freshly constructed list object, every call sequence inside the `std::list` contract
runs through the pointer code without an invalid dereference, and the list then reads back exactly the
specified sequence. -/
theorem plist_history (h : PHeap α) (hlen : h.nodes.length ≠ 0) (ops : List (POp α)) (s : List α)
    (hs : pspecRun [] ops = some s) :
    ∃ h' l', prun h {} ops = some (h', l') ∧ toList h' l' = s ∧ Rep h' l' s := by
  obtain ⟨h', l', hp, r⟩ := prun_refines ops h {} [] s ⟨hlen, Or.inl ⟨rfl, rfl, rfl⟩⟩ hs
  exact ⟨h', l', hp, rep_toList r, r⟩

end PL
end XalanModel.Containers
