import XalanModel.Containers.StringCache
/-!
`XalanDOMStringCache`: every string ever created is at any time in exactly one of the busy list, the
available list and the strings handed back to the allocator.
-/
namespace XalanModel.Containers.SCache

/-- the partition: a created string occurs exactly once in busy ++ available ++ destroyed, others nowhere -/
def Inv (c : SCache) : Prop :=
  ∀ id, c.busy.count id + c.available.count id + c.destroyed.count id = if id < c.caps.length then 1 else 0

theorem inv_empty (m : Nat) : Inv { maxSize := m } := by
  intro id; simp

theorem count_snoc (l : List Nat) (a x : Nat) : (l ++ [a]).count x = l.count x + if a = x then 1 else 0 := by
  rw [List.count_append, List.count_singleton]; simp

theorem get_inv (c : SCache) (h : Inv c) : Inv (c.get).1 ∧ (c.get).2 ∈ (c.get).1.busy := by
  unfold get
  cases hg : c.available.getLast? with
  | none =>
    have hav : c.available = [] := List.getLast?_eq_none_iff.mp hg
    refine ⟨?_, by simp⟩
    intro id
    have := h id
    simp only [count_snoc, List.length_append, List.length_cons, List.length_nil]
    rw [hav] at this ⊢
    by_cases hid : c.caps.length = id
    · subst hid; simp at this ⊢; omega
    · simp only [hid, if_false]; split at this <;> split <;> omega
  | some a =>
    obtain ⟨ys, hys⟩ := List.getLast?_eq_some_iff.mp hg
    refine ⟨?_, by simp⟩
    intro id
    have := h id
    rw [hys, count_snoc] at this
    simp only [hys, List.dropLast_concat, count_snoc]
    omega

theorem release_inv (c : SCache) (h : Inv c) (id : Nat) :
    Inv (c.release id).1 ∧ ((c.release id).2 = true ↔ id ∈ c.busy) ∧
      (id ∈ c.busy → id ∉ (c.release id).1.busy ∧
        (id ∈ (c.release id).1.available ∨ id ∈ (c.release id).1.destroyed)) := by
  unfold release
  by_cases hb : id ∈ c.busy
  · have hpos : 0 < c.busy.count id := List.count_pos_iff.mpr hb
    have hone : c.busy.count id = 1 := by have := h id; split at this <;> omega
    simp only [hb, if_true]
    by_cases hm : c.available.length > c.maxSize
    · simp only [hm, if_true, true_iff, forall_const, true_and]
      refine ⟨?_, ?_, Or.inr (by simp)⟩
      · intro x
        have := h x
        simp only [List.count_erase, count_snoc, beq_iff_eq]
        by_cases hx : id = x
        · subst hx; simp only [if_true]; omega
        · simp only [hx, if_false]; omega
      · intro hin
        have : 0 < (c.busy.erase id).count id := List.count_pos_iff.mpr hin
        rw [List.count_erase] at this; simp at this; omega
    · simp only [hm, if_false, true_iff, forall_const, true_and]
      refine ⟨?_, ?_, Or.inl (by simp)⟩
      · intro x
        have := h x
        simp only [List.count_erase, count_snoc, beq_iff_eq]
        by_cases hx : id = x
        · subst hx; simp only [if_true]; omega
        · simp only [hx, if_false]; omega
      · intro hin
        have : 0 < (c.busy.erase id).count id := List.count_pos_iff.mpr hin
        rw [List.count_erase] at this; simp at this; omega
  · simp [hb, h]

theorem resetLoop_inv (theSize : Nat) : ∀ (fuel : Nat) (c : SCache), Inv c → c.busy.length ≤ fuel →
    Inv (resetLoop theSize fuel c) ∧ (resetLoop theSize fuel c).busy = [] ∧
      (resetLoop theSize fuel c).caps = c.caps := by
  intro fuel
  induction fuel with
  | zero =>
    intro c h hl
    have : c.busy.length = 0 := by omega
    exact ⟨h, List.eq_nil_of_length_eq_zero this, rfl⟩
  | succ fuel ih =>
    intro c h hl
    simp only [resetLoop]
    cases hg : c.busy.getLast? with
    | none => exact ⟨h, List.getLast?_eq_none_iff.mp hg, rfl⟩
    | some a =>
      obtain ⟨ys, hys⟩ := List.getLast?_eq_some_iff.mp hg
      have hlen : ys.length ≤ fuel := by rw [hys] at hl; simp at hl; omega
      simp only
      split
      · have i1 : Inv { c with busy := c.busy.dropLast, destroyed := c.destroyed ++ [a] } := by
          intro x; have := h x
          rw [hys, count_snoc] at this
          simp only [hys, List.dropLast_concat, count_snoc]; omega
        obtain ⟨r1, r2, r3⟩ := ih _ i1 (by simp only [hys, List.dropLast_concat]; exact hlen)
        exact ⟨r1, r2, r3⟩
      · have i1 : Inv { c with busy := c.busy.dropLast, available := c.available ++ [a] } := by
          intro x; have := h x
          rw [hys, count_snoc] at this
          simp only [hys, List.dropLast_concat, count_snoc]; omega
        obtain ⟨r1, r2, r3⟩ := ih _ i1 (by simp only [hys, List.dropLast_concat]; exact hlen)
        exact ⟨r1, r2, r3⟩

theorem reset_inv (c : SCache) (h : Inv c) : Inv c.reset ∧ c.reset.busy = [] :=
  ⟨(resetLoop_inv _ _ c h (Nat.le_refl _)).1, (resetLoop_inv _ _ c h (Nat.le_refl _)).2.1⟩

theorem setCap_inv (c : SCache) (h : Inv c) (id cap : Nat) : Inv (c.setCap id cap) := by
  intro x; have := h x; simpa [setCap] using this

end XalanModel.Containers.SCache
