/-
`XalanList::constructNode` when the free list is empty (`m_freeListHeadPtr == 0`): the node comes from
`allocate(1)`.  The case is reduced to the recycled-node case of `PListProofs.lean`: the heap extended by
the raw node, with that node as a one-element free chain, is well formed, and from there the two code paths
perform the same five pointer writes.  Core Lean only.
-/
import XalanModel.Containers.PListProofs

namespace XalanModel.Containers
namespace PL
variable {α : Type}

/-- the heap after `allocate(1)` -/
def grown (h : PHeap α) : PHeap α := ⟨h.nodes ++ [⟨none, 0, 0⟩]⟩

theorem grown_getD (h : PHeap α) (a : Nat) (ha : a < h.nodes.length) :
    (grown h).nodes.getD a ⟨none, 0, 0⟩ = h.nodes.getD a ⟨none, 0, 0⟩ := by
  simp [grown, List.getD_eq_getElem?_getD, List.getElem?_append_left ha]

theorem grown_new (h : PHeap α) : (grown h).nodes.getD h.nodes.length ⟨none, 0, 0⟩ = ⟨none, 0, 0⟩ := by
  simp [grown, List.getD_eq_getElem?_getD]

theorem grown_next_new (h : PHeap α) : (grown h).nextOf h.nodes.length = 0 := by
  unfold PHeap.nextOf; rw [grown_new]

theorem grown_next (h : PHeap α) (a : Nat) (ha : a < h.nodes.length) : (grown h).nextOf a = h.nextOf a := by
  simp only [PHeap.nextOf, grown_getD h a ha]
theorem grown_prev (h : PHeap α) (a : Nat) (ha : a < h.nodes.length) : (grown h).prevOf a = h.prevOf a := by
  simp only [PHeap.prevOf, grown_getD h a ha]
theorem grown_val (h : PHeap α) (a : Nat) (ha : a < h.nodes.length) : (grown h).valOf a = h.valOf a := by
  simp only [PHeap.valOf, grown_getD h a ha]

/-- after `allocate(1)` the raw node is a one-element free chain of a well-formed list -/
theorem pwf_grown {h : PHeap α} {l : PL} {ns : List Nat} (w : PWF h l ns []) :
    PWF (grown h) { l with free := h.nodes.length } ns [h.nodes.length] := by
  obtain ⟨hh, hnd, hval, fwd, bwd, freec, vals⟩ := w
  have hlt : ∀ a ∈ l.head :: ns, a < h.nodes.length := fun a ha => (hval a (by simpa using ha)).2
  refine ⟨hh, ?_, ?_, ?_, ?_, ?_, ?_⟩
  · show (l.head :: (ns ++ [h.nodes.length])).Nodup
    have h1 : (l.head :: ns).Nodup := by simpa using hnd
    have h2 : h.nodes.length ∉ l.head :: ns := fun hin => Nat.lt_irrefl _ (hlt _ hin)
    have : ((l.head :: ns) ++ [h.nodes.length]).Nodup := by
      rw [List.nodup_append]
      refine ⟨h1, by simp, ?_⟩
      intro a ha b hb e
      simp only [List.mem_singleton] at hb
      exact h2 (hb ▸ e ▸ ha)
    simpa using this
  · intro a ha
    show a ≠ 0 ∧ a < (grown h).nodes.length
    have hg : (grown h).nodes.length = h.nodes.length + 1 := by simp [grown]
    have ha' : a ∈ l.head :: ns ∨ a = h.nodes.length := by
      simp only [List.mem_cons, List.mem_append, List.not_mem_nil, or_false] at ha ⊢
      rcases ha with h1 | h1 | h1
      · exact Or.inl (Or.inl h1)
      · exact Or.inl (Or.inr h1)
      · exact Or.inr h1
    rcases ha' with h1 | h1
    · exact ⟨(hval a (by simpa using h1)).1, by rw [hg]; exact Nat.lt_succ_of_lt (hlt a h1)⟩
    · have : 0 < h.nodes.length := Nat.lt_of_le_of_lt (Nat.zero_le _) (hlt l.head (by simp))
      rw [hg, h1]; exact ⟨by omega, by omega⟩
  · show lseg (grown h).nextOf l.head (l.head :: ns) l.head
    exact lseg_congr (fun n hn => grown_next h n (hlt n hn)) fwd
  · show lseg (grown h).prevOf l.head (l.head :: ns.reverse) l.head
    exact lseg_congr (fun n hn => grown_prev h n (hlt n (by
      simp only [List.mem_cons, List.mem_reverse] at hn ⊢; exact hn))) bwd
  · show lseg (grown h).nextOf h.nodes.length [h.nodes.length] 0
    simp [lseg, grown_next_new]
  · intro n hn
    rw [grown_val h n (hlt n (List.mem_cons_of_mem _ hn))]
    exact vals n hn

/-- the allocating path and the recycling path on the grown heap are the same computation -/
theorem constructNode_alloc_eq (h : PHeap α) (l : PL) (x : α) (p : Nat) (hp : p ≠ 0) (hf : l.free = 0)
    (hlen : h.nodes.length ≠ 0) :
    constructNode h l x p = constructNode (grown h) { l with free := h.nodes.length } x p := by
  unfold constructNode positionNode
  simp only [hp, if_false, hf, ne_eq, not_true_eq_false, hlen, not_false_eq_true, if_true, PHeap.alloc]
  have : (grown h).nextOf h.nodes.length = 0 := grown_next_new h
  simp only [this]
  rfl

/-- **constructNode with a fresh node** (empty free chain): the node at the new address `h.nodes.length` is
linked before the position; every existing node keeps address, links and value; exactly one block is taken from
the memory manager. -/
theorem constructNode_alloc_refines (h : PHeap α) (l : PL) (x : α) (A B : List Nat) (p : Nat) (P' : List Nat)
    (w : PWF h l (A ++ B) []) (hB : l.head :: B.reverse = P' ++ [p]) :
    ∃ h' l', constructNode h l x p = some (h', l', h.nodes.length) ∧
      PWF h' l' (A ++ h.nodes.length :: B) [] ∧ l'.head = l.head ∧
      h'.valOf h.nodes.length = some x ∧ (∀ n, n < h.nodes.length → h'.valOf n = h.valOf n) ∧
      h'.nodes.length = h.nodes.length + 1 := by
  have hf : l.free = 0 := by simpa [lseg] using w.freec
  have hhv := w.valid l.head (by simp)
  have hlen : h.nodes.length ≠ 0 := by omega
  have hp : p ≠ 0 := by
    have hpm : p ∈ l.head :: B.reverse := by rw [hB]; simp
    have : p ∈ l.head :: ((A ++ B) ++ []) := by
      simp only [List.mem_cons, List.mem_reverse, List.append_nil, List.mem_append] at hpm ⊢
      rcases hpm with h1 | h1
      · exact Or.inl h1
      · exact Or.inr (Or.inr h1)
    exact (w.valid p this).1
  obtain ⟨h', l', hc, w', hhead, hv, hvo, hl⟩ :=
    constructNode_refines (grown h) { l with free := h.nodes.length } x A B [] h.nodes.length p P' (pwf_grown w) hB
  refine ⟨h', l', ?_, w', hhead, hv, ?_, by rw [hl]; simp [grown]⟩
  · rw [constructNode_alloc_eq h l x p hp hf hlen]; exact hc
  · intro n hn
    rw [hvo n (by omega), grown_val h n hn]

/-- `getListHead()` on a list that has no head node yet (`m_listHead == 0`, as after construction): the head node
is allocated as the ring `head <-> head`, and the list is well formed and empty -/
theorem getListHead_fresh (h : PHeap α) (l : PL) (hh : l.head = 0) (hf : l.free = 0) (hlen : h.nodes.length ≠ 0) :
    ∃ h' l', getListHead h l = (h', l', h.nodes.length) ∧ PWF h' l' [] [] ∧ l'.head = h.nodes.length ∧
      h'.nodes.length = h.nodes.length + 1 ∧ (∀ n, n < h.nodes.length → h'.valOf n = h.valOf n) := by
  refine ⟨⟨h.nodes ++ [⟨none, h.nodes.length, h.nodes.length⟩]⟩, { l with head := h.nodes.length }, ?_, ?_, rfl,
    by simp, ?_⟩
  · simp [getListHead, hh]
  · have hnew : (h.nodes ++ [(⟨none, h.nodes.length, h.nodes.length⟩ : PNode α)]).getD h.nodes.length ⟨none, 0, 0⟩
        = ⟨none, h.nodes.length, h.nodes.length⟩ := by simp [List.getD_eq_getElem?_getD]
    refine ⟨hlen, by simp, ?_, ?_, ?_, ?_, by simp⟩
    · intro a ha
      simp only [List.append_nil, List.mem_cons, List.not_mem_nil, or_false] at ha
      subst ha
      exact ⟨hlen, by simp⟩
    · show lseg _ h.nodes.length [h.nodes.length] h.nodes.length
      simp only [lseg, PHeap.nextOf, hnew, and_self]
    · show lseg _ h.nodes.length [h.nodes.length] h.nodes.length
      simp only [lseg, PHeap.prevOf, hnew, and_self]
    · show lseg _ l.free [] 0
      simpa [lseg] using hf
  · intro n hn
    simp [PHeap.valOf, List.getD_eq_getElem?_getD, List.getElem?_append_left hn]

/-- the very first insertion (`push_back` / `insert(end(), x)` on a list without head node; the iterator is the null
iterator): the head node and the element node are allocated, in this order, and the list holds exactly `x` -/
theorem constructNode_first_refines (h : PHeap α) (l : PL) (x : α) (hh : l.head = 0) (hf : l.free = 0)
    (hlen : h.nodes.length ≠ 0) :
    ∃ h' l', constructNode h l x 0 = some (h', l', h.nodes.length + 1) ∧
      PWF h' l' [h.nodes.length + 1] [] ∧ l'.head = h.nodes.length ∧
      h'.valOf (h.nodes.length + 1) = some x ∧ (∀ n, n < h.nodes.length → h'.valOf n = h.valOf n) ∧
      h'.nodes.length = h.nodes.length + 2 := by
  obtain ⟨h1, l1, e1, w1, hd1, len1, v1⟩ := getListHead_fresh h l hh hf hlen
  have hstep : constructNode h l x 0 = constructNode h1 l1 x h.nodes.length := by
    unfold constructNode positionNode
    simp only [if_true, e1, hlen, if_false]
  obtain ⟨h', l', hc, w', hhead, hv, hvo, hl⟩ :=
    constructNode_alloc_refines h1 l1 x [] [] h.nodes.length [] (by simpa using w1) (by simp [hd1])
  rw [len1] at hc w' hv hl
  refine ⟨h', l', by rw [hstep]; exact hc, by simpa using w', by rw [hhead, hd1], hv, ?_, by rw [hl]⟩
  intro n hn
  rw [hvo n (by omega), v1 n hn]

end PL
end XalanModel.Containers
