/-
Model of `XalanDeque<T>` (src/xalanc/Include/XalanDeque.hpp) as written: a block index
(`m_blockIndex`, a vector of pointers to blocks, each block a `XalanVector<T>` constructed with
capacity `m_blockSize`) and a vector of free (empty) blocks that `pushNewIndexBlock` recycles.
The class only grows and shrinks at the back.

`none` = undefined behaviour in the C++ (`back()`/`pop_back()` on an empty index, an index outside
the addressed block, a block pushed beyond its capacity would re-allocate but stays defined — it is
the invariant, not a memory error, that forbids it).  Block contents are plain lists; the block's
own `XalanVector` mechanics are the subject of `Vector.lean`.
Core Lean only.
-/
namespace XalanModel.Containers

structure Deq (α : Type) where
  blockSize : Nat
  blocks : List (List α) := []     -- m_blockIndex, contents of each block
  freeBlocks : Nat := 0            -- m_freeBlockVector.size() (all of them empty)
deriving Repr, DecidableEq

namespace Deq
variable {α : Type}

/-- what `begin() … end()` / `operator[]` over `0 … size()-1` is meant to deliver -/
def toList (d : Deq α) : List α := d.blocks.flatten

/-- `size()` exactly as computed by the code -/
def size (d : Deq α) : Nat :=
  match d.blocks.getLast? with
  | none => 0
  | some last => (d.blocks.length - 1) * d.blockSize + last.length

/-- `empty()` -/
def isEmpty (d : Deq α) : Bool := d.blocks.isEmpty

/-- `operator[](index)`: `*m_blockIndex[index / m_blockSize]` then `block[index % m_blockSize]` -/
def get (d : Deq α) (i : Nat) : Option α :=
  if d.blockSize = 0 then none
  else (d.blocks[i / d.blockSize]?).bind fun b => b[i % d.blockSize]?

/-- `back()` -/
def back (d : Deq α) : Option α := d.blocks.getLast?.bind fun b => b.getLast?

/-- `pushNewIndexBlock()` -/
def pushNewIndexBlock (d : Deq α) : Deq α :=
  if d.freeBlocks = 0 then { d with blocks := d.blocks ++ [[]] }
  else { d with blocks := d.blocks ++ [[]], freeBlocks := d.freeBlocks - 1 }

/-- `push_back(value)` -/
def pushBack (d : Deq α) (x : α) : Deq α :=
  let d1 := match d.blocks.getLast? with
    | none => pushNewIndexBlock d
    | some last => if last.length ≥ d.blockSize then pushNewIndexBlock d else d
  { d1 with blocks := d1.blocks.dropLast ++ [(d1.blocks.getLast?.getD []) ++ [x]] }

/-- `pop_back()` -/
def popBack (d : Deq α) : Option (Deq α) :=
  match d.blocks.getLast? with
  | none => none
  | some last =>
    if last.length = 0 then none            -- lastBlock.pop_back() on an empty block
    else if last.length = 1 then some { d with blocks := d.blocks.dropLast, freeBlocks := d.freeBlocks + 1 }
    else some { d with blocks := d.blocks.dropLast ++ [last.dropLast] }

/-- `clear()` -/
def clear (d : Deq α) : Deq α :=
  { d with blocks := [], freeBlocks := d.freeBlocks + d.blocks.length }

def pushN : Nat → α → Deq α → Deq α
  | 0, _, d => d
  | n+1, x, d => pushN n x (pushBack d x)

def popN : Nat → Deq α → Option (Deq α)
  | 0, d => some d
  | n+1, d => (popBack d).bind (popN n)

/-- `resize(newSize)` with the trip counts computed once, before the loops (the code after the
proposed repair `proposed/C20-deque-resize.diff`). -/
def resize (d : Deq α) (n : Nat) (dflt : α) : Option (Deq α) :=
  let sz := d.size
  if n > sz then some (pushN (n - sz) dflt d) else popN (sz - n) d

/-- the grow loop of `resize` **as written in the unrepaired source**:
`for (i = 0; i < newSize - size(); ++i) push_back(v)` — the bound is re-evaluated. -/
def growLoopAsWritten (n : Nat) (dflt : α) : Nat → Nat → Deq α → Deq α
  | 0, _, d => d
  | fuel+1, i, d => if i < n - d.size then growLoopAsWritten n dflt fuel (i + 1) (pushBack d dflt) else d

/-- the shrink loop as written: `for (i = 0; i < size() - newSize; ++i) pop_back()` -/
def shrinkLoopAsWritten (n : Nat) : Nat → Nat → Deq α → Option (Deq α)
  | 0, _, d => some d
  | fuel+1, i, d => if i < d.size - n then (popBack d).bind (shrinkLoopAsWritten n fuel (i + 1)) else some d

def resizeAsWritten (d : Deq α) (n : Nat) (dflt : α) : Option (Deq α) :=
  if n > d.size then some (growLoopAsWritten n dflt n 0 d) else shrinkLoopAsWritten n d.size 0 d

def pushAll : List α → Deq α → Deq α
  | [], d => d
  | x :: xs, d => pushAll xs (pushBack d x)

/-- `XalanDeque(mm, initialSize, blockSize)`: `fill_n(back_inserter(*this), initialSize, default)` -/
def create (blockSize initial : Nat) (dflt : α) : Deq α :=
  pushN initial dflt { blockSize := blockSize }

/-- copy constructor -/
def copyOf (rhs : Deq α) : Deq α := pushAll rhs.toList { blockSize := rhs.blockSize }

/-- `operator=(theRHS)` for `this != &theRHS` (`m_blockSize` is const and stays) -/
def assign (d rhs : Deq α) : Deq α := pushAll rhs.toList (clear d)

/-- the pointer exchange of `swap`: block index and free-block vector change sides, `m_blockSize`
(const) does not.  This is all the **unrepaired** `swap` does, whatever the block sizes. -/
def swapInto (self other : Deq α) : Deq α := { other with blockSize := self.blockSize }

/-- `a.swap(b)` after the repair `proposed/C20-deque-swap.diff`: equal block sizes exchange the
blocks; otherwise `theTemp(mm, 0, m_blockSize); theTemp = b; b = *this; swap(theTemp)`. -/
def swapPair (a b : Deq α) : Deq α × Deq α :=
  if a.blockSize = b.blockSize then (swapInto a b, swapInto b a)
  else (swapInto a (assign { blockSize := a.blockSize } b), assign b a)

end Deq
end XalanModel.Containers
