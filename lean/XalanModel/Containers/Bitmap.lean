/-
Model of `XalanBitmap` (src/xalanc/PlatformSupport/XalanBitmap.{hpp,cpp}) as written: `m_size` bits kept
in a vector of `(m_size + 8) / 8` bytes; bit `b` lives in byte `b / 8` under the mask `2^(b % 8)`.
`none` = a byte index outside the vector (the C++ would read or write outside `m_bitmap`).
Core Lean only.
-/
namespace XalanModel.Containers

structure Bitmap where
  size : Nat
  units : List Nat      -- m_bitmap, one entry per byte (0 … 255)
deriving Repr, DecidableEq

namespace Bitmap

/-- `XalanBitmap(theManager, theSize)` -/
def new (size : Nat) : Bitmap := ⟨size, List.replicate ((size + 8) / 8) 0⟩

/-- `isSet(theBit)`: `m_bitmap[theBit / 8] & s_setMasks[theBit % 8]` -/
def isSet (b : Bitmap) (bit : Nat) : Option Bool :=
  (b.units[bit / 8]?).map fun u => (u &&& 2 ^ (bit % 8)) != 0

def update (b : Bitmap) (bit : Nat) (f : Nat → Nat) : Option Bitmap :=
  if bit / 8 < b.units.length then some { b with units := b.units.modify (bit / 8) f } else none

/-- `set(theBit)`: `|= s_setMasks[theBit % 8]` -/
def set (b : Bitmap) (bit : Nat) : Option Bitmap := update b bit fun u => u ||| 2 ^ (bit % 8)

/-- `clear(theBit)`: `&= s_clearMasks[theBit % 8]` (the complement, truncated to the byte) -/
def clear (b : Bitmap) (bit : Nat) : Option Bitmap := update b bit fun u => u &&& (255 - 2 ^ (bit % 8))

/-- `toggle(theBit)`: `^= s_setMasks[theBit % 8]` -/
def toggle (b : Bitmap) (bit : Nat) : Option Bitmap := update b bit fun u => u ^^^ 2 ^ (bit % 8)

/-- `clearAll()` -/
def clearAll (b : Bitmap) : Bitmap := { b with units := b.units.map fun _ => 0 }

/-- the bits `0 … size-1` as the observers deliver them -/
def bits (b : Bitmap) : List (Option Bool) := (List.range b.size).map b.isSet

end Bitmap
end XalanModel.Containers
