import XalanModel.Containers.XMap
/-!
Helper lemmas for the refinement of `XalanMap` to an insertion-ordered association list (C20).
-/
namespace XalanModel.Containers.XMap
variable {κ ν : Type} [DecidableEq κ]

/-- The representation invariant of the hash map. -/
structure Inv (hash : κ → Nat) (m : XMap κ ν) : Prop where
  size_eq : m.size = m.entries.length
  ids_nodup : (m.entries.map (·.id)).Nodup
  keys_nodup : (m.entries.map (·.key)).Nodup
  free_nodup : m.free.Nodup
  disjoint : ∀ e ∈ m.entries, e.id ∉ m.free
  /-- every live entry is reachable from the bucket its key hashes to -/
  bucketed : ∀ e ∈ m.entries, ∃ b, m.buckets[hash e.key % m.buckets.length]? = some b ∧ e.id ∈ b
  /-- every bucket pointer refers to a node of this map (live or on the free list) -/
  nodangling : ∀ b ∈ m.buckets, ∀ id ∈ b, (∃ e ∈ m.entries, e.id = id) ∨ id ∈ m.free
  fresh_e : ∀ e ∈ m.entries, e.id < m.nextId
  fresh_f : ∀ id ∈ m.free, id < m.nextId
  minb : 0 < m.minBuckets
  lfd : 0 < m.lfDen

theorem find?_id_of_mem {l : List (MEntry κ ν)} (hn : (l.map (·.id)).Nodup) {e : MEntry κ ν} (he : e ∈ l) :
    l.find? (fun x => x.id == e.id) = some e := by
  induction l with
  | nil => cases he
  | cons x xs ih =>
    simp only [List.map_cons, List.nodup_cons] at hn
    rcases List.mem_cons.mp he with rfl | he'
    · simp
    · have hne : x.id ≠ e.id := by
        intro heq; apply hn.1; rw [heq]; exact List.mem_map_of_mem he'
      simp only [List.find?_cons]
      have : (x.id == e.id) = false := by simpa using hne
      rw [this]; exact ih hn.2 he'

theorem eq_of_key_eq {l : List (MEntry κ ν)} (hn : (l.map (·.key)).Nodup) {a b : MEntry κ ν}
    (ha : a ∈ l) (hb : b ∈ l) (h : a.key = b.key) : a = b := by
  induction l with
  | nil => cases ha
  | cons x xs ih =>
    simp only [List.map_cons, List.nodup_cons] at hn
    rcases List.mem_cons.mp ha with rfl | ha' <;> rcases List.mem_cons.mp hb with rfl | hb'
    · rfl
    · exact absurd (h ▸ List.mem_map_of_mem (f := (·.key)) hb') hn.1
    · exact absurd (h ▸ List.mem_map_of_mem (f := (·.key)) ha') hn.1
    · exact ih hn.2 ha' hb'

theorem eq_of_id_eq {l : List (MEntry κ ν)} (hn : (l.map (·.id)).Nodup) {a b : MEntry κ ν}
    (ha : a ∈ l) (hb : b ∈ l) (h : a.id = b.id) : a = b := by
  have := find?_id_of_mem hn ha
  rw [h, find?_id_of_mem hn hb] at this
  exact (Option.some.inj this).symm

variable {hash : κ → Nat}

theorem nodeAt_live {m : XMap κ ν} (h : Inv hash m) {e : MEntry κ ν} (he : e ∈ m.entries) :
    m.nodeAt e.id = some (some e) := by
  simp [nodeAt, find?_id_of_mem h.ids_nodup he]

theorem nodeAt_cases {m : XMap κ ν} (h : Inv hash m) {id : Nat}
    (hid : (∃ e ∈ m.entries, e.id = id) ∨ id ∈ m.free) :
    (∃ e ∈ m.entries, e.id = id ∧ m.nodeAt id = some (some e)) ∨ m.nodeAt id = some none := by
  rcases hid with ⟨e, he, rfl⟩ | hf
  · exact Or.inl ⟨e, he, rfl, nodeAt_live h he⟩
  · right
    have : m.entries.find? (fun x => x.id == id) = none := by
      rw [List.find?_eq_none]
      intro x hx hxe
      have : x.id = id := by simpa using hxe
      exact h.disjoint x hx (this ▸ hf)
    simp [nodeAt, this, hf]

/-- the bucket scan of `find` returns the entry with the key, or `end()` -/
theorem scanBucket_spec {m : XMap κ ν} (h : Inv hash m) (k : κ) (b : List Nat)
    (hb : ∀ id ∈ b, (∃ e ∈ m.entries, e.id = id) ∨ id ∈ m.free) :
    (∀ e ∈ m.entries, e.key = k → e.id ∈ b → m.scanBucket k b = some (some e)) ∧
    ((∀ e ∈ m.entries, e.key = k → e.id ∉ b) → m.scanBucket k b = some none) := by
  induction b with
  | nil => exact ⟨fun e _ _ hin => absurd hin (List.not_mem_nil), fun _ => rfl⟩
  | cons id rest ih =>
    have ih' := ih (fun i hi => hb i (List.mem_cons_of_mem _ hi))
    rcases nodeAt_cases h (hb id (List.mem_cons_self ..)) with ⟨e', he', hid', hn⟩ | hn
    · constructor
      · intro e he hk hin
        simp only [scanBucket, hn]
        by_cases hk' : e'.key = k
        · simp only [hk', if_true]
          rw [eq_of_key_eq h.keys_nodup he' he (hk'.trans hk.symm)]
        · simp only [hk', if_false]
          apply ih'.1 e he hk
          rcases List.mem_cons.mp hin with heq | hr
          · exfalso; apply hk'
            rw [eq_of_id_eq h.ids_nodup he' he (hid'.trans heq.symm)]; exact hk
          · exact hr
      · intro hnone
        simp only [scanBucket, hn]
        by_cases hk' : e'.key = k
        · exact absurd (hid' ▸ List.mem_cons_self ..) (hnone e' he' hk')
        · simp only [hk', if_false]
          exact ih'.2 (fun e he hk hin => hnone e he hk (List.mem_cons_of_mem _ hin))
    · constructor
      · intro e he hk hin
        simp only [scanBucket, hn]
        apply ih'.1 e he hk
        rcases List.mem_cons.mp hin with heq | hr
        · rw [← heq, nodeAt_live h he] at hn; cases hn
        · exact hr
      · intro hnone
        simp only [scanBucket, hn]
        exact ih'.2 (fun e he hk hin => hnone e he hk (List.mem_cons_of_mem _ hin))

/-- **find** returns exactly the live entry with that key. -/
theorem find_spec {m : XMap κ ν} (h : Inv hash m) (k : κ) :
    find hash m k = some (m.entries.find? (fun e => e.key == k)) := by
  unfold find
  by_cases h0 : m.size = 0
  · have : m.entries = [] := List.eq_nil_of_length_eq_zero (h.size_eq ▸ h0)
    simp [h0, this]
  simp only [h0, if_false]
  -- some entry exists, hence the bucket table is not empty
  have hne : m.entries ≠ [] := by
    intro e; apply h0; rw [h.size_eq, e]; rfl
  obtain ⟨e0, he0⟩ := List.exists_mem_of_ne_nil _ hne
  obtain ⟨b0, hb0, _⟩ := h.bucketed e0 he0
  have hlen : m.buckets.length ≠ 0 := by
    intro hz
    have := (List.getElem?_eq_some_iff.mp hb0).1
    omega
  have hlt : hash k % m.buckets.length < m.buckets.length := Nat.mod_lt _ (by omega)
  simp only [doHash, hlen, if_false]
  obtain ⟨b, hbk⟩ : ∃ b, m.buckets[hash k % m.buckets.length]? = some b :=
    ⟨_, List.getElem?_eq_getElem hlt⟩
  simp only [hbk]
  have hbmem : b ∈ m.buckets := List.mem_of_getElem? hbk
  have spec := scanBucket_spec h k b (h.nodangling b hbmem)
  cases hf : m.entries.find? (fun e => e.key == k) with
  | none =>
    apply spec.2
    intro e he hk
    rw [List.find?_eq_none] at hf
    exact absurd (by simpa using hk) (hf e he)
  | some e =>
    have he := List.mem_of_find?_eq_some hf
    have hk : e.key = k := by simpa using List.find?_some hf
    apply spec.1 e he hk
    obtain ⟨b', hb', hin⟩ := h.bucketed e he
    rw [hk, hbk] at hb'
    cases hb'; exact hin

/-! ### bucket table surgery -/

theorem pushBucket_length (t : List (List Nat)) (i id : Nat) : (pushBucket t i id).length = t.length := by
  simp [pushBucket]

theorem pushBucket_get (t : List (List Nat)) (i id j : Nat) :
    (pushBucket t i id)[j]? = if i = j then (t[j]?).map (· ++ [id]) else t[j]? := by
  simp only [pushBucket, List.getElem?_modify]
  by_cases h : i = j <;> cases t[j]? <;> simp [h]

theorem pushBucket_mono (t : List (List Nat)) (i id j : Nat) (b : List Nat) (h : t[j]? = some b) :
    ∃ b', (pushBucket t i id)[j]? = some b' ∧ ∀ x ∈ b, x ∈ b' := by
  rw [pushBucket_get]
  by_cases hij : i = j
  · simp only [hij, if_true, h, Option.map_some]
    exact ⟨_, rfl, fun x hx => List.mem_append_left _ hx⟩
  · simp only [hij, if_false, h]
    exact ⟨_, rfl, fun x hx => hx⟩

theorem pushBucket_origin (t : List (List Nat)) (i id : Nat) (b : List Nat) (hb : b ∈ pushBucket t i id) :
    ∀ x ∈ b, x = id ∨ ∃ b0 ∈ t, x ∈ b0 := by
  intro x hx
  obtain ⟨j, hj⟩ := List.mem_iff_getElem?.mp hb
  rw [pushBucket_get] at hj
  by_cases hij : i = j
  · simp only [hij, if_true] at hj
    cases htj : t[j]? with
    | none => simp [htj] at hj
    | some b0 =>
      simp only [htj, Option.map_some, Option.some.injEq] at hj
      subst hj
      rcases List.mem_append.mp hx with h1 | h1
      · exact Or.inr ⟨b0, List.mem_of_getElem? htj, h1⟩
      · left; simpa using h1
  · simp only [hij, if_false] at hj
    exact Or.inr ⟨b, List.mem_of_getElem? hj, hx⟩

theorem rehash_table (hash : κ → Nat) (n : Nat) (hn : 0 < n) (es : List (MEntry κ ν)) (t : List (List Nat))
    (ht : t.length = n) :
    (es.foldl (fun t e => pushBucket t (hash e.key % n) e.id) t).length = n ∧
    (∀ (j : Nat) (b : List Nat), t[j]? = some b → ∃ b', (es.foldl (fun t e => pushBucket t (hash e.key % n) e.id) t)[j]? = some b' ∧
        ∀ x ∈ b, x ∈ b') ∧
    (∀ e ∈ es, ∃ b, (es.foldl (fun t e => pushBucket t (hash e.key % n) e.id) t)[hash e.key % n]? = some b ∧ e.id ∈ b) ∧
    (∀ b ∈ es.foldl (fun t e => pushBucket t (hash e.key % n) e.id) t, ∀ id ∈ b,
        (∃ b0 ∈ t, id ∈ b0) ∨ ∃ e ∈ es, e.id = id) := by
  induction es generalizing t with
  | nil =>
    refine ⟨ht, fun j b h => ⟨b, h, fun x hx => hx⟩, fun e he => absurd he List.not_mem_nil, ?_⟩
    intro b hb id hid; exact Or.inl ⟨b, hb, hid⟩
  | cons e es ih =>
    simp only [List.foldl_cons]
    have ht' : (pushBucket t (hash e.key % n) e.id).length = n := by rw [pushBucket_length, ht]
    obtain ⟨l1, mono1, mem1, org1⟩ := ih (pushBucket t (hash e.key % n) e.id) ht'
    refine ⟨l1, ?_, ?_, ?_⟩
    · intro j b h
      obtain ⟨b1, hb1, sub1⟩ := pushBucket_mono t (hash e.key % n) e.id j b h
      obtain ⟨b2, hb2, sub2⟩ := mono1 j b1 hb1
      exact ⟨b2, hb2, fun x hx => sub2 x (sub1 x hx)⟩
    · intro e' he'
      rcases List.mem_cons.mp he' with rfl | htl
      · have hlt : hash e'.key % n < t.length := by rw [ht]; exact Nat.mod_lt _ hn
        have hg : (pushBucket t (hash e'.key % n) e'.id)[hash e'.key % n]? = some (t[hash e'.key % n] ++ [e'.id]) := by
          rw [pushBucket_get]; simp [List.getElem?_eq_getElem hlt]
        obtain ⟨b2, hb2, sub2⟩ := mono1 _ _ hg
        exact ⟨b2, hb2, sub2 _ (by simp)⟩
      · exact mem1 e' htl
    · intro b hb id hid
      rcases org1 b hb id hid with ⟨b0, hb0, hin⟩ | ⟨e', he', hid'⟩
      · rcases pushBucket_origin t _ _ b0 hb0 id hin with h1 | h1
        · exact Or.inr ⟨e, List.mem_cons_self .., h1.symm⟩
        · exact Or.inl h1
      · exact Or.inr ⟨e', List.mem_cons_of_mem _ he', hid'⟩

/-- the bucket table built by `rehash` -/
def rehashTable (hash : κ → Nat) (n : Nat) (es : List (MEntry κ ν)) : List (List Nat) :=
  es.foldl (fun t e => pushBucket t (hash e.key % n) e.id) (List.replicate n [])

/-- the bucket capacities computed by `rehash` -/
def rehashCaps (hash : κ → Nat) (n : Nat) (es : List (MEntry κ ν)) : List Nat :=
  (es.foldl (fun (tc : List (List Nat) × List Nat) e =>
      (pushBucket tc.1 (hash e.key % n) e.id, tc.2.modify (hash e.key % n) (pushCap ((tc.1.getD (hash e.key % n) []).length))))
    (List.replicate n [], List.replicate n 0)).2

theorem inv_bcaps {m : XMap κ ν} (h : Inv hash m) (c : List Nat) : Inv hash { m with bcaps := c } :=
  ⟨h.size_eq, h.ids_nodup, h.keys_nodup, h.free_nodup, h.disjoint, h.bucketed, h.nodangling, h.fresh_e, h.fresh_f,
   h.minb, h.lfd⟩

theorem rehash_inv {m : XMap κ ν} (h : Inv hash m) (hs : 0 < 8 * m.size / 5) :
    ∃ m', rehash hash m = some m' ∧ Inv hash m' ∧ m'.entries = m.entries ∧ m'.free = m.free ∧
      m'.nextId = m.nextId ∧ m'.buckets.length ≠ 0 := by
  have hne : ¬ 8 * m.size / 5 = 0 := by omega
  obtain ⟨l1, _, mem1, org1⟩ := rehash_table hash (8 * m.size / 5) hs m.entries
    (List.replicate (8 * m.size / 5) []) (by simp)
  refine ⟨{ m with buckets := rehashTable hash (8 * m.size / 5) m.entries,
                   bcaps := rehashCaps hash (8 * m.size / 5) m.entries }, ?_, ?_, rfl, rfl, rfl, ?_⟩
  · simp only [rehash, hne, if_false, rehashTable, rehashCaps]
  · refine ⟨h.size_eq, h.ids_nodup, h.keys_nodup, h.free_nodup, h.disjoint, ?_, ?_, h.fresh_e, h.fresh_f, h.minb, h.lfd⟩
    · intro e he
      show ∃ b, (rehashTable hash (8 * m.size / 5) m.entries)[hash e.key %
        (rehashTable hash (8 * m.size / 5) m.entries).length]? = some b ∧ e.id ∈ b
      rw [show (rehashTable hash (8 * m.size / 5) m.entries).length = 8 * m.size / 5 from l1]
      exact mem1 e he
    · intro b hb id hid
      rcases org1 b hb id hid with ⟨b0, hb0, hin⟩ | h2
      · rw [List.mem_replicate] at hb0; rw [hb0.2] at hin; cases hin
      · exact Or.inl h2
  · show (rehashTable hash (8 * m.size / 5) m.entries).length ≠ 0
    rw [show (rehashTable hash (8 * m.size / 5) m.entries).length = 8 * m.size / 5 from l1]; exact hne

/-- the last step of `doCreateEntry`: recycle the back of the (non-empty) free list -/
theorem link_inv {m : XMap κ ν} (h : Inv hash m) (k : κ) (v : ν) (hk : ∀ e ∈ m.entries, e.key ≠ k)
    (id : Nat) (hid : m.free.getLast? = some id) (hlen : m.buckets.length ≠ 0) :
    Inv hash { m with free := m.free.dropLast, entries := m.entries ++ [⟨id, k, v⟩],
                      buckets := pushBucket m.buckets (hash k % m.buckets.length) id, size := m.size + 1 } := by
  obtain ⟨ys, hys⟩ := List.getLast?_eq_some_iff.mp hid
  have hdl : m.free.dropLast = ys := by rw [hys, List.dropLast_concat]
  have hidf : id ∈ m.free := by rw [hys]; simp
  have hnd := h.free_nodup
  rw [hys, List.nodup_append] at hnd
  have hidys : id ∉ ys := fun hin => hnd.2.2 id hin id (by simp) rfl
  have hsub : ∀ x ∈ ys, x ∈ m.free := fun x hx => by rw [hys]; exact List.mem_append_left _ hx
  have hsplit : ∀ x ∈ m.free, x = id ∨ x ∈ ys := by
    intro x hx; rw [hys] at hx
    rcases List.mem_append.mp hx with h1 | h1
    · exact Or.inr h1
    · left; simpa using h1
  have hidnew : ∀ e ∈ m.entries, e.id ≠ id := fun e he heq => h.disjoint e he (heq ▸ hidf)
  constructor
  · simp [h.size_eq]
  · simp only [List.map_append, List.map_cons, List.map_nil]
    rw [List.nodup_append]
    refine ⟨h.ids_nodup, by simp, ?_⟩
    intro a ha b hb
    obtain ⟨e, he, rfl⟩ := List.mem_map.mp ha
    have : b = id := by simpa using hb
    rw [this]; exact hidnew e he
  · simp only [List.map_append, List.map_cons, List.map_nil]
    rw [List.nodup_append]
    refine ⟨h.keys_nodup, by simp, ?_⟩
    intro a ha b hb
    obtain ⟨e, he, rfl⟩ := List.mem_map.mp ha
    have : b = k := by simpa using hb
    rw [this]; exact hk e he
  · simp only [hdl]; exact hnd.1
  · intro e he
    simp only [hdl]
    rcases List.mem_append.mp he with h1 | h1
    · exact fun hin => h.disjoint e h1 (hsub _ hin)
    · have : e = ⟨id, k, v⟩ := by simpa using h1
      rw [this]; exact hidys
  · intro e he
    simp only [pushBucket_length]
    rcases List.mem_append.mp he with h1 | h1
    · obtain ⟨b, hb, hin⟩ := h.bucketed e h1
      obtain ⟨b', hb', sub⟩ := pushBucket_mono m.buckets (hash k % m.buckets.length) id _ b hb
      exact ⟨b', hb', sub _ hin⟩
    · have : e = ⟨id, k, v⟩ := by simpa using h1
      subst this
      have hlt : hash k % m.buckets.length < m.buckets.length := Nat.mod_lt _ (by omega)
      refine ⟨m.buckets[hash k % m.buckets.length] ++ [id], ?_, by simp⟩
      rw [pushBucket_get]; simp [List.getElem?_eq_getElem hlt]
  · intro b hb x hx
    simp only [hdl]
    rcases pushBucket_origin m.buckets _ _ b hb x hx with h1 | ⟨b0, hb0, hin⟩
    · exact Or.inl ⟨⟨id, k, v⟩, by simp, h1.symm⟩
    · rcases h.nodangling b0 hb0 x hin with ⟨e, he, hxe⟩ | hf
      · exact Or.inl ⟨e, List.mem_append_left _ he, hxe⟩
      · rcases hsplit x hf with h2 | h2
        · exact Or.inl ⟨⟨id, k, v⟩, by simp, h2.symm⟩
        · exact Or.inr h2
  · intro e he
    rcases List.mem_append.mp he with h1 | h1
    · exact h.fresh_e e h1
    · have : e = ⟨id, k, v⟩ := by simpa using h1
      rw [this]; exact h.fresh_f id hidf
  · intro x hx; simp only [hdl] at hx; exact h.fresh_f x (hsub x hx)
  · exact h.minb
  · exact h.lfd

/-- **doCreateEntry** for an absent key: no undefined behaviour, the invariant again, the entry
appended at the end of the iteration order. -/
theorem createEntry_spec {m : XMap κ ν} (h : Inv hash m) (k : κ) (v : ν) (hk : ∀ e ∈ m.entries, e.key ≠ k) :
    ∃ m' e, createEntry hash m k v = some (m', e) ∧ Inv hash m' ∧ m'.entries = m.entries ++ [e] ∧
      e.key = k ∧ e.val = v := by
  unfold createEntry
  -- step 1: initial buckets
  have h1 : ∃ m1 : XMap κ ν, (if m.buckets.isEmpty then { m with buckets := List.replicate m.minBuckets [], bcaps := List.replicate m.minBuckets 0 } else m) = m1 ∧
      Inv hash m1 ∧ m1.entries = m.entries ∧ m1.buckets.length ≠ 0 := by
    by_cases he : m.buckets.isEmpty
    · simp only [he, if_true]
      have hb : m.buckets = [] := by simpa using he
      have hent : m.entries = [] := by
        cases hes : m.entries with
        | nil => rfl
        | cons e0 _ =>
          obtain ⟨b, hb0, _⟩ := h.bucketed e0 (by rw [hes]; exact List.mem_cons_self ..)
          rw [hb] at hb0; simp at hb0
      refine ⟨_, rfl, ?_, rfl, by simp; have := h.minb; omega⟩
      refine ⟨h.size_eq, h.ids_nodup, h.keys_nodup, h.free_nodup, h.disjoint, ?_, ?_, h.fresh_e, h.fresh_f, h.minb, h.lfd⟩
      · intro e he'; rw [hent] at he'; cases he'
      · intro b hb' id hid; rw [List.mem_replicate] at hb'; rw [hb'.2] at hid; cases hid
    · simp only [he, if_false]
      refine ⟨m, rfl, h, rfl, ?_⟩
      intro hz; apply he; simp [List.eq_nil_of_length_eq_zero hz]
  obtain ⟨m1, e1, i1, ent1, len1⟩ := h1
  simp only [e1]
  -- step 2: rehash when the load factor is reached
  have h2 : ∃ m2 : XMap κ ν, (if m1.lfNum * m1.size / m1.lfDen > m1.buckets.length then rehash hash m1 else some m1) = some m2 ∧
      Inv hash m2 ∧ m2.entries = m.entries ∧ m2.buckets.length ≠ 0 := by
    by_cases hr : m1.lfNum * m1.size / m1.lfDen > m1.buckets.length
    · simp only [hr, if_true]
      have hpos : 0 < m1.lfNum * m1.size / m1.lfDen := by omega
      have hsz : 0 < m1.size := by
        rcases Nat.eq_zero_or_pos m1.size with hz | hz
        · rw [hz] at hpos; simp at hpos
        · exact hz
      obtain ⟨m2, e2, i2, ent2, _, _, len2⟩ := rehash_inv i1 (by omega)
      exact ⟨m2, e2, i2, by rw [ent2, ent1], len2⟩
    · simp only [hr, if_false]
      exact ⟨m1, rfl, i1, ent1, len1⟩
  obtain ⟨m2, e2, i2, ent2, len2⟩ := h2
  simp only [e2, Option.bind_some, doHash, len2, if_false]
  -- step 3: make sure the free list has a node
  have h3 : ∃ m3 : XMap κ ν, (if m2.free.isEmpty then { m2 with free := [m2.nextId], nextId := m2.nextId + 1 } else m2) = m3 ∧
      Inv hash m3 ∧ m3.entries = m.entries ∧ m3.buckets = m2.buckets ∧ m3.free ≠ [] := by
    by_cases hf : m2.free.isEmpty
    · simp only [hf, if_true]
      have hfe : m2.free = [] := by simpa using hf
      refine ⟨_, rfl, ?_, ent2, rfl, by simp⟩
      refine ⟨i2.size_eq, i2.ids_nodup, i2.keys_nodup, by simp, ?_, i2.bucketed, ?_, ?_, ?_, i2.minb, i2.lfd⟩
      · intro e he hin
        have : e.id = m2.nextId := by simpa using hin
        have := i2.fresh_e e he; omega
      · intro b hb id hid
        rcases i2.nodangling b hb id hid with h4 | h4
        · exact Or.inl h4
        · rw [hfe] at h4; cases h4
      · intro e he; have := i2.fresh_e e he; show e.id < m2.nextId + 1; omega
      · intro id hid
        have : id = m2.nextId := by simpa using hid
        show id < m2.nextId + 1; omega
    · simp only [hf, if_false]
      refine ⟨m2, rfl, i2, ent2, rfl, ?_⟩
      intro hz; apply hf; simp [hz]
  obtain ⟨m3, e3, i3, ent3, bk3, fne3⟩ := h3
  simp only [e3]
  cases hgl : m3.free.getLast? with
  | none => exact absurd (List.getLast?_eq_none_iff.mp hgl) fne3
  | some id =>
    simp only
    have hk3 : ∀ e ∈ m3.entries, e.key ≠ k := by rw [ent3]; exact hk
    have len3 : m3.buckets.length ≠ 0 := by rw [bk3]; exact len2
    have := link_inv i3 k v hk3 id hgl len3
    have hl : m3.buckets.length = m2.buckets.length := by rw [bk3]
    rw [hl] at this
    exact ⟨_, _, rfl, inv_bcaps this _, by simp [ent3], rfl, rfl⟩

/-! ### erase -/

theorem length_filter_id_ne {l : List (MEntry κ ν)} (hn : (l.map (·.id)).Nodup) {e : MEntry κ ν} (he : e ∈ l) :
    (l.filter (fun x => x.id != e.id)).length + 1 = l.length := by
  induction l with
  | nil => cases he
  | cons x xs ih =>
    simp only [List.map_cons, List.nodup_cons] at hn
    by_cases hx : x.id = e.id
    · have hall : xs.filter (fun y => y.id != e.id) = xs := by
        rw [List.filter_eq_self]
        intro y hy
        have : y.id ≠ e.id := by
          intro heq; apply hn.1; rw [hx, ← heq]; exact List.mem_map_of_mem hy
        simpa using this
      simp [List.filter_cons, hx, hall]
    · have he' : e ∈ xs := by
        rcases List.mem_cons.mp he with rfl | h1
        · exact absurd rfl hx
        · exact h1
      have := ih hn.2 he'
      simp [List.filter_cons, hx]; omega

/-- **doRemoveEntry**: the node goes to the back of the free list, its bucket pointer stays. -/
theorem removeEntry_inv {m : XMap κ ν} (h : Inv hash m) {e : MEntry κ ν} (he : e ∈ m.entries) :
    Inv hash (removeEntry m e.id) ∧
    (removeEntry m e.id).entries = m.entries.filter (fun x => x.key != e.key) := by
  have hfilt : m.entries.filter (fun x => x.id != e.id) = m.entries.filter (fun x => x.key != e.key) := by
    apply List.filter_congr
    intro x hx
    by_cases hxe : x = e
    · subst hxe; simp
    · have h1 : x.id ≠ e.id := fun heq => hxe (eq_of_id_eq h.ids_nodup hx he heq)
      have h2 : x.key ≠ e.key := fun heq => hxe (eq_of_key_eq h.keys_nodup hx he heq)
      have a1 : (x.id != e.id) = true := by simpa using h1
      have a2 : (x.key != e.key) = true := by simpa using h2
      rw [a1, a2]
  have hsub : (m.entries.filter (fun x => x.id != e.id)).Sublist m.entries := List.filter_sublist
  refine ⟨?_, hfilt⟩
  constructor
  · show m.size - 1 = (m.entries.filter (fun x => x.id != e.id)).length
    have := length_filter_id_ne h.ids_nodup he
    rw [h.size_eq]; omega
  · exact List.Nodup.sublist (hsub.map _) h.ids_nodup
  · exact List.Nodup.sublist (hsub.map _) h.keys_nodup
  · show (m.free ++ [e.id]).Nodup
    rw [List.nodup_append]
    refine ⟨h.free_nodup, by simp, ?_⟩
    intro a ha b hb
    have : b = e.id := by simpa using hb
    rw [this]; intro heq; exact h.disjoint e he (heq ▸ ha)
  · intro x hx
    show x.id ∉ m.free ++ [e.id]
    have hx' := List.mem_filter.mp hx
    have hne : x.id ≠ e.id := by simpa using hx'.2
    intro hin
    rcases List.mem_append.mp hin with h1 | h1
    · exact h.disjoint x hx'.1 h1
    · exact hne (by simpa using h1)
  · intro x hx
    exact h.bucketed x (List.mem_filter.mp hx).1
  · intro b hb id hid
    show (∃ x ∈ m.entries.filter (fun x => x.id != e.id), x.id = id) ∨ id ∈ m.free ++ [e.id]
    rcases h.nodangling b hb id hid with ⟨x, hx, hxid⟩ | hf
    · by_cases hxe : x.id = e.id
      · right; rw [← hxid, hxe]; simp
      · left; exact ⟨x, List.mem_filter.mpr ⟨hx, by simpa using hxe⟩, hxid⟩
    · right; exact List.mem_append_left _ hf
  · intro x hx; exact h.fresh_e x (List.mem_filter.mp hx).1
  · intro id hid
    rcases List.mem_append.mp (show id ∈ m.free ++ [e.id] from hid) with h1 | h1
    · exact h.fresh_f id h1
    · have : id = e.id := by simpa using h1
      rw [this]; exact h.fresh_e e he
  · exact h.minb
  · exact h.lfd

/-- **compactBuckets** drops only pointers to erased nodes. -/
theorem compactBuckets_inv {m : XMap κ ν} (h : Inv hash m) : Inv hash (compactBuckets m) := by
  refine ⟨h.size_eq, h.ids_nodup, h.keys_nodup, h.free_nodup, h.disjoint, ?_, ?_, h.fresh_e, h.fresh_f, h.minb, h.lfd⟩
  · intro e he
    obtain ⟨b, hb, hin⟩ := h.bucketed e he
    refine ⟨b.filter (fun id => !(m.free.contains id)), ?_, ?_⟩
    · show (m.buckets.map _)[hash e.key % (m.buckets.map _).length]? = _
      rw [List.length_map, List.getElem?_map, hb]; rfl
    · apply List.mem_filter.mpr
      refine ⟨hin, ?_⟩
      have := h.disjoint e he
      simpa using this
  · intro b hb id hid
    obtain ⟨b0, hb0, rfl⟩ := List.mem_map.mp (show b ∈ m.buckets.map _ from hb)
    exact h.nodangling b0 hb0 id (List.mem_filter.mp hid).1

theorem inv_eraseCount {m : XMap κ ν} (h : Inv hash m) (c : Nat) : Inv hash { m with eraseCount := c } :=
  ⟨h.size_eq, h.ids_nodup, h.keys_nodup, h.free_nodup, h.disjoint, h.bucketed, h.nodangling, h.fresh_e, h.fresh_f,
   h.minb, h.lfd⟩

/-- **doErase**, including the erase-threshold compaction. -/
theorem doErase_inv {m : XMap κ ν} (h : Inv hash m) {e : MEntry κ ν} (he : e ∈ m.entries) :
    Inv hash (doErase m e.id) ∧ (doErase m e.id).entries = m.entries.filter (fun x => x.key != e.key) := by
  obtain ⟨i1, e1⟩ := removeEntry_inv h he
  unfold doErase
  simp only
  split
  · exact ⟨inv_eraseCount (compactBuckets_inv (inv_eraseCount i1 _)) 0, e1⟩
  · exact ⟨inv_eraseCount i1 _, e1⟩

/-- **clear**: the `doRemoveEntries` loop terminates with an empty entry list and no undefined behaviour. -/
theorem removeEntries_inv (n : Nat) {m : XMap κ ν} (h : Inv hash m) (hn : m.size = n) :
    ∃ m', removeEntries n m = some m' ∧ Inv hash m' ∧ m'.entries = [] := by
  induction n generalizing m with
  | zero =>
    refine ⟨m, rfl, h, ?_⟩
    apply List.eq_nil_of_length_eq_zero; rw [← h.size_eq, hn]
  | succ n ih =>
    cases hes : m.entries with
    | nil => rw [h.size_eq, hes] at hn; cases hn
    | cons e rest =>
      have he : e ∈ m.entries := by rw [hes]; exact List.mem_cons_self ..
      obtain ⟨i1, _⟩ := removeEntry_inv h he
      have hs : (removeEntry m e.id).size = n := by show m.size - 1 = n; omega
      obtain ⟨m', e', i', ent'⟩ := ih i1 hs
      exact ⟨m', by simp only [removeEntries, hes]; exact e', i', ent'⟩

theorem clear_spec {m : XMap κ ν} (h : Inv hash m) :
    ∃ m', clear m = some m' ∧ Inv hash m' ∧ m'.entries = [] := by
  obtain ⟨m1, e1, i1, ent1⟩ := removeEntries_inv m.size h rfl
  refine ⟨{ m1 with buckets := m1.buckets.map fun _ => [], eraseCount := 0 }, by simp only [clear, e1, Option.map_some], ?_, ent1⟩
  refine ⟨i1.size_eq, i1.ids_nodup, i1.keys_nodup, i1.free_nodup, i1.disjoint, ?_, ?_, i1.fresh_e, i1.fresh_f, i1.minb, i1.lfd⟩
  · intro e he; rw [show ({ m1 with buckets := m1.buckets.map fun _ => [], eraseCount := 0 } : XMap κ ν).entries = m1.entries from rfl, ent1] at he; cases he
  · intro b hb id hid
    obtain ⟨b0, _, rfl⟩ := List.mem_map.mp (show b ∈ m1.buckets.map (fun _ => []) from hb)
    cases hid

/-! ### the abstract view -/

theorem lookup_toList (es : List (MEntry κ ν)) (k : κ) :
    (es.map fun e => (e.key, e.val)).lookup k = (es.find? (fun e => e.key == k)).map (·.val) := by
  induction es with
  | nil => rfl
  | cons e es ih =>
    simp only [List.map_cons, List.lookup_cons, List.find?_cons]
    by_cases h : e.key = k
    · simp [h]
    · have h1 : (k == e.key) = false := by simpa using fun heq => h heq.symm
      have h2 : (e.key == k) = false := by simpa using h
      rw [h1, h2]; exact ih

theorem new_inv (lfNum lfDen minB thr : Nat) (h1 : 0 < minB) (h2 : 0 < lfDen) :
    Inv hash (XMap.new lfNum lfDen minB thr : XMap κ ν) := by
  refine ⟨rfl, by simp [XMap.new], by simp [XMap.new], by simp [XMap.new], ?_, ?_, ?_, ?_, ?_, h1, h2⟩ <;>
    intro x hx <;> simp [XMap.new] at hx

theorem swapInto_inv {a b : XMap κ ν} (ha : Inv hash a) (hb : Inv hash b) : Inv hash (swapInto a b) :=
  ⟨hb.size_eq, hb.ids_nodup, hb.keys_nodup, hb.free_nodup, hb.disjoint, hb.bucketed, hb.nodangling, hb.fresh_e,
   hb.fresh_f, ha.minb, ha.lfd⟩

/-- **insert(key, data)** -/
theorem insert_spec {m : XMap κ ν} (h : Inv hash m) (k : κ) (v : ν) :
    ∃ m', insert hash m k v = some m' ∧ Inv hash m' ∧
      m'.toList = (match m.toList.lookup k with | some _ => m.toList | none => m.toList ++ [(k, v)]) := by
  unfold insert
  rw [find_spec h k]
  simp only [Option.bind_some, toList, lookup_toList]
  cases hf : m.entries.find? (fun e => e.key == k) with
  | some e => exact ⟨m, rfl, h, rfl⟩
  | none =>
    have hk : ∀ e ∈ m.entries, e.key ≠ k := by
      intro e he heq
      rw [List.find?_eq_none] at hf
      exact hf e he (by simpa using heq)
    obtain ⟨m', e, hc, i', ent', ek, ev⟩ := createEntry_spec h k v hk
    refine ⟨m', by simp [hc], i', ?_⟩
    simp [ent', ek, ev]

/-- **erase(key)** -/
theorem erase_spec {m : XMap κ ν} (h : Inv hash m) (k : κ) :
    ∃ m' c, erase hash m k = some (m', c) ∧ Inv hash m' ∧
      m'.toList = m.toList.filter (fun p => p.1 != k) ∧
      c = (if (m.toList.lookup k).isSome then 1 else 0) := by
  unfold erase
  rw [find_spec h k]
  simp only [Option.map_some, toList, lookup_toList]
  cases hf : m.entries.find? (fun e => e.key == k) with
  | some e =>
    have he := List.mem_of_find?_eq_some hf
    have hk : e.key = k := by simpa using List.find?_some hf
    obtain ⟨i', ent'⟩ := doErase_inv h he
    refine ⟨_, _, rfl, i', ?_, by simp⟩
    rw [ent', hk, List.filter_map]; rfl
  | none =>
    refine ⟨m, 0, rfl, h, ?_, by simp⟩
    symm
    rw [List.filter_eq_self]
    intro p hp
    obtain ⟨e, he, rfl⟩ := List.mem_map.mp hp
    rw [List.find?_eq_none] at hf
    have := hf e he
    simpa using this

/-- **find(key)** -/
theorem find_lookup {m : XMap κ ν} (h : Inv hash m) (k : κ) :
    (find hash m k).map (·.map (·.val)) = some (m.toList.lookup k) := by
  rw [find_spec h k, toList, lookup_toList]; rfl

/-! ### operator[] assignment, copy construction, operator= -/

theorem lookup_none_of_not_mem (l : List (κ × ν)) (k : κ) (h : ∀ p ∈ l, p.1 ≠ k) : l.lookup k = none := by
  induction l with
  | nil => rfl
  | cons p t ih =>
    obtain ⟨a, b⟩ := p
    have h1 : a ≠ k := h (a, b) (List.mem_cons_self ..)
    have h2 : (k == a) = false := by simpa using fun e => h1 e.symm
    simp only [List.lookup_cons, h2]
    exact ih (fun q hq => h q (List.mem_cons_of_mem _ hq))

/-- assignment through the iterator returned by `operator[]`/`find`: ids, keys and buckets unchanged -/
theorem updateVal_inv {m : XMap κ ν} (h : Inv hash m) (id : Nat) (v : ν) :
    Inv hash { m with entries := m.entries.map fun x => if x.id = id then { x with val := v } else x } := by
  have hid : (m.entries.map fun x => if x.id = id then { x with val := v } else x).map (·.id) = m.entries.map (·.id) := by
    rw [List.map_map]; apply List.map_congr_left; intro x _; simp only [Function.comp]; split <;> rfl
  have hkey : (m.entries.map fun x => if x.id = id then { x with val := v } else x).map (·.key) = m.entries.map (·.key) := by
    rw [List.map_map]; apply List.map_congr_left; intro x _; simp only [Function.comp]; split <;> rfl
  have hmem : ∀ y ∈ (m.entries.map fun x => if x.id = id then { x with val := v } else x),
      ∃ x ∈ m.entries, y.id = x.id ∧ y.key = x.key := by
    intro y hy
    obtain ⟨x, hx, rfl⟩ := List.mem_map.mp hy
    exact ⟨x, hx, by split <;> rfl, by split <;> rfl⟩
  refine ⟨by simp [h.size_eq], by rw [hid]; exact h.ids_nodup, by rw [hkey]; exact h.keys_nodup, h.free_nodup,
    ?_, ?_, ?_, ?_, h.fresh_f, h.minb, h.lfd⟩
  · intro y hy
    obtain ⟨x, hx, e1, _⟩ := hmem y hy
    rw [e1]; exact h.disjoint x hx
  · intro y hy
    obtain ⟨x, hx, e1, e2⟩ := hmem y hy
    rw [e1, e2]; exact h.bucketed x hx
  · intro b hb i hi
    rcases h.nodangling b hb i hi with ⟨x, hx, hxi⟩ | hf
    · left
      refine ⟨if x.id = id then { x with val := v } else x, List.mem_map_of_mem hx, ?_⟩
      split <;> exact hxi
    · exact Or.inr hf
  · intro y hy
    obtain ⟨x, hx, e1, _⟩ := hmem y hy
    rw [e1]; exact h.fresh_e x hx

theorem updateVal_toList {m : XMap κ ν} (h : Inv hash m) {e : MEntry κ ν} (he : e ∈ m.entries) (v : ν) :
    (m.entries.map fun x => if x.id = e.id then { x with val := v } else x).map (fun x => (x.key, x.val)) =
      m.toList.map (fun p => if p.1 = e.key then (e.key, v) else p) := by
  unfold toList
  rw [List.map_map, List.map_map]
  apply List.map_congr_left
  intro x hx
  simp only [Function.comp]
  by_cases hxe : x = e
  · subst hxe; simp
  · have h1 : x.id ≠ e.id := fun heq => hxe (eq_of_id_eq h.ids_nodup hx he heq)
    have h2 : x.key ≠ e.key := fun heq => hxe (eq_of_key_eq h.keys_nodup hx he heq)
    simp [h1, h2]

/-- **`map[key] = v`** -/
theorem setAt_spec {m : XMap κ ν} (h : Inv hash m) (dflt : ν) (k : κ) (v : ν) :
    ∃ m', setAt hash dflt m k v = some m' ∧ Inv hash m' ∧
      m'.toList = (match m.toList.lookup k with
        | some _ => m.toList.map (fun p => if p.1 = k then (k, v) else p)
        | none => m.toList ++ [(k, v)]) := by
  unfold setAt
  rw [find_spec h k]
  simp only [Option.bind_some, toList, lookup_toList]
  cases hf : m.entries.find? (fun e => e.key == k) with
  | some e =>
    have he := List.mem_of_find?_eq_some hf
    have hk : e.key = k := by simpa using List.find?_some hf
    refine ⟨_, rfl, updateVal_inv h e.id v, ?_⟩
    have := updateVal_toList h he v
    simp only [toList, hk] at this
    simpa using this
  | none =>
    have hk : ∀ e ∈ m.entries, e.key ≠ k := by
      intro e he heq
      rw [List.find?_eq_none] at hf
      exact hf e he (by simpa using heq)
    obtain ⟨m', e, hc, i', ent', ek, ev⟩ := createEntry_spec h k dflt hk
    refine ⟨_, by simp only [hc, Option.map_some], updateVal_inv i' e.id v, ?_⟩
    have he : e ∈ m'.entries := by rw [ent']; simp
    have := updateVal_toList i' he v
    simp only [toList] at this
    simp only [Option.map_none]
    rw [this, ent', ek]
    simp only [List.map_append, List.map_cons, List.map_nil, ek, if_true]
    congr 1
    rw [List.map_map]
    conv => rhs; rw [← List.map_id (List.map (fun e => (e.key, e.val)) m.entries)]
    rw [List.map_map]
    apply List.map_congr_left
    intro x hx
    have : x.key ≠ k := hk x hx
    simp [this]

theorem insertAll_spec (l : List (κ × ν)) {m : XMap κ ν} (h : Inv hash m) (hn : (l.map (·.1)).Nodup)
    (hd : ∀ p ∈ l, ∀ e ∈ m.entries, e.key ≠ p.1) :
    ∃ m', insertAll hash l m = some m' ∧ Inv hash m' ∧ m'.toList = m.toList ++ l := by
  induction l generalizing m with
  | nil => exact ⟨m, rfl, h, by simp⟩
  | cons p t ih =>
    obtain ⟨k, v⟩ := p
    simp only [List.map_cons, List.nodup_cons] at hn
    obtain ⟨m1, e1, i1, t1⟩ := insert_spec h k v
    have hl : m.toList.lookup k = none := by
      apply lookup_none_of_not_mem
      intro q hq
      obtain ⟨e, he, rfl⟩ := List.mem_map.mp hq
      exact hd (k, v) (List.mem_cons_self ..) e he
    simp only [hl] at t1
    have hd1 : ∀ p ∈ t, ∀ e ∈ m1.entries, e.key ≠ p.1 := by
      intro p hp e he
      have : (e.key, e.val) ∈ m1.toList := List.mem_map_of_mem he
      rw [t1] at this
      rcases List.mem_append.mp this with h1 | h1
      · obtain ⟨e0, he0, heq⟩ := List.mem_map.mp h1
        have : e0.key = e.key := by simpa using congrArg Prod.fst heq
        rw [← this]; exact hd p (List.mem_cons_of_mem _ hp) e0 he0
      · have : e.key = k := by simpa using congrArg Prod.fst (List.mem_singleton.mp h1)
        rw [this]; intro heq; exact hn.1 (heq ▸ List.mem_map_of_mem hp)
    obtain ⟨m2, e2, i2, t2⟩ := ih i1 hn.2 hd1
    exact ⟨m2, by simp [insertAll, e1, e2], i2, by rw [t2, t1]; simp⟩

/-- the freshly constructed target of the copy constructor, before the insert loop -/
def copyInit (rhs : XMap κ ν) : XMap κ ν :=
  { lfNum := rhs.lfNum, lfDen := rhs.lfDen, minBuckets := rhs.minBuckets,
    buckets := List.replicate (rhs.lfNum * rhs.size / rhs.lfDen + 1) [],
    bcaps := List.replicate (rhs.lfNum * rhs.size / rhs.lfDen + 1) 0,
    eraseThreshold := rhs.eraseThreshold }

/-- **copy constructor** -/
theorem copyOf_spec {rhs : XMap κ ν} (h : Inv hash rhs) :
    ∃ m', copyOf hash rhs = some m' ∧ Inv hash m' ∧ m'.toList = rhs.toList := by
  have hc : copyOf hash rhs = insertAll hash rhs.toList (copyInit rhs) := rfl
  rw [hc]
  have h0 : Inv hash (copyInit rhs) := by
    refine ⟨rfl, by simp [copyInit], by simp [copyInit], by simp [copyInit], ?_, ?_, ?_, ?_, ?_, h.minb, h.lfd⟩
    · intro x hx; cases hx
    · intro x hx; cases hx
    · intro b hb id hid
      have hb' : b ∈ List.replicate (rhs.lfNum * rhs.size / rhs.lfDen + 1) ([] : List Nat) := hb
      rw [List.mem_replicate] at hb'; rw [hb'.2] at hid; cases hid
    · intro x hx; cases hx
    · intro x hx; cases hx
  have hn : (rhs.toList.map (·.1)).Nodup := by
    unfold toList; rw [List.map_map]; exact h.keys_nodup
  obtain ⟨m', e, i, t⟩ := insertAll_spec rhs.toList h0 hn (by intro p _ e he; cases he)
  exact ⟨m', e, i, by rw [t]; rfl⟩

/-- **operator=** -/
theorem assign_spec {m rhs : XMap κ ν} (hm : Inv hash m) (h : Inv hash rhs) :
    ∃ m', assign hash m rhs = some m' ∧ Inv hash m' ∧ m'.toList = rhs.toList := by
  obtain ⟨t, e, i, tl⟩ := copyOf_spec h
  exact ⟨swapInto m t, by simp [assign, e], swapInto_inv hm i, tl⟩

end XalanModel.Containers.XMap
