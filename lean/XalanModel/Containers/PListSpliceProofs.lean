/-
`XalanList::splice(pos, list, toInsert)` at pointer level, source and destination the same list: the six
pointer writes of `PList.lean` (`PL.splice`: unlink `toInsert`, then link it before `pos` — `pos.prev` is read
*after* the unlinking) move the node `m` from its place in the ring to the place in front of `p`, for every
pair of places; no other node changes address, links to other nodes, or value; the free chain is untouched.
Composes `ring_unlink` and `ring_link`.  Core Lean only.
-/
import XalanModel.Containers.PListProofs

namespace XalanModel.Containers
namespace PL
variable {α : Type}

theorem last_decomp (hd : Nat) (A : List Nat) : ∃ P q, hd :: A = P ++ [q] := by
  rcases List.eq_nil_or_concat (hd :: A) with h1 | ⟨P, q, h1⟩
  · cases h1
  · exact ⟨P, q, by simpa using h1⟩

theorem mem_of_last {hd : Nat} {A P : List Nat} {q : Nat} (h : hd :: A = P ++ [q]) : q ∈ hd :: A := by
  rw [h]; simp

/-- **splice of one node inside a list**: `A ++ m :: B` is the ring before, `A' ++ B'` is the same ring without
`m` split at the target position, `p` the node at that position (`l.head` for `end()`). -/
theorem splice_same_refines (h : PHeap α) (l : PL) (A B A' B' fs : List Nat) (m p : Nat) (P1 : List Nat)
    (w : PWF h l (A ++ m :: B) fs) (hsplit : A ++ B = A' ++ B') (hB' : l.head :: B'.reverse = P1 ++ [p]) :
    ∃ h', splice h l p m = some (h', l) ∧ PWF h' l (A' ++ m :: B') fs ∧ h'.valOf = h.valOf ∧
      h'.nodes.length = h.nodes.length := by
  obtain ⟨hh, hnd, hval, fwd, bwd, freec, vals⟩ := w
  -- neighbours of `m` before the call
  obtain ⟨P, q, hA⟩ := last_decomp l.head A
  obtain ⟨P0, p0, hB⟩ := last_decomp l.head B.reverse
  -- neighbour of the target position after unlinking
  obtain ⟨P2, q', hA'⟩ := last_decomp l.head A'
  have hndR : (l.head :: (A ++ m :: B)).Nodup := by
    have : (l.head :: (A ++ m :: B) ++ fs).Nodup := by simpa [List.append_assoc] using hnd
    exact (List.nodup_append.mp this).1
  have hdisj : ∀ a ∈ fs, a ∉ l.head :: (A ++ m :: B) := by
    have : (l.head :: (A ++ m :: B) ++ fs).Nodup := by simpa [List.append_assoc] using hnd
    intro a ha hin; exact (List.nodup_append.mp this).2.2 a hin a ha rfl
  have hsub : ∀ a, a ∈ l.head :: (A ++ B) → a ∈ l.head :: (A ++ m :: B) := by
    intro a ha
    simp only [List.mem_cons, List.mem_append] at ha ⊢
    rcases ha with h1 | h1 | h1
    · exact Or.inl h1
    · exact Or.inr (Or.inl h1)
    · exact Or.inr (Or.inr (Or.inr h1))
  have hvalR : ∀ a ∈ l.head :: (A ++ m :: B), a ≠ 0 ∧ a < h.nodes.length := by
    intro a ha
    apply hval
    rcases List.mem_cons.mp ha with h1 | h1
    · rw [h1]; simp
    · exact List.mem_cons_of_mem _ (List.mem_append_left _ h1)
  have hndAB : (l.head :: (A ++ B)).Nodup ∧ m ∉ l.head :: (A ++ B) := by
    have hperm : (l.head :: (A ++ m :: B)).Perm (m :: l.head :: (A ++ B)) := by
      have h1 : (A ++ m :: B).Perm (m :: (A ++ B)) := List.perm_middle
      exact (List.Perm.cons _ h1).trans (List.Perm.swap ..)
    have := hperm.nodup_iff.mp hndR
    exact ⟨(List.nodup_cons.mp this).2, (List.nodup_cons.mp this).1⟩
  obtain ⟨hndAB, hmAB⟩ := hndAB
  have hmmem : m ∈ l.head :: (A ++ m :: B) := by simp
  have hmv := hvalR m hmmem
  have hqmem : q ∈ l.head :: (A ++ B) := by
    rcases List.mem_cons.mp (mem_of_last hA) with h1 | h1
    · rw [h1]; simp
    · exact List.mem_cons_of_mem _ (List.mem_append_left _ h1)
  have hp0mem : p0 ∈ l.head :: (A ++ B) := by
    rcases List.mem_cons.mp (mem_of_last hB) with h1 | h1
    · rw [h1]; simp
    · exact List.mem_cons_of_mem _ (List.mem_append_right _ (List.mem_reverse.mp h1))
  have hq'mem : q' ∈ l.head :: (A ++ B) := by
    rw [hsplit]
    rcases List.mem_cons.mp (mem_of_last hA') with h1 | h1
    · rw [h1]; simp
    · exact List.mem_cons_of_mem _ (List.mem_append_left _ h1)
  have hpmem : p ∈ l.head :: (A ++ B) := by
    rw [hsplit]
    rcases List.mem_cons.mp (mem_of_last hB') with h1 | h1
    · rw [h1]; simp
    · exact List.mem_cons_of_mem _ (List.mem_append_right _ (List.mem_reverse.mp h1))
  have hqv := hvalR q (hsub q hqmem)
  have hp0v := hvalR p0 (hsub p0 hp0mem)
  have hq'v := hvalR q' (hsub q' hq'mem)
  have hpv := hvalR p (hsub p hpmem)
  have hqm : q ≠ m := fun e => hmAB (e ▸ hqmem)
  have hp0m : p0 ≠ m := fun e => hmAB (e ▸ hp0mem)
  have hq'm : q' ≠ m := fun e => hmAB (e ▸ hq'mem)
  have hpm : p ≠ m := fun e => hmAB (e ▸ hpmem)
  -- ring facts
  obtain ⟨hnm, hpvm, _, _, fwd1, bwd1⟩ :=
    ring_unlink h.nextOf h.prevOf l.head m q p0 A B P P0 hA hB hndR fwd bwd
  rw [hnm] at fwd1; rw [hpvm] at bwd1
  rw [hsplit] at fwd1 bwd1 hndAB hmAB
  obtain ⟨hnq', hpp, fwd2, bwd2⟩ :=
    ring_link (fupd h.nextOf q p0) (fupd h.prevOf p0 q) l.head m q' p A' B' P2 P1 hA' hB' hndAB hmAB fwd1 bwd1
  -- run the six writes
  unfold splice positionNode
  simp only [hpm, if_false, hpv.1]
  rw [hpvm, hnm]
  obtain ⟨h2, e2, l2, n2, p2, v2⟩ := PHeap.setNext_spec h q p0 hqv.1 hqv.2
  simp only [e2, Option.bind_some]
  have hn2m : h2.nextOf m = p0 := by rw [n2, fupd_other _ _ _ _ hqm.symm, hnm]
  have hp2m : h2.prevOf m = q := by rw [p2, hpvm]
  rw [hn2m, hp2m]
  obtain ⟨h3, e3, l3, p3, n3, v3⟩ := PHeap.setPrev_spec h2 p0 q hp0v.1 (l2 ▸ hp0v.2)
  simp only [e3, Option.bind_some]
  have hp3p : h3.prevOf p = q' := by rw [p3, p2]; exact hpp
  rw [hp3p]
  obtain ⟨h4, e4, l4, p4, n4, v4⟩ := PHeap.setPrev_spec h3 m q' hmv.1 (by rw [l3, l2]; exact hmv.2)
  simp only [e4, Option.bind_some]
  obtain ⟨h5, e5, l5, n5, p5, v5⟩ := PHeap.setNext_spec h4 m p hmv.1 (by rw [l4, l3, l2]; exact hmv.2)
  simp only [e5, Option.bind_some]
  have hp5p : h5.prevOf p = q' := by rw [p5, p4, fupd_other _ _ _ _ hpm, hp3p]
  rw [hp5p]
  obtain ⟨h6, e6, l6, n6, p6, v6⟩ := PHeap.setNext_spec h5 q' m hq'v.1 (by rw [l5, l4, l3, l2]; exact hq'v.2)
  simp only [e6, Option.bind_some]
  obtain ⟨h7, e7, l7, p7, n7, v7⟩ := PHeap.setPrev_spec h6 p m hpv.1 (by rw [l6, l5, l4, l3, l2]; exact hpv.2)
  simp only [e7, Option.map_some]
  have hlen : h7.nodes.length = h.nodes.length := by rw [l7, l6, l5, l4, l3, l2]
  have hnx : h7.nextOf = fupd (fupd (fupd h.nextOf q p0) m p) q' m := by rw [n7, n6, n5, n4, n3, n2]
  have hpv7 : h7.prevOf = fupd (fupd (fupd h.prevOf p0 q) m q') p m := by rw [p7, p6, p5, p4, p3, p2]
  have hvl : h7.valOf = h.valOf := by rw [v7, v6, v5, v4, v3, v2]
  refine ⟨h7, rfl, ⟨hh, ?_, ?_, ?_, ?_, ?_, ?_⟩, hvl, hlen⟩
  · -- same set of nodes
    have hperm : (A' ++ m :: B').Perm (A ++ m :: B) := by
      have h1 : (A' ++ m :: B').Perm (m :: (A' ++ B')) := List.perm_middle
      have h2 : (A ++ m :: B).Perm (m :: (A ++ B)) := List.perm_middle
      rw [← hsplit] at h1
      exact h1.trans h2.symm
    have : (l.head :: ((A' ++ m :: B') ++ fs)).Perm (l.head :: ((A ++ m :: B) ++ fs)) :=
      List.Perm.cons _ (List.Perm.append_right _ hperm)
    exact this.nodup_iff.mpr hnd
  · intro a ha
    rw [hlen]
    apply hval
    have hperm : (A' ++ m :: B').Perm (A ++ m :: B) := by
      have h1 : (A' ++ m :: B').Perm (m :: (A' ++ B')) := List.perm_middle
      have h2 : (A ++ m :: B).Perm (m :: (A ++ B)) := List.perm_middle
      rw [← hsplit] at h1
      exact h1.trans h2.symm
    have : (l.head :: ((A' ++ m :: B') ++ fs)).Perm (l.head :: ((A ++ m :: B) ++ fs)) :=
      List.Perm.cons _ (List.Perm.append_right _ hperm)
    exact this.mem_iff.mp ha
  · show lseg h7.nextOf l.head (l.head :: (A' ++ m :: B')) l.head
    rw [hnx]; exact fwd2
  · show lseg h7.prevOf l.head (l.head :: (A' ++ m :: B').reverse) l.head
    rw [hpv7]; exact bwd2
  · show lseg h7.nextOf l.free fs 0
    apply lseg_congr _ freec
    intro a ha
    have hna := hdisj a ha
    have haq : a ≠ q := fun e => hna (e ▸ hsub q hqmem)
    have ham : a ≠ m := fun e => hna (e ▸ hmmem)
    have haq' : a ≠ q' := fun e => hna (e ▸ hsub q' (by rw [hsplit]; exact hsplit ▸ hq'mem))
    rw [hnx, fupd_other _ _ _ _ haq', fupd_other _ _ _ _ ham, fupd_other _ _ _ _ haq]
  · intro n hn
    rw [hvl]
    apply vals
    have hperm : (A' ++ m :: B').Perm (A ++ m :: B) := by
      have h1 : (A' ++ m :: B').Perm (m :: (A' ++ B')) := List.perm_middle
      have h2 : (A ++ m :: B).Perm (m :: (A ++ B)) := List.perm_middle
      rw [← hsplit] at h1
      exact h1.trans h2.symm
    exact hperm.mem_iff.mp hn

end PL
end XalanModel.Containers
