import XalanModel.Containers.Bitmap
/-!
`XalanBitmap`: the byte / mask arithmetic implements a set of bit numbers.
-/
namespace XalanModel.Containers.Bitmap

/-- the three mask operations on one byte, read back through the test mask (complete table) -/
theorem byte_ops_table : ∀ u ∈ List.range 256, ∀ k ∈ List.range 8, ∀ j ∈ List.range 8,
    (((u ||| 2 ^ k) &&& 2 ^ j != 0) = ((u &&& 2 ^ j != 0) || decide (j = k))) ∧
    (((u &&& (255 - 2 ^ k)) &&& 2 ^ j != 0) = ((u &&& 2 ^ j != 0) && !decide (j = k))) ∧
    (((u ^^^ 2 ^ k) &&& 2 ^ j != 0) = ((u &&& 2 ^ j != 0) != decide (j = k))) ∧
    (u ||| 2 ^ k) < 256 ∧ (u &&& (255 - 2 ^ k)) < 256 ∧ (u ^^^ 2 ^ k) < 256 := by
  decide +kernel

theorem byte_ops (u k j : Nat) (hu : u < 256) (hk : k < 8) (hj : j < 8) :
    (((u ||| 2 ^ k) &&& 2 ^ j != 0) = ((u &&& 2 ^ j != 0) || decide (j = k))) ∧
    (((u &&& (255 - 2 ^ k)) &&& 2 ^ j != 0) = ((u &&& 2 ^ j != 0) && !decide (j = k))) ∧
    (((u ^^^ 2 ^ k) &&& 2 ^ j != 0) = ((u &&& 2 ^ j != 0) != decide (j = k))) ∧
    (u ||| 2 ^ k) < 256 ∧ (u &&& (255 - 2 ^ k)) < 256 ∧ (u ^^^ 2 ^ k) < 256 :=
  byte_ops_table u (List.mem_range.mpr hu) k (List.mem_range.mpr hk) j (List.mem_range.mpr hj)

/-- every stored unit is a byte -/
def Inv (b : Bitmap) : Prop := ∀ u ∈ b.units, u < 256

theorem new_inv (n : Nat) : Inv (Bitmap.new n) := by
  intro u hu; simp only [Bitmap.new, List.mem_replicate] at hu; rw [hu.2]; decide

theorem same_bit_iff (j bit : Nat) : (j / 8 = bit / 8 ∧ j % 8 = bit % 8) ↔ j = bit := by
  constructor
  · rintro ⟨h1, h2⟩
    have a := Nat.div_add_mod j 8
    have b := Nat.div_add_mod bit 8
    omega
  · rintro rfl; exact ⟨rfl, rfl⟩

/-- a byte update that acts on the tested bit like `g` changes exactly bit `bit` of the bitmap -/
theorem update_spec (b : Bitmap) (bit : Nat) (f : Nat → Nat) (g : Bool → Bool → Bool) (h : Inv b)
    (hlt : bit / 8 < b.units.length) (hg : ∀ x, g x false = x)
    (hf : ∀ u, u < 256 → ∀ jj, jj < 8 →
      ((f u &&& 2 ^ jj != 0) = g (u &&& 2 ^ jj != 0) (decide (jj = bit % 8))) ∧ f u < 256) :
    ∃ b', update b bit f = some b' ∧ Inv b' ∧ b'.size = b.size ∧
      ∀ j, b'.isSet j = (b.isSet j).map fun x => g x (decide (j = bit)) := by
  refine ⟨{ b with units := b.units.modify (bit / 8) f }, by simp [update, hlt], ?_, rfl, ?_⟩
  · intro u hu
    obtain ⟨i, hi⟩ := List.mem_iff_getElem?.mp (show u ∈ b.units.modify (bit / 8) f from hu)
    rw [List.getElem?_modify] at hi
    cases hbi : b.units[i]? with
    | none => simp [hbi] at hi
    | some u0 =>
      have hu0 : u0 < 256 := h u0 (List.mem_of_getElem? hbi)
      by_cases hc : bit / 8 = i
      · simp [hbi, hc] at hi; rw [← hi]; exact (hf u0 hu0 0 (by omega)).2
      · simp [hbi, hc] at hi; rw [← hi]; exact hu0
  · intro j
    simp only [isSet]
    rw [List.getElem?_modify]
    cases hbj : b.units[j / 8]? with
    | none => simp
    | some u0 =>
      have hu0 : u0 < 256 := h u0 (List.mem_of_getElem? hbj)
      have hj8 : j % 8 < 8 := Nat.mod_lt _ (by omega)
      by_cases hc : bit / 8 = j / 8
      · simp only [hc, if_true, Option.map_some, Functor.map, Option.map]
        rw [(hf u0 hu0 (j % 8) hj8).1]
        congr 2
        by_cases hm : j % 8 = bit % 8
        · have : j = bit := (same_bit_iff j bit).mp ⟨hc.symm, hm⟩
          simp [hm, this]
        · have : j ≠ bit := fun e => hm (by rw [e])
          simp [hm, this]
      · have : j ≠ bit := fun e => hc (by rw [e])
        simp [hc, this, hg]

end XalanModel.Containers.Bitmap
