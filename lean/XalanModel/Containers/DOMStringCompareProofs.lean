import XalanModel.Containers.DOMStringCompare
import XalanModel.Containers.DOMStringProofs
/-!
The comparison family against its specification: lexicographic order of `List Nat` (what
`std::u16string::compare` decides), equality, equality / order up to ASCII case.
-/
namespace XalanModel.Containers

theorem doCompare_eq_zero (l r : List Nat) : doCompare l r = 0 ↔ l = r := by
  induction l generalizing r with
  | nil => cases r <;> simp [doCompare]
  | cons a l ih =>
    cases r with
    | nil => simp [doCompare]
    | cons b r =>
      simp only [doCompare]
      by_cases h : a = b
      · simp [h, ih]
      · simp only [ne_eq, h, not_false_eq_true, if_true, List.cons.injEq, false_and, iff_false]
        omega

theorem doCompare_neg (l r : List Nat) : doCompare l r < 0 ↔ l < r := by
  induction l generalizing r with
  | nil =>
    cases r with
    | nil => simp [doCompare, List.not_lt_nil]
    | cons b r => simp [doCompare, List.nil_lt_cons]
  | cons a l ih =>
    cases r with
    | nil => simp [doCompare, List.not_lt_nil]
    | cons b r =>
      simp only [doCompare, List.cons_lt_cons_iff]
      by_cases h : a = b
      · simp [h, ih]
      · simp only [ne_eq, h, not_false_eq_true, if_true, false_and, or_false]
        omega

theorem doCompare_pos (l r : List Nat) : 0 < doCompare l r ↔ r < l := by
  induction l generalizing r with
  | nil =>
    cases r with
    | nil => simp [doCompare, List.not_lt_nil]
    | cons b r => simp [doCompare, List.not_lt_nil]
  | cons a l ih =>
    cases r with
    | nil => simp [doCompare, List.nil_lt_cons]
    | cons b r =>
      simp only [doCompare, List.cons_lt_cons_iff]
      by_cases h : a = b
      · simp [h, ih]
      · have h' : ¬ b = a := fun e => h e.symm
        simp only [ne_eq, h, not_false_eq_true, if_true, h', false_and, or_false]
        omega

theorem equalsUnits_go (l r : List Nat) (h : l.length = r.length) : equalsUnits.go l r = decide (l = r) := by
  induction l generalizing r with
  | nil => cases r <;> simp_all [equalsUnits.go]
  | cons a l ih =>
    cases r with
    | nil => simp at h
    | cons b r =>
      simp only [equalsUnits.go]
      by_cases hab : a = b
      · simp only [List.length_cons, Nat.add_right_cancel_iff] at h
        simp [hab, ih r h]
      · simp [hab]

/-- static `equals`: true exactly for equal unit sequences -/
theorem equalsUnits_spec (l r : List Nat) : equalsUnits l r = decide (l = r) := by
  unfold equalsUnits
  by_cases h : l.length = r.length
  · simp only [h, ne_eq, not_true_eq_false, if_false]; exact equalsUnits_go l r h
  · have : l ≠ r := fun e => h (by rw [e])
    simp [h, this]

theorem toUpper_pair (a b : Nat) :
    (¬ (a ≠ b ∧ toUpperASCII a ≠ b ∧ a ≠ toUpperASCII b)) ↔ toUpperASCII a = toUpperASCII b := by
  unfold toUpperASCII
  split <;> split <;> omega

theorem equalsIgnoreCaseLoop_spec (l r : List Nat) (h : l.length = r.length) :
    equalsIgnoreCaseLoop l r = decide (l.map toUpperASCII = r.map toUpperASCII) := by
  induction l generalizing r with
  | nil => cases r <;> simp_all [equalsIgnoreCaseLoop]
  | cons a l ih =>
    cases r with
    | nil => simp at h
    | cons b r =>
      simp only [List.length_cons, Nat.add_right_cancel_iff] at h
      simp only [equalsIgnoreCaseLoop, List.map_cons, List.cons.injEq]
      by_cases hp : a ≠ b ∧ toUpperASCII a ≠ b ∧ a ≠ toUpperASCII b
      · have : ¬ toUpperASCII a = toUpperASCII b := fun e => ((toUpper_pair a b).mpr e) hp
        simp [hp, this]
      · have hu := (toUpper_pair a b).mp hp
        rw [if_neg hp, ih r h]
        simp [hu]

/-- `equalsIgnoreCaseASCII`: true exactly when the strings agree after mapping `a…z` to `A…Z` -/
theorem equalsIgnoreCaseASCII_spec (l r : List Nat) :
    equalsIgnoreCaseASCII l r = decide (l.map toUpperASCII = r.map toUpperASCII) := by
  unfold equalsIgnoreCaseASCII
  by_cases h : l.length = r.length
  · simp only [h, ne_eq, not_true_eq_false, if_false]; exact equalsIgnoreCaseLoop_spec l r h
  · have : l.map toUpperASCII ≠ r.map toUpperASCII := by
      intro e; apply h; have := congrArg List.length e; simpa using this
    simp [h, this]

theorem upperDiffLoop_spec (l r : List Nat) (h : l.length = r.length) :
    upperDiffLoop l r = doCompare (l.map toUpperASCII) (r.map toUpperASCII) := by
  induction l generalizing r with
  | nil => cases r <;> simp_all [upperDiffLoop, doCompare]
  | cons a l ih =>
    cases r with
    | nil => simp at h
    | cons b r =>
      simp only [List.length_cons, Nat.add_right_cancel_iff] at h
      simp only [upperDiffLoop, List.map_cons, doCompare, ih r h]

/-- `compareIgnoreCaseASCII`: shorter strings first; equal lengths in lexicographic order of the upper-cased
units; 0 exactly for strings equal up to ASCII case -/
theorem compareIgnoreCaseASCII_spec (l r : List Nat) :
    (l.length < r.length → compareIgnoreCaseASCII l r = -1) ∧
    (r.length < l.length → compareIgnoreCaseASCII l r = 1) ∧
    (l.length = r.length → compareIgnoreCaseASCII l r = doCompare (l.map toUpperASCII) (r.map toUpperASCII)) ∧
    (compareIgnoreCaseASCII l r = 0 ↔ equalsIgnoreCaseASCII l r = true) := by
  have h3 : l.length = r.length → compareIgnoreCaseASCII l r = doCompare (l.map toUpperASCII) (r.map toUpperASCII) := by
    intro h
    have h1 : ¬ l.length < r.length := by omega
    have h2 : ¬ r.length < l.length := by omega
    simp only [compareIgnoreCaseASCII, h1, h2, if_false]
    exact upperDiffLoop_spec l r h
  refine ⟨fun h => by simp [compareIgnoreCaseASCII, h], fun h => ?_, h3, ?_⟩
  · have : ¬ l.length < r.length := by omega
    simp [compareIgnoreCaseASCII, this, h]
  · rw [equalsIgnoreCaseASCII_spec]
    by_cases hl : l.length = r.length
    · rw [h3 hl, doCompare_eq_zero]; simp
    · have hne : l.map toUpperASCII ≠ r.map toUpperASCII := by
        intro e; apply hl; have := congrArg List.length e; simpa using this
      rcases Nat.lt_or_gt_of_ne hl with h | h
      · simp [compareIgnoreCaseASCII, h, hne]
      · have : ¬ l.length < r.length := by omega
        simp [compareIgnoreCaseASCII, this, h, hne]

namespace DStr

/-- the NUL-terminated overloads are the counted ones on the units before the first 0 -/
theorem pointer_overloads {s : DStr} {cs : List Nat} (h : Rep s cs) (p : List Nat) (pos : Nat) (hp : pos ≤ cs.length) :
    (∃ s', s.appendZ p = some s' ∧ Rep s' (cs ++ zstr p)) ∧
    (∃ s', s.assignZ p = some s' ∧ Rep s' (zstr p)) ∧
    (∃ s', s.insertZ pos p = some s' ∧ Rep s' (cs.take pos ++ zstr p ++ cs.drop pos)) ∧
    (∀ c, c ≤ p.length → ∃ s', s.assignPtr p c = some s' ∧ Rep s' (p.take c)) := by
  refine ⟨append_rep h (zstr p), ?_, insert_rep h pos (zstr p) hp, ?_⟩
  · obtain ⟨s1, e1, r1⟩ := erase_npos_rep h 0 (by omega)
    have r1' : Rep s1 [] := by simpa using r1
    obtain ⟨s2, e2, r2⟩ := append_rep r1' (zstr p)
    exact ⟨s2, by simp [assignZ, appendZ, e1, e2], by simpa using r2⟩
  · intro c hc
    obtain ⟨s1, e1, r1⟩ := erase_npos_rep h 0 (by omega)
    have r1' : Rep s1 [] := by simpa using r1
    obtain ⟨s2, e2, r2⟩ := append_rep r1' (p.take c)
    have : ¬ c > p.length := by omega
    exact ⟨s2, by simp [assignPtr, this, e1, e2], by simpa using r2⟩

end DStr
end XalanModel.Containers
