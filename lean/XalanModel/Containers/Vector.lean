/-
Model of `XalanVector<T>` (src/xalanc/Include/XalanVector.hpp), written the way the C++ is
written: a size / allocation pair plus the constructed prefix of the buffer.  Every public
mutator is transcribed path by path (append path, re-allocation path, the two in-place
paths of `insert`), using only three primitive storage actions:

* `rawPush`    – `construct_back`: construct one element at `m_data + m_size`
* `overwrite`  – `std::copy` / `std::copy_backward` / `std::fill` into already constructed cells
* `popBack`    – destroy the last element

Each primitive is *checked*: it returns `none` (a memory error: write outside the
allocation, or an iterator used after the buffer moved) when its C++ precondition does
not hold.  The refinement theorems in `VectorProofs.lean` show that under the invariant
`size ≤ allocation` no public operation ever returns `none`, and that its effect on the
element sequence is the `List` operation of the `std::vector` contract.

Core Lean only (this file is linked into the `xm_c20` driver).
-/
namespace XalanModel.Containers

structure Vec (α : Type) where
  items : List α      -- the constructed elements m_data[0 .. m_size)
  alloc : Nat         -- m_allocation
deriving Repr, BEq, DecidableEq

namespace Vec
variable {α : Type}

def empty : Vec α := ⟨[], 0⟩

/-- `XalanVector(MemoryManager&, initialAllocation)` -/
def withAlloc (n : Nat) : Vec α := ⟨[], n⟩

def size (v : Vec α) : Nat := v.items.length

/-- class invariant `invariants()`: `m_allocation >= m_size` (the pointer/zero coupling is
implicit: `alloc = 0` means `m_data == 0`). -/
def Inv (v : Vec α) : Prop := v.items.length ≤ v.alloc

instance (v : Vec α) : Decidable v.Inv := by unfold Inv; infer_instance

/-- `size_type((m_size * 1.6) + 0.5)` — `16 n + 5` is odd, so the real number is never an
integer and the floating-point evaluation truncates to the same value. -/
def growSize (n : Nat) : Nat := (16 * n + 5) / 10

/-- `construct_back`: requires `m_size < m_allocation`. -/
def rawPush (v : Vec α) (x : α) : Option (Vec α) :=
  if v.items.length < v.alloc then some { v with items := v.items ++ [x] } else none

/-- Copy constructor `XalanVector(theSource, theManager, theInitialAllocation)`. -/
def copyWith (src : Vec α) (initial : Nat) : Vec α :=
  if src.items.length > 0 then ⟨src.items, max src.items.length initial⟩
  else ⟨[], initial⟩

/-- `doPushBack`: construct in place, or `init`, or `grow`.  Returns the new vector and whether
the buffer moved (all iterators into the old buffer are then invalid). -/
def doPushBack (v : Vec α) (x : α) : Option (Vec α × Bool) :=
  if v.items.length < v.alloc then (rawPush v x).map (·, false)
  else if v.items.length = 0 then (rawPush ⟨[], 1⟩ x).map (·, true)
  else (rawPush (copyWith v (growSize v.items.length)) x).map (·, true)

def pushBack (v : Vec α) (x : α) : Option (Vec α) := (doPushBack v x).map (·.1)

/-- `pop_back` (precondition of the C++: non-empty; `--m_size` on 0 would wrap). -/
def popBack (v : Vec α) : Option (Vec α) :=
  if v.items.length = 0 then none else some { v with items := v.items.dropLast }

/-- `shrinkCount` / `shrinkToSize`: repeated `pop_back`. -/
def popN : Nat → Vec α → Option (Vec α)
  | 0, v => some v
  | n+1, v => (popBack v).bind (popN n)

/-- assignment into constructed cells `[at, at + seg.length)`; outside the constructed
prefix it is a write to raw or foreign memory. -/
def overwrite (v : Vec α) (pos : Nat) (seg : List α) : Option (Vec α) :=
  if pos + seg.length ≤ v.items.length then
    some { v with items := v.items.take pos ++ seg ++ v.items.drop (pos + seg.length) }
  else none

/-! ### element-wise copies inside the buffer
`std::copy` / `std::copy_backward` over a non-trivially-copyable element type are loops of single
assignments, each reading the *current* content of the buffer.  The direction matters when source and
destination overlap. -/

/-- one assignment `m_data[dst] = m_data[src]` between constructed cells -/
def assignCell (v : Vec α) (src dst : Nat) : Option (Vec α) :=
  match v.items[src]? with
  | none => none
  | some x => overwrite v dst [x]

/-- `std::copy(m_data + s, m_data + s + n, m_data + d)`: ascending, `k = 0 … n-1` -/
def copyFwd (v : Vec α) (s d : Nat) : Nat → Option (Vec α)
  | 0 => some v
  | n+1 => (assignCell v s d).bind fun v' => copyFwd v' (s + 1) (d + 1) n

/-- `std::copy_backward(m_data + s, m_data + s + n, m_data + d + n)`: descending, `k = n-1 … 0` -/
def copyBwd (v : Vec α) (s d : Nat) : Nat → Option (Vec α)
  | 0 => some v
  | n+1 => (assignCell v (s + n) (d + n)).bind fun v' => copyBwd v' s d n

/-- push a list of values with `doPushBack`, failing if the buffer moves while iterators of the
caller are live (`stable = true`). -/
def pushAll (stable : Bool) : List α → Vec α → Option (Vec α)
  | [], v => some v
  | x :: xs, v =>
    match doPushBack v x with
    | none => none
    | some (v', moved) => if stable && moved then none else pushAll stable xs v'

/-- `doReserve(theSize)` (requires `theSize > m_allocation`): copy into a fresh buffer and swap. -/
def doReserve (v : Vec α) (n : Nat) : Vec α := copyWith v n

def reserve (v : Vec α) (n : Nat) : Vec α := if n > v.alloc then doReserve v n else v

/-- `ensureCapacity` -/
def ensureCapacity (v : Vec α) (n : Nat) : Vec α := if n > v.alloc then doReserve v n else v

/-- raw construction of a list at the end after `ensureCapacity` (the append path). -/
def rawPushAll : List α → Vec α → Option (Vec α)
  | [], v => some v
  | x :: xs, v => (rawPush v x).bind (rawPushAll xs)

/-- `insert(thePosition, theFirst, theLast)` with the inserted range given by value (the range
must not alias the vector itself: precondition of `std::vector::insert` as well). -/
def insertRange (v : Vec α) (pos : Nat) (ins : List α) : Option (Vec α) :=
  if pos > v.items.length then none            -- assert(thePosition <= end())
  else if ins.length = 0 then some v
  else
    let total := v.items.length + ins.length
    if pos = v.items.length then
      rawPushAll ins (ensureCapacity v total)
    else if total > v.alloc then
      -- theTemp(total); three appends; swap
      (rawPushAll (v.items.take pos) (withAlloc total)).bind fun t1 =>
      (rawPushAll ins t1).bind fun t2 =>
      rawPushAll (v.items.drop pos) t2
    else
      let rs := v.items.length - pos            -- theRightSplitSize
      if rs ≤ ins.length then
        (pushAll true (ins.drop rs) v).bind fun v1 =>
        (pushAll true (v.items.drop pos) v1).bind fun v2 =>
        overwrite v2 pos (ins.take rs)
      else
        let n := ins.length
        (pushAll true (v.items.drop (v.items.length - n)) v).bind fun v1 =>
        -- copy_backward(thePosition, theOriginalEnd - n, theOriginalEnd)
        (copyBwd v1 pos (pos + n) (v.items.length - n - pos)).bind fun v2 =>
        overwrite v2 pos ins

/-- `insert(thePosition, theCount, theData)` with `theData` not aliasing the vector. -/
def insertN (v : Vec α) (pos n : Nat) (x : α) : Option (Vec α) :=
  if pos > v.items.length then none
  else
    let total := v.items.length + n
    if pos = v.items.length then
      rawPushAll (List.replicate n x) (ensureCapacity v total)
    else if total > v.alloc then
      (rawPushAll (v.items.take pos) (withAlloc total)).bind fun t1 =>
      (rawPushAll (List.replicate n x) t1).bind fun t2 =>
      rawPushAll (v.items.drop pos) t2
    else
      let rs := v.items.length - pos
      if rs ≤ n then
        (pushAll true (List.replicate (n - rs) x) v).bind fun v1 =>
        (pushAll true (v.items.drop pos) v1).bind fun v2 =>
        overwrite v2 pos (List.replicate rs x)
      else
        (pushAll true (v.items.drop (v.items.length - n)) v).bind fun v1 =>
        (copyBwd v1 pos (pos + n) (v.items.length - n - pos)).bind fun v2 =>
        overwrite v2 pos (List.replicate n x)

/-- `insert(thePosition, theData)` -/
def insertOne (v : Vec α) (pos : Nat) (x : α) : Option (Vec α) := insertN v pos 1 x

/-- `erase(theFirst, theLast)`: `std::copy(theLast, end(), theFirst)` then `shrinkCount`. -/
def erase (v : Vec α) (first last : Nat) : Option (Vec α) :=
  if first > last ∨ last > v.items.length then none
  else if first = last then some v
  else (copyFwd v last first (v.items.length - last)).bind (popN (last - first))

/-- `resize(theSize, theValue)` -/
def resize (v : Vec α) (n : Nat) (x : α) : Option (Vec α) :=
  if v.items.length > n then popN (v.items.length - n) v
  else if v.items.length < n then rawPushAll (List.replicate (n - v.items.length) x) (reserve v n)
  else some v

/-- `clear()` -/
def clear (v : Vec α) : Option (Vec α) :=
  if v.items.length > 0 then popN v.items.length v else some v

/-- `assign(theFirst, theLast)` = `clear(); insert(begin(), …)` -/
def assign (v : Vec α) (src : List α) : Option (Vec α) :=
  (clear v).bind fun c => insertRange c 0 src

/-- `operator=(theRHS)` for `&theRHS != this` -/
def copyAssign (v rhs : Vec α) : Option (Vec α) :=
  if v.alloc < rhs.items.length then some (copyWith rhs 0)
  else if v.items.length > rhs.items.length then
    (popN (v.items.length - rhs.items.length) v).bind fun v1 => overwrite v1 0 rhs.items
  else if v.items.length < rhs.items.length then
    (insertRange v v.items.length (rhs.items.drop v.items.length)).bind fun v1 =>
      overwrite v1 0 (rhs.items.take v.items.length)
  else overwrite v 0 rhs.items

/-- `insert(thePosition, theCount, (*this)[i])` after the repair `proposed/C20-vector-alias.diff`:
a value that lives inside the vector is copied before anything moves. -/
def insertNSelf (v : Vec α) (pos n i : Nat) : Option (Vec α) :=
  match v.items[i]? with
  | none => none
  | some x => insertN v pos n x

/-- `resize(theSize, (*this)[i])` after the same repair. -/
def resizeSelf (v : Vec α) (n i : Nat) : Option (Vec α) :=
  match v.items[i]? with
  | none => none
  | some x => resize v n x

/-- `push_back((*this)[i])` (`grow` copies the vector and pushes the value into the copy before the
old buffer is released, so the unrepaired code is already alias-safe here). -/
def pushBackSelf (v : Vec α) (i : Nat) : Option (Vec α) :=
  match v.items[i]? with
  | none => none
  | some x => pushBack v x

/-- `insert(thePosition, theCount, (*this)[i])` **as written in the unrepaired source**: `theData`
is a reference into the buffer.  Appending re-allocates under it (`none`: read of freed memory);
the in-place path whose inserted range stays inside the old contents reads it after
`copy_backward` has shifted the cells. -/
def insertNAliasAsWritten (v : Vec α) (pos n i : Nat) : Option (Vec α) :=
  match v.items[i]? with
  | none => none
  | some x =>
    if pos > v.items.length then none
    else
      let total := v.items.length + n
      if pos = v.items.length then
        if total > v.alloc ∧ n > 0 then none else insertN v pos n x
      else if total > v.alloc then insertN v pos n x
      else
        let rs := v.items.length - pos
        if rs ≤ n then insertN v pos n x
        else
          (pushAll true (v.items.drop (v.items.length - n)) v).bind fun v1 =>
          (copyBwd v1 pos (pos + n) (v.items.length - n - pos)).bind fun v2 =>
          match v2.items[i]? with
          | none => none
          | some y => overwrite v2 pos (List.replicate n y)

end Vec
end XalanModel.Containers

namespace XalanModel.Containers.Vec
variable {α : Type}

/-- `insert(thePosition, theFirst, theLast)` with the tail shifted by a **forward** `std::copy` instead of
`std::copy_backward` (the seeded break; only the in-place branch whose inserted range stays inside the
old contents differs). -/
def insertRangeForwardCopy (v : Vec α) (pos : Nat) (ins : List α) : Option (Vec α) :=
  let n := ins.length
  if pos ≥ v.items.length ∨ n = 0 ∨ v.items.length + n > v.alloc ∨ v.items.length - pos ≤ n then insertRange v pos ins
  else
    (pushAll true (v.items.drop (v.items.length - n)) v).bind fun v1 =>
    (copyFwd v1 pos (pos + n) (v.items.length - n - pos)).bind fun v2 =>
    overwrite v2 pos ins

end XalanModel.Containers.Vec
