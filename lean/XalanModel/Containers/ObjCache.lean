/-
Model of `XalanObjectCache<T, Create, Delete, ClearCacheResetFunctor<T>>` (src/xalanc/Include/
XalanObjectCache.hpp) in the configuration that is compiled (`XALAN_OBJECT_CACHE_KEEP_BUSY_LIST`
undefined): one vector `m_availableList` used as a stack; `get()` pops it or creates an object,
`release(p)` runs the reset functor on `p` and pushes it (without checking that `p` came from this
cache or is not already available — that is the caller's obligation), `reset()` does nothing.
Objects are identified by their creation number; `objs[id]` is the object's content.
Core Lean only.
-/
namespace XalanModel.Containers

structure OCache (α : Type) where
  available : List Nat := []          -- m_availableList, back = last
  objs : List (List α) := []          -- every object ever created by this cache, by creation number
deriving Repr, DecidableEq

namespace OCache
variable {α : Type}

/-- `get()`: returns the cache and the object handed out -/
def get (c : OCache α) : OCache α × Nat :=
  match c.available.getLast? with
  | none => ({ c with objs := c.objs ++ [[]] }, c.objs.length)
  | some id => ({ c with available := c.available.dropLast }, id)

/-- `release(theInstance)`: `m_resetFunctor(theInstance)` (`clear()`), then `push_back` -/
def release (c : OCache α) (id : Nat) : OCache α :=
  { available := c.available ++ [id], objs := c.objs.set id [] }

/-- the holder of object `id` appends to it -/
def put (c : OCache α) (id : Nat) (x : α) : OCache α :=
  { c with objs := c.objs.modify id (· ++ [x]) }

end OCache
end XalanModel.Containers
