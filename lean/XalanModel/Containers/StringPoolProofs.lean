import XalanModel.Containers.StringPool
import XalanModel.Containers.XMapProofs
/-!
`XalanDOMStringPool` / `XalanDOMStringHashTable`: refinement to the list of distinct strings in order of
first request; equal requests return the same pooled object.
-/
namespace XalanModel.Containers.SPool
open XalanModel.Containers

structure Inv (p : SPool) : Prop where
  bc_pos : 0 < p.bucketCount
  blen : p.buckets.length = p.bucketCount
  cnt : p.count = p.strings.length
  nodup : p.strings.Nodup
  /-- every pooled string is reachable from the bucket its hash selects -/
  complete : ∀ id cs, p.strings[id]? = some cs → ∃ b, p.buckets[hash cs % p.bucketCount]? = some b ∧ id ∈ b
  /-- every bucket pointer refers to a pooled string -/
  sound : ∀ b ∈ p.buckets, ∀ id ∈ b, id < p.strings.length

theorem new_inv (n : Nat) (h : 0 < n) : Inv (SPool.new n) := by
  refine ⟨h, by simp [SPool.new], rfl, by simp [SPool.new], ?_, ?_⟩
  · intro id cs hs; simp [SPool.new] at hs
  · intro b hb id hid; simp only [SPool.new, List.mem_replicate] at hb; rw [hb.2] at hid; cases hid

/-- `find`: the bucket selected by the hash, and the pooled string with these characters if there is one -/
theorem find_spec (p : SPool) (h : Inv p) (cs : List Nat) :
    ∃ r, find p cs = some (hash cs % p.bucketCount, r) ∧
      (∀ id, r = some id → p.strings[id]? = some cs) ∧ (r = none → cs ∉ p.strings) := by
  unfold find
  have hne : ¬ p.bucketCount = 0 := by have := h.bc_pos; omega
  simp only [hne, if_false]
  have hlt : hash cs % p.bucketCount < p.buckets.length := by rw [h.blen]; exact Nat.mod_lt _ h.bc_pos
  rw [List.getElem?_eq_getElem hlt]
  simp only [Option.map_some]
  refine ⟨_, rfl, ?_, ?_⟩
  · intro id hr
    have := List.find?_some hr
    simpa using this
  · intro hr hin
    obtain ⟨id, hid⟩ := List.mem_iff_getElem?.mp hin
    obtain ⟨b, hb, hmem⟩ := h.complete id cs hid
    rw [List.getElem?_eq_getElem hlt] at hb
    cases hb
    rw [List.find?_eq_none] at hr
    exact hr id hmem (by simp [hid])

/-- **get**: the pooled object for `cs`; the pool grows by `cs` exactly when it was not there -/
theorem get_spec (p : SPool) (h : Inv p) (cs : List Nat) (hcs : cs ≠ []) :
    ∃ p' id, get p cs = some (p', some id) ∧ Inv p' ∧ p'.strings[id]? = some cs ∧
      ((cs ∈ p.strings ∧ p' = p) ∨ (cs ∉ p.strings ∧ p'.strings = p.strings ++ [cs] ∧ id = p.strings.length)) := by
  unfold get
  simp only [hcs, if_false]
  obtain ⟨r, hf, hsome, hnone⟩ := find_spec p h cs
  simp only [hf, Option.map_some]
  cases r with
  | some id =>
    have hs := hsome id rfl
    exact ⟨p, id, rfl, h, hs, Or.inl ⟨List.mem_iff_getElem?.mpr ⟨id, hs⟩, rfl⟩⟩
  | none =>
    have hnin := hnone rfl
    have hlt : hash cs % p.bucketCount < p.buckets.length := by rw [h.blen]; exact Nat.mod_lt _ h.bc_pos
    refine ⟨_, _, rfl, ?_, by simp, Or.inr ⟨hnin, rfl, rfl⟩⟩
    refine ⟨h.bc_pos, ?_, ?_, ?_, ?_, ?_⟩
    · show (p.buckets.modify _ _).length = p.bucketCount
      rw [List.length_modify]; exact h.blen
    · show p.count + 1 = (p.strings ++ [cs]).length
      simp [h.cnt]
    · show (p.strings ++ [cs]).Nodup
      rw [List.nodup_append]
      refine ⟨h.nodup, by simp, ?_⟩
      intro a ha b hb heq
      have hbc : b = cs := by simpa using hb
      exact hnin (hbc ▸ heq ▸ ha)
    · intro id s hs
      show ∃ b, (XMap.pushBucket p.buckets (hash cs % p.bucketCount) p.strings.length)[hash s % p.bucketCount]? = some b ∧ id ∈ b
      have hs' : (p.strings ++ [cs])[id]? = some s := hs
      by_cases hid : id < p.strings.length
      · rw [List.getElem?_append_left hid] at hs'
        obtain ⟨b, hb, hmem⟩ := h.complete id s hs'
        obtain ⟨b', hb', sub⟩ := XMap.pushBucket_mono p.buckets (hash cs % p.bucketCount) p.strings.length _ b hb
        exact ⟨b', hb', sub _ hmem⟩
      · have hlen : id = p.strings.length := by
          have : id < (p.strings ++ [cs]).length := (List.getElem?_eq_some_iff.mp hs').1
          simp at this; omega
        subst hlen
        rw [List.getElem?_concat_length] at hs'
        cases hs'
        refine ⟨p.buckets[hash cs % p.bucketCount] ++ [p.strings.length], ?_, by simp⟩
        rw [XMap.pushBucket_get]; simp [List.getElem?_eq_getElem hlt]
    · intro b hb id hid
      show id < (p.strings ++ [cs]).length
      rcases XMap.pushBucket_origin p.buckets _ _ b hb id hid with h1 | ⟨b0, hb0, hin⟩
      · simp [h1]
      · have := h.sound b0 hb0 id hin; simp; omega

/-- equal requests return the same pooled object: a second `get` changes nothing and returns the same id -/
theorem get_idempotent (p : SPool) (h : Inv p) (cs : List Nat) (hcs : cs ≠ []) (p1 : SPool) (id1 : Nat)
    (h1 : get p cs = some (p1, some id1)) : get p1 cs = some (p1, some id1) := by
  obtain ⟨p', id, e, inv', hs, _⟩ := get_spec p h cs hcs
  rw [e] at h1; cases h1
  obtain ⟨p2, id2, e2, _, hs2, hcase⟩ := get_spec p1 inv' cs hcs
  have hmem : cs ∈ p1.strings := List.mem_iff_getElem?.mpr ⟨id1, hs⟩
  rcases hcase with ⟨_, hp⟩ | ⟨hn, _⟩
  · subst hp
    have hlt : id1 < p2.strings.length := (List.getElem?_eq_some_iff.mp hs).1
    have : id1 = id2 := (List.getElem?_inj hlt inv'.nodup).mp (by rw [hs, hs2])
    rw [e2, this]
  · exact absurd hmem hn

theorem clear_inv (p : SPool) (h : Inv p) : Inv p.clear ∧ p.clear.strings = [] := by
  refine ⟨⟨h.bc_pos, by show (p.buckets.map _).length = _; rw [List.length_map]; exact h.blen, rfl, by simp [clear], ?_, ?_⟩, rfl⟩
  · intro id cs hs; simp [clear] at hs
  · intro b hb id hid
    obtain ⟨b0, _, rfl⟩ := List.mem_map.mp (show b ∈ p.buckets.map (fun _ => []) from hb)
    cases hid

end XalanModel.Containers.SPool
