import XalanModel.Containers.PList
/-!
Pointer-level `XalanList`: list segments through `next` / `prev`, the effect of the pointer surgery on
them, and the refinement of `constructNode` / `freeNode` to edits of the node sequence.
-/
namespace XalanModel.Containers

/-- function update -/
def fupd {β : Type} (f : Nat → β) (a : Nat) (v : β) : Nat → β := fun x => if x = a then v else f x

theorem fupd_same {β : Type} (f : Nat → β) (a : Nat) (v : β) : fupd f a v a = v := by simp [fupd]
theorem fupd_other {β : Type} (f : Nat → β) (a : Nat) (v : β) (x : Nat) (h : x ≠ a) : fupd f a v x = f x := by
  simp [fupd, h]

/-- following `nx` from `a` visits exactly the nodes `ns` and then stands at `b` -/
def lseg (nx : Nat → Nat) : Nat → List Nat → Nat → Prop
  | a, [], b => a = b
  | a, n :: ns, b => a = n ∧ lseg nx (nx n) ns b

theorem lseg_congr {nx nx' : Nat → Nat} {ns : List Nat} (h : ∀ n ∈ ns, nx' n = nx n) {a b : Nat} :
    lseg nx a ns b → lseg nx' a ns b := by
  induction ns generalizing a with
  | nil => exact id
  | cons n t ih =>
    intro ⟨h1, h2⟩
    refine ⟨h1, ?_⟩
    rw [h n (List.mem_cons_self ..)]
    exact ih (fun x hx => h x (List.mem_cons_of_mem _ hx)) h2

theorem lseg_append {nx : Nat → Nat} {A B : List Nat} {a c : Nat} :
    lseg nx a (A ++ B) c ↔ ∃ b, lseg nx a A b ∧ lseg nx b B c := by
  induction A generalizing a with
  | nil => simp [lseg]
  | cons n t ih =>
    simp only [List.cons_append, lseg, ih]
    constructor
    · rintro ⟨h1, b, h2, h3⟩; exact ⟨b, ⟨h1, h2⟩, h3⟩
    · rintro ⟨b, ⟨h1, h2⟩, h3⟩; exact ⟨h1, b, h2, h3⟩

/-- linking a new node `m` after `q`: `m.next = q.next; q.next = m` -/
theorem lseg_insert {nx : Nat → Nat} (P S : List Nat) (q m a e : Nat)
    (hnd : (P ++ q :: S).Nodup) (hm : m ∉ P ++ q :: S) (h : lseg nx a (P ++ q :: S) e) :
    lseg (fupd (fupd nx m (nx q)) q m) a (P ++ q :: m :: S) e := by
  have hmq : m ≠ q := fun e' => hm (by rw [e']; simp)
  induction P generalizing a with
  | nil =>
    simp only [List.nil_append, lseg] at h ⊢
    obtain ⟨h1, h2⟩ := h
    refine ⟨h1, by rw [fupd_same], ?_⟩
    rw [fupd_other _ _ _ _ hmq, fupd_same]
    apply lseg_congr _ h2
    intro n hn
    simp only [List.nil_append, List.nodup_cons] at hnd
    have hnq : n ≠ q := fun e' => hnd.1 (e' ▸ hn)
    have hnm : n ≠ m := fun e' => hm (by rw [← e']; simp [hn])
    rw [fupd_other _ _ _ _ hnq, fupd_other _ _ _ _ hnm]
  | cons x t ih =>
    simp only [List.cons_append, lseg] at h ⊢
    obtain ⟨h1, h2⟩ := h
    simp only [List.cons_append, List.nodup_cons] at hnd
    have hxq : x ≠ q := fun e' => hnd.1 (by rw [e']; simp)
    have hxm : x ≠ m := fun e' => hm (by rw [← e']; simp)
    refine ⟨h1, ?_⟩
    rw [fupd_other _ _ _ _ hxq, fupd_other _ _ _ _ hxm]
    exact ih _ hnd.2 (fun hin => hm (by simp only [List.cons_append]; exact List.mem_cons_of_mem _ hin)) h2

/-- unlinking the node `m` that follows `q`: `q.next = m.next` -/
theorem lseg_remove {nx : Nat → Nat} (P S : List Nat) (q m a e : Nat)
    (hnd : (P ++ q :: m :: S).Nodup) (h : lseg nx a (P ++ q :: m :: S) e) :
    lseg (fupd nx q (nx m)) a (P ++ q :: S) e := by
  induction P generalizing a with
  | nil =>
    simp only [List.nil_append, lseg] at h ⊢
    obtain ⟨h1, _, h3⟩ := h
    refine ⟨h1, ?_⟩
    rw [fupd_same]
    apply lseg_congr _ h3
    intro n hn
    simp only [List.nil_append, List.nodup_cons] at hnd
    have hnq : n ≠ q := fun e' => hnd.1 (by rw [← e']; exact List.mem_cons_of_mem _ hn)
    rw [fupd_other _ _ _ _ hnq]
  | cons x t ih =>
    simp only [List.cons_append, lseg] at h ⊢
    obtain ⟨h1, h2⟩ := h
    simp only [List.cons_append, List.nodup_cons] at hnd
    have hxq : x ≠ q := fun e' => hnd.1 (by rw [e']; simp)
    refine ⟨h1, ?_⟩
    rw [fupd_other _ _ _ _ hxq]
    exact ih _ hnd.2 h2

/-- the node that follows `q` inside a segment -/
theorem lseg_next_of {nx : Nat → Nat} (P S : List Nat) (q p a e : Nat) (h : lseg nx a (P ++ q :: p :: S) e) :
    nx q = p := by
  induction P generalizing a with
  | nil => simp only [List.nil_append, lseg] at h; exact h.2.1
  | cons x t ih => simp only [List.cons_append, lseg] at h; exact ih _ h.2

theorem lseg_next_last {nx : Nat → Nat} (P : List Nat) (q a e : Nat) (h : lseg nx a (P ++ [q]) e) : nx q = e := by
  induction P generalizing a with
  | nil => simp only [List.nil_append, lseg] at h; exact h.2
  | cons x t ih => simp only [List.cons_append, lseg] at h; exact ih _ h.2

/-! ### the doubly linked ring -/

/-- Linking `m` between `q` and `p` of a ring (sentinel `hd`, nodes `A ++ B`, `q` = the node before the
position, `p` = the node at the position): both directions stay rings, now through `A ++ m :: B`. -/
theorem ring_link (nx pv : Nat → Nat) (hd m q p : Nat) (A B P P' : List Nat)
    (hA : hd :: A = P ++ [q]) (hB : hd :: B.reverse = P' ++ [p])
    (hnd : (hd :: (A ++ B)).Nodup) (hm : m ∉ hd :: (A ++ B))
    (fwd : lseg nx hd (hd :: (A ++ B)) hd) (bwd : lseg pv hd (hd :: (A ++ B).reverse) hd) :
    nx q = p ∧ pv p = q ∧
    lseg (fupd (fupd nx m p) q m) hd (hd :: (A ++ m :: B)) hd ∧
    lseg (fupd (fupd pv m q) p m) hd (hd :: (A ++ m :: B).reverse) hd := by
  have e1 : hd :: (A ++ B) = P ++ q :: B := by
    rw [← List.cons_append, hA]; simp
  have e2 : hd :: (A ++ B).reverse = P' ++ p :: A.reverse := by
    rw [List.reverse_append, ← List.cons_append, hB]; simp
  -- the successor of q and the predecessor of p
  have hq : nx q = p := by
    rw [e1] at fwd
    cases B with
    | nil =>
      have hp : p = hd := by
        simp only [List.reverse_nil] at hB
        cases P' with
        | nil => simp at hB; exact hB.symm
        | cons x t => simp at hB
      rw [hp]; exact lseg_next_last P q hd hd fwd
    | cons b B' =>
      have hp : p = b := by
        have h1 : hd :: (b :: B').reverse = (hd :: B'.reverse) ++ [b] := by simp
        rw [h1] at hB
        exact (List.append_inj' hB (by simp)).2 |> List.singleton_inj.mp |>.symm
      rw [hp]; exact lseg_next_of P B' q b hd hd fwd
  have hp' : pv p = q := by
    rw [e2] at bwd
    rcases List.eq_nil_or_concat A with rfl | ⟨A', a, rfl⟩
    · have hqh : q = hd := by
        cases P with
        | nil => simp at hA; exact hA.symm
        | cons x t => simp at hA
      rw [hqh]; simp only [List.reverse_nil] at bwd; exact lseg_next_last P' p hd hd bwd
    · have hqa : q = a := by
        have h1 : hd :: (A'.concat a) = (hd :: A') ++ [a] := by simp
        rw [h1] at hA
        exact (List.append_inj' hA (by simp)).2 |> List.singleton_inj.mp |>.symm
      rw [hqa]
      have : (A'.concat a).reverse = a :: A'.reverse := by simp
      rw [this] at bwd
      exact lseg_next_of P' A'.reverse p a hd hd bwd
  refine ⟨hq, hp', ?_, ?_⟩
  · have hnd1 : (P ++ q :: B).Nodup := e1 ▸ hnd
    have hm1 : m ∉ P ++ q :: B := e1 ▸ hm
    have := lseg_insert P B q m hd hd hnd1 hm1 (e1 ▸ fwd)
    rw [hq] at this
    have e3 : hd :: (A ++ m :: B) = P ++ q :: m :: B := by
      rw [← List.cons_append, hA]; simp
    rw [e3]; exact this
  · have hperm : (hd :: (A ++ B).reverse).Perm (hd :: (A ++ B)) := List.Perm.cons _ (List.reverse_perm _)
    have hnd2 : (P' ++ p :: A.reverse).Nodup := e2 ▸ hperm.nodup_iff.mpr hnd
    have hm2 : m ∉ P' ++ p :: A.reverse := by
      rw [← e2]; intro hin; exact hm (hperm.subset hin)
    have := lseg_insert P' A.reverse p m hd hd hnd2 hm2 (e2 ▸ bwd)
    rw [hp'] at this
    have e4 : hd :: (A ++ m :: B).reverse = P' ++ p :: m :: A.reverse := by
      have : hd :: (A ++ m :: B).reverse = (hd :: B.reverse) ++ m :: A.reverse := by simp
      rw [this, hB]; simp
    rw [e4]; exact this

/-- Unlinking the node `m` that stands between `q` and `p`: `q.next = m.next; p.prev = m.prev`. -/
theorem ring_unlink (nx pv : Nat → Nat) (hd m q p : Nat) (A B P P' : List Nat)
    (hA : hd :: A = P ++ [q]) (hB : hd :: B.reverse = P' ++ [p])
    (hnd : (hd :: (A ++ m :: B)).Nodup)
    (fwd : lseg nx hd (hd :: (A ++ m :: B)) hd) (bwd : lseg pv hd (hd :: (A ++ m :: B).reverse) hd) :
    nx m = p ∧ pv m = q ∧ nx q = m ∧ pv p = m ∧
    lseg (fupd nx q (nx m)) hd (hd :: (A ++ B)) hd ∧
    lseg (fupd pv p (pv m)) hd (hd :: (A ++ B).reverse) hd := by
  have e1 : hd :: (A ++ m :: B) = P ++ q :: m :: B := by
    rw [← List.cons_append, hA]; simp
  have e2 : hd :: (A ++ m :: B).reverse = P' ++ p :: m :: A.reverse := by
    have : hd :: (A ++ m :: B).reverse = (hd :: B.reverse) ++ m :: A.reverse := by simp
    rw [this, hB]; simp
  have hqm : nx q = m := lseg_next_of P B q m hd hd (e1 ▸ fwd)
  have hpm : pv p = m := lseg_next_of P' A.reverse p m hd hd (e2 ▸ bwd)
  have hmp : nx m = p := by
    have f1 : lseg nx hd ((P ++ [q]) ++ m :: B) hd := by rw [List.append_assoc]; exact e1 ▸ fwd
    cases B with
    | nil =>
      have hp : p = hd := by
        simp only [List.reverse_nil] at hB
        cases P' with
        | nil => simp at hB; exact hB.symm
        | cons x t => simp at hB
      rw [hp]
      have : (P ++ [q]) ++ [m] = (P ++ [q]) ++ [m] := rfl
      exact lseg_next_last (P ++ [q]) m hd hd f1
    | cons b B' =>
      have hp : p = b := by
        have h1 : hd :: (b :: B').reverse = (hd :: B'.reverse) ++ [b] := by simp
        rw [h1] at hB
        exact (List.append_inj' hB (by simp)).2 |> List.singleton_inj.mp |>.symm
      rw [hp]; exact lseg_next_of (P ++ [q]) B' m b hd hd f1
  have hmq : pv m = q := by
    have b1 : lseg pv hd ((P' ++ [p]) ++ m :: A.reverse) hd := by rw [List.append_assoc]; exact e2 ▸ bwd
    rcases List.eq_nil_or_concat A with rfl | ⟨A', a, rfl⟩
    · have hqh : q = hd := by
        cases P with
        | nil => simp at hA; exact hA.symm
        | cons x t => simp at hA
      rw [hqh]; simp only [List.reverse_nil] at b1; exact lseg_next_last (P' ++ [p]) m hd hd b1
    · have hqa : q = a := by
        have h1 : hd :: (A'.concat a) = (hd :: A') ++ [a] := by simp
        rw [h1] at hA
        exact (List.append_inj' hA (by simp)).2 |> List.singleton_inj.mp |>.symm
      rw [hqa]
      have : (A'.concat a).reverse = a :: A'.reverse := by simp
      rw [this] at b1
      exact lseg_next_of (P' ++ [p]) A'.reverse m a hd hd b1
  refine ⟨hmp, hmq, hqm, hpm, ?_, ?_⟩
  · have := lseg_remove P B q m hd hd (e1 ▸ hnd) (e1 ▸ fwd)
    have e3 : hd :: (A ++ B) = P ++ q :: B := by rw [← List.cons_append, hA]; simp
    rw [e3]; exact this
  · have hperm : (hd :: (A ++ m :: B).reverse).Perm (hd :: (A ++ m :: B)) := List.Perm.cons _ (List.reverse_perm _)
    have hnd2 : (P' ++ p :: m :: A.reverse).Nodup := e2 ▸ hperm.nodup_iff.mpr hnd
    have := lseg_remove P' A.reverse p m hd hd hnd2 (e2 ▸ bwd)
    have e4 : hd :: (A ++ B).reverse = P' ++ p :: A.reverse := by
      rw [List.reverse_append, ← List.cons_append, hB]; simp
    rw [e4]; exact this

/-! ### heap accessors -/
namespace PHeap
variable {α : Type}

theorem getD_modify (l : List (PNode α)) (a b : Nat) (f : PNode α → PNode α) (d : PNode α) (ha : a < l.length) :
    (l.modify a f).getD b d = if b = a then f (l.getD a d) else l.getD b d := by
  simp only [List.getD_eq_getElem?_getD, List.getElem?_modify]
  by_cases hb : b = a
  · subst hb; simp [List.getElem?_eq_getElem ha]
  · have : ¬ a = b := fun e => hb e.symm
    simp only [this, hb, if_false]
    cases l[b]? <;> rfl

/-- a write through a valid pointer: which accessor changes where -/
theorem modify_spec (h : PHeap α) (a : Nat) (f : PNode α → PNode α) (ha0 : a ≠ 0) (hal : a < h.nodes.length) :
    ∃ h', h.modify a f = some h' ∧ h'.nodes.length = h.nodes.length ∧
      (∀ b, h'.nodes.getD b ⟨none, 0, 0⟩ = if b = a then f (h.nodes.getD a ⟨none, 0, 0⟩) else h.nodes.getD b ⟨none, 0, 0⟩) := by
  refine ⟨⟨h.nodes.modify a f⟩, ?_, by simp, fun b => getD_modify h.nodes a b f _ hal⟩
  unfold modify
  have : ¬ (a = 0 ∨ a ≥ h.nodes.length) := by omega
  simp [this]

theorem setNext_spec (h : PHeap α) (a n : Nat) (ha0 : a ≠ 0) (hal : a < h.nodes.length) :
    ∃ h', h.setNext a n = some h' ∧ h'.nodes.length = h.nodes.length ∧ h'.nextOf = fupd h.nextOf a n ∧
      h'.prevOf = h.prevOf ∧ h'.valOf = h.valOf := by
  obtain ⟨h', e, hl, hg⟩ := modify_spec h a (fun x => { x with next := n }) ha0 hal
  refine ⟨h', e, hl, ?_, ?_, ?_⟩ <;> funext b <;> simp only [nextOf, prevOf, valOf, fupd, hg b] <;> split <;> simp_all

theorem setPrev_spec (h : PHeap α) (a n : Nat) (ha0 : a ≠ 0) (hal : a < h.nodes.length) :
    ∃ h', h.setPrev a n = some h' ∧ h'.nodes.length = h.nodes.length ∧ h'.prevOf = fupd h.prevOf a n ∧
      h'.nextOf = h.nextOf ∧ h'.valOf = h.valOf := by
  obtain ⟨h', e, hl, hg⟩ := modify_spec h a (fun x => { x with prev := n }) ha0 hal
  refine ⟨h', e, hl, ?_, ?_, ?_⟩ <;> funext b <;> simp only [nextOf, prevOf, valOf, fupd, hg b] <;> split <;> simp_all

theorem setVal_spec (h : PHeap α) (a : Nat) (v : Option α) (ha0 : a ≠ 0) (hal : a < h.nodes.length) :
    ∃ h', h.setVal a v = some h' ∧ h'.nodes.length = h.nodes.length ∧ h'.valOf = fupd h.valOf a v ∧
      h'.nextOf = h.nextOf ∧ h'.prevOf = h.prevOf := by
  obtain ⟨h', e, hl, hg⟩ := modify_spec h a (fun x => { x with val := v }) ha0 hal
  refine ⟨h', e, hl, ?_, ?_, ?_⟩ <;> funext b <;> simp only [nextOf, prevOf, valOf, fupd, hg b] <;> split <;> simp_all

end PHeap

/-! ### the member functions on a well-formed heap -/
namespace PL
variable {α : Type}

/-- a list object with an existing head node `l.head`, linked nodes `ns` (in order) and free chain `fs` -/
structure PWF (h : PHeap α) (l : PL) (ns fs : List Nat) : Prop where
  head_ne : l.head ≠ 0
  nodup : (l.head :: (ns ++ fs)).Nodup
  valid : ∀ a ∈ l.head :: (ns ++ fs), a ≠ 0 ∧ a < h.nodes.length
  fwd : lseg h.nextOf l.head (l.head :: ns) l.head
  bwd : lseg h.prevOf l.head (l.head :: ns.reverse) l.head
  freec : lseg h.nextOf l.free fs 0
  vals : ∀ n ∈ ns, (h.valOf n).isSome

/-- what `toList` is meant to deliver -/
def contents (h : PHeap α) (ns : List Nat) : List (Option α) := ns.map h.valOf

/-- **constructNode** with a recycled node: the free-list head `m` is linked before the position (`p` = the
node at the position, `l.head` for `end()`), the free list loses its head (LIFO), every other node keeps
address, links and value. -/
theorem constructNode_refines (h : PHeap α) (l : PL) (x : α) (A B fs' : List Nat) (m p : Nat) (P' : List Nat)
    (w : PWF h l (A ++ B) (m :: fs')) (hB : l.head :: B.reverse = P' ++ [p]) :
    ∃ h' l', constructNode h l x p = some (h', l', m) ∧ PWF h' l' (A ++ m :: B) fs' ∧ l'.head = l.head ∧
      h'.valOf m = some x ∧ (∀ n, n ≠ m → h'.valOf n = h.valOf n) ∧ h'.nodes.length = h.nodes.length := by
  obtain ⟨hh, hnd, hval, fwd, bwd, freec, vals⟩ := w
  -- the free-list head
  have hfree : l.free = m ∧ lseg h.nextOf (h.nextOf m) fs' 0 := by simpa [lseg] using freec
  have hmv := hval m (by simp)
  -- the position node is the head or a node of B
  have hpmem : p ∈ l.head :: (A ++ B) := by
    have : p ∈ l.head :: B.reverse := by rw [hB]; simp
    rcases List.mem_cons.mp this with h1 | h1
    · rw [h1]; simp
    · exact List.mem_cons_of_mem _ (List.mem_append_right _ (List.mem_reverse.mp h1))
  have hpv := hval p (by
    rcases List.mem_cons.mp hpmem with h1 | h1
    · rw [h1]; simp
    · exact List.mem_cons_of_mem _ (List.mem_append_left _ h1))
  obtain ⟨P, q, hA⟩ : ∃ P q, l.head :: A = P ++ [q] := by
    rcases List.eq_nil_or_concat (l.head :: A) with h1 | ⟨P, q, h1⟩
    · cases h1
    · exact ⟨P, q, by simpa using h1⟩
  have hqmem : q ∈ l.head :: (A ++ B) := by
    have : q ∈ l.head :: A := by rw [hA]; simp
    rcases List.mem_cons.mp this with h1 | h1
    · rw [h1]; simp
    · exact List.mem_cons_of_mem _ (List.mem_append_left _ h1)
  have hqv := hval q (by
    rcases List.mem_cons.mp hqmem with h1 | h1
    · rw [h1]; simp
    · exact List.mem_cons_of_mem _ (List.mem_append_left _ h1))
  -- distinctness
  have hnd' : (l.head :: (A ++ B)).Nodup ∧ m ∉ l.head :: (A ++ B) ∧ (m :: fs').Nodup ∧
      ∀ a ∈ fs', a ∉ l.head :: (A ++ B) := by
    have : (l.head :: (A ++ B) ++ m :: fs').Nodup := by simpa [List.append_assoc] using hnd
    rw [List.nodup_append] at this
    refine ⟨this.1, fun hin => this.2.2 m hin m (by simp) rfl, this.2.1, ?_⟩
    intro a ha hin; exact this.2.2 a hin a (List.mem_cons_of_mem _ ha) rfl
  obtain ⟨hndR, hmR, hndF, hdisj⟩ := hnd'
  have hpm : p ≠ m := fun e => hmR (e ▸ hpmem)
  have hqm : q ≠ m := fun e => hmR (e ▸ hqmem)
  obtain ⟨hnq, hpq, fwd', bwd'⟩ := ring_link h.nextOf h.prevOf l.head m q p A B P P' hA hB hndR hmR fwd bwd
  -- run the five writes
  unfold constructNode positionNode
  simp only [hpv.1, if_false, hfree.1, hmv.1, ne_eq, not_false_eq_true, if_true]
  obtain ⟨h3, e3, l3, v3, n3, p3⟩ := PHeap.setVal_spec h m (some x) hmv.1 hmv.2
  simp only [e3, Option.bind_some]
  obtain ⟨h4, e4, l4, p4, n4, v4⟩ := PHeap.setPrev_spec h3 m (h3.prevOf p) hmv.1 (l3 ▸ hmv.2)
  simp only [e4, Option.bind_some]
  obtain ⟨h5, e5, l5, n5, p5, v5⟩ := PHeap.setNext_spec h4 m p hmv.1 (by rw [l4, l3]; exact hmv.2)
  simp only [e5, Option.bind_some]
  have hq5 : h5.prevOf p = q := by rw [p5, p4, p3, fupd_other _ _ _ _ hpm, hpq]
  rw [hq5]
  obtain ⟨h6, e6, l6, n6, p6, v6⟩ := PHeap.setNext_spec h5 q m hqv.1 (by rw [l5, l4, l3]; exact hqv.2)
  simp only [e6, Option.bind_some]
  obtain ⟨h7, e7, l7, p7, n7, v7⟩ := PHeap.setPrev_spec h6 p m hpv.1 (by rw [l6, l5, l4, l3]; exact hpv.2)
  simp only [e7, Option.map_some]
  have hlen : h7.nodes.length = h.nodes.length := by rw [l7, l6, l5, l4, l3]
  have hnx : h7.nextOf = fupd (fupd h.nextOf m p) q m := by rw [n7, n6, n5, n4, n3]
  have hpv7 : h7.prevOf = fupd (fupd h.prevOf m q) p m := by
    rw [p7, p6, p5, p4, p3, hpq]
  have hvl : h7.valOf = fupd h.valOf m (some x) := by rw [v7, v6, v5, v4, v3]
  refine ⟨h7, { l with free := h.nextOf m }, ?_, ?_, rfl, by rw [hvl, fupd_same],
    fun n hn => by rw [hvl, fupd_other _ _ _ _ hn], hlen⟩
  · rfl
  · refine ⟨hh, ?_, ?_, ?_, ?_, ?_, ?_⟩
    · -- same set of nodes
      have hperm : (l.head :: ((A ++ m :: B) ++ fs')).Perm (l.head :: ((A ++ B) ++ m :: fs')) := by
        apply List.Perm.cons
        simp only [List.append_assoc]
        apply List.Perm.append_left
        have : (m :: (B ++ fs')).Perm (B ++ m :: fs') := List.perm_middle.symm
        simpa using this
      exact hperm.nodup_iff.mpr hnd
    · intro a ha
      rw [hlen]
      apply hval
      rcases List.mem_cons.mp ha with h1 | h1
      · rw [h1]; simp
      · apply List.mem_cons_of_mem
        simp only [List.mem_append, List.mem_cons] at h1 ⊢
        rcases h1 with (h2 | h2 | h2) | h2
        · exact Or.inl (Or.inl h2)
        · exact Or.inr (Or.inl h2)
        · exact Or.inl (Or.inr h2)
        · exact Or.inr (Or.inr h2)
    · show lseg h7.nextOf l.head (l.head :: (A ++ m :: B)) l.head
      rw [hnx]; exact fwd'
    · show lseg h7.prevOf l.head (l.head :: (A ++ m :: B).reverse) l.head
      rw [hpv7]; exact bwd'
    · show lseg h7.nextOf (h.nextOf m) fs' 0
      apply lseg_congr _ hfree.2
      intro a ha
      have ham : a ≠ m := fun e => (List.nodup_cons.mp hndF).1 (e ▸ ha)
      have haq : a ≠ q := fun e => hdisj a ha (e ▸ hqmem)
      rw [hnx, fupd_other _ _ _ _ haq, fupd_other _ _ _ _ ham]
    · intro n hn
      rw [hvl]
      by_cases hnm : n = m
      · rw [hnm, fupd_same]; rfl
      · rw [fupd_other _ _ _ _ hnm]
        apply vals
        simp only [List.mem_append, List.mem_cons] at hn ⊢
        rcases hn with h2 | h2 | h2
        · exact Or.inl h2
        · exact absurd h2 hnm
        · exact Or.inr h2

/-- **freeNode** (`erase`, `pop_front`, `pop_back`, each step of `clear`): the node `m` leaves the ring, its
value is destroyed, and it becomes the new head of the free chain (so the next `constructNode` reuses it
first); every other node keeps address, links and value. -/
theorem freeNode_refines (h : PHeap α) (l : PL) (A B fs : List Nat) (m p : Nat) (P' : List Nat)
    (w : PWF h l (A ++ m :: B) fs) (hB : l.head :: B.reverse = P' ++ [p]) :
    ∃ h' l', freeNode h l m = some (h', l') ∧ PWF h' l' (A ++ B) (m :: fs) ∧ l'.head = l.head ∧
      (∀ n, n ≠ m → h'.valOf n = h.valOf n) ∧ h'.nodes.length = h.nodes.length := by
  obtain ⟨hh, hnd, hval, fwd, bwd, freec, vals⟩ := w
  obtain ⟨P, q, hA⟩ : ∃ P q, l.head :: A = P ++ [q] := by
    rcases List.eq_nil_or_concat (l.head :: A) with h1 | ⟨P, q, h1⟩
    · cases h1
    · exact ⟨P, q, by simpa using h1⟩
  have hmem : ∀ a, a ∈ l.head :: (A ++ B) → a ∈ l.head :: ((A ++ m :: B) ++ fs) := by
    intro a ha
    rcases List.mem_cons.mp ha with h1 | h1
    · rw [h1]; simp
    · apply List.mem_cons_of_mem
      simp only [List.mem_append, List.mem_cons] at h1 ⊢
      rcases h1 with h2 | h2
      · exact Or.inl (Or.inl h2)
      · exact Or.inl (Or.inr (Or.inr h2))
  have hring : ∀ a, a ∈ l.head :: (A ++ B) → a ∈ l.head :: (A ++ m :: B) := by
    intro a ha
    rcases List.mem_cons.mp ha with h1 | h1
    · rw [h1]; simp
    · apply List.mem_cons_of_mem
      simp only [List.mem_append, List.mem_cons] at h1 ⊢
      rcases h1 with h2 | h2
      · exact Or.inl h2
      · exact Or.inr (Or.inr h2)
  have hpmem : p ∈ l.head :: (A ++ B) := by
    have : p ∈ l.head :: B.reverse := by rw [hB]; simp
    rcases List.mem_cons.mp this with h1 | h1
    · rw [h1]; simp
    · exact List.mem_cons_of_mem _ (List.mem_append_right _ (List.mem_reverse.mp h1))
  have hqmem : q ∈ l.head :: (A ++ B) := by
    have : q ∈ l.head :: A := by rw [hA]; simp
    rcases List.mem_cons.mp this with h1 | h1
    · rw [h1]; simp
    · exact List.mem_cons_of_mem _ (List.mem_append_left _ h1)
  have hpv := hval p (hmem p hpmem)
  have hqv := hval q (hmem q hqmem)
  have hmv := hval m (by simp)
  have hndR : (l.head :: (A ++ m :: B)).Nodup := by
    have : (l.head :: (A ++ m :: B) ++ fs).Nodup := by simpa [List.append_assoc] using hnd
    exact (List.nodup_append.mp this).1
  have hmR : m ∉ l.head :: (A ++ B) := by
    intro hin
    have hperm : (l.head :: (A ++ m :: B)).Perm (m :: l.head :: (A ++ B)) := by
      have : (l.head :: (A ++ m :: B)).Perm (l.head :: m :: (A ++ B)) := List.Perm.cons _ List.perm_middle
      exact this.trans (List.Perm.swap _ _ _)
    exact (List.nodup_cons.mp (hperm.nodup_iff.mp hndR)).1 hin
  have hpm : p ≠ m := fun e => hmR (e ▸ hpmem)
  have hqm : q ≠ m := fun e => hmR (e ▸ hqmem)
  obtain ⟨hmp, hmq, _, _, fwd', bwd'⟩ := ring_unlink h.nextOf h.prevOf l.head m q p A B P P' hA hB hndR fwd bwd
  unfold freeNode
  rw [hmq, hmp]
  obtain ⟨h1, e1, l1, n1, p1, v1⟩ := PHeap.setNext_spec h q p hqv.1 hqv.2
  simp only [e1, Option.bind_some]
  have r1 : h1.nextOf m = p := by rw [n1, fupd_other _ _ _ _ hqm.symm, hmp]
  have r2 : h1.prevOf m = q := by rw [p1, hmq]
  rw [r1, r2]
  obtain ⟨h2, e2, l2, p2, n2, v2⟩ := PHeap.setPrev_spec h1 p q hpv.1 (l1 ▸ hpv.2)
  simp only [e2, Option.bind_some]
  obtain ⟨h3, e3, l3, v3, n3, p3⟩ := PHeap.setVal_spec h2 m none hmv.1 (by rw [l2, l1]; exact hmv.2)
  simp only [e3, Option.bind_some]
  obtain ⟨h4, e4, l4, p4, n4, v4⟩ := PHeap.setPrev_spec h3 m 0 hmv.1 (by rw [l3, l2, l1]; exact hmv.2)
  simp only [e4, Option.bind_some]
  obtain ⟨h5, e5, l5, n5, p5, v5⟩ := PHeap.setNext_spec h4 m l.free hmv.1 (by rw [l4, l3, l2, l1]; exact hmv.2)
  simp only [e5, Option.map_some]
  have hlen : h5.nodes.length = h.nodes.length := by rw [l5, l4, l3, l2, l1]
  have hnx : h5.nextOf = fupd (fupd h.nextOf q p) m l.free := by rw [n5, n4, n3, n2, n1]
  have hpv5 : h5.prevOf = fupd (fupd h.prevOf p q) m 0 := by rw [p5, p4, p3, p2, p1]
  have hvl : h5.valOf = fupd h.valOf m none := by rw [v5, v4, v3, v2, v1]
  refine ⟨h5, { l with free := m }, rfl, ?_, rfl, fun n hn => by rw [hvl, fupd_other _ _ _ _ hn], hlen⟩
  have hperm : (l.head :: ((A ++ B) ++ m :: fs)).Perm (l.head :: ((A ++ m :: B) ++ fs)) := by
    apply List.Perm.cons
    simp only [List.append_assoc]
    apply List.Perm.append_left
    have : (B ++ m :: fs).Perm (m :: (B ++ fs)) := List.perm_middle
    simpa using this
  refine ⟨hh, hperm.nodup_iff.mpr hnd, ?_, ?_, ?_, ?_, ?_⟩
  · intro a ha; rw [hlen]; exact hval a (hperm.subset ha)
  · show lseg h5.nextOf l.head (l.head :: (A ++ B)) l.head
    rw [hnx]
    apply lseg_congr _ (hmp ▸ fwd')
    intro a ha
    have : a ≠ m := fun e => hmR (e ▸ ha)
    rw [fupd_other _ _ _ _ this]
  · show lseg h5.prevOf l.head (l.head :: (A ++ B).reverse) l.head
    rw [hpv5]
    apply lseg_congr _ (hmq ▸ bwd')
    intro a ha
    have : a ≠ m := by
      intro e; apply hmR; rw [← e]
      rcases List.mem_cons.mp ha with h1' | h1'
      · rw [h1']; simp
      · exact List.mem_cons_of_mem _ (List.mem_reverse.mp h1')
    rw [fupd_other _ _ _ _ this]
  · show lseg h5.nextOf m (m :: fs) 0
    refine ⟨rfl, ?_⟩
    rw [hnx, fupd_same]
    apply lseg_congr _ freec
    intro a ha
    have hdis : a ∉ l.head :: (A ++ m :: B) := by
      have : (l.head :: (A ++ m :: B) ++ fs).Nodup := by simpa [List.append_assoc] using hnd
      intro hin; exact (List.nodup_append.mp this).2.2 a hin a ha rfl
    have ham : a ≠ m := fun e => hdis (by rw [e]; simp)
    have haq : a ≠ q := fun e => hdis (e ▸ hring q hqmem)
    rw [fupd_other _ _ _ _ ham, fupd_other _ _ _ _ haq]
  · intro n hn
    have hnm : n ≠ m := fun e => hmR (e ▸ List.mem_cons_of_mem _ hn)
    rw [hvl, fupd_other _ _ _ _ hnm]
    apply vals
    simp only [List.mem_append, List.mem_cons] at hn ⊢
    rcases hn with h2 | h2
    · exact Or.inl h2
    · exact Or.inr (Or.inr h2)

end PL

end XalanModel.Containers
