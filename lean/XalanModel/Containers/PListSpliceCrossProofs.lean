/-
`XalanList::splice(pos, list, toInsert)` at pointer level, from one list object into *another* (the form
`XalanMap` uses between its entry list and its free list): on a heap where both lists are well formed and share
no node, the six pointer writes of `PL.splice` take `m` out of the source ring and link it in front of `p` in the
destination ring; both lists stay well formed (rings both ways, free chains untouched), no value changes.
Composes `ring_unlink` (source ring) and `ring_link` (destination ring) with the frame lemma `lseg_congr`.
Core Lean only.
-/
import XalanModel.Containers.PListSpliceProofs

namespace XalanModel.Containers
namespace PL
variable {α : Type}

theorem mem_ring_of_mem {hd : Nat} {ns fs : List Nat} {a : Nat} (h : a ∈ hd :: ns) : a ∈ hd :: (ns ++ fs) := by
  rcases List.mem_cons.mp h with h1 | h1
  · rw [h1]; simp
  · exact List.mem_cons_of_mem _ (List.mem_append_left _ h1)

theorem mem_free_of_mem {hd : Nat} {ns fs : List Nat} {a : Nat} (h : a ∈ fs) : a ∈ hd :: (ns ++ fs) :=
  List.mem_cons_of_mem _ (List.mem_append_right _ h)

/-- **splice of one node from list `l2` into list `l1`** -/
theorem splice_cross_refines (h : PHeap α) (l1 l2 : PL) (A B A' B' fs1 fs2 : List Nat) (m p : Nat) (P1 : List Nat)
    (w1 : PWF h l1 (A' ++ B') fs1) (w2 : PWF h l2 (A ++ m :: B) fs2)
    (hd12 : ∀ a, a ∈ l1.head :: ((A' ++ B') ++ fs1) → a ∈ l2.head :: ((A ++ m :: B) ++ fs2) → False)
    (hB' : l1.head :: B'.reverse = P1 ++ [p]) :
    ∃ h', splice h l1 p m = some (h', l1) ∧ PWF h' l1 (A' ++ m :: B') fs1 ∧ PWF h' l2 (A ++ B) fs2 ∧
      h'.valOf = h.valOf ∧ h'.nodes.length = h.nodes.length := by
  obtain ⟨hh1, hnd1, hval1, fwdD, bwdD, freec1, vals1⟩ := w1
  obtain ⟨hh2, hnd2, hval2, fwdS, bwdS, freec2, vals2⟩ := w2
  obtain ⟨P, q, hA⟩ := last_decomp l2.head A
  obtain ⟨P0, p0, hB⟩ := last_decomp l2.head B.reverse
  obtain ⟨P2, q', hA'⟩ := last_decomp l1.head A'
  -- source ring
  have hndS : (l2.head :: (A ++ m :: B)).Nodup := by
    have : (l2.head :: (A ++ m :: B) ++ fs2).Nodup := by simpa [List.append_assoc] using hnd2
    exact (List.nodup_append.mp this).1
  have hdisjS : ∀ a ∈ fs2, a ∉ l2.head :: (A ++ m :: B) := by
    have : (l2.head :: (A ++ m :: B) ++ fs2).Nodup := by simpa [List.append_assoc] using hnd2
    intro a ha hin; exact (List.nodup_append.mp this).2.2 a hin a ha rfl
  have hsubS : ∀ a, a ∈ l2.head :: (A ++ B) → a ∈ l2.head :: (A ++ m :: B) := by
    intro a ha
    simp only [List.mem_cons, List.mem_append] at ha ⊢
    rcases ha with h1 | h1 | h1
    · exact Or.inl h1
    · exact Or.inr (Or.inl h1)
    · exact Or.inr (Or.inr (Or.inr h1))
  have hndAB : (l2.head :: (A ++ B)).Nodup ∧ m ∉ l2.head :: (A ++ B) := by
    have hperm : (l2.head :: (A ++ m :: B)).Perm (m :: l2.head :: (A ++ B)) := by
      have h1 : (A ++ m :: B).Perm (m :: (A ++ B)) := List.perm_middle
      exact (List.Perm.cons _ h1).trans (List.Perm.swap ..)
    have := hperm.nodup_iff.mp hndS
    exact ⟨(List.nodup_cons.mp this).2, (List.nodup_cons.mp this).1⟩
  obtain ⟨hndAB, hmAB⟩ := hndAB
  have hmS : m ∈ l2.head :: (A ++ m :: B) := by simp
  have hqS : q ∈ l2.head :: (A ++ B) := by
    rcases List.mem_cons.mp (mem_of_last hA) with h1 | h1
    · rw [h1]; simp
    · exact List.mem_cons_of_mem _ (List.mem_append_left _ h1)
  have hp0S : p0 ∈ l2.head :: (A ++ B) := by
    rcases List.mem_cons.mp (mem_of_last hB) with h1 | h1
    · rw [h1]; simp
    · exact List.mem_cons_of_mem _ (List.mem_append_right _ (List.mem_reverse.mp h1))
  -- destination ring
  have hndD : (l1.head :: (A' ++ B')).Nodup := by
    have : (l1.head :: (A' ++ B') ++ fs1).Nodup := by simpa [List.append_assoc] using hnd1
    exact (List.nodup_append.mp this).1
  have hdisjD : ∀ a ∈ fs1, a ∉ l1.head :: (A' ++ B') := by
    have : (l1.head :: (A' ++ B') ++ fs1).Nodup := by simpa [List.append_assoc] using hnd1
    intro a ha hin; exact (List.nodup_append.mp this).2.2 a hin a ha rfl
  have hq'D : q' ∈ l1.head :: (A' ++ B') := by
    rcases List.mem_cons.mp (mem_of_last hA') with h1 | h1
    · rw [h1]; simp
    · exact List.mem_cons_of_mem _ (List.mem_append_left _ h1)
  have hpD : p ∈ l1.head :: (A' ++ B') := by
    rcases List.mem_cons.mp (mem_of_last hB') with h1 | h1
    · rw [h1]; simp
    · exact List.mem_cons_of_mem _ (List.mem_append_right _ (List.mem_reverse.mp h1))
  -- separation
  have sepDS : ∀ a, a ∈ l1.head :: (A' ++ B') → a ∉ l2.head :: (A ++ m :: B) :=
    fun a ha hin => hd12 a (mem_ring_of_mem ha) (mem_ring_of_mem hin)
  have sepF1S : ∀ a, a ∈ fs1 → a ∉ l2.head :: (A ++ m :: B) :=
    fun a ha hin => hd12 a (mem_free_of_mem ha) (mem_ring_of_mem hin)
  have sepDF2 : ∀ a, a ∈ l1.head :: (A' ++ B') → a ∉ fs2 :=
    fun a ha hin => hd12 a (mem_ring_of_mem ha) (mem_free_of_mem hin)
  have hmD : m ∉ l1.head :: (A' ++ B') := fun hin => sepDS m hin hmS
  -- validity
  have hmv := hval2 m (mem_ring_of_mem hmS)
  have hqv := hval2 q (mem_ring_of_mem (hsubS q hqS))
  have hp0v := hval2 p0 (mem_ring_of_mem (hsubS p0 hp0S))
  have hq'v := hval1 q' (mem_ring_of_mem hq'D)
  have hpv := hval1 p (mem_ring_of_mem hpD)
  have hqm : q ≠ m := fun e => hmAB (e ▸ hqS)
  have hpm : p ≠ m := fun e => hmD (e ▸ hpD)
  have hpp0 : p ≠ p0 := fun e => sepDS p hpD (e ▸ hsubS p0 hp0S)
  -- ring facts
  obtain ⟨hnm, hpvm, _, _, fwdS1, bwdS1⟩ :=
    ring_unlink h.nextOf h.prevOf l2.head m q p0 A B P P0 hA hB hndS fwdS bwdS
  rw [hnm] at fwdS1; rw [hpvm] at bwdS1
  have fwdD1 : lseg (fupd h.nextOf q p0) l1.head (l1.head :: (A' ++ B')) l1.head := by
    apply lseg_congr _ fwdD
    intro n hn
    exact fupd_other _ _ _ _ (fun e => sepDS n hn (e ▸ hsubS q hqS))
  have bwdD1 : lseg (fupd h.prevOf p0 q) l1.head (l1.head :: (A' ++ B').reverse) l1.head := by
    apply lseg_congr _ bwdD
    intro n hn
    have hn' : n ∈ l1.head :: (A' ++ B') := by
      simp only [List.mem_cons, List.mem_reverse] at hn ⊢; exact hn
    exact fupd_other _ _ _ _ (fun e => sepDS n hn' (e ▸ hsubS p0 hp0S))
  obtain ⟨hnq', hpp, fwdD2, bwdD2⟩ :=
    ring_link (fupd h.nextOf q p0) (fupd h.prevOf p0 q) l1.head m q' p A' B' P2 P1 hA' hB' hndD hmD fwdD1 bwdD1
  -- run the six writes
  unfold splice positionNode
  simp only [hpm, if_false, hpv.1]
  rw [hpvm, hnm]
  obtain ⟨h2, e2, l2', n2, p2, v2⟩ := PHeap.setNext_spec h q p0 hqv.1 hqv.2
  simp only [e2, Option.bind_some]
  have hn2m : h2.nextOf m = p0 := by rw [n2, fupd_other _ _ _ _ hqm.symm, hnm]
  have hp2m : h2.prevOf m = q := by rw [p2, hpvm]
  rw [hn2m, hp2m]
  obtain ⟨h3, e3, l3, p3, n3, v3⟩ := PHeap.setPrev_spec h2 p0 q hp0v.1 (l2' ▸ hp0v.2)
  simp only [e3, Option.bind_some]
  have hp3p : h3.prevOf p = q' := by rw [p3, p2]; exact hpp
  rw [hp3p]
  obtain ⟨h4, e4, l4, p4, n4, v4⟩ := PHeap.setPrev_spec h3 m q' hmv.1 (by rw [l3, l2']; exact hmv.2)
  simp only [e4, Option.bind_some]
  obtain ⟨h5, e5, l5, n5, p5, v5⟩ := PHeap.setNext_spec h4 m p hmv.1 (by rw [l4, l3, l2']; exact hmv.2)
  simp only [e5, Option.bind_some]
  have hp5p : h5.prevOf p = q' := by rw [p5, p4, fupd_other _ _ _ _ hpm, hp3p]
  rw [hp5p]
  obtain ⟨h6, e6, l6, n6, p6, v6⟩ := PHeap.setNext_spec h5 q' m hq'v.1 (by rw [l5, l4, l3, l2']; exact hq'v.2)
  simp only [e6, Option.bind_some]
  obtain ⟨h7, e7, l7, p7, n7, v7⟩ := PHeap.setPrev_spec h6 p m hpv.1 (by rw [l6, l5, l4, l3, l2']; exact hpv.2)
  simp only [e7, Option.map_some]
  have hlen : h7.nodes.length = h.nodes.length := by rw [l7, l6, l5, l4, l3, l2']
  have hnx : h7.nextOf = fupd (fupd (fupd h.nextOf q p0) m p) q' m := by rw [n7, n6, n5, n4, n3, n2]
  have hpv7 : h7.prevOf = fupd (fupd (fupd h.prevOf p0 q) m q') p m := by rw [p7, p6, p5, p4, p3, p2]
  have hvl : h7.valOf = h.valOf := by rw [v7, v6, v5, v4, v3, v2]
  refine ⟨h7, rfl, ⟨hh1, ?_, ?_, ?_, ?_, ?_, ?_⟩, ⟨hh2, ?_, ?_, ?_, ?_, ?_, ?_⟩, hvl, hlen⟩
  · -- destination: distinct addresses
    have hmF1 : m ∉ fs1 := fun hin => sepF1S m hin hmS
    have h1 : (l1.head :: (A' ++ B') ++ fs1).Nodup := by simpa [List.append_assoc] using hnd1
    have h2 : (m :: (l1.head :: (A' ++ B') ++ fs1)).Nodup := by
      refine List.nodup_cons.mpr ⟨?_, h1⟩
      intro hin
      rcases List.mem_append.mp hin with h3 | h3
      · exact hmD h3
      · exact hmF1 h3
    have hperm : (l1.head :: ((A' ++ m :: B') ++ fs1)).Perm (m :: (l1.head :: (A' ++ B') ++ fs1)) := by
      have h3 : ((A' ++ m :: B') ++ fs1).Perm (m :: ((A' ++ B') ++ fs1)) := by
        simp only [List.append_assoc, List.cons_append]
        exact List.perm_middle
      exact (List.Perm.cons _ h3).trans (List.Perm.swap ..)
    exact hperm.nodup_iff.mpr h2
  · intro a ha
    rw [hlen]
    simp only [List.mem_cons, List.mem_append] at ha
    rcases ha with h1 | (h1 | h1 | h1) | h1
    · exact hval1 a (by rw [h1]; simp)
    · exact hval1 a (by simp [h1])
    · rw [h1]; exact hmv
    · exact hval1 a (by simp [h1])
    · exact hval1 a (by simp [h1])
  · show lseg h7.nextOf l1.head (l1.head :: (A' ++ m :: B')) l1.head
    rw [hnx]; exact fwdD2
  · show lseg h7.prevOf l1.head (l1.head :: (A' ++ m :: B').reverse) l1.head
    rw [hpv7]; exact bwdD2
  · show lseg h7.nextOf l1.free fs1 0
    apply lseg_congr _ freec1
    intro a ha
    have haq : a ≠ q := fun e => sepF1S a ha (e ▸ hsubS q hqS)
    have ham : a ≠ m := fun e => sepF1S a ha (e ▸ hmS)
    have haq' : a ≠ q' := fun e => hdisjD a ha (e ▸ hq'D)
    rw [hnx, fupd_other _ _ _ _ haq', fupd_other _ _ _ _ ham, fupd_other _ _ _ _ haq]
  · intro n hn
    rw [hvl]
    simp only [List.mem_append, List.mem_cons] at hn
    rcases hn with h1 | h1 | h1
    · exact vals1 n (by simp [h1])
    · rw [h1]; exact vals2 m (by simp)
    · exact vals1 n (by simp [h1])
  · -- source: distinct addresses
    have h1 : (l2.head :: ((A ++ m :: B) ++ fs2)).Perm (m :: l2.head :: ((A ++ B) ++ fs2)) := by
      have h3 : ((A ++ m :: B) ++ fs2).Perm (m :: ((A ++ B) ++ fs2)) := by
        simp only [List.append_assoc, List.cons_append]
        exact List.perm_middle
      exact (List.Perm.cons _ h3).trans (List.Perm.swap ..)
    exact (List.nodup_cons.mp (h1.nodup_iff.mp hnd2)).2
  · intro a ha
    rw [hlen]
    apply hval2
    simp only [List.mem_cons, List.mem_append] at ha ⊢
    rcases ha with h1 | (h1 | h1) | h1
    · exact Or.inl h1
    · exact Or.inr (Or.inl (Or.inl h1))
    · exact Or.inr (Or.inl (Or.inr (Or.inr h1)))
    · exact Or.inr (Or.inr h1)
  · show lseg h7.nextOf l2.head (l2.head :: (A ++ B)) l2.head
    apply lseg_congr _ fwdS1
    intro n hn
    have hnm' : n ≠ m := fun e => hmAB (e ▸ hn)
    have hnq' : n ≠ q' := fun e => sepDS q' hq'D (e ▸ hsubS n hn)
    rw [hnx, fupd_other _ _ _ _ hnq', fupd_other _ _ _ _ hnm']
  · show lseg h7.prevOf l2.head (l2.head :: (A ++ B).reverse) l2.head
    apply lseg_congr _ bwdS1
    intro n hn
    have hn' : n ∈ l2.head :: (A ++ B) := by
      simp only [List.mem_cons, List.mem_reverse] at hn ⊢; exact hn
    have hnm' : n ≠ m := fun e => hmAB (e ▸ hn')
    have hnp : n ≠ p := fun e => sepDS p hpD (e ▸ hsubS n hn')
    rw [hpv7, fupd_other _ _ _ _ hnp, fupd_other _ _ _ _ hnm']
  · show lseg h7.nextOf l2.free fs2 0
    apply lseg_congr _ freec2
    intro a ha
    have haq : a ≠ q := fun e => hdisjS a ha (e ▸ hsubS q hqS)
    have ham : a ≠ m := fun e => hdisjS a ha (e ▸ hmS)
    have haq' : a ≠ q' := fun e => sepDF2 q' hq'D (e ▸ ha)
    rw [hnx, fupd_other _ _ _ _ haq', fupd_other _ _ _ _ ham, fupd_other _ _ _ _ haq]
  · intro n hn
    rw [hvl]
    apply vals2
    simp only [List.mem_append, List.mem_cons] at hn ⊢
    rcases hn with h1 | h1
    · exact Or.inl h1
    · exact Or.inr (Or.inr h1)

end PL
end XalanModel.Containers
