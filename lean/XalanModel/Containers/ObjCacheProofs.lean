import XalanModel.Containers.ObjCache
/-!
`XalanObjectCache`: with callers that release only what they hold, an object is never handed out twice
and always comes back reset.  `held` is the (ghost) list of objects currently handed out.
-/
namespace XalanModel.Containers.OCache
variable {α : Type}

structure Inv (c : OCache α) (held : List Nat) : Prop where
  av_nodup : c.available.Nodup
  held_nodup : held.Nodup
  disj : ∀ id ∈ c.available, id ∉ held
  av_lt : ∀ id ∈ c.available, id < c.objs.length
  held_lt : ∀ id ∈ held, id < c.objs.length
  av_clear : ∀ id ∈ c.available, c.objs[id]? = some []

theorem inv_empty : Inv ({} : OCache α) [] :=
  ⟨by simp, by simp, by simp, by simp, by simp, by simp⟩

theorem get_spec (c : OCache α) (held : List Nat) (h : Inv c held) :
    (c.get).2 ∉ held ∧ Inv (c.get).1 ((c.get).2 :: held) ∧ (c.get).1.objs[(c.get).2]? = some [] := by
  unfold get
  cases hg : c.available.getLast? with
  | none =>
    have hav : c.available = [] := List.getLast?_eq_none_iff.mp hg
    simp only
    have hnot : c.objs.length ∉ held := fun hin => Nat.lt_irrefl _ (h.held_lt _ hin)
    refine ⟨hnot, ⟨by rw [hav]; simp, List.nodup_cons.mpr ⟨hnot, h.held_nodup⟩, ?_, ?_, ?_, ?_⟩, by simp⟩
    · intro id hid; rw [hav] at hid; cases hid
    · intro id hid; rw [hav] at hid; cases hid
    · intro id hid
      simp only [List.length_append, List.length_cons, List.length_nil]
      rcases List.mem_cons.mp hid with h1 | h1
      · omega
      · have := h.held_lt id h1; omega
    · intro id hid; rw [hav] at hid; cases hid
  | some id =>
    obtain ⟨ys, hys⟩ := List.getLast?_eq_some_iff.mp hg
    simp only
    have hidav : id ∈ c.available := by rw [hys]; simp
    have hnd := h.av_nodup
    rw [hys, List.nodup_append] at hnd
    have hdl : c.available.dropLast = ys := by rw [hys, List.dropLast_concat]
    have hsub : ∀ y ∈ ys, y ∈ c.available := fun y hy => by rw [hys]; exact List.mem_append_left _ hy
    refine ⟨h.disj id hidav, ⟨by rw [hdl]; exact hnd.1, List.nodup_cons.mpr ⟨h.disj id hidav, h.held_nodup⟩, ?_, ?_, ?_, ?_⟩,
      h.av_clear id hidav⟩
    · intro y hy hin
      rw [hdl] at hy
      rcases List.mem_cons.mp hin with h1 | h1
      · exact hnd.2.2 y hy id (by simp) h1
      · exact h.disj y (hsub y hy) h1
    · intro y hy; rw [hdl] at hy; exact h.av_lt y (hsub y hy)
    · intro y hy
      rcases List.mem_cons.mp hy with h1 | h1
      · rw [h1]; exact h.av_lt id hidav
      · exact h.held_lt y h1
    · intro y hy; rw [hdl] at hy; exact h.av_clear y (hsub y hy)

theorem release_spec (c : OCache α) (held : List Nat) (id : Nat) (h : Inv c held) (hid : id ∈ held) :
    Inv (c.release id) (held.erase id) := by
  have hnav : id ∉ c.available := fun hin => h.disj id hin hid
  have hlt := h.held_lt id hid
  refine ⟨?_, h.held_nodup.erase id, ?_, ?_, ?_, ?_⟩
  · show (c.available ++ [id]).Nodup
    rw [List.nodup_append]
    refine ⟨h.av_nodup, by simp, ?_⟩
    intro a ha b hb heq
    have : b = id := by simpa using hb
    exact hnav (this ▸ heq ▸ ha)
  · intro y hy hin
    rcases List.mem_append.mp (show y ∈ c.available ++ [id] from hy) with h1 | h1
    · exact h.disj y h1 (List.mem_of_mem_erase hin)
    · have : y = id := by simpa using h1
      rw [this] at hin
      exact (List.Nodup.mem_erase_iff h.held_nodup).mp hin |>.1 rfl
  · intro y hy
    show y < (c.objs.set id []).length
    rw [List.length_set]
    rcases List.mem_append.mp (show y ∈ c.available ++ [id] from hy) with h1 | h1
    · exact h.av_lt y h1
    · have : y = id := by simpa using h1
      rw [this]; exact hlt
  · intro y hy
    show y < (c.objs.set id []).length
    rw [List.length_set]; exact h.held_lt y (List.mem_of_mem_erase hy)
  · intro y hy
    show (c.objs.set id [])[y]? = some []
    rcases List.mem_append.mp (show y ∈ c.available ++ [id] from hy) with h1 | h1
    · have hne : id ≠ y := fun e => hnav (e ▸ h1)
      rw [List.getElem?_set_ne hne]; exact h.av_clear y h1
    · have : y = id := by simpa using h1
      rw [this, List.getElem?_set_self hlt]

theorem put_spec (c : OCache α) (held : List Nat) (id : Nat) (x : α) (h : Inv c held) (hid : id ∈ held) :
    Inv (c.put id x) held := by
  have hnav : id ∉ c.available := fun hin => h.disj id hin hid
  refine ⟨h.av_nodup, h.held_nodup, h.disj, ?_, ?_, ?_⟩
  · intro y hy; show y < (c.objs.modify id _).length; rw [List.length_modify]; exact h.av_lt y hy
  · intro y hy; show y < (c.objs.modify id _).length; rw [List.length_modify]; exact h.held_lt y hy
  · intro y hy
    show (c.objs.modify id _)[y]? = some []
    have hne : id ≠ y := fun e => hnav (e ▸ hy)
    rw [List.getElem?_modify]; simp [hne, h.av_clear y hy]

end XalanModel.Containers.OCache
