/-
Model of `XalanDOMStringPool` over `XalanDOMStringHashTable` (src/xalanc/PlatformSupport/) as written:
a fixed number of buckets, each a vector of pointers to pooled strings (`id` = allocation number in the
pool's string allocator); `find` looks only into bucket `hash(s) % m_bucketCount` and compares length and
characters; `get` returns the pooled string for equal characters or allocates and inserts a new one; the
empty string is never pooled (`s_emptyString`).  Keys are length-carrying unit sequences (`get(ptr, len)`,
`get(const XalanDOMString&)` = `get(c_str(), length())`): U+0000 inside a key is an ordinary unit.  `none` = `% 0` (a table constructed with no buckets).
The hash is `XalanDOMString::hash` = `hash_non_terminated_array<XalanDOMChar>` in 64-bit arithmetic.
Core Lean only.
-/
namespace XalanModel.Containers

structure SPool where
  bucketCount : Nat
  buckets : List (List Nat)
  strings : List (List Nat) := []     -- contents of the pooled strings, by allocation number
  count : Nat := 0                    -- m_stringCount (= m_hashTable.m_count)
deriving Repr, DecidableEq

namespace SPool

def new (bucketCount : Nat) : SPool := { bucketCount := bucketCount, buckets := List.replicate bucketCount [] }

/-- `XalanScalarHash` / `hash_non_terminated_array` with `size_t` = 64 bits -/
def hash (cs : List Nat) : Nat :=
  (cs.foldl (fun h c => (h + (h * 37 + h / 2 ^ 24 + c)) % 2 ^ 64) 0 + 1) % 2 ^ 64

/-- `XalanDOMStringHashTable::find`: bucket index and the pooled string, if any -/
def find (p : SPool) (cs : List Nat) : Option (Nat × Option Nat) :=
  if p.bucketCount = 0 then none
  else
    let i := hash cs % p.bucketCount
    (p.buckets[i]?).map fun b => (i, b.find? fun id => p.strings[id]? == some cs)

/-- `XalanDOMStringPool::get(theString, theLength)`; the result `none` is `s_emptyString` -/
def get (p : SPool) (cs : List Nat) : Option (SPool × Option Nat) :=
  if cs = [] then some (p, none)
  else
    (find p cs).map fun (i, r) =>
      match r with
      | some id => (p, some id)
      | none =>
        ({ p with strings := p.strings ++ [cs], count := p.count + 1,
                  buckets := p.buckets.modify i (· ++ [p.strings.length]) }, some p.strings.length)

/-- `get` **as written before the repair** `proposed/C20-stringpool-leading-nul.diff`: the test for the
empty key looks at the first unit instead of the length, so a key that starts with U+0000 is answered with
the shared empty string -/
def getAsWritten (p : SPool) (cs : List Nat) : Option (SPool × Option Nat) :=
  if cs = [] ∨ cs.head? = some 0 then some (p, none) else get p cs

/-- `clear()` -/
def clear (p : SPool) : SPool :=
  { p with strings := [], count := 0, buckets := p.buckets.map fun _ => [] }

/-- `getBucketCounts` -/
def bucketCounts (p : SPool) : List Nat := p.buckets.map List.length

end SPool
end XalanModel.Containers
