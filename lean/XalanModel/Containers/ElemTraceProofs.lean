import XalanModel.Containers.ElemTrace
import XalanModel.Containers.VectorTraceProofs
import XalanModel.Containers.DequeProofs
import XalanModel.Containers.XListProofs
import XalanModel.Containers.XMapProofs
/-!
The element-object events of deque, list and map operations pass the placement discipline and lead from
the constructed cells of the state before to those of the state after.
-/
namespace XalanModel.Containers

/-- one element per node: the nodes in `ids` hold a constructed element -/
def setLive (ids : List Nat) : Live := fun k => if k ∈ ids then 1 else 0

theorem setLive_construct (ids ids' : List Nat) (id : Nat) (hn : id ∉ ids)
    (hm : ∀ k, k ∈ ids' ↔ k = id ∨ k ∈ ids) :
    replay [.construct id 0] (setLive ids) = some (setLive ids') := by
  have h0 : setLive ids id = 0 := by simp [setLive, hn]
  simp only [replay, Ev.apply, h0, if_true, Option.bind_some]
  congr 1; funext k
  simp only [Live.upd, setLive, hm]
  by_cases hk : k = id
  · simp [hk]
  · simp [hk]

theorem setLive_destroy (ids ids' : List Nat) (id : Nat) (hin : id ∈ ids)
    (hm : ∀ k, k ∈ ids' ↔ k ∈ ids ∧ k ≠ id) :
    replay [.destroy id 0] (setLive ids) = some (setLive ids') := by
  have h1 : setLive ids id = 0 + 1 := by simp [setLive, hin]
  simp only [replay, Ev.apply, h1, if_true, Option.bind_some]
  congr 1; funext k
  simp only [Live.upd, setLive, hm]
  by_cases hk : k = id
  · simp [hk]
  · simp [hk]

theorem setLive_assign (ids : List Nat) (id : Nat) (hin : id ∈ ids) :
    replay [.assign id 0] (setLive ids) = some (setLive ids) := by
  have h1 : 0 < setLive ids id := by simp [setLive, hin]
  simp only [replay, Ev.apply, h1, if_true, Option.bind_some]

theorem setLive_clear (ids : List Nat) (hn : ids.Nodup) :
    replay (ids.map (.destroy · 0)) (setLive ids) = some (setLive []) := by
  induction ids with
  | nil => rfl
  | cons a t ih =>
    rw [List.nodup_cons] at hn
    have hd := setLive_destroy (a :: t) t a (List.mem_cons_self ..) (by
      intro k; constructor
      · intro hk; exact ⟨List.mem_cons_of_mem _ hk, fun e => hn.1 (e ▸ hk)⟩
      · rintro ⟨hk, hne⟩; rcases List.mem_cons.mp hk with h | h
        · exact absurd h hne
        · exact h)
    have : (a :: t).map (Ev.destroy · 0) = [Ev.destroy a 0] ++ t.map (Ev.destroy · 0) := rfl
    rw [this, replay_append, hd, Option.bind_some]
    exact ih hn.2

/-! ### deque -/

theorem getD_snoc (A : List Nat) (c k : Nat) :
    (A ++ [c]).getD k 0 = if k = A.length then c else A.getD k 0 := by
  simp only [List.getD_eq_getElem?_getD]
  by_cases h1 : k < A.length
  · have : k ≠ A.length := by omega
    rw [List.getElem?_append_left h1]; simp [this]
  · rw [List.getElem?_append_right (by omega)]
    by_cases h2 : k = A.length
    · simp [h2]
    · have : k - A.length ≠ 0 := by omega
      have h3 : A[k]? = none := List.getElem?_eq_none (by omega)
      cases hk : k - A.length with
      | zero => exact absurd hk this
      | succ j => simp [h2, h3]

theorem live_snoc_new (A : List Nat) (c : Nat) :
    (fun k => (A ++ [c]).getD k 0) = Live.upd (fun k => A.getD k 0) A.length c := by
  funext k; simp only [getD_snoc, Live.upd]

theorem live_snoc_set (A : List Nat) (b c : Nat) :
    (fun k => (A ++ [c]).getD k 0) = Live.upd (fun k => (A ++ [b]).getD k 0) A.length c := by
  funext k; simp only [getD_snoc, Live.upd]; split <;> rfl

theorem live_snoc_zero (A : List Nat) : (fun k => (A ++ [0]).getD k 0) = fun k => A.getD k 0 := by
  funext k; simp only [getD_snoc]
  split
  · rename_i h; rw [h]; simp [List.getD_eq_getElem?_getD]
  · rfl

namespace Deq
variable {α : Type}

theorem liveOf_snoc (bs fb : Nat) (init : List (List α)) (last : List α) :
    liveOf (⟨bs, init ++ [last], fb⟩ : Deq α) = fun k => (init.map List.length ++ [last.length]).getD k 0 := by
  funext k; simp [liveOf]

/-- **push_back**: one construction, of the first raw cell of the last block (or of a new block) -/
theorem events_push (d : Deq α) (x : α) (h : d.Inv) :
    replay (evPush d) (liveOf d) = some (liveOf (d.pushBack x)) := by
  obtain ⟨bs, blocks, fb⟩ := d
  rcases List.eq_nil_or_concat blocks with rfl | ⟨init, last, rfl⟩
  · obtain ⟨fb', e⟩ := pushBack_nil bs fb x
    rw [e]
    have hR : liveOf (⟨bs, [[x]], fb'⟩ : Deq α) = Live.upd (liveOf (⟨bs, [], fb⟩ : Deq α)) 0 1 := by
      funext k; simp only [liveOf, Live.upd, List.map_cons, List.map_nil, List.length_cons, List.length_nil]
      cases k <;> simp
    have hz : liveOf (⟨bs, [], fb⟩ : Deq α) 0 = 0 := by simp [liveOf]
    have hev : evPush (⟨bs, [], fb⟩ : Deq α) = [Ev.construct 0 0] := by simp [evPush]
    rw [hev, hR]
    generalize liveOf (⟨bs, [], fb⟩ : Deq α) = L at hz ⊢
    simp only [replay, Ev.apply, hz, if_true, Option.bind_some, Nat.zero_add]
  · simp only [List.concat_eq_append] at h ⊢
    obtain ⟨hb, hfull, hpos, hle⟩ := inv_snoc.mp h
    have hL := liveOf_snoc bs fb init last
    have hl2 : (init.map List.length).length = init.length := by simp
    by_cases hfl : last.length ≥ bs
    · obtain ⟨fb', e⟩ := pushBack_full bs fb init last x hfl
      rw [e]
      have hR : liveOf (⟨bs, init ++ [last] ++ [[x]], fb'⟩ : Deq α) =
          Live.upd (liveOf (⟨bs, init ++ [last], fb⟩ : Deq α)) (init.length + 1) 1 := by
        rw [hL]
        have : liveOf (⟨bs, init ++ [last] ++ [[x]], fb'⟩ : Deq α) =
            fun k => ((init.map List.length ++ [last.length]) ++ [1]).getD k 0 := by funext k; simp [liveOf]
        rw [this, live_snoc_new]; simp
      have hz : liveOf (⟨bs, init ++ [last], fb⟩ : Deq α) (init.length + 1) = 0 := by
        rw [hL]; show (init.map List.length ++ [last.length]).getD (init.length + 1) 0 = 0
        rw [getD_snoc]; simp [List.getD_eq_getElem?_getD]
      have hev : evPush (⟨bs, init ++ [last], fb⟩ : Deq α) = [Ev.construct (init.length + 1) 0] := by
        simp [evPush, hfl]
      rw [hev, hR]
      generalize liveOf (⟨bs, init ++ [last], fb⟩ : Deq α) = L at hz ⊢
      simp only [replay, Ev.apply, hz, if_true, Option.bind_some, Nat.zero_add]
    · rw [pushBack_room bs fb init last x hfl]
      have hR : liveOf (⟨bs, init ++ [last ++ [x]], fb⟩ : Deq α) =
          Live.upd (liveOf (⟨bs, init ++ [last], fb⟩ : Deq α)) init.length (last.length + 1) := by
        rw [hL, liveOf_snoc, live_snoc_set (init.map List.length) last.length (last ++ [x]).length, hl2]
        simp
      have hv : liveOf (⟨bs, init ++ [last], fb⟩ : Deq α) init.length = last.length := by
        rw [hL]; show (init.map List.length ++ [last.length]).getD init.length 0 = last.length
        rw [getD_snoc]; simp
      have hev : evPush (⟨bs, init ++ [last], fb⟩ : Deq α) = [Ev.construct init.length last.length] := by
        simp [evPush, hfl]
      rw [hev, hR]
      generalize liveOf (⟨bs, init ++ [last], fb⟩ : Deq α) = L at hv ⊢
      simp only [replay, Ev.apply, hv, if_true, Option.bind_some]

/-- **pop_back**: one destruction, of the last constructed cell of the last block -/
theorem events_pop (d d' : Deq α) (h : d.Inv) (e : d.popBack = some d') :
    replay (evPop d) (liveOf d) = some (liveOf d') := by
  obtain ⟨bs, blocks, fb⟩ := d
  rcases List.eq_nil_or_concat blocks with rfl | ⟨init, last, rfl⟩
  · simp [popBack] at e
  · simp only [List.concat_eq_append] at h e ⊢
    obtain ⟨hb, hfull, hpos, hle⟩ := inv_snoc.mp h
    simp only [popBack, List.getLast?_concat] at e
    have h0 : ¬ last.length = 0 := by omega
    simp only [h0, if_false] at e
    have hL := liveOf_snoc bs fb init last
    have hl2 : (init.map List.length).length = init.length := by simp
    have hev : evPop (⟨bs, init ++ [last], fb⟩ : Deq α) = [Ev.destroy init.length (last.length - 1)] := by
      simp [evPop]
    have hv : liveOf (⟨bs, init ++ [last], fb⟩ : Deq α) init.length = last.length - 1 + 1 := by
      rw [hL]; show (init.map List.length ++ [last.length]).getD init.length 0 = _
      rw [getD_snoc]; simp; omega
    have hR : liveOf d' = Live.upd (liveOf (⟨bs, init ++ [last], fb⟩ : Deq α)) init.length (last.length - 1) := by
      by_cases h1 : last.length = 1
      · simp only [h1, if_true, List.dropLast_concat, Option.some.injEq] at e
        subst e
        have hl : liveOf (⟨bs, init, fb + 1⟩ : Deq α) = fun k => (init.map List.length).getD k 0 := by
          funext k; simp [liveOf]
        rw [hl, hL, ← live_snoc_zero, live_snoc_set (init.map List.length) last.length 0, hl2, h1]
      · simp only [h1, if_false, List.dropLast_concat, Option.some.injEq] at e
        subst e
        rw [liveOf_snoc, hL, live_snoc_set (init.map List.length) last.length last.dropLast.length, hl2]
        simp
    rw [hev, hR]
    generalize liveOf (⟨bs, init ++ [last], fb⟩ : Deq α) = L at hv ⊢
    simp only [replay, Ev.apply, hv, if_true, Option.bind_some]

theorem replay_clearBlock (k : Nat) : ∀ (n : Nat) (l : Live), l k = n →
    replay (evClearBlock k n) l = some (l.upd k 0) := by
  intro n
  induction n with
  | zero =>
    intro l h; simp only [evClearBlock, List.range'_zero, List.reverse_nil, List.map_nil, replay]
    congr 1; funext x; simp only [Live.upd]; split
    · rename_i hx; rw [hx, h]
    · rfl
  | succ n ih =>
    intro l h
    have : evClearBlock k (n + 1) = [Ev.destroy k n] ++ evClearBlock k n := by
      simp [evClearBlock, List.range'_concat]
    rw [this, replay_append]
    simp only [replay, Ev.apply, h, if_true, Option.bind_some]
    rw [ih (l.upd k n) (Live.upd_same ..), Live.upd_upd]

/-- **clear()**: every element of every block destroyed exactly once -/
theorem events_clear (d : Deq α) : replay (evClear d) (liveOf d) = some (liveOf d.clear) := by
  have key : ∀ (bsl : List (List α)) (k : Nat) (l : Live), (∀ j, l (k + j) = (bsl.map List.length).getD j 0) →
      ∃ l', replay (evClearFrom k bsl) l = some l' ∧ (∀ j, k ≤ j → l' j = 0) ∧ (∀ j, j < k → l' j = l j) := by
    intro bsl
    induction bsl with
    | nil =>
      intro k l hl
      refine ⟨l, rfl, ?_, fun _ _ => rfl⟩
      intro j hj; have := hl (j - k); simp at this; rw [← this]; congr 1; omega
    | cons b t ih =>
      intro k l hl
      have hk : l k = b.length := by have := hl 0; simpa using this
      simp only [evClearFrom, replay_append, replay_clearBlock k b.length l hk, Option.bind_some]
      obtain ⟨l', e', hz, hkeep⟩ := ih (k + 1) (l.upd k 0) (by
        intro j
        rw [Live.upd_other _ _ _ _ (by omega)]
        have := hl (j + 1)
        simp only [List.map_cons, List.getD_cons_succ] at this
        rw [← this]; congr 1; omega)
      refine ⟨l', e', ?_, ?_⟩
      · intro j hj
        by_cases hjk : j = k
        · rw [hjk, hkeep k (by omega), Live.upd_same]
        · exact hz j (by omega)
      · intro j hj; rw [hkeep j (by omega), Live.upd_other _ _ _ _ (by omega)]
  obtain ⟨l', e', hz, _⟩ := key d.blocks 0 (liveOf d) (by intro j; simp [liveOf])
  rw [evClear, e']
  congr 1; funext j
  rw [hz j (Nat.zero_le _)]; simp [liveOf, clear]

end Deq

/-! ### list -/
namespace XL
variable {α : Type}

theorem liveOf_eq (l : XL α) : liveOf l = setLive (l.live.map (·.1)) := rfl

/-- **constructNode**: the node's element is constructed exactly once, while the node holds none -/
theorem events_construct (l : XL α) (next : Nat) (x : α) (pos : LPos) (i : Nat) (h : Inv l next)
    (hi : l.touch.indexOf pos = some i) :
    ∃ l' next' id, l.constructNode next x pos = some (l', next', id) ∧ Inv l' next' ∧
      replay (evConstruct id) (liveOf l) = some (liveOf l') := by
  obtain ⟨l', n', id, e, inv', _, hl, _⟩ := constructNode_spec l next x pos i h hi
  refine ⟨l', n', id, e, inv', ?_⟩
  have hids : l'.live.map (·.1) = (l.live.map (·.1)).take i ++ [id] ++ (l.live.map (·.1)).drop i := by
    rw [hl]; simp [List.map_take, List.map_drop]
  have hnd := inv'.live_nodup
  rw [hids] at hnd
  have hmem : ∀ k, k ∈ l'.live.map (·.1) ↔ k = id ∨ k ∈ l.live.map (·.1) := by
    intro k
    rw [hids]
    conv => rhs; rw [← List.take_append_drop i (l.live.map (·.1))]
    simp only [List.mem_append, List.mem_singleton]
    constructor
    · rintro ((h1 | h1) | h1)
      · exact Or.inr (Or.inl h1)
      · exact Or.inl h1
      · exact Or.inr (Or.inr h1)
    · rintro (h1 | h1 | h1)
      · exact Or.inl (Or.inr h1)
      · exact Or.inl (Or.inl h1)
      · exact Or.inr h1
  have hnot : id ∉ l.live.map (·.1) := by
    intro hin
    rw [← List.take_append_drop i (l.live.map (·.1))] at hin
    rw [List.append_assoc, List.nodup_append] at hnd
    rcases List.mem_append.mp hin with h1 | h1
    · exact hnd.2.2 id h1 id (by simp) rfl
    · have := hnd.2.1; rw [List.singleton_append, List.nodup_cons] at this; exact this.1 h1
  rw [liveOf_eq, liveOf_eq]
  exact setLive_construct _ _ id hnot hmem

/-- **erase / pop**: the node's element is destroyed exactly once -/
theorem events_erase (l : XL α) (next id i : Nat) (h : Inv l next) (hi : l.indexOf (.node id) = some i) :
    ∃ l', l.erase (.node id) = some l' ∧ Inv l' next ∧ replay (evErase id) (liveOf l) = some (liveOf l') := by
  obtain ⟨l', e, inv', hl, _, hkeep⟩ := erase_spec l next id i h hi
  refine ⟨l', e, inv', ?_⟩
  -- the erased node is live before and gone after
  have hidx : i < l.live.length ∧ (l.live[i]?).map (·.1) = some id := by
    have hi' := hi
    simp only [indexOf] at hi'
    by_cases hlt : List.findIdx (fun p => p.fst == id) l.live < l.live.length
    · rw [if_pos hlt] at hi'; simp only [Option.some.injEq] at hi'; subst hi'
      refine ⟨hlt, ?_⟩
      have := List.findIdx_getElem (w := hlt)
      simp only [List.getElem?_eq_getElem hlt, Option.map_some]; simpa using this
    · rw [if_neg hlt] at hi'; cases hi'
  have hin : id ∈ l.live.map (·.1) := by
    obtain ⟨hlt, hg⟩ := hidx
    rw [List.getElem?_eq_getElem hlt] at hg
    simp only [Option.map_some, Option.some.injEq] at hg
    rw [← hg]; exact List.mem_map_of_mem (List.getElem_mem hlt)
  have hmem : ∀ k, k ∈ l'.live.map (·.1) ↔ k ∈ l.live.map (·.1) ∧ k ≠ id := by
    intro k
    constructor
    · intro hk
      obtain ⟨p, hp, rfl⟩ := List.mem_map.mp hk
      have hp' : p ∈ l.live := by rw [hl] at hp; exact (List.eraseIdx_sublist ..).subset hp
      refine ⟨List.mem_map_of_mem hp', ?_⟩
      intro heq
      -- id would occur in l' although its node went to the free list
      have : id ∈ l'.free := by
        have := (erase_spec l next id i h hi).choose_spec
        rcases erase_spec l next id i h hi with ⟨l2, e2, _, _, hf2, _⟩
        rw [e] at e2; cases e2; rw [hf2]; exact List.mem_cons_self ..
      exact inv'.disjoint p hp (heq ▸ this)
    · rintro ⟨hk, hne⟩
      obtain ⟨p, hp, rfl⟩ := List.mem_map.mp hk
      exact List.mem_map_of_mem (hkeep p hp hne)
  rw [liveOf_eq, liveOf_eq]
  exact setLive_destroy _ _ id hin hmem

/-- **clear()**: every element is destroyed exactly once -/
theorem events_clear (l : XL α) (next : Nat) (h : Inv l next) :
    replay (evClear l) (liveOf l) = some (liveOf l.clear) := by
  have := setLive_clear (l.live.map (·.1)) h.live_nodup
  rw [List.map_map] at this
  exact this

end XL

/-! ### map -/
namespace XMap
variable {κ ν : Type} [DecidableEq κ] {hash : κ → Nat}

theorem liveOf_eq (m : XMap κ ν) : liveOf m = setLive (m.entries.map (·.id)) := rfl

/-- **doCreateEntry** (insert / `operator[]` of an absent key): the mapped value of the node is constructed once -/
theorem events_create (m : XMap κ ν) (h : Inv hash m) (k : κ) (v : ν) (hk : ∀ e ∈ m.entries, e.key ≠ k) :
    ∃ m' e, createEntry hash m k v = some (m', e) ∧ Inv hash m' ∧
      replay (evCreate e.id) (liveOf m) = some (liveOf m') := by
  obtain ⟨m', e, hc, inv', hent, _, _⟩ := createEntry_spec h k v hk
  refine ⟨m', e, hc, inv', ?_⟩
  have hnd := inv'.ids_nodup
  rw [hent, List.map_append, List.nodup_append] at hnd
  have hnot : e.id ∉ m.entries.map (·.id) := fun hin => hnd.2.2 e.id hin e.id (by simp) rfl
  rw [liveOf_eq, liveOf_eq, hent]
  exact setLive_construct _ _ e.id hnot (by intro k'; simp [List.map_append]; exact Or.comm)

/-- **doRemoveEntry / doErase**: the mapped value is destroyed once; the stale bucket pointer never reaches it again -/
theorem events_remove (m : XMap κ ν) (h : Inv hash m) (e : MEntry κ ν) (he : e ∈ m.entries) :
    replay (evRemove e.id) (liveOf m) = some (liveOf (doErase m e.id)) := by
  have hent : (doErase m e.id).entries = m.entries.filter (fun x => x.id != e.id) := by
    unfold doErase; simp only; split <;> rfl
  rw [liveOf_eq, liveOf_eq, hent]
  apply setLive_destroy _ _ e.id (List.mem_map_of_mem he)
  intro k'
  constructor
  · intro hk
    obtain ⟨x, hx, rfl⟩ := List.mem_map.mp hk
    have := List.mem_filter.mp hx
    exact ⟨List.mem_map_of_mem this.1, by simpa using this.2⟩
  · rintro ⟨hk, hne⟩
    obtain ⟨x, hx, rfl⟩ := List.mem_map.mp hk
    exact List.mem_map_of_mem (List.mem_filter.mpr ⟨hx, by simpa using hne⟩)

/-- assignment through `operator[]` touches a constructed value -/
theorem events_assign (m : XMap κ ν) (e : MEntry κ ν) (he : e ∈ m.entries) :
    replay (evAssign e.id) (liveOf m) = some (liveOf m) :=
  setLive_assign _ e.id (List.mem_map_of_mem he)

/-- **clear / destructor**: every mapped value destroyed exactly once -/
theorem events_clear (m : XMap κ ν) (h : Inv hash m) (m' : XMap κ ν) (hm : m'.entries = []) :
    replay (evClear m) (liveOf m) = some (liveOf m') := by
  have := setLive_clear (m.entries.map (·.id)) h.ids_nodup
  rw [List.map_map] at this
  rw [liveOf_eq, liveOf_eq, hm]
  exact this

end XMap
end XalanModel.Containers
