/-
Pointer-level model of `XalanList<T>` (src/xalanc/Include/XalanList.hpp at HEAD, i.e. with the lazy head
of c994d6f): a heap of nodes `{value, prev, next}` addressed by numbers (address 0 is the null pointer), and
per list object the two members `m_listHead` and `m_freeListHeadPtr`.  Every member function is the
pointer surgery of the C++, statement by statement, as sequential heap updates — including the order in
which `splice` unlinks the node *before* it reads `posNode.prev`.

`none` = a null / invalid pointer is dereferenced.  `PListProofs.lean` shows that on well-formed heaps the
operations are exactly the node-sequence edits of `XList.lean` (which `Props/C20.lean` refines to `List`),
with the free list reused in LIFO order.  All lists of a program share one heap, because `splice` moves
nodes between lists.
Core Lean only.
-/
namespace XalanModel.Containers

structure PNode (α : Type) where
  val : Option α      -- `none`: the head node, or a node on the free list (value destroyed)
  prev : Nat
  next : Nat
deriving Repr, DecidableEq

/-- the heap: `nodes[a]` is the node at address `a`; `nodes[0]` stands for the null address and is never used -/
structure PHeap (α : Type) where
  nodes : List (PNode α) := [⟨none, 0, 0⟩]
deriving Repr

/-- one `XalanList` object -/
structure PL where
  head : Nat := 0      -- m_listHead (0 = not yet created)
  free : Nat := 0      -- m_freeListHeadPtr
deriving Repr, DecidableEq

namespace PHeap
variable {α : Type}

def get (h : PHeap α) (a : Nat) : Option (PNode α) := if a = 0 then none else h.nodes[a]?

def nextOf (h : PHeap α) (a : Nat) : Nat := (h.nodes.getD a ⟨none, 0, 0⟩).next
def prevOf (h : PHeap α) (a : Nat) : Nat := (h.nodes.getD a ⟨none, 0, 0⟩).prev
def valOf (h : PHeap α) (a : Nat) : Option α := (h.nodes.getD a ⟨none, 0, 0⟩).val

/-- write through a pointer (`none` when it is null or outside the heap) -/
def modify (h : PHeap α) (a : Nat) (f : PNode α → PNode α) : Option (PHeap α) :=
  if a = 0 ∨ a ≥ h.nodes.length then none else some ⟨h.nodes.modify a f⟩

def setNext (h : PHeap α) (a n : Nat) : Option (PHeap α) := h.modify a fun x => { x with next := n }
def setPrev (h : PHeap α) (a p : Nat) : Option (PHeap α) := h.modify a fun x => { x with prev := p }
def setVal (h : PHeap α) (a : Nat) (v : Option α) : Option (PHeap α) := h.modify a fun x => { x with val := v }

/-- `allocate(1)`: a new node (its fields are whatever the caller writes next) -/
def alloc (h : PHeap α) (n : PNode α) : PHeap α × Nat := (⟨h.nodes ++ [n]⟩, h.nodes.length)

end PHeap

namespace PL
variable {α : Type}

/-- `getListHead()` -/
def getListHead (h : PHeap α) (l : PL) : PHeap α × PL × Nat :=
  if l.head = 0 then
    let a := h.nodes.length
    (⟨h.nodes ++ [⟨none, a, a⟩]⟩, { l with head := a }, a)
  else (h, l, l.head)

/-- `begin()` / `end()`: the null iterator pair while there is no head node -/
def beginPos (h : PHeap α) (l : PL) : Nat := if l.head = 0 then 0 else h.nextOf l.head
def endPos (l : PL) : Nat := l.head

/-- `positionNode(pos)`: a null iterator stands for `end()` of a list without head -/
def positionNode (h : PHeap α) (l : PL) (pos : Nat) : PHeap α × PL × Nat :=
  if pos = 0 then getListHead h l else (h, l, pos)

/-- `constructNode(data, pos)`; returns the address of the new node -/
def constructNode (h : PHeap α) (l : PL) (x : α) (pos : Nat) : Option (PHeap α × PL × Nat) :=
  let (h1, l1, posNode) := positionNode h l pos
  -- take the node from the free list, or allocate one
  let (h2, newNode, nextFree) :=
    if l1.free ≠ 0 then (h1, l1.free, h1.nextOf l1.free)
    else let (h', a) := h1.alloc ⟨none, 0, 0⟩; (h', a, 0)
  (h2.setVal newNode (some x)).bind fun h3 =>
  (h3.setPrev newNode (h3.prevOf posNode)).bind fun h4 =>
  (h4.setNext newNode posNode).bind fun h5 =>
  (h5.setNext (h5.prevOf posNode) newNode).bind fun h6 =>
  (h6.setPrev posNode newNode).map fun h7 =>
  (h7, { l1 with free := nextFree }, newNode)

/-- `freeNode(node)` -/
def freeNode (h : PHeap α) (l : PL) (node : Nat) : Option (PHeap α × PL) :=
  (h.setNext (h.prevOf node) (h.nextOf node)).bind fun h1 =>
  (h1.setPrev (h1.nextOf node) (h1.prevOf node)).bind fun h2 =>
  (h2.setVal node none).bind fun h3 =>
  (h3.setPrev node 0).bind fun h4 =>
  (h4.setNext node l.free).map fun h5 =>
  (h5, { l with free := node })

/-- `erase(pos)`: `assert(pos != end())` -/
def erase (h : PHeap α) (l : PL) (pos : Nat) : Option (PHeap α × PL) :=
  if pos = 0 ∨ pos = l.head then none else freeNode h l pos

/-- `splice(pos, list, toInsert)`; `l` is the destination (only its head may be created) -/
def splice (h : PHeap α) (l : PL) (pos toInsert : Nat) : Option (PHeap α × PL) :=
  if pos = toInsert then some (h, l)
  else
    let (h1, l1, posNode) := positionNode h l pos
    (h1.setNext (h1.prevOf toInsert) (h1.nextOf toInsert)).bind fun h2 =>
    (h2.setPrev (h2.nextOf toInsert) (h2.prevOf toInsert)).bind fun h3 =>
    (h3.setPrev toInsert (h3.prevOf posNode)).bind fun h4 =>
    (h4.setNext toInsert posNode).bind fun h5 =>
    (h5.setNext (h5.prevOf posNode) toInsert).bind fun h6 =>
    (h6.setPrev posNode toInsert).map fun h7 => (h7, l1)

/-- `splice(pos, list, first, last)` -/
def spliceRange (h : PHeap α) (l : PL) (pos first last : Nat) : Option (PHeap α × PL) :=
  if first = last then some (h, l)
  else
    let (h1, l1, posNode) := positionNode h l pos
    let lastNode := h1.prevOf last
    (h1.setNext (h1.prevOf first) (h1.nextOf lastNode)).bind fun h2 =>
    (h2.setPrev (h2.nextOf lastNode) (h2.prevOf first)).bind fun h3 =>
    (h3.setPrev first (h3.prevOf posNode)).bind fun h4 =>
    (h4.setNext lastNode posNode).bind fun h5 =>
    (h5.setNext (h5.prevOf posNode) first).bind fun h6 =>
    (h6.setPrev posNode lastNode).map fun h7 => (h7, l1)

/-- the nodes from `a` following `next` until `stop` (`fuel` bounds the walk) -/
def walk (h : PHeap α) (stop : Nat) : Nat → Nat → List Nat
  | 0, _ => []
  | fuel+1, a => if a = stop ∨ a = 0 then [] else a :: walk h stop fuel (h.nextOf a)

/-- the same backwards -/
def walkBack (h : PHeap α) (stop : Nat) : Nat → Nat → List Nat
  | 0, _ => []
  | fuel+1, a => if a = stop ∨ a = 0 then [] else a :: walkBack h stop fuel (h.prevOf a)

/-- linked nodes in list order / in reverse order / the free chain -/
def nodesOf (h : PHeap α) (l : PL) : List Nat :=
  if l.head = 0 then [] else walk h l.head h.nodes.length (h.nextOf l.head)
def nodesBack (h : PHeap α) (l : PL) : List Nat :=
  if l.head = 0 then [] else walkBack h l.head h.nodes.length (h.prevOf l.head)
def freeOf (h : PHeap α) (l : PL) : List Nat := walk h 0 h.nodes.length l.free

def toList (h : PHeap α) (l : PL) : List α := (nodesOf h l).filterMap h.valOf

/-- `clear()`: `freeNode(pos++.node())` from `begin()` to `end()` -/
def clearLoop (stop : Nat) : Nat → PHeap α → PL → Nat → Option (PHeap α × PL)
  | 0, h, l, _ => some (h, l)
  | fuel+1, h, l, pos =>
    if pos = stop ∨ pos = 0 then some (h, l)
    else
      let nxt := h.nextOf pos
      (freeNode h l pos).bind fun r => clearLoop stop fuel r.1 r.2 nxt

def clear (h : PHeap α) (l : PL) : Option (PHeap α × PL) :=
  clearLoop l.head h.nodes.length h l (beginPos h l)

/-- blocks this list holds from the memory manager -/
def blocks (h : PHeap α) (l : PL) : Nat :=
  (if l.head = 0 then 0 else 1) + (nodesOf h l).length + (freeOf h l).length

/-! ### call sequences on one list object (the alphabet of `PListHistoryProofs.lean`; `Driver/C20.lean` executes
`pstep` for these calls, so the function the history theorem speaks about is the one compared with the C++) -/

inductive POp (α : Type) where
  | pushBack (x : α)
  | pushFront (x : α)
  | popFront
  | popBack
  | clear
  | insertAt (idx : Nat) (x : α)     -- `insert(it, x)`, `it` = `begin()` advanced `idx` times (`idx = size()`: `end()`)
  | eraseAt (idx : Nat)              -- `erase(it)`

/-- the `std::list` contract -/
def pspecStep (s : List α) : POp α → Option (List α)
  | .pushBack x => some (s ++ [x])
  | .pushFront x => some (x :: s)
  | .popFront => if s = [] then none else some s.tail
  | .popBack => if s = [] then none else some s.dropLast
  | .clear => some []
  | .insertAt idx x => if idx ≤ s.length then some (s.take idx ++ x :: s.drop idx) else none
  | .eraseAt idx => if idx < s.length then some (s.eraseIdx idx) else none

/-- iterator to position `idx` (`idx = size()` is `end()`: the head node, or the null iterator without head) -/
def posAt (h : PHeap α) (l : PL) (idx : Nat) : Option Nat :=
  let ns := nodesOf h l
  if idx = ns.length then some (endPos l) else ns[idx]?

/-- the member functions as the harness calls them -/
def pstep (h : PHeap α) (l : PL) : POp α → Option (PHeap α × PL)
  | .pushBack x => (constructNode h l x (endPos l)).map fun r => (r.1, r.2.1)
  | .pushFront x => (constructNode h l x (beginPos h l)).map fun r => (r.1, r.2.1)
  | .popFront => erase h l (beginPos h l)
  | .popBack => if l.head = 0 then none else erase h l (h.prevOf l.head)
  | .clear => clear h l
  | .insertAt idx x => (posAt h l idx).bind fun p => (constructNode h l x p).map fun r => (r.1, r.2.1)
  | .eraseAt idx => if idx < (nodesOf h l).length then (posAt h l idx).bind fun p => erase h l p else none

/-- run a call sequence through the pointer code / through the contract -/
def prun : PHeap α → PL → List (POp α) → Option (PHeap α × PL)
  | h, l, [] => some (h, l)
  | h, l, op :: ops => (pstep h l op).bind fun r => prun r.1 r.2 ops
def pspecRun : List α → List (POp α) → Option (List α)
  | s, [] => some s
  | s, op :: ops => (pspecStep s op).bind fun s' => pspecRun s' ops


/-- the `std::list` contract of `splice(pos, *this, it)` -/
def specMove (s : List α) (pidx sidx : Nat) : Option (List α) :=
  match s[sidx]? with
  | none => none
  | some x =>
    if pidx ≤ s.length then
      let t := s.take sidx ++ s.drop (sidx + 1)
      let k := if pidx ≤ sidx then pidx else pidx - 1
      some (t.take k ++ x :: t.drop k)
    else none

/-- what the harness calls: both iterators are found by walking from `begin()` -/
def pmove (h : PHeap α) (l : PL) (pidx sidx : Nat) : Option (PHeap α × PL) :=
  match posAt h l pidx, (nodesOf h l)[sidx]? with
  | some p, some t => splice h l p t
  | _, _ => none


end PL
end XalanModel.Containers
