/-
`XalanList::splice(pos, *this, it)` inside a call history: the `Rep` of `PListHistoryProofs.lean` is preserved,
and the values move as `std::list::splice` specifies (element `sidx` is taken out and re-inserted in front of
what stood at `pidx`; `pidx = size()` is `end()`).  `pmove` is the composition the driver executes for a
`splice` request with source = destination.  Since `Rep` is both hypothesis and conclusion, this step composes
with `prun_refines` in any order.  Core Lean only.
-/
import XalanModel.Containers.PListHistoryProofs
import XalanModel.Containers.PListSpliceProofs

namespace XalanModel.Containers
namespace PL
variable {α : Type}

theorem take_drop_self {β : Type} (s : List β) (i : Nat) (hi : i < s.length) :
    (s.take i ++ s.drop (i + 1)).take i ++ s[i] :: (s.take i ++ s.drop (i + 1)).drop i = s := by
  have hl : (s.take i).length = i := by simp; omega
  rw [List.take_left' hl, List.drop_left' hl]
  rw [← List.drop_eq_getElem_cons hi]
  exact List.take_append_drop i s

theorem pmove_refines (h : PHeap α) (l : PL) (s s' : List α) (pidx sidx : Nat) (r : Rep h l s)
    (hs : specMove s pidx sidx = some s') : ∃ h', pmove h l pidx sidx = some (h', l) ∧ Rep h' l s' := by
  obtain ⟨hlen, r⟩ := r
  unfold specMove at hs
  cases hx : s[sidx]? with
  | none => simp [hx] at hs
  | some x =>
    simp only [hx] at hs
    split at hs
    case isFalse => cases hs
    case isTrue hple =>
    simp only [Option.some.injEq] at hs
    have hslt : sidx < s.length := by
      rcases Nat.lt_or_ge sidx s.length with h1 | h1
      · exact h1
      · simp [List.getElem?_eq_none h1] at hx
    have hxe : s[sidx] = x := by
      have := List.getElem?_eq_getElem hslt
      rw [hx] at this; exact (Option.some.inj this).symm
    rcases r with ⟨_, _, rfl⟩ | ⟨ns, fs, w, hc⟩
    · simp at hslt
    · have hlens : ns.length = s.length := by simpa using congrArg List.length hc
      have hi : sidx < ns.length := by omega
      have hpi : pidx ≤ ns.length := by omega
      have hdrop : ns.drop sidx = ns[sidx] :: ns.drop (sidx + 1) := List.drop_eq_getElem_cons hi
      have hsplitN : ns.take sidx ++ ns[sidx] :: ns.drop (sidx + 1) = ns := by
        rw [← hdrop]; exact List.take_append_drop sidx ns
      have w2 : PWF h l (ns.take sidx ++ ns[sidx] :: ns.drop (sidx + 1)) fs := by rw [hsplitN]; exact w
      have hvm : h.valOf ns[sidx] = some x := by
        have h1 : (ns.map h.valOf)[sidx]? = (s.map some)[sidx]? := by rw [hc]
        simp only [List.getElem?_map, List.getElem?_eq_getElem hi, hx, Option.map_some] at h1
        exact Option.some.inj h1
      have hpos := posAt_pwf w pidx hpi
      have hnodes : (nodesOf h l)[sidx]? = some ns[sidx] := by
        rw [nodesOf_of_pwf w]; exact List.getElem?_eq_getElem hi
      by_cases hps : pidx = sidx
      · -- `pos == toInsert`: the call returns at once
        subst hps
        have hp : firstOr (ns.drop pidx) l.head = ns[pidx] := by
          simp [firstOr, List.getElem?_eq_getElem hi]
        refine ⟨h, ?_, hlen, Or.inr ⟨ns, fs, w, ?_⟩⟩
        · simp [pmove, hpos, hnodes, hp, splice]
        · rw [hc, ← hs]
          simp only [Nat.le_refl, if_true]
          rw [← hxe, take_drop_self s pidx hslt]
      · -- a real move
        let k := if pidx ≤ sidx then pidx else pidx - 1
        have hk : k = if pidx ≤ sidx then pidx else pidx - 1 := rfl
        let AB := ns.take sidx ++ ns.drop (sidx + 1)
        have hAB : AB = ns.take sidx ++ ns.drop (sidx + 1) := rfl
        have hsplit : ns.take sidx ++ ns.drop (sidx + 1) = AB.take k ++ AB.drop k :=
          (List.take_append_drop k AB).symm
        have hp : firstOr (ns.drop pidx) l.head = firstOr (AB.drop k) l.head := by
          have hl : (ns.take sidx).length = sidx := by simp; omega
          simp only [firstOr, List.head?_drop, hAB, List.getElem?_append, hl]
          by_cases h1 : pidx ≤ sidx
          · have h2 : pidx < sidx := by omega
            simp [hk, h1, h2, List.getElem?_take]
          · have h2 : ¬ (pidx - 1 < sidx) := by omega
            have h3 : sidx + 1 + (pidx - 1 - sidx) = pidx := by omega
            simp [hk, h1, h2, h3]
        obtain ⟨P1, hB'⟩ := hB_of l.head (AB.drop k)
        obtain ⟨h', hsp, w', hv, hl'⟩ :=
          splice_same_refines h l (ns.take sidx) (ns.drop (sidx + 1)) (AB.take k) (AB.drop k) fs ns[sidx]
            (firstOr (AB.drop k) l.head) P1 w2 hsplit hB'
        refine ⟨h', ?_, by omega, Or.inr ⟨_, fs, w', ?_⟩⟩
        · simp only [pmove, hpos, hnodes, hp]; exact hsp
        · obtain ⟨hcA, _⟩ := map_take_some hc sidx
          obtain ⟨_, hcB⟩ := map_take_some hc (sidx + 1)
          have hABm : AB.map h.valOf = (s.take sidx ++ s.drop (sidx + 1)).map some := by
            rw [hAB, List.map_append, List.map_append, hcA, hcB]
          obtain ⟨hcA', hcB'⟩ := map_take_some hABm k
          rw [hv, List.map_append, List.map_cons, hcA', hcB', hvm, ← hs]
          simp [hk]

end PL
end XalanModel.Containers
