/-
Model of `XalanDOMStringCache` (src/xalanc/PlatformSupport/XalanDOMStringCache.{hpp,cpp}) as written: strings
are identified by their creation number; `m_availableList` is a stack (back = last), `m_busyList` a vector;
`destroyed` is a ghost list of the strings handed back to the allocator.  `caps[id]` is the buffer capacity
the holder gave the string (the harness tags every string it holds that way: `release` erases the contents
but keeps the buffer, so the capacity tells which string `get` hands out again).

* `get()`: pop the available stack, or create a string
* `release(s)`: not busy → `false`; otherwise, if `available.size() > maximumSize` the string is destroyed,
  else it is erased and pushed on the available stack
* `reset()`: every busy string (from the back) is destroyed or made available, decided by the size of the
  available list *on entry*
* `clear()`: everything goes back to the allocator
Core Lean only.
-/
namespace XalanModel.Containers

structure SCache where
  maxSize : Nat := 100
  available : List Nat := []
  busy : List Nat := []
  destroyed : List Nat := []
  caps : List Nat := []          -- by creation number
deriving Repr, DecidableEq

namespace SCache

def created (c : SCache) : Nat := c.caps.length

/-- `get()`: the cache and the string handed out -/
def get (c : SCache) : SCache × Nat :=
  match c.available.getLast? with
  | none => ({ c with busy := c.busy ++ [c.caps.length], caps := c.caps ++ [0] }, c.caps.length)
  | some id => ({ c with available := c.available.dropLast, busy := c.busy ++ [id] }, id)

/-- `release(theString)` -/
def release (c : SCache) (id : Nat) : SCache × Bool :=
  if id ∈ c.busy then
    if c.available.length > c.maxSize then
      ({ c with busy := c.busy.erase id, destroyed := c.destroyed ++ [id] }, true)
    else
      ({ c with busy := c.busy.erase id, available := c.available ++ [id] }, true)
  else (c, false)

/-- the loop of `reset()`: `theSize` is read once before it -/
def resetLoop (theSize : Nat) : Nat → SCache → SCache
  | 0, c => c
  | fuel+1, c =>
    match c.busy.getLast? with
    | none => c
    | some id =>
      if theSize > c.maxSize then resetLoop theSize fuel { c with busy := c.busy.dropLast, destroyed := c.destroyed ++ [id] }
      else resetLoop theSize fuel { c with busy := c.busy.dropLast, available := c.available ++ [id] }

def reset (c : SCache) : SCache := resetLoop c.available.length c.busy.length c

/-- `clear()` -/
def clear (c : SCache) : SCache := { maxSize := c.maxSize }

/-- the holder reserves a buffer in a string it holds -/
def setCap (c : SCache) (id cap : Nat) : SCache := { c with caps := c.caps.set id cap }

end SCache
end XalanModel.Containers
