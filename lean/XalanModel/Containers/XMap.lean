/-
Model of `XalanMap<Key, Value>` (src/xalanc/Include/XalanMap.hpp), written the way the C++ is
written:

* `m_entries`      – `XalanList<Entry>`: the live entries in list order.  A list node is identified
                     by a number (`id`, standing for the node's address); the node's `erased` flag is
                     `false` exactly while the node is linked into `m_entries`.
* `m_freeEntries`  – the list of erased nodes (`erased == true`, value destroyed), recycled from the
                     *back* by `doCreateEntry`.
* `m_buckets`      – vector of vectors of list iterators = node ids.  A bucket pointer is *not* removed
                     when its entry is erased (it stays until `compactBuckets`, `rehash` or `clear`), and
                     the node it points to may meanwhile be recycled under another key.
* `m_size`, `m_eraseCount`, `m_eraseThreshold`, `m_minBuckets`, `m_loadFactor` (a fraction `lfNum/lfDen`).

Every operation returns `none` where the C++ would have undefined behaviour: a modulus of zero in
`doHash`, a bucket pointer that refers to no node of the map (dangling), `back()`/`begin()` of an
empty list.  `XMapProofs.lean` shows that under the invariant none of these is reachable.

`bcaps` carries the capacity of every bucket vector (plain `push_back` growth in `rehash`, the reserve of
`doCreateEntry`, the shrink of `compactBuckets`); it is observable through the derived class of the harness.
Core Lean only (this file is linked into the `xm_c20` driver).
-/
namespace XalanModel.Containers

structure MEntry (κ ν : Type) where
  id : Nat
  key : κ
  val : ν
deriving Repr, BEq, DecidableEq

structure XMap (κ ν : Type) where
  entries : List (MEntry κ ν) := []
  free : List Nat := []
  buckets : List (List Nat) := []
  bcaps : List Nat := []           -- capacity of each bucket vector (parallel to `buckets`)
  size : Nat := 0
  eraseCount : Nat := 0
  eraseThreshold : Nat := 50
  minBuckets : Nat := 29
  lfNum : Nat := 3
  lfDen : Nat := 4
  nextId : Nat := 0
deriving Repr

namespace XMap
variable {κ ν : Type} [DecidableEq κ]

/-- `XalanMap(theMemoryManager, loadFactor, minBuckets, eraseThreshold)` -/
def new (lfNum lfDen minBuckets eraseThreshold : Nat) : XMap κ ν :=
  { lfNum := lfNum, lfDen := lfDen, minBuckets := minBuckets, eraseThreshold := eraseThreshold }

/-- what iteration `begin() … end()` delivers -/
def toList (m : XMap κ ν) : List (κ × ν) := m.entries.map fun e => (e.key, e.val)

/-- `doHash(key, modulus)`: `m_hash(key) % modulus`, `assert(modulus != 0)` -/
def doHash (hash : κ → Nat) (k : κ) (modulus : Nat) : Option Nat :=
  if modulus = 0 then none else some (hash k % modulus)

/-- the list node a bucket pointer refers to: `some (some e)` live entry, `some none` a node on the
free list (`erased == true`), `none` no node of this map (dangling pointer). -/
def nodeAt (m : XMap κ ν) (id : Nat) : Option (Option (MEntry κ ν)) :=
  match m.entries.find? (fun e => e.id == id) with
  | some e => some (some e)
  | none => if id ∈ m.free then some none else none

/-- the `while (pos != bucket.end())` loop of `find` -/
def scanBucket (m : XMap κ ν) (k : κ) : List Nat → Option (Option (MEntry κ ν))
  | [] => some none
  | id :: rest =>
    match m.nodeAt id with
    | none => none
    | some none => scanBucket m k rest
    | some (some e) => if e.key = k then some (some e) else scanBucket m k rest

/-- `find(key)`; `some none` is `end()` -/
def find (hash : κ → Nat) (m : XMap κ ν) (k : κ) : Option (Option (MEntry κ ν)) :=
  if m.size = 0 then some none
  else
    match doHash hash k m.buckets.length with
    | none => none
    | some i =>
      match m.buckets[i]? with
      | none => none
      | some b => m.scanBucket k b

/-- `temp[index].push_back(entryPos)` -/
def pushBucket (bs : List (List Nat)) (i id : Nat) : List (List Nat) :=
  bs.modify i (· ++ [id])

/-- capacity of a `XalanVector` after `push_back` on `len` elements with capacity `cap` (`doPushBack`:
room / `init` / `grow` to `⌊1.6·len + 0.5⌋`) -/
def pushCap (len cap : Nat) : Nat :=
  if len < cap then cap else if len = 0 then 1 else max len ((16 * len + 5) / 10)

/-- capacity after the `reserve` that `doCreateEntry` performs before it links the entry (3252d20):
a full bucket is given room for one (empty) or twice its size -/
def reserveCap (len cap : Nat) : Nat :=
  if len = cap then (if len = 0 then 1 else max cap (len * 2)) else cap

/-- capacity of a bucket after `compactBuckets` (`calculateNewBucketCapacity`, copy with that capacity, swap) -/
def compactCap (len cap : Nat) : Nat :=
  let extra := cap - len
  if extra > len then (if len = 0 then 5 else max len extra) else cap

/-- `rehash()`: `size_type(1.6 * size())` buckets (1.6·n is never within rounding distance below an
integer, so the truncation is `⌊8n/5⌋`), every *live* entry re-inserted in list order. -/
def rehash (hash : κ → Nat) (m : XMap κ ν) : Option (XMap κ ν) :=
  let newSize := 8 * m.size / 5
  if newSize = 0 then none
  else
    let table := m.entries.foldl (fun t e => pushBucket t (hash e.key % newSize) e.id) (List.replicate newSize [])
    -- the new bucket vectors start without a buffer and grow by plain `push_back`
    let caps := m.entries.foldl (fun (tc : List (List Nat) × List Nat) e =>
        let i := hash e.key % newSize
        (pushBucket tc.1 i e.id, tc.2.modify i (pushCap ((tc.1.getD i []).length))))
      (List.replicate newSize [], List.replicate newSize 0)
    some { m with buckets := table, bcaps := caps.2 }

/-- `doCreateEntry(key, data)` -/
def createEntry (hash : κ → Nat) (m : XMap κ ν) (k : κ) (v : ν) : Option (XMap κ ν × MEntry κ ν) :=
  -- if there are no buckets, create initial minimum set of buckets
  let m1 := if m.buckets.isEmpty then { m with buckets := List.replicate m.minBuckets [], bcaps := List.replicate m.minBuckets 0 } else m
  -- if the load factor has been reached, rehash
  let m2? := if m1.lfNum * m1.size / m1.lfDen > m1.buckets.length then rehash hash m1 else some m1
  m2?.bind fun m2 =>
  (doHash hash k m2.buckets.length).bind fun index =>
  let m3 := if m2.free.isEmpty then { m2 with free := [m2.nextId], nextId := m2.nextId + 1 } else m2
  match m3.free.getLast? with
  | none => none
  | some id =>
    let e : MEntry κ ν := ⟨id, k, v⟩
    some ({ m3 with free := m3.free.dropLast, entries := m3.entries ++ [e],
                    buckets := pushBucket m3.buckets index id, size := m3.size + 1,
                    bcaps := m3.bcaps.modify index (reserveCap ((m3.buckets.getD index []).length)) }, e)

/-- `doRemoveEntry(pos)`: destroy the value, splice the node to the end of the free list, mark it
erased, `--m_size`.  The bucket pointer stays. -/
def removeEntry (m : XMap κ ν) (id : Nat) : XMap κ ν :=
  { m with entries := m.entries.filter (fun e => e.id != id), free := m.free ++ [id], size := m.size - 1 }

/-- `compactBuckets()`: drop every pointer whose node is erased -/
def compactBuckets (m : XMap κ ν) : XMap κ ν :=
  let nb := m.buckets.map fun b => b.filter fun id => !(m.free.contains id)
  { m with buckets := nb, bcaps := (nb.zip m.bcaps).map fun bc => compactCap bc.1.length bc.2 }

/-- `doErase(pos)` -/
def doErase (m : XMap κ ν) (id : Nat) : XMap κ ν :=
  let m1 := removeEntry m id
  let m2 := { m1 with eraseCount := m1.eraseCount + 1 }
  if m2.eraseCount = m2.eraseThreshold then { compactBuckets m2 with eraseCount := 0 } else m2

/-- `insert(key, data)` -/
def insert (hash : κ → Nat) (m : XMap κ ν) (k : κ) (v : ν) : Option (XMap κ ν) :=
  (find hash m k).bind fun r =>
  match r with
  | some _ => some m
  | none => (createEntry hash m k v).map (·.1)

/-- `map[key] = v` : `operator[]` (creating a default-constructed value when absent), then the
assignment through the returned reference. -/
def setAt (hash : κ → Nat) (dflt : ν) (m : XMap κ ν) (k : κ) (v : ν) : Option (XMap κ ν) :=
  (find hash m k).bind fun r =>
  let created := match r with
    | some e => some (m, e)
    | none => createEntry hash m k dflt
  created.map fun (m1, e) =>
    { m1 with entries := m1.entries.map fun x => if x.id = e.id then { x with val := v } else x }

/-- `erase(key)`: returns the new map and the count (0/1) -/
def erase (hash : κ → Nat) (m : XMap κ ν) (k : κ) : Option (XMap κ ν × Nat) :=
  (find hash m k).map fun r =>
  match r with
  | some e => (doErase m e.id, 1)
  | none => (m, 0)

/-- `doRemoveEntries()`: `while (size() > 0) doRemoveEntry(begin());` -/
def removeEntries : Nat → XMap κ ν → Option (XMap κ ν)
  | 0, m => some m
  | n+1, m =>
    match m.entries with
    | [] => none
    | e :: _ => removeEntries n (removeEntry m e.id)

/-- `clear()` -/
def clear (m : XMap κ ν) : Option (XMap κ ν) :=
  (removeEntries m.size m).map fun m1 =>
    { m1 with buckets := m1.buckets.map fun _ => [], eraseCount := 0 }

/-- insert a list of pairs in order (the loop of the copy constructor) -/
def insertAll (hash : κ → Nat) : List (κ × ν) → XMap κ ν → Option (XMap κ ν)
  | [], m => some m
  | (k, v) :: rest, m => (insert hash m k v).bind (insertAll hash rest)

/-- copy constructor `XalanMap(theRhs, theMemoryManager)` -/
def copyOf (hash : κ → Nat) (rhs : XMap κ ν) : Option (XMap κ ν) :=
  insertAll hash rhs.toList
    { lfNum := rhs.lfNum, lfDen := rhs.lfDen, minBuckets := rhs.minBuckets,
      buckets := List.replicate (rhs.lfNum * rhs.size / rhs.lfDen + 1) [],
      bcaps := List.replicate (rhs.lfNum * rhs.size / rhs.lfDen + 1) 0,
      eraseThreshold := rhs.eraseThreshold }

/-- `swap`: everything but `m_loadFactor` and the `const m_minBuckets` changes sides -/
def swapInto (self other : XMap κ ν) : XMap κ ν :=
  { other with lfNum := self.lfNum, lfDen := self.lfDen, minBuckets := self.minBuckets }

/-- `operator=(theRhs)`: copy-construct a temporary, swap -/
def assign (hash : κ → Nat) (m rhs : XMap κ ν) : Option (XMap κ ν) :=
  (copyOf hash rhs).map fun t => swapInto m t

/-- number of bucket pointers, and how many of them refer to erased nodes (observable through a
derived class in the harness; ties the stale-pointer behaviour to the model) -/
def pointerCount (m : XMap κ ν) : Nat := (m.buckets.map List.length).sum
def staleCount (m : XMap κ ν) : Nat := (m.buckets.map fun b => (b.filter fun id => m.free.contains id).length).sum

end XMap
end XalanModel.Containers
