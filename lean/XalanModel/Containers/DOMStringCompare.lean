import XalanModel.Containers.DOMString
/-
The `const XalanDOMChar*` overloads and the comparison family of `XalanDOMString`
(XalanDOM/XalanDOMString.{hpp,cpp}) and the ASCII case-insensitive helpers of
PlatformSupport/DOMStringHelper.{hpp,cpp}, as written.

A `const XalanDOMChar*` argument is a list of units; the NUL-terminated conventions
(`length(theString)`, `npos`) read it up to the first 0 (`zlen`).  The loops of `doCompare`, `equals`,
`doEqualsIgnoreCase` are structural recursions over the two unit lists.
Core Lean only.
-/
namespace XalanModel.Containers

/-- `length(const XalanDOMChar*)`: the units before the first 0 -/
def zstr (p : List Nat) : List Nat := p.takeWhile (· ≠ 0)

namespace DStr

/-- `append(const XalanDOMChar* theString)` = `append(theString, length(theString))` -/
def appendZ (s : DStr) (p : List Nat) : Option DStr := s.append (zstr p)

/-- `assign(const XalanDOMChar*)`: `erase(); append(theSource)` -/
def assignZ (s : DStr) (p : List Nat) : Option DStr := (s.erase 0 none).bind fun s1 => s1.appendZ p

/-- `assign(const XalanDOMChar*, theCount)` -/
def assignPtr (s : DStr) (p : List Nat) (count : Nat) : Option DStr :=
  if count > p.length then none else (s.erase 0 none).bind fun s1 => s1.append (p.take count)

/-- constructor `XalanDOMString(theString, theManager, theCount)` with an explicit count, after the repair
`proposed/C20-stringpool-leading-nul.diff`: the first `count` units, whatever they are -/
def ofPtr (p : List Nat) (count : Nat) : Option DStr :=
  if count > p.length then none else if count = 0 then some {} else ({} : DStr).append (p.take count)

/-- … **as written**: a buffer that starts with U+0000 gives the empty string -/
def ofPtrAsWritten (p : List Nat) (count : Nat) : Option DStr :=
  if p.head? = some 0 then some {} else ofPtr p count

/-- `insert(thePosition, const XalanDOMChar*)` = `insert(pos, theString, length(theString))` -/
def insertZ (s : DStr) (pos : Nat) (p : List Nat) : Option DStr := s.insert pos (zstr p)

end DStr

/-- `doCompare` of XalanDOMString.cpp: first difference decides by the difference of the units
(16-bit, promoted to int); a proper prefix is smaller (-1 / 1) -/
def doCompare : List Nat → List Nat → Int
  | [], [] => 0
  | [], _ :: _ => -1
  | _ :: _, [] => 1
  | a :: l, b :: r => if a ≠ b then (a : Int) - (b : Int) else doCompare l r

namespace DStr

/-- `compare(const XalanDOMChar* theString)` -/
def compareZ (s : DStr) (p : List Nat) : Int := doCompare s.chars (zstr p)

/-- `compare(const XalanDOMString&)` = `compare(theString.c_str())` -/
def compareStr (s t : DStr) : Int := doCompare s.chars (zstr (t.chars ++ [0]))

/-- `compare(thePosition1, theCount1, theString, theCount2)` after the repair
`proposed/C20-domstring-compare-npos.diff` (`npos` = up to the terminator) -/
def compareSub (s : DStr) (pos1 count1 : Nat) (p : List Nat) (count2 : Option Nat) : Int :=
  doCompare ((s.chars.drop pos1).take count1)
    (match count2 with | none => zstr p | some c => p.take c)

/-- … **as written**: `npos` is passed on as the length of the right-hand side (2^64-1 units), so the
right-hand side is never exhausted: whenever the left-hand range is a prefix of it the result is -1 -/
def compareSubAsWritten (s : DStr) (pos1 count1 : Nat) (p : List Nat) (count2 : Option Nat) : Int :=
  match count2 with
  | some c => doCompare ((s.chars.drop pos1).take count1) (p.take c)
  | none =>
    let l := (s.chars.drop pos1).take count1
    -- the units of `p` followed by its terminator are compared one by one with `l`
    let r := (zstr p ++ [0]).take l.length
    if l = r then -1 else doCompare l (zstr p ++ [0])

end DStr

/-- static `XalanDOMString::equals(lhs, lhsLength, rhs, rhsLength)` -/
def equalsUnits (l r : List Nat) : Bool :=
  if l.length ≠ r.length then false
  else
    let rec go : List Nat → List Nat → Bool
      | [], _ => true
      | _ :: _, [] => true
      | a :: l, b :: r => if a = b then go l r else false
    go l r

/-- `toUpperASCII` -/
def toUpperASCII (c : Nat) : Nat := if 97 ≤ c ∧ c ≤ 122 then c - 32 else c

/-- `doEqualsIgnoreCase(lhs, rhs, length, toUpperASCII)` -/
def equalsIgnoreCaseLoop : List Nat → List Nat → Bool
  | a :: l, b :: r =>
    if a ≠ b ∧ toUpperASCII a ≠ b ∧ a ≠ toUpperASCII b then false else equalsIgnoreCaseLoop l r
  | _, _ => true

/-- `equalsIgnoreCaseASCII(const XalanDOMString&, const XalanDOMString&)`: lengths first -/
def equalsIgnoreCaseASCII (l r : List Nat) : Bool :=
  if l.length ≠ r.length then false else equalsIgnoreCaseLoop l r

/-- the loop of DOMStringHelper's `doCompare(…, toUpperASCII)` for equal lengths: the difference of the last
pair of transformed units examined (0 when none differs) -/
def upperDiffLoop : List Nat → List Nat → Int
  | a :: l, b :: r =>
    if toUpperASCII a ≠ toUpperASCII b then (toUpperASCII a : Int) - (toUpperASCII b : Int) else upperDiffLoop l r
  | _, _ => 0

/-- `compareIgnoreCaseASCII(lhs, lhsLength, rhs, rhsLength)`: shorter is smaller, equal lengths are decided
by the first differing upper-cased unit ("we don't really have to order") -/
def compareIgnoreCaseASCII (l r : List Nat) : Int :=
  if l.length < r.length then -1 else if r.length < l.length then 1 else upperDiffLoop l r

end XalanModel.Containers
