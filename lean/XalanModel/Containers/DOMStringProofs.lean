import XalanModel.Containers.DOMString
import XalanModel.Containers.VectorProofs
/-!
Helper lemmas for the refinement of `XalanDOMString` to the list of its characters (property C20).
`Rep s cs`: the buffer is a well-formed vector, `m_size = |cs|`, and the buffer is either empty (only
possible for `cs = []`) or `cs ++ [0]`.  Both representations of the empty string — no buffer, and a
buffer holding only the terminator — satisfy `Rep s []`.
-/
namespace XalanModel.Containers.DStr
open XalanModel.Containers

def Rep (s : DStr) (cs : List Nat) : Prop :=
  s.data.Inv ∧ s.size = cs.length ∧ ((s.data.items = [] ∧ cs = []) ∨ s.data.items = cs ++ [0])

theorem rep_chars {s : DStr} {cs : List Nat} (h : Rep s cs) : s.chars = cs := by
  obtain ⟨_, hs, h3⟩ := h
  unfold chars
  rcases h3 with ⟨h1, h2⟩ | h1
  · simp [h1, h2]
  · rw [h1, hs, List.take_left]

theorem rep_inv {s : DStr} {cs : List Nat} (h : Rep s cs) : s.Inv := by
  obtain ⟨hv, hs, h3⟩ := h
  refine ⟨hv, ?_⟩
  rcases h3 with ⟨h1, h2⟩ | h1
  · left; exact ⟨h1, by rw [hs, h2]; rfl⟩
  · right; rw [h1, hs]; simp

theorem inv_rep {s : DStr} (h : s.Inv) : Rep s s.chars := by
  obtain ⟨hv, h2⟩ := h
  rcases h2 with ⟨h1, h0⟩ | ⟨h1, hl⟩
  · exact ⟨hv, by simp [chars, h1, h0], Or.inl ⟨h1, by simp [chars, h1]⟩⟩
  · obtain ⟨ys, hys⟩ := List.getLast?_eq_some_iff.mp hl
    have hlen : s.size = ys.length := by rw [hys] at h1; simp at h1; omega
    have hc : s.chars = ys := by unfold chars; rw [hys, hlen, List.take_left]
    exact ⟨hv, by rw [hc, hlen], Or.inr (by rw [hc]; exact hys)⟩

/-- the buffer length in terms of the characters -/
theorem rep_len {s : DStr} {cs : List Nat} (h : Rep s cs) (hne : s.data.items.length ≠ 0) :
    s.data.items = cs ++ [0] := by
  rcases h.2.2 with ⟨h1, _⟩ | h1
  · rw [h1] at hne; exact absurd rfl hne
  · exact h1

theorem rep_empty {s : DStr} {cs : List Nat} (h : Rep s cs) (he : s.data.items.length = 0) : cs = [] := by
  rcases h.2.2 with ⟨_, h2⟩ | h1
  · exact h2
  · rw [h1] at he; simp at he

theorem setBack0_spec (v : Vec Nat) (ys : List Nat) (y : Nat) (hi : v.items = ys ++ [y]) (hv : v.Inv) :
    ∃ v', setBack0 v = some v' ∧ v'.items = ys ++ [0] ∧ v'.Inv := by
  unfold setBack0
  have hl : v.items.length = ys.length + 1 := by rw [hi]; simp
  have : ¬ v.items.length = 0 := by omega
  simp only [this, if_false]
  rw [Vec.overwrite_spec _ _ _ (by simp; omega)]
  refine ⟨_, rfl, ?_, ?_⟩
  · simp only [hl, Nat.add_sub_cancel, List.length_cons, List.length_nil]
    rw [hi, List.take_left, List.drop_of_length_le (by simp)]; simp
  · unfold Vec.Inv at *
    simp only [hl, Nat.add_sub_cancel, List.length_cons, List.length_nil]
    rw [hi, List.take_left, List.drop_of_length_le (by simp)]
    rw [hi] at hv; simpa using hv

theorem append_rep {s : DStr} {cs : List Nat} (h : Rep s cs) (xs : List Nat) :
    ∃ s', s.append xs = some s' ∧ Rep s' (cs ++ xs) := by
  unfold append
  by_cases hx : xs.length = 0
  · have : xs = [] := List.eq_nil_of_length_eq_zero hx
    subst this
    exact ⟨s, by simp, by simpa using h⟩
  simp only [hx, if_false]
  by_cases he : s.data.items.length = 0
  · simp only [he, if_true]
    have hcs := rep_empty h he
    subst hcs
    obtain ⟨ri, rinv, _⟩ := Vec.reserve_refines s.data (xs.length + 1) h.1
    have hi0 : (Vec.reserve s.data (xs.length + 1)).items = [] := by
      rw [ri]; exact List.eq_nil_of_length_eq_zero he
    obtain ⟨v1, e1, i1, inv1⟩ := Vec.insertRange_refines _ 0 xs rinv (by omega)
    rw [hi0] at i1
    obtain ⟨v2, e2, i2, inv2⟩ := Vec.pushBack_refines v1 0 inv1
    refine ⟨⟨v2, xs.length⟩, by simp [e1, e2], inv2, by simp, Or.inr ?_⟩
    simp only at i2 ⊢
    rw [i2, i1]; simp
  · simp only [he, if_false]
    have hi := rep_len h he
    have hl : s.data.items.length - 1 = cs.length := by rw [hi]; simp
    obtain ⟨v1, e1, i1, inv1⟩ := Vec.insertRange_refines s.data (s.data.items.length - 1) xs h.1 (by omega)
    refine ⟨⟨v1, s.size + xs.length⟩, by simp [e1], inv1, by simp [h.2.1], Or.inr ?_⟩
    simp only
    rw [i1, hl, hi, List.take_left, List.drop_left]

theorem appendN_rep {s : DStr} {cs : List Nat} (h : Rep s cs) (n c : Nat) :
    ∃ s', s.appendN n c = some s' ∧ Rep s' (cs ++ List.replicate n c) := by
  unfold appendN
  by_cases he : s.data.items.length = 0
  · simp only [he, if_true]
    have hcs := rep_empty h he
    subst hcs
    have hi0 : s.data.items = [] := List.eq_nil_of_length_eq_zero he
    obtain ⟨v1, e1, i1, inv1⟩ := Vec.insertN_refines s.data 0 (n + 1) c h.1 (by omega)
    rw [hi0] at i1
    have i1' : v1.items = List.replicate n c ++ [c] := by
      rw [i1]; simp [List.replicate_succ']
    obtain ⟨v2, e2, i2, inv2⟩ := setBack0_spec v1 _ c i1' inv1
    exact ⟨⟨v2, n⟩, by simp [e1, e2], inv2, by simp, Or.inr (by simpa using i2)⟩
  · simp only [he, if_false]
    have hi := rep_len h he
    have hl : s.data.items.length - 1 = cs.length := by rw [hi]; simp
    obtain ⟨v1, e1, i1, inv1⟩ := Vec.insertN_refines s.data (s.data.items.length - 1) n c h.1 (by omega)
    refine ⟨⟨v1, s.size + n⟩, by simp [e1], inv1, by simp [h.2.1], Or.inr ?_⟩
    simp only
    rw [i1, hl, hi, List.take_left, List.drop_left]

theorem clear_rep {s : DStr} {cs : List Nat} (h : Rep s cs) :
    ∃ s', s.clear = some s' ∧ Rep s' [] ∧ s'.data.items = [] := by
  unfold clear
  obtain ⟨v1, e1, i1, inv1⟩ := Vec.erase_refines s.data 0 s.data.items.length h.1 (by omega) (by omega)
  have : v1.items = [] := by rw [i1]; simp
  exact ⟨⟨v1, 0⟩, by simp [e1], ⟨inv1, rfl, Or.inl ⟨this, rfl⟩⟩, this⟩

/-- `erase(start, count)`, explicit count -/
theorem erase_some_rep {s : DStr} {cs : List Nat} (h : Rep s cs) (start c : Nat) (hc : start + c ≤ cs.length) :
    ∃ s', s.erase start (some c) = some s' ∧ Rep s' (cs.take start ++ cs.drop (start + c)) := by
  unfold erase
  have hsz := h.2.1
  simp only
  by_cases hall : start = 0 ∧ decide (c ≥ s.size) = true
  · simp only [hall, and_self, if_true]
    obtain ⟨s', e, r, _⟩ := clear_rep h
    refine ⟨s', by simpa [clear] using e, ?_⟩
    obtain ⟨h0, hcnt⟩ := hall
    subst h0
    have : c ≥ cs.length := by rw [← hsz]; simpa using hcnt
    simpa [List.drop_of_length_le this] using r
  · simp only [hall, if_false]
    by_cases he : s.data.items.length = 0
    · have hcs := rep_empty h he
      subst hcs
      exfalso; apply hall
      simp at hc
      exact ⟨hc.1, by simp [hsz]⟩
    · have hi := rep_len h he
      obtain ⟨v1, e1, i1, inv1⟩ := Vec.erase_refines s.data start (start + c) h.1 (by omega)
        (by rw [hi]; simp; omega)
      have hi1 : v1.items = (cs.take start ++ cs.drop (start + c)) ++ [0] := by
        rw [i1, hi, List.take_append_of_le_length (by omega), List.drop_append_of_le_length hc]
        simp only [List.append_assoc]
      have hlen : v1.items.length = (cs.take start ++ cs.drop (start + c)).length + 1 := by rw [hi1]; simp; omega
      simp only [e1, Option.map_some]
      by_cases h2 : v1.items.length < 2
      · simp only [h2, if_true]
        refine ⟨_, rfl, inv1, ?_, Or.inr hi1⟩
        show 0 = _; omega
      · simp only [h2, if_false]
        refine ⟨_, rfl, inv1, ?_, Or.inr hi1⟩
        show v1.items.length - 1 = _; omega

/-- `erase(start, npos)` -/
theorem erase_npos_rep {s : DStr} {cs : List Nat} (h : Rep s cs) (start : Nat) (hs : start ≤ cs.length) :
    ∃ s', s.erase start none = some s' ∧ Rep s' (cs.take start) := by
  unfold erase
  have hsz := h.2.1
  simp only
  by_cases h0 : start = 0
  · simp only [h0, and_self, if_true]
    obtain ⟨s', e, r, _⟩ := clear_rep h
    exact ⟨s', by simpa [clear] using e, by simpa using r⟩
  · simp only [h0, false_and, if_false]
    have he : s.data.items.length ≠ 0 := by
      intro he; have := rep_empty h he; subst this; simp at hs; exact h0 hs
    have hi := rep_len h he
    obtain ⟨v1, e1, i1, inv1⟩ := Vec.erase_refines s.data start (start + (s.size - start)) h.1 (by omega)
      (by rw [hi]; simp; omega)
    have hi1 : v1.items = cs.take start ++ [0] := by
      rw [i1, hi, List.take_append_of_le_length hs]
      have : start + (s.size - start) = cs.length := by omega
      rw [this, List.drop_left]
    have hlen : v1.items.length = start + 1 := by rw [hi1]; simp; omega
    simp only [e1, Option.map_some]
    have h2 : ¬ v1.items.length < 2 := by omega
    simp only [h2, if_false]
    refine ⟨_, rfl, inv1, ?_, Or.inr hi1⟩
    show v1.items.length - 1 = _; simp; omega

theorem eraseAt_rep {s : DStr} {cs : List Nat} (h : Rep s cs) (pos : Nat) (hp : pos < cs.length) :
    ∃ s', s.eraseAt pos = some s' ∧ Rep s' (cs.eraseIdx pos) := by
  unfold eraseAt
  have hsz := h.2.1
  have h0 : ¬ s.size = 0 := by omega
  simp only [h0, if_false]
  have he : s.data.items.length ≠ 0 := by
    intro he; have := rep_empty h he; subst this; simp at hp
  have hi := rep_len h he
  obtain ⟨v1, e1, i1, inv1⟩ := Vec.erase_refines s.data pos (pos + 1) h.1 (by omega) (by rw [hi]; simp; omega)
  refine ⟨⟨v1, s.size - 1⟩, by simp [e1], inv1, ?_, Or.inr ?_⟩
  · simp only; rw [List.length_eraseIdx_of_lt hp]; omega
  · simp only
    rw [i1, hi, List.take_append_of_le_length (by omega), List.drop_append_of_le_length (by omega),
      List.eraseIdx_eq_take_drop_succ]; simp

theorem insert_rep {s : DStr} {cs : List Nat} (h : Rep s cs) (pos : Nat) (xs : List Nat) (hp : pos ≤ cs.length) :
    ∃ s', s.insert pos xs = some s' ∧ Rep s' (cs.take pos ++ xs ++ cs.drop pos) := by
  unfold insert
  by_cases he : s.data.items.length = 0
  · simp only [he, if_true]
    have hcs := rep_empty h he
    subst hcs
    obtain ⟨s', e, r⟩ := append_rep h xs
    exact ⟨s', e, by simpa using r⟩
  · simp only [he, if_false]
    have hi := rep_len h he
    obtain ⟨v1, e1, i1, inv1⟩ := Vec.insertRange_refines s.data pos xs h.1 (by rw [hi]; simp; omega)
    refine ⟨⟨v1, s.size + xs.length⟩, by simp [e1], inv1, by simp [h.2.1]; omega, Or.inr ?_⟩
    simp only
    rw [i1, hi, List.take_append_of_le_length hp, List.drop_append_of_le_length hp]; simp

theorem assignN_rep {s : DStr} {cs : List Nat} (h : Rep s cs) (n c : Nat) :
    ∃ s', s.assignN n c = some s' ∧ Rep s' (List.replicate n c) := by
  unfold assignN
  obtain ⟨s1, e1, r1⟩ := erase_npos_rep h 0 (by omega)
  have r1' : Rep s1 [] := by simpa using r1
  obtain ⟨s2, e2, r2⟩ := appendN_rep r1' n c
  exact ⟨s2, by simp [e1, e2], by simpa using r2⟩

theorem insertN_rep {s : DStr} {cs : List Nat} (h : Rep s cs) (pos n c : Nat) (hp : pos ≤ cs.length) :
    ∃ s', s.insertN pos n c = some s' ∧ Rep s' (cs.take pos ++ List.replicate n c ++ cs.drop pos) := by
  unfold insertN
  by_cases he : s.data.items.length = 0
  · simp only [he, if_true]
    have hcs := rep_empty h he
    subst hcs
    obtain ⟨s', e, r⟩ := assignN_rep h n c
    exact ⟨s', e, by simpa using r⟩
  · simp only [he, if_false]
    have hi := rep_len h he
    obtain ⟨v1, e1, i1, inv1⟩ := Vec.insertN_refines s.data pos n c h.1 (by rw [hi]; simp; omega)
    refine ⟨⟨v1, s.size + n⟩, by simp [e1], inv1, by simp [h.2.1]; omega, Or.inr ?_⟩
    simp only
    rw [i1, hi, List.take_append_of_le_length hp, List.drop_append_of_le_length hp]; simp

/-- `resize` from *either* representation of the empty string, and from a non-empty one -/
theorem resize_rep {s : DStr} {cs : List Nat} (h : Rep s cs) (n c : Nat) :
    ∃ s', s.resize n c = some s' ∧ Rep s' (cs.take n ++ List.replicate (n - cs.length) c) := by
  unfold resize
  have hsz := h.2.1
  by_cases hn : n = s.size
  · simp only [hn, if_true]
    refine ⟨s, rfl, ?_⟩
    rw [hsz]; simpa using h
  simp only [hn, if_false]
  -- the vector after the old terminator cell has received `c`
  have hv0 : ∃ v0, (if s.data.items.length = 0 then some s.data
      else Vec.overwrite s.data (s.data.items.length - 1) [c]) = some v0 ∧ v0.Inv ∧
      (v0.items = [] ∧ cs = [] ∨ v0.items = cs ++ [c]) := by
    by_cases he : s.data.items.length = 0
    · simp only [he, if_true]
      exact ⟨s.data, rfl, h.1, Or.inl ⟨List.eq_nil_of_length_eq_zero he, rep_empty h he⟩⟩
    · simp only [he, if_false]
      have hi := rep_len h he
      have hl : s.data.items.length = cs.length + 1 := by rw [hi]; simp
      rw [Vec.overwrite_spec _ _ _ (by simp; omega)]
      refine ⟨_, rfl, ?_, Or.inr ?_⟩
      · have := h.1; unfold Vec.Inv at *
        simp only [hl, Nat.add_sub_cancel, List.length_cons, List.length_nil]
        rw [hi, List.take_left, List.drop_of_length_le (by simp)]
        rw [hi] at this; simpa using this
      · simp only [hl, Nat.add_sub_cancel, List.length_cons, List.length_nil]
        rw [hi, List.take_left, List.drop_of_length_le (by simp)]; simp
  obtain ⟨v0, e0, inv0, hi0⟩ := hv0
  simp only [e0, Option.bind_some]
  obtain ⟨v1, e1, i1, inv1⟩ := Vec.resize_refines v0 (n + 1) c inv0
  simp only [e1, Option.bind_some]
  have hi1 : ∃ y, v1.items = (cs.take n ++ List.replicate (n - cs.length) c) ++ [y] := by
    rcases hi0 with ⟨h1, h2⟩ | h1
    · subst h2; rw [i1, h1]; exact ⟨c, by simp [List.replicate_succ']⟩
    · rw [i1, h1]
      by_cases hle : n < cs.length
      · have e1 : n + 1 - (cs ++ [c]).length = 0 := by simp; omega
        have e2 : n - cs.length = 0 := by omega
        rw [e1, e2, List.take_append_of_le_length (by omega)]
        refine ⟨cs[n], ?_⟩
        simp only [List.replicate_zero, List.append_nil]
        exact List.take_succ_eq_append_getElem hle
      · have hge : cs.length ≤ n := by omega
        have e1 : n + 1 - (cs ++ [c]).length = n - cs.length := by simp
        refine ⟨c, ?_⟩
        rw [e1, List.take_of_length_le (by simp; omega), List.take_of_length_le hge]
        have : [c] ++ List.replicate (n - cs.length) c = List.replicate (n - cs.length) c ++ [c] := by
          show c :: List.replicate (n - cs.length) c = _
          rw [← List.replicate_succ, List.replicate_succ']
        simp only [List.append_assoc, this]
  obtain ⟨y, hi1⟩ := hi1
  obtain ⟨v2, e2, i2, inv2⟩ := setBack0_spec v1 _ y hi1 inv1
  refine ⟨⟨v2, n⟩, by simp [e2], inv2, ?_, Or.inr i2⟩
  simp only [List.length_append, List.length_take, List.length_replicate]; omega

theorem reserve_rep {s : DStr} {cs : List Nat} (h : Rep s cs) (n : Nat) : Rep (s.reserve n) cs := by
  obtain ⟨ri, rinv, _⟩ := Vec.reserve_refines s.data (n + 1) h.1
  refine ⟨rinv, h.2.1, ?_⟩
  show ((Vec.reserve s.data (n + 1)).items = [] ∧ cs = []) ∨ (Vec.reserve s.data (n + 1)).items = cs ++ [0]
  rw [ri]; exact h.2.2

theorem assign_rep {s src : DStr} {cs cs' : List Nat} (h : Rep s cs) (h' : Rep src cs') :
    ∃ s', s.assign src = some s' ∧ Rep s' cs' := by
  unfold assign
  obtain ⟨v1, e1, i1, inv1⟩ := Vec.copyAssign_refines s.data src.data h.1
  refine ⟨⟨v1, src.size⟩, by simp [e1], inv1, h'.2.1, ?_⟩
  show (v1.items = [] ∧ cs' = []) ∨ v1.items = cs' ++ [0]
  rw [i1]; exact h'.2.2

theorem assignSub_rep {s src : DStr} {cs cs' : List Nat} (h : Rep s cs) (h' : Rep src cs') (pos count : Nat)
    (hp : pos < cs'.length) (hc : pos + count ≤ cs'.length) :
    ∃ s', s.assignSub src pos count = some s' ∧ Rep s' ((cs'.drop pos).take count) := by
  unfold assignSub
  have : pos < src.size ∧ pos + count ≤ src.size := by rw [h'.2.1]; exact ⟨hp, hc⟩
  simp only [this, not_true_eq_false, and_self, if_false]
  obtain ⟨s1, e1, r1⟩ := erase_npos_rep h 0 (by omega)
  have r1' : Rep s1 [] := by simpa using r1
  obtain ⟨s2, e2, r2⟩ := append_rep r1' ((cs'.drop pos).take count)
  exact ⟨s2, by simp [e1, rep_chars h', e2], by simpa using r2⟩

theorem pushBack_rep {s : DStr} {cs : List Nat} (h : Rep s cs) (c : Nat) :
    ∃ s', s.pushBack c = some s' ∧ Rep s' (cs ++ [c]) := by
  obtain ⟨s', e, r⟩ := appendN_rep h 1 c
  exact ⟨s', e, by simpa using r⟩

theorem takeWhile_terminated (l : List Nat) (h : ∀ x ∈ l, x ≠ 0) : (l ++ [0]).takeWhile (· ≠ 0) = l := by
  induction l with
  | nil => simp
  | cons x xs ih =>
    have hx : x ≠ 0 := h x (List.mem_cons_self ..)
    have := ih (fun y hy => h y (List.mem_cons_of_mem _ hy))
    simp only [List.cons_append, List.takeWhile_cons, hx, ne_eq, not_false_eq_true, decide_true, if_true, this]

/-- `append(src, pos, count)`; with `npos` the source must not contain an embedded 0 after `pos`
(the code measures the length with a NUL-terminated scan) -/
theorem appendSub_rep {s src : DStr} {cs cs' : List Nat} (h : Rep s cs) (h' : Rep src cs') (pos : Nat)
    (count : Option Nat) (hp : pos < cs'.length) (hc : ∀ c, count = some c → pos + c ≤ cs'.length)
    (hz : count = none → ∀ x ∈ cs'.drop pos, x ≠ 0) :
    ∃ s', s.appendSub src pos count = some s' ∧
      Rep s' (cs ++ (cs'.drop pos).take (count.getD (cs'.length - pos))) := by
  unfold appendSub
  have hne : src.data.items.length ≠ 0 := by
    intro he; have := rep_empty h' he; subst this; simp at hp
  have hi := rep_len h' hne
  cases count with
  | none =>
    have : pos < src.size := by rw [h'.2.1]; exact hp
    simp only [this, decide_true, and_self, not_true_eq_false, if_false]
    rw [hi, List.drop_append_of_le_length (by omega), takeWhile_terminated _ (hz rfl)]
    obtain ⟨s', e, r⟩ := append_rep h (cs'.drop pos)
    refine ⟨s', e, ?_⟩
    simpa [List.take_of_length_le] using r
  | some c =>
    have hc' := hc c rfl
    have : pos < src.size ∧ decide (pos + c ≤ src.size) = true := by rw [h'.2.1]; exact ⟨hp, by simpa using hc'⟩
    simp only [this, and_self, not_true_eq_false, if_false]
    rw [hi, List.drop_append_of_le_length (by omega), List.take_append_of_le_length (by simp; omega)]
    obtain ⟨s', e, r⟩ := append_rep h ((cs'.drop pos).take c)
    exact ⟨s', e, by simpa using r⟩

/-- `assign(*this, pos, count)` — the memmove branch -/
theorem assignSelfSub_rep {s : DStr} {cs : List Nat} (h : Rep s cs) (pos count : Nat)
    (hp : pos < cs.length) (hc : pos + count ≤ cs.length) :
    ∃ s', s.assignSelfSub pos count = some s' ∧ Rep s' ((cs.drop pos).take count) := by
  unfold assignSelfSub
  have hsz := h.2.1
  have : pos < s.size ∧ pos + count ≤ s.size := by rw [hsz]; exact ⟨hp, hc⟩
  simp only [this, not_true_eq_false, and_self, if_false]
  by_cases h0 : pos = 0
  · subst h0
    simp only [if_true]
    by_cases hcs : count = s.size
    · simp only [hcs, ne_eq, not_true_eq_false, if_false]
      refine ⟨s, rfl, ?_⟩
      rw [hsz]; simpa using h
    · simp only [ne_eq, hcs, not_false_eq_true, if_true]
      obtain ⟨s', e, r⟩ := resize_rep h count 0
      refine ⟨s', e, ?_⟩
      have : count - cs.length = 0 := by omega
      simpa [this] using r
  · simp only [h0, if_false]
    have hne : s.data.items.length ≠ 0 := by
      intro he; have := rep_empty h he; subst this; simp at hp
    have hi := rep_len h hne
    have hseg : (s.data.items.drop pos).take count = (cs.drop pos).take count := by
      rw [hi, List.drop_append_of_le_length (by omega), List.take_append_of_le_length (by simp; omega)]
    have hsl : ((cs.drop pos).take count).length = count := by simp; omega
    have hil : s.data.items.length = cs.length + 1 := by rw [hi]; simp
    rw [hseg, Vec.overwrite_spec _ _ _ (by rw [hsl, hil]; omega)]
    simp only [Option.bind_some, List.take_zero, List.nil_append, Nat.zero_add, hsl]
    have hr : Rep ⟨⟨(cs.drop pos).take count ++ s.data.items.drop count, s.data.alloc⟩, s.size⟩
        ((cs.drop pos).take count ++ cs.drop count) := by
      refine ⟨?_, ?_, Or.inr ?_⟩
      · have := h.1; unfold Vec.Inv at *
        simp only [List.length_append, hsl, List.length_drop]; omega
      · simp only [List.length_append, hsl, List.length_drop]; omega
      · show (cs.drop pos).take count ++ s.data.items.drop count = _
        rw [hi, List.drop_append_of_le_length (by omega)]; simp only [List.append_assoc]
    obtain ⟨s', e, r⟩ := resize_rep hr count 0
    refine ⟨s', e, ?_⟩
    have e1 : count - ((cs.drop pos).take count ++ cs.drop count).length = 0 := by
      simp only [List.length_append, hsl]; omega
    rw [e1, List.take_append_of_le_length (by omega), List.take_of_length_le (by omega)] at r
    simpa using r

theorem eraseRange_rep {s : DStr} {cs : List Nat} (h : Rep s cs) (a b : Nat) (hab : a ≤ b) (hb : b ≤ cs.length) :
    ∃ s', s.eraseRange a b = some s' ∧ Rep s' (cs.take a ++ cs.drop b) := by
  unfold eraseRange
  by_cases he : s.data.items.length = 0
  · have hcs := rep_empty h he
    subst hcs
    have hb0 : b = 0 := by simpa using hb
    have ha0 : a = 0 := by omega
    subst hb0; subst ha0
    obtain ⟨v1, e1, i1, inv1⟩ := Vec.erase_refines s.data 0 0 h.1 (by omega) (by omega)
    have hi : v1.items = [] := by rw [i1]; simp; exact List.eq_nil_of_length_eq_zero he
    refine ⟨⟨v1, if v1.items.length = 0 then 0 else v1.items.length - 1⟩, by simp only [e1, Option.map_some], inv1, ?_, Or.inl ⟨hi, by simp⟩⟩
    simp [hi]
  · have hi := rep_len h he
    obtain ⟨v1, e1, i1, inv1⟩ := Vec.erase_refines s.data a b h.1 hab (by rw [hi]; simp; omega)
    have hi1 : v1.items = (cs.take a ++ cs.drop b) ++ [0] := by
      rw [i1, hi, List.take_append_of_le_length (by omega), List.drop_append_of_le_length hb]
      simp only [List.append_assoc]
    have hl : v1.items.length = (cs.take a ++ cs.drop b).length + 1 := by rw [hi1, List.length_append]; rfl
    refine ⟨⟨v1, if v1.items.length = 0 then 0 else v1.items.length - 1⟩, by simp only [e1, Option.map_some], inv1, ?_, Or.inr hi1⟩
    have : ¬ v1.items.length = 0 := by omega
    simp only [this, if_false]; omega

theorem assignIt_rep {s : DStr} {cs : List Nat} (h : Rep s cs) (xs : List Nat) :
    ∃ s', s.assignIt xs = some s' ∧ Rep s' xs := by
  unfold assignIt
  obtain ⟨_, rinv, _⟩ := Vec.reserve_refines s.data (xs.length + 1) h.1
  obtain ⟨v1, e1, i1, inv1⟩ := Vec.assign_refines (Vec.reserve s.data (xs.length + 1)) xs rinv
  obtain ⟨v2, e2, i2, inv2⟩ := Vec.pushBack_refines v1 0 inv1
  refine ⟨⟨v2, v2.items.length - 1⟩, by simp [e1, e2], inv2, ?_, Or.inr (by rw [i2, i1])⟩
  simp only; rw [i2, i1]; simp

end XalanModel.Containers.DStr
