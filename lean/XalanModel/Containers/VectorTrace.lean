import XalanModel.Containers.Vector
/-
Event-level model of `XalanVector<T>`: the same code paths as `Vector.lean`, written over the same
storage primitives, but every primitive also logs what it does to the *cells* of the buffer:

* `construct b i` – placement copy-construction of cell `i` of buffer `b` (`Constructor::construct`)
* `assign b i`    – `operator=` into cell `i` (`std::copy`, `std::copy_backward`, `std::fill`)
* `destroy b i`   – destructor call on cell `i` (`pop_back`)
* `release b n`   – `~XalanVector` of the temporary that took over buffer `b`: destroys its `n` cells
                    and returns the block to the memory manager

Buffers are numbered in allocation order.  A re-allocating path (`grow`, `doReserve`, the `theTemp`
branches of `insert` and `operator=`) is `rebuild`: copy-construct the new contents into a fresh buffer,
then release the old one (the temporary's destructor runs after the `swap`).

`Ev.apply` is the discipline of manual placement: a cell may be constructed only when it is the first
raw cell of its buffer, assigned only when constructed, destroyed only when it is the last constructed
cell, and a buffer may be released only with exactly its constructed cells.  `VectorTraceProofs.lean`
shows that every operation's log passes this check (each cell constructed exactly once before any use,
destroyed exactly once) and that dropping the log gives back `Vector.lean`.

The driver prints, per request, the number of construct / assign / destroy events; the harness prints the
copy-constructor / assignment / destructor calls counted by its instrumented element class.
Core Lean only.
-/
namespace XalanModel.Containers

inductive Ev where
  | construct (buf idx : Nat)
  | assign (buf idx : Nat)
  | destroy (buf idx : Nat)
  | release (buf n : Nat)
deriving Repr, DecidableEq

/-- number of constructed cells per buffer (they always form a prefix) -/
abbrev Live := Nat → Nat

def Live.upd (l : Live) (b n : Nat) : Live := fun x => if x = b then n else l x

def Ev.apply (l : Live) : Ev → Option Live
  | .construct b i => if l b = i then some (l.upd b (i + 1)) else none
  | .assign b i => if i < l b then some l else none
  | .destroy b i => if l b = i + 1 then some (l.upd b i) else none
  | .release b n => if l b = n then some (l.upd b 0) else none

/-- check a log against the placement discipline, returning the constructed cells afterwards -/
def replay : List Ev → Live → Option Live
  | [], l => some l
  | e :: es, l => (e.apply l).bind (replay es)

/-- event counters as the instrumented element class of the harness sees them:
(copy constructions, assignments, destructor calls) -/
def evCounts (es : List Ev) : Nat × Nat × Nat :=
  es.foldl (fun (c : Nat × Nat × Nat) e =>
    match e with
    | .construct _ _ => (c.1 + 1, c.2.1, c.2.2)
    | .assign _ _ => (c.1, c.2.1 + 1, c.2.2)
    | .destroy _ _ => (c.1, c.2.1, c.2.2 + 1)
    | .release _ n => (c.1, c.2.1, c.2.2 + n)) (0, 0, 0)

structure TVec (α : Type) where
  v : Vec α
  buf : Nat := 0          -- the buffer `m_data` points to
  next : Nat := 1         -- next unused buffer number
  tr : List Ev := []      -- the log, oldest first
deriving Repr

namespace TVec
variable {α : Type}

def ofVec (v : Vec α) : TVec α := { v := v }

/-- `construct_back` -/
def rawPush (t : TVec α) (x : α) : Option (TVec α) :=
  (t.v.rawPush x).map fun v' => { t with v := v', tr := t.tr ++ [.construct t.buf t.v.items.length] }

/-- `pop_back` -/
def popBack (t : TVec α) : Option (TVec α) :=
  (t.v.popBack).map fun v' => { t with v := v', tr := t.tr ++ [.destroy t.buf (t.v.items.length - 1)] }

/-- assignments into the cells `[pos, pos + |seg|)` (`std::copy` from outside, `std::fill`) -/
def overwrite (t : TVec α) (pos : Nat) (seg : List α) : Option (TVec α) :=
  (t.v.overwrite pos seg).map fun v' =>
    { t with v := v', tr := t.tr ++ (List.range' pos seg.length).map (.assign t.buf ·) }

def assignCell (t : TVec α) (src dst : Nat) : Option (TVec α) :=
  (t.v.assignCell src dst).map fun v' => { t with v := v', tr := t.tr ++ [.assign t.buf dst] }

/-- a re-allocating path: the new contents are copy-constructed into a fresh buffer, the old buffer
is destroyed and released by the temporary's destructor -/
def rebuild (t : TVec α) (items : List α) (alloc : Nat) : TVec α :=
  { v := ⟨items, alloc⟩, buf := t.next, next := t.next + 1,
    tr := t.tr ++ (List.range' 0 items.length).map (.construct t.next ·) ++ [.release t.buf t.v.items.length] }

def doPushBack (t : TVec α) (x : α) : Option (TVec α × Bool) :=
  if t.v.items.length < t.v.alloc then (rawPush t x).map (·, false)
  else if t.v.items.length = 0 then some (rebuild t [x] 1, true)
  else some (rebuild t (t.v.items ++ [x]) (max t.v.items.length (Vec.growSize t.v.items.length)), true)

def pushBack (t : TVec α) (x : α) : Option (TVec α) := (doPushBack t x).map (·.1)

def popN : Nat → TVec α → Option (TVec α)
  | 0, t => some t
  | n+1, t => (popBack t).bind (popN n)

def copyFwd (t : TVec α) (s d : Nat) : Nat → Option (TVec α)
  | 0 => some t
  | n+1 => (assignCell t s d).bind fun t' => copyFwd t' (s + 1) (d + 1) n

def copyBwd (t : TVec α) (s d : Nat) : Nat → Option (TVec α)
  | 0 => some t
  | n+1 => (assignCell t (s + n) (d + n)).bind fun t' => copyBwd t' s d n

def pushAll (stable : Bool) : List α → TVec α → Option (TVec α)
  | [], t => some t
  | x :: xs, t =>
    match doPushBack t x with
    | none => none
    | some (t', moved) => if stable && moved then none else pushAll stable xs t'

/-- `reserve` / `ensureCapacity` / `doReserve` -/
def reserve (t : TVec α) (n : Nat) : TVec α :=
  if n > t.v.alloc then rebuild t t.v.items (Vec.copyWith t.v n).alloc else t

def rawPushAll : List α → TVec α → Option (TVec α)
  | [], t => some t
  | x :: xs, t => (rawPush t x).bind (rawPushAll xs)

def insertRange (t : TVec α) (pos : Nat) (ins : List α) : Option (TVec α) :=
  if pos > t.v.items.length then none
  else if ins.length = 0 then some t
  else
    let total := t.v.items.length + ins.length
    if pos = t.v.items.length then
      rawPushAll ins (reserve t total)
    else if total > t.v.alloc then
      some (rebuild t (t.v.items.take pos ++ ins ++ t.v.items.drop pos) total)
    else
      let rs := t.v.items.length - pos
      if rs ≤ ins.length then
        (pushAll true (ins.drop rs) t).bind fun t1 =>
        (pushAll true (t.v.items.drop pos) t1).bind fun t2 =>
        overwrite t2 pos (ins.take rs)
      else
        let n := ins.length
        (pushAll true (t.v.items.drop (t.v.items.length - n)) t).bind fun t1 =>
        (copyBwd t1 pos (pos + n) (t.v.items.length - n - pos)).bind fun t2 =>
        overwrite t2 pos ins

def insertN (t : TVec α) (pos n : Nat) (x : α) : Option (TVec α) :=
  if pos > t.v.items.length then none
  else
    let total := t.v.items.length + n
    if pos = t.v.items.length then
      rawPushAll (List.replicate n x) (reserve t total)
    else if total > t.v.alloc then
      some (rebuild t (t.v.items.take pos ++ List.replicate n x ++ t.v.items.drop pos) total)
    else
      let rs := t.v.items.length - pos
      if rs ≤ n then
        (pushAll true (List.replicate (n - rs) x) t).bind fun t1 =>
        (pushAll true (t.v.items.drop pos) t1).bind fun t2 =>
        overwrite t2 pos (List.replicate rs x)
      else
        (pushAll true (t.v.items.drop (t.v.items.length - n)) t).bind fun t1 =>
        (copyBwd t1 pos (pos + n) (t.v.items.length - n - pos)).bind fun t2 =>
        overwrite t2 pos (List.replicate n x)

def erase (t : TVec α) (first last : Nat) : Option (TVec α) :=
  if first > last ∨ last > t.v.items.length then none
  else if first = last then some t
  else (copyFwd t last first (t.v.items.length - last)).bind (popN (last - first))

def resize (t : TVec α) (n : Nat) (x : α) : Option (TVec α) :=
  if t.v.items.length > n then popN (t.v.items.length - n) t
  else if t.v.items.length < n then rawPushAll (List.replicate (n - t.v.items.length) x) (reserve t n)
  else some t

def clear (t : TVec α) : Option (TVec α) :=
  if t.v.items.length > 0 then popN t.v.items.length t else some t

def assign (t : TVec α) (src : List α) : Option (TVec α) :=
  (clear t).bind fun c => insertRange c 0 src

def copyAssign (t : TVec α) (rhs : Vec α) : Option (TVec α) :=
  if t.v.alloc < rhs.items.length then some (rebuild t rhs.items (Vec.copyWith rhs 0).alloc)
  else if t.v.items.length > rhs.items.length then
    (popN (t.v.items.length - rhs.items.length) t).bind fun t1 => overwrite t1 0 rhs.items
  else if t.v.items.length < rhs.items.length then
    (insertRange t t.v.items.length (rhs.items.drop t.v.items.length)).bind fun t1 =>
      overwrite t1 0 (rhs.items.take t.v.items.length)
  else overwrite t 0 rhs.items

/-- the one-element temporary vector `theCopy` of the alias repair: built before, destroyed after -/
def withValueCopy (t : TVec α) (body : TVec α → Option (TVec α)) : Option (TVec α) :=
  let tmp := t.next
  (body { t with next := t.next + 1, tr := t.tr ++ [.construct tmp 0] }).map fun t' =>
    { t' with tr := t'.tr ++ [.release tmp 1] }

/-- `insert(pos, n, (*this)[i])` -/
def insertNSelf (t : TVec α) (pos n i : Nat) : Option (TVec α) :=
  match t.v.items[i]? with
  | none => none
  | some x => withValueCopy t fun t1 => insertN t1 pos n x

/-- `resize(n, (*this)[i])`: the copy is made only on the growing branch -/
def resizeSelf (t : TVec α) (n i : Nat) : Option (TVec α) :=
  match t.v.items[i]? with
  | none => none
  | some x => if t.v.items.length < n then withValueCopy t fun t1 => resize t1 n x else resize t n x

def pushBackSelf (t : TVec α) (i : Nat) : Option (TVec α) :=
  match t.v.items[i]? with
  | none => none
  | some x => pushBack t x

/-! ### returned iterators
An iterator of `XalanVector` is a pointer into the buffer: `some i` is index `i` of the *current* buffer,
`none` an iterator into a buffer that has been released meanwhile. -/

/-- `insert(thePosition, theData)`: with spare capacity the caller's position is returned as it is,
otherwise `begin() + theDistance` is recomputed after the insertion -/
def insertOneRet (t : TVec α) (pos : Nat) (x : α) : Option (TVec α × Option Nat) :=
  if t.v.alloc > t.v.items.length then
    (insertN t pos 1 x).map fun t' => (t', if t'.buf = t.buf then some pos else none)
  else
    (insertN t pos 1 x).map fun t' => (t', some pos)

/-- the seeded variant: the spare-capacity test as `m_allocation >= m_size` -/
def insertOneRetGe (t : TVec α) (pos : Nat) (x : α) : Option (TVec α × Option Nat) :=
  if t.v.alloc ≥ t.v.items.length then
    (insertN t pos 1 x).map fun t' => (t', if t'.buf = t.buf then some pos else none)
  else
    (insertN t pos 1 x).map fun t' => (t', some pos)

/-- `erase(theFirst, theLast)` returns `theFirst` (`erase(position)` = `erase(position, position + 1)`) -/
def eraseRet (t : TVec α) (first last : Nat) : Option (TVec α × Option Nat) :=
  (erase t first last).map fun t' => (t', if t'.buf = t.buf then some first else none)

end TVec
end XalanModel.Containers
