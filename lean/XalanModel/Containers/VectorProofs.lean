import XalanModel.Containers.Vector
/-!
Helper lemmas for the refinement of `XalanVector` to `List` (property C20).
Property theorems proper are in `XalanModel/Props/C20.lean`.
-/
namespace XalanModel.Containers.Vec
variable {α : Type}

theorem growSize_gt (n : Nat) (h : 0 < n) : n < growSize n := by
  unfold growSize; omega

theorem rawPushAll_spec (xs : List α) (v : Vec α) (h : v.items.length + xs.length ≤ v.alloc) :
    rawPushAll xs v = some ⟨v.items ++ xs, v.alloc⟩ := by
  induction xs generalizing v with
  | nil => simp [rawPushAll]
  | cons x xs ih =>
    simp only [List.length_cons] at h
    have h1 : v.items.length < v.alloc := by omega
    simp only [rawPushAll, rawPush, h1, if_true, Option.bind_some]
    rw [ih]
    · simp
    · simp; omega

theorem pushAll_spec (st : Bool) (xs : List α) (v : Vec α) (h : v.items.length + xs.length ≤ v.alloc) :
    pushAll st xs v = some ⟨v.items ++ xs, v.alloc⟩ := by
  induction xs generalizing v with
  | nil => simp [pushAll]
  | cons x xs ih =>
    simp only [List.length_cons] at h
    have h1 : v.items.length < v.alloc := by omega
    simp only [pushAll, doPushBack, rawPush, h1, if_true, Option.map_some, Bool.and_false, Bool.false_eq_true, if_false]
    rw [ih]
    · simp
    · simp; omega

theorem overwrite_spec (v : Vec α) (pos : Nat) (seg : List α) (h : pos + seg.length ≤ v.items.length) :
    overwrite v pos seg = some ⟨v.items.take pos ++ seg ++ v.items.drop (pos + seg.length), v.alloc⟩ := by
  simp [overwrite, h]

theorem popN_spec (n : Nat) (v : Vec α) (h : n ≤ v.items.length) :
    popN n v = some ⟨v.items.take (v.items.length - n), v.alloc⟩ := by
  induction n generalizing v with
  | zero => simp [popN]
  | succ n ih =>
    have hne : v.items.length ≠ 0 := by omega
    simp only [popN, popBack, hne, if_false, Option.bind_some]
    rw [ih]
    · simp only [List.dropLast_eq_take, List.take_take, List.length_take]
      have e : min (min (v.items.length - 1) v.items.length - n) (v.items.length - 1)
          = v.items.length - (n + 1) := by omega
      rw [e]
    · simp only [List.length_dropLast]; omega

end XalanModel.Containers.Vec

namespace XalanModel.Containers.Vec
variable {α : Type}


/-! ### element-wise copies: the direction that is safe for each overlap -/

theorem assignCell_spec (v : Vec α) (src dst : Nat) (hs : src < v.items.length) (hd : dst < v.items.length) :
    assignCell v src dst = some ⟨v.items.take dst ++ v.items[src] :: v.items.drop (dst + 1), v.alloc⟩ := by
  unfold assignCell
  rw [List.getElem?_eq_getElem hs]
  simp only
  rw [overwrite_spec _ _ _ (by simp; omega)]
  simp

/-- `copy_backward` shifting to the right (`s ≤ d`) moves the *original* segment -/
theorem copyBwd_spec (n : Nat) (v : Vec α) (s d : Nat) (hsd : s ≤ d) (hb : d + n ≤ v.items.length) :
    copyBwd v s d n = some ⟨v.items.take d ++ (v.items.drop s).take n ++ v.items.drop (d + n), v.alloc⟩ := by
  induction n generalizing v with
  | zero => simp [copyBwd]
  | succ n ih =>
    obtain ⟨L, al⟩ := v
    simp only at hb ⊢
    have hm : d + n < L.length := by omega
    have hsn : s + n < L.length := by omega
    simp only [copyBwd]
    rw [assignCell_spec _ _ _ hsn hm]
    simp only [Option.bind_some]
    have hlen : (L.take (d + n)).length = d + n := by rw [List.length_take]; omega
    rw [ih _ (by simp only [List.length_append, List.length_cons, List.length_drop, hlen]; omega)]
    congr 2
    simp only
    have e1 : (L.take (d + n) ++ L[s + n] :: L.drop (d + n + 1)).take d = L.take d := by
      rw [List.take_append_of_le_length (by omega), List.take_take]; congr 1; omega
    have e2 : ((L.take (d + n) ++ L[s + n] :: L.drop (d + n + 1)).drop s).take n = (L.drop s).take n := by
      rw [List.drop_append_of_le_length (by omega), List.take_append_of_le_length (by simp; omega),
        List.drop_take, List.take_take]
      congr 1; omega
    have e3 : (L.take (d + n) ++ L[s + n] :: L.drop (d + n + 1)).drop (d + n) = L[s + n] :: L.drop (d + n + 1) :=
      List.drop_left' hlen
    have e4 : (L.drop s).take (n + 1) = (L.drop s).take n ++ [L[s + n]] := by
      rw [List.take_succ_eq_append_getElem (by simp; omega)]
      simp
    rw [e1, e2, e3, e4]
    simp [Nat.add_assoc]

/-- forward `copy` shifting to the left (`d ≤ s`) moves the *original* segment -/
theorem copyFwd_spec (n : Nat) (v : Vec α) (s d : Nat) (hds : d ≤ s) (hb : s + n ≤ v.items.length) :
    copyFwd v s d n = some ⟨v.items.take d ++ (v.items.drop s).take n ++ v.items.drop (d + n), v.alloc⟩ := by
  induction n generalizing v s d with
  | zero => simp [copyFwd]
  | succ n ih =>
    obtain ⟨L, al⟩ := v
    simp only at hb ⊢
    have hs : s < L.length := by omega
    have hd : d < L.length := by omega
    simp only [copyFwd]
    rw [assignCell_spec _ _ _ hs hd]
    simp only [Option.bind_some]
    have hlen : (L.take d ++ [L[s]]).length = d + 1 := by simp; omega
    have hL' : L.take d ++ L[s] :: L.drop (d + 1) = (L.take d ++ [L[s]]) ++ L.drop (d + 1) := by simp
    rw [ih _ (s + 1) (d + 1) (by omega)
      (by simp only [List.length_append, List.length_cons, List.length_drop, List.length_take]; omega)]
    congr 2
    simp only
    rw [hL']
    have e1 : ((L.take d ++ [L[s]]) ++ L.drop (d + 1)).take (d + 1) = L.take d ++ [L[s]] := List.take_left' hlen
    have e2 : ((L.take d ++ [L[s]]) ++ L.drop (d + 1)).drop (s + 1) = L.drop (s + 1) := by
      have hk : s + 1 = (L.take d ++ [L[s]]).length + (s - d) := by rw [hlen]; omega
      rw [hk, List.drop_length_add_append, List.drop_drop]; congr 1; omega
    have e3 : ((L.take d ++ [L[s]]) ++ L.drop (d + 1)).drop (d + 1 + n) = L.drop (d + (n + 1)) := by
      have hk : d + 1 + n = (L.take d ++ [L[s]]).length + n := by rw [hlen]
      rw [hk, List.drop_length_add_append, List.drop_drop]; congr 1; omega
    have e4 : (L.drop s).take (n + 1) = L[s] :: (L.drop (s + 1)).take n := by
      have : L.drop s = L[s] :: L.drop (s + 1) := (List.getElem_cons_drop hs).symm
      rw [this, List.take_succ_cons]
    rw [e1, e2, e3, e4]
    simp

theorem copyBwd_eq_overwrite (n : Nat) (v : Vec α) (s d : Nat) (hsd : s ≤ d) (hb : d + n ≤ v.items.length) :
    copyBwd v s d n = overwrite v d ((v.items.drop s).take n) := by
  have hl : ((v.items.drop s).take n).length = n := by simp; omega
  rw [copyBwd_spec n v s d hsd hb, overwrite_spec _ _ _ (by rw [hl]; exact hb), hl]

theorem copyFwd_eq_overwrite (n : Nat) (v : Vec α) (s d : Nat) (hds : d ≤ s) (hb : s + n ≤ v.items.length) :
    copyFwd v s d n = overwrite v d ((v.items.drop s).take n) := by
  have hl : ((v.items.drop s).take n).length = n := by simp; omega
  rw [copyFwd_spec n v s d hds hb, overwrite_spec _ _ _ (by rw [hl]; omega), hl]

/-- What one operation must establish: no memory error, the element sequence of the
`std::vector` contract, and the class invariant again. -/
def Refines (r : Option (Vec α)) (spec : List α) : Prop :=
  ∃ v', r = some v' ∧ v'.items = spec ∧ v'.Inv

theorem pushBack_refines (v : Vec α) (x : α) (h : v.Inv) : Refines (pushBack v x) (v.items ++ [x]) := by
  unfold Refines pushBack doPushBack rawPush copyWith Inv at *
  by_cases h1 : v.items.length < v.alloc
  · simp [h1]; omega
  · by_cases h2 : v.items.length = 0
    · have : v.items = [] := List.eq_nil_of_length_eq_zero h2
      have ha : v.alloc = 0 := by omega
      simp [this, ha]
    · have hg := growSize_gt v.items.length (by omega)
      have h3 : 0 < v.items.length := by omega
      simp [h1, h2, h3]
      have : v.items.length < max v.items.length (growSize v.items.length) := by omega
      simp [this]; omega

theorem ensureCapacity_items (v : Vec α) (n : Nat) : (ensureCapacity v n).items = v.items := by
  unfold ensureCapacity doReserve copyWith
  split
  · split
    · rfl
    · rename_i h; simp at h; simp [h]
  · rfl

theorem ensureCapacity_alloc (v : Vec α) (n : Nat) (h : v.Inv) (hn : v.items.length ≤ n) :
    n ≤ (ensureCapacity v n).alloc ∧ v.alloc ≤ (ensureCapacity v n).alloc := by
  unfold ensureCapacity doReserve copyWith Inv at *
  split
  · split <;> simp <;> omega
  · omega

theorem reserve_items (v : Vec α) (n : Nat) : (reserve v n).items = v.items := ensureCapacity_items v n
theorem reserve_alloc (v : Vec α) (n : Nat) (h : v.Inv) (hn : v.items.length ≤ n) :
    n ≤ (reserve v n).alloc ∧ v.alloc ≤ (reserve v n).alloc := ensureCapacity_alloc v n h hn

/-- in-place insert, inserted range reaches or passes the old end (`theRightSplitSize <= theInsertSize`).
`A` = elements before the position, `B` = elements from the position on, `I1 ++ I2` = inserted range
with `|I1| = |B|`. -/
theorem inplace_case1 (A B I1 I2 : List α) (al : Nat) (hl : I1.length = B.length)
    (hc : A.length + B.length + (I1.length + I2.length) ≤ al) :
    ((pushAll true I2 ⟨A ++ B, al⟩).bind fun v1 =>
      (pushAll true B v1).bind fun v2 => overwrite v2 A.length I1)
      = some ⟨A ++ (I1 ++ I2) ++ B, al⟩ := by
  rw [pushAll_spec] <;> simp only [Option.bind_some, List.length_append]
  rw [pushAll_spec] <;> simp only [Option.bind_some, List.length_append]
  rw [overwrite_spec] <;> simp only [List.length_append]
  · congr 2
    have e1 : List.take A.length (A ++ B ++ I2 ++ B) = A := by
      simp only [List.append_assoc]; exact List.take_left
    have e2 : List.drop (A.length + I1.length) (A ++ B ++ I2 ++ B) = I2 ++ B := by
      simp only [List.append_assoc]
      rw [List.drop_length_add_append, hl, List.drop_left]
    rw [e1, e2]; simp
  all_goals omega

/-- in-place insert, inserted range stays inside the old contents (`theRightSplitSize > theInsertSize`).
`B1 ++ B2` = elements from the position on, `|B2| = |ins|`. -/
theorem inplace_case2 (A B1 B2 ins : List α) (al : Nat) (hl : B2.length = ins.length)
    (hc : A.length + B1.length + B2.length + ins.length ≤ al) :
    ((pushAll true B2 ⟨A ++ B1 ++ B2, al⟩).bind fun v1 =>
      (overwrite v1 (A.length + ins.length) B1).bind fun v2 => overwrite v2 A.length ins)
      = some ⟨A ++ ins ++ (B1 ++ B2), al⟩ := by
  rw [pushAll_spec] <;> simp only [Option.bind_some, List.length_append]
  rw [overwrite_spec] <;> simp only [Option.bind_some, List.length_append]
  rw [overwrite_spec] <;> simp only [List.length_append, List.length_take, List.length_drop]
  · congr 2
    -- first overwrite: A ++ X ++ B1 ++ B2 with X the first |ins| cells after A
    have e1 : List.take (A.length + ins.length) (A ++ B1 ++ B2 ++ B2)
        = A ++ List.take ins.length (B1 ++ B2 ++ B2) := by
      simp only [List.append_assoc]; rw [List.take_length_add_append]
    have e2 : List.drop (A.length + ins.length + B1.length) (A ++ B1 ++ B2 ++ B2) = B2 := by
      have : A.length + ins.length + B1.length = (A ++ B1 ++ B2).length := by
        simp only [List.length_append]; omega
      rw [this, List.drop_left]
    rw [e1, e2]
    have hx : (List.take ins.length (B1 ++ B2 ++ B2)).length = ins.length := by
      simp only [List.length_take, List.length_append]; omega
    generalize List.take ins.length (B1 ++ B2 ++ B2) = X at hx ⊢
    have e3 : List.take A.length (A ++ X ++ B1 ++ B2) = A := by
      simp only [List.append_assoc]; exact List.take_left
    have e4 : List.drop (A.length + ins.length) (A ++ X ++ B1 ++ B2)
        = B1 ++ B2 := by
      simp only [List.append_assoc]
      rw [List.drop_length_add_append]
      exact List.drop_left' hx
    rw [e3, e4]
  all_goals (try omega)

/-- the same with the tail shifted by the element-wise `copy_backward` of the code -/
theorem inplace_case2' (A B1 B2 ins : List α) (al : Nat) (hl : B2.length = ins.length)
    (hc : A.length + B1.length + B2.length + ins.length ≤ al) :
    ((pushAll true B2 ⟨A ++ B1 ++ B2, al⟩).bind fun v1 =>
      (copyBwd v1 A.length (A.length + ins.length) B1.length).bind fun v2 => overwrite v2 A.length ins)
      = some ⟨A ++ ins ++ (B1 ++ B2), al⟩ := by
  rw [← inplace_case2 A B1 B2 ins al hl hc]
  rw [pushAll_spec _ _ _ (by simp only [List.length_append]; omega)]
  simp only [Option.bind_some]
  rw [copyBwd_eq_overwrite _ _ _ _ (by omega) (by simp only [List.length_append]; omega)]
  have : (List.drop A.length (A ++ B1 ++ B2 ++ B2)).take B1.length = B1 := by
    simp only [List.append_assoc]; rw [List.drop_left, List.take_left]
  rw [this]

/-- re-allocation path of `insert`: three appends into a temporary of exactly the total size. -/
theorem realloc_case (A ins B : List α) :
    ((rawPushAll A (withAlloc (A.length + B.length + ins.length))).bind fun t1 =>
      (rawPushAll ins t1).bind fun t2 => rawPushAll B t2)
      = some ⟨A ++ ins ++ B, A.length + B.length + ins.length⟩ := by
  rw [rawPushAll_spec] <;> simp only [withAlloc, Option.bind_some, List.length_nil, List.nil_append]
  rw [rawPushAll_spec] <;> simp only [Option.bind_some, List.length_append]
  rw [rawPushAll_spec] <;> simp only [List.length_append]
  all_goals omega

theorem insertRange_refines (v : Vec α) (pos : Nat) (ins : List α) (h : v.Inv) (hp : pos ≤ v.items.length) :
    Refines (insertRange v pos ins) (v.items.take pos ++ ins ++ v.items.drop pos) := by
  -- split the contents at the position
  obtain ⟨items, al⟩ := v
  simp only [Inv] at h hp ⊢
  have hsplit0 : items = items.take pos ++ items.drop pos := (List.take_append_drop pos items).symm
  generalize hA : items.take pos = A at *
  generalize hB : items.drop pos = B at *
  have hAl : A.length = pos := by rw [← hA, List.length_take]; omega
  subst hsplit0
  subst hAl
  simp only [List.length_append] at h
  unfold Refines insertRange
  simp only [List.length_append, List.take_left, List.drop_left]
  have hp' : ¬ A.length > A.length + B.length := by omega
  simp only [hp', if_false]
  by_cases h0 : ins.length = 0
  · have : ins = [] := List.eq_nil_of_length_eq_zero h0
    subst this
    simp only [List.length_nil, if_true]
    exact ⟨_, rfl, by simp, by simp [Inv]; omega⟩
  simp only [h0, if_false]
  by_cases hend : A.length = A.length + B.length
  · have hB0 : B = [] := List.eq_nil_of_length_eq_zero (by omega)
    subst hB0
    simp only [List.length_nil, Nat.add_zero, if_true, List.append_nil]
    have hinv : Inv (⟨A, al⟩ : Vec α) := by simp [Inv]; omega
    have ha := ensureCapacity_alloc ⟨A, al⟩ (A.length + ins.length) hinv (by simp)
    rw [rawPushAll_spec]
    · refine ⟨_, rfl, ?_, ?_⟩
      · simp [ensureCapacity_items]
      · simp only [Inv, ensureCapacity_items, List.length_append]; omega
    · rw [ensureCapacity_items]; simp only at ha ⊢; omega
  simp only [hend, if_false]
  by_cases hre : A.length + B.length + ins.length > al
  · simp only [hre, if_true]
    rw [realloc_case]
    exact ⟨_, rfl, rfl, by simp [Inv]; omega⟩
  simp only [hre, if_false]
  have hrs : A.length + B.length - A.length = B.length := by omega
  simp only [hrs]
  by_cases hs : B.length ≤ ins.length
  · simp only [hs, if_true]
    have hI : ins = ins.take B.length ++ ins.drop B.length := (List.take_append_drop _ _).symm
    have := inplace_case1 A B (ins.take B.length) (ins.drop B.length) al
      (by rw [List.length_take]; omega) (by simp only [List.length_take, List.length_drop]; omega)
    rw [← hI] at this
    rw [this]
    exact ⟨_, rfl, rfl, by simp [Inv]; omega⟩
  · simp only [hs, if_false]
    -- B = B1 ++ B2 with |B2| = |ins|
    have hB12 : B = B.take (B.length - ins.length) ++ B.drop (B.length - ins.length) :=
      (List.take_append_drop _ _).symm
    generalize hB1 : B.take (B.length - ins.length) = B1 at hB12
    generalize hB2 : B.drop (B.length - ins.length) = B2 at hB12
    have hl1 : B1.length = B.length - ins.length := by rw [← hB1, List.length_take]; omega
    have hl2 : B2.length = ins.length := by rw [← hB2, List.length_drop]; omega
    subst hB12
    simp only [List.length_append] at *
    have e1 : List.drop (A.length + (B1.length + B2.length) - ins.length) (A ++ (B1 ++ B2)) = B2 := by
      have : A.length + (B1.length + B2.length) - ins.length = (A ++ B1).length := by
        simp only [List.length_append]; omega
      rw [this, ← List.append_assoc, List.drop_left]
    have e2 : A.length + (B1.length + B2.length) - ins.length - A.length = B1.length := by omega
    rw [e1, e2]
    have := inplace_case2' A B1 B2 ins al hl2 (by omega)
    simp only [List.append_assoc] at this ⊢
    rw [this]
    exact ⟨_, rfl, rfl, by simp [Inv]; omega⟩

end XalanModel.Containers.Vec

namespace XalanModel.Containers.Vec
variable {α : Type}

theorem insertN_eq_insertRange (v : Vec α) (pos n : Nat) (x : α) (hn : 0 < n) :
    insertN v pos n x = insertRange v pos (List.replicate n x) := by
  unfold insertN insertRange
  have h0 : ¬ n = 0 := by omega
  simp only [List.length_replicate, h0, if_false]
  split
  · rfl
  split
  · rfl
  split
  · rfl
  split
  · rename_i hle
    simp only [List.take_replicate, List.drop_replicate, Nat.min_eq_left hle]
  · rfl

theorem insertN_refines (v : Vec α) (pos n : Nat) (x : α) (h : v.Inv) (hp : pos ≤ v.items.length) :
    Refines (insertN v pos n x) (v.items.take pos ++ List.replicate n x ++ v.items.drop pos) := by
  by_cases hn : 0 < n
  · rw [insertN_eq_insertRange v pos n x hn]; exact insertRange_refines v pos _ h hp
  · have : n = 0 := by omega
    subst this
    have := insertRange_refines v pos [] h hp
    simp only [insertRange, List.length_nil, if_true] at this
    have hp' : ¬ pos > v.items.length := by omega
    simp only [hp', if_false] at this
    simp only [List.replicate_zero]
    -- direct computation of the n = 0 paths
    unfold Refines insertN
    simp only [hp', if_false, Nat.add_zero, List.replicate_zero]
    unfold Inv at h
    by_cases hend : pos = v.items.length
    · simp only [hend, if_true, rawPushAll, ensureCapacity]
      have : ¬ v.items.length > v.alloc := by omega
      simp only [this, if_false]
      exact ⟨v, rfl, by simp, h⟩
    · simp only [hend, if_false]
      have h1 : ¬ v.items.length > v.alloc := by omega
      have h2 : ¬ v.items.length - pos ≤ 0 := by omega
      simp only [h1, h2, if_false, Nat.sub_zero, List.drop_length, pushAll, Option.bind_some, Nat.add_zero]
      rw [copyBwd_eq_overwrite _ _ _ _ (Nat.le_refl _) (by omega)]
      rw [overwrite_spec]
      · simp only [Option.bind_some]
        rw [overwrite_spec]
        · refine ⟨_, rfl, ?_, ?_⟩
          · simp only [List.length_nil, Nat.add_zero, List.append_nil, List.length_take, List.length_drop]
            have e : pos + min (v.items.length - pos) (v.items.length - pos) = v.items.length := by omega
            rw [e]
            have t : List.take (v.items.length - pos) (List.drop pos v.items) = List.drop pos v.items :=
              List.take_of_length_le (by simp only [List.length_drop]; omega)
            simp only [t, List.take_append_drop, List.drop_length, List.append_nil]
          · simp only [Inv, List.length_nil, Nat.add_zero, List.append_nil, List.length_append,
              List.length_take, List.length_drop]; omega
        · simp only [List.length_nil, List.length_append, List.length_take, List.length_drop]; omega
      · simp only [List.length_take, List.length_drop]; omega

theorem popBack_refines (v : Vec α) (h : v.Inv) (hne : v.items ≠ []) :
    Refines (popBack v) v.items.dropLast := by
  unfold Refines popBack Inv at *
  have : v.items.length ≠ 0 := by
    intro h0; exact hne (List.eq_nil_of_length_eq_zero h0)
  simp only [this, if_false]
  exact ⟨_, rfl, rfl, by simp; omega⟩

theorem erase_refines (v : Vec α) (first last : Nat) (h : v.Inv) (h1 : first ≤ last) (h2 : last ≤ v.items.length) :
    Refines (erase v first last) (v.items.take first ++ v.items.drop last) := by
  unfold Refines erase Inv at *
  have hc : ¬ (first > last ∨ last > v.items.length) := by omega
  simp only [hc, if_false]
  by_cases he : first = last
  · subst he
    simp only [if_true]
    exact ⟨v, rfl, by simp, h⟩
  simp only [he, if_false]
  rw [copyFwd_eq_overwrite _ _ _ _ h1 (by omega),
    List.take_of_length_le (by simp only [List.length_drop]; omega)]
  rw [overwrite_spec] <;> simp only [Option.bind_some, List.length_drop]
  · rw [popN_spec] <;> simp only [List.length_append, List.length_take, List.length_drop]
    · refine ⟨_, rfl, ?_, ?_⟩
      · have e : first + (v.items.length - last) = (v.items.take first ++ v.items.drop last).length := by
          simp only [List.length_append, List.length_take, List.length_drop]; omega
        have e2 : min first v.items.length + (v.items.length - last)
            + (v.items.length - (first + (v.items.length - last))) - (last - first)
            = (v.items.take first ++ v.items.drop last).length := by
          simp only [List.length_append, List.length_take, List.length_drop]; omega
        rw [e2, List.take_left]
      · simp only [List.length_take, List.length_append, List.length_drop]; omega
    · omega
  · omega

theorem resize_refines (v : Vec α) (n : Nat) (x : α) (h : v.Inv) :
    Refines (resize v n x) (v.items.take n ++ List.replicate (n - v.items.length) x) := by
  unfold Refines resize
  by_cases h1 : v.items.length > n
  · simp only [h1, if_true]
    rw [popN_spec _ _ (by omega)]
    refine ⟨_, rfl, ?_, ?_⟩
    · have : n - v.items.length = 0 := by omega
      have e : v.items.length - (v.items.length - n) = n := by omega
      simp [this, e]
    · unfold Inv at *; simp only [List.length_take]; omega
  simp only [h1, if_false]
  by_cases h2 : v.items.length < n
  · simp only [h2, if_true]
    have ha := reserve_alloc v n h (by omega)
    rw [rawPushAll_spec]
    · refine ⟨_, rfl, ?_, ?_⟩
      · simp only [reserve_items]
        rw [List.take_of_length_le (by omega)]
      · simp only [Inv, reserve_items, List.length_append, List.length_replicate]; omega
    · simp only [reserve_items, List.length_replicate]; omega
  · simp only [h2, if_false]
    have e : n = v.items.length := by omega
    refine ⟨v, rfl, ?_, h⟩
    subst e; simp

theorem clear_refines (v : Vec α) (h : v.Inv) : Refines (clear v) [] := by
  unfold Refines clear
  by_cases h1 : v.items.length > 0
  · simp only [h1, if_true]
    rw [popN_spec _ _ (by omega)]
    exact ⟨_, rfl, by simp, by simp [Inv]⟩
  · simp only [h1, if_false]
    exact ⟨v, rfl, List.eq_nil_of_length_eq_zero (by omega), h⟩

theorem assign_refines (v : Vec α) (src : List α) (h : v.Inv) : Refines (assign v src) src := by
  unfold assign
  obtain ⟨c, hc, hi, hinv⟩ := clear_refines v h
  rw [hc]
  simp only [Option.bind_some]
  have := insertRange_refines c 0 src hinv (by omega)
  simpa [hi] using this

theorem copyAssign_refines (v rhs : Vec α) (h : v.Inv) : Refines (copyAssign v rhs) rhs.items := by
  unfold Refines copyAssign
  by_cases h1 : v.alloc < rhs.items.length
  · simp only [h1, if_true]
    refine ⟨_, rfl, ?_, ?_⟩
    · unfold copyWith; split
      · rfl
      · rename_i h0; simp at h0; simp [h0]
    · unfold copyWith Inv; split <;> simp
  simp only [h1, if_false]
  unfold Inv at h
  by_cases h2 : v.items.length > rhs.items.length
  · simp only [h2, if_true]
    rw [popN_spec _ _ (by omega)]
    simp only [Option.bind_some]
    rw [overwrite_spec]
    · refine ⟨_, rfl, ?_, ?_⟩
      · simp only [List.take_zero, List.nil_append, Nat.zero_add]
        rw [List.drop_of_length_le]
        · simp
        · simp only [List.length_take]; omega
      · simp only [Inv, List.take_zero, List.nil_append, Nat.zero_add, List.length_append, List.length_drop,
          List.length_take]; omega
    · simp only [List.length_take]; omega
  simp only [h2, if_false]
  by_cases h3 : v.items.length < rhs.items.length
  · simp only [h3, if_true]
    obtain ⟨v1, e1, i1, inv1⟩ := insertRange_refines v v.items.length (rhs.items.drop v.items.length) h (by omega)
    rw [e1]
    simp only [Option.bind_some]
    simp only [List.take_length, List.drop_length, List.append_nil] at i1
    rw [overwrite_spec]
    · refine ⟨_, rfl, ?_, ?_⟩
      · simp only [List.take_zero, List.nil_append, Nat.zero_add, i1, List.length_take]
        have : min v.items.length rhs.items.length = v.items.length := by omega
        rw [this, List.drop_left, List.take_append_drop]
      · unfold Inv at inv1 ⊢
        simp only [List.take_zero, List.nil_append, Nat.zero_add, List.length_append, List.length_take,
          List.length_drop]
        rw [i1] at inv1 ⊢
        simp only [List.length_append, List.length_drop] at inv1 ⊢
        omega
    · rw [i1]; simp only [List.length_take, List.length_append, List.length_drop]; omega
  · simp only [h3, if_false]
    have e : v.items.length = rhs.items.length := by omega
    rw [overwrite_spec _ _ _ (by omega)]
    refine ⟨_, rfl, ?_, ?_⟩
    · simp only [List.take_zero, List.nil_append, Nat.zero_add]
      rw [List.drop_of_length_le (by omega)]; simp
    · simp only [Inv, List.take_zero, List.nil_append, Nat.zero_add, List.length_append, List.length_drop]; omega

theorem reserve_refines (v : Vec α) (n : Nat) (h : v.Inv) :
    (reserve v n).items = v.items ∧ (reserve v n).Inv ∧ n ≤ (reserve v n).alloc := by
  refine ⟨reserve_items v n, ?_, ?_⟩
  · unfold reserve doReserve copyWith Inv at *
    split
    · split <;> simp <;> omega
    · exact h
  · unfold reserve doReserve copyWith Inv at *
    split
    · split <;> simp <;> omega
    · omega

end XalanModel.Containers.Vec
