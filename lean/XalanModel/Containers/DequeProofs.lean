import XalanModel.Containers.Deque
/-!
Helper lemmas for the refinement of `XalanDeque` to `List` (property C20).
-/
namespace XalanModel.Containers.Deq
variable {α : Type}

/-- block-index invariant: positive block size, every block but the last is full, the last block
is non-empty and not over-full. -/
def Inv (d : Deq α) : Prop :=
  0 < d.blockSize ∧ (∀ b ∈ d.blocks.dropLast, b.length = d.blockSize) ∧
  (∀ last, d.blocks.getLast? = some last → 0 < last.length ∧ last.length ≤ d.blockSize)

theorem inv_nil (bs fb : Nat) (h : 0 < bs) : Inv (⟨bs, [], fb⟩ : Deq α) := by
  refine ⟨h, ?_, ?_⟩ <;> simp

theorem inv_snoc {bs fb : Nat} {init : List (List α)} {last : List α} :
    Inv (⟨bs, init ++ [last], fb⟩ : Deq α) ↔
      0 < bs ∧ (∀ b ∈ init, b.length = bs) ∧ 0 < last.length ∧ last.length ≤ bs := by
  unfold Inv
  simp only [List.dropLast_concat, List.getLast?_concat, Option.some.injEq]
  constructor
  · rintro ⟨h1, h2, h3⟩; exact ⟨h1, h2, h3 last rfl⟩
  · rintro ⟨h1, h2, h3⟩; exact ⟨h1, h2, fun l hl => hl ▸ h3⟩

theorem flatten_full_length {bs : Nat} {init : List (List α)} (h : ∀ b ∈ init, b.length = bs) :
    init.flatten.length = init.length * bs := by
  induction init with
  | nil => simp
  | cons b t ih =>
    simp only [List.flatten_cons, List.length_append, List.length_cons]
    rw [ih (fun x hx => h x (List.mem_cons_of_mem _ hx)), h b (List.mem_cons_self ..)]
    rw [Nat.add_mul]; omega

/-- `size()` as computed by the code is the number of elements. -/
theorem size_eq (d : Deq α) (h : d.Inv) : d.size = d.toList.length := by
  obtain ⟨bs, blocks, fb⟩ := d
  rcases List.eq_nil_or_concat blocks with rfl | ⟨init, last, rfl⟩
  · simp [size, toList]
  · simp only [List.concat_eq_append] at h ⊢
    obtain ⟨_, hfull, _, _⟩ := inv_snoc.mp h
    simp [size, toList, flatten_full_length hfull]

theorem pushBack_nil (bs fb : Nat) (x : α) :
    ∃ fb', pushBack (⟨bs, [], fb⟩ : Deq α) x = ⟨bs, [[x]], fb'⟩ := by
  simp only [pushBack, List.getLast?_nil, pushNewIndexBlock]
  split
  · exact ⟨fb, by simp⟩
  · exact ⟨fb - 1, by simp⟩

theorem pushBack_full (bs fb : Nat) (init : List (List α)) (last : List α) (x : α) (hf : last.length ≥ bs) :
    ∃ fb', pushBack (⟨bs, init ++ [last], fb⟩ : Deq α) x = ⟨bs, init ++ [last] ++ [[x]], fb'⟩ := by
  simp only [pushBack, List.getLast?_concat, hf, if_true, pushNewIndexBlock]
  split
  · exact ⟨fb, by simp⟩
  · exact ⟨fb - 1, by simp⟩

theorem pushBack_room (bs fb : Nat) (init : List (List α)) (last : List α) (x : α) (hf : ¬ last.length ≥ bs) :
    pushBack (⟨bs, init ++ [last], fb⟩ : Deq α) x = ⟨bs, init ++ [last ++ [x]], fb⟩ := by
  simp [pushBack, hf]

theorem pushBack_refines (d : Deq α) (x : α) (h : d.Inv) :
    (d.pushBack x).Inv ∧ (d.pushBack x).toList = d.toList ++ [x] ∧ (d.pushBack x).blockSize = d.blockSize := by
  obtain ⟨bs, blocks, fb⟩ := d
  rcases List.eq_nil_or_concat blocks with rfl | ⟨init, last, rfl⟩
  · have hb : 0 < bs := h.1
    obtain ⟨fb', e⟩ := pushBack_nil bs fb x
    rw [e]
    exact ⟨(inv_snoc (init := [])).mpr ⟨hb, by simp, by simp, by simp; omega⟩, by simp [toList], rfl⟩
  · simp only [List.concat_eq_append] at h ⊢
    obtain ⟨hb, hfull, hpos, hle⟩ := inv_snoc.mp h
    by_cases hfl : last.length ≥ bs
    · have hl : last.length = bs := by omega
      obtain ⟨fb', e⟩ := pushBack_full bs fb init last x hfl
      rw [e]
      refine ⟨inv_snoc.mpr ⟨hb, ?_, by simp, by simp; omega⟩, by simp [toList], rfl⟩
      intro b hb'
      rcases List.mem_append.mp hb' with hb' | hb'
      · exact hfull b hb'
      · simp at hb'; rw [hb']; exact hl
    · rw [pushBack_room bs fb init last x hfl]
      exact ⟨inv_snoc.mpr ⟨hb, hfull, by simp, by simp; omega⟩, by simp [toList], rfl⟩

theorem popBack_refines (d : Deq α) (h : d.Inv) (hne : d.toList ≠ []) :
    ∃ d', d.popBack = some d' ∧ d'.Inv ∧ d'.toList = d.toList.dropLast ∧ d'.blockSize = d.blockSize := by
  obtain ⟨bs, blocks, fb⟩ := d
  rcases List.eq_nil_or_concat blocks with rfl | ⟨init, last, rfl⟩
  · simp [toList] at hne
  · simp only [List.concat_eq_append] at h ⊢
    obtain ⟨hb, hfull, hpos, hle⟩ := inv_snoc.mp h
    simp only [popBack, List.getLast?_concat]
    have h0 : ¬ last.length = 0 := by omega
    simp only [h0, if_false]
    have hlast : last ≠ [] := by intro e; simp [e] at hpos
    have hdl : (init.flatten ++ last).dropLast = init.flatten ++ last.dropLast := by
      rw [List.dropLast_append_of_ne_nil hlast]
    by_cases h1 : last.length = 1
    · simp only [h1, if_true, List.dropLast_concat]
      refine ⟨_, rfl, ?_, ?_, rfl⟩
      · rcases List.eq_nil_or_concat init with rfl | ⟨i2, l2, rfl⟩
        · exact inv_nil _ _ hb
        · simp only [List.concat_eq_append] at hfull ⊢
          refine inv_snoc.mpr ⟨hb, fun b hb' => hfull b (List.mem_append_left _ hb'), ?_, ?_⟩
          · rw [hfull l2 (by simp)]; exact hb
          · rw [hfull l2 (by simp)]; omega
      · simp only [toList, List.flatten_append, List.flatten_cons, List.flatten_nil, List.append_nil, hdl]
        have : last.dropLast = [] := by
          apply List.eq_nil_of_length_eq_zero; simp [h1]
        simp [this]
    · simp only [h1, if_false, List.dropLast_concat]
      refine ⟨_, rfl, inv_snoc.mpr ⟨hb, hfull, by simp; omega, by simp; omega⟩, ?_, rfl⟩
      simp [toList, hdl]

/-- `operator[]`: the block/offset arithmetic addresses exactly the `i`-th element. -/
theorem get_flatten (bs : Nat) (hb : 0 < bs) (L : List (List α)) (i : Nat)
    (hfull : ∀ b ∈ L.dropLast, b.length = bs) (hlast : ∀ l, L.getLast? = some l → l.length ≤ bs) :
    (L[i / bs]?).bind (fun b => b[i % bs]?) = L.flatten[i]? := by
  induction L generalizing i with
  | nil => simp
  | cons b t ih =>
    by_cases hi : i < bs
    · have e1 : i / bs = 0 := Nat.div_eq_of_lt hi
      have e2 : i % bs = i := Nat.mod_eq_of_lt hi
      simp only [e1, e2, List.getElem?_cons_zero, Option.bind_some, List.flatten_cons]
      by_cases ht : t = []
      · subst ht; simp
      · have hbl : b.length = bs := hfull b (by
          cases t with
          | nil => exact absurd rfl ht
          | cons c t' => simp [List.dropLast])
        rw [List.getElem?_append_left (by omega)]
    · have hge : bs ≤ i := by omega
      have e1 : i / bs = (i - bs) / bs + 1 := by
        rw [Nat.div_eq_sub_div hb hge]
      have e2 : i % bs = (i - bs) % bs := Nat.mod_eq_sub_mod hge
      simp only [e1, e2, List.getElem?_cons_succ, List.flatten_cons]
      by_cases ht : t = []
      · subst ht
        have hbl : b.length ≤ bs := hlast b (by simp)
        simp only [List.getElem?_nil, Option.bind_none, List.flatten_nil, List.append_nil]
        rw [List.getElem?_eq_none (by omega)]
      · have hbl : b.length = bs := hfull b (by
          cases t with
          | nil => exact absurd rfl ht
          | cons c t' => simp [List.dropLast])
        rw [List.getElem?_append_right (by omega), hbl]
        apply ih
        · intro x hx; apply hfull
          cases t with
          | nil => exact absurd rfl ht
          | cons c t' => simp only [List.dropLast_cons_cons]; exact List.mem_cons_of_mem _ hx
        · intro l hl; apply hlast
          cases t with
          | nil => exact absurd rfl ht
          | cons c t' => simpa [List.getLast?_cons_cons] using hl

theorem get_eq (d : Deq α) (h : d.Inv) (i : Nat) : d.get i = d.toList[i]? := by
  unfold get toList
  have hb := h.1
  have : ¬ d.blockSize = 0 := by omega
  simp only [this, if_false]
  exact get_flatten d.blockSize hb d.blocks i h.2.1 (fun l hl => (h.2.2 l hl).2)

theorem back_eq (d : Deq α) (h : d.Inv) : d.back = d.toList.getLast? := by
  obtain ⟨bs, blocks, fb⟩ := d
  rcases List.eq_nil_or_concat blocks with rfl | ⟨init, last, rfl⟩
  · simp [back, toList]
  · simp only [List.concat_eq_append] at h ⊢
    obtain ⟨hb, hfull, hpos, hle⟩ := inv_snoc.mp h
    have hlast : last ≠ [] := by intro e; simp [e] at hpos
    simp [back, toList, List.getLast?_append]
    cases hl : last.getLast? with
    | none => simp [List.getLast?_eq_none_iff] at hl; exact absurd hl hlast
    | some v => simp

theorem clear_refines (d : Deq α) (h : d.Inv) : d.clear.Inv ∧ d.clear.toList = [] ∧ d.clear.blockSize = d.blockSize :=
  ⟨inv_nil _ _ h.1, rfl, rfl⟩

theorem pushN_refines (n : Nat) (x : α) (d : Deq α) (h : d.Inv) :
    (pushN n x d).Inv ∧ (pushN n x d).toList = d.toList ++ List.replicate n x ∧ (pushN n x d).blockSize = d.blockSize := by
  induction n generalizing d with
  | zero => simp [pushN, h]
  | succ n ih =>
    obtain ⟨i1, t1, b1⟩ := pushBack_refines d x h
    obtain ⟨i2, t2, b2⟩ := ih (pushBack d x) i1
    refine ⟨i2, ?_, by show (pushN n x (pushBack d x)).blockSize = _; rw [b2, b1]⟩
    simp only [pushN]
    rw [t2, t1, List.replicate_succ, List.append_assoc]; rfl

theorem pushAll_refines (xs : List α) (d : Deq α) (h : d.Inv) :
    (pushAll xs d).Inv ∧ (pushAll xs d).toList = d.toList ++ xs ∧ (pushAll xs d).blockSize = d.blockSize := by
  induction xs generalizing d with
  | nil => simp [pushAll, h]
  | cons x xs ih =>
    obtain ⟨i1, t1, b1⟩ := pushBack_refines d x h
    obtain ⟨i2, t2, b2⟩ := ih (pushBack d x) i1
    refine ⟨i2, ?_, by show (pushAll xs (pushBack d x)).blockSize = _; rw [b2, b1]⟩
    simp only [pushAll]
    rw [t2, t1, List.append_assoc]; rfl

theorem popN_refines (n : Nat) (d : Deq α) (h : d.Inv) (hn : n ≤ d.toList.length) :
    ∃ d', popN n d = some d' ∧ d'.Inv ∧ d'.toList = d.toList.take (d.toList.length - n) ∧ d'.blockSize = d.blockSize := by
  induction n generalizing d with
  | zero => exact ⟨d, rfl, h, by simp, rfl⟩
  | succ n ih =>
    have hne : d.toList ≠ [] := by intro e; simp [e] at hn
    obtain ⟨d1, e1, i1, t1, b1⟩ := popBack_refines d h hne
    have hl : d1.toList.length = d.toList.length - 1 := by rw [t1]; simp
    obtain ⟨d2, e2, i2, t2, b2⟩ := ih d1 i1 (by omega)
    refine ⟨d2, by simp [popN, e1, e2], i2, ?_, by rw [b2, b1]⟩
    rw [t2, hl, t1, List.dropLast_eq_take, List.take_take]
    congr 1; omega

theorem resize_refines (d : Deq α) (n : Nat) (x : α) (h : d.Inv) :
    ∃ d', d.resize n x = some d' ∧ d'.Inv ∧
      d'.toList = d.toList.take n ++ List.replicate (n - d.toList.length) x := by
  unfold resize
  simp only [size_eq d h]
  by_cases hg : n > d.toList.length
  · simp only [hg, if_true]
    obtain ⟨i1, t1, _⟩ := pushN_refines (n - d.toList.length) x d h
    refine ⟨_, rfl, i1, ?_⟩
    rw [t1, List.take_of_length_le (by omega)]
  · simp only [hg, if_false]
    obtain ⟨d', e, i1, t1, _⟩ := popN_refines (d.toList.length - n) d h (by omega)
    refine ⟨d', e, i1, ?_⟩
    rw [t1]
    have e1 : d.toList.length - (d.toList.length - n) = n := by omega
    have e2 : n - d.toList.length = 0 := by omega
    simp [e1, e2]

theorem assign_refines (d rhs : Deq α) (h : d.Inv) :
    (assign d rhs).Inv ∧ (assign d rhs).toList = rhs.toList ∧ (assign d rhs).blockSize = d.blockSize := by
  obtain ⟨i, t, b⟩ := pushAll_refines rhs.toList d.clear (clear_refines d h).1
  exact ⟨i, by rw [show assign d rhs = pushAll rhs.toList d.clear from rfl, t]; rfl, b⟩

/-- the repaired `swap` exchanges the element sequences and keeps both invariants, whatever the block sizes -/
theorem swapPair_refines (a b : Deq α) (ha : a.Inv) (hb : b.Inv) :
    (swapPair a b).1.Inv ∧ (swapPair a b).2.Inv ∧ (swapPair a b).1.toList = b.toList ∧
      (swapPair a b).2.toList = a.toList := by
  unfold swapPair
  by_cases he : a.blockSize = b.blockSize
  · simp only [he, if_true]
    refine ⟨?_, ?_, rfl, rfl⟩
    · have : (swapInto a b) = { b with blockSize := a.blockSize } := rfl
      rw [this, he]; exact hb
    · have : (swapInto b a) = { a with blockSize := b.blockSize } := rfl
      rw [this, ← he]; exact ha
  · simp only [he, if_false]
    obtain ⟨i1, t1, b1⟩ := assign_refines ({ blockSize := a.blockSize } : Deq α) b (inv_nil _ _ ha.1)
    obtain ⟨i2, t2, _⟩ := assign_refines b a hb
    refine ⟨?_, i2, t1, t2⟩
    have hbs : (assign ({ blockSize := a.blockSize } : Deq α) b).blockSize = a.blockSize := b1
    exact ⟨ha.1, by simpa [swapInto, hbs] using i1.2.1, by simpa [swapInto, hbs] using i1.2.2⟩

end XalanModel.Containers.Deq
