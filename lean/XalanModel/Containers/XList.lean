/-
Model of `XalanList<T>` (src/xalanc/Include/XalanList.hpp): a circular doubly linked list whose
head (sentinel) node is allocated lazily by the first `begin()`/`end()`, with a LIFO free list of
nodes that `constructNode` recycles before it allocates.

A node is identified by a number standing for its address (`id`); an iterator is a node id, `end()`
is the head node.  The `prev`/`next` pointer surgery of `constructNode`, `freeNode` and `splice` is
abstracted to the corresponding edit of the node sequence (modelled, not verified — see DESIGN.md
§7; the real pointer code runs under ASan in the correspondence harness).  What is kept as written:
which node a new element gets (free-list head first, otherwise a fresh allocation), that erased
nodes go to the front of the free list, that node identities never change while the element lives
(iterator stability, also across `splice` and `swap`), and the lazy head allocation (by the first
insertion or splice into the list, never by `begin()`/`end()`/`size()`/`clear()`).

`none` = undefined behaviour (an iterator that is not a node of the list, `pop_*`/`front`/`back`/
`erase(end())` on an empty list).  Node ids are drawn from a counter shared by all lists (`next`),
because `splice` moves nodes between lists.
Core Lean only.
-/
namespace XalanModel.Containers

structure XL (α : Type) where
  head : Bool := false            -- m_listHead != 0
  live : List (Nat × α) := []     -- linked nodes in list order
  free : List Nat := []           -- m_freeListHeadPtr chain, head first
deriving Repr, DecidableEq

/-- iterator: a node, or the head node (`end()`) -/
inductive LPos where
  | node (id : Nat)
  | endPos
deriving Repr, DecidableEq

namespace XL
variable {α : Type}

def toList (l : XL α) : List α := l.live.map (·.2)

/-- `getListHead()`: creates the head (sentinel) node if the list has none.  Since the repair c994d6f
`begin()`/`end()` of a list without a head return a null iterator pair and allocate nothing; the head
is created by the first insertion (`constructNode` → `positionNode`) or by a `splice` into the list. -/
def touch (l : XL α) : XL α := { l with head := true }

/-- number of blocks this list holds from the memory manager -/
def blocks (l : XL α) : Nat := (if l.head then 1 else 0) + l.live.length + l.free.length

/-- index in `live` at which `pos` stands (`live.length` for `end()`), `none` if `pos` is not an
iterator into this list -/
def indexOf (l : XL α) : LPos → Option Nat
  | .endPos => some l.live.length
  | .node id => let i := l.live.findIdx (fun p => p.1 == id); if i < l.live.length then some i else none

/-- `constructNode(data, pos)`; returns the list, the allocation counter and the new node's id -/
def constructNode (l : XL α) (next : Nat) (x : α) (pos : LPos) : Option (XL α × Nat × Nat) :=
  let l := touch l
  (l.indexOf pos).map fun i =>
    match l.free with
    | id :: rest => ({ l with live := l.live.take i ++ [(id, x)] ++ l.live.drop i, free := rest }, next, id)
    | [] => ({ l with live := l.live.take i ++ [(next, x)] ++ l.live.drop i }, next + 1, next)

/-- `freeNode(node)` via `erase(pos)` (`assert(pos != end())`) -/
def erase (l : XL α) (pos : LPos) : Option (XL α) :=
  match pos with
  | .endPos => none
  | .node id =>
    (l.indexOf (.node id)).map fun i => { l with live := l.live.eraseIdx i, free := id :: l.free }

def pushBack (l : XL α) (next : Nat) (x : α) : Option (XL α × Nat × Nat) := constructNode l next x .endPos

/-- `begin()` as a position -/
def beginPos (l : XL α) : LPos :=
  match l.live with
  | [] => .endPos
  | p :: _ => .node p.1

def pushFront (l : XL α) (next : Nat) (x : α) : Option (XL α × Nat × Nat) := constructNode l next x l.beginPos

def popFront (l : XL α) : Option (XL α) := erase l l.beginPos

/-- `pop_back()`: `erase(--end())` -/
def popBack (l : XL α) : Option (XL α) :=
  match l.live.getLast? with
  | none => none
  | some p => erase l (.node p.1)

def front (l : XL α) : Option α := l.live.head?.map (·.2)
def back (l : XL α) : Option α := l.live.getLast?.map (·.2)

/-- `*it` for a saved iterator -/
def deref (l : XL α) (id : Nat) : Option α := (l.live.find? (fun p => p.1 == id)).map (·.2)

/-- `clear()`: `freeNode` on every node from the front; the last node freed ends up at the head of
the free list -/
def clear (l : XL α) : XL α :=
  { l with live := [], free := (l.live.map (·.1)).reverse ++ l.free }

/-- `splice(pos, list, toInsert)` within one list (`&list == this`) -/
def spliceSelf (l : XL α) (pos : LPos) (id : Nat) : Option (XL α) :=
  if pos = .node id then some l
  else
    (l.live.find? (fun p => p.1 == id)).bind fun nd =>
    let rest := l.live.filter (fun p => p.1 != id)
    let l1 := { l with live := rest }
    (l1.indexOf pos).map fun i => { l with live := rest.take i ++ [nd] ++ rest.drop i }

/-- `splice(pos, list, toInsert)` between two different lists: returns (this, list) -/
def spliceFrom (l src : XL α) (pos : LPos) (id : Nat) : Option (XL α × XL α) :=
  (src.live.find? (fun p => p.1 == id)).bind fun nd =>
  (l.indexOf pos).map fun i =>
    ({ l with head := true, live := l.live.take i ++ [nd] ++ l.live.drop i },
     { src with live := src.live.filter (fun p => p.1 != id) })

/-- `splice(pos, list, first, last)` between two different lists, the range given as
index interval `[a, b)` of `src` -/
def spliceRangeFrom (l src : XL α) (pos : LPos) (a b : Nat) : Option (XL α × XL α) :=
  if a > b ∨ b > src.live.length then none
  else if a = b then (l.indexOf pos).map fun _ => (l, src)        -- `toInsertFirst == toInsertLast`: nothing happens
  else
    (l.indexOf pos).map fun i =>
      ({ l with head := true, live := l.live.take i ++ (src.live.drop a).take (b - a) ++ l.live.drop i },
       { src with live := src.live.take a ++ src.live.drop b })

end XL
end XalanModel.Containers
