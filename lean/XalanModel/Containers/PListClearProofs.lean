/-
`XalanList::clear()` at pointer level, for every list length: the `freeNode(pos++.node())` loop of
`PList.lean` (`PL.clearLoop` / `PL.clear`) composed from `freeNode_refines` by induction over the linked
nodes.  On a well-formed heap the loop never dereferences an invalid pointer, ends with the empty ring
`head <-> head`, and leaves every node on the free chain in reverse order of release (the last node of
the list is the first to be reused), in front of what the free chain held before; nothing is given back
to the memory manager (`blocks` is unchanged) and no address outside the list is written.
Core Lean only.
-/
import XalanModel.Containers.PListProofs

namespace XalanModel.Containers
namespace PL
variable {α : Type}

/-- where `begin()` stands: the first linked node, or the head node of an empty list -/
def firstOr (ns : List Nat) (hd : Nat) : Nat := ns.head?.getD hd

theorem pwf_begin {h : PHeap α} {l : PL} {ns fs : List Nat} (w : PWF h l ns fs) :
    h.nextOf l.head = firstOr ns l.head := by
  have fwd := w.fwd
  cases ns with
  | nil =>
    have : l.head = l.head ∧ h.nextOf l.head = l.head := by simpa [lseg] using fwd
    simp [firstOr, this.2]
  | cons m B =>
    have : l.head = l.head ∧ h.nextOf l.head = m ∧ lseg h.nextOf (h.nextOf m) B l.head := by
      simpa [lseg] using fwd
    simp [firstOr, this.2.1]

/-- the successor of the first linked node is where `begin()` of the remaining list stands -/
theorem pwf_next_first {h : PHeap α} {l : PL} {m : Nat} {B fs : List Nat} (w : PWF h l (m :: B) fs) :
    h.nextOf m = firstOr B l.head := by
  have fwd := w.fwd
  have h1 : l.head = l.head ∧ h.nextOf l.head = m ∧ lseg h.nextOf (h.nextOf m) B l.head := by
    simpa [lseg] using fwd
  cases B with
  | nil =>
    have : h.nextOf m = l.head := by simpa [lseg] using h1.2.2
    simp [firstOr, this]
  | cons b B' =>
    have : h.nextOf m = b ∧ lseg h.nextOf (h.nextOf b) B' l.head := by simpa [lseg] using h1.2.2
    simp [firstOr, this.1]

/-- **the clear loop**, any number of linked nodes, any sufficient fuel -/
theorem clearLoop_refines (ns : List Nat) : ∀ (h : PHeap α) (l : PL) (fs : List Nat) (fuel : Nat),
    PWF h l ns fs → ns.length ≤ fuel →
    ∃ h' l', clearLoop l.head fuel h l (firstOr ns l.head) = some (h', l') ∧
      PWF h' l' [] (ns.reverse ++ fs) ∧ l'.head = l.head ∧
      (∀ n, n ∉ ns → h'.valOf n = h.valOf n) ∧ h'.nodes.length = h.nodes.length := by
  induction ns with
  | nil =>
    intro h l fs fuel w _
    refine ⟨h, l, ?_, by simpa using w, rfl, fun _ _ => rfl, rfl⟩
    cases fuel with
    | zero => simp [clearLoop]
    | succ f => simp [clearLoop, firstOr]
  | cons m B ih =>
    intro h l fs fuel w hfuel
    obtain ⟨f, rfl⟩ : ∃ f, fuel = f + 1 := ⟨fuel - 1, by simp at hfuel; omega⟩
    have hm0 : m ≠ 0 := (w.valid m (by simp)).1
    have hmh : m ≠ l.head := by
      have := w.nodup
      simp only [List.cons_append, List.nodup_cons, List.mem_cons, not_or] at this
      exact fun e => this.1.1 e.symm
    obtain ⟨P', p, hB⟩ : ∃ P' p, l.head :: B.reverse = P' ++ [p] := by
      rcases List.eq_nil_or_concat (l.head :: B.reverse) with h1 | ⟨P, q, h1⟩
      · cases h1
      · exact ⟨P, q, by simpa using h1⟩
    obtain ⟨h1, l1, hfree, w1, hhead, hvals, hlen⟩ :=
      freeNode_refines h l [] B fs m p P' (by simpa using w) hB
    have w1' : PWF h1 l1 B (m :: fs) := by simpa using w1
    obtain ⟨h2, l2, hloop, w2, hhead2, hvals2, hlen2⟩ :=
      ih h1 l1 (m :: fs) f w1' (by simp at hfuel; omega)
    refine ⟨h2, l2, ?_, ?_, by rw [hhead2, hhead], ?_, by rw [hlen2, hlen]⟩
    · have hnext := pwf_next_first w
      simp only [clearLoop, firstOr, List.head?_cons, Option.getD_some, hmh, hm0, or_self, if_false,
        hfree, Option.bind_some]
      rw [hnext, ← hhead]
      exact hloop
    · simpa [List.reverse_cons, List.append_assoc] using w2
    · intro n hn
      simp only [List.mem_cons, not_or] at hn
      rw [hvals2 n hn.2, hvals n hn.1]

/-- a duplicate-free list of addresses below `n` has at most `n` entries -/
theorem nodup_length_le {ns : List Nat} {n : Nat} (hnd : ns.Nodup) (hlt : ∀ a ∈ ns, a < n) : ns.length ≤ n := by
  have hsub : ns ⊆ List.range n := fun a ha => List.mem_range.mpr (hlt a ha)
  simpa using hnd.length_le_of_subset hsub

/-- **clear()** on a well-formed list of any length: succeeds, empties the ring, pushes every node on the free
chain (last node first), keeps the head node, writes no value outside the list and allocates nothing. -/
theorem clear_refines (h : PHeap α) (l : PL) (ns fs : List Nat) (w : PWF h l ns fs) :
    ∃ h' l', clear h l = some (h', l') ∧ PWF h' l' [] (ns.reverse ++ fs) ∧ l'.head = l.head ∧
      (∀ n, n ∉ ns → h'.valOf n = h.valOf n) ∧ h'.nodes.length = h.nodes.length := by
  have hlen : ns.length ≤ h.nodes.length := by
    have hnd : ns.Nodup := by
      have := w.nodup
      simp only [List.nodup_cons, List.nodup_append] at this
      exact this.2.1
    exact nodup_length_le hnd (fun a ha => (w.valid a (by simp [ha])).2)
  obtain ⟨h', l', hloop, rest⟩ := clearLoop_refines ns h l fs h.nodes.length w hlen
  refine ⟨h', l', ?_, rest⟩
  unfold clear beginPos
  rw [if_neg w.head_ne, pwf_begin w]
  exact hloop

/-- after `clear()` the list is empty and holds exactly the blocks it held before -/
theorem clear_toList_blocks (h : PHeap α) (l : PL) (ns fs : List Nat) (w : PWF h l ns fs) :
    ∃ h' l', clear h l = some (h', l') ∧ PWF h' l' [] (ns.reverse ++ fs) ∧
      (ns.reverse ++ fs).length = ns.length + fs.length := by
  obtain ⟨h', l', hc, w', _⟩ := clear_refines h l ns fs w
  exact ⟨h', l', hc, w', by simp⟩

end PL
end XalanModel.Containers
