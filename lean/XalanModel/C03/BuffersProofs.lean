import XalanModel.C03.Buffers
/-! helper lemmas for the buffer theorems of `Props/C03.lean` -/
namespace XalanModel.C03
open XalanModel.Generated.C03_Buffers

theorem store_some (buf : List Nat) (i v : Nat) (h : i < buf.length) : store buf i v = some (buf.set i v) := by
  simp [store, h]

theorem decWrap_pos (x : Nat) (h : 0 < x) : decWrap x = x - 1 := by
  unfold decWrap; split <;> omega

/-- the loop of int2alphaCount: with `val < radix^n`, `n` free slots below `charPos` and fuel `≥ val + 1` it
    returns normally having moved `charPos` down by at most `n` -/
theorem alphaLoop_ok (radix : Nat) (table : List Nat) (hr : 2 ≤ radix) :
    ∀ (n fuel : Nat) (s : AlphaSt), 1 ≤ n → s.val < radix ^ n → s.val + 1 ≤ fuel → n ≤ s.charPos →
      s.charPos < s.buf.length →
      ∃ s', alphaLoop radix table fuel s = .ok s' ∧ s'.charPos ≤ s.charPos ∧ s.charPos ≤ s'.charPos + n ∧
        s'.buf.length = s.buf.length := by
  intro n
  induction n with
  | zero => intro fuel s h; omega
  | succ n ih =>
    intro fuel s _ hv hf hc hl
    obtain ⟨f, rfl⟩ : ∃ f, fuel = f + 1 := ⟨fuel - 1, by omega⟩
    have hdiv : s.val / radix < radix ^ n := by
      rw [Nat.div_lt_iff_lt_mul (by omega)]
      rw [Nat.pow_succ] at hv; exact hv
    simp only [alphaLoop]
    by_cases hb : alphaLookup radix s = 0 ∧ s.val / radix = 0
    · rw [if_pos hb]
      exact ⟨_, rfl, Nat.le_refl _, by simp only; omega, rfl⟩
    · rw [if_neg hb, store_some _ _ _ hl]
      simp only
      have hdw : decWrap s.charPos = s.charPos - 1 := decWrap_pos _ (by omega)
      by_cases hpos : s.val / radix > 0
      · rw [if_pos hpos]
        have hn : 1 ≤ n := by
          rcases Nat.eq_zero_or_pos n with h0 | h0
          · subst h0; rw [Nat.pow_zero] at hdiv; omega
          · exact h0
        have hmul : s.val / radix * radix ≤ s.val := Nat.div_mul_le_self _ _
        have hge : s.val / radix + 1 ≤ s.val := by
          have : s.val / radix * 2 ≤ s.val / radix * radix := Nat.mul_le_mul_left _ hr
          omega
        obtain ⟨s', e, h1, h2, h3⟩ := ih f
          { val := s.val / radix, correction := alphaCorrection radix s, lookupIndex := alphaLookup radix s,
            charPos := decWrap s.charPos,
            buf := s.buf.set s.charPos (table.getD (alphaLookup radix s) 0) } hn hdiv (by simp only; omega)
          (by simp only [hdw]; omega) (by simp only [hdw, List.length_set]; omega)
        refine ⟨s', e, ?_, ?_, ?_⟩
        · simp only [hdw] at h1; omega
        · simp only [hdw] at h2; omega
        · simpa using h3
      · rw [if_neg hpos]
        exact ⟨_, rfl, by simp only [hdw]; omega, by simp only [hdw]; omega, by simp⟩

theorem decLoop_ok : ∀ (n fuel v pos : Nat) (buf : List Nat), 1 ≤ n → v < 10 ^ n → v + 1 ≤ fuel → n ≤ pos →
    pos ≤ buf.length →
    ∃ p b, decLoop fuel v pos buf = .ok (p, b) ∧ p < pos ∧ pos ≤ p + n ∧ b.length = buf.length := by
  intro n
  induction n with
  | zero => intro fuel v pos buf h; omega
  | succ n ih =>
    intro fuel v pos buf _ hv hf hp hl
    obtain ⟨f, rfl⟩ : ∃ f, fuel = f + 1 := ⟨fuel - 1, by omega⟩
    have hdiv : v / 10 < 10 ^ n := by
      rw [Nat.div_lt_iff_lt_mul (by omega)]
      rw [Nat.pow_succ] at hv; exact hv
    simp only [decLoop]
    rw [if_neg (by omega)]
    rw [store_some _ _ _ (by omega)]
    simp only
    split
    · rename_i hne
      have hn : 1 ≤ n := by
        rcases Nat.eq_zero_or_pos n with h0 | h0
        · subst h0; rw [Nat.pow_zero] at hdiv; omega
        · exact h0
      obtain ⟨p, b, e, h1, h2, h3⟩ := ih f (v / 10) (pos - 1) (buf.set (pos - 1) (48 + v % 10)) hn hdiv
        (by omega) (by omega) (by simp only [List.length_set]; omega)
      exact ⟨p, b, e, by omega, by omega, by simpa using h3⟩
    · exact ⟨_, _, rfl, by omega, by omega, by simp⟩

theorem set_split (l : List Nat) (k x : Nat) (h : k < l.length) : l.set k x = l.take k ++ x :: l.drop (k + 1) := by
  exact List.set_eq_take_append_cons_drop ▸ (by simp [h])

theorem drop_set_at (l : List Nat) (k x : Nat) (h : k < l.length) : (l.set k x).drop k = x :: l.drop (k + 1) := by
  rw [set_split l k x h]
  have : (l.take k).length = k := by simp; omega
  rw [List.drop_append_of_le_length (by omega)]
  simp

/-- what the backwards loop leaves in the buffer: the numeral of `v` immediately before `pos`, the rest untouched -/
theorem decLoop_spec : ∀ (n fuel v pos : Nat) (buf : List Nat), 1 ≤ n → v < 10 ^ n → v + 1 ≤ fuel → n ≤ pos →
    pos ≤ buf.length →
    ∃ p b, decLoop fuel v pos buf = .ok (p, b) ∧ p + (decSpec v).length = pos ∧
      b = buf.take p ++ decSpec v ++ buf.drop pos := by
  intro n
  induction n with
  | zero => intro fuel v pos buf h; omega
  | succ n ih =>
    intro fuel v pos buf _ hv hf hp hl
    obtain ⟨f, rfl⟩ : ∃ f, fuel = f + 1 := ⟨fuel - 1, by omega⟩
    have hdiv : v / 10 < 10 ^ n := by
      rw [Nat.div_lt_iff_lt_mul (by omega)]
      rw [Nat.pow_succ] at hv; exact hv
    simp only [decLoop]
    rw [if_neg (by omega)]
    rw [store_some _ _ _ (by omega)]
    simp only
    by_cases hne : v / 10 ≠ 0
    · rw [if_pos hne]
      have hn : 1 ≤ n := by
        rcases Nat.eq_zero_or_pos n with h0 | h0
        · subst h0; rw [Nat.pow_zero] at hdiv; omega
        · exact h0
      obtain ⟨p, b, e, h1, h2⟩ := ih f (v / 10) (pos - 1) (buf.set (pos - 1) (48 + v % 10)) hn hdiv
        (by omega) (by omega) (by simp only [List.length_set]; omega)
      have h10 : ¬ v < 10 := by omega
      refine ⟨p, b, e, ?_, ?_⟩
      · rw [decSpec, dif_neg h10]; simp; omega
      · rw [h2]
        rw [decSpec.eq_1 v, dif_neg h10]
        have hp1 : p ≤ pos - 1 := by omega
        rw [List.take_set_of_le hp1, drop_set_at _ _ _ (by omega)]
        have : pos - 1 + 1 = pos := by omega
        rw [this]
        simp
    · rw [if_neg hne]
      have h10 : v < 10 := by omega
      refine ⟨pos - 1, _, rfl, ?_, ?_⟩
      · rw [decSpec, dif_pos h10]; simp; omega
      · rw [decSpec, dif_pos h10]
        have : v % 10 = v := Nat.mod_eq_of_lt h10
        rw [this, set_split _ _ _ (by omega)]
        have : pos - 1 + 1 = pos := by omega
        rw [this]
        simp

theorem numDigits_le : ∀ (k n : Nat), 1 ≤ k → n < 10 ^ k → numDigits n ≤ k := by
  intro k
  induction k with
  | zero => intro n h; omega
  | succ k ih =>
    intro n _ hn
    rw [numDigits]
    split
    · omega
    · rename_i h10
      have hk : 1 ≤ k := by
        rcases Nat.eq_zero_or_pos k with h0 | h0
        · subst h0; simp at hn; omega
        · exact h0
      have : n / 10 < 10 ^ k := by
        rw [Nat.div_lt_iff_lt_mul (by omega)]
        rw [Nat.pow_succ] at hn; exact hn
      have := ih (n / 10) hk this
      omega

theorem numDigits_ge : ∀ (k n : Nat), 10 ^ k ≤ n → k + 1 ≤ numDigits n := by
  intro k
  induction k with
  | zero => intro n _; rw [numDigits]; split <;> omega
  | succ k ih =>
    intro n hn
    rw [numDigits]
    have h10 : 10 ≤ n := by
      have : 10 ^ 1 ≤ 10 ^ (k + 1) := Nat.pow_le_pow_right (by omega) (by omega)
      omega
    rw [dif_neg (by omega)]
    have : 10 ^ k ≤ n / 10 := by
      rw [Nat.le_div_iff_mul_le (by omega)]
      rw [Nat.pow_succ] at hn; exact hn
    have := ih (n / 10) this
    omega

set_option exponentiation.threshold 2000 in
theorem numDigits_maxDouble : numDigits maxDouble = 309 := by
  have h1 := numDigits_le 309 maxDouble (by omega) (by decide +kernel)
  have h2 := numDigits_ge 308 maxDouble (by decide +kernel)
  omega

theorem sprintfLoop_ok (x : DblAbs) (rt carry : Nat → Bool) :
    ∀ (ps : List Nat) (i : Nat), ps ≠ [] → (∀ p ∈ ps, ∀ c, sprintfBytes x p c ≤ printfBufferSize) →
      ∃ b, sprintfLoop x rt carry i ps = .ok b ∧ b ≤ printfBufferSize := by
  intro ps
  induction ps with
  | nil => intro i h; exact absurd rfl h
  | cons p ps ih =>
    intro i _ hall
    simp only [sprintfLoop]
    rw [if_pos (hall p (by simp) _)]
    split
    · exact ⟨_, rfl, hall p (by simp) _⟩
    · rename_i hcont
      have hne : ps ≠ [] := by
        intro h; subst h; simp at hcont
      exact ih (i + 1) hne (fun q hq c => hall q (by simp [hq]) c)

theorem sprintfLoop_memErr (x : DblAbs) (rt carry : Nat → Bool) (i p : Nat) (ps : List Nat)
    (h : printfBufferSize < sprintfBytes x p (carry i)) : sprintfLoop x rt carry i (p :: ps) = .memErr := by
  simp only [sprintfLoop]
  rw [if_neg (by omega)]

theorem guardOk_sound (g : Guarded) (len : Nat) (h : guardOk g = true) (hp : guardPasses g len = true) :
    len + g.extra ≤ g.size := by
  unfold guardOk at h
  unfold guardPasses at hp
  cases hs : g.strict <;> simp [hs] at h hp <;> omega

end XalanModel.C03
