import XalanModel.C03.Guard
/-! helper lemmas for the guard-stack theorems of `Props/C03.lean` -/
namespace XalanModel.C03

set_option linter.unusedSimpArgs false in
theorem length_filter_ne_add_count (N : Nat) : ∀ l : List Nat, l.length = (l.filter (· ≠ N)).length + l.count N := by
  intro l
  induction l with
  | nil => simp
  | cons a t ih =>
    by_cases h : a = N
    · subst h; simp [List.filter_cons, List.count_cons] at ih ⊢; omega
    · have hb : ¬ (a == N) = true := by simpa using h
      simp [List.filter_cons, List.count_cons, h, hb] at ih ⊢
      omega

/-- pigeonhole: a duplicate-free list of numbers below N has at most N elements -/
theorem nodup_bounded_length : ∀ (N : Nat) (l : List Nat), l.Nodup → (∀ x ∈ l, x < N) → l.length ≤ N := by
  intro N
  induction N with
  | zero =>
    intro l _ h
    cases l with
    | nil => simp
    | cons a t => exact absurd (h a (by simp)) (by omega)
  | succ N ih =>
    intro l hn hb
    have h1 : (l.filter (· ≠ N)).length ≤ N := by
      apply ih
      · exact hn.filter _
      · intro x hx
        simp at hx
        have := hb x hx.1
        omega
    have h2 := length_filter_ne_add_count N l
    have h3 : l.count N ≤ 1 := List.nodup_iff_count.mp hn N
    omega

/-- a fold over the dependencies never runs out of fuel if no single evaluation does -/
theorem foldl_ne_outOfFuel (f : Nat → GuardRes) :
    ∀ (ds : List Nat) (acc : GuardRes), (∀ d ∈ ds, f d ≠ .outOfFuel) → acc ≠ .outOfFuel →
      ds.foldl (fun acc d => match acc with | .value => f d | r => r) acc ≠ .outOfFuel := by
  intro ds
  induction ds with
  | nil => intro acc _ ha; simpa using ha
  | cons d ds ih =>
    intro acc h ha
    simp only [List.foldl_cons]
    apply ih
    · intro d' hd'; exact h d' (by simp [hd'])
    · cases acc with
      | value => exact h d (by simp)
      | circular v => simp
      | outOfFuel => exact absurd rfl ha

/-- with the whole-stack search the nesting depth never exceeds the number of variables: the guard stack is duplicate-free -/
theorem evalVar_whole_ne_outOfFuel (deps : Nat → List Nat) (N : Nat) (hd : ∀ u, ∀ d ∈ deps u, d < N) :
    ∀ (fuel : Nat) (guard : List Nat) (v : Nat), v < N → guard.Nodup → (∀ x ∈ guard, x < N) → N + 1 ≤ fuel + guard.length →
      evalVar true deps fuel guard v ≠ .outOfFuel := by
  intro fuel
  induction fuel with
  | zero =>
    intro guard v _ hn hb hl
    have := nodup_bounded_length N guard hn hb
    omega
  | succ f ih =>
    intro guard v hv hn hb hl
    simp only [evalVar]
    by_cases hg : onGuard true guard v = true
    · rw [if_pos hg]; simp
    · rw [if_neg hg]
      have hv' : v ∉ guard := by
        simpa [onGuard] using hg
      apply foldl_ne_outOfFuel
      · intro d hdm
        exact ih (v :: guard) d (hd v d hdm) (List.nodup_cons.mpr ⟨hv', hn⟩)
          (by intro x hx; simp at hx; rcases hx with rfl | hx; exact hv; exact hb x hx) (by simp; omega)
      · simp

end XalanModel.C03
