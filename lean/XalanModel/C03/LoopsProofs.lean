import XalanModel.C03.Loops
/-! helper lemmas for the loop theorems of `Props/C03.lean` -/
namespace XalanModel.C03
open XalanModel.Generated.C03_Buffers

/-- invariant of the conflicts bookkeeping after `k` entries: at most `k` conflicts are stored, and one slot fewer while the
    best pattern is not itself among them -/
def ConfInv (s : ConfSt) (k : Nat) : Prop :=
  s.conf.length ≤ k ∧ ∀ b, s.best = some b → b ∉ s.conf → s.conf.length + 1 ≤ k

theorem confStep_inv (cap : Nat) (s : ConfSt) (k : Nat) (a : ConfAct) (h : ConfInv s k) (hk : k < cap) :
    ∃ s', confStep cap s k a = some s' ∧ ConfInv s' (k + 1) := by
  obtain ⟨h1, h2⟩ := h
  cases a with
  | skip =>
    refine ⟨s, rfl, by omega, ?_⟩
    intro b hb hc; have := h2 b hb hc; omega
  | better =>
    refine ⟨{ best := some k, conf := [] }, rfl, by simp, ?_⟩
    intro b _ _; simp
  | tie =>
    cases hb : s.best with
    | none =>
      refine ⟨{ best := some k, conf := [] }, by simp [confStep, hb], by simp, ?_⟩
      intro b _ _; simp
    | some b =>
      by_cases hc : b ∈ s.conf
      · have e1 : addIfNotFound cap s.conf b = some s.conf := by simp [addIfNotFound, hc]
        refine ⟨{ best := some k, conf := s.conf ++ [k] }, ?_, ?_, ?_⟩
        · simp only [confStep, hb, e1]; rw [if_pos (by omega)]
        · simp only [List.length_append, List.length_singleton]; omega
        · intro b' hb' hc'
          simp only [Option.some.injEq] at hb'; subst hb'
          exact absurd (by simp) hc'
      · have hs := h2 b hb hc
        have e1 : addIfNotFound cap s.conf b = some (s.conf ++ [b]) := by
          simp only [addIfNotFound, if_neg hc]
          rw [if_pos (by omega)]
        refine ⟨{ best := some k, conf := (s.conf ++ [b]) ++ [k] }, ?_, ?_, ?_⟩
        · simp only [confStep, hb, e1]
          rw [if_pos (by simp only [List.length_append, List.length_singleton]; omega)]
        · simp only [List.length_append, List.length_singleton]; omega
        · intro b' hb' hc''
          simp only [Option.some.injEq] at hb'; subst hb'
          exact absurd (by simp) hc''

theorem confRun_ok (cap : Nat) : ∀ (acts : List ConfAct) (s : ConfSt) (k : Nat), ConfInv s k → k + acts.length ≤ cap →
    ∃ s', confRun cap s k acts = some s' ∧ ConfInv s' (k + acts.length) := by
  intro acts
  induction acts with
  | nil => intro s k h _; exact ⟨s, rfl, by simpa using h⟩
  | cons a as ih =>
    intro s k h hk
    simp only [List.length_cons] at hk
    obtain ⟨s1, e1, i1⟩ := confStep_inv cap s k a h (by omega)
    obtain ⟨s2, e2, i2⟩ := ih s1 (k + 1) i1 (by omega)
    refine ⟨s2, by simp [confRun, e1, e2], ?_⟩
    have : k + (as.length + 1) = k + 1 + as.length := by omega
    simp only [List.length_cons, this]; exact i2

/-- transcode: with the bounds invariant `filled + target ≤ dest`, fuel `≥ remaining + 1`, a transcoder that never reports
    target bytes without source progress, and the no-progress guard present, the loop ends normally -/
theorem transcodeLoop_ok (len : Nat) (tr : Transcoder)
    (hprog : ∀ s, (tr s).1 = 0 → min (tr s).2 s.target = 0) :
    ∀ (fuel : Nat) (s : TrSt), s.remaining + 1 ≤ fuel → s.filled + s.target ≤ s.dest → s.eaten + s.remaining = len →
      ∃ s', transcodeLoop len true tr fuel s = .ok s' := by
  intro fuel
  induction fuel with
  | zero => intro s h; omega
  | succ f ih =>
    intro s hf hb he
    simp only [transcodeLoop]
    rw [if_pos hb]
    by_cases hd : s.eaten + min (tr s).1 s.remaining = len
    · rw [if_pos hd]; exact ⟨_, rfl⟩
    · rw [if_neg hd]
      by_cases hz : min (tr s).1 s.remaining = 0 ∧ min (tr s).2 s.target = 0
      · rw [if_pos (by simp [hz.1, hz.2])]; exact ⟨_, rfl⟩
      · have hse : min (tr s).1 s.remaining ≠ 0 := by
          intro h0
          apply hz
          refine ⟨h0, ?_⟩
          rcases Nat.min_eq_zero_iff.mp h0 with h1 | h1
          · exact hprog s h1
          · exfalso; apply hd; rw [h0]; omega
        have : ¬ ((true && min (tr s).1 s.remaining == 0 && min (tr s).2 s.target == 0) = true) := by
          intro hh
          simp only [Bool.true_and, Bool.and_eq_true, beq_iff_eq] at hh
          exact hse hh.1
        rw [if_neg this]
        have hle : min (tr s).1 s.remaining ≤ s.remaining := Nat.min_le_right _ _
        have hte : min (tr s).2 s.target ≤ s.target := Nat.min_le_right _ _
        exact ih _ (by simp only; omega) (by simp only; omega) (by simp only; omega)

theorem prevLoop_ok (prev : Nat → Option Nat) (mf mc : Option (Nat → Bool))
    (hdec : ∀ p n, prev p = some n → n < p) :
    ∀ (fuel p : Nat), p + 1 ≤ fuel → ∃ r, prevLoop prev mf mc fuel (some p) = .ok r := by
  intro fuel
  induction fuel with
  | zero => intro p h; omega
  | succ f ih =>
    intro p hf
    simp only [prevLoop]
    cases hp : prev p with
    | none => exact ⟨_, rfl⟩
    | some n =>
      simp only
      by_cases h1 : optTest mf false n = true
      · rw [if_pos h1]; exact ⟨_, rfl⟩
      · rw [if_neg h1]
        by_cases h2 : optTest mc true n = true
        · rw [if_pos h2]; exact ⟨_, rfl⟩
        · rw [if_neg h2]
          exact ih n (by have := hdec p n hp; omega)

theorem scanQuote_ge (pat : List Nat) (q : Nat) : ∀ fuel i, i ≤ scanQuote pat q fuel i := by
  intro fuel
  induction fuel with
  | zero => intro i; simp [scanQuote]
  | succ f ih =>
    intro i
    simp only [scanQuote]
    split
    · have := ih (i + 1); omega
    · omega

theorem scanNumber_ge (pat : List Nat) : ∀ fuel i g, i ≤ scanNumber pat fuel i g := by
  intro fuel
  induction fuel with
  | zero => intro i g; simp [scanNumber]
  | succ f ih =>
    intro i g
    simp only [scanNumber]
    split
    · split
      · split
        · omega
        · have := ih (i + 1) true; omega
      · split
        · have := ih (i + 1) g; omega
        · omega
    · omega

/-- the outer loop of the tokenizer never needs more than `nChars − i + 1` rounds: the index only moves forward -/
theorem tokenizeLoop_ok (pat : List Nat) : ∀ (fuel i iters : Nat), 1 ≤ fuel → pat.length + 1 ≤ fuel + i →
    ∃ r, tokenizeLoop pat fuel i iters = .ok r := by
  intro fuel
  induction fuel with
  | zero => intro i iters h0; omega
  | succ f ih =>
    intro i iters _ h
    simp only [tokenizeLoop]
    by_cases hi : i < pat.length
    · rw [if_pos hi]
      by_cases hq : pat.getD i 0 = 34 ∨ pat.getD i 0 = 39
      · rw [if_pos hq]
        by_cases hj : scanQuote pat (pat.getD i 0) (pat.length + 1) (i + 1) < pat.length
        · rw [if_pos hj]
          have := scanQuote_ge pat (pat.getD i 0) (pat.length + 1) (i + 1)
          exact ih _ _ (by omega) (by omega)
        · rw [if_neg hj]; exact ⟨_, rfl⟩
      · rw [if_neg hq]
        by_cases hd : 48 ≤ pat.getD i 0 ∧ pat.getD i 0 ≤ 57
        · rw [if_pos hd]
          have := scanNumber_ge pat (pat.length + 1) i false
          exact ih _ _ (by omega) (by omega)
        · rw [if_neg hd]
          split
          · exact ih _ _ (by omega) (by omega)
          · exact ih _ _ (by omega) (by omega)
    · rw [if_neg hi]; exact ⟨_, rfl⟩

end XalanModel.C03
