import XalanModel.C03.Uri
/-! helper lemmas for the URI theorems of `Props/C03.lean` -/
namespace XalanModel.C03

theorem eraseAt_some (p : List Nat) (i c : Nat) (h : i + c ≤ p.length) :
    eraseAt p i c = some (p.take i ++ p.drop (i + c)) := by
  simp [eraseAt, h]

theorem eraseAt_length (p : List Nat) (i c : Nat) (h : i + c ≤ p.length) :
    (p.take i ++ p.drop (i + c)).length = p.length - c := by
  simp only [List.length_append, List.length_take, List.length_drop]; omega

theorem decIdx_guarded_le (i : Nat) : decIdx true i ≤ i := by
  unfold decIdx; split <;> simp <;> omega

/-- the backward scan started inside the string stays inside it: never a bad read, result not above the start -/
theorem scanBack_ok (p : List Nat) : ∀ (fuel i : Nat), i ≤ p.length → i + 1 ≤ fuel →
    ∃ j, scanBack p fuel i = .ok j ∧ j ≤ i := by
  intro fuel
  induction fuel with
  | zero => intro i _ h; omega
  | succ f ih =>
    intro i hi hf
    simp only [scanBack]
    by_cases h0 : i > 0
    · rw [if_pos h0]
      have hlt : i - 1 < p.length := by omega
      rw [List.getElem?_eq_getElem hlt]
      simp only
      by_cases hc : p[i - 1] ≠ cSlash
      · rw [if_pos hc]
        obtain ⟨j, e, hj⟩ := ih (i - 1) (by omega) (by omega)
        exact ⟨j, e, by omega⟩
      · rw [if_neg hc]; exact ⟨i, rfl, Nat.le_refl _⟩
    · rw [if_neg h0]; exact ⟨i, rfl, Nat.le_refl _⟩

theorem scanFwd_ge (p : List Nat) : ∀ fuel i, i ≤ scanFwd p fuel i := by
  intro fuel
  induction fuel with
  | zero => intro i; simp [scanFwd]
  | succ f ih =>
    intro i
    simp only [scanFwd]
    split
    · have := ih (i + 1); omega
    · omega

theorem scanFwd_le (p : List Nat) : ∀ fuel i, i ≤ p.length → scanFwd p fuel i ≤ p.length := by
  intro fuel
  induction fuel with
  | zero => intro i h; simpa [scanFwd] using h
  | succ f ih =>
    intro i h
    simp only [scanFwd]
    split
    · rename_i hc; exact ih (i + 1) (by omega)
    · exact h

/-- **bounds**: with the guarded decrements no round of the dot-segment loop reads or erases outside the path -/
theorem dotLoop_guarded_ne_memErr : ∀ (fuel : Nat) (p : List Nat) (i : Nat), dotLoop true fuel p i ≠ .memErr := by
  intro fuel
  induction fuel with
  | zero => intro p i; simp [dotLoop]
  | succ f ih =>
    intro p i
    simp only [dotLoop]
    by_cases hi : i < p.length
    · rw [if_pos hi]
      by_cases hd : p.getD i 0 = cDot
      · rw [if_pos hd]
        by_cases h1 : i < p.length - 1 ∧ p.getD (i + 1) 0 = cSlash
        · rw [if_pos h1, eraseAt_some p i 2 (by omega)]
          exact ih _ _
        · rw [if_neg h1]
          by_cases h2 : i = p.length - 1
          · rw [if_pos h2, eraseAt_some p i 1 (by omega)]
            exact ih _ _
          · rw [if_neg h2]
            by_cases h3 : i < p.length - 2 ∧ p.getD (i + 1) 0 = cDot ∧ p.getD (i + 2) 0 = cSlash
            · rw [if_pos h3]
              have hdi := decIdx_guarded_le i
              obtain ⟨j, e, hj⟩ := scanBack_ok p (p.length + 1) (decIdx true i) (by omega) (by omega)
              rw [e]
              simp only
              have hdj := decIdx_guarded_le j
              rw [eraseAt_some p (decIdx true j) (i + 2 - decIdx true j) (by omega)]
              exact ih _ _
            · rw [if_neg h3]
              by_cases h4 : i = p.length - 2 ∧ p.getD (i + 1) 0 = cDot
              · rw [if_pos h4]
                have hdi := decIdx_guarded_le i
                obtain ⟨j, e, hj⟩ := scanBack_ok p (p.length + 1) (decIdx true i) (by omega) (by omega)
                rw [e]
                simp only
                rw [eraseAt_some p j (i + 2 - j) (by omega)]
                exact ih _ _
              · rw [if_neg h4]; exact ih _ _
      · rw [if_neg hd]; exact ih _ _
    · rw [if_neg hi]; simp

/-- **termination**: every round erases at least one character or moves the index forward; measure `length · K + (K − index)` -/
theorem dotLoop_guarded_ne_outOfFuel (K : Nat) : ∀ (fuel : Nat) (p : List Nat) (i : Nat),
    p.length + 2 ≤ K → i ≤ p.length + 1 → p.length * K + (K - i) < fuel → dotLoop true fuel p i ≠ .outOfFuel := by
  intro fuel
  induction fuel with
  | zero => intro p i _ _ h; omega
  | succ f ih =>
    intro p i hK hi hf
    simp only [dotLoop]
    by_cases hlt : i < p.length
    · rw [if_pos hlt]
      -- the forward move, used by two branches
      have fwd : dotLoop true f p (scanFwd p (p.length + 1) i + 1) ≠ .outOfFuel := by
        have h1 := scanFwd_ge p (p.length + 1) i
        have h2 := scanFwd_le p (p.length + 1) i (by omega)
        exact ih p _ hK (by omega) (by omega)
      -- erasing c ≥ 1 characters and continuing at an index j ≤ the new length
      have era : ∀ (j c : Nat), 1 ≤ c → j + c ≤ p.length → j ≤ i ∨ c ≥ 2 → j ≤ p.length - c →
          (c = 1 → j = i) →
          dotLoop true f (p.take j ++ p.drop (j + c)) j ≠ .outOfFuel := by
        intro j c hc hjc _ hj hc1
        have hl := eraseAt_length p j c hjc
        apply ih
        · rw [hl]; omega
        · rw [hl]; omega
        · rw [hl]
          have hm : (p.length - c + c) * K = p.length * K := by rw [Nat.sub_add_cancel (by omega)]
          rw [Nat.add_mul] at hm
          have hcK : K ≤ c * K := Nat.le_mul_of_pos_left K (by omega)
          by_cases h1 : c = 1
          · have := hc1 h1; subst this; subst h1; omega
          · have h2K : 2 * K ≤ c * K := Nat.mul_le_mul_right K (by omega)
            omega
      by_cases hd : p.getD i 0 = cDot
      · rw [if_pos hd]
        by_cases h1 : i < p.length - 1 ∧ p.getD (i + 1) 0 = cSlash
        · rw [if_pos h1, eraseAt_some p i 2 (by omega)]
          exact era i 2 (by omega) (by omega) (Or.inl (Nat.le_refl _)) (by omega) (by omega)
        · rw [if_neg h1]
          by_cases h2 : i = p.length - 1
          · rw [if_pos h2, eraseAt_some p i 1 (by omega)]
            exact era i 1 (by omega) (by omega) (Or.inl (Nat.le_refl _)) (by omega) (by intro _; rfl)
          · rw [if_neg h2]
            by_cases h3 : i < p.length - 2 ∧ p.getD (i + 1) 0 = cDot ∧ p.getD (i + 2) 0 = cSlash
            · rw [if_pos h3]
              have hdi := decIdx_guarded_le i
              obtain ⟨j, e, hj⟩ := scanBack_ok p (p.length + 1) (decIdx true i) (by omega) (by omega)
              rw [e]
              simp only
              have hdj := decIdx_guarded_le j
              rw [eraseAt_some p (decIdx true j) (i + 2 - decIdx true j) (by omega)]
              exact era (decIdx true j) (i + 2 - decIdx true j) (by omega) (by omega) (Or.inr (by omega)) (by omega) (by omega)
            · rw [if_neg h3]
              by_cases h4 : i = p.length - 2 ∧ p.getD (i + 1) 0 = cDot
              · rw [if_pos h4]
                have hdi := decIdx_guarded_le i
                obtain ⟨j, e, hj⟩ := scanBack_ok p (p.length + 1) (decIdx true i) (by omega) (by omega)
                rw [e]
                simp only
                rw [eraseAt_some p j (i + 2 - j) (by omega)]
                exact era j (i + 2 - j) (by omega) (by omega) (Or.inr (by omega)) (by omega) (by omega)
              · rw [if_neg h4]; exact fwd
      · rw [if_neg hd]; exact fwd
    · rw [if_neg hlt]; simp

/-! ### parse: every read is inside the buffer -/

/-- the forward scans read below `len` only, stop, and stay at or below `len` when started there -/
theorem scanTo_ok (stops buf : List Nat) (len : Nat) (hlen : len ≤ buf.length) : ∀ (fuel i : Nat), len - i + 1 ≤ fuel →
    ∃ j, scanTo stops buf len fuel i = .ok j ∧ i ≤ j ∧ (i ≤ len → j ≤ len) := by
  intro fuel
  induction fuel with
  | zero => intro i h; omega
  | succ f ih =>
    intro i hf
    simp only [scanTo]
    by_cases hi : i < len
    · rw [if_pos hi]
      have hlt : i < buf.length := by omega
      rw [List.getElem?_eq_getElem hlt]
      simp only
      by_cases hc : stops.contains buf[i] = true
      · rw [if_pos hc]; exact ⟨i, rfl, Nat.le_refl _, fun h => h⟩
      · rw [if_neg hc]
        obtain ⟨j, e, h1, h2⟩ := ih (i + 1) (by omega)
        exact ⟨j, e, by omega, fun _ => h2 (by omega)⟩
    · rw [if_neg hi]; exact ⟨i, rfl, Nat.le_refl _, fun h => h⟩

theorem slice_ok (buf : List Nat) (a n : Nat) (h : a + n ≤ buf.length) : slice buf a n = .ok ((buf.drop a).take n) := by
  simp [slice, h]

/-- what the callers must provide when the two tests carry no bound of their own: a terminating 0 behind the characters -/
def BufferFits (bounded : Bool) (buf : List Nat) (len : Nat) : Prop :=
  len ≤ buf.length ∧ (bounded = false → buf[len]? = some 0)

theorem pScheme_ok (bounded : Bool) (buf : List Nat) (len : Nat) (h : BufferFits bounded buf len) :
    ∃ s i, pScheme bounded buf len = .ok (s, i) ∧ i ≤ len := by
  obtain ⟨hlen, hterm⟩ := h
  obtain ⟨j, e, _, hj⟩ := scanTo_ok [cColon, cSlash, cQuest, cHash] buf len hlen (len + 1) 0 (by omega)
  have hj' : j ≤ len := hj (Nat.zero_le _)
  simp only [pScheme, e]
  by_cases hc : j > 0 ∧ (bounded = false ∨ j < len)
  · rw [if_pos hc]
    by_cases hjl : j < len
    · have hlt : j < buf.length := by omega
      rw [List.getElem?_eq_getElem hlt]
      simp only
      by_cases hcol : buf[j] = cColon
      · rw [if_pos hcol, slice_ok buf 0 j (by omega)]
        exact ⟨_, _, rfl, by omega⟩
      · rw [if_neg hcol]; exact ⟨_, _, rfl, Nat.zero_le _⟩
    · have hje : j = len := by omega
      have hb : bounded = false := by
        rcases hc.2 with hb | hb
        · exact hb
        · omega
      rw [hje, hterm hb]
      simp only
      rw [if_neg (by decide)]
      exact ⟨_, _, rfl, Nat.zero_le _⟩
  · rw [if_neg hc]; exact ⟨_, _, rfl, Nat.zero_le _⟩

theorem pAuthority_ok (bounded : Bool) (buf : List Nat) (len i : Nat) (h : BufferFits bounded buf len) (hi : i ≤ len) :
    ∃ a k, pAuthority bounded buf len i = .ok (a, k) ∧ k ≤ len := by
  obtain ⟨hlen, hterm⟩ := h
  simp only [pAuthority]
  by_cases hc : authCond bounded len i = true
  · rw [if_pos hc]
    by_cases h0 : len = 0
    · -- only the unbounded form lets an empty string through: it reads the terminator, which is no '/'
      have hb : bounded = false := by
        cases bounded with
        | false => rfl
        | true => simp [authCond, h0] at hc
      have hi0 : i = 0 := by omega
      have := hterm hb
      rw [h0] at this
      rw [hi0, this]
      simp only
      rw [if_neg (by decide)]
      exact ⟨_, _, rfl, by omega⟩
    · have hi2 : i + 1 < len := by
        cases bounded with
        | false => simp [authCond, h0] at hc; omega
        | true => simpa [authCond] using hc
      have hlt0 : i < buf.length := by omega
      have hlt1 : i + 1 < buf.length := by omega
      rw [List.getElem?_eq_getElem hlt0]
      simp only
      by_cases hs0 : buf[i] = cSlash
      · rw [if_pos hs0, List.getElem?_eq_getElem hlt1]
        simp only
        by_cases hs1 : buf[i + 1] = cSlash
        · rw [if_pos hs1]
          obtain ⟨k, e, hk1, hk2⟩ := scanTo_ok [cSlash, cQuest, cHash] buf len hlen (len + 1) (i + 2) (by omega)
          have hk : k ≤ len := hk2 (by omega)
          rw [e]
          simp only
          rw [slice_ok buf (i + 2) (k - (i + 2)) (by omega)]
          exact ⟨_, _, rfl, hk⟩
        · rw [if_neg hs1]; exact ⟨_, _, rfl, hi⟩
      · rw [if_neg hs0]; exact ⟨_, _, rfl, hi⟩
  · rw [if_neg hc]; exact ⟨_, _, rfl, hi⟩

theorem pPath_ok (buf : List Nat) (len i : Nat) (hlen : len ≤ buf.length) (hi : i ≤ len) :
    ∃ p k, pPath buf len i = .ok (p, k) ∧ k ≤ len := by
  obtain ⟨k, e, hk1, hk2⟩ := scanTo_ok [cQuest, cHash] buf len hlen (len + 1) i (by omega)
  have hk : k ≤ len := hk2 hi
  simp only [pPath, e]
  rw [slice_ok buf i (k - i) (by omega)]
  exact ⟨_, _, rfl, hk⟩

theorem pQuery_ok (buf : List Nat) (len i : Nat) (hlen : len ≤ buf.length) (hi : i ≤ len) :
    ∃ q k, pQuery buf len i = .ok (q, k) ∧ k ≤ len := by
  simp only [pQuery]
  by_cases hil : i < len
  · rw [if_pos hil]
    have hlt : i < buf.length := by omega
    rw [List.getElem?_eq_getElem hlt]
    simp only
    by_cases hq : buf[i] = cQuest
    · rw [if_pos hq]
      obtain ⟨k, e, hk1, hk2⟩ := scanTo_ok [cHash] buf len hlen (len + 1) (i + 1) (by omega)
      have hk : k ≤ len := hk2 (by omega)
      rw [e]
      simp only
      rw [slice_ok buf (i + 1) (k - (i + 1)) (by omega)]
      exact ⟨_, _, rfl, hk⟩
    · rw [if_neg hq]; exact ⟨_, _, rfl, hi⟩
  · rw [if_neg hil]; exact ⟨_, _, rfl, hi⟩

theorem pFragment_ok (buf : List Nat) (len i : Nat) (hlen : len ≤ buf.length) :
    ∃ f, pFragment buf len i = .ok f := by
  simp only [pFragment]
  by_cases hil : i < len
  · rw [if_pos hil]
    have hlt : i < buf.length := by omega
    rw [List.getElem?_eq_getElem hlt]
    simp only
    by_cases hq : buf[i] = cHash
    · rw [if_pos hq, slice_ok buf (i + 1) (len - (i + 1)) (by omega)]
      exact ⟨_, rfl⟩
    · rw [if_neg hq]; exact ⟨_, rfl⟩
  · rw [if_neg hil]; exact ⟨_, rfl⟩

/-- **parse is total and in bounds** on a buffer that fits -/
theorem parseBuf_ok (bounded : Bool) (buf : List Nat) (len : Nat) (h : BufferFits bounded buf len) :
    ∃ u, parseBuf bounded buf len = .ok u := by
  obtain ⟨s, i1, e1, h1⟩ := pScheme_ok bounded buf len h
  obtain ⟨a, i2, e2, h2⟩ := pAuthority_ok bounded buf len i1 h h1
  obtain ⟨p, i3, e3, h3⟩ := pPath_ok buf len i2 h.1 h2
  obtain ⟨q, i4, e4, h4⟩ := pQuery_ok buf len i3 h.1 h3
  obtain ⟨f, e5⟩ := pFragment_ok buf len i4 h.1
  simp only [parseBuf, e1, e2, e3, e4, e5]
  exact ⟨_, rfl⟩

/-- an exactly sized buffer fits the bounded form, a terminated one fits both -/
theorem bufferOf_fits (bounded : Bool) (s : List Nat) : BufferFits bounded (bufferOf (!bounded) s) s.length := by
  cases bounded with
  | true => exact ⟨by simp [bufferOf], by intro h; cases h⟩
  | false => exact ⟨by simp [bufferOf], by intro _; simp [bufferOf]⟩

theorem bufferOf_terminated_fits (bounded : Bool) (s : List Nat) : BufferFits bounded (bufferOf true s) s.length :=
  ⟨by simp [bufferOf], by intro _; simp [bufferOf]⟩

end XalanModel.C03
