import XalanModel.C03.Buffers
/-!
# C03 — XalanParsedURI: parse, resolve (RFC 2396 §5.2 as coded), make

Strings are lists of code units; every indexed read of the path goes through `List.get?`-style checked access and every
`erase(index, count)` through `eraseAt` — outside the string = `Res.memErr`.  `guarded` says whether the three decrements of the
"../" handling are written `if (index > 0) --index;` (regenerated flag) or as a bare `--index` on the unsigned index.  Core Lean only.
-/
namespace XalanModel.C03

def cSlash : Nat := 47
def cDot : Nat := 46
def cColon : Nat := 58
def cQuest : Nat := 63
def cHash : Nat := 35

structure Uri where
  scheme : Option (List Nat)
  authority : Option (List Nat)
  path : List Nat
  query : Option (List Nat)
  fragment : Option (List Nat)
deriving Repr, DecidableEq

/-- `^(([^:/?#]+):)?(//([^/?#]*))?([^?#]*)(\?([^#]*))?(#(.*))?` as the code scans it -/
def parseUri (s : List Nat) : Uri :=
  let isDelim (c : Nat) : Bool := c == cColon || c == cSlash || c == cQuest || c == cHash
  let sch := s.takeWhile (fun c => !isDelim c)
  let (scheme, rest) :=
    if sch.length > 0 ∧ (s.drop sch.length).head? = some cColon then (some sch, s.drop (sch.length + 1)) else (none, s)
  let (authority, rest2) :=
    if rest.take 2 = [cSlash, cSlash] then
      let a := (rest.drop 2).takeWhile (fun c => !(c == cSlash || c == cQuest || c == cHash))
      ((if a.isEmpty then none else some a), rest.drop (2 + a.length))
    else (none, rest)
  let path := rest2.takeWhile (fun c => !(c == cQuest || c == cHash))
  let rest3 := rest2.drop path.length
  let (query, rest4) :=
    if rest3.head? = some cQuest then
      let q := (rest3.drop 1).takeWhile (fun c => !(c == cHash))
      (some q, rest3.drop (1 + q.length))
    else (none, rest3)
  let fragment := if rest4.head? = some cHash then some (rest4.drop 1) else none
  { scheme := scheme, authority := authority, path := path, query := query, fragment := fragment }

/-! ### `parse(uriString, uriStringLen)` on a buffer: which elements are read

`buf` is the memory behind `uriString` (it may be longer than `len`: a `XalanDOMString::c_str()` carries a terminating 0), every read
goes through a checked access, outside `buf` = `Res.memErr`.  `bounded` says whether the two tests that are not inside an
`index < uriStringLen && …` chain are written with their own bound (`index < uriStringLen && uriString[index] == ':'` after the scheme
scan, `index + 1 < uriStringLen` before the "//" test) or as `uriString[index] == ':'` and `index < uriStringLen - 1` (unsigned). -/

/-- `while (index < len && buf[index] ∉ stops) ++index;` -/
def scanTo (stops buf : List Nat) (len : Nat) : Nat → Nat → Res Nat
  | 0, _ => .outOfFuel
  | fuel + 1, i =>
    if i < len then
      match buf[i]? with
      | none => .memErr
      | some c => if stops.contains c then .ok i else scanTo stops buf len fuel (i + 1)
    else .ok i

/-- `XalanDOMString(uriString + a, mm, n)` -/
def slice (buf : List Nat) (a n : Nat) : Res (List Nat) :=
  if a + n ≤ buf.length then .ok ((buf.drop a).take n) else .memErr

def pScheme (bounded : Bool) (buf : List Nat) (len : Nat) : Res (Option (List Nat) × Nat) :=
  match scanTo [cColon, cSlash, cQuest, cHash] buf len (len + 1) 0 with
  | .ok j =>
    if j > 0 ∧ (bounded = false ∨ j < len) then
      match buf[j]? with
      | none => .memErr
      | some c =>
        if c = cColon then
          match slice buf 0 j with
          | .ok s => .ok (some s, j + 1)
          | .memErr => .memErr
          | .outOfFuel => .outOfFuel
        else .ok (none, 0)
    else .ok (none, 0)
  | .memErr => .memErr
  | .outOfFuel => .outOfFuel

/-- the test in front of the "//" check: `index + 1 < len`, or `index < len - 1` on the unsigned length -/
def authCond (bounded : Bool) (len i : Nat) : Bool :=
  if bounded then decide (i + 1 < len) else decide (i < (if len = 0 then two64 - 1 else len - 1))

def pAuthority (bounded : Bool) (buf : List Nat) (len i : Nat) : Res (Option (List Nat) × Nat) :=
  if authCond bounded len i then
    match buf[i]? with
    | none => .memErr
    | some c0 =>
      if c0 = cSlash then
        match buf[i + 1]? with
        | none => .memErr
        | some c1 =>
          if c1 = cSlash then
            match scanTo [cSlash, cQuest, cHash] buf len (len + 1) (i + 2) with
            | .ok k =>
              (match slice buf (i + 2) (k - (i + 2)) with
               | .ok a => .ok ((if k = i + 2 then none else some a), k)
               | .memErr => .memErr
               | .outOfFuel => .outOfFuel)
            | .memErr => .memErr
            | .outOfFuel => .outOfFuel
          else .ok (none, i)
      else .ok (none, i)
  else .ok (none, i)

def pPath (buf : List Nat) (len i : Nat) : Res (List Nat × Nat) :=
  match scanTo [cQuest, cHash] buf len (len + 1) i with
  | .ok k =>
    (match slice buf i (k - i) with
     | .ok p => .ok (p, k)
     | .memErr => .memErr
     | .outOfFuel => .outOfFuel)
  | .memErr => .memErr
  | .outOfFuel => .outOfFuel

def pQuery (buf : List Nat) (len i : Nat) : Res (Option (List Nat) × Nat) :=
  if i < len then
    match buf[i]? with
    | none => .memErr
    | some c =>
      if c = cQuest then
        match scanTo [cHash] buf len (len + 1) (i + 1) with
        | .ok k =>
          (match slice buf (i + 1) (k - (i + 1)) with
           | .ok q => .ok (some q, k)
           | .memErr => .memErr
           | .outOfFuel => .outOfFuel)
        | .memErr => .memErr
        | .outOfFuel => .outOfFuel
      else .ok (none, i)
  else .ok (none, i)

def pFragment (buf : List Nat) (len i : Nat) : Res (Option (List Nat)) :=
  if i < len then
    match buf[i]? with
    | none => .memErr
    | some c =>
      if c = cHash then
        match slice buf (i + 1) (len - (i + 1)) with
        | .ok f => .ok (some f)
        | .memErr => .memErr
        | .outOfFuel => .outOfFuel
      else .ok none
  else .ok none

/-- `XalanParsedURI::parse(uriString, uriStringLen)` with every read checked against the buffer -/
def parseBuf (bounded : Bool) (buf : List Nat) (len : Nat) : Res Uri :=
  match pScheme bounded buf len with
  | .ok (scheme, i1) =>
    (match pAuthority bounded buf len i1 with
     | .ok (authority, i2) =>
       (match pPath buf len i2 with
        | .ok (path, i3) =>
          (match pQuery buf len i3 with
           | .ok (query, i4) =>
             (match pFragment buf len i4 with
              | .ok fragment => .ok { scheme := scheme, authority := authority, path := path, query := query, fragment := fragment }
              | .memErr => .memErr
              | .outOfFuel => .outOfFuel)
           | .memErr => .memErr
           | .outOfFuel => .outOfFuel)
        | .memErr => .memErr
        | .outOfFuel => .outOfFuel)
     | .memErr => .memErr
     | .outOfFuel => .outOfFuel)
  | .memErr => .memErr
  | .outOfFuel => .outOfFuel

/-- the memory behind a string handed to `parse`: exactly its characters, or (a `c_str()`) the characters and a terminating 0 -/
def bufferOf (terminated : Bool) (s : List Nat) : List Nat := if terminated then s ++ [0] else s

def makeUri (u : Uri) : List Nat :=
  (match u.scheme with | some s => s ++ [cColon] | none => []) ++
  (match u.authority with | some a => [cSlash, cSlash] ++ a | none => []) ++
  u.path ++
  (match u.query with | some q => cQuest :: q | none => []) ++
  (match u.fragment with | some f => cHash :: f | none => [])

/-- `m_path.erase(index, count)` -/
def eraseAt (p : List Nat) (i c : Nat) : Option (List Nat) :=
  if i + c ≤ p.length then some (p.take i ++ p.drop (i + c)) else none

/-- `if (index > 0) --index;`  or, unguarded, `--index` on the unsigned 64-bit index -/
def decIdx (guarded : Bool) (i : Nat) : Nat :=
  if i > 0 then i - 1 else if guarded then 0 else two64 - 1

/-- `for ( ; index > 0 && m_path[index-1] != '/'; index--) ;` -/
def scanBack (p : List Nat) : Nat → Nat → Res Nat
  | 0, _ => .outOfFuel
  | fuel + 1, i =>
    if i > 0 then
      match p[i - 1]? with
      | none => .memErr
      | some c => if c ≠ cSlash then scanBack p fuel (i - 1) else .ok i
    else .ok i

/-- `for ( ; index < m_path.length() && m_path[index] != '/'; ++index) {}` -/
def scanFwd (p : List Nat) : Nat → Nat → Nat
  | 0, i => i
  | fuel + 1, i => if i < p.length ∧ p.getD i 0 ≠ cSlash then scanFwd p fuel (i + 1) else i

/-- step 6 c)–g): the loop that removes "./", "<segment>/../" and a trailing "." / ".." -/
def dotLoop (guarded : Bool) : Nat → List Nat → Nat → Res (List Nat)
  | 0, _, _ => .outOfFuel
  | fuel + 1, p, i =>
    if i < p.length then
      if p.getD i 0 = cDot then
        if i < p.length - 1 ∧ p.getD (i + 1) 0 = cSlash then                       -- "./"
          match eraseAt p i 2 with
          | some p' => dotLoop guarded fuel p' i
          | none => .memErr
        else if i = p.length - 1 then                                              -- trailing "."
          match eraseAt p i 1 with
          | some p' => dotLoop guarded fuel p' i
          | none => .memErr
        else if i < p.length - 2 ∧ p.getD (i + 1) 0 = cDot ∧ p.getD (i + 2) 0 = cSlash then   -- "../"
          match scanBack p (p.length + 1) (decIdx guarded i) with
          | .ok j =>
            let j' := decIdx guarded j
            (match eraseAt p j' (i + 2 - j') with
             | some p' => dotLoop guarded fuel p' j'
             | none => .memErr)
          | .memErr => .memErr
          | .outOfFuel => .outOfFuel
        else if i = p.length - 2 ∧ p.getD (i + 1) 0 = cDot then                    -- trailing ".."
          match scanBack p (p.length + 1) (decIdx guarded i) with
          | .ok j =>
            (match eraseAt p j (i + 2 - j) with
             | some p' => dotLoop guarded fuel p' j
             | none => .memErr)
          | .memErr => .memErr
          | .outOfFuel => .outOfFuel
        else dotLoop guarded fuel p (scanFwd p (p.length + 1) i + 1)
      else dotLoop guarded fuel p (scanFwd p (p.length + 1) i + 1)
    else .ok p

/-- fuel that is always enough: every round erases something or moves the index forward -/
def dotFuel (n : Nat) : Nat := (n + 2) * (n + 2)

def lower (c : Nat) : Nat := if 65 ≤ c ∧ c ≤ 90 then c + 32 else c

/-- `XalanParsedURI::resolve(base)` -/
def resolveUri (guarded : Bool) (r base : Uri) : Res Uri :=
  if base.scheme.isNone then .ok r
  else if r.scheme.isNone ∧ r.authority.isNone ∧ r.query.isNone ∧ r.path.isEmpty then
    .ok { scheme := base.scheme, authority := base.authority, path := base.path, query := base.query,
          -- as written: `m_defined = base.m_defined` comes first, so the test `!(m_defined & d_fragment)` looks at the BASE's
          -- flag: without a base fragment the reference's own fragment is dropped, with one the reference's text (or nothing) is kept
          fragment := if base.fragment.isSome then some (r.fragment.getD []) else none }
  else if r.scheme.isNone ∨ (r.authority.isNone ∧ (r.scheme.map (·.map lower)) = (base.scheme.map (·.map lower))) then
    let r1 := { r with scheme := base.scheme }
    if r1.authority.isNone then
      let r2 := { r1 with authority := base.authority }
      if r2.path.head? = some cSlash then .ok r2
      else
        -- a) everything of the base path up to its last '/'   b) prepend it
        let keep := base.path.length - (base.path.reverse.takeWhile (· ≠ cSlash)).length
        let merged := base.path.take keep ++ r2.path
        match dotLoop guarded (dotFuel merged.length) merged 0 with
        | .ok p => .ok { r2 with path := p }
        | .memErr => .memErr
        | .outOfFuel => .outOfFuel
    else .ok r1
  else .ok r

/-- the static helper `XalanParsedURI::resolve(relative, base, result)`; `terminated`: the callers' buffers carry a terminating 0 -/
def resolveStrings (guarded bounded terminated : Bool) (rel base : List Nat) : Res (List Nat) :=
  match parseBuf bounded (bufferOf terminated rel) rel.length with
  | .ok r =>
    (match parseBuf bounded (bufferOf terminated base) base.length with
     | .ok b =>
       (match resolveUri guarded r b with
        | .ok u => .ok (makeUri u)
        | .memErr => .memErr
        | .outOfFuel => .outOfFuel)
     | .memErr => .memErr
     | .outOfFuel => .outOfFuel)
  | .memErr => .memErr
  | .outOfFuel => .outOfFuel

end XalanModel.C03
