import XalanModel.C03.Buffers
/-!
# C03 — three more loops, mirrored with fuel and checked stores

* `Stylesheet::findTemplate` (Stylesheet.cpp): the `conflictsArray[N]` / `conflictsVector(m_patternCount)` bookkeeping;
* `XalanOutputStream::transcode` (XalanOutputStream.cpp): the grow-and-retry loop around the external transcoder;
* `ElemNumber::getPreviousNode`, level="any" (ElemNumber.cpp): the backwards document-order walk.
External calls (pattern matching, the transcoder, DOM navigation) are parameters; what is assumed about them is stated in the
theorems' hypotheses.  Core Lean only.
-/
namespace XalanModel.C03
open XalanModel.Generated.C03_Buffers

/-! ## Stylesheet::findTemplate — conflicts bookkeeping -/

/-- what the body of the `do … while` decides for one table entry -/
inductive ConfAct where
  | skip      -- other mode / empty pattern / alternative of the best rule / no match / lower priority
  | better    -- `0 == bestMatchedPattern || priorityOfRule > priorityOfBestMatched`
  | tie       -- `priorityOfRule == priorityOfBestMatched`
deriving Repr, DecidableEq

structure ConfSt where
  best : Option Nat          -- bestMatchedPattern (entries are identified by their position in the table)
  conf : List Nat            -- conflicts[0 .. nConflicts)
deriving Repr, DecidableEq

/-- capacity of the storage `conflicts` points to -/
def conflictsCapacity (patternCount : Nat) : Nat :=
  if patternCount > conflictsArraySize then patternCount else conflictsArraySize

/-- `addObjectIfNotFound(best, conflicts, nConflicts)` : a checked store at index `nConflicts` when not found -/
def addIfNotFound (cap : Nat) (c : List Nat) (b : Nat) : Option (List Nat) :=
  if b ∈ c then some c else if c.length < cap then some (c ++ [b]) else none

/-- one iteration; `none` = a store outside the array / vector -/
def confStep (cap : Nat) (s : ConfSt) (e : Nat) : ConfAct → Option ConfSt
  | .skip => some s
  | .better => some { best := some e, conf := [] }                    -- nConflicts = 0
  | .tie =>
    match s.best with
    | none => some { best := some e, conf := [] }                     -- `0 == bestMatchedPattern` takes the first branch
    | some b =>
      match addIfNotFound cap s.conf b with
      | none => none
      | some c1 => if c1.length < cap then some { best := some e, conf := c1 ++ [e] } else none   -- conflicts[nConflicts++] = matchPat

/-- the whole loop over the table entries `k, k+1, …` with the decisions `acts` -/
def confRun (cap : Nat) : ConfSt → Nat → List ConfAct → Option ConfSt
  | s, _, [] => some s
  | s, k, a :: as => (confStep cap s k a).bind fun s' => confRun cap s' (k + 1) as

/-! ## XalanOutputStream::transcode — grow and retry -/

structure TrSt where
  eaten : Nat          -- theTotalBytesEaten
  remaining : Nat      -- theRemainingBufferLength
  filled : Nat         -- theTotalBytesFilled
  target : Nat         -- theTargetSize
  dest : Nat           -- theDestinationSize (the vector has dest + 1 bytes)
deriving Repr, DecidableEq

/-- one call of the external transcoder: (source units eaten, target bytes written); the model clamps them to what the
    interface allows (`≤ remaining`, `≤ target`) -/
abbrev Transcoder := TrSt → Nat × Nat

/-- the `do { … } while(fDone == false)`; `guard` = the no-progress test is present (regenerated flag).  A write that would
    leave the destination vector is `memErr`. -/
def transcodeLoop (len : Nat) (guard : Bool) (tr : Transcoder) : Nat → TrSt → Res TrSt
  | 0, _ => .outOfFuel
  | fuel + 1, s =>
    if s.filled + s.target ≤ s.dest then            -- the transcoder may write target bytes at offset filled
      let se := min (tr s).1 s.remaining
      let te := min (tr s).2 s.target
      let s1 : TrSt := { s with eaten := s.eaten + se, filled := s.filled + te }
      if s1.eaten = len then .ok s1
      else if guard && se == 0 && te == 0 then .ok s1
      else transcodeLoop len guard tr fuel
        { s1 with remaining := s.remaining - se, target := s.dest, dest := s.dest * 2 }
    else .memErr

def transcodeInit (len : Nat) : TrSt :=
  { eaten := 0, remaining := len, filled := 0, target := len * 4, dest := len * 4 }

/-! ## ElemNumber::getPreviousNode (level="any") -/

/-- nodes are numbered in document order; `prev p` = previous sibling's deepest last descendant, else the parent (`none` above
    the root); `matchFrom` / `matchCount` = `getMatchScore(...) != eMatchScoreNone` of the optional patterns.
    Evaluating a pattern on a null node is the model's `memErr` (DESIGN §6 item 9). -/
def optTest (o : Option (Nat → Bool)) (dflt : Bool) (n : Nat) : Bool :=
  match o with
  | some f => f n
  | none => dflt

def prevLoop (prev : Nat → Option Nat) (matchFrom matchCount : Option (Nat → Bool)) :
    Nat → Option Nat → Res (Option Nat)
  | 0, _ => .outOfFuel
  | _ + 1, none => .ok none
  | fuel + 1, some p =>
    match prev p with
    | none => .ok none                          -- `next == 0`: the from test is skipped (null check), pos = 0 ends the loop
    | some n =>
      if optTest matchFrom false n then .ok none              -- `0 != fromMatchPattern && matches`: return 0
      else if optTest matchCount true n then .ok (some n)     -- `0 == countMatchPattern || matches`
      else prevLoop prev matchFrom matchCount fuel (some n)

/-! ## double → integer conversions (XPath::predicates numeric shortcut, ElemNumber value) -/

/-- `I(x)` for an unsigned 64-bit `I` is defined iff the truncated value is representable -/
def castDefined (x : DblAbs) : Bool := (!x.neg || x.ip = 0) && x.ip < 2 ^ 64

/-- what `DblAbs` values are doubles: a non-integer double is below 2^53, every finite double is at most `maxDouble` -/
def IsDouble (x : DblAbs) : Prop := (x.isInt = false → x.ip < 2 ^ 53) ∧ x.ip ≤ maxDouble

/-- `x > double(len)` for a list length (`len < 2^53` lengths are exact) -/
def gtLen (x : DblAbs) (len : Nat) : Bool := !x.neg && (x.ip > len || (x.ip = len && !x.isInt))

/-- operands of the conversions `size_type(theIndex)` that the numeric-literal predicate evaluates, in order;
    `guarded` = the comparison with the length is done on doubles first (regenerated flag) -/
def predicateCastOperands (guarded : Bool) (x : DblAbs) (len : Nat) : List DblAbs :=
  if x.neg then []                                   -- theIndex <= 0.0
  else if guarded then (if gtLen x len then [] else [x])
  else [x]                                           -- `size_type(theIndex) > theLength` converts first

/-- operand of `CountType(round(theValue))` in ElemNumber (reached for finite values ≥ 0.5); `roundUp` = round() went up -/
def numberCastOperands (guarded : Bool) (x : DblAbs) (roundUp : Bool) : List DblAbs :=
  if x.neg then []                                   -- lessThan(theValue, 0.5)
  else if guarded && x.ip ≥ 2 ^ 64 then []           -- theValue >= double(numeric_limits<CountType>::max())
  else [⟨false, x.ip + (if roundUp && !x.isInt then 1 else 0), true⟩]

/-! ## XPathProcessorImpl::tokenize — control skeleton -/

/-- the inner scan `for(++i; i < nChars && (c = pat[i]) != quote; ++i);` started at `i` (already incremented): the index of the
    closing quote, or `nChars` -/
def scanQuote (pat : List Nat) (q : Nat) : Nat → Nat → Nat
  | 0, i => i
  | fuel + 1, i => if i < pat.length ∧ pat.getD i 0 ≠ q then scanQuote pat q fuel (i + 1) else i

/-- the number scan `while(i < nChars - 1) { ++i; … }`: a second full stop or a non-digit undoes the `++i` of its round
    (`--i; break;`).  Returns the index of the last character of the number. -/
def scanNumber (pat : List Nat) : Nat → Nat → Bool → Nat
  | 0, i, _ => i
  | fuel + 1, i, gotStop =>
    if i + 1 < pat.length then
      let c := pat.getD (i + 1) 0
      if c = 46 then (if gotStop then i else scanNumber pat fuel (i + 1) true)
      else if 48 ≤ c ∧ c ≤ 57 then scanNumber pat fuel (i + 1) gotStop
      else i
    else i

/-- the outer `for(i = 0; i < nChars; i++)`: a quote character (34 or 39) runs the inner scan and either finds the closing
    quote or reports `UnterminatedStringLiteral` (`none`); a digit runs the number scan (in the code only when no name is being
    collected — otherwise it is a single step, which moves forward as well); every other character is one step.  Returns the
    number of iterations of the outer loop. -/
def tokenizeLoop (pat : List Nat) : Nat → Nat → Nat → Res (Option Nat)
  | 0, _, _ => .outOfFuel
  | fuel + 1, i, iters =>
    if i < pat.length then
      let c := pat.getD i 0
      if c = 34 ∨ c = 39 then
        let j := scanQuote pat c (pat.length + 1) (i + 1)
        if j < pat.length then tokenizeLoop pat fuel (j + 1) (iters + 1)     -- closing quote at j; `i++` of the for
        else .ok none                                                         -- error(UnterminatedStringLiteral)
      else if 48 ≤ c ∧ c ≤ 57 then
        tokenizeLoop pat fuel (scanNumber pat (pat.length + 1) i false + 1) (iters + 1)
      else if (c = 33 ∨ c = 60 ∨ c = 62) ∧ i + 1 < pat.length ∧ pat.getD (i + 1) 0 = 61 then
        tokenizeLoop pat fuel (i + 2) (iters + 1)          -- "!=", "<=", ">=": `i = theEnd - 1` with theEnd = i + 2
      else tokenizeLoop pat fuel (i + 1) (iters + 1)
    else .ok (some iters)

end XalanModel.C03
