import XalanModel.Generated.C03_Buffers
/-!
# C03 — fixed-size conversion buffers, mirrored with checked stores

Each function below follows the C++ statement by statement; every array store goes through `store`, which
fails (`none` → `Res.memErr`) when the index is outside the declared array.  Sizes, start positions, tables
and guard comparisons come from `Generated/C03_Buffers.lean` (re-read from the working tree on every run).
Loops take fuel; running out of fuel is the model's rendering of "does not terminate".

Core Lean only (imported by the driver `xm_c03`).
-/
namespace XalanModel.C03
open XalanModel.Generated.C03_Buffers

inductive Res (α : Type) where
  | ok (a : α)
  | memErr        -- a store/read outside the declared array
  | outOfFuel     -- the loop did not stop within its fuel
deriving Repr, DecidableEq

def two64 : Nat := 2 ^ 64

/-- checked `buf[i] = v` -/
def store (buf : List Nat) (i v : Nat) : Option (List Nat) :=
  if i < buf.length then some (buf.set i v) else none

/-- `x--` on an unsigned 64-bit index -/
def decWrap (x : Nat) : Nat := if x = 0 then two64 - 1 else x - 1

/-! ## ElemNumber::int2alphaCount (ElemNumber.cpp) -/

structure AlphaSt where
  val : Nat
  correction : Nat
  lookupIndex : Nat
  charPos : Nat
  buf : List Nat
deriving Repr, DecidableEq

/-- `correction = ((lookupIndex == 0) || (correction != 0 && lookupIndex == radix - 1)) ? (radix - 1) : 0` -/
def alphaCorrection (radix : Nat) (s : AlphaSt) : Nat :=
  if s.lookupIndex = 0 ∨ (s.correction ≠ 0 ∧ s.lookupIndex = radix - 1) then radix - 1 else 0

/-- `lookupIndex = (val + correction) % radix` in 64-bit unsigned arithmetic -/
def alphaLookup (radix : Nat) (s : AlphaSt) : Nat :=
  ((s.val + alphaCorrection radix s) % two64) % radix

/-- the `do { … } while (val > 0);` loop -/
def alphaLoop (radix : Nat) (table : List Nat) : Nat → AlphaSt → Res AlphaSt
  | 0, _ => .outOfFuel
  | fuel + 1, s =>
    if alphaLookup radix s = 0 ∧ s.val / radix = 0 then
      .ok { s with val := s.val / radix, correction := alphaCorrection radix s,
                   lookupIndex := alphaLookup radix s }                                   -- break
    else
      match store s.buf s.charPos (table.getD (alphaLookup radix s) 0) with
      | none => .memErr
      | some buf =>
        if s.val / radix > 0 then
          alphaLoop radix table fuel
            { val := s.val / radix, correction := alphaCorrection radix s, lookupIndex := alphaLookup radix s,
              charPos := decWrap s.charPos, buf := buf }
        else
          .ok { val := s.val / radix, correction := alphaCorrection radix s, lookupIndex := alphaLookup radix s,
                charPos := decWrap s.charPos, buf := buf }

def alphaInit (val : Nat) : AlphaSt :=
  { val := val, correction := 0, lookupIndex := 1, charPos := alphaStartPos,
    buf := List.replicate alphaBufSize 0 }

/-- `theResult.assign(buf + charPos + 1, buflen - charPos - 1)` -/
def alphaResult (s : AlphaSt) : List Nat :=
  (s.buf.drop (s.charPos + 1)).take (alphaBufLen - s.charPos - 1)

/-- `table` is the table without its terminating 0, `radix = length` -/
def int2alphaCount (val : Nat) (table : List Nat) : Res (List Nat) :=
  match alphaLoop table.length table (val + 1) (alphaInit val) with
  | .ok s => .ok (alphaResult s)
  | .memErr => .memErr
  | .outOfFuel => .outOfFuel

/-! ## ScalarToDecimalString (DOMStringHelper.cpp) -/

/-- `do { *--theOutput = digit; theValue /= 10; } while (theValue != 0);` — `pos` is the index `theOutput`
    points at inside `theBuffer` -/
def decLoop : Nat → Nat → Nat → List Nat → Res (Nat × List Nat)
  | 0, _, _, _ => .outOfFuel
  | fuel + 1, v, pos, buf =>
    if pos = 0 then .memErr            -- `--theOutput` would leave the array
    else match store buf (pos - 1) (48 + v % 10) with
      | none => .memErr
      | some b => if v / 10 ≠ 0 then decLoop fuel (v / 10) (pos - 1) b else .ok (pos - 1, b)

/-- the two-argument overload + the `XalanDOMString&` wrapper: buffer `[MAX_PRINTF_DIGITS + 1]` (`intBufferSize`),
    end pointer `&theBuffer[MAX_PRINTF_DIGITS]` (`intBufferEnd`), NUL stored there, digits written backwards, then `-` -/
def scalarToDecimal (neg : Bool) (mag : Nat) : Res (List Nat) :=
  let buf0 := List.replicate intBufferSize 0xFFFF
  match store buf0 intBufferEnd 0 with
  | none => .memErr
  | some buf1 =>
    match decLoop (mag + 1) mag intBufferEnd buf1 with
    | .ok (pos, b) =>
      if neg then
        if pos = 0 then .memErr
        else match store b (pos - 1) 45 with
          | none => .memErr
          | some b2 => .ok ((b2.drop (pos - 1)).take (intBufferEnd - (pos - 1)))
      else .ok ((b.drop pos).take (intBufferEnd - pos))
    | .memErr => .memErr
    | .outOfFuel => .outOfFuel

/-- specification: the decimal numeral of `n`, most significant digit first, as UTF-16 code units -/
def decSpec (n : Nat) : List Nat :=
  if h : n < 10 then [48 + n] else decSpec (n / 10) ++ [48 + n % 10]
decreasing_by omega

/-! ## NumberToDOMString(double) / NumberToCharacters(double) — which path, how many bytes `sprintf` stores -/

/-- number of decimal digits of `n` (1 for 0) -/
def numDigits (n : Nat) : Nat :=
  if h : n < 10 then 1 else 1 + numDigits (n / 10)
decreasing_by omega

/-- largest finite double, (2^53 − 1)·2^971 -/
def maxDouble : Nat := 2 ^ 1024 - 2 ^ 971

/-- what the bound depends on, for a finite non-zero double: sign, ⌊|x|⌋, whether x is an integer -/
structure DblAbs where
  neg : Bool
  ip : Nat
  isInt : Bool
deriving Repr, DecidableEq

/-- `static_cast<XMLInt64>(theValue) == theValue` (x86-64: an out-of-range cast yields INT64_MIN) -/
def int64Exact (x : DblAbs) : Bool :=
  x.isInt && (x.ip < 2 ^ 63 || (x.neg && x.ip = 2 ^ 63))

/-- bytes `sprintf(theBuffer, "%.<prec>f", x)` stores, terminating NUL included; `carry` = rounding to
    `prec` places carried into the integer part (libc behaviour, a parameter of the model) -/
def sprintfBytes (x : DblAbs) (prec : Nat) (carry : Bool) : Nat :=
  (if x.neg then 1 else 0) + numDigits (x.ip + (if carry then 1 else 0)) + 1 + prec + 1

/-- the retry loop `do { sprintf … } while (atof(buf) != v && next format)`: `rt i` = the i-th format
    round-trips (external behaviour, a parameter); every attempted `sprintf` must fit the buffer -/
def sprintfLoop (x : DblAbs) (rt carry : Nat → Bool) : Nat → List Nat → Res Nat
  | _, [] => .ok 0            -- unreachable: the table is non-empty; kept total
  | i, p :: ps =>
    if sprintfBytes x p (carry i) ≤ printfBufferSize then
      if rt i || ps.isEmpty then .ok (sprintfBytes x p (carry i)) else sprintfLoop x rt carry (i + 1) ps
    else .memErr

inductive NumPath where
  | integer (len : Nat)      -- ScalarToDecimalString path, result length
  | printf (bytes : Nat)     -- sprintf path, bytes stored by the last sprintf
deriving Repr, DecidableEq

def numberToString (x : DblAbs) (rt carry : Nat → Bool) : Res NumPath :=
  if int64Exact x then
    match scalarToDecimal x.neg x.ip with
    | .ok l => .ok (.integer l.length)
    | .memErr => .memErr
    | .outOfFuel => .outOfFuel
  else
    match sprintfLoop x rt carry 0 printfPrecisions with
    | .ok b => .ok (.printf b)
    | .memErr => .memErr
    | .outOfFuel => .outOfFuel

/-! ## formatSmallNumber (DOMStringHelper.cpp, since c8ec637): when no "%.Nf" reads back, "%.17e" is expanded in the same buffer -/

/-- bytes `sprintf(theScientific, "%.17e", x)` stores: `[-]d.` + 17 digits + `e-` + exponent digits + NUL -/
def scientificBytes (neg : Bool) (expDigits : Nat) : Nat :=
  (if neg then 1 else 0) + 2 + (smallNumberDigits - 1) + 2 + expDigits + 1

/-- bytes the expansion stores into `theBuffer` for decimal exponent `−e`: `[-]0.` + (e − 1) zeros + the digits + NUL -/
def smallNumberBytes (neg : Bool) (e : Nat) : Nat :=
  (if neg then 1 else 0) + 2 + (e - 1) + smallNumberDigits + 1

/-- `formatSmallNumber`: both stores checked against their (regenerated) arrays -/
def formatSmallNumber (neg : Bool) (e expDigits : Nat) : Res Nat :=
  if scientificBytes neg expDigits ≤ scientificBufferSize then
    if smallNumberBytes neg e ≤ printfBufferSize then .ok (smallNumberBytes neg e) else .memErr
  else .memErr

/-- decimal exponent of a double `m / 2^s < 1` (m ≥ 1): the least `k` with `m · 10^k ≥ 2^s`, i.e. x = d.ddd·10^(−k) -/
def decExpOf (m s : Nat) : Nat → Nat → Nat
  | 0, k => k
  | fuel + 1, k => if m * 10 ^ k ≥ 2 ^ s then k else decExpOf m s fuel (k + 1)

/-! ## stack arrays selected by a length guard -/

/-- the stack array is used for this length -/
def guardPasses (g : Guarded) (len : Nat) : Bool :=
  if g.strict then len < g.bound else len ≤ g.bound

/-- decidable sufficient condition: the largest passing length plus the extra elements fits the array -/
def guardOk (g : Guarded) : Bool :=
  if g.strict then (g.bound = 0 || g.bound - 1 + g.extra ≤ g.size) else g.bound + g.extra ≤ g.size

/-- decode an IEEE-754 binary64 bit pattern into the abstraction (none for NaN/Inf/±0) -/
def dblOfBits (bits : Nat) : Option DblAbs :=
  let neg := bits / 2 ^ 63 % 2 = 1
  let e := bits / 2 ^ 52 % 2048
  let f := bits % 2 ^ 52
  if e = 2047 then none
  else if e = 0 ∧ f = 0 then none
  else
    let m := if e = 0 then f else f + 2 ^ 52
    let eb := if e = 0 then 1 else e          -- biased exponent of the value m · 2^(eb - 1075)
    if eb ≥ 1075 then some ⟨neg, m * 2 ^ (eb - 1075), true⟩
    else
      let d := 2 ^ (1075 - eb)
      some ⟨neg, m / d, m % d = 0⟩

end XalanModel.C03
