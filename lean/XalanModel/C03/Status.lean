import XalanModel.Generated.C03_Exceptions
/-!
# C03 — exception → status mapping of the API entry points

Model of C++ `try { … } catch (const A&) {…} catch (const B&) {…}` dispatch ([except.handle]: handlers are
tried in order of appearance; a handler for a public base matches a derived object) over the class table and
the catch chains *regenerated from the working tree* (`Generated/C03_Exceptions.lean`).

Core Lean only (imported by the driver `xm_c03`).
-/
namespace XalanModel.C03
open XalanModel.Generated.C03_Exceptions

/-- `c` is `b` or derives publicly (transitively) from `b`; fuel = number of classes in the table -/
def isA.go : Nat → Cls → Cls → Bool
  | 0, c, b => c == b
  | f + 1, c, b => c == b || (match c.base with
      | some p => isA.go f p b
      | none => false)

def isA (c b : Cls) : Bool := isA.go Cls.all.length c b

/-- the root of the inheritance chain of `c` -/
def rootOf.go : Nat → Cls → Cls
  | 0, c => c
  | f + 1, c => match c.base with
    | some p => rootOf.go f p
    | none => c

def rootOf (c : Cls) : Cls := rootOf.go Cls.all.length c

/-- the four exception families the documentation of XalanTransformer promises to turn into a status -/
def libraryRoots : List Cls := [.XSLException, .xerces_SAXException, .xerces_XMLException, .XalanDOMException]

/-- classes the library is designed to report: those that derive from one of the four roots -/
def rooted (c : Cls) : Bool := libraryRoots.any (isA c)

def handlerMatches (h : Handler) (c : Cls) : Bool :=
  match h.cls with
  | none => true            -- catch(...)
  | some b => isA c b

/-- [except.handle]: the first handler, in order of appearance, that matches -/
def dispatch : List Handler → Cls → Option Handler
  | [], _ => none
  | h :: hs, c => if handlerMatches h c then some h else dispatch hs c

/-- what the model knows about a thrown object -/
structure Exc where
  cls : Cls
  msgEmpty : Bool      -- getMessage() is the empty string
  formatted : Bool     -- XSLException::m_formatted (defaultFormat then returns the bare message)
deriving DecidableEq, Repr

inductive Outcome where
  | escapes                                   -- leaves the entry point as a C++ exception
  | returned (status : Int) (msgNonEmpty : Bool)
deriving DecidableEq, Repr

/-- does the handler leave a non-empty text in `m_errorMessage`?  `listenerText` = the problem listener
    already wrote something into the local `theErrorMessage`. -/
def msgNonEmpty (h : Handler) (e : Exc) (listenerText : Bool) : Bool :=
  (h.listenerFirst && listenerText) ||
  (match h.kind with
   | .defaultFormat => !e.formatted || !e.msgEmpty      -- "Type: msg (location)" unless pre-formatted
   | .saxParseFormat => true                            -- "SAXParseException: msg (location)"
   | .domFormat => true                                 -- message catalogue text + code
   | .getMessage => !e.msgEmpty
   | .fixedText => true                                 -- a non-empty literal (checked by the translator) or what() with a literal fallback
   | .noMessage => false)

def outcome (chain : List Handler) (e : Exc) (listenerText : Bool) : Outcome :=
  match dispatch chain e.cls with
  | none => .escapes
  | some h => if h.rethrows then .escapes else .returned h.status (msgNonEmpty h e listenerText)

/-- **Specification** (property C03, error half): a failure is a *reported error* —
    the entry point returns normally with a non-zero status and a non-empty message. -/
def Reported : Outcome → Prop
  | .escapes => False
  | .returned s m => s ≠ 0 ∧ m = true

instance : DecidablePred Reported := fun o => by
  cases o <;> simp only [Reported] <;> infer_instance

/-- weaker: returns normally with a non-zero status (entry points without a message channel: XPath C API) -/
def ReturnsError : Outcome → Prop
  | .escapes => False
  | .returned s _ => s ≠ 0

instance : DecidablePred ReturnsError := fun o => by
  cases o <;> simp only [ReturnsError] <;> infer_instance

/-- statuses a chain can produce -/
def statuses (chain : List Handler) : List Int := chain.map (·.status)

/-- executable specification predicate evaluated on an observation of the real entry point
    (used by the driver for every implementation reply): status 0, or a status some handler of the
    entry point's chain produces together with a non-empty message -/
def obsOk (chain : List Handler) (rc : Int) (msgLen : Nat) : Bool :=
  rc == 0 || ((statuses chain).contains rc && rc != 0 && msgLen > 0)

def chainOf (name : String) : Option (List Handler) :=
  (transformerChains.find? (·.1 == name)).map (·.2) <|> (xpathCapiChains.find? (·.1 == name)).map (·.2)

def clsOfName (n : String) : Option Cls := Cls.all.find? (·.name == n)

/-- the methods of XalanTransformer an exported C function may call without losing protection:
    the chain-bearing ones, the `transform` overloads (which only call those) and the two `destroy…`
    (whose only throwing call is wrapped in `catch(...)` inside LoadErrorMessage), plus pure accessors -/
def protectedMethods : List String :=
  ["transform", "compileStylesheet", "parseSource", "destroyStylesheet", "destroyParsedSource",
   "getMemoryManager", "getLastError"]

def capiProtected (e : String × String × List String × Bool × Bool) : Bool :=
  e.2.2.1.all (protectedMethods.contains ·) || e.2.2.2.2

/-- transform overloads only call chain-bearing methods / each other -/
def callsOk (e : String × List String × Bool) : Bool :=
  e.2.1.all (["parseSource", "compileStylesheet", "doTransform", "transform", "LoadErrorMessage"].contains ·)

end XalanModel.C03
