import XalanModel.Generated.C03_Structure
/-!
# C03 — where an XSLT element may stand: the handler's decision tables (regenerated) and the XSLT 1.0 content model

`Generated/C03_Structure.lean` holds, for every element token, what `StylesheetHandler` does with it inside a template and at
the top level, and the `childTypeAllowed` table (parent class × child token) behind `appendChildElem`.
The specification below is the part of the XSLT 1.0 content model whose violation is not merely an error of form but leaves an
instruction without the run-time context it needs.  Core Lean only.
-/
namespace XalanModel.C03
open XalanModel.Generated.C03_Structure

/-- an action that ends in an element being created / processed, or in an error message: never "nothing happens" -/
def actDecided : Act → Bool
  | .fallThrough => false
  | _ => true

/-- **Specification (XSLT 1.0 §11.6, §10, §9.2).**  Elements that only make sense inside particular parents, with those parents:
    `xsl:with-param` needs the parameter frame that only `xsl:apply-templates` / `xsl:call-template` push; `xsl:sort` the
    node list of `xsl:apply-templates` / `xsl:for-each`; `xsl:when` / `xsl:otherwise` an `xsl:choose`. -/
def requiredParents : Tok → Option (List Tok)
  | .x_with_param => some [.x_apply_templates, .x_call_template]
  | .x_sort => some [.x_apply_templates, .x_for_each]
  | .x_when => some [.x_choose]
  | .x_otherwise => some [.x_choose]
  | _ => none

/-- how a misplaced context-dependent child is kept out: by `childTypeAllowed` (→ HIERARCHY_REQUEST_ERR → "is not allowed in this
    position"), or by an explicit parent test in the handler (`createChecked` for when/otherwise, `sort` → `processSortElement`,
    which only for-each / apply-templates implement) -/
def rejectedSomewhere (parent child : Tok) : Bool :=
  !childAllowed parent child ||
  (match inTemplateAction child with
   | .createChecked => true
   | .sort => true
   | .reject => true
   | _ => false)

end XalanModel.C03
