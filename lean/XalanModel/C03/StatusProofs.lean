import XalanModel.C03.Status
/-! helper lemmas for the error-mapping theorems of `Props/C03.lean` -/
namespace XalanModel.C03
open XalanModel.Generated.C03_Exceptions

theorem dispatch_eq_some_iff (chain : List Handler) (c : Cls) (h : Handler) :
    dispatch chain c = some h ↔
      ∃ pre post, chain = pre ++ h :: post ∧ handlerMatches h c = true ∧ ∀ g ∈ pre, handlerMatches g c = false := by
  induction chain with
  | nil => simp [dispatch]
  | cons a as ih =>
    simp only [dispatch]
    by_cases hm : handlerMatches a c = true
    · rw [if_pos hm]
      constructor
      · intro e
        cases e
        exact ⟨[], as, rfl, hm, by simp⟩
      · rintro ⟨pre, post, e, hh, hpre⟩
        cases pre with
        | nil => simp at e; rw [e.1]
        | cons p ps =>
          simp at e
          have := hpre p (by simp)
          rw [← e.1] at this
          rw [this] at hm; cases hm
    · rw [if_neg hm, ih]
      have hm' : handlerMatches a c = false := by simpa using hm
      constructor
      · rintro ⟨pre, post, e, hh, hpre⟩
        refine ⟨a :: pre, post, by simp [e], hh, ?_⟩
        intro g hg
        simp at hg
        rcases hg with rfl | hg
        · exact hm'
        · exact hpre g hg
      · rintro ⟨pre, post, e, hh, hpre⟩
        cases pre with
        | nil =>
          simp at e
          rw [e.1] at hm'
          rw [hm'] at hh; cases hh
        | cons p ps =>
          simp at e
          exact ⟨ps, post, e.2, hh, fun g hg => hpre g (by simp [hg])⟩

theorem dispatch_eq_none_iff (chain : List Handler) (c : Cls) :
    dispatch chain c = none ↔ ∀ g ∈ chain, handlerMatches g c = false := by
  induction chain with
  | nil => simp [dispatch]
  | cons a as ih =>
    simp only [dispatch]
    by_cases hm : handlerMatches a c = true
    · rw [if_pos hm]
      simp
      intro h
      rw [h] at hm; cases hm
    · rw [if_neg hm, ih]
      have hm' : handlerMatches a c = false := by simpa using hm
      simp [hm']

/-- a chain that ends in (or contains) `catch(...)` and whose handlers all set a non-zero status and do not
    re-throw turns *anything* into a non-zero status -/
theorem returnsError_of_catchAll (chain : List Handler) (hall : ∃ h ∈ chain, h.cls = none)
    (hst : ∀ h ∈ chain, h.status ≠ 0 ∧ h.rethrows = false) (e : Exc) (l : Bool) :
    ReturnsError (outcome chain e l) := by
  unfold outcome
  cases hd : dispatch chain e.cls with
  | none =>
    rw [dispatch_eq_none_iff] at hd
    obtain ⟨h, hm, hn⟩ := hall
    have := hd h hm
    simp [handlerMatches, hn] at this
  | some h =>
    rw [dispatch_eq_some_iff] at hd
    obtain ⟨pre, post, rfl, _, _⟩ := hd
    have := hst h (by simp)
    simp [this.2, ReturnsError, this.1]

theorem Cls.mem_all (c : Cls) : c ∈ Cls.all := by
  cases c <;> decide

end XalanModel.C03
