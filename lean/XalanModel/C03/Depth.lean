/-!
# C03 — the template depth guard (`StylesheetExecutionContextDefault::pushCurrentTemplate`)

Every instantiation of a template (`ElemTemplate::startElement` / `executeChildren`) and every `xsl:for-each` pushes an entry onto
`m_currentTemplateStack` and pops it when it is done; the entry is the template, the current template again (a named template called by
`xsl:call-template`) or null (`xsl:for-each`, and a named template called inside one).  The guard in front of the push throws
"Infinite recursion" when the stack already holds `limit` entries.  `countNull` says whether that test looks at every push or is
skipped for a null entry (`theTemplate != 0 && …`).  Core Lean only.
-/
namespace XalanModel.C03

/-- what a running stylesheet does to the stack of current templates -/
inductive DepthEv where
  | push (isNull : Bool)
  | pop
deriving Repr, DecidableEq

/-- one event on a stack of `d` entries: `none` = the guard threw (the recursion is reported) -/
def depthStep (countNull ge : Bool) (limit d : Nat) : DepthEv → Option Nat
  | .push isNull => if (countNull || !isNull) && (if ge then decide (limit ≤ d) else decide (d = limit)) then none else some (d + 1)
  | .pop => some (d - 1)

/-- `ge`: the test is written `size >= limit` (otherwise `size == limit`) -/
def depthRun (countNull ge : Bool) (limit : Nat) : Nat → List DepthEv → Option Nat
  | d, [] => some d
  | d, e :: es =>
    match depthStep countNull ge limit d e with
    | none => none
    | some d' => depthRun countNull ge limit d' es

/-- does the stack, left alone, ever hold more than `limit` entries? -/
def depthExceeds (limit : Nat) : Nat → List DepthEv → Bool
  | _, [] => false
  | d, .push _ :: es => decide (limit < d + 1) || depthExceeds limit (d + 1) es
  | d, .pop :: es => depthExceeds limit (d - 1) es

/-- the guard that counts every push reports exactly the runs that would grow beyond the limit -/
theorem depthRun_counting_none_iff (limit : Nat) : ∀ (evs : List DepthEv) (d : Nat), d ≤ limit →
    (depthRun true true limit d evs = none ↔ depthExceeds limit d evs = true) := by
  intro evs
  induction evs with
  | nil => intro d _; simp [depthRun, depthExceeds]
  | cons e es ih =>
    intro d hd
    cases e with
    | push isNull =>
      by_cases h : limit ≤ d
      · have : limit < d + 1 := by omega
        simp [depthRun, depthStep, depthExceeds, h, this]
      · have h1 : ¬ limit < d + 1 := by omega
        have := ih (d + 1) (by omega)
        simp [depthRun, depthStep, depthExceeds, h, h1, this]
    | pop =>
      have := ih (d - 1) (by omega)
      simp [depthRun, depthStep, depthExceeds, this]

/-- … and never lets the stack grow beyond the limit -/
theorem depthRun_counting_bounded (limit : Nat) : ∀ (evs : List DepthEv) (d n : Nat), d ≤ limit →
    depthRun true true limit d evs = some n → n ≤ limit := by
  intro evs
  induction evs with
  | nil => intro d n hd h; simp [depthRun] at h; omega
  | cons e es ih =>
    intro d n hd h
    cases e with
    | push isNull =>
      by_cases hl : limit ≤ d
      · simp [depthRun, depthStep, hl] at h
      · simp [depthRun, depthStep, hl] at h
        exact ih (d + 1) n (by omega) h
    | pop =>
      simp [depthRun, depthStep] at h
      exact ih (d - 1) n (by omega) h

/-- pushes only (nothing returns): whatever the mixture of null and non-null entries, the push that finds `limit` entries is refused -/
theorem depthRun_counting_pushes (limit : Nat) : ∀ (flags : List Bool) (d : Nat), d ≤ limit → limit < d + flags.length →
    depthRun true true limit d (flags.map DepthEv.push) = none := by
  intro flags
  induction flags with
  | nil => intro d h1 h2; simp at h2; omega
  | cons f fs ih =>
    intro d h1 h2
    by_cases hl : limit ≤ d
    · simp [depthRun, depthStep, hl]
    · simp only [List.length_cons] at h2
      have := ih (d + 1) (by omega) (by omega)
      simp [depthRun, depthStep, hl, this]

/-- the test that is skipped for null entries never refuses them: any number of null pushes goes through -/
theorem depthRun_skipping_null (ge : Bool) (limit : Nat) : ∀ (n d : Nat),
    depthRun false ge limit d (List.replicate n (DepthEv.push true)) = some (d + n) := by
  intro n
  induction n with
  | zero => intro d; simp [depthRun]
  | succ k ih =>
    intro d
    have := ih (d + 1)
    simp [List.replicate_succ, depthRun, depthStep, this]
    omega

/-- when every push is counted the stack never leaves `0..limit`, so `size == limit` and `size >= limit` refuse the same pushes -/
theorem depthRun_counting_operator_irrelevant (ge : Bool) (limit : Nat) : ∀ (evs : List DepthEv) (d : Nat), d ≤ limit →
    depthRun true ge limit d evs = depthRun true true limit d evs := by
  intro evs
  induction evs with
  | nil => intro d _; simp [depthRun]
  | cons e es ih =>
    intro d hd
    cases e with
    | push isNull =>
      by_cases h : limit ≤ d
      · have he : d = limit := by omega
        cases ge <;> simp [depthRun, depthStep, he]
      · have hne : ¬ d = limit := by omega
        have := ih (d + 1) (by omega)
        cases ge <;> simp [depthRun, depthStep, h, hne, this]
    | pop =>
      have := ih (d - 1) (by omega)
      simp [depthRun, depthStep, this]

/-- `size == limit` with exempt (null) pushes: once an exempt push has stepped over the limit nothing is refused any more -/
theorem depthRun_eq_stepped_over (countNull : Bool) (limit : Nat) : ∀ (flags : List Bool) (d : Nat), limit < d →
    depthRun countNull false limit d (flags.map DepthEv.push) = some (d + flags.length) := by
  intro flags
  induction flags with
  | nil => intro d _; simp [depthRun]
  | cons f fs ih =>
    intro d hd
    have hne : ¬ d = limit := by omega
    have := ih (d + 1) (by omega)
    simp [depthRun, depthStep, hne, this]
    omega

/-! ### the growing target buffer of the local-code-page transcoding (`doXercesTranscode` returning bool)

The target starts with `n + 1` elements (n = source length in UTF-16 units); `XMLString::transcode` succeeds when the target has room for the
`need` bytes of the result and the terminator; otherwise the loop gives up once the size has reached `factor * n`, else adds `step`. -/
def growLoop (factor step n need : Nat) : Nat → Nat → Bool
  | 0, size => decide (need + 1 ≤ size)
  | fuel + 1, size =>
    if need + 1 ≤ size then true
    else if n * factor ≤ size then false
    else growLoop factor step n need fuel (size + step)

theorem growLoop_reaches (factor step n need : Nat) (hstep : 1 ≤ step) (hneed : need + 1 ≤ n * factor) : ∀ (fuel size : Nat),
    need + 1 ≤ size + fuel → growLoop factor step n need fuel size = true := by
  intro fuel
  induction fuel with
  | zero => intro size h; simp [growLoop]; omega
  | succ k ih =>
    intro size h
    simp only [growLoop]
    by_cases h1 : need + 1 ≤ size
    · rw [if_pos h1]
    · rw [if_neg h1]
      have h2 : ¬ n * factor ≤ size := by omega
      rw [if_neg h2]
      exact ih (size + step) (by omega)

end XalanModel.C03
