/-!
# C03 — the recursion guard of lazily evaluated top-level variables (VariablesStack::findXObject)

A top-level variable or parameter is evaluated at its first reference.  `findXObject` keeps the variables whose evaluation is
in progress on `m_guardStack`; a variable that is found there again is a circular definition.  The model abstracts a stylesheet
into its dependency graph (`deps v` = the top-level variables the value of `v` refers to, in evaluation order); `fuel` bounds the
*depth* of nested evaluations — running out of it is the model's rendering of the C++ stack overflowing.  Core Lean only.
-/
namespace XalanModel.C03

inductive GuardRes where
  | value                    -- every variable on the way got a value
  | circular (v : Nat)       -- CircularVariableDefWasDetected, reported for v
  | outOfFuel                -- nested evaluations without end
deriving Repr, DecidableEq

/-- `whole` = the guard test searches the whole guard stack (`std::find`); otherwise it only looks at `m_guardStack.back()` -/
def onGuard (whole : Bool) (guard : List Nat) (v : Nat) : Bool :=
  if whole then guard.contains v else guard.head? == some v

/-- evaluation of the not yet evaluated top-level variable `v` with `guard` = m_guardStack (top first) -/
def evalVar (whole : Bool) (deps : Nat → List Nat) : Nat → List Nat → Nat → GuardRes
  | 0, _, _ => .outOfFuel
  | fuel + 1, guard, v =>
    if onGuard whole guard v then .circular v
    else (deps v).foldl
      (fun acc d => match acc with
        | .value => evalVar whole deps fuel (v :: guard) d     -- m_guardStack.push_back(var); var->getValue(…)
        | r => r)
      .value

end XalanModel.C03
