import XalanModel.C19.XVec
import XalanModel.C19.LedgerProofs
/-
Invariant proofs for the allocation-explicit XalanVector model and the two idioms.
-/
namespace XalanModel.C19
open Ledger

namespace XVec

theorem owned_some (b : Nat) (xs : List Int) (c : Nat) : owned ⟨some b, xs, c⟩ = [b] := rfl
theorem owned_none (xs : List Int) (c : Nat) : owned ⟨none, xs, c⟩ = [] := rfl

/-- destructor / swapped-out temporary: gives back the buffer, nothing else -/
theorem release_holds {v : XVec} {l : Ledger} {f : List Nat} {n : Nat} (hw : v.WF)
    (h : Holds l v.owned f n) : Holds (v.release l) [] f n := by
  obtain ⟨buf, items, cap⟩ := v
  unfold release
  cases buf with
  | none => simpa [owned] using h
  | some b =>
    have hc : cap ≠ 0 := by simpa [WF] using hw.2
    simp only [hc, ne_eq, not_false_eq_true, if_true]
    exact holds_free (by simpa [owned] using h)

theorem release_reqs (v : XVec) (l : Ledger) : (v.release l).reqs = l.reqs := by
  unfold release
  split
  · split <;> simp [free_reqs]
  · rfl

/-- the temporary built by the copy constructor: well-formed, owns exactly the new block, and
the source's blocks are untouched -/
theorem copyWith_spec {src : XVec} {initial : Nat} {l : Ledger} {o f : List Nat} {n : Nat}
    (h : Holds l o f n) :
    (∀ l1, copyWith src initial l = (none, l1) → Holds l1 o f n) ∧
    (∀ t l1, copyWith src initial l = (some t, l1) →
      t.WF ∧ t.items = src.items ∧ max src.items.length initial ≤ t.cap ∧
      Holds l1 (t.owned ++ o) f n) := by
  unfold copyWith
  split
  · rename_i hpos
    cases ha : l.alloc with
    | mk ob l1 =>
      cases ob with
      | none =>
        refine ⟨fun l2 he => ?_, fun t l2 he => by simp at he⟩
        simp only [Prod.mk.injEq, true_and] at he; subst he
        exact holds_alloc_none h ha
      | some b =>
        refine ⟨fun l2 he => by simp at he, fun t l2 he => ?_⟩
        simp only [Prod.mk.injEq, Option.some.injEq] at he
        obtain ⟨rfl, rfl⟩ := he
        have hm : max src.items.length initial ≠ 0 := by
          have := Nat.le_max_left src.items.length initial; omega
        refine ⟨⟨Nat.le_max_left _ _, by simp [hm]⟩, rfl, Nat.le_refl _, ?_⟩
        simpa [owned] using holds_alloc h ha
  · split
    · rename_i hz hpos
      have hnil : src.items = [] := by
        cases hs : src.items with
        | nil => rfl
        | cons x xs => simp [hs] at hz
      cases ha : l.alloc with
      | mk ob l1 =>
        cases ob with
        | none =>
          refine ⟨fun l2 he => ?_, fun t l2 he => by simp at he⟩
          simp only [Prod.mk.injEq, true_and] at he; subst he
          exact holds_alloc_none h ha
        | some b =>
          refine ⟨fun l2 he => by simp at he, fun t l2 he => ?_⟩
          simp only [Prod.mk.injEq, Option.some.injEq] at he
          obtain ⟨rfl, rfl⟩ := he
          refine ⟨⟨by simp, by simp; omega⟩, by simp [hnil], by simp [hnil], ?_⟩
          simpa [owned] using holds_alloc h ha
    · rename_i hz hi
      have hnil : src.items = [] := by
        cases hs : src.items with
        | nil => rfl
        | cons x xs => simp [hs] at hz
      refine ⟨fun l2 he => by simp at he, fun t l2 he => ?_⟩
      simp only [Prod.mk.injEq, Option.some.injEq] at he
      obtain ⟨rfl, rfl⟩ := he
      refine ⟨⟨by simp, by simp⟩, by simp [hnil], by simp [hnil]; omega, ?_⟩
      simpa [owned] using h

/-- swap with the temporary, destroy the temporary (= the old representation) -/
theorem swap_release {v t : XVec} {l1 : Ledger} {f : List Nat} {n : Nat} (hw : v.WF)
    (h : Holds l1 (t.owned ++ v.owned) f n) : Holds (v.release l1) t.owned f n := by
  have h' : Holds l1 v.owned (t.owned ++ f) n :=
    ⟨fun a => by have := h.1 a; simp only [List.count_append] at this ⊢; omega, h.2⟩
  have := release_holds hw h'
  exact ⟨fun a => by have := this.1 a; simp only [List.count_append, List.count_nil] at this ⊢; omega, this.2⟩

theorem pushBack_spec (v : XVec) (x : Int) (l : Ledger) (f : List Nat) (n : Nat) (hw : v.WF)
    (h : Holds l v.owned f n) :
    (v.pushBack x l).2.1.WF ∧ Holds (v.pushBack x l).2.2 (v.pushBack x l).2.1.owned f n ∧
    ((v.pushBack x l).1 = .oom → (v.pushBack x l).2.1 = v) ∧ (v.pushBack x l).1 ≠ .ub ∧
    ((v.pushBack x l).1 = .ok → (v.pushBack x l).2.1.items = v.items ++ [x]) := by
  unfold pushBack
  split
  · rename_i hlt
    refine ⟨⟨by simp; omega, hw.2⟩, h, by simp, by simp, by simp⟩
  · split
    · rename_i hge hz
      have hcap : v.cap = 0 := by omega
      have hnil : v.items = [] := List.length_eq_zero_iff.mp hz
      have hbuf : v.buf = none := by
        have := hw.2; cases hb : v.buf with
        | none => rfl
        | some b => simp [hb, hcap] at this
      have ho : v.owned = [] := by simp [owned, hbuf]
      cases ha : l.alloc with
      | mk ob l1 =>
        cases ob with
        | none => exact ⟨hw, holds_alloc_none h ha, by simp, by simp, by simp⟩
        | some b =>
          refine ⟨⟨by simp, by simp⟩, ?_, by simp, by simp, by simp [hnil]⟩
          have := holds_alloc h ha
          simpa [owned, hbuf] using this
    · rename_i hge hnz
      obtain ⟨hnone, hsome⟩ := copyWith_spec (src := v) (initial := growSize v.items.length) h
      cases hc : copyWith v (growSize v.items.length) l with
      | mk ot l1 =>
        cases ot with
        | none => exact ⟨hw, hnone l1 hc, by simp, by simp, by simp⟩
        | some t =>
          obtain ⟨tw, ti, tcap, th⟩ := hsome t l1 hc
          have hgrow : v.items.length < growSize v.items.length := by unfold growSize; omega
          refine ⟨⟨?_, tw.2⟩, ?_, by simp, by simp, by simp [ti]⟩
          · simp [ti]; omega
          · exact swap_release hw th

theorem reserve_spec (v : XVec) (m : Nat) (l : Ledger) (f : List Nat) (n : Nat) (hw : v.WF)
    (h : Holds l v.owned f n) :
    (v.reserve m l).2.1.WF ∧ Holds (v.reserve m l).2.2 (v.reserve m l).2.1.owned f n ∧
    ((v.reserve m l).1 = .oom → (v.reserve m l).2.1 = v) ∧ (v.reserve m l).1 ≠ .ub ∧
    ((v.reserve m l).1 = .ok → (v.reserve m l).2.1.items = v.items ∧ m ≤ (v.reserve m l).2.1.cap) := by
  unfold reserve
  split
  · obtain ⟨hnone, hsome⟩ := copyWith_spec (src := v) (initial := m) h
    cases hc : copyWith v m l with
    | mk ot l1 =>
      cases ot with
      | none => exact ⟨hw, hnone l1 hc, by simp, by simp, by simp⟩
      | some t =>
        obtain ⟨tw, ti, tcap, th⟩ := hsome t l1 hc
        refine ⟨tw, swap_release hw th, by simp, by simp, fun _ => ⟨ti, ?_⟩⟩
        simp; omega
  · refine ⟨hw, h, by simp, by simp, fun _ => ?_⟩
    simp; omega

theorem step_spec (v : XVec) (op : Op) (l : Ledger) (f : List Nat) (n : Nat) (hw : v.WF)
    (h : Holds l v.owned f n) :
    (step v l op).2.1.WF ∧ Holds (step v l op).2.2 (step v l op).2.1.owned f n ∧
    ((step v l op).1 = .oom → (step v l op).2.1 = v) ∧
    ((step v l op).1 = .ub → op = .pop ∧ v.items = []) := by
  cases op with
  | push x =>
    obtain ⟨a, b, c, d, _⟩ := pushBack_spec v x l f n hw h
    exact ⟨a, b, c, fun hu => absurd hu d⟩
  | reserve m =>
    obtain ⟨a, b, c, d, _⟩ := reserve_spec v m l f n hw h
    exact ⟨a, b, c, fun hu => absurd hu d⟩
  | pop =>
    simp only [step, popBack]
    split
    · rename_i hz
      exact ⟨hw, h, by simp, fun _ => ⟨trivial, List.length_eq_zero_iff.mp hz⟩⟩
    · refine ⟨⟨by simp; have := hw.1; omega, hw.2⟩, h, by simp, by simp⟩
  | clear =>
    simp only [step, clear]
    exact ⟨⟨by simp, hw.2⟩, h, by simp, by simp⟩

theorem run_spec (ops : List Op) (v : XVec) (l : Ledger) (f : List Nat) (n : Nat) (hw : v.WF)
    (h : Holds l v.owned f n) :
    (run ops v l).2.1.WF ∧ Holds (run ops v l).2.2 (run ops v l).2.1.owned f n := by
  induction ops generalizing v l with
  | nil => exact ⟨hw, h⟩
  | cons op ops ih =>
    obtain ⟨a, b, _, _⟩ := step_spec v op l f n hw h
    simp only [run]
    cases hs : step v l op with
    | mk o r =>
      obtain ⟨v1, l1⟩ := r
      rw [hs] at a b
      cases o with
      | ub => exact ⟨a, b⟩
      | ok => exact ih v1 l1 a b
      | oom => exact ih v1 l1 a b

end XVec
end XalanModel.C19
