import XalanModel.C19.XArr
import XalanModel.C19.LedgerProofs
/-
`XalanArrayAllocator`: the outstanding blocks are exactly the blocks the allocator owns plus the blocks it has lost
(`lost`), after every operation and under every refusal; with `clear()` destroying its vectors and nothing refused,
nothing is ever lost, and the destructor leaves exactly `lost`.
-/
namespace XalanModel.C19
open Ledger
namespace XArr

def Inv (s : XArr) (l : Ledger) (n : Nat) : Prop := Holds l s.owned s.lost n

theorem count_blocks (es : List AEntry) (a : Nat) :
    (es.flatMap entryBlocks).count a = (es.flatMap vecBlocks).count a + (es.map (·.node)).count a := by
  induction es with
  | nil => simp
  | cons e es ih =>
    simp only [List.flatMap_cons, List.map_cons, List.count_append, List.count_cons, entryBlocks, vecBlocks, ih,
      List.count_nil]
    cases e.buf <;> simp [List.count_cons] <;> omega

theorem flatMap_modify (f : AEntry → AEntry) (hf : ∀ e, entryBlocks (f e) = entryBlocks e) :
    ∀ (es : List AEntry) (i : Nat), (es.modify i f).flatMap entryBlocks = es.flatMap entryBlocks := by
  intro es
  induction es with
  | nil => intro i; simp
  | cons e es ih =>
    intro i
    cases i with
    | zero => simp [List.modify_zero_cons, hf]
    | succ i => simp [List.modify_succ_cons, ih i]

theorem flatMap_map_free (g : AEntry → Nat) (es : List AEntry) :
    (es.map (fun e => { e with free := g e })).flatMap entryBlocks = es.flatMap entryBlocks := by
  induction es with
  | nil => rfl
  | cons e es ih => simp [entryBlocks, ih]

theorem pushNode_frame (s : XArr) (l : Ledger) :
    (pushNode s l).2.1.entries = s.entries ∧ (pushNode s l).2.1.lost = s.lost ∧ (pushNode s l).2.1.bs = s.bs ∧
    (pushNode s l).2.1.last = s.last := by
  unfold pushNode
  cases s.head with
  | none =>
    simp only
    cases l.alloc with
    | mk ob l1 =>
      cases ob with
      | none => exact ⟨rfl, rfl, rfl, rfl⟩
      | some hd =>
        simp only
        cases s.freeNodes with
        | nil =>
          simp only
          cases l1.alloc with
          | mk ob2 l2 => cases ob2 <;> exact ⟨rfl, rfl, rfl, rfl⟩
        | cons nb rest => exact ⟨rfl, rfl, rfl, rfl⟩
  | some hd =>
    simp only
    cases s.freeNodes with
    | nil =>
      simp only
      cases l.alloc with
      | mk ob2 l2 => cases ob2 <;> exact ⟨rfl, rfl, rfl, rfl⟩
    | cons nb rest => exact ⟨rfl, rfl, rfl, rfl⟩

theorem pushNode_spec (s : XArr) (l : Ledger) (f : List Nat) (n : Nat) (h : Holds l s.owned f n) :
    match (pushNode s l).1 with
    | none => Holds (pushNode s l).2.2 (pushNode s l).2.1.owned f n
    | some nb => Holds (pushNode s l).2.2 (nb :: (pushNode s l).2.1.owned) f n := by
  unfold pushNode
  cases hh : s.head with
  | none =>
    simp only
    cases ha : l.alloc with
    | mk ob l1 =>
      cases ob with
      | none => exact holds_alloc_none h ha
      | some hd =>
        simp only
        have h1 : Holds l1 (hd :: s.owned) f n := holds_alloc h ha
        cases hf : s.freeNodes with
        | nil =>
          simp only
          cases hb : l1.alloc with
          | mk ob2 l2 =>
            cases ob2 with
            | none =>
              refine holds_congr (holds_alloc_none h1 hb) (fun a => ?_)
              simp [owned, hh, hf, List.count_cons]
            | some nb =>
              refine holds_congr (holds_alloc h1 hb) (fun a => ?_)
              simp [owned, hh, hf, List.count_cons]
        | cons nb rest =>
          refine holds_congr h1 (fun a => ?_)
          simp only [owned, hh, hf, List.count_append, List.count_cons, Option.toList_some, Option.toList_none,
            List.count_nil]
          omega
  | some hd =>
    simp only
    cases hf : s.freeNodes with
    | nil =>
      simp only
      cases hb : l.alloc with
      | mk ob2 l2 =>
        cases ob2 with
        | none =>
          refine holds_congr (holds_alloc_none h hb) (fun a => ?_)
          simp [owned, hh, hf]
        | some nb =>
          refine holds_congr (holds_alloc h hb) (fun a => ?_)
          simp [owned, hh, hf, List.count_cons]
    | cons nb rest =>
      refine holds_congr h (fun a => ?_)
      simp only [owned, hh, hf, List.count_append, List.count_cons, Option.toList_some, List.count_nil]
      omega

theorem createEntry_inv (bsz c : Nat) (s : XArr) (l : Ledger) (n : Nat) (h : Inv s l n) :
    Inv (createEntry bsz c s l).2.1 (createEntry bsz c s l).2.2 n := by
  unfold Inv at *
  unfold createEntry
  cases ha : l.alloc with
  | mk ov l1 =>
    cases ov with
    | none => exact holds_alloc_none h ha
    | some v =>
      simp only
      have h1 : Holds l1 (v :: s.owned) s.lost n := holds_alloc h ha
      -- the vector is carried in the frame while the node is made
      have h1' : Holds l1 s.owned (v :: s.lost) n :=
        ⟨fun a => by have := h1.1 a; simp only [List.count_cons] at this ⊢; omega, h1.2⟩
      have hp := pushNode_spec s l1 (v :: s.lost) n h1'
      obtain ⟨he, hl, _, _⟩ := pushNode_frame s l1
      cases hpn : pushNode s l1 with
      | mk on rest =>
        cases rest with
        | mk s1 l2 =>
          rw [hpn] at he hl hp
          simp only at he hl hp
          cases on with
          | none =>
            simp only at hp ⊢
            rw [hl]; exact hp
          | some nb =>
            simp only at hp ⊢
            have hbase : ∀ (e : AEntry), e.node = nb → e.vec = v → e.buf = none →
                Holds l2 ({ s1 with entries := s1.entries ++ [e] } : XArr).owned s1.lost n := by
              intro e h1e h2e h3e
              refine ⟨fun a => ?_, hp.2⟩
              have := hp.1 a
              simp only [owned, List.count_append, List.count_cons, List.flatMap_append, List.flatMap_cons,
                List.flatMap_nil, entryBlocks, h1e, h2e, h3e, Option.toList_none, List.count_nil, hl] at this ⊢
              omega
            split
            · exact hbase _ rfl rfl rfl
            · cases hb : l2.alloc with
              | mk ob l3 =>
                cases ob with
                | none =>
                  simp only
                  exact holds_alloc_none (hbase ⟨nb, 0, v, none, 0⟩ rfl rfl rfl) hb
                | some b =>
                  simp only
                  have := holds_alloc (hbase ⟨nb, 0, v, none, 0⟩ rfl rfl rfl) hb
                  refine holds_congr this (fun a => ?_)
                  simp only [owned, List.count_append, List.count_cons, List.flatMap_append, List.flatMap_cons,
                    List.flatMap_nil, entryBlocks, Option.toList_none, Option.toList_some, List.count_nil]
                  omega

theorem allocate_inv (c : Nat) (s : XArr) (l : Ledger) (n : Nat) (h : Inv s l n) :
    Inv (allocate c s l).2.1 (allocate c s l).2.2 n := by
  unfold allocate
  split
  · exact createEntry_inv c c s l n h
  · simp only
    have h1 : Inv { s with last := (findEntry s c).2 } l n := h
    split
    · exact createEntry_inv s.bs c _ l n h1
    · unfold Inv at *
      refine holds_congr h (fun a => ?_)
      simp only [owned]
      rw [flatMap_modify _ (fun e => by simp [entryBlocks])]

theorem reset_inv (s : XArr) (l : Ledger) (n : Nat) (h : Inv s l n) : Inv (reset s) l n := by
  unfold Inv at *
  refine holds_congr h (fun a => ?_)
  simp only [owned, reset]
  rw [flatMap_map_free]

theorem clear_inv (cd : Bool) (s : XArr) (l : Ledger) (n : Nat) (h : Inv s l n) :
    Inv (clear cd s l).1 (clear cd s l).2 n := by
  unfold Inv at *
  unfold clear
  cases cd with
  | true =>
    simp only [if_true]
    apply holds_freeAll
    refine holds_congr h (fun a => ?_)
    have := count_blocks s.entries a
    simp only [owned, List.count_append, List.flatMap_nil, List.count_nil, List.count_reverse] at this ⊢
    omega
  | false =>
    simp only [Bool.false_eq_true, if_false]
    refine ⟨fun a => ?_, h.2⟩
    have h1 := h.1 a
    have := count_blocks s.entries a
    simp only [owned, List.count_append, List.flatMap_nil, List.count_nil, List.count_reverse] at this h1 ⊢
    omega

theorem step_inv (cd : Bool) (s : XArr) (l : Ledger) (o : Op) (n : Nat) (h : Inv s l n) :
    Inv (step cd s l o).2.1 (step cd s l o).2.2 n := by
  cases o with
  | alloc c => exact allocate_inv c s l n h
  | reset => exact reset_inv s l n h
  | clear => exact clear_inv cd s l n h

theorem run_inv (cd : Bool) (ops : List Op) (s : XArr) (l : Ledger) (n : Nat) (h : Inv s l n) :
    Inv (run cd ops s l).1 (run cd ops s l).2 n := by
  induction ops generalizing s l with
  | nil => exact h
  | cons o os ih => exact ih _ _ (step_inv cd s l o n h)

theorem destroy_spec (s : XArr) (l : Ledger) (n : Nat) (h : Inv s l n) : Holds (s.destroy l) [] s.lost n := by
  unfold Inv at h
  unfold destroy
  apply holds_freeAll; apply holds_freeAll; apply holds_freeAll; apply holds_freeAll
  refine holds_congr h (fun a => ?_)
  have := count_blocks s.entries a
  simp only [owned, List.count_append, List.count_nil] at this ⊢
  omega

/-! nothing refused and `clear()` destroying its vectors: nothing is ever lost -/

def Clean (s : XArr) (l : Ledger) : Prop := l.failAt = 0 ∧ s.lost = []

theorem alloc_clean {l : Ledger} (h : l.failAt = 0) : ∃ b, l.alloc = (some b, l.alloc.2) ∧ l.alloc.2.failAt = 0 := by
  unfold Ledger.alloc
  simp [h]

theorem free_failAt (l : Ledger) (b : Nat) : (l.free b).failAt = l.failAt := by
  unfold Ledger.free; split <;> rfl

theorem freeAll_failAt (bs : List Nat) (l : Ledger) : (l.freeAll bs).failAt = l.failAt := by
  induction bs generalizing l with
  | nil => rfl
  | cons b bs ih => simp [Ledger.freeAll, ih, free_failAt]

theorem pushNode_clean (s : XArr) (l : Ledger) (h : l.failAt = 0) :
    (pushNode s l).1.isSome ∧ (pushNode s l).2.2.failAt = 0 := by
  unfold pushNode
  cases hh : s.head with
  | none =>
    simp only
    obtain ⟨b, hb, hb2⟩ := alloc_clean h
    rw [hb]
    simp only
    cases hf : s.freeNodes with
    | nil =>
      simp only
      obtain ⟨b2, hc, hc2⟩ := alloc_clean hb2
      rw [hc]
      exact ⟨rfl, hc2⟩
    | cons nb rest => exact ⟨rfl, hb2⟩
  | some hd =>
    simp only
    cases hf : s.freeNodes with
    | nil =>
      simp only
      obtain ⟨b2, hc, hc2⟩ := alloc_clean h
      rw [hc]
      exact ⟨rfl, hc2⟩
    | cons nb rest => exact ⟨rfl, h⟩

theorem createEntry_clean (bsz c : Nat) (s : XArr) (l : Ledger) (h : Clean s l) :
    Clean (createEntry bsz c s l).2.1 (createEntry bsz c s l).2.2 := by
  obtain ⟨hf, hl⟩ := h
  unfold createEntry
  obtain ⟨v, hv, hv2⟩ := alloc_clean hf
  rw [hv]
  simp only
  obtain ⟨hs, hp2⟩ := pushNode_clean s l.alloc.2 hv2
  obtain ⟨_, hlost, _, _⟩ := pushNode_frame s l.alloc.2
  cases hpn : pushNode s l.alloc.2 with
  | mk on rest =>
    cases rest with
    | mk s1 l2 =>
      rw [hpn] at hs hp2 hlost
      simp only at hs hp2 hlost
      cases on with
      | none => simp at hs
      | some nb =>
        simp only
        split
        · exact ⟨hp2, by simpa [hlost] using hl⟩
        · obtain ⟨b, hb, hb2⟩ := alloc_clean hp2
          rw [hb]
          exact ⟨hb2, by simpa [hlost] using hl⟩

theorem step_clean (s : XArr) (l : Ledger) (o : Op) (h : Clean s l) :
    Clean (step true s l o).2.1 (step true s l o).2.2 := by
  cases o with
  | alloc c =>
    show Clean (allocate c s l).2.1 (allocate c s l).2.2
    unfold allocate
    split
    · exact createEntry_clean c c s l h
    · simp only
      split
      · exact createEntry_clean s.bs c _ l h
      · exact h
  | reset => exact h
  | clear => exact ⟨by simp [step, clear, freeAll_failAt, h.1], by simpa [step, clear] using h.2⟩


theorem run_clean (ops : List Op) (s : XArr) (l : Ledger) (h : Clean s l) :
    Clean (run true ops s l).1 (run true ops s l).2 := by
  induction ops generalizing s l with
  | nil => exact h
  | cons o os ih => exact ih _ _ (step_clean s l o h)

end XArr
end XalanModel.C19
