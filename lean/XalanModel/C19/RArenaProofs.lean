import XalanModel.C19.RArena
import XalanModel.C19.LedgerProofs
/-
`ReusableArenaAllocator::destroyObject` makes no allocation request (erase, then push_front).
-/
namespace XalanModel.C19
open Ledger

namespace RArena

theorem arena_destroyObject_reqs (i : Nat) (a : Arena) (l : Ledger) :
    (a.destroyObject i l).2.2.reqs = l.reqs := by
  unfold Arena.destroyObject
  split <;> simp [free_reqs]

theorem setBlock_head (i : Nat) (b : Arena) (r : RArena) : (setBlock i b r).head = r.head := by
  unfold setBlock; split <;> rfl

theorem moveToFront_reqs (i : Nat) (r : RArena) (l : Ledger) (hh : r.head.isSome) :
    (moveToFront false i r l).2.2.reqs = l.reqs := by
  unfold moveToFront
  cases hn : r.nodes[i]? with
  | none => rfl
  | some nb =>
    obtain ⟨n, b⟩ := nb
    simp only [Bool.false_eq_true, if_false]
    unfold pushFront getNode eraseAt
    simp only [hn]
    cases hhd : r.head with
    | none => simp [hhd] at hh
    | some h => simp

theorem destroyObject_reqs (blk slot : Nat) (r : RArena) (l : Ledger) (hh : r.head.isSome) :
    (destroyObject false blk slot r l).2.2.reqs = l.reqs := by
  unfold destroyObject
  simp only
  split
  · split
    · rename_i b hb
      cases hd : b.destroyObject slot l with
      | mk o rest =>
        obtain ⟨b1, l1⟩ := rest
        have hr := arena_destroyObject_reqs slot b l
        rw [hd] at hr
        cases o with
        | ok =>
          simp only
          split
          · rw [moveToFront_reqs _ _ _ (by rw [setBlock_head]; exact hh)]; exact hr
          · exact hr
        | oom => exact hr
        | ub => exact hr
    · rfl
  · split
    · rfl
    · split
      · rename_i b hb
        cases hd : b.destroyObject slot l with
        | mk o rest =>
          obtain ⟨b1, l1⟩ := rest
          have hr := arena_destroyObject_reqs slot b l
          rw [hd] at hr
          cases o with
          | ok =>
            simp only
            split
            · rw [moveToFront_reqs _ _ _ (by rw [setBlock_head]; exact hh)]; exact hr
            · exact hr
          | oom => exact hr
          | ub => exact hr
      · rfl

end RArena
end XalanModel.C19
