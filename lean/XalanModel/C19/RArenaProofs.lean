import XalanModel.C19.RArena
import XalanModel.C19.LedgerProofs
import XalanModel.C19.ArenaProofs
import XalanModel.C19.XMapProofs
/-
`ReusableArenaAllocator::destroyObject` makes no allocation request (erase, then push_front).
-/
namespace XalanModel.C19
open Ledger

namespace RArena

theorem arena_destroyObject_reqs (i : Nat) (a : Arena) (l : Ledger) :
    (a.destroyObject i l).2.2.reqs = l.reqs := by
  unfold Arena.destroyObject
  split <;> simp [free_reqs]

theorem setBlock_head (i : Nat) (b : Arena) (r : RArena) : (setBlock i b r).head = r.head := by
  unfold setBlock; split <;> rfl

theorem moveToFront_reqs (i : Nat) (r : RArena) (l : Ledger) (hh : r.head.isSome) :
    (moveToFront false i r l).2.2.reqs = l.reqs := by
  unfold moveToFront
  cases hn : r.nodes[i]? with
  | none => rfl
  | some nb =>
    obtain ⟨n, b⟩ := nb
    simp only [Bool.false_eq_true, if_false]
    unfold pushFront getNode eraseAt
    simp only [hn]
    cases hhd : r.head with
    | none => simp [hhd] at hh
    | some h => simp

theorem destroyObject_reqs (blk slot : Nat) (r : RArena) (l : Ledger) (hh : r.head.isSome) :
    (destroyObject false blk slot r l).2.2.reqs = l.reqs := by
  unfold destroyObject
  simp only
  split
  · split
    · rename_i b hb
      cases hd : b.destroyObject slot l with
      | mk o rest =>
        obtain ⟨b1, l1⟩ := rest
        have hr := arena_destroyObject_reqs slot b l
        rw [hd] at hr
        cases o with
        | ok =>
          simp only
          split
          · rw [moveToFront_reqs _ _ _ (by rw [setBlock_head]; exact hh)]; exact hr
          · exact hr
        | oom => exact hr
        | ub => exact hr
    · rfl
  · split
    · rfl
    · split
      · rename_i b hb
        cases hd : b.destroyObject slot l with
        | mk o rest =>
          obtain ⟨b1, l1⟩ := rest
          have hr := arena_destroyObject_reqs slot b l
          rw [hd] at hr
          cases o with
          | ok =>
            simp only
            split
            · rw [moveToFront_reqs _ _ _ (by rw [setBlock_head]; exact hh)]; exact hr
            · exact hr
          | oom => exact hr
          | ub => exact hr
      · rfl

/-! ### ownership: balanced and failure-contained -/

structure RInv (r : RArena) (l : Ledger) (f : List Nat) (n : Nat) : Prop where
  blocks : ∀ nb ∈ r.nodes, nb.2.Inv
  holds : Holds l r.owned f n
  head : r.nodes ≠ [] → r.head.isSome

theorem count_owned (r : RArena) (a : Nat) :
    r.owned.count a = r.head.toList.count a + (r.nodes.map (·.1)).count a + r.freeNodes.count a + r.lost.count a
      + (r.nodes.flatMap (·.2.owned)).count a := by
  simp only [owned, List.count_append]; omega

/-- a list node for an insertion: what it costs and what it leaves -/
theorem getNode_spec (r : RArena) (l : Ledger) (o f : List Nat) (n : Nat) (h : Holds l (r.owned ++ o) f n) :
    (getNode r l).2.1.nodes = r.nodes ∧ (getNode r l).2.1.lost = r.lost ∧ (getNode r l).2.1.bs = r.bs ∧
    Holds (getNode r l).2.2 ((getNode r l).1.toList ++ ((getNode r l).2.1.owned ++ o)) f n ∧
    ((getNode r l).1.isSome → (getNode r l).2.1.head.isSome) ∧
    (r.head.isSome → r.freeNodes ≠ [] → (getNode r l).1.isSome ∧ (getNode r l).2.2 = l) ∧
    (r.head.isSome → (getNode r l).2.1.head.isSome) := by
  unfold getNode
  cases hh : r.head with
  | some h0 =>
    simp only
    cases hf : r.freeNodes with
    | cons nd rest =>
      refine ⟨rfl, rfl, rfl, ?_, by simp [hh], fun _ _ => ⟨by simp, rfl⟩, by simp [hh]⟩
      refine holds_congr h (fun a => ?_)
      simp [count_owned, hh, hf, List.count_append, List.count_cons]; omega
    | nil =>
      simp only
      cases ha : l.alloc with
      | mk on l2 =>
        cases on with
        | none =>
          refine ⟨rfl, rfl, rfl, ?_, by simp, fun _ hne => absurd rfl hne, by simp [hh]⟩
          simpa using holds_alloc_none h ha
        | some nd =>
          refine ⟨rfl, rfl, rfl, ?_, by simp [hh], fun _ hne => absurd rfl hne, by simp [hh]⟩
          simpa using holds_alloc h ha
  | none =>
    simp only
    cases ha : l.alloc with
    | mk oh l1 =>
      cases oh with
      | none =>
        refine ⟨rfl, rfl, rfl, ?_, by simp, fun hs => by simp at hs, fun hs => by simp at hs⟩
        simpa [ha] using holds_alloc_none h ha
      | some h0 =>
        have h1 := holds_alloc h ha
        simp only
        cases hf : r.freeNodes with
        | cons nd rest =>
          refine ⟨rfl, rfl, rfl, ?_, by simp, fun hs => by simp at hs, fun hs => by simp at hs⟩
          refine holds_congr h1 (fun a => ?_)
          simp [count_owned, hh, hf, List.count_append, List.count_cons]; omega
        | nil =>
          simp only
          cases ha2 : l1.alloc with
          | mk on l2 =>
            cases on with
            | none =>
              refine ⟨rfl, rfl, rfl, ?_, by simp, fun hs => by simp at hs, fun hs => by simp at hs⟩
              refine holds_congr (holds_alloc_none h1 ha2) (fun a => ?_)
              simp [count_owned, hh, hf, List.count_append, List.count_cons]; omega
            | some nd =>
              refine ⟨rfl, rfl, rfl, ?_, by simp, fun hs => by simp at hs, fun hs => by simp at hs⟩
              refine holds_congr (holds_alloc h1 ha2) (fun a => ?_)
              simp [count_owned, hh, hf, List.count_append, List.count_cons]; omega

theorem pushFront_spec (b : Arena) (r : RArena) (l : Ledger) (f : List Nat) (n : Nat)
    (h : Holds l (b.owned ++ r.owned) f n) :
    ((pushFront b r l).1 = .ok → (∃ nd, (pushFront b r l).2.1.nodes = (nd, b) :: r.nodes) ∧
        (pushFront b r l).2.1.head.isSome ∧ Holds (pushFront b r l).2.2 (pushFront b r l).2.1.owned f n) ∧
    ((pushFront b r l).1 ≠ .ok → (pushFront b r l).2.1.nodes = r.nodes ∧
        Holds (pushFront b r l).2.2 (b.owned ++ (pushFront b r l).2.1.owned) f n ∧
        (r.head.isSome → (pushFront b r l).2.1.head.isSome)) ∧
    (pushFront b r l).1 ≠ .ub ∧ (pushFront b r l).2.1.lost = r.lost ∧ (pushFront b r l).2.1.bs = r.bs ∧
    (r.head.isSome → r.freeNodes ≠ [] → (pushFront b r l).1 = .ok ∧ (pushFront b r l).2.2 = l) := by
  unfold pushFront
  obtain ⟨g1, g2, g3, g4, g5, g6, g7⟩ := getNode_spec r l b.owned f n
    (holds_congr h (fun a => by simp [List.count_append]; omega))
  cases hg : getNode r l with
  | mk on rest =>
    obtain ⟨r1, l1⟩ := rest
    rw [hg] at g1 g2 g3 g4 g5 g6 g7
    simp only at g1 g2 g3 g4 g5 g6 g7
    cases on with
    | none =>
      refine ⟨by simp, fun _ => ⟨g1, ?_, g7⟩, by simp, g2, g3, fun hh hf => by have := (g6 hh hf).1; simp at this⟩
      refine holds_congr g4 (fun a => ?_)
      simp [List.count_append]; omega
    | some nd =>
      refine ⟨fun _ => ⟨⟨nd, by simp [g1]⟩, g5 rfl, ?_⟩, by simp, by simp, g2, g3,
        fun hh hf => ⟨rfl, (g6 hh hf).2⟩⟩
      refine holds_congr g4 (fun a => ?_)
      simp [count_owned, g1, List.count_append, List.count_cons]; omega

theorem create_objBlocks (n : Nat) (l l1 : Ledger) (a : Arena) (h : Arena.create n l = (some a, l1)) :
    a.objBlocks = [] := by
  unfold Arena.create at h
  cases ha : l.alloc with
  | mk ob l2 =>
    cases ob with
    | none => simp [ha] at h
    | some b =>
      simp only [ha] at h
      cases ha2 : l2.alloc with
      | mk oa l3 =>
        cases oa with
        | none => simp [ha2] at h
        | some arr =>
          simp only [ha2, Prod.mk.injEq, Option.some.injEq] at h
          obtain ⟨rfl, _⟩ := h
          have := Arena.blocksOf_replicate n
          simpa [Arena.objBlocks, Arena.blocksOf] using this

theorem ensureFront_spec (r : RArena) (l : Ledger) (f : List Nat) (n : Nat) (hi : RInv r l f n) :
    RInv (ensureFront r l).2.1 (ensureFront r l).2.2 f n ∧ (ensureFront r l).1 ≠ .ub ∧
    ((ensureFront r l).1 = .ok → (ensureFront r l).2.1.nodes ≠ []) := by
  unfold ensureFront
  split
  · -- a new block
    have h0 : Holds l [] (r.owned ++ f) n := holds_frame_in (by simpa using hi.holds)
    obtain ⟨cn, cs⟩ := Arena.create_spec r.bs l (r.owned ++ f) n h0
    cases hc : Arena.create r.bs l with
    | mk onb l1 =>
      cases onb with
      | none =>
        refine ⟨⟨hi.blocks, ?_, hi.head⟩, by simp, by simp⟩
        exact holds_congr (holds_frame_out (cn l1 hc)) (fun a => by simp)
      | some nb =>
        obtain ⟨nbi, nbh, _⟩ := cs nb l1 hc
        have hnb : Holds l1 (nb.owned ++ r.owned) f n := holds_frame_out nbh
        obtain ⟨pok, pno, pub, plost, _, _⟩ := pushFront_spec nb r l1 f n hnb
        simp only
        cases hp : pushFront nb r l1 with
        | mk o rest =>
          obtain ⟨r2, l2⟩ := rest
          rw [hp] at pok pno pub plost
          simp only at pok pno pub plost
          cases o with
          | ub => exact absurd rfl pub
          | ok =>
            obtain ⟨⟨nd, hn⟩, hh, hH⟩ := pok rfl
            refine ⟨⟨fun x hx => ?_, hH, fun _ => hh⟩, by simp, fun _ => by rw [hn]; simp⟩
            rw [hn] at hx
            cases List.mem_cons.mp hx with
            | inl he => subst he; exact nbi
            | inr hm => exact hi.blocks x hm
          | oom =>
            obtain ⟨hn, hH, hh⟩ := pno (by simp)
            refine ⟨⟨fun x hx => hi.blocks x (by simpa [hn] using hx), ?_, fun hne => hh (hi.head (by simpa [hn] using hne))⟩, by simp, by simp⟩
            refine holds_congr hH (fun a => ?_)
            have hob := create_objBlocks r.bs l l1 nb hc
            simp [count_owned, Arena.owned, hob, hn, List.count_append, List.count_cons]; omega
  · rename_i hneed
    refine ⟨hi, by simp, fun _ hnil => ?_⟩
    simp only at hnil
    simp [needNew, hnil] at hneed

theorem constructFront_spec (x : Int) (r : RArena) (l : Ledger) (f : List Nat) (n : Nat) (hi : RInv r l f n)
    (hne : r.nodes ≠ []) :
    RInv (constructFront x r l).2.2.1 (constructFront x r l).2.2.2 f n ∧ (constructFront x r l).1 ≠ .ub := by
  unfold constructFront
  cases hn : r.nodes with
  | nil => exact absurd hn hne
  | cons nb rest =>
    obtain ⟨nd, b⟩ := nb
    simp only
    have hbi : b.Inv := hi.blocks (nd, b) (by rw [hn]; simp)
    have hrest : ∀ y ∈ rest, y.2.Inv := fun y hy => hi.blocks y (by rw [hn]; simp [hy])
    have hhead : r.head.isSome := hi.head hne
    -- the front block, everything else in the frame
    have hsplit : ∀ a, r.owned.count a = b.owned.count a + (r.head.toList.count a + (if nd = a then 1 else 0)
        + (rest.map (·.1)).count a + r.freeNodes.count a + r.lost.count a + (rest.flatMap (·.2.owned)).count a) := by
      intro a; rw [count_owned, hn]; simp [List.count_cons, List.count_append]; omega
    generalize hothers : (r.head.toList ++ (nd :: (rest.map (·.1) ++ (r.freeNodes ++ (r.lost ++ rest.flatMap (·.2.owned)))))) = others
    have hb : Holds l b.owned (others ++ f) n := by
      apply holds_frame_in
      refine holds_congr hi.holds (fun a => ?_)
      rw [hsplit a, ← hothers]; simp [List.count_append, List.count_cons]; omega
    obtain ⟨ci, ch, cub⟩ := Arena.construct_spec x b l (others ++ f) n hbi hb
    have hback : ∀ (nodes' : List (Nat × Arena)), (∀ a, (nodes'.map (·.1)).count a + (nodes'.flatMap (·.2.owned)).count a
          = (if nd = a then 1 else 0) + (rest.map (·.1)).count a + (b.construct x l).2.2.1.owned.count a + (rest.flatMap (·.2.owned)).count a) →
        Holds (b.construct x l).2.2.2 ({ r with nodes := nodes' } : RArena).owned f n := by
      intro nodes' hc
      refine holds_congr (holds_frame_out ch) (fun a => ?_)
      rw [count_owned, ← hothers]
      have := hc a
      simp [List.count_append, List.count_cons] at this ⊢; omega
    have hblocks : ∀ (nodes' : List (Nat × Arena)), (∀ y ∈ nodes', y = (nd, (b.construct x l).2.2.1) ∨ y ∈ rest) →
        ∀ y ∈ nodes', y.2.Inv := by
      intro nodes' hm y hy
      rcases hm y hy with he | hr
      · subst he; exact ci
      · exact hrest y hr
    split
    · split
      · refine ⟨⟨hblocks _ (fun y hy => by simpa using hy), hback _ (fun a => by simp [List.count_cons, List.count_append]; omega), fun _ => hhead⟩, by simp⟩
      · refine ⟨⟨hblocks _ (fun y hy => by
            simp only [List.mem_append, List.mem_singleton] at hy
            rcases hy with hy | hy
            · exact Or.inr hy
            · exact Or.inl hy), hback _ (fun a => by simp [List.count_cons, List.count_append]; omega), fun _ => hhead⟩, by simp⟩
    · exact ⟨⟨hblocks _ (fun y hy => by simpa using hy), hback _ (fun a => by simp [List.count_cons, List.count_append]; omega), fun _ => hhead⟩, cub⟩

theorem create_spec (x : Int) (r : RArena) (l : Ledger) (f : List Nat) (n : Nat) (hi : RInv r l f n) :
    RInv (create x r l).2.2.1 (create x r l).2.2.2 f n ∧ (create x r l).1 ≠ .ub := by
  unfold create
  obtain ⟨ei, eub, ene⟩ := ensureFront_spec r l f n hi
  cases he : ensureFront r l with
  | mk o rest =>
    obtain ⟨r1, l1⟩ := rest
    rw [he] at ei eub ene
    simp only at ei eub ene
    cases o with
    | ub => exact absurd rfl eub
    | oom => exact ⟨ei, by simp⟩
    | ok => exact constructFront_spec x r1 l1 f n ei (ene rfl)

theorem moveToFront_spec (j : Nat) (r : RArena) (l : Ledger) (f : List Nat) (n : Nat) (hi : RInv r l f n) :
    RInv (moveToFront false j r l).2.1 (moveToFront false j r l).2.2 f n := by
  unfold moveToFront
  cases hn : r.nodes[j]? with
  | none => exact hi
  | some nb =>
    obtain ⟨nd, b⟩ := nb
    simp only [Bool.false_eq_true, if_false]
    obtain ⟨hs1, _⟩ := list_set_split r.nodes j (nd, b) hn
    have hne : r.nodes ≠ [] := by intro h0; rw [h0] at hn; simp at hn
    have hhead := hi.head hne
    have herase : (eraseAt j r).nodes = r.nodes.take j ++ r.nodes.drop (j + 1) ∧ (eraseAt j r).freeNodes = nd :: r.freeNodes
        ∧ (eraseAt j r).head = r.head ∧ (eraseAt j r).lost = r.lost := by
      unfold eraseAt; simp [hn, List.eraseIdx_eq_take_drop_succ]
    obtain ⟨e1, e2, e3, e4⟩ := herase
    generalize hpre : r.nodes.take j = pre at hs1 e1
    generalize hpost : r.nodes.drop (j + 1) = post at hs1 e1
    have hH : Holds l (b.owned ++ (eraseAt j r).owned) f n := by
      refine holds_congr hi.holds (fun a => ?_)
      rw [List.count_append, count_owned, count_owned, e1, e2, e3, e4, hs1]
      simp [List.flatMap_append, List.count_append, List.count_cons]; omega
    obtain ⟨pok, _, _, _, _, pfast⟩ := pushFront_spec b (eraseAt j r) l f n hH
    obtain ⟨hok, _⟩ := pfast (by rw [e3]; exact hhead) (by rw [e2]; simp)
    obtain ⟨⟨nd2, hnodes⟩, hh2, hH2⟩ := pok hok
    refine ⟨fun y hy => ?_, hH2, fun _ => hh2⟩
    rw [hnodes, e1] at hy
    simp only [List.mem_cons, List.mem_append] at hy
    rcases hy with hy | hy | hy
    · subst hy; exact hi.blocks (nd, b) (by rw [hs1]; simp)
    · exact hi.blocks y (by rw [hs1]; simp [hy])
    · exact hi.blocks y (by rw [hs1]; simp [hy])

/-- destroy the object in `slot` of the block at position `i`, then move the block at position `j` to the front when
`mv` — the common shape of both scans of destroyObject -/
theorem destroyAt_spec (i : Nat) (slot : Nat) (mv : Prop) [Decidable mv] (j : Nat) (b : Arena) (r : RArena) (l : Ledger) (f : List Nat) (n : Nat)
    (hi : RInv r l f n) (hb : (r.nodes.map (·.2))[i]? = some b) :
    RInv (match b.destroyObject slot l with
          | (.ok, b1, l1) => if mv then moveToFront false j (setBlock i b1 r) l1 else (.ok, setBlock i b1 r, l1)
          | (o, _, l1) => (o, r, l1)).2.1
         (match b.destroyObject slot l with
          | (.ok, b1, l1) => if mv then moveToFront false j (setBlock i b1 r) l1 else (.ok, setBlock i b1 r, l1)
          | (o, _, l1) => (o, r, l1)).2.2 f n := by
  have hnode : ∃ nd, r.nodes[i]? = some (nd, b) := by
    rw [List.getElem?_map] at hb
    cases hx : r.nodes[i]? with
    | none => simp [hx] at hb
    | some nb => obtain ⟨nd, b0⟩ := nb; simp [hx] at hb; exact ⟨nd, by rw [hb]⟩
  obtain ⟨nd, hn⟩ := hnode
  obtain ⟨hs1, hset⟩ := list_set_split r.nodes i (nd, b) hn
  generalize hpre : r.nodes.take i = pre at hs1 hset
  generalize hpost : r.nodes.drop (i + 1) = post at hs1 hset
  have hbi : b.Inv := hi.blocks (nd, b) (by rw [hs1]; simp)
  generalize hothers : (r.head.toList ++ ((pre.map (·.1) ++ nd :: post.map (·.1)) ++ (r.freeNodes ++ (r.lost ++ (pre.flatMap (·.2.owned) ++ post.flatMap (·.2.owned)))))) = others
  have hbH : Holds l b.owned (others ++ f) n := by
    apply holds_frame_in
    refine holds_congr hi.holds (fun a => ?_)
    rw [count_owned, ← hothers, hs1]
    simp [List.flatMap_append, List.count_append, List.count_cons]; omega
  obtain ⟨di, dh, _⟩ := Arena.destroyObject_spec slot b l (others ++ f) n hbi hbH
  cases hd : b.destroyObject slot l with
  | mk o rest =>
    obtain ⟨b1, l1⟩ := rest
    rw [hd] at di dh
    simp only at di dh
    have hset1 : RInv (setBlock i b1 r) l1 f n := by
      have hsb : (setBlock i b1 r).nodes = pre ++ (nd, b1) :: post ∧ (setBlock i b1 r).head = r.head ∧
          (setBlock i b1 r).freeNodes = r.freeNodes ∧ (setBlock i b1 r).lost = r.lost := by
        unfold setBlock; simp [hn, hset]
      obtain ⟨s1, s2, s3, s4⟩ := hsb
      refine ⟨fun y hy => ?_, ?_, fun _ => ?_⟩
      · rw [s1] at hy
        simp only [List.mem_append, List.mem_cons] at hy
        rcases hy with hy | hy | hy
        · exact hi.blocks y (by rw [hs1]; simp [hy])
        · subst hy; exact di
        · exact hi.blocks y (by rw [hs1]; simp [hy])
      · refine holds_congr (holds_frame_out dh) (fun a => ?_)
        rw [count_owned, s1, s2, s3, s4, ← hothers]
        simp [List.flatMap_append, List.count_append, List.count_cons]; omega
      · rw [s2]; exact hi.head (by rw [hs1]; simp)
    cases o with
    | ok =>
      simp only
      split
      · exact moveToFront_spec j _ l1 f n hset1
      · exact hset1
    | oom =>
      -- Arena.destroyObject never throws: the ledger is the one it was given
      simp only
      have hl : l1 = l := by
        have := hd; unfold Arena.destroyObject at this
        split at this <;> simp at this
      rw [hl]; exact hi
    | ub =>
      simp only
      have hl : l1 = l := by
        have := hd; unfold Arena.destroyObject at this
        split at this <;> simp at this
        exact this.2.symm
      rw [hl]; exact hi

theorem destroyObject_balance (blk slot : Nat) (r : RArena) (l : Ledger) (f : List Nat) (n : Nat) (hi : RInv r l f n) :
    RInv (destroyObject false blk slot r l).2.1 (destroyObject false blk slot r l).2.2 f n := by
  unfold destroyObject
  simp only
  split
  · rename_i i hfi
    split
    · rename_i b hb
      exact destroyAt_spec i slot (i ≠ 0) i b r l f n hi hb
    · exact hi
  · split
    · exact hi
    · rename_i j hfj
      split
      · rename_i b hb
        exact destroyAt_spec (((r.nodes.map (·.2)).takeWhile available).length + j) slot
          (((r.nodes.map (·.2)).takeWhile available).length + j + 1 ≠ (r.nodes.map (·.2)).length)
          ((r.nodes.map (·.2)).takeWhile available).length b r l f n hi hb
      · exact hi

/-- `~ReusableArenaAllocator`: every block destroyed (repaired block destructor), the list nodes and the sentinel freed -/
theorem destroy_blocks_fold (nodes : List (Nat × Arena)) (l : Ledger) (o f : List Nat) (n : Nat)
    (hb : ∀ nb ∈ nodes, nb.2.Inv) (h : Holds l (nodes.flatMap (·.2.owned) ++ o) f n) :
    ∃ l1, nodes.foldl destroyStep (.ok, l) = (.ok, l1) ∧ Holds l1 o f n := by
  induction nodes generalizing l with
  | nil => exact ⟨l, rfl, by simpa using h⟩
  | cons nb rest ih =>
    simp only [List.foldl_cons, destroyStep]
    have hnb : Holds l nb.2.owned ((rest.flatMap (·.2.owned) ++ o) ++ f) n :=
      holds_frame_in (by simpa [List.flatMap_cons, List.append_assoc] using h)
    obtain ⟨d1, d2⟩ := Arena.destroy_spec nb.2 l _ n (hb nb (List.mem_cons_self ..)) hnb
    cases hd : nb.2.destroy true l with
    | mk o1 l1 =>
      rw [hd] at d1 d2
      simp only at d1 d2
      subst d1
      exact ih l1 (fun x hx => hb x (List.mem_cons_of_mem _ hx))
        (holds_congr (holds_frame_out d2) (fun a => by simp))

theorem destroy_balance (r : RArena) (l : Ledger) (f : List Nat) (n : Nat) (hi : RInv r l f n) :
    (destroy r l).1 = .ok ∧ Holds (destroy r l).2 r.lost f n := by
  unfold destroy
  obtain ⟨l1, hf, hH⟩ := destroy_blocks_fold r.nodes l (r.nodes.map (·.1) ++ (r.freeNodes ++ (r.head.toList ++ r.lost))) f n hi.blocks
    (holds_congr hi.holds (fun a => by simp [count_owned, List.count_append]; omega))
  dsimp only
  rw [hf]
  refine ⟨rfl, ?_⟩
  cases hh : r.head with
  | none =>
    simp only
    apply holds_freeAll
    apply holds_freeAll
    simpa [hh] using hH
  | some h0 =>
    simp only
    apply holds_free
    apply holds_freeAll
    apply holds_freeAll
    simpa [hh] using hH

end RArena
end XalanModel.C19
