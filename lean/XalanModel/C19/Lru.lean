import XalanModel.C19.Ledger
/-
C19 — the evicting object caches of the engine (ICUFormatNumberFunctor::m_decimalFormatCache, the collator cache of
ICUBridgeCollationCompareFunctorImpl; both `XalanList`s of (key, object*), most recently used first, bound `eCacheMax`):

  lookup(key):   find_if over the list; found and not first: splice the entry to the front; return its object
  miss:          obj = create(...)                                         (one block of the manager; may be refused)
                 cache(obj, key):  if (list.size() == eCacheMax) { Guard g(list.<destroyEnd>().m_obj); list.pop_<popEnd>(); }
                                   list.push_front(empty entry); front.m_obj = obj; front.key = key
  destructor:    destroys the object of every entry

`Shape` is what the translator reads from the working tree (Generated/C19_Caches.lean): which end's object the guard destroys
and which end is removed.  As written both are `back`.  The seeded mutation J destroys `front` and removes `back`: the most
recently used object is destroyed but stays cached, the evicted one is dropped alive.
Objects are named by their ledger block.  Core Lean only.
-/
namespace XalanModel.C19

structure LruShape where
  destroyFront : Bool      -- the guard takes front().m_obj  (as written: back())
  popFront : Bool          -- pop_front()                    (as written: pop_back())
deriving Repr, DecidableEq

def LruShape.asWritten : LruShape := ⟨false, false⟩

structure Lru where
  bound : Nat
  entries : List (Nat × Nat) := []      -- (key, object), most recently used first
deriving Repr, DecidableEq

namespace Lru

def objs (c : Lru) : List Nat := c.entries.map (·.2)

/-- the guard's destructor: destroys the object it holds, if any -/
def freeOpt (l : Ledger) : Option Nat → Ledger
  | some o => l.free o
  | none => l

/-- the eviction block of `cache()` when the cache is full -/
def evict (sh : LruShape) (c : Lru) (l : Ledger) : Lru × Ledger :=
  let victim : Option Nat := if sh.destroyFront then c.entries.head?.map (·.2) else c.entries.getLast?.map (·.2)
  let l1 := freeOpt l victim
  ({ c with entries := if sh.popFront then c.entries.tail else c.entries.dropLast }, l1)

/-- one use of `key` (format-number with that symbol set / a comparison in that locale) -/
def use (sh : LruShape) (key : Nat) (c : Lru) (l : Ledger) : Out × Lru × Ledger :=
  match c.entries.find? (·.1 == key) with
  | some e => (.ok, { c with entries := e :: c.entries.erase e }, l)          -- hit: spliced to the front
  | none =>
    match l.alloc with                                                          -- miss: create the object
    | (none, l1) => (.oom, c, l1)
    | (some o, l1) =>
      let r := if c.entries.length = c.bound then evict sh c l1 else (c, l1)
      (.ok, { r.1 with entries := (key, o) :: r.1.entries }, r.2)

def run (sh : LruShape) : List Nat → Lru → Ledger → Lru × Ledger
  | [], c, l => (c, l)
  | k :: ks, c, l => let r := use sh k c l; run sh ks r.2.1 r.2.2

/-- the destructor -/
def destroy (c : Lru) (l : Ledger) : Ledger := l.freeAll c.objs

end Lru
end XalanModel.C19
