import XalanModel.C19.StrCache
import XalanModel.C19.LedgerProofs
/-
`XalanDOMStringCache`: the strings that are alive in the allocator are exactly (as a multiset) the strings the
busy list and the available list name, and no string is destroyed twice — after every operation of every history.
-/
namespace XalanModel.C19
open Ledger
namespace StrCache

theorem count_cons_erase {b : Nat} {xs : List Nat} (h : b ∈ xs) (a : Nat) :
    (b :: xs.erase b).count a = xs.count a := by
  rw [List.count_cons, List.count_erase]
  by_cases hab : a = b
  · subst hab
    have : 0 < xs.count a := List.count_pos_iff.mpr h
    simp; omega
  · have h1 : (b == a) = false := by simp [Ne.symm hab]
    simp [h1]

theorem get_inv (s : StrCache) (l : Ledger) (n : Nat) (h : Holds l s.named [] n) :
    Holds (get s l).2.2 (get s l).2.1.named [] n := by
  unfold get
  cases hg : s.avail.getLast? with
  | none =>
    simp only
    cases ha : l.alloc with
    | mk ob l1 =>
      cases ob with
      | none => exact holds_alloc_none h ha
      | some b =>
        simp only
        refine holds_congr (holds_alloc h ha) (fun a => ?_)
        simp only [named, List.count_append, List.count_cons, List.count_nil]; omega
  | some b =>
    simp only
    obtain ⟨ys, hys⟩ := List.getLast?_eq_some_iff.mp hg
    have hav : s.avail.dropLast ++ [b] = s.avail := by rw [hys]; simp
    refine holds_congr h (fun a => ?_)
    have : s.avail.count a = (s.avail.dropLast ++ [b]).count a := by rw [hav]
    simp only [named, List.count_append, List.count_cons, List.count_nil] at this ⊢; omega

theorem release_inv (b : Nat) (s : StrCache) (l : Ledger) (n : Nat) (h : Holds l s.named [] n) :
    Holds (release false b s l).2.2 (release false b s l).2.1.named [] n := by
  unfold release
  by_cases hb : b ∈ s.busy
  · simp only [hb, if_true, Bool.false_eq_true, if_false]
    split
    · -- over the bound: the string is destroyed AND leaves the busy list
      apply holds_free
      refine holds_congr h (fun a => ?_)
      have := count_cons_erase hb a
      simp only [named, List.count_append, List.count_cons] at this ⊢; omega
    · refine holds_congr h (fun a => ?_)
      have := count_cons_erase hb a
      simp only [named, List.count_append, List.count_cons, List.count_nil] at this ⊢; omega
  · simpa [hb] using h

theorem reset_inv (s : StrCache) (l : Ledger) (n : Nat) (h : Holds l s.named [] n) :
    Holds (reset s l).2 (reset s l).1.named [] n := by
  unfold reset
  split
  · simp only [named, List.nil_append]
    apply holds_freeAll
    refine holds_congr h (fun a => ?_)
    simp [named, List.count_append, List.count_reverse]
  · refine holds_congr h (fun a => ?_)
    simp only [named, List.count_append, List.count_reverse, List.nil_append]; omega

theorem clear_inv (s : StrCache) (l : Ledger) : Holds (clear s l).2 (clear s l).1.named [] l.bad :=
  ⟨fun a => by simp [clear, named], rfl⟩

theorem step_inv (r : Run) (o : Op) (n : Nat) (h : Holds r.l r.c.named [] n) :
    Holds (step false r o).l (step false r o).c.named [] n := by
  cases o with
  | get =>
    have := get_inv r.c r.l n h
    unfold step
    cases hg : get r.c r.l with
    | mk out rest =>
      cases rest with
      | mk c1 l1 =>
        rw [hg] at this
        cases out <;> simpa using this
  | release hd =>
    unfold step
    cases hh : r.handles[hd]? with
    | none => simpa [hh] using h
    | some b => simpa [hh] using release_inv b r.c r.l n h
  | reset => simpa [step] using reset_inv r.c r.l n h
  | clear =>
    have := clear_inv r.c r.l
    rw [h.2] at this
    simpa [step] using this

theorem run_inv (ops : List Op) (r : Run) (n : Nat) (h : Holds r.l r.c.named [] n) :
    Holds (run false r ops).l (run false r ops).c.named [] n := by
  induction ops generalizing r with
  | nil => simpa [run] using h
  | cons o os ih => exact ih _ (step_inv r o n h)

/-- `release()` keeps the available list within `m_maximumSize + 1` -/
theorem release_bound (b : Nat) (s : StrCache) (l : Ledger) (h : s.avail.length ≤ s.maxSize + 1) :
    (release false b s l).2.1.avail.length ≤ (release false b s l).2.1.maxSize + 1 := by
  unfold release
  split
  · split
    · simpa using h
    · simp only [List.length_append, List.length_cons, List.length_nil]; omega
  · exact h

end StrCache
end XalanModel.C19
