/-
C19 — allocation ledger of one MemoryManager, as the property sees it.

`live` is the multiset of outstanding blocks, `reqs` counts allocation requests (granted or
refused), `failAt = k ≠ 0` makes the k-th request throw (once: the counter moves on), `bad`
counts `deallocate` calls for a pointer that is not outstanding (a double free or a foreign
free).  Core Lean only (linked into `xm_c19`).
-/
namespace XalanModel.C19

structure Ledger where
  live : List Nat := []
  next : Nat := 1
  reqs : Nat := 0
  failAt : Nat := 0
  bad : Nat := 0
deriving Repr, DecidableEq

namespace Ledger

/-- `MemoryManager::allocate`: `none` = the manager threw. -/
def alloc (l : Ledger) : Option Nat × Ledger :=
  if l.reqs + 1 = l.failAt then (none, { l with reqs := l.reqs + 1 })
  else (some l.next, { l with live := l.next :: l.live, next := l.next + 1, reqs := l.reqs + 1 })

/-- `MemoryManager::deallocate(p)` for `p ≠ 0`. -/
def free (l : Ledger) (b : Nat) : Ledger :=
  if b ∈ l.live then { l with live := l.live.erase b } else { l with bad := l.bad + 1 }

def freeAll (l : Ledger) : List Nat → Ledger
  | [] => l
  | b :: bs => freeAll (l.free b) bs

/-- events of a recorded trace of the real manager (`harness/c19_memmgr.cpp`) -/
inductive Ev where
  | alloc (id : Nat)      -- granted request; the harness numbers blocks 1,2,3,…
  | refuse                -- refused request
  | free (id : Nat)       -- id 0: pointer unknown to the manager
deriving Repr, DecidableEq

/-- replay of a recorded event on the ledger: a granted request must carry the id the ledger
would hand out (ids are the harness's allocation sequence numbers), otherwise the trace is
not a trace of this manager (`none`). -/
def replay (l : Ledger) : Ev → Option Ledger
  | .alloc id => if id = l.next then some { l with live := id :: l.live, next := l.next + 1, reqs := l.reqs + 1 } else none
  | .refuse => some { l with reqs := l.reqs + 1 }
  | .free id => some (l.free id)

def replayAll (l : Ledger) : List Ev → Option Ledger
  | [] => some l
  | e :: es => (replay l e).bind (replayAll · es)

/-- the C19 specification predicate on a finished history: nothing outstanding, no double or
foreign free. -/
def Balanced (l : Ledger) : Prop := l.live = [] ∧ l.bad = 0

instance (l : Ledger) : Decidable l.Balanced := by unfold Balanced; infer_instance

end Ledger

/-- how a modelled operation ends -/
inductive Out where
  | ok
  | oom     -- the manager's exception propagates out of the operation
  | ub      -- the code dereferences an uninitialised / wild pointer or breaks a stated precondition
deriving Repr, DecidableEq

end XalanModel.C19
