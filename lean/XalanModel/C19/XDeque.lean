import XalanModel.C19.XVec
/-
C19 — `XalanDeque<T>` (src/xalanc/Include/XalanDeque.hpp) with explicit allocations, for element
types whose copy does not allocate.  A deque is an index vector of block pointers
(`m_blockIndex`), a vector of recycled blocks (`m_freeBlockVector`) and blocks that are
`XalanVector<T>` created with `XalanConstruct(mgr, ptr, mgr, m_blockSize)` (block object + buffer).

  pushNewIndexBlock():   m_blockIndex.push_back(0);                       // "allocate space first"
                         if (m_freeBlockVector.empty()) XalanConstruct(…, m_blockIndex.back(), …);
                         else { m_blockIndex.back() = m_freeBlockVector.back(); m_freeBlockVector.pop_back(); }

As written, when `XalanConstruct` throws the null pointer pushed first stays in the index:
`size()`, `push_back`, `back()`, `clear()` then dereference it.  `popNull` = the repair of
proposed/C19-deque-null-block.diff (pop the placeholder before rethrowing).
Block id 0 stands for the null pointer.  Core Lean only.
-/
namespace XalanModel.C19

structure XDeque where
  bs : Nat                               -- m_blockSize
  idx : XVec := {}                       -- m_blockIndex (items: block ids, 0 = null)
  freeV : XVec := {}                     -- m_freeBlockVector
  blocks : List (Nat × Nat × List Int) := []   -- (block object, its buffer, contents) of every block alive
deriving Repr, DecidableEq

namespace XDeque

def owned (d : XDeque) : List Nat :=
  d.idx.owned ++ (d.freeV.owned ++ (d.blocks.map (·.1) ++ d.blocks.map (·.2.1)))

def lastBlock (d : XDeque) : Option Int := d.idx.items.getLast?

def contentsOf (d : XDeque) (b : Int) : List Int :=
  match d.blocks.find? (fun bl => Int.ofNat bl.1 == b) with
  | some bl => bl.2.2
  | none => []

def setContents (d : XDeque) (b : Int) (c : List Int) : XDeque :=
  { d with blocks := d.blocks.map fun bl => if Int.ofNat bl.1 == b then (bl.1, bl.2.1, c) else bl }

/-- all elements in order (for the reply line); a null block contributes nothing -/
def elems (d : XDeque) : List Int := d.idx.items.flatMap d.contentsOf

/-- `size()`: `(m_blockIndex.size()-1) * m_blockSize + m_blockIndex.back()->size()` -/
def size (d : XDeque) : Out × Nat :=
  match d.lastBlock with
  | none => (.ok, 0)
  | some b => if b = 0 then (.ub, 0) else (.ok, (d.idx.items.length - 1) * d.bs + (d.contentsOf b).length)

def pushNewIndexBlock (popNull : Bool) (d : XDeque) (l : Ledger) : Out × XDeque × Ledger :=
  match d.idx.pushBack 0 l with
  | (.ok, idx1, l1) =>
    let d1 := { d with idx := idx1 }
    (match d.freeV.items.getLast? with
     | none =>
       -- XalanConstruct(mgr, m_blockIndex.back(), mgr, m_blockSize): block object, then its buffer
       (match l1.alloc with
        | (none, l2) => (.oom, if popNull then { d1 with idx := { idx1 with items := idx1.items.dropLast } } else d1, l2)
        | (some b, l2) =>
          if d.bs = 0 then
            (.ok, { d1 with idx := { idx1 with items := idx1.items.dropLast ++ [Int.ofNat b] },
                            blocks := d.blocks ++ [(b, 0, [])] }, l2)
          else
          match l2.alloc with
          | (none, l3) => (.oom, if popNull then { d1 with idx := { idx1 with items := idx1.items.dropLast } } else d1, l3.free b)
          | (some buf, l3) =>
            (.ok, { d1 with idx := { idx1 with items := idx1.items.dropLast ++ [Int.ofNat b] },
                            blocks := d.blocks ++ [(b, buf, [])] }, l3))
     | some fb =>
       (.ok, { d1 with idx := { idx1 with items := idx1.items.dropLast ++ [fb] },
                       freeV := { d.freeV with items := d.freeV.items.dropLast } }, l1))
  | (o, _, l1) => (o, d, l1)

def pushBack (popNull : Bool) (x : Int) (d : XDeque) (l : Ledger) : Out × XDeque × Ledger :=
  let need : Out × Bool :=
    match d.lastBlock with
    | none => (.ok, true)
    | some b => if b = 0 then (.ub, false) else (.ok, decide ((d.contentsOf b).length ≥ d.bs))
  if need.1 = .ub then (.ub, d, l) else
  let r := if need.2 then pushNewIndexBlock popNull d l else (.ok, d, l)
  match r with
  | (.ok, d1, l1) =>
    (match d1.lastBlock with
     | some b => if b = 0 then (.ub, d1, l1) else (.ok, d1.setContents b (d1.contentsOf b ++ [x]), l1)
     | none => (.ub, d1, l1))
  | other => other

/-- `~XalanDeque`: destroyBlockList(free), destroyBlockList(index) (null entries skipped), then the two vectors -/
def destroy (d : XDeque) (l : Ledger) : Ledger :=
  let l1 := d.blocks.foldl (fun acc bl => (if bl.2.1 = 0 then acc else acc.free bl.2.1).free bl.1) l
  d.idx.destroy (d.freeV.destroy l1)

end XDeque
end XalanModel.C19
