import XalanModel.C19.Ledger
/-
C19 — `XalanDOMStringCache` (src/xalanc/PlatformSupport/XalanDOMStringCache.cpp): the busy / available
partition of the strings its `XalanDOMStringReusableAllocator` has created, with the bound
`m_maximumSize` (default 100).

  get():        reserve room in m_availableList for every busy string (+1)     — so release()/reset() never allocate
                if (m_availableList.empty()) { s = m_allocator.create(); m_busyList.push_back(s); }
                else { s = m_availableList.back(); m_availableList.pop_back(); m_busyList.push_back(s); }
  release(s):   i = find(m_busyList, s);  if (i == end) return false;
                if (m_availableList.size() > m_maximumSize) m_allocator.destroy(s);
                else { s.erase(); m_availableList.push_back(s); }
                m_busyList.erase(i);  return true;
  reset():      theSize = m_availableList.size();                               — sampled ONCE, before the loop
                while (!m_busyList.empty()) { if (theSize > m_maximumSize) m_allocator.destroy(*back);
                                              else { back->clear(); m_availableList.push_back(back); }
                                              m_busyList.pop_back(); }
  clear():      m_busyList.clear(); m_availableList.clear(); m_allocator.reset();
  ~XalanDOMStringCache(): clear();

The ledger of this model is the ledger of the STRING ALLOCATOR: `alloc` = `m_allocator.create()`, `free b` =
`m_allocator.destroy(b)` (a `bad` free = destroying a string that is not alive: a second destroy, which in
the real allocator runs `~XalanDOMString` on a slot that is already on the block's free list), and
`m_allocator.reset()` destroys exactly the strings that are alive.  A string is named by its ledger id.

`early` models the mutation "release() returns right after destroying the string, before erasing it from
m_busyList": the busy list then names a destroyed string, which `reset()` destroys again.
Core Lean only.
-/
namespace XalanModel.C19

structure StrCache where
  avail : List Nat := []       -- m_availableList, back = last
  busy : List Nat := []        -- m_busyList, back = last
  maxSize : Nat := 100         -- m_maximumSize
deriving Repr, DecidableEq

namespace StrCache

/-- the strings the two lists name -/
def named (s : StrCache) : List Nat := s.busy ++ s.avail

/-- `get()`; the string handed out is the last element of `busy` afterwards.  `.oom`: `m_allocator.create()` threw. -/
def get (s : StrCache) (l : Ledger) : Out × StrCache × Ledger :=
  match s.avail.getLast? with
  | none =>
    match l.alloc with
    | (none, l1) => (.oom, s, l1)
    | (some b, l1) => (.ok, { s with busy := s.busy ++ [b] }, l1)
  | some b => (.ok, { s with avail := s.avail.dropLast, busy := s.busy ++ [b] }, l)

/-- `release(theString)`; the Bool is its return value -/
def release (early : Bool) (b : Nat) (s : StrCache) (l : Ledger) : Bool × StrCache × Ledger :=
  if b ∈ s.busy then
    if s.avail.length > s.maxSize then
      if early then (true, s, l.free b)
      else (true, { s with busy := s.busy.erase b }, l.free b)
    else (true, { s with avail := s.avail ++ [b], busy := s.busy.erase b }, l)
  else (false, s, l)

/-- `reset()`: the loop takes the busy strings from the back; its test does not change while it runs -/
def reset (s : StrCache) (l : Ledger) : StrCache × Ledger :=
  if s.avail.length > s.maxSize then ({ s with busy := [] }, l.freeAll s.busy.reverse)
  else ({ s with avail := s.avail ++ s.busy.reverse, busy := [] }, l)

/-- `clear()` / the destructor: `m_allocator.reset()` destroys the strings that are alive, each once -/
def clear (s : StrCache) (l : Ledger) : StrCache × Ledger :=
  ({ s with avail := [], busy := [] }, { l with live := [] })

inductive Op where
  | get
  | release (handle : Nat)     -- the handle-th string ever handed out by get() (0-based)
  | reset
  | clear
deriving Repr, DecidableEq

/-- state of a client: the cache, the allocator ledger, the strings handed out so far (in order) -/
structure Run where
  c : StrCache := {}
  l : Ledger := {}
  handles : List Nat := []
deriving Repr, DecidableEq

def step (early : Bool) (r : Run) : Op → Run
  | .get =>
    match get r.c r.l with
    | (.ok, c1, l1) => { c := c1, l := l1, handles := r.handles ++ c1.busy.getLast?.toList }
    | (_, c1, l1) => { r with c := c1, l := l1 }
  | .release h =>
    match r.handles[h]? with
    | none => r
    | some b => let x := release early b r.c r.l; { r with c := x.2.1, l := x.2.2 }
  | .reset => let x := reset r.c r.l; { r with c := x.1, l := x.2 }
  | .clear => let x := clear r.c r.l; { r with c := x.1, l := x.2 }

def run (early : Bool) : Run → List Op → Run
  | r, [] => r
  | r, o :: os => run early (step early r o) os

end StrCache
end XalanModel.C19
