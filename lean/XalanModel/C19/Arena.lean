import XalanModel.C19.Ledger
import XalanModel.C19.XVec
/-
C19 — `ReusableArenaBlock<T>` (src/xalanc/PlatformSupport/ReusableArenaBlock.hpp) and the
allocate / construct / commit protocol of the `*Allocator::create` functions
(e.g. XSLT/XalanElemTextAllocator.cpp):

      ObjectType* theBlock = m_allocator.allocateBlock();     // slot handed out, m_objectCount++
      new (theBlock) ObjectType(…);                            // may throw
      m_allocator.commitAllocation(theBlock);                  // m_firstFreeBlock = m_nextFreeBlock

The in-slot free list (`NextBlock{next, stamp}` written into unused slots) is abstracted to the
list of free slot indices, head first.  A slot whose constructor threw is *pending*: it is still
the head of the free list (`m_firstFreeBlock != m_nextFreeBlock`), its stamp has been overwritten
by the partial construction, so `isOccupiedBlock` says "occupied".  `destroyObject` gives a pending
slot back to the pool (without decrementing `m_objectCount`, as in the source).

`~ReusableArenaBlock` as written runs `~ObjectType` on every occupied slot — also on the pending
one (no object there: undefined).  `skipPending` = the repair of proposed/C19-arena-uncommitted.diff.
The block itself is made with `XalanConstruct` (block object + object array = 2 blocks).
Element construction = one refusable allocation (as in XList).  Core Lean only.
-/
namespace XalanModel.C19

structure Arena where
  blk : Nat                        -- the ReusableArenaBlock object
  arr : Nat                        -- m_objectBlock
  slots : List (Option (Int × Nat))  -- some (value, block owned) = a live object
  freeList : List Nat              -- free slot indices, head = m_firstFreeBlock
  pending : Bool                   -- head of freeList was handed out and not committed
  count : Nat                      -- m_objectCount
deriving Repr, DecidableEq

namespace Arena

def size (a : Arena) : Nat := a.slots.length

def objBlocks (a : Arena) : List Nat := a.slots.filterMap (fun s => s.map (·.2))

def owned (a : Arena) : List Nat := a.blk :: a.arr :: a.objBlocks

/-- `ReusableArenaBlock::create(mgr, n)` -/
def create (n : Nat) (l : Ledger) : Option Arena × Ledger :=
  match l.alloc with
  | (none, l1) => (none, l1)
  | (some b, l1) =>
    match l1.alloc with
    | (none, l2) => (none, l2.free b)                         -- ~XalanAllocationGuard
    | (some arr, l2) => (some ⟨b, arr, List.replicate n none, List.range n, false, 0⟩, l2)

/-- `T::create`: allocateBlock, placement-construct, commitAllocation.
`.oom` with the arena unchanged = block full is reported as `.ub`-free `full` flag instead. -/
def construct (x : Int) (a : Arena) (l : Ledger) : Out × Bool × Arena × Ledger :=
  if a.count = a.size then (.ok, true, a, l)                  -- allocateBlock() returns 0: block full
  else
    match a.freeList with
    | [] => (.ub, false, a, l)                                -- free list exhausted although count < size
    | i :: rest =>
      -- handed out (again, if pending); m_objectCount grows only on a fresh hand-out
      let cnt := if a.pending then a.count else a.count + 1
      match l.alloc with
      | (none, l1) => (.oom, false, { a with pending := true, count := cnt }, l1)
      | (some e, l1) =>
        (.ok, false, { a with slots := a.slots.set i (some (x, e)), freeList := rest, pending := false, count := cnt }, l1)

/-- `destroyObject(&slot i)` — `i` must hold an object -/
def destroyObject (i : Nat) (a : Arena) (l : Ledger) : Out × Arena × Ledger :=
  match a.slots[i]? with
  | some (some (_, e)) =>
    (.ok, { a with slots := a.slots.set i none, freeList := i :: a.freeList, pending := false,
                   count := a.count - 1 }, l.free e)
  | _ => (.ub, a, l)

/-- the loop of `~ReusableArenaBlock`: slots in index order while `removed < m_objectCount` -/
def destroyLoop (skipPending : Bool) (pendingIdx : Option Nat) (count : Nat) :
    List (Option (Int × Nat)) → Nat → Nat → Ledger → Out × Ledger
  | [], _, _, l => (.ok, l)
  | s :: ss, idx, removed, l =>
    if removed < count then
      if pendingIdx = some idx then
        if skipPending then destroyLoop skipPending pendingIdx count ss (idx + 1) removed l
        else (.ub, l)                                          -- ~ObjectType on a slot that holds no object
      else
        match s with
        | some (_, e) => destroyLoop skipPending pendingIdx count ss (idx + 1) (removed + 1) (l.free e)
        | none => destroyLoop skipPending pendingIdx count ss (idx + 1) removed l
    else (.ok, l)

/-- `XalanDestroy(mgr, block)`: ~ReusableArenaBlock, ~ArenaBlockBase (frees the array), deallocate -/
def destroy (skipPending : Bool) (a : Arena) (l : Ledger) : Out × Ledger :=
  let p := if a.pending then a.freeList.head? else none
  match destroyLoop skipPending p a.count a.slots 0 0 l with
  | (.ok, l1) => (.ok, (l1.free a.arr).free a.blk)
  | r => r

end Arena
end XalanModel.C19
