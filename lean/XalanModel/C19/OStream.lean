import XalanModel.C19.AutoPtr
/-
C19 — the transcoder slot of `XalanOutputStream` (src/xalanc/PlatformSupport/XalanOutputStream.cpp) as an
owner/empty state machine.

  setOutputEncoding(enc):  if (!m_encoding.empty() && m_encoding == enc) return;
                           destroyTranscoder(m_transcoder);  m_transcoder = 0;
                           if (UTF-16)  m_writeAsUTF16 = true;
                           else { m_transcoder = makeNewTranscoder(mgr, enc, code, …);     // may throw (refused allocation)
                                  if (code != OK) throw Unsupported…/TranscoderInternalFailure…; }
                           m_encoding = enc;
  ~XalanOutputStream():    destroyTranscoder(m_transcoder);

An application-owned stream lives across several results, so `setOutputEncoding` is called again and
again with different encodings.  The transcoder is an object made from the stream's manager (object
block + one internal block, as the objects of `AutoPtr.lean`).  `keepPointer` models the mutation
"m_transcoder is not reset after destroyTranscoder": the slot then names a destroyed object (`stale`).
Core Lean only.
-/
namespace XalanModel.C19

inductive Enc where
  | utf16            -- no transcoder
  | utf8 | latin1 | ascii      -- supported, need a transcoder
  | unsupported      -- makeNewTranscoder reports UnsupportedEncoding: exception
deriving Repr, DecidableEq

structure OStream where
  slot : Option Obj := none      -- m_transcoder
  stale : Bool := false          -- the slot names an object that has already been destroyed
  enc : Option Enc := none       -- m_encoding (none = empty)
deriving Repr, DecidableEq

namespace OStream

def owned (s : OStream) : List Nat :=
  if s.stale then [] else s.slot.toList.flatMap APState.objBlocks

/-- `destroyTranscoder(m_transcoder)`: destroys whatever the pointer names -/
def destroyCurrent (s : OStream) (l : Ledger) : Ledger := APState.dealloc s.slot l

/-- `lateFail`: the copy `m_encoding = theEncoding` after a successful `makeNewTranscoder` throws (the
transcoder is in place, the encoding is not recorded) — observed on the real stream. -/
def setEnc (keepPointer : Bool) (e : Enc) (s : OStream) (l : Ledger) (lateFail : Bool := false) : Out × OStream × Ledger :=
  if s.enc = some e then (.ok, s, l) else
  let l1 := destroyCurrent s l
  let s1 : OStream := if keepPointer then { s with stale := s.slot.isSome } else { s with slot := none, stale := false }
  match e with
  | .utf16 => if lateFail then (.oom, s1, l1) else (.ok, { s1 with enc := some e }, l1)
  | .unsupported => (.oom, s1, l1)                       -- an exception (not out-of-memory); the slot is as left above
  | _ =>
    match APState.createObj l1 with
    | (none, l2) => (.oom, s1, l2)
    | (some o, l2) =>
      if lateFail then (.oom, { slot := some o, stale := false, enc := s.enc }, l2)
      else (.ok, { slot := some o, stale := false, enc := some e }, l2)

def run (keepPointer : Bool) : List (Enc × Bool) → OStream → Ledger → OStream × Ledger
  | [], s, l => (s, l)
  | e :: es, s, l => let r := setEnc keepPointer e.1 s l e.2; run keepPointer es r.2.1 r.2.2

/-- `~XalanOutputStream` -/
def destroy (s : OStream) (l : Ledger) : Ledger := destroyCurrent s l

end OStream
end XalanModel.C19
