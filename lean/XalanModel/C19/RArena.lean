import XalanModel.C19.Arena
/-
C19 — `ReusableArenaAllocator<T>` (src/xalanc/PlatformSupport/ReusableArenaAllocator.hpp): the list of
blocks (`XalanList<ReusableArenaBlock*>`, element copy does not allocate) over the block model `Arena`.

  allocateBlock():   if (m_blocks.empty() || !m_blocks.front()->blockAvailable())
                         m_blocks.push_front(ReusableArenaBlockType::create(mgr, m_blockSize));
                     return m_blocks.front()->allocateBlock();
  commitAllocation:  front()->commitAllocation(p);
                     if (!front()->blockAvailable()) { b = front(); pop_front(); push_back(b); }   // full blocks to the tail
  destroyObject(p):  scan the available blocks from the head; owner found at position i:
                         owner->destroyObject(p);
                         if (i != begin) { m_blocks.erase(i); m_blocks.push_front(owner); }         // ERASE first, then push_front
                     otherwise scan from the tail down to the first unavailable block `it`; owner found at q:
                         owner->destroyObject(p);
                         if (q != rbegin) { b = *it; m_blocks.erase(it); m_blocks.push_front(b); }  // (moves *it, as written)

The list: lazily created sentinel (`head`), nodes in order, erased nodes parked on the free list and
reused by the next insertion — which is why erase-then-push_front makes no allocation request while
push_front-then-erase (`pushFirst = true`, a mutation) has to allocate a node.  destroyObject runs
under `XObjectPtr::~XObjectPtr`; a request there that is refused ends in std::terminate.
`m_destroyBlocks` is false everywhere in the tree and is not modelled.  Core Lean only.
-/
namespace XalanModel.C19

structure RArena where
  bs : Nat
  head : Option Nat := none                 -- sentinel of m_blocks
  nodes : List (Nat × Arena) := []          -- (list node, block) in list order
  freeNodes : List Nat := []                -- free list of m_blocks
  lost : List Nat := []                     -- blocks of a ReusableArenaBlock whose push_front was refused (leaked)
deriving Repr, DecidableEq

namespace RArena

def available (a : Arena) : Bool := decide (a.count < a.size)

def owned (r : RArena) : List Nat :=
  r.head.toList ++ (r.nodes.map (·.1) ++ (r.freeNodes ++ (r.lost ++ r.nodes.flatMap (·.2.owned))))

/-- a list node for an insertion: sentinel first (lazily), then a parked node or a new one -/
def getNode (r : RArena) (l : Ledger) : Option Nat × RArena × Ledger :=
  let hr : Option (RArena × Ledger) :=
    match r.head with
    | some _ => some (r, l)
    | none => match l.alloc with
      | (none, _) => none
      | (some h, l1) => some ({ r with head := some h }, l1)
  match hr with
  | none => (none, r, (l.alloc).2)
  | some (r1, l1) =>
    match r1.freeNodes with
    | n :: rest => (some n, { r1 with freeNodes := rest }, l1)
    | [] => match l1.alloc with
      | (none, l2) => (none, r1, l2)
      | (some n, l2) => (some n, r1, l2)

def pushFront (b : Arena) (r : RArena) (l : Ledger) : Out × RArena × Ledger :=
  match getNode r l with
  | (none, r1, l1) => (.oom, r1, l1)
  | (some n, r1, l1) => (.ok, { r1 with nodes := (n, b) :: r1.nodes }, l1)

def pushBack (b : Arena) (r : RArena) (l : Ledger) : Out × RArena × Ledger :=
  match getNode r l with
  | (none, r1, l1) => (.oom, r1, l1)
  | (some n, r1, l1) => (.ok, { r1 with nodes := r1.nodes ++ [(n, b)] }, l1)

def eraseAt (i : Nat) (r : RArena) : RArena :=
  match r.nodes[i]? with
  | some (n, _) => { r with nodes := r.nodes.eraseIdx i, freeNodes := n :: r.freeNodes }
  | none => r

/-- move the block at position `i` to the front; `pushFirst` is the mutated order -/
def moveToFront (pushFirst : Bool) (i : Nat) (r : RArena) (l : Ledger) : Out × RArena × Ledger :=
  match r.nodes[i]? with
  | none => (.ub, r, l)
  | some (_, b) =>
    if pushFirst then
      match pushFront b r l with
      | (.ok, r1, l1) => (.ok, eraseAt (i + 1) r1, l1)
      | other => other
    else pushFront b (eraseAt i r) l

/-- allocateBlock(), first half: a block with room at the front of the list -/
def needNew (r : RArena) : Bool := match r.nodes with | (_, b) :: _ => !available b | [] => true

def ensureFront (r : RArena) (l : Ledger) : Out × RArena × Ledger :=
  if needNew r then
    match Arena.create r.bs l with
    | (none, l1) => (.oom, r, l1)
    | (some nb, l1) =>
      match pushFront nb r l1 with
      | (.ok, r2, l2) => (.ok, r2, l2)
      | (_, r2, l2) => (.oom, { r2 with lost := nb.blk :: nb.arr :: r2.lost }, l2)   -- the new block is leaked
  else (.ok, r, l)

/-- construct in the front block and commit; a block that became full goes to the tail (pop_front parks the node,
push_back reuses it) -/
def constructFront (x : Int) (r : RArena) (l : Ledger) : Out × Option (Nat × Nat) × RArena × Ledger :=
  match r.nodes with
  | (n, b) :: rest =>
    let slot := b.freeList.head?.getD 0
    let c := b.construct x l
    let b1 := c.2.2.1
    if c.1 = .ok ∧ !c.2.1 then
      if available b1 then (.ok, some (b1.blk, slot), { r with nodes := (n, b1) :: rest }, c.2.2.2)
      else (.ok, some (b1.blk, slot), { r with nodes := rest ++ [(n, b1)] }, c.2.2.2)
    else (c.1, none, { r with nodes := (n, b1) :: rest }, c.2.2.2)
  | [] => (.ub, none, r, l)

/-- `T::create`: allocateBlock, construct (one refusable allocation), commitAllocation.
Returns the position (block object id, slot) of the new object when it was made. -/
def create (x : Int) (r : RArena) (l : Ledger) : Out × Option (Nat × Nat) × RArena × Ledger :=
  match ensureFront r l with
  | (.ok, r1, l1) => constructFront x r1 l1
  | (o, r1, l1) => (o, none, r1, l1)

def setBlock (i : Nat) (b : Arena) (r : RArena) : RArena :=
  match r.nodes[i]? with
  | some (n, _) => { r with nodes := r.nodes.set i (n, b) }
  | none => r

/-- `destroyObject(p)` for the object in slot `slot` of the block whose object id is `blk` -/
def destroyObject (pushFirst : Bool) (blk slot : Nat) (r : RArena) (l : Ledger) : Out × RArena × Ledger :=
  let blocks := r.nodes.map (·.2)
  let navail := (blocks.takeWhile available).length                   -- the head scan covers positions < navail
  match (blocks.take navail).findIdx? (fun b => b.blk == blk) with
  | some i =>
    (match blocks[i]? with
     | some b =>
       (match b.destroyObject slot l with
        | (.ok, b1, l1) =>
          let r1 := setBlock i b1 r
          if i ≠ 0 then moveToFront pushFirst i r1 l1 else (.ok, r1, l1)
        | (o, _, l1) => (o, r, l1))
     | none => (.ub, r, l))
  | none =>
    -- tail scan: positions last … navail (the first unavailable block)
    (match (blocks.drop navail).findIdx? (fun b => b.blk == blk) with
     | none => (.ub, r, l)                                            -- not an object of this allocator
     | some j =>
       let q := navail + j
       (match blocks[q]? with
        | some b =>
          (match b.destroyObject slot l with
           | (.ok, b1, l1) =>
             let r1 := setBlock q b1 r
             if q + 1 ≠ blocks.length then moveToFront pushFirst navail r1 l1 else (.ok, r1, l1)
           | (o, _, l1) => (o, r, l1))
        | none => (.ub, r, l)))

/-- `~ReusableArenaAllocator` → `ArenaAllocator::reset()`: delete every block, clear the list, ~XalanList -/
def destroyStep (acc : Out × Ledger) (nb : Nat × Arena) : Out × Ledger :=
  match acc with
  | (.ok, l1) => nb.2.destroy true l1
  | other => other

def destroy (r : RArena) (l : Ledger) : Out × Ledger :=
  match r.nodes.foldl destroyStep (.ok, l) with
  | (.ok, l1) =>
    let l2 := l1.freeAll (r.nodes.map (·.1))
    let l3 := l2.freeAll r.freeNodes
    (.ok, match r.head with | some h => l3.free h | none => l3)
  | other => other

end RArena
end XalanModel.C19
