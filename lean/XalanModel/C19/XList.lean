import XalanModel.C19.Ledger
/-
C19 — `XalanList<T>` (src/xalanc/Include/XalanList.hpp) with the allocations made explicit, for an
element type whose copy constructor allocates one block from the same manager (XalanDOMString,
XalanVector, any XALAN_USES_MEMORY_MANAGER type) and therefore may throw.

As written:
* `getListHead()` allocates the sentinel on the first `begin()` / `end()` — also when that
  call comes from `clear()`, `empty()`, `size()` in a clean-up path;
* `constructNode(data, pos)`: the caller evaluates `end()`/`begin()` first (sentinel), then
      if (m_freeListHeadPtr != 0) { newNode = m_freeListHeadPtr; nextFreeNode = newNode->next; }
      else { m_freeListHeadPtr = allocate(1); newNode = m_freeListHeadPtr; }        // next NOT initialised
      Constructor::construct(&newNode->value, data, mgr);                            // may throw
      … link …;  m_freeListHeadPtr = nextFreeNode;
  so a throwing element copy on the fresh-block path leaves `m_freeListHeadPtr` pointing at a
  block whose `next` was never written; `~XalanList` then walks `freeNode->next`.
* `freeNode` destroys the value and pushes the block on the free list; `~XalanList` does nothing
  when `m_listHead == 0`, otherwise destroys the nodes, walks the free list, frees the sentinel.

`Cfg` selects between the code as written (`false, false`) and the two local repairs proposed in
`proposed/C19-*.diff`; the check asks the real template which behaviour it has (probe requests)
and compares it with the model under that configuration.  Core Lean only.
-/
namespace XalanModel.C19

structure Cfg where
  clearGuard : Bool    -- begin()/end() do not allocate: on a list with m_listHead == 0 they return a null iterator
                       -- pair, so clear()/empty()/size()/for_each(begin(), end()) make no request
  nextInit : Bool      -- constructNode writes `newNode->next = 0` right after allocate(1)
deriving Repr, DecidableEq

def Cfg.asWritten : Cfg := ⟨false, false⟩
def Cfg.repaired : Cfg := ⟨true, true⟩

structure Elem where
  val : Int
  blk : Nat            -- the block the element owns
deriving Repr, DecidableEq

structure XList where
  head : Option Nat := none            -- m_listHead
  nodes : List (Nat × Elem) := []      -- linked nodes in order: (node block, value)
  free : List Nat := []                -- chain starting at m_freeListHeadPtr
  wild : Bool := false                 -- the chain ends in an uninitialised pointer instead of 0
deriving Repr, DecidableEq

namespace XList

def owned (s : XList) : List Nat :=
  s.head.toList ++ (s.nodes.map (·.1) ++ (s.nodes.map (·.2.blk) ++ s.free))

/-- `getListHead()` -/
def getListHead (s : XList) (l : Ledger) : Out × XList × Ledger :=
  match s.head with
  | some _ => (.ok, s, l)
  | none =>
    match l.alloc with
    | (none, l1) => (.oom, s, l1)
    | (some b, l1) => (.ok, { s with head := some b }, l1)

/-- `constructNode(data, end())` (`front = false`) / `constructNode(data, begin())` -/
def constructNode (cfg : Cfg) (front : Bool) (x : Int) (s : XList) (l : Ledger) : Out × XList × Ledger :=
  match getListHead s l with
  | (.ok, s1, l1) =>
    (match s1.free with
     | nb :: rest =>
       -- reuse: newNode = m_freeListHeadPtr; nextFreeNode = newNode->next
       (match l1.alloc with                                   -- element copy
        | (none, l2) => (.oom, s1, l2)
        | (some e, l2) =>
          let nodes' := if front then (nb, ⟨x, e⟩) :: s1.nodes else s1.nodes ++ [(nb, ⟨x, e⟩)]
          (.ok, { s1 with nodes := nodes', free := rest }, l2))
     | [] =>
       if s1.wild then (.ub, s1, l1)                          -- m_freeListHeadPtr is a wild pointer
       else
         match l1.alloc with                                  -- m_freeListHeadPtr = allocate(1)
         | (none, l2) => (.oom, s1, l2)
         | (some nb, l2) =>
           match l2.alloc with                                -- element copy
           | (none, l3) => (.oom, { s1 with free := [nb], wild := !cfg.nextInit }, l3)
           | (some e, l3) =>
             let nodes' := if front then (nb, ⟨x, e⟩) :: s1.nodes else s1.nodes ++ [(nb, ⟨x, e⟩)]
             (.ok, { s1 with nodes := nodes', free := [] }, l3))
  | r => r

def pushBack (cfg : Cfg) (x : Int) := constructNode cfg false x
def pushFront (cfg : Cfg) (x : Int) := constructNode cfg true x

/-- `pop_front()` = `erase(begin())` → `freeNode`: destroy the value, push the block on the free
list; erasing `end()` (empty list) is outside the contract -/
def popFront (cfg : Cfg) (s : XList) (l : Ledger) : Out × XList × Ledger :=
  -- with non-allocating begin()/end() a never-used list yields a null iterator: erase(null) is outside the contract
  if cfg.clearGuard && s.head.isNone then (.ub, s, l) else
  match getListHead s l with
  | (.ok, s1, l1) =>
    (match s1.nodes with
     | [] => (.ub, s1, l1)
     | (nb, e) :: rest => (.ok, { s1 with nodes := rest, free := nb :: s1.free }, l1.free e.blk))
  | r => r

/-- `pop_back()` = `erase(--end())` -/
def popBack (cfg : Cfg) (s : XList) (l : Ledger) : Out × XList × Ledger :=
  if cfg.clearGuard && s.head.isNone then (.ub, s, l) else
  match getListHead s l with
  | (.ok, s1, l1) =>
    (match s1.nodes.reverse with
     | [] => (.ub, s1, l1)
     | (nb, e) :: rrest => (.ok, { s1 with nodes := rrest.reverse, free := nb :: s1.free }, l1.free e.blk))
  | r => r

/-- the loop of `clear()`: `freeNode(pos++.node())` from the first node on -/
def freeAllNodes : List (Nat × Elem) → List Nat → Ledger → List Nat × Ledger
  | [], fr, l => (fr, l)
  | (nb, e) :: ns, fr, l => freeAllNodes ns (nb :: fr) (l.free e.blk)

def clear (cfg : Cfg) (s : XList) (l : Ledger) : Out × XList × Ledger :=
  if cfg.clearGuard && s.head.isNone then (.ok, s, l) else
  match getListHead s l with
  | (.ok, s1, l1) =>
    let r := freeAllNodes s1.nodes s1.free l1
    (.ok, { s1 with nodes := [], free := r.1 }, r.2)
  | r => r

/-- `empty()` — reports through `begin() == end()`, i.e. through `getListHead()` -/
def isEmpty (cfg : Cfg) (s : XList) (l : Ledger) : Out × XList × Ledger :=
  if cfg.clearGuard && s.head.isNone then (.ok, s, l) else getListHead s l

/-- `~XalanList()` -/
def destroy (s : XList) (l : Ledger) : Out × Ledger :=
  match s.head with
  | none => (.ok, l)
  | some h =>
    -- destroyNode for every linked node: value destructor, deallocate(node)
    let l1 := l.freeAll (s.nodes.flatMap fun n => [n.2.blk, n.1])
    -- walk the free list
    let l2 := l1.freeAll s.free
    if s.wild then (.ub, l2) else (.ok, l2.free h)

inductive Op where
  | pushBack (x : Int) | pushFront (x : Int) | popFront | popBack | clear | empty
deriving Repr, DecidableEq

def step (cfg : Cfg) (s : XList) (l : Ledger) : Op → Out × XList × Ledger
  | .pushBack x => pushBack cfg x s l
  | .pushFront x => pushFront cfg x s l
  | .popFront => popFront cfg s l
  | .popBack => popBack cfg s l
  | .clear => clear cfg s l
  | .empty => isEmpty cfg s l

def run (cfg : Cfg) : List Op → XList → Ledger → Out × XList × Ledger
  | [], s, l => (.ok, s, l)
  | op :: ops, s, l =>
    match step cfg s l op with
    | (.ub, s1, l1) => (.ub, s1, l1)
    | (_, s1, l1) => run cfg ops s1 l1

end XList
end XalanModel.C19
