import XalanModel.C19.Ledger
/-
Helper lemmas about the ledger.  `Holds l owned frame n`: the outstanding blocks are exactly
(as a multiset) the blocks `owned` by the object under study plus a `frame` of blocks that
belong to others, and `n` bad frees have happened so far.
-/
namespace XalanModel.C19
namespace Ledger

def Holds (l : Ledger) (owned frame : List Nat) (n : Nat) : Prop :=
  (∀ a, l.live.count a = owned.count a + frame.count a) ∧ l.bad = n

theorem holds_congr {l : Ledger} {o o' f : List Nat} {n : Nat} (h : Holds l o f n)
    (hc : ∀ a, o'.count a = o.count a) : Holds l o' f n :=
  ⟨fun a => by rw [h.1 a, hc a], h.2⟩

theorem alloc_some {l l1 : Ledger} {b : Nat} (h : l.alloc = (some b, l1)) :
    l1.live = b :: l.live ∧ l1.bad = l.bad ∧ l1.reqs = l.reqs + 1 ∧ l1.failAt = l.failAt := by
  unfold alloc at h
  split at h
  · cases h
  · cases h; exact ⟨rfl, rfl, rfl, rfl⟩

theorem alloc_none {l l1 : Ledger} (h : l.alloc = (none, l1)) :
    l1.live = l.live ∧ l1.bad = l.bad ∧ l1.reqs = l.reqs + 1 := by
  unfold alloc at h
  split at h
  · cases h; exact ⟨rfl, rfl, rfl⟩
  · cases h

theorem holds_alloc {l l1 : Ledger} {b : Nat} {o f : List Nat} {n : Nat}
    (h : Holds l o f n) (ha : l.alloc = (some b, l1)) : Holds l1 (b :: o) f n := by
  obtain ⟨h1, h2, _, _⟩ := alloc_some ha
  refine ⟨fun a => ?_, by rw [h2, h.2]⟩
  rw [h1, List.count_cons, List.count_cons, h.1 a]; omega

theorem holds_alloc_none {l l1 : Ledger} {o f : List Nat} {n : Nat}
    (h : Holds l o f n) (ha : l.alloc = (none, l1)) : Holds l1 o f n := by
  obtain ⟨h1, h2, _⟩ := alloc_none ha
  exact ⟨fun a => by rw [h1, h.1 a], by rw [h2, h.2]⟩

theorem free_of_mem {l : Ledger} {b : Nat} (hb : b ∈ l.live) :
    (l.free b).live = l.live.erase b ∧ (l.free b).bad = l.bad ∧ (l.free b).reqs = l.reqs := by
  unfold free; simp [hb]

theorem holds_free {l : Ledger} {b : Nat} {o f : List Nat} {n : Nat}
    (h : Holds l (b :: o) f n) : Holds (l.free b) o f n := by
  have hb : b ∈ l.live := by
    apply List.count_pos_iff.mp
    have := h.1 b
    simp only [List.count_cons_self] at this; omega
  obtain ⟨h1, h2, _⟩ := free_of_mem hb
  refine ⟨fun a => ?_, by rw [h2, h.2]⟩
  have := h.1 a
  rw [h1, List.count_erase]
  simp only [List.count_cons] at this
  by_cases hab : a = b
  · subst hab; simp at this ⊢; omega
  · have : (b == a) = false := by simp [Ne.symm hab]
    have h' : (a == b) = false := by simp [hab]
    simp_all

theorem free_reqs (l : Ledger) (b : Nat) : (l.free b).reqs = l.reqs := by
  unfold free; split <;> rfl

theorem freeAll_reqs (bs : List Nat) (l : Ledger) : (l.freeAll bs).reqs = l.reqs := by
  induction bs generalizing l with
  | nil => rfl
  | cons b bs ih => simp [freeAll, ih, free_reqs]

theorem holds_freeAll {bs : List Nat} {l : Ledger} {o f : List Nat} {n : Nat}
    (h : Holds l (bs ++ o) f n) : Holds (l.freeAll bs) o f n := by
  induction bs generalizing l with
  | nil => simpa [freeAll] using h
  | cons b bs ih => exact ih (holds_free (by simpa using h))

/-- the conclusion the property wants, in `Perm` form -/
theorem holds_nil_perm {l : Ledger} {f : List Nat} {n : Nat} (h : Holds l [] f n) :
    l.live.Perm f ∧ l.bad = n :=
  ⟨List.perm_iff_count.mpr (fun a => by simpa using h.1 a), h.2⟩

theorem holds_of_perm {l : Ledger} {f : List Nat} (h : l.live.Perm f) : Holds l [] f l.bad :=
  ⟨fun a => by simpa using (List.perm_iff_count.mp h) a, rfl⟩

end Ledger
end XalanModel.C19
