import XalanModel.C19.Lru
import XalanModel.C19.LedgerProofs
namespace XalanModel.C19
open Ledger
namespace Lru

theorem count_dropLast_getLast (xs : List Nat) (a : Nat) :
    xs.count a = (xs.getLast?.toList ++ xs.dropLast).count a := by
  cases h : xs.getLast? with
  | none => have := List.getLast?_eq_none_iff.mp h; subst this; rfl
  | some b =>
    obtain ⟨ys, hys⟩ := List.getLast?_eq_some_iff.mp h
    subst hys
    simp [List.count_append, List.count_cons]

theorem evict_core (l : Ledger) (xs : List Nat) (v : Option Nat) (hv : v = xs.getLast?) (f : List Nat) (n : Nat)
    (h : Holds l xs f n) :
    Holds (freeOpt l v) xs.dropLast f n := by
  subst hv
  cases hg : xs.getLast? with
  | none =>
    have : xs = [] := List.getLast?_eq_none_iff.mp hg
    subst this
    simpa [freeOpt] using h
  | some o =>
    simp only [freeOpt]
    apply holds_free
    refine holds_congr h (fun a => ?_)
    have := count_dropLast_getLast xs a
    rw [hg] at this
    simpa using this.symm

/-- as written (destroy the back, remove the back): the evicted object is the one destroyed -/
theorem evict_inv (c : Lru) (l : Ledger) (f : List Nat) (n : Nat) (h : Holds l c.objs f n) :
    Holds (evict .asWritten c l).2 (evict .asWritten c l).1.objs f n := by
  have hm : (c.entries.getLast?.map (·.2)) = c.objs.getLast? := by simp [objs, List.getLast?_map]
  have := evict_core l c.objs _ hm f n h
  unfold evict
  simpa [LruShape.asWritten, objs, List.map_dropLast] using this

theorem count_cons_erase' {e : Nat × Nat} {xs : List (Nat × Nat)} (h : e ∈ xs) (a : Nat) :
    ((e :: xs.erase e).map (·.2)).count a = (xs.map (·.2)).count a := by
  have hp : (e :: xs.erase e).Perm xs := (List.perm_cons_erase h).symm
  exact (hp.map (·.2)).count_eq a

theorem use_inv (key : Nat) (c : Lru) (l : Ledger) (f : List Nat) (n : Nat) (h : Holds l c.objs f n) :
    Holds (use .asWritten key c l).2.2 (use .asWritten key c l).2.1.objs f n := by
  unfold use
  cases hf : c.entries.find? (·.1 == key) with
  | some e =>
    simp only
    refine holds_congr h (fun a => ?_)
    exact count_cons_erase' (List.mem_of_find?_eq_some hf) a
  | none =>
    simp only
    cases ha : l.alloc with
    | mk ob l1 =>
      cases ob with
      | none => exact holds_alloc_none h ha
      | some o =>
        simp only
        have h1 : Holds l1 (o :: c.objs) f n := holds_alloc h ha
        -- the new object rides in the frame across the eviction
        have h1' : Holds l1 c.objs (o :: f) n :=
          ⟨fun a => by have := h1.1 a; simp only [List.count_cons] at this ⊢; omega, h1.2⟩
        split
        · have h2 := evict_inv c l1 (o :: f) n h1'
          exact ⟨fun a => by have := h2.1 a; simp only [objs, List.map_cons, List.count_cons] at this ⊢; omega, h2.2⟩
        · exact h1

theorem run_inv (ks : List Nat) (c : Lru) (l : Ledger) (f : List Nat) (n : Nat) (h : Holds l c.objs f n) :
    Holds (run .asWritten ks c l).2 (run .asWritten ks c l).1.objs f n := by
  induction ks generalizing c l with
  | nil => exact h
  | cons k ks ih => exact ih _ _ (use_inv k c l f n h)

theorem destroy_spec (c : Lru) (l : Ledger) (f : List Nat) (n : Nat) (h : Holds l c.objs f n) :
    Holds (c.destroy l) [] f n := by
  unfold destroy
  apply holds_freeAll
  simpa using h

end Lru
end XalanModel.C19
