import XalanModel.C19.XList
import XalanModel.C19.LedgerProofs
/-
Invariant proofs for the allocation-explicit XalanList model.
-/
namespace XalanModel.C19
open Ledger

namespace XList

theorem count_owned (s : XList) (a : Nat) :
    s.owned.count a = s.head.toList.count a + (s.nodes.map (·.1)).count a
      + (s.nodes.map (·.2.blk)).count a + s.free.count a := by
  simp only [owned, List.count_append]; omega

theorem getListHead_spec (s : XList) (l : Ledger) (f : List Nat) (n : Nat)
    (h : Holds l s.owned f n) :
    Holds (getListHead s l).2.2 (getListHead s l).2.1.owned f n ∧
    (getListHead s l).2.1.wild = s.wild ∧ (getListHead s l).2.1.nodes = s.nodes ∧
    (getListHead s l).2.1.free = s.free ∧ (getListHead s l).1 ≠ .ub ∧
    ((getListHead s l).1 = .ok → (getListHead s l).2.1.head.isSome) ∧
    ((getListHead s l).1 = .oom → (getListHead s l).2.1 = s) ∧
    (s.head.isSome → (getListHead s l).2.2 = l) := by
  unfold getListHead
  cases hh : s.head with
  | some b => simp [hh]; exact h
  | none =>
    cases ha : l.alloc with
    | mk ob l1 =>
      cases ob with
      | none => simp; exact holds_alloc_none h ha
      | some b =>
        simp
        refine holds_congr (holds_alloc h ha) (fun a => ?_)
        simp [count_owned, hh, List.count_cons]; omega

theorem constructNode_spec (cfg : Cfg) (front : Bool) (x : Int) (s : XList) (l : Ledger)
    (f : List Nat) (n : Nat) (hc : cfg.nextInit = true) (hwild : s.wild = false)
    (h : Holds l s.owned f n) :
    Holds (constructNode cfg front x s l).2.2 (constructNode cfg front x s l).2.1.owned f n ∧
    (constructNode cfg front x s l).2.1.wild = false ∧ (constructNode cfg front x s l).1 ≠ .ub := by
  obtain ⟨g1, g2, g3, g4, g5, g6, g7, _⟩ := getListHead_spec s l f n h
  unfold constructNode
  cases hg : getListHead s l with
  | mk o r =>
    obtain ⟨s1, l1⟩ := r
    rw [hg] at g1 g2 g3 g4 g5 g6 g7
    simp only at g1 g2 g3 g4 g5 g6 g7
    cases o with
    | ub => exact absurd rfl g5
    | oom => exact ⟨g1, by rw [g2, hwild], by simp⟩
    | ok =>
      simp only
      cases hfr : s1.free with
      | cons nb rest =>
        simp only
        cases ha : l1.alloc with
        | mk oe l2 =>
          cases oe with
          | none => exact ⟨holds_alloc_none g1 ha, by rw [g2, hwild], by simp⟩
          | some e =>
            refine ⟨?_, by simp [g2, hwild], by simp⟩
            refine holds_congr (holds_alloc g1 ha) (fun a => ?_)
            cases front <;>
              simp [count_owned, hfr, List.count_cons, List.count_append, List.map_append] <;> omega
      | nil =>
        have hw1 : s1.wild = false := by rw [g2, hwild]
        simp only [hw1, Bool.false_eq_true, if_false]
        cases ha : l1.alloc with
        | mk onb l2 =>
          cases onb with
          | none => exact ⟨holds_alloc_none g1 ha, hw1, by simp⟩
          | some nb =>
            simp only
            have g2' := holds_alloc g1 ha
            cases ha2 : l2.alloc with
            | mk oe l3 =>
              cases oe with
              | none =>
                refine ⟨?_, by simp [hc], by simp⟩
                refine holds_congr (holds_alloc_none g2' ha2) (fun a => ?_)
                simp [count_owned, hfr, List.count_cons]
              | some e =>
                refine ⟨?_, by simp, by simp⟩
                refine holds_congr (holds_alloc g2' ha2) (fun a => ?_)
                cases front <;>
                  simp [count_owned, hfr, List.count_cons, List.count_append, List.map_append] <;> omega

theorem popFront_spec (cfg : Cfg) (s : XList) (l : Ledger) (f : List Nat) (n : Nat)
    (hf : s.head = none → s.nodes = [])
    (h : Holds l s.owned f n) :
    Holds (popFront cfg s l).2.2 (popFront cfg s l).2.1.owned f n ∧ (popFront cfg s l).2.1.wild = s.wild ∧
    ((popFront cfg s l).1 = .ub → s.nodes = []) := by
  obtain ⟨g1, g2, g3, g4, g5, g6, g7, _⟩ := getListHead_spec s l f n h
  unfold popFront
  split
  · rename_i hc
    refine ⟨h, rfl, fun _ => hf ?_⟩
    simp only [Bool.and_eq_true, Option.isNone_iff_eq_none] at hc; exact hc.2
  cases hg : getListHead s l with
  | mk o r =>
    obtain ⟨s1, l1⟩ := r
    rw [hg] at g1 g2 g3 g4 g5 g6 g7
    simp only at g1 g2 g3 g4 g5 g6 g7
    cases o with
    | ub => exact absurd rfl g5
    | oom => exact ⟨g1, g2, by simp⟩
    | ok =>
      simp only
      cases hn : s1.nodes with
      | nil => exact ⟨g1, g2, fun _ => by rw [← g3, hn]⟩
      | cons p rest =>
        obtain ⟨nb, e⟩ := p
        refine ⟨?_, g2, by simp⟩
        have : Holds l1 (e.blk :: ({ s1 with nodes := rest, free := nb :: s1.free } : XList).owned) f n := by
          refine holds_congr g1 (fun a => ?_)
          simp [count_owned, hn, List.count_cons]; omega
        exact holds_free this

theorem popBack_spec (cfg : Cfg) (s : XList) (l : Ledger) (f : List Nat) (n : Nat)
    (hf : s.head = none → s.nodes = [])
    (h : Holds l s.owned f n) :
    Holds (popBack cfg s l).2.2 (popBack cfg s l).2.1.owned f n ∧ (popBack cfg s l).2.1.wild = s.wild ∧
    ((popBack cfg s l).1 = .ub → s.nodes = []) := by
  obtain ⟨g1, g2, g3, g4, g5, g6, g7, _⟩ := getListHead_spec s l f n h
  unfold popBack
  split
  · rename_i hc
    refine ⟨h, rfl, fun _ => hf ?_⟩
    simp only [Bool.and_eq_true, Option.isNone_iff_eq_none] at hc; exact hc.2
  cases hg : getListHead s l with
  | mk o r =>
    obtain ⟨s1, l1⟩ := r
    rw [hg] at g1 g2 g3 g4 g5 g6 g7
    simp only at g1 g2 g3 g4 g5 g6 g7
    cases o with
    | ub => exact absurd rfl g5
    | oom => exact ⟨g1, g2, by simp⟩
    | ok =>
      simp only
      cases hn : s1.nodes.reverse with
      | nil =>
        refine ⟨g1, g2, fun _ => ?_⟩
        rw [← g3]; simpa using hn
      | cons p rrest =>
        obtain ⟨nb, e⟩ := p
        have hnodes : s1.nodes = rrest.reverse ++ [(nb, e)] := by
          have := congrArg List.reverse hn; simpa using this
        refine ⟨?_, g2, by simp⟩
        have : Holds l1 (e.blk :: ({ s1 with nodes := rrest.reverse, free := nb :: s1.free } : XList).owned) f n := by
          refine holds_congr g1 (fun a => ?_)
          simp [count_owned, hnodes, List.count_cons, List.count_append, List.map_append]; omega
        exact holds_free this

theorem freeAllNodes_spec (ns : List (Nat × Elem)) (fr : List Nat) (l : Ledger) :
    freeAllNodes ns fr l = ((ns.map (·.1)).reverse ++ fr, l.freeAll (ns.map (·.2.blk))) := by
  induction ns generalizing fr l with
  | nil => rfl
  | cons p ns ih => obtain ⟨nb, e⟩ := p; simp [freeAllNodes, ih, Ledger.freeAll]

theorem clear_spec (cfg : Cfg) (s : XList) (l : Ledger) (f : List Nat) (n : Nat)
    (h : Holds l s.owned f n) :
    Holds (clear cfg s l).2.2 (clear cfg s l).2.1.owned f n ∧ (clear cfg s l).2.1.wild = s.wild ∧
    (clear cfg s l).1 ≠ .ub := by
  unfold clear
  split
  · exact ⟨h, rfl, by simp⟩
  · obtain ⟨g1, g2, g3, g4, g5, g6, g7, _⟩ := getListHead_spec s l f n h
    cases hg : getListHead s l with
    | mk o r =>
      obtain ⟨s1, l1⟩ := r
      rw [hg] at g1 g2 g3 g4 g5 g6 g7
      simp only at g1 g2 g3 g4 g5 g6 g7
      cases o with
      | ub => exact absurd rfl g5
      | oom => exact ⟨g1, g2, by simp⟩
      | ok =>
        simp only [freeAllNodes_spec]
        refine ⟨?_, g2, by simp⟩
        apply holds_freeAll
        refine holds_congr g1 (fun a => ?_)
        simp [count_owned, List.count_append, List.count_reverse]; omega

theorem isEmpty_spec (cfg : Cfg) (s : XList) (l : Ledger) (f : List Nat) (n : Nat)
    (h : Holds l s.owned f n) :
    Holds (isEmpty cfg s l).2.2 (isEmpty cfg s l).2.1.owned f n ∧ (isEmpty cfg s l).2.1.wild = s.wild ∧
    (isEmpty cfg s l).1 ≠ .ub := by
  unfold isEmpty
  split
  · exact ⟨h, rfl, by simp⟩
  · obtain ⟨g1, g2, _, _, g5, _⟩ := getListHead_spec s l f n h
    exact ⟨g1, g2, g5⟩

/-- nothing is linked or parked on the free list before the sentinel exists -/
def HeadFirst (s : XList) : Prop := s.head = none → s.nodes = [] ∧ s.free = []

theorem getListHead_headFirst (s : XList) (l : Ledger) (hf : s.HeadFirst) :
    (getListHead s l).2.1.HeadFirst ∧
    ((getListHead s l).1 = .ok → (getListHead s l).2.1.head ≠ none) := by
  unfold getListHead
  cases hh : s.head with
  | some b => simp [HeadFirst, hh]
  | none =>
    cases ha : l.alloc with
    | mk ob l1 =>
      cases ob with
      | none => simpa [HeadFirst, hh] using hf hh
      | some b => simp [HeadFirst]

theorem step_headFirst (cfg : Cfg) (s : XList) (op : Op) (l : Ledger) (hf : s.HeadFirst) :
    (step cfg s l op).2.1.HeadFirst := by
  obtain ⟨g1, g2⟩ := getListHead_headFirst s l hf
  cases hg : getListHead s l with
  | mk o r =>
    obtain ⟨s1, l1⟩ := r
    rw [hg] at g1 g2
    simp only at g1 g2
    cases op with
    | pushBack x =>
      simp only [step, pushBack, constructNode, hg]
      cases o with
      | ub => exact g1
      | oom => exact g1
      | ok =>
        have hne := g2 rfl
        simp only
        split
        · split <;> simp_all [HeadFirst]
        · split
          · exact g1
          · split
            · exact g1
            · split <;> simp_all [HeadFirst]
    | pushFront x =>
      simp only [step, pushFront, constructNode, hg]
      cases o with
      | ub => exact g1
      | oom => exact g1
      | ok =>
        have hne := g2 rfl
        simp only
        split
        · split <;> simp_all [HeadFirst]
        · split
          · exact g1
          · split
            · exact g1
            · split <;> simp_all [HeadFirst]
    | popFront =>
      simp only [step, popFront]
      split
      · exact hf
      rw [hg]
      cases o with
      | ub => exact g1
      | oom => exact g1
      | ok =>
        have hne := g2 rfl
        simp only
        split <;> simp_all [HeadFirst]
    | popBack =>
      simp only [step, popBack]
      split
      · exact hf
      rw [hg]
      cases o with
      | ub => exact g1
      | oom => exact g1
      | ok =>
        have hne := g2 rfl
        simp only
        split <;> simp_all [HeadFirst]
    | clear =>
      simp only [step, clear]
      split
      · exact hf
      · rw [hg]
        cases o with
        | ub => exact g1
        | oom => exact g1
        | ok =>
          have hne := g2 rfl
          simp_all [HeadFirst]
    | empty =>
      simp only [step, isEmpty]
      split
      · exact hf
      · rw [hg]; exact g1

theorem run_headFirst (cfg : Cfg) (ops : List Op) (s : XList) (l : Ledger) (hf : s.HeadFirst) :
    (run cfg ops s l).2.1.HeadFirst := by
  induction ops generalizing s l with
  | nil => exact hf
  | cons op ops ih =>
    have a := step_headFirst cfg s op l hf
    simp only [run]
    cases hs : step cfg s l op with
    | mk o r =>
      obtain ⟨s1, l1⟩ := r
      rw [hs] at a
      cases o with
      | ub => exact a
      | ok => exact ih s1 l1 a
      | oom => exact ih s1 l1 a

theorem step_spec (cfg : Cfg) (s : XList) (op : Op) (l : Ledger) (f : List Nat) (n : Nat)
    (hc : cfg.nextInit = true) (hwild : s.wild = false) (hf : s.HeadFirst) (h : Holds l s.owned f n) :
    Holds (step cfg s l op).2.2 (step cfg s l op).2.1.owned f n ∧ (step cfg s l op).2.1.wild = false ∧
    ((step cfg s l op).1 = .ub → (op = .popFront ∨ op = .popBack) ∧ s.nodes = []) := by
  cases op with
  | pushBack x =>
    obtain ⟨a, b, c⟩ := constructNode_spec cfg false x s l f n hc hwild h
    exact ⟨a, b, fun hu => absurd hu c⟩
  | pushFront x =>
    obtain ⟨a, b, c⟩ := constructNode_spec cfg true x s l f n hc hwild h
    exact ⟨a, b, fun hu => absurd hu c⟩
  | popFront =>
    obtain ⟨a, b, c⟩ := popFront_spec cfg s l f n (fun hh => (hf hh).1) h
    exact ⟨a, by simp only [step]; rw [b, hwild], fun hu => ⟨Or.inl rfl, c hu⟩⟩
  | popBack =>
    obtain ⟨a, b, c⟩ := popBack_spec cfg s l f n (fun hh => (hf hh).1) h
    exact ⟨a, by simp only [step]; rw [b, hwild], fun hu => ⟨Or.inr rfl, c hu⟩⟩
  | clear =>
    obtain ⟨a, b, c⟩ := clear_spec cfg s l f n h
    exact ⟨a, by simp only [step]; rw [b, hwild], fun hu => absurd hu c⟩
  | empty =>
    obtain ⟨a, b, c⟩ := isEmpty_spec cfg s l f n h
    exact ⟨a, by simp only [step]; rw [b, hwild], fun hu => absurd hu c⟩

theorem run_spec (cfg : Cfg) (ops : List Op) (s : XList) (l : Ledger) (f : List Nat) (n : Nat)
    (hc : cfg.nextInit = true) (hwild : s.wild = false) (hf : s.HeadFirst) (h : Holds l s.owned f n) :
    Holds (run cfg ops s l).2.2 (run cfg ops s l).2.1.owned f n ∧ (run cfg ops s l).2.1.wild = false := by
  induction ops generalizing s l with
  | nil => exact ⟨h, hwild⟩
  | cons op ops ih =>
    obtain ⟨a, b, _⟩ := step_spec cfg s op l f n hc hwild hf h
    have hf' := step_headFirst cfg s op l hf
    simp only [run]
    cases hs : step cfg s l op with
    | mk o r =>
      obtain ⟨s1, l1⟩ := r
      rw [hs] at a b hf'
      cases o with
      | ub => exact ⟨a, b⟩
      | ok => exact ih s1 l1 b hf' a
      | oom => exact ih s1 l1 b hf' a

theorem count_flatMap_nodes (ns : List (Nat × Elem)) (a : Nat) :
    (ns.flatMap fun n => [n.2.blk, n.1]).count a = (ns.map (·.1)).count a + (ns.map (·.2.blk)).count a := by
  induction ns with
  | nil => rfl
  | cons p ns ih =>
    simp only [List.flatMap_cons, List.count_append, ih, List.map_cons, List.count_cons, List.count_nil]
    omega

theorem destroy_spec (s : XList) (l : Ledger) (f : List Nat) (n : Nat) (hwild : s.wild = false)
    (hf : s.HeadFirst) (h : Holds l s.owned f n) :
    (destroy s l).1 = .ok ∧ Holds (destroy s l).2 [] f n ∧ (destroy s l).2.reqs = l.reqs := by
  unfold destroy
  cases hh : s.head with
  | none =>
    -- nothing was ever allocated by this list
    obtain ⟨hn, hfr⟩ := hf hh
    refine ⟨rfl, ?_, rfl⟩
    refine holds_congr h (fun a => ?_)
    simp [count_owned, hh, hn, hfr]
  | some hd =>
    simp only [hwild, Bool.false_eq_true, if_false]
    refine ⟨trivial, ?_, by simp [free_reqs, freeAll_reqs]⟩
    apply holds_free
    apply holds_freeAll
    apply holds_freeAll
    refine holds_congr h (fun a => ?_)
    simp [count_owned, hh, List.count_append, count_flatMap_nodes, List.count_cons]; omega

end XList
end XalanModel.C19
