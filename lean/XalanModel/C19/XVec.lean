import XalanModel.C19.Ledger
/-
C19 — `XalanVector<T>` (src/xalanc/Include/XalanVector.hpp) with the allocations made explicit,
for element types whose copy does not allocate (pointers, integers: every vector of
`XalanTransformer` — m_compiledStylesheets, m_parsedSources, m_traceListeners — and the bucket
vectors of XalanMap).  The growth paths are the code's copy-construct-into-a-temporary-then-swap:

  doPushBack:  m_size < m_allocation → construct_back
               m_size == 0           → init: m_data = allocate(1)
               otherwise             → grow: theTemp(*this, mgr, size*1.6+0.5); theTemp.doPushBack; swap; ~theTemp
  reserve(n):  n > m_allocation      → doReserve: theTemp(*this, mgr, n); swap; ~theTemp
  ~XalanVector: if (m_allocation != 0) deallocate(m_data)

Core Lean only.
-/
namespace XalanModel.C19

structure XVec where
  buf : Option Nat := none      -- block holding m_data (none ⇔ m_data == 0)
  items : List Int := []
  cap : Nat := 0                -- m_allocation
deriving Repr, DecidableEq

namespace XVec

def growSize (n : Nat) : Nat := (16 * n + 5) / 10

def owned (v : XVec) : List Nat := v.buf.toList

/-- class invariant: `m_allocation ≥ m_size`, and a buffer exists exactly when `m_allocation ≠ 0` -/
def WF (v : XVec) : Prop := v.items.length ≤ v.cap ∧ (v.buf.isSome ↔ v.cap ≠ 0)

instance (v : XVec) : Decidable v.WF := by unfold WF; infer_instance

/-- destructor of the swapped-out temporary / of the vector itself -/
def release (v : XVec) (l : Ledger) : Ledger :=
  if v.cap ≠ 0 then (match v.buf with | some b => l.free b | none => l) else l

/-- copy constructor `XalanVector(theSource, theManager, theInitialAllocation)`; `none` = threw
(nothing was allocated before the throw, so there is nothing to unwind). -/
def copyWith (src : XVec) (initial : Nat) (l : Ledger) : Option XVec × Ledger :=
  if src.items.length > 0 then
    match l.alloc with
    | (none, l1) => (none, l1)
    | (some b, l1) => (some ⟨some b, src.items, max src.items.length initial⟩, l1)
  else if initial > 0 then
    match l.alloc with
    | (none, l1) => (none, l1)
    | (some b, l1) => (some ⟨some b, [], initial⟩, l1)
  else (some ⟨none, [], 0⟩, l)

def pushBack (v : XVec) (x : Int) (l : Ledger) : Out × XVec × Ledger :=
  if v.items.length < v.cap then (.ok, { v with items := v.items ++ [x] }, l)
  else if v.items.length = 0 then
    -- init
    match l.alloc with
    | (none, l1) => (.oom, v, l1)
    | (some b, l1) => (.ok, ⟨some b, [x], 1⟩, l1)
  else
    -- grow
    match copyWith v (growSize v.items.length) l with
    | (none, l1) => (.oom, v, l1)
    | (some t, l1) => (.ok, { t with items := t.items ++ [x] }, release v l1)

def reserve (v : XVec) (n : Nat) (l : Ledger) : Out × XVec × Ledger :=
  if n > v.cap then
    match copyWith v n l with
    | (none, l1) => (.oom, v, l1)
    | (some t, l1) => (.ok, t, release v l1)
  else (.ok, v, l)

/-- `pop_back` (precondition: non-empty) -/
def popBack (v : XVec) (l : Ledger) : Out × XVec × Ledger :=
  if v.items.length = 0 then (.ub, v, l) else (.ok, { v with items := v.items.dropLast }, l)

/-- `clear()`: pops everything, keeps the buffer -/
def clear (v : XVec) (l : Ledger) : Out × XVec × Ledger := (.ok, { v with items := [] }, l)

/-- `~XalanVector` -/
def destroy (v : XVec) (l : Ledger) : Ledger := release v l

inductive Op where
  | push (x : Int) | reserve (n : Nat) | pop | clear
deriving Repr, DecidableEq

def step (v : XVec) (l : Ledger) : Op → Out × XVec × Ledger
  | .push x => pushBack v x l
  | .reserve n => reserve v n l
  | .pop => popBack v l
  | .clear => clear v l

/-- run a history; an operation that throws leaves the object in the state the unwinding left
it and the caller carries on (the refusal is one-shot); `ub` stops the run. -/
def run : List Op → XVec → Ledger → Out × XVec × Ledger
  | [], v, l => (.ok, v, l)
  | op :: ops, v, l =>
    match step v l op with
    | (.ub, v1, l1) => (.ub, v1, l1)
    | (_, v1, l1) => run ops v1 l1

end XVec

/-- `XalanConstruct(theManager, theInstance, …)` / `T::create(theManager, …)`:
`XalanAllocationGuard theGuard(mgr, sizeof(T)); new (theGuard.get()) T(…); theGuard.release();`.
`body` is the constructor: it returns whether it completed, and the ledger after it. -/
def xalanConstruct (body : Ledger → Bool × Ledger) (l : Ledger) : Option Nat × Ledger :=
  match l.alloc with
  | (none, l1) => (none, l1)
  | (some b, l1) =>
    match body l1 with
    | (true, l2) => (some b, l2)
    | (false, l2) => (none, l2.free b)

/-- `XalanTransformer::compileStylesheet / parseSource / createDocumentBuilder`
(XalanTransformer.cpp:607-620, 747-778, 966-970):
    `m_vec.reserve(m_vec.size() + 1); obj = T::create(…); m_vec.push_back(obj);`
returns the outcome, the vector, the created block (if any) and the ledger. -/
def reserveThenCreate (create : Ledger → Option Nat × Ledger) (v : XVec) (l : Ledger) :
    Out × XVec × Option Nat × Ledger :=
  match v.reserve (v.items.length + 1) l with
  | (.ok, v1, l1) =>
    (match create l1 with
     | (none, l2) => (.oom, v1, none, l2)
     | (some obj, l2) =>
       let r := v1.pushBack (Int.ofNat obj) l2
       (r.1, r.2.1, some obj, r.2.2))
  | (o, v1, l1) => (o, v1, none, l1)

/-- the same without the reservation (what the comment in the source warns about) -/
def createThenPush (create : Ledger → Option Nat × Ledger) (v : XVec) (l : Ledger) :
    Out × XVec × Option Nat × Ledger :=
  match create l with
  | (none, l2) => (.oom, v, none, l2)
  | (some obj, l2) =>
    let r := v.pushBack (Int.ofNat obj) l2
    (r.1, r.2.1, some obj, r.2.2)

end XalanModel.C19
