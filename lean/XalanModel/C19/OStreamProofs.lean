import XalanModel.C19.OStream
import XalanModel.C19.AutoPtrProofs
namespace XalanModel.C19
open Ledger
namespace OStream

/-- as written the slot never names a destroyed object -/
def Good (s : OStream) (l : Ledger) (f : List Nat) (n : Nat) : Prop := s.stale = false ∧ Holds l s.owned f n

theorem setEnc_spec (e : Enc) (late : Bool) (s : OStream) (l : Ledger) (f : List Nat) (n : Nat) (hg : Good s l f n) :
    Good (setEnc false e s l late).2.1 (setEnc false e s l late).2.2 f n := by
  obtain ⟨hs, h⟩ := hg
  unfold setEnc
  split
  · exact ⟨hs, h⟩
  · have h1 : Holds (destroyCurrent s l) [] f n := by
      apply APState.dealloc_spec
      simpa [owned, hs] using h
    simp only [Bool.false_eq_true, if_false]
    cases e with
    | utf16 =>
      simp only
      split
      · exact ⟨rfl, by simpa [owned] using h1⟩
      · exact ⟨rfl, by simpa [owned] using h1⟩
    | unsupported => exact ⟨rfl, by simpa [owned] using h1⟩
    | utf8 =>
      obtain ⟨cs, cn⟩ := APState.createObj_spec (destroyCurrent s l) [] f n h1
      cases hc : APState.createObj (destroyCurrent s l) with
      | mk oo l2 =>
        cases oo with
        | none => exact ⟨rfl, by simpa [owned] using cn l2 hc⟩
        | some ob =>
          simp only
          split
          · exact ⟨rfl, by simpa [owned] using cs ob l2 hc⟩
          · exact ⟨rfl, by simpa [owned] using cs ob l2 hc⟩
    | latin1 =>
      obtain ⟨cs, cn⟩ := APState.createObj_spec (destroyCurrent s l) [] f n h1
      cases hc : APState.createObj (destroyCurrent s l) with
      | mk oo l2 =>
        cases oo with
        | none => exact ⟨rfl, by simpa [owned] using cn l2 hc⟩
        | some ob =>
          simp only
          split
          · exact ⟨rfl, by simpa [owned] using cs ob l2 hc⟩
          · exact ⟨rfl, by simpa [owned] using cs ob l2 hc⟩
    | ascii =>
      obtain ⟨cs, cn⟩ := APState.createObj_spec (destroyCurrent s l) [] f n h1
      cases hc : APState.createObj (destroyCurrent s l) with
      | mk oo l2 =>
        cases oo with
        | none => exact ⟨rfl, by simpa [owned] using cn l2 hc⟩
        | some ob =>
          simp only
          split
          · exact ⟨rfl, by simpa [owned] using cs ob l2 hc⟩
          · exact ⟨rfl, by simpa [owned] using cs ob l2 hc⟩

theorem run_spec (es : List (Enc × Bool)) (s : OStream) (l : Ledger) (f : List Nat) (n : Nat) (hg : Good s l f n) :
    Good (run false es s l).1 (run false es s l).2 f n := by
  induction es generalizing s l with
  | nil => exact hg
  | cons e es ih => exact ih _ _ (setEnc_spec e.1 e.2 s l f n hg)

theorem destroy_spec (s : OStream) (l : Ledger) (f : List Nat) (n : Nat) (hg : Good s l f n) :
    Holds (destroy s l) [] f n := by
  obtain ⟨hs, h⟩ := hg
  apply APState.dealloc_spec
  simpa [owned, hs] using h

end OStream
end XalanModel.C19
