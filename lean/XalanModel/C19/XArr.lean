import XalanModel.C19.Ledger
/-
C19 — `XalanArrayAllocator<Type>` (src/xalanc/PlatformSupport/XalanArrayAllocator.hpp) for a trivially
constructed `Type`: a `XalanList< pair<size_type, XalanVector<Type>*> >`; every entry owns a vector object made by
`XalanVector::create(manager)` (one block) whose buffer (one block) is made by `resize(blockSize)`.

  allocate(n):   if (n >= m_blockSize) return createEntry(n, n);
                 e = findEntry(n);  if (e == 0) return createEntry(m_blockSize, n);  e->first -= n;
  findEntry(n):  if (m_lastEntryFound && m_lastEntryFound->first >= n) return m_lastEntryFound;
                 best fit over the list (an exact fit ends the search); m_lastEntryFound = result (may be 0)
  createEntry(bs, n):  m_list.push_back(ListEntryType(0, VectorType::create(mgr)));     // create, THEN push
                 back.second->resize(bs);  back.first = bs - n;  if (back.first != 0) m_lastEntryFound = &back;
  reset():       every entry: first = second->size();  m_lastEntryFound = first entry (0 when empty)
  clear():       m_list.clear();  m_lastEntryFound = 0;          // as written: the vectors are NOT destroyed
  ~XalanArrayAllocator(): destroys and deallocates every vector; then ~XalanList

`XalanList` as in the tree: `push_back` allocates the sentinel on first use, takes a node from the free list or
allocates one; `clear()` moves the nodes to the free list (last erased first); the destructor releases nodes, free
nodes and the sentinel.  `lost`: blocks nothing refers to any more (the vector of a `createEntry` whose `push_back`
was refused; as written, the vectors dropped by `clear()`).
`clearDestroys` selects `clear()` as written (`false`) or with the vectors destroyed as the destructor does
(proposed/C19-array-allocator-clear.diff).  Core Lean only.
-/
namespace XalanModel.C19

structure AEntry where
  node : Nat              -- the list node
  free : Nat              -- .first
  vec : Nat               -- the vector object
  buf : Option Nat        -- its buffer
  size : Nat              -- .second->size()
deriving Repr, DecidableEq

structure XArr where
  bs : Nat                            -- m_blockSize
  head : Option Nat := none           -- m_list.m_listHead
  entries : List AEntry := []
  freeNodes : List Nat := []          -- m_list's free list, head first
  last : Option Nat := none           -- m_lastEntryFound, as an index into `entries`
  lost : List Nat := []
deriving Repr, DecidableEq

namespace XArr

def entryBlocks (e : AEntry) : List Nat := e.node :: e.vec :: e.buf.toList

def owned (s : XArr) : List Nat := s.head.toList ++ (s.entries.flatMap entryBlocks ++ s.freeNodes)

/-- the scan of `findEntry`: `best` is the candidate so far (index, free) -/
def scan (n : Nat) : List AEntry → Nat → Option (Nat × Nat) → Option (Nat × Nat)
  | [], _, best => best
  | e :: es, i, best =>
    if e.free = n then some (i, e.free)
    else if e.free ≥ n then
      (match best with
       | none => scan n es (i + 1) (some (i, e.free))
       | some (_, bf) => if e.free < bf then scan n es (i + 1) (some (i, e.free)) else scan n es (i + 1) best)
    else scan n es (i + 1) best

/-- `findEntry(n)`: the entry found (index), and the new `m_lastEntryFound` -/
def findEntry (s : XArr) (n : Nat) : Option Nat × Option Nat :=
  match s.last with
  | some i =>
    (match s.entries[i]? with
     | some e => if e.free ≥ n then (some i, s.last) else let r := (scan n s.entries 0 none).map (·.1); (r, r)
     | none => let r := (scan n s.entries 0 none).map (·.1); (r, r))
  | none => let r := (scan n s.entries 0 none).map (·.1); (r, r)

/-- `m_list.push_back(entry)` up to the point where the node exists: sentinel (first use), then a node from the
free list or from the manager.  `none`: refused (the sentinel, once made, stays). -/
def pushNode (s : XArr) (l : Ledger) : Option Nat × XArr × Ledger :=
  let hl : Option Nat × Ledger := match s.head with
    | some h => (some h, l)
    | none => l.alloc
  match hl with
  | (none, l1) => (none, s, l1)
  | (some h, l1) =>
    let s1 := { s with head := some h }
    match s1.freeNodes with
    | nb :: rest => (some nb, { s1 with freeNodes := rest }, l1)
    | [] =>
      match l1.alloc with
      | (none, l2) => (none, s1, l2)
      | (some nb, l2) => (some nb, s1, l2)

/-- `createEntry(bsz, n)` -/
def createEntry (bsz n : Nat) (s : XArr) (l : Ledger) : Out × XArr × Ledger :=
  match l.alloc with                                          -- VectorType::create
  | (none, l1) => (.oom, s, l1)
  | (some v, l1) =>
    match pushNode s l1 with
    | (none, s1, l2) => (.oom, { s1 with lost := v :: s1.lost }, l2)      -- created, not pushed: nothing owns the vector
    | (some nb, s1, l2) =>
      let idx := s1.entries.length
      if bsz = 0 then
        (.ok, { s1 with entries := s1.entries ++ [⟨nb, 0, v, none, 0⟩] }, l2)
      else
        match l2.alloc with                                   -- resize(bsz): reserve
        | (none, l3) => (.oom, { s1 with entries := s1.entries ++ [⟨nb, 0, v, none, 0⟩] }, l3)
        | (some b, l3) =>
          (.ok, { s1 with entries := s1.entries ++ [⟨nb, bsz - n, v, some b, bsz⟩],
                          last := if bsz - n ≠ 0 then some idx else s1.last }, l3)

/-- `allocate(n)` -/
def allocate (n : Nat) (s : XArr) (l : Ledger) : Out × XArr × Ledger :=
  if n ≥ s.bs then createEntry n n s l
  else
    let f := findEntry s n
    let s1 := { s with last := f.2 }
    match f.1 with
    | none => createEntry s.bs n s1 l
    | some i => (.ok, { s1 with entries := s1.entries.modify i (fun e => { e with free := e.free - n }) }, l)

/-- `reset()` -/
def reset (s : XArr) : XArr :=
  { s with entries := s.entries.map (fun e => { e with free := e.size }),
           last := if s.entries.isEmpty then none else some 0 }

def vecBlocks (e : AEntry) : List Nat := e.buf.toList ++ [e.vec]

/-- `clear()` -/
def clear (clearDestroys : Bool) (s : XArr) (l : Ledger) : XArr × Ledger :=
  let nodes := (s.entries.map (·.node)).reverse
  if clearDestroys then
    ({ s with entries := [], freeNodes := nodes ++ s.freeNodes, last := none }, l.freeAll (s.entries.flatMap vecBlocks))
  else
    ({ s with entries := [], freeNodes := nodes ++ s.freeNodes, last := none,
              lost := s.entries.flatMap vecBlocks ++ s.lost }, l)

/-- `~XalanArrayAllocator()` -/
def destroy (s : XArr) (l : Ledger) : Ledger :=
  let l1 := l.freeAll (s.entries.flatMap vecBlocks)
  let l2 := l1.freeAll (s.entries.map (·.node))
  let l3 := l2.freeAll s.freeNodes
  l3.freeAll s.head.toList

inductive Op where
  | alloc (n : Nat)
  | reset
  | clear
deriving Repr, DecidableEq

def step (cd : Bool) (s : XArr) (l : Ledger) : Op → Out × XArr × Ledger
  | .alloc n => allocate n s l
  | .reset => (.ok, reset s, l)
  | .clear => let r := clear cd s l; (.ok, r.1, r.2)

def run (cd : Bool) : List Op → XArr → Ledger → XArr × Ledger
  | [], s, l => (s, l)
  | o :: os, s, l => let r := step cd s l o; run cd os r.2.1 r.2.2

end XArr
end XalanModel.C19
