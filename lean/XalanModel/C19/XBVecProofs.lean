import XalanModel.C19.XBVec
import XalanModel.C19.LedgerProofs
/-
Invariant proofs for XalanVector with allocating elements.
-/
namespace XalanModel.C19
open Ledger

namespace XBVec

theorem copyElems_spec (vals : List Int) (l : Ledger) (o f : List Nat) (n : Nat) (h : Holds l o f n) :
    Holds (copyElems vals l).2.2 ((copyElems vals l).2.1.map (·.2) ++ o) f n ∧
    ((copyElems vals l).1 = true → (copyElems vals l).2.1.map (·.1) = vals) ∧
    (copyElems vals l).2.1.length ≤ vals.length := by
  induction vals generalizing l o with
  | nil => exact ⟨by simpa [copyElems] using h, by simp [copyElems], by simp [copyElems]⟩
  | cons x xs ih =>
    simp only [copyElems]
    cases ha : l.alloc with
    | mk oe l1 =>
      cases oe with
      | none => exact ⟨by simpa using holds_alloc_none h ha, by simp, by simp⟩
      | some e =>
        obtain ⟨i1, i2, i3⟩ := ih l1 (e :: o) (holds_alloc h ha)
        refine ⟨?_, fun ht => by simp [i2 ht], by simp; omega⟩
        refine holds_congr i1 (fun a => ?_)
        simp [List.count_append, List.count_cons]; omega

theorem release_spec (v : XBVec) (l : Ledger) (o f : List Nat) (n : Nat) (hw : v.WF)
    (h : Holds l (v.owned ++ o) f n) : Holds (release v l) o f n := by
  obtain ⟨buf, elems, cap⟩ := v
  unfold release
  cases buf with
  | none =>
    have hc : cap = 0 := by
      have := hw.2; simp at this; exact this
    have he : elems = [] := by
      have := hw.1; simp [hc] at this; exact this
    simp only [hc, ne_eq, not_true_eq_false, if_false]
    simpa [owned, he] using h
  | some b =>
    have hc : cap ≠ 0 := by simpa [WF] using hw.2
    simp only [hc, ne_eq, not_false_eq_true, if_true]
    apply holds_free
    apply holds_freeAll
    refine holds_congr h (fun a => ?_)
    simp [owned, List.count_append, List.count_cons]; omega

theorem release_reqs (v : XBVec) (l : Ledger) : (release v l).reqs = l.reqs := by
  unfold release
  split
  · split <;> simp [free_reqs, freeAll_reqs]
  · rfl

/-- copy constructor (code as written): on success a well-formed temporary owning its blocks
on top of `o`; on a throw everything the temporary had is given back -/
theorem copyWith_spec (src : XBVec) (initial : Nat) (l : Ledger) (o f : List Nat) (n : Nat)
    (h : Holds l o f n) :
    (copyWith false src initial l).1 ≠ .ub ∧
    (∀ t, (copyWith false src initial l).2.1 = some t →
      (copyWith false src initial l).1 = .ok ∧ t.WF ∧ t.elems.map (·.1) = src.elems.map (·.1) ∧
      max src.elems.length initial ≤ t.cap ∧ Holds (copyWith false src initial l).2.2 (t.owned ++ o) f n) ∧
    ((copyWith false src initial l).2.1 = none →
      (copyWith false src initial l).1 = .oom ∧ Holds (copyWith false src initial l).2.2 o f n) := by
  unfold copyWith
  split
  · rename_i hpos
    cases ha : l.alloc with
    | mk ob l1 =>
      cases ob with
      | none => exact ⟨by simp, by simp, fun _ => ⟨rfl, holds_alloc_none h ha⟩⟩
      | some b =>
        have h1 := holds_alloc h ha
        obtain ⟨c1, c2, c3⟩ := copyElems_spec (src.elems.map (·.1)) l1 (b :: o) f n h1
        dsimp only
        cases hr : (copyElems (src.elems.map (·.1)) l1).1 with
        | true =>
          simp only [if_true]
          refine ⟨by simp, fun t ht => ?_, by simp⟩
          simp only [Option.some.injEq] at ht; subst ht
          have hvals := c2 hr
          have hlen : (copyElems (src.elems.map (·.1)) l1).2.1.length = src.elems.length := by
            have := congrArg List.length hvals; simpa using this
          refine ⟨trivial, ⟨?_, ?_⟩, ?_, Nat.le_refl _, ?_⟩
          · simp only; rw [hlen]; simp [Nat.le_max_left]
          · have : max src.elems.length initial ≠ 0 := by
              have := Nat.le_max_left src.elems.length initial; omega
            simp [this]
          · exact hvals
          · refine holds_congr c1 (fun a => ?_)
            simp [owned, List.count_append, List.count_cons]; omega
        | false =>
          simp only [Bool.false_eq_true, if_false]
          refine ⟨by simp, by simp, fun _ => ⟨trivial, ?_⟩⟩
          apply holds_free
          apply holds_freeAll
          exact c1
  · split
    · cases ha : l.alloc with
      | mk ob l1 =>
        cases ob with
        | none => exact ⟨by simp, by simp, fun _ => ⟨rfl, holds_alloc_none h ha⟩⟩
        | some b =>
          rename_i hz hi
          have hnil : src.elems = [] := by
            cases hs : src.elems with
            | nil => rfl
            | cons x xs => simp [hs] at hz
          refine ⟨by simp, fun t ht => ?_, by simp⟩
          simp only [Option.some.injEq] at ht; subst ht
          refine ⟨rfl, ⟨by simp, by simp; omega⟩, by simp [hnil], by simp [hnil], ?_⟩
          simpa [owned] using holds_alloc h ha
    · rename_i hz hi
      have hnil : src.elems = [] := by
        cases hs : src.elems with
        | nil => rfl
        | cons x xs => simp [hs] at hz
      refine ⟨by simp, fun t ht => ?_, by simp⟩
      simp only [Option.some.injEq] at ht; subst ht
      refine ⟨rfl, ⟨by simp, by simp⟩, by simp [hnil], by simp [hnil]; omega, ?_⟩
      simpa [owned] using h

/-- the invariant of one vector inside a frame -/
def Good (v : XBVec) (l : Ledger) (f : List Nat) (n : Nat) : Prop := v.WF ∧ Holds l v.owned f n

theorem holds_swap {l : Ledger} {a b f : List Nat} {n : Nat} (h : Holds l (a ++ b) f n) :
    Holds l (b ++ a) f n :=
  holds_congr h (fun x => by simp [List.count_append]; omega)

theorem pushBack_spec (v : XBVec) (x : Int) (l : Ledger) (f : List Nat) (n : Nat) (hg : Good v l f n) :
    Good (pushBack false v x l).2.1 (pushBack false v x l).2.2 f n ∧ (pushBack false v x l).1 ≠ .ub := by
  obtain ⟨hw, h⟩ := hg
  unfold pushBack
  split
  · rename_i hlt
    cases ha : l.alloc with
    | mk oe l1 =>
      cases oe with
      | none => exact ⟨⟨hw, holds_alloc_none h ha⟩, by simp⟩
      | some e =>
        refine ⟨⟨⟨by simp; omega, hw.2⟩, ?_⟩, by simp⟩
        refine holds_congr (holds_alloc h ha) (fun a => ?_)
        simp [owned, List.count_append, List.count_cons]; omega
  · split
    · rename_i hge hz
      have hcap : v.cap = 0 := by omega
      have hnil : v.elems = [] := List.length_eq_zero_iff.mp hz
      have hbuf : v.buf = none := by
        have := hw.2; cases hb : v.buf with
        | none => rfl
        | some b => simp [hb, hcap] at this
      cases ha : l.alloc with
      | mk ob l1 =>
        cases ob with
        | none => exact ⟨⟨hw, holds_alloc_none h ha⟩, by simp⟩
        | some b =>
          have h1 := holds_alloc h ha
          dsimp only
          cases ha2 : l1.alloc with
          | mk oe l2 =>
            cases oe with
            | none =>
              refine ⟨⟨⟨by simp, by simp⟩, ?_⟩, by simp⟩
              refine holds_congr (holds_alloc_none h1 ha2) (fun a => ?_)
              simp [owned, hbuf, hnil]
            | some e =>
              refine ⟨⟨⟨by simp, by simp⟩, ?_⟩, by simp⟩
              refine holds_congr (holds_alloc h1 ha2) (fun a => ?_)
              simp [owned, hbuf, hnil, List.count_cons]; omega
    · rename_i hge hnz
      obtain ⟨c0, c1, c2⟩ := copyWith_spec v (XVec.growSize v.elems.length) l v.owned f n h
      cases hc : copyWith false v (XVec.growSize v.elems.length) l with
      | mk o r =>
        obtain ⟨ot, l1⟩ := r
        rw [hc] at c0 c1 c2
        cases ot with
        | none =>
          obtain ⟨e1, e2⟩ := c2 rfl
          simp only at e1; subst e1
          exact ⟨⟨hw, e2⟩, by simp⟩
        | some t =>
          obtain ⟨e1, tw, tv, tcap, th⟩ := c1 t rfl
          simp only at e1; subst e1
          dsimp only
          have hgrow : v.elems.length < XVec.growSize v.elems.length := by unfold XVec.growSize; omega
          have tlen : t.elems.length = v.elems.length := by
            have := congrArg List.length tv; simpa using this
          cases ha : l1.alloc with
          | mk oe l2 =>
            cases oe with
            | none =>
              refine ⟨⟨hw, ?_⟩, by simp⟩
              exact release_spec t l2 v.owned f n tw (holds_alloc_none th ha)
            | some e =>
              refine ⟨⟨⟨?_, tw.2⟩, ?_⟩, by simp⟩
              · simp only [List.length_append, List.length_cons, List.length_nil]
                omega
              · have h2 := holds_alloc th ha
                have h3 : Holds l2 (v.owned ++ (({ t with elems := t.elems ++ [(x, e)] } : XBVec).owned)) f n := by
                  refine holds_congr h2 (fun a => ?_)
                  simp [owned, List.count_append, List.count_cons]; omega
                exact release_spec v l2 _ f n hw h3

theorem reserve_spec (v : XBVec) (m : Nat) (l : Ledger) (f : List Nat) (n : Nat) (hg : Good v l f n) :
    Good (reserve false v m l).2.1 (reserve false v m l).2.2 f n ∧ (reserve false v m l).1 ≠ .ub ∧
    ((reserve false v m l).1 = .ok → m ≤ (reserve false v m l).2.1.cap ∧
      (reserve false v m l).2.1.elems.length = v.elems.length) := by
  obtain ⟨hw, h⟩ := hg
  unfold reserve
  split
  · obtain ⟨c0, c1, c2⟩ := copyWith_spec v m l v.owned f n h
    cases hc : copyWith false v m l with
    | mk o r =>
      obtain ⟨ot, l1⟩ := r
      rw [hc] at c0 c1 c2
      cases ot with
      | none =>
        obtain ⟨e1, e2⟩ := c2 rfl
        simp only at e1; subst e1
        exact ⟨⟨hw, e2⟩, by simp, by simp⟩
      | some t =>
        obtain ⟨e1, tw, tv, tcap, th⟩ := c1 t rfl
        simp only at e1; subst e1
        dsimp only
        have tlen : t.elems.length = v.elems.length := by
          have := congrArg List.length tv; simpa using this
        refine ⟨⟨tw, ?_⟩, by simp, fun _ => ⟨by omega, tlen⟩⟩
        exact release_spec v l1 t.owned f n hw (holds_swap th)
  · exact ⟨⟨hw, h⟩, by simp, fun _ => ⟨by simp; omega, rfl⟩⟩

theorem popBack_spec (v : XBVec) (l : Ledger) (f : List Nat) (n : Nat) (hg : Good v l f n) :
    Good (popBack v l).2.1 (popBack v l).2.2 f n ∧ ((popBack v l).1 = .ub → v.elems = []) := by
  obtain ⟨hw, h⟩ := hg
  unfold popBack
  cases hr : v.elems.reverse with
  | nil => exact ⟨⟨hw, h⟩, fun _ => by simpa using hr⟩
  | cons p rrest =>
    obtain ⟨x, e⟩ := p
    have he : v.elems = rrest.reverse ++ [(x, e)] := by
      have := congrArg List.reverse hr; simpa using this
    refine ⟨⟨⟨?_, hw.2⟩, ?_⟩, by simp⟩
    · have := hw.1; rw [he] at this; simp at this ⊢; omega
    · apply holds_free
      refine holds_congr h (fun a => ?_)
      simp [owned, he, List.count_append, List.count_cons]; omega

theorem clear_spec (v : XBVec) (l : Ledger) (f : List Nat) (n : Nat) (hg : Good v l f n) :
    Good (clear v l).2.1 (clear v l).2.2 f n := by
  obtain ⟨hw, h⟩ := hg
  unfold clear
  refine ⟨⟨by simp, hw.2⟩, ?_⟩
  apply holds_freeAll
  refine holds_congr h (fun a => ?_)
  simp [owned, List.count_append, List.count_reverse, List.map_reverse]; omega

theorem resize_spec (v : XBVec) (m : Nat) (x : Int) (l : Ledger) (f : List Nat) (n : Nat) (hg : Good v l f n) :
    Good (resize false v m x l).2.1 (resize false v m x l).2.2 f n ∧ (resize false v m x l).1 ≠ .ub := by
  unfold resize
  split
  · obtain ⟨hw, h⟩ := hg
    refine ⟨⟨⟨by simp; have := hw.1; omega, hw.2⟩, ?_⟩, by simp⟩
    apply holds_freeAll
    refine holds_congr h (fun a => ?_)
    have hc : (v.elems.map (·.2)).count a
        = ((v.elems.map (·.2)).take m).count a + ((v.elems.map (·.2)).drop m).count a := by
      rw [← List.count_append, List.take_append_drop]
    simp only [owned, List.count_append, List.map_reverse, List.count_reverse, List.map_take, List.map_drop] at hc ⊢
    omega
  · split
    · rename_i hle hlt
      obtain ⟨rg, rub, rok⟩ := reserve_spec v m l f n hg
      cases hr : reserve false v m l with
      | mk o r =>
        obtain ⟨v1, l1⟩ := r
        rw [hr] at rg rub rok
        cases o with
        | ub => exact absurd rfl rub
        | oom => exact ⟨rg, by simp⟩
        | ok =>
          obtain ⟨hcap, hlen⟩ := rok rfl
          dsimp only
          obtain ⟨c1, _, c3⟩ := copyElems_spec (List.replicate (m - v1.elems.length) x) l1 v1.owned f n rg.2
          refine ⟨⟨⟨?_, rg.1.2⟩, ?_⟩, by split <;> simp⟩
          · simp only [List.length_append]
            have := c3; simp only [List.length_replicate] at this
            simp only at hcap hlen; omega
          · refine holds_congr c1 (fun a => ?_)
            simp [owned, List.count_append]; omega
    · exact ⟨hg, by simp⟩

theorem copyProbe_spec (v : XBVec) (l : Ledger) (f : List Nat) (n : Nat) (hg : Good v l f n) :
    Good (copyProbe false v l).2.1 (copyProbe false v l).2.2 f n ∧ (copyProbe false v l).1 ≠ .ub := by
  obtain ⟨hw, h⟩ := hg
  unfold copyProbe
  obtain ⟨c0, c1, c2⟩ := copyWith_spec v 0 l v.owned f n h
  cases hc : copyWith false v 0 l with
  | mk o r =>
    obtain ⟨ot, l1⟩ := r
    rw [hc] at c0 c1 c2
    cases ot with
    | none =>
      obtain ⟨e1, e2⟩ := c2 rfl
      simp only at e1; subst e1
      exact ⟨⟨hw, e2⟩, by simp⟩
    | some t =>
      obtain ⟨e1, tw, _, _, th⟩ := c1 t rfl
      simp only at e1; subst e1
      exact ⟨⟨hw, release_spec t l1 v.owned f n tw th⟩, by simp⟩

theorem step_spec (v : XBVec) (op : Op) (l : Ledger) (f : List Nat) (n : Nat) (hg : Good v l f n) :
    Good (step false v l op).2.1 (step false v l op).2.2 f n ∧
    ((step false v l op).1 = .ub → op = .pop ∧ v.elems = []) := by
  cases op with
  | push x => obtain ⟨a, b⟩ := pushBack_spec v x l f n hg; exact ⟨a, fun hu => absurd hu b⟩
  | reserve m => obtain ⟨a, b, _⟩ := reserve_spec v m l f n hg; exact ⟨a, fun hu => absurd hu b⟩
  | pop => obtain ⟨a, b⟩ := popBack_spec v l f n hg; exact ⟨a, fun hu => ⟨rfl, b hu⟩⟩
  | clear => exact ⟨clear_spec v l f n hg, by simp [step, clear]⟩
  | resize m x => obtain ⟨a, b⟩ := resize_spec v m x l f n hg; exact ⟨a, fun hu => absurd hu b⟩
  | copy => obtain ⟨a, b⟩ := copyProbe_spec v l f n hg; exact ⟨a, fun hu => absurd hu b⟩

theorem run_spec (ops : List Op) (v : XBVec) (l : Ledger) (f : List Nat) (n : Nat) (hg : Good v l f n) :
    Good (run false ops v l).2.1 (run false ops v l).2.2 f n := by
  induction ops generalizing v l with
  | nil => exact hg
  | cons op ops ih =>
    obtain ⟨a, _⟩ := step_spec v op l f n hg
    simp only [run]
    cases hs : step false v l op with
    | mk o r =>
      obtain ⟨v1, l1⟩ := r
      rw [hs] at a
      cases o with
      | ub => exact a
      | ok => exact ih v1 l1 a
      | oom => exact ih v1 l1 a

end XBVec
end XalanModel.C19
