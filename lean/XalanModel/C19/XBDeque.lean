import XalanModel.C19.XVec
/-
C19 — `XalanDeque<T>` (src/xalanc/Include/XalanDeque.hpp, after de8208a) with explicit allocations, for value types
whose copy may allocate one block (`boxed`: XalanNamespace, OutputContext, strings) or not: push_back, pop_back,
clear, size, destructor.

  push_back(v):  if (m_blockIndex.empty() || m_blockIndex.back()->size() >= m_blockSize) pushNewIndexBlock();
                 m_blockIndex.back()->push_back(v);                           -- the element copy may throw
  pushNewIndexBlock(): m_blockIndex.push_back(0);  XalanConstruct(block) or take one from m_freeBlockVector
                       (a refused XalanConstruct pops the placeholder again)
  pop_back():    lastBlock.pop_back();  if (lastBlock.empty()) { m_freeBlockVector.push_back(&lastBlock); m_blockIndex.pop_back(); }
  clear():       m_freeBlockVector.reserve(free.size() + index.size());  every block: clear(), to the free vector;  m_blockIndex.clear();
  ~XalanDeque(): destroyBlockList(m_freeBlockVector); destroyBlockList(m_blockIndex);

A block is a `XalanVector<T>(mgr, m_blockSize)` made with XalanConstruct: block object + buffer; elements are
constructed in place (a block never grows).  The blocks are kept in index order (`inIdx`) and in free-vector order
(`inFree`); the two pointer vectors are `XVec`s whose items are the block object ids.

As written, a refused element copy in `push_back` right after a new block was appended, and a refused growth of
m_freeBlockVector in `pop_back`, leave an EMPTY block at the end of the index; `pop_back()`/`back()` then operate on
an empty vector (`.ub`).  `repaired` = proposed/C19-deque-push-empty-block.diff: push_back takes the empty block out
again before rethrowing; pop_back reserves the slot in the free vector before it pops the last element of a block.
Core Lean only.
-/
namespace XalanModel.C19

structure DBlock where
  obj : Nat
  buf : Nat
  elems : List (Int × Option Nat) := []
deriving Repr, DecidableEq

structure XBDeque where
  bs : Nat
  boxed : Bool := false
  repaired : Bool := false
  idx : XVec := {}                     -- m_blockIndex
  freeV : XVec := {}                   -- m_freeBlockVector
  inIdx : List DBlock := []            -- the blocks named by m_blockIndex, in order
  inFree : List DBlock := []           -- the blocks named by m_freeBlockVector, in order
deriving Repr, DecidableEq

namespace XBDeque

def elemBlocks (b : DBlock) : List Nat := b.elems.flatMap (·.2.toList)

def blockOwned (b : DBlock) : List Nat := b.obj :: b.buf :: elemBlocks b

def owned (d : XBDeque) : List Nat :=
  d.idx.owned ++ (d.freeV.owned ++ (d.inIdx.flatMap blockOwned ++ d.inFree.flatMap blockOwned))

def size (d : XBDeque) : Nat :=
  match d.inIdx.getLast? with
  | none => 0
  | some b => (d.inIdx.length - 1) * d.bs + b.elems.length

def elems (d : XBDeque) : List Int := d.inIdx.flatMap fun b => b.elems.map (·.1)

def dropLastItem (v : XVec) : XVec := { v with items := v.items.dropLast }

/-- returns the deque with a fresh EMPTY block at the end of the index -/
def pushNewIndexBlock (d : XBDeque) (l : Ledger) : Out × XBDeque × Ledger :=
  match d.idx.pushBack 0 l with
  | (.ok, idx1, l1) =>
    (match d.inFree.reverse with
     | [] =>
       (match l1.alloc with
        | (none, l2) => (.oom, { d with idx := dropLastItem idx1 }, l2)
        | (some ob, l2) =>
          match l2.alloc with
          | (none, l3) => (.oom, { d with idx := dropLastItem idx1 }, l3.free ob)
          | (some bf, l3) => (.ok, { d with idx := idx1, inIdx := d.inIdx ++ [⟨ob, bf, []⟩] }, l3))
     | fb :: frest =>
       (.ok, { d with idx := idx1, inIdx := d.inIdx ++ [fb], inFree := frest.reverse, freeV := dropLastItem d.freeV }, l1))
  | (o, _, l1) => (o, d, l1)

def needNew (d : XBDeque) : Bool :=
  match d.inIdx.getLast? with | none => true | some b => decide (b.elems.length ≥ d.bs)

def startBlock (d : XBDeque) (l : Ledger) : Out × XBDeque × Ledger :=
  if needNew d then pushNewIndexBlock d l else (.ok, d, l)

def pushBack (x : Int) (d : XBDeque) (l : Ledger) : Out × XBDeque × Ledger :=
  match startBlock d l with
  | (.ok, d1, l1) =>
    (match d1.inIdx.reverse with
     | [] => (.ub, d1, l1)
     | b :: rrest =>
       if d1.boxed then
         match l1.alloc with
         | (none, l2) =>
           if d1.repaired && b.elems.isEmpty then
             -- catch(...): the empty block leaves the index; parked on the free vector, or destroyed if that cannot grow
             let d2 := { d1 with idx := dropLastItem d1.idx, inIdx := rrest.reverse }
             match d2.freeV.pushBack (Int.ofNat b.obj) l2 with
             | (.ok, fv, l3) => (.oom, { d2 with freeV := fv, inFree := d2.inFree ++ [b] }, l3)
             | (_, _, l3) => (.oom, d2, (l3.free b.buf).free b.obj)
           else (.oom, d1, l2)
         | (some e, l2) => (.ok, { d1 with inIdx := rrest.reverse ++ [{ b with elems := b.elems ++ [(x, some e)] }] }, l2)
       else (.ok, { d1 with inIdx := rrest.reverse ++ [{ b with elems := b.elems ++ [(x, none)] }] }, l1))
  | other => other

def popBack (d : XBDeque) (l : Ledger) : Out × XBDeque × Ledger :=
  match d.inIdx.reverse with
  | [] => (.ub, d, l)                                     -- empty deque
  | b :: rrest =>
    match b.elems.reverse with
    | [] => (.ub, d, l)                                   -- an empty block at the end of the index
    | (_, eo) :: erest =>
      -- repaired: make room in the free vector before the last element of the block goes
      let pre : Out × XVec × Ledger :=
        if d.repaired && erest.isEmpty then d.freeV.reserve (d.freeV.items.length + 1) l else (.ok, d.freeV, l)
      match pre with
      | (.ok, fv0, l0) =>
        let l1 := l0.freeAll eo.toList
        let b1 : DBlock := { b with elems := erest.reverse }
        let d1 := { d with freeV := fv0, inIdx := rrest.reverse ++ [b1] }
        if erest.isEmpty then
          match fv0.pushBack (Int.ofNat b.obj) l1 with
          | (.ok, fv, l2) => (.ok, { d1 with freeV := fv, idx := dropLastItem d.idx, inIdx := rrest.reverse, inFree := d.inFree ++ [b1] }, l2)
          | (o, _, l2) => (o, d1, l2)
        else (.ok, d1, l1)
      | (o, _, l0) => (o, d, l0)

def clear (d : XBDeque) (l : Ledger) : Out × XBDeque × Ledger :=
  match d.freeV.reserve (d.freeV.items.length + d.idx.items.length) l with
  | (.ok, fv, l1) =>
    (.ok, { d with freeV := { fv with items := fv.items ++ d.idx.items }, idx := { d.idx with items := [] },
                   inFree := d.inFree ++ d.inIdx.map (fun b => { b with elems := [] }), inIdx := [] },
     l1.freeAll (d.inIdx.flatMap elemBlocks))
  | (o, _, l1) => (o, d, l1)

def destroyBlocks (bs : List DBlock) (l : Ledger) : Ledger :=
  l.freeAll (bs.flatMap fun b => elemBlocks b ++ [b.buf, b.obj])

def destroy (d : XBDeque) (l : Ledger) : Ledger :=
  d.idx.destroy (d.freeV.destroy (destroyBlocks d.inIdx (destroyBlocks d.inFree l)))

inductive Op where
  | push (x : Int) | pop | clear
deriving Repr, DecidableEq

def step (d : XBDeque) (l : Ledger) : Op → Out × XBDeque × Ledger
  | .push x => pushBack x d l
  | .pop => popBack d l
  | .clear => clear d l

def run : List Op → XBDeque → Ledger → Out × XBDeque × Ledger
  | [], d, l => (.ok, d, l)
  | op :: ops, d, l =>
    match step d l op with
    | (.ub, d1, l1) => (.ub, d1, l1)
    | (_, d1, l1) => run ops d1 l1

end XBDeque
end XalanModel.C19
