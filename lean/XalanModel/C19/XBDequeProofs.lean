import XalanModel.C19.XBDeque
import XalanModel.C19.XVecProofs
import XalanModel.C19.XMapProofs
/-
Invariant proofs for the XalanDeque model (push_back / pop_back / clear / destructor, allocating values).
-/
namespace XalanModel.C19
open Ledger

namespace XBDeque

structure Good (d : XBDeque) (l : Ledger) (f : List Nat) (n : Nat) : Prop where
  iw : d.idx.WF
  fw : d.freeV.WF
  holds : Holds l d.owned f n

theorem count_owned (d : XBDeque) (a : Nat) :
    d.owned.count a = d.idx.owned.count a + d.freeV.owned.count a + (d.inIdx.flatMap blockOwned).count a
      + (d.inFree.flatMap blockOwned).count a := by
  simp only [owned, List.count_append]; omega

theorem dropLastItem_wf (v : XVec) (h : v.WF) : (dropLastItem v).WF :=
  ⟨by simp [dropLastItem]; have := h.1; omega, h.2⟩

theorem dropLastItem_owned (v : XVec) : (dropLastItem v).owned = v.owned := rfl

/-- an operation on the index vector, with everything else of the deque in the frame -/
theorem idx_frame {d : XBDeque} {l : Ledger} {f : List Nat} {n : Nat} (h : Holds l d.owned f n) :
    Holds l d.idx.owned ((d.freeV.owned ++ (d.inIdx.flatMap blockOwned ++ d.inFree.flatMap blockOwned)) ++ f) n :=
  holds_frame_in (by simpa [owned] using h)

theorem free_frame {d : XBDeque} {l : Ledger} {f : List Nat} {n : Nat} (h : Holds l d.owned f n) :
    Holds l d.freeV.owned ((d.idx.owned ++ (d.inIdx.flatMap blockOwned ++ d.inFree.flatMap blockOwned)) ++ f) n :=
  holds_frame_in (holds_congr h (fun a => by simp [owned, List.count_append]; omega))

theorem pushNewIndexBlock_spec (d : XBDeque) (l : Ledger) (f : List Nat) (n : Nat) (hg : Good d l f n) :
    Good (pushNewIndexBlock d l).2.1 (pushNewIndexBlock d l).2.2 f n ∧ (pushNewIndexBlock d l).1 ≠ .ub ∧
    ((pushNewIndexBlock d l).1 = .ok → ∃ b, (pushNewIndexBlock d l).2.1.inIdx = d.inIdx ++ [b] ∧ b.elems = []
        ∨ ((pushNewIndexBlock d l).2.1.inIdx = d.inIdx ++ [b] ∧ b ∈ d.inFree)) ∧
    ((pushNewIndexBlock d l).1 ≠ .ok → (pushNewIndexBlock d l).2.1.inIdx = d.inIdx) ∧
    (pushNewIndexBlock d l).2.1.boxed = d.boxed ∧ (pushNewIndexBlock d l).2.1.repaired = d.repaired ∧
    (pushNewIndexBlock d l).2.1.bs = d.bs := by
  unfold pushNewIndexBlock
  obtain ⟨pw, ph, poom, pub, _⟩ := XVec.pushBack_spec d.idx 0 l _ n hg.iw (idx_frame hg.holds)
  cases hp : d.idx.pushBack 0 l with
  | mk o r =>
    obtain ⟨idx1, l1⟩ := r
    rw [hp] at pw ph poom pub
    simp only at pw ph poom pub
    cases o with
    | ub => exact absurd rfl pub
    | oom =>
      have := poom rfl; subst this
      refine ⟨⟨hg.iw, hg.fw, ?_⟩, by simp, by simp, by simp, rfl, rfl, rfl⟩
      exact holds_congr (holds_frame_out ph) (fun a => by simp [owned, List.count_append])
    | ok =>
      have h1 : Holds l1 (idx1.owned ++ (d.freeV.owned ++ (d.inIdx.flatMap blockOwned ++ d.inFree.flatMap blockOwned))) f n :=
        holds_frame_out ph
      simp only
      cases hr : d.inFree.reverse with
      | nil =>
        simp only
        cases ha : l1.alloc with
        | mk oo l2 =>
          cases oo with
          | none =>
            refine ⟨⟨dropLastItem_wf _ pw, hg.fw, ?_⟩, by simp, by simp, by simp, rfl, rfl, rfl⟩
            refine holds_congr (holds_alloc_none h1 ha) (fun a => ?_)
            simp [count_owned, dropLastItem_owned, List.count_append]; omega
          | some ob =>
            have h2 := holds_alloc h1 ha
            simp only
            cases ha2 : l2.alloc with
            | mk ob2 l3 =>
              cases ob2 with
              | none =>
                refine ⟨⟨dropLastItem_wf _ pw, hg.fw, ?_⟩, by simp, by simp, by simp, rfl, rfl, rfl⟩
                apply holds_free
                refine holds_congr (holds_alloc_none h2 ha2) (fun a => ?_)
                simp [count_owned, dropLastItem_owned, List.count_append, List.count_cons]; omega
              | some bf =>
                refine ⟨⟨pw, hg.fw, ?_⟩, by simp, fun _ => ⟨⟨ob, bf, []⟩, Or.inl ⟨rfl, rfl⟩⟩, by simp, rfl, rfl, rfl⟩
                refine holds_congr (holds_alloc h2 ha2) (fun a => ?_)
                simp [count_owned, blockOwned, elemBlocks, List.flatMap_append, List.count_append, List.count_cons]; omega
      | cons fb frest =>
        have hfree : d.inFree = frest.reverse ++ [fb] := by
          have := congrArg List.reverse hr; simpa using this
        refine ⟨⟨pw, dropLastItem_wf _ hg.fw, ?_⟩, by simp, fun _ => ⟨fb, Or.inr ⟨rfl, by rw [hfree]; simp⟩⟩, by simp, rfl, rfl, rfl⟩
        refine holds_congr h1 (fun a => ?_)
        simp only [count_owned, dropLastItem_owned]
        rw [hfree]
        simp [List.flatMap_append, List.count_append]; omega

theorem rev_cons {α : Type} {xs : List α} {x : α} {r : List α} (h : xs.reverse = x :: r) : xs = r.reverse ++ [x] := by
  have := congrArg List.reverse h; simpa using this

theorem count_blockOwned_set_elems (b : DBlock) (es : List (Int × Option Nat)) (a : Nat) :
    (blockOwned { b with elems := es }).count a = (if b.obj = a then 1 else 0) + (if b.buf = a then 1 else 0)
      + (es.flatMap (·.2.toList)).count a := by
  simp [blockOwned, elemBlocks, List.count_cons]; omega

theorem count_blockOwned (b : DBlock) (a : Nat) :
    (blockOwned b).count a = (if b.obj = a then 1 else 0) + (if b.buf = a then 1 else 0)
      + (b.elems.flatMap (·.2.toList)).count a := by
  simp [blockOwned, elemBlocks, List.count_cons]; omega

theorem startBlock_spec (d : XBDeque) (l : Ledger) (f : List Nat) (n : Nat) (hg : Good d l f n) :
    Good (startBlock d l).2.1 (startBlock d l).2.2 f n ∧ (startBlock d l).1 ≠ .ub ∧
    ((startBlock d l).1 = .ok → (startBlock d l).2.1.inIdx ≠ []) := by
  unfold startBlock
  split
  · obtain ⟨g, u, okc, _, _, _, _⟩ := pushNewIndexBlock_spec d l f n hg
    refine ⟨g, u, fun ho => ?_⟩
    obtain ⟨b, hb⟩ := okc ho
    rcases hb with ⟨h1, _⟩ | ⟨h1, _⟩ <;> (rw [h1]; simp)
  · rename_i hneed
    refine ⟨hg, by simp, fun _ hnil => ?_⟩
    simp only at hnil
    simp [needNew, hnil] at hneed

theorem pushBack_spec (x : Int) (d : XBDeque) (l : Ledger) (f : List Nat) (n : Nat) (hg : Good d l f n) :
    Good (pushBack x d l).2.1 (pushBack x d l).2.2 f n ∧ (pushBack x d l).1 ≠ .ub := by
  unfold pushBack
  obtain ⟨g1, u1, ne1⟩ := startBlock_spec d l f n hg
  cases hs : startBlock d l with
  | mk o r =>
  obtain ⟨d1, l1⟩ := r
  rw [hs] at g1 u1 ne1
  simp only at g1 u1 ne1
  cases o with
  | ub => exact absurd rfl u1
  | oom => exact ⟨g1, by simp⟩
  | ok =>
    simp only
    cases hr : d1.inIdx.reverse with
    | nil => exact absurd (by simpa using hr) (ne1 rfl)
    | cons b rrest =>
      have hidx := rev_cons hr
      simp only
      have hbase : ∀ a, d1.owned.count a = d1.idx.owned.count a + d1.freeV.owned.count a
          + (rrest.reverse.flatMap blockOwned).count a + (blockOwned b).count a + (d1.inFree.flatMap blockOwned).count a := by
        intro a; rw [count_owned, hidx]; simp [List.flatMap_append, List.count_append]; omega
      cases hbx : d1.boxed with
      | false =>
        simp only [Bool.false_eq_true, if_false]
        refine ⟨⟨g1.iw, g1.fw, ?_⟩, by simp⟩
        refine holds_congr g1.holds (fun a => ?_)
        rw [hbase a, count_owned]
        simp [List.flatMap_append, List.count_append, count_blockOwned]; omega
      | true =>
        simp only [if_true]
        cases ha : l1.alloc with
        | mk oe l2 =>
          cases oe with
          | some e =>
            refine ⟨⟨g1.iw, g1.fw, ?_⟩, by simp⟩
            refine holds_congr (holds_alloc g1.holds ha) (fun a => ?_)
            rw [List.count_cons, hbase a, count_owned]
            simp [List.flatMap_append, List.count_append, count_blockOwned, List.count_cons]; omega
          | none =>
            have hn := holds_alloc_none g1.holds ha
            simp only
            split
            · rename_i hc
              simp only [Bool.and_eq_true, List.isEmpty_iff] at hc
              have hbe : b.elems = [] := hc.2
              -- d2: the empty block taken out of the index
              have hg2 : Holds l2 (d1.freeV.owned ++ (blockOwned b ++ (d1.idx.owned ++ (rrest.reverse.flatMap blockOwned ++ d1.inFree.flatMap blockOwned)))) f n := by
                refine holds_congr hn (fun a => ?_)
                rw [hbase a]; simp [List.count_append]; omega
              obtain ⟨pw, ph, poom, pub, _⟩ := XVec.pushBack_spec d1.freeV (Int.ofNat b.obj) l2 _ n g1.fw (holds_frame_in hg2)
              cases hp : d1.freeV.pushBack (Int.ofNat b.obj) l2 with
              | mk o2 r2 =>
                obtain ⟨fv, l3⟩ := r2
                rw [hp] at pw ph poom pub
                simp only at pw ph poom pub
                cases o2 with
                | ok =>
                  refine ⟨⟨dropLastItem_wf _ g1.iw, pw, ?_⟩, by simp⟩
                  refine holds_congr (holds_frame_out ph) (fun a => ?_)
                  simp [count_owned, dropLastItem_owned, List.flatMap_append, List.count_append]; omega
                | oom =>
                  have := poom rfl; subst this
                  refine ⟨⟨dropLastItem_wf _ g1.iw, g1.fw, ?_⟩, by simp⟩
                  apply holds_free
                  apply holds_free
                  refine holds_congr (holds_frame_out ph) (fun a => ?_)
                  simp [count_owned, dropLastItem_owned, blockOwned, elemBlocks, hbe, List.count_append, List.count_cons]; omega
                | ub => exact absurd rfl pub
            · exact ⟨⟨g1.iw, g1.fw, hn⟩, by simp⟩

theorem popBack_spec (d : XBDeque) (l : Ledger) (f : List Nat) (n : Nat) (hg : Good d l f n) :
    Good (popBack d l).2.1 (popBack d l).2.2 f n := by
  unfold popBack
  cases hr : d.inIdx.reverse with
  | nil => exact hg
  | cons b rrest =>
    have hidx := rev_cons hr
    simp only
    cases he : b.elems.reverse with
    | nil => exact hg
    | cons last erest =>
      obtain ⟨xv, eo⟩ := last
      have hel : b.elems = erest.reverse ++ [(xv, eo)] := rev_cons he
      simp only
      have hbase : ∀ a, d.owned.count a = d.idx.owned.count a + d.freeV.owned.count a
          + (rrest.reverse.flatMap blockOwned).count a + ((if b.obj = a then 1 else 0) + (if b.buf = a then 1 else 0)
            + (erest.reverse.flatMap (·.2.toList)).count a + eo.toList.count a) + (d.inFree.flatMap blockOwned).count a := by
        intro a; rw [count_owned, hidx]
        simp [List.flatMap_append, List.count_append, count_blockOwned, hel]; omega
      -- the optional reservation
      have hpre : ∃ fv0 l0 o, (if (d.repaired && erest.isEmpty) = true then d.freeV.reserve (d.freeV.items.length + 1) l else (Out.ok, d.freeV, l)) = (o, fv0, l0)
          ∧ o ≠ .ub ∧ fv0.WF ∧ Holds l0 fv0.owned ((d.idx.owned ++ (d.inIdx.flatMap blockOwned ++ d.inFree.flatMap blockOwned)) ++ f) n
          ∧ (o ≠ .ok → fv0 = d.freeV) := by
        split
        · obtain ⟨rg, rh, room, rub, _⟩ := XVec.reserve_spec d.freeV (d.freeV.items.length + 1) l _ n hg.fw (free_frame hg.holds)
          cases hrs : d.freeV.reserve (d.freeV.items.length + 1) l with
          | mk o r2 =>
            obtain ⟨fv0, l0⟩ := r2
            rw [hrs] at rg rh room rub
            refine ⟨fv0, l0, o, rfl, rub, rg, rh, fun hno => ?_⟩
            cases o with
            | ok => exact absurd rfl hno
            | oom => exact room rfl
            | ub => exact absurd rfl rub
        · exact ⟨d.freeV, l, .ok, rfl, by simp, hg.fw, free_frame hg.holds, fun h => absurd rfl h⟩
      obtain ⟨fv0, l0, o, heq, hnub, fw0, fh0, hsame⟩ := hpre
      rw [heq]
      cases o with
      | ub => exact absurd rfl hnub
      | oom =>
        have := hsame (by simp); subst this
        exact ⟨hg.iw, hg.fw, holds_congr (holds_frame_out fh0) (fun a => by simp [owned, List.count_append]; omega)⟩
      | ok =>
        simp only
        -- after the element is destroyed
        have h1 : Holds (l0.freeAll eo.toList) (fv0.owned ++ (d.idx.owned ++ (rrest.reverse.flatMap blockOwned ++
            (blockOwned { b with elems := erest.reverse } ++ d.inFree.flatMap blockOwned)))) f n := by
          apply holds_freeAll
          refine holds_congr (holds_frame_out fh0) (fun a => ?_)
          rw [hidx]
          simp [List.flatMap_append, List.count_append, count_blockOwned, hel]; omega
        split
        · obtain ⟨pw, ph, poom, pub, _⟩ := XVec.pushBack_spec fv0 (Int.ofNat b.obj) (l0.freeAll eo.toList) _ n fw0 (holds_frame_in h1)
          cases hp : fv0.pushBack (Int.ofNat b.obj) (l0.freeAll eo.toList) with
          | mk o2 r2 =>
            obtain ⟨fv, l2⟩ := r2
            rw [hp] at pw ph poom pub
            simp only at pw ph poom pub
            cases o2 with
            | ub => exact absurd rfl pub
            | ok =>
              refine ⟨dropLastItem_wf _ hg.iw, pw, ?_⟩
              refine holds_congr (holds_frame_out ph) (fun a => ?_)
              simp [count_owned, dropLastItem_owned, List.flatMap_append, List.count_append]; omega
            | oom =>
              have := poom rfl; subst this
              refine ⟨hg.iw, fw0, ?_⟩
              refine holds_congr (holds_frame_out ph) (fun a => ?_)
              simp [count_owned, List.flatMap_append, List.count_append]; omega
        · refine ⟨hg.iw, fw0, ?_⟩
          refine holds_congr h1 (fun a => ?_)
          simp [count_owned, List.flatMap_append, List.count_append]; omega

theorem count_cleared (bs : List DBlock) (a : Nat) :
    ((bs.map fun b => ({ b with elems := [] } : DBlock)).flatMap blockOwned).count a + (bs.flatMap elemBlocks).count a
      = (bs.flatMap blockOwned).count a := by
  induction bs with
  | nil => rfl
  | cons b bs ih =>
    simp only [List.map_cons, List.flatMap_cons, List.count_append] at ih ⊢
    simp [blockOwned, elemBlocks, List.count_cons, List.count_append] at ih ⊢
    omega

theorem clear_spec (d : XBDeque) (l : Ledger) (f : List Nat) (n : Nat) (hg : Good d l f n) :
    Good (clear d l).2.1 (clear d l).2.2 f n ∧ (clear d l).1 ≠ .ub := by
  unfold clear
  obtain ⟨rg, rh, room, rub, rok⟩ := XVec.reserve_spec d.freeV (d.freeV.items.length + d.idx.items.length) l _ n hg.fw (free_frame hg.holds)
  cases hrs : d.freeV.reserve (d.freeV.items.length + d.idx.items.length) l with
  | mk o r2 =>
    obtain ⟨fv, l1⟩ := r2
    rw [hrs] at rg rh room rub rok
    simp only at rg rh room rub rok
    cases o with
    | ub => exact absurd rfl rub
    | oom =>
      have := room rfl; subst this
      exact ⟨⟨hg.iw, hg.fw, holds_congr (holds_frame_out rh) (fun a => by simp [owned, List.count_append]; omega)⟩, by simp⟩
    | ok =>
      obtain ⟨hitems, hcap⟩ := rok rfl
      refine ⟨⟨⟨by simp, hg.iw.2⟩, ⟨?_, rg.2⟩, ?_⟩, by simp⟩
      · simp only [List.length_append]; rw [hitems]; omega
      · apply holds_freeAll
        refine holds_congr (holds_frame_out rh) (fun a => ?_)
        have := count_cleared d.inIdx a
        simp [count_owned, XVec.owned, List.flatMap_append, List.count_append] at this ⊢; omega

theorem count_destroyBlocks (bs : List DBlock) (a : Nat) :
    (bs.flatMap fun b => elemBlocks b ++ [b.buf, b.obj]).count a = (bs.flatMap blockOwned).count a := by
  induction bs with
  | nil => rfl
  | cons b bs ih => simp [List.flatMap_cons, blockOwned, List.count_append, List.count_cons, ih]; omega

theorem destroy_spec (d : XBDeque) (l : Ledger) (f : List Nat) (n : Nat) (hg : Good d l f n) :
    Holds (destroy d l) [] f n := by
  unfold destroy XVec.destroy
  apply XVec.release_holds hg.iw
  have : Holds (d.freeV.release (destroyBlocks d.inIdx (destroyBlocks d.inFree l))) d.idx.owned f n := by
    have h1 := XVec.release_holds (f := d.idx.owned ++ f) hg.fw (l := destroyBlocks d.inIdx (destroyBlocks d.inFree l)) (n := n) (by
      apply holds_frame_in
      unfold destroyBlocks
      apply holds_freeAll
      apply holds_freeAll
      refine holds_congr hg.holds (fun a => ?_)
      simp [count_owned, List.count_append, count_destroyBlocks]; omega)
    exact holds_congr (holds_frame_out h1) (fun a => by simp)
  exact this

theorem step_spec (d : XBDeque) (op : Op) (l : Ledger) (f : List Nat) (n : Nat) (hg : Good d l f n) :
    Good (step d l op).2.1 (step d l op).2.2 f n := by
  cases op with
  | push x => exact (pushBack_spec x d l f n hg).1
  | pop => exact popBack_spec d l f n hg
  | clear => exact (clear_spec d l f n hg).1

theorem run_spec (ops : List Op) (d : XBDeque) (l : Ledger) (f : List Nat) (n : Nat) (hg : Good d l f n) :
    Good (run ops d l).2.1 (run ops d l).2.2 f n := by
  induction ops generalizing d l with
  | nil => exact hg
  | cons op ops ih =>
    have a := step_spec d op l f n hg
    simp only [run]
    cases hs : step d l op with
    | mk o r =>
      obtain ⟨d1, l1⟩ := r
      rw [hs] at a
      cases o with
      | ub => exact a
      | ok => exact ih d1 l1 a
      | oom => exact ih d1 l1 a

/-- repaired deque: no block named by the index is empty, and parked blocks hold nothing -/
structure Tidy (d : XBDeque) : Prop where
  ne : ∀ b ∈ d.inIdx, b.elems ≠ []
  fe : ∀ b ∈ d.inFree, b.elems = []
  rep : d.repaired = true

theorem pushNewIndexBlock_shape (d : XBDeque) (l : Ledger) :
    (∀ x ∈ (pushNewIndexBlock d l).2.1.inFree, x ∈ d.inFree) ∧
    ((pushNewIndexBlock d l).1 = .ok → ∃ b, (pushNewIndexBlock d l).2.1.inIdx = d.inIdx ++ [b] ∧ (b.elems = [] ∨ b ∈ d.inFree)) ∧
    ((pushNewIndexBlock d l).1 ≠ .ok → (pushNewIndexBlock d l).2.1.inIdx = d.inIdx) ∧
    (pushNewIndexBlock d l).2.1.repaired = d.repaired := by
  unfold pushNewIndexBlock
  cases hp : d.idx.pushBack 0 l with
  | mk o r =>
    obtain ⟨idx1, l1⟩ := r
    cases o with
    | ub => simp
    | oom => simp
    | ok =>
      simp only
      cases hr : d.inFree.reverse with
      | nil =>
        simp only
        cases ha : l1.alloc with
        | mk oo l2 =>
          cases oo with
          | none => simp
          | some ob =>
            simp only
            cases ha2 : l2.alloc with
            | mk ob2 l3 =>
              cases ob2 with
              | none => simp
              | some bf => simp
      | cons fb frest =>
        have hfree := rev_cons hr
        simp only
        refine ⟨fun x hx => by rw [hfree]; simp [hx], fun _ => ⟨fb, rfl, Or.inr (by rw [hfree]; simp)⟩, by simp, trivial⟩

theorem pushBack_tidy (x : Int) (d : XBDeque) (l : Ledger) (ht : Tidy d) :
    Tidy (pushBack x d l).2.1 := by
  unfold pushBack startBlock
  have hshape := pushNewIndexBlock_shape d l
  -- the state after the optional new block
  have hstart : ∃ d1 l1 o, (if needNew d = true then pushNewIndexBlock d l else (Out.ok, d, l)) = (o, d1, l1) ∧
      d1.repaired = true ∧ (∀ b ∈ d1.inFree, b.elems = []) ∧
      (o ≠ .ok → d1.inIdx = d.inIdx) ∧
      (o = .ok → ∃ b pre, d1.inIdx = pre ++ [b] ∧ (∀ y ∈ pre, y.elems ≠ [])) := by
    split
    · obtain ⟨h1, h2, h3, h4⟩ := hshape
      cases hp : pushNewIndexBlock d l with
      | mk o r =>
        obtain ⟨d1, l1⟩ := r
        rw [hp] at h1 h2 h3 h4
        refine ⟨d1, l1, o, rfl, by rw [h4]; exact ht.rep, fun b hb => ht.fe b (h1 b hb), h3, fun ho => ?_⟩
        obtain ⟨b, hb, _⟩ := h2 ho
        exact ⟨b, d.inIdx, hb, ht.ne⟩
    · rename_i hneed
      refine ⟨d, l, .ok, rfl, ht.rep, ht.fe, fun _ => rfl, fun _ => ?_⟩
      cases hr : d.inIdx.reverse with
      | nil =>
        have : d.inIdx = [] := by simpa using hr
        simp [needNew, this] at hneed
      | cons b rrest =>
        have hidx := rev_cons hr
        refine ⟨b, rrest.reverse, hidx, fun y hy => ht.ne y (by rw [hidx]; simp [hy])⟩
  obtain ⟨d1, l1, o, heq, hrep, hfe, hno, hok⟩ := hstart
  rw [heq]
  cases o with
  | ub => simp only; exact ⟨by rw [hno (by simp)]; exact ht.ne, hfe, hrep⟩
  | oom => simp only; exact ⟨by rw [hno (by simp)]; exact ht.ne, hfe, hrep⟩
  | ok =>
    obtain ⟨b0, pre, hidx, hpre⟩ := hok rfl
    simp only
    cases hr : d1.inIdx.reverse with
    | nil =>
      simp only
      have hnil : d1.inIdx = [] := by simpa using hr
      exact ⟨fun y hy => by rw [hnil] at hy; simp at hy, hfe, hrep⟩
    | cons b rrest =>
      have hidx2 := rev_cons hr
      have hsame : rrest.reverse = pre ∧ b = b0 := by
        rw [hidx] at hidx2
        have := List.append_inj' hidx2 rfl
        exact ⟨this.1.symm, by simpa using this.2.symm⟩
      obtain ⟨hp1, hp2⟩ := hsame
      simp only
      have hne_new : ∀ (es : List (Int × Option Nat)), es ≠ [] →
          ∀ y ∈ rrest.reverse ++ [({ b with elems := es } : DBlock)], y.elems ≠ [] := by
        intro es hes y hy
        simp only [List.mem_append, List.mem_singleton] at hy
        rcases hy with hy | hy
        · exact hpre y (by rw [← hp1]; exact hy)
        · subst hy; exact hes
      cases hbx : d1.boxed with
      | false =>
        simp only [Bool.false_eq_true, if_false]
        exact ⟨hne_new _ (by simp), hfe, hrep⟩
      | true =>
        simp only [if_true]
        cases ha : l1.alloc with
        | mk oe l2 =>
          cases oe with
          | some e => exact ⟨hne_new _ (by simp), hfe, hrep⟩
          | none =>
            simp only
            split
            · rename_i hc
              simp only [Bool.and_eq_true, List.isEmpty_iff] at hc
              have hpre' : ∀ y ∈ rrest.reverse, y.elems ≠ [] := fun y hy => hpre y (by rw [← hp1]; exact hy)
              cases hp : d1.freeV.pushBack (Int.ofNat b.obj) l2 with
              | mk o2 r2 =>
                obtain ⟨fv, l3⟩ := r2
                cases o2 with
                | ok =>
                  refine ⟨hpre', fun y hy => ?_, hrep⟩
                  simp only [List.mem_append, List.mem_singleton] at hy
                  rcases hy with hy | hy
                  · exact hfe y hy
                  · subst hy; exact hc.2
                | oom => exact ⟨hpre', hfe, hrep⟩
                | ub => exact ⟨hpre', hfe, hrep⟩
            · rename_i hc
              -- repaired, so the last block is not empty
              have hbne : b.elems ≠ [] := by
                intro he
                apply hc
                simp [hrep, he]
              refine ⟨fun y hy => ?_, hfe, hrep⟩
              rw [hidx2] at hy
              simp only [List.mem_append, List.mem_singleton] at hy
              rcases hy with hy | hy
              · exact hpre y (by rw [← hp1]; exact hy)
              · subst hy; exact hbne

theorem pushBack_after_reserve (v : XVec) (x : Int) (l : Ledger) (h : v.items.length < v.cap) :
    v.pushBack x l = (.ok, { v with items := v.items ++ [x] }, l) := by
  unfold XVec.pushBack; simp [h]

theorem popBack_tidy (d : XBDeque) (l : Ledger) (f : List Nat) (n : Nat) (hg : Good d l f n) (ht : Tidy d) :
    Tidy (popBack d l).2.1 ∧ ((popBack d l).1 = .ub → d.inIdx = []) := by
  unfold popBack
  cases hr : d.inIdx.reverse with
  | nil => exact ⟨ht, fun _ => by simpa using hr⟩
  | cons b rrest =>
    have hidx := rev_cons hr
    have hbne : b.elems ≠ [] := ht.ne b (by rw [hidx]; simp)
    have hpre : ∀ y ∈ rrest.reverse, y.elems ≠ [] := fun y hy => ht.ne y (by rw [hidx]; simp [hy])
    simp only
    cases he : b.elems.reverse with
    | nil => exact absurd (by simpa using he) hbne
    | cons last erest =>
      obtain ⟨xv, eo⟩ := last
      simp only [ht.rep, Bool.true_and]
      cases hem : erest.isEmpty with
      | false =>
        simp only [Bool.false_eq_true, if_false]
        refine ⟨⟨fun y hy => ?_, ht.fe, rfl⟩, by simp⟩
        simp only [List.mem_append, List.mem_singleton] at hy
        rcases hy with hy | hy
        · exact hpre y hy
        · subst hy
          simp only
          intro h0
          have : erest = [] := by simpa using h0
          simp [this] at hem
      | true =>
        simp only [if_true]
        obtain ⟨rg, rh, room, rub, rok⟩ := XVec.reserve_spec d.freeV (d.freeV.items.length + 1) l _ n hg.fw (free_frame hg.holds)
        cases hrs : d.freeV.reserve (d.freeV.items.length + 1) l with
        | mk o r2 =>
          obtain ⟨fv0, l0⟩ := r2
          rw [hrs] at rg rh room rub rok
          simp only at rg rh room rub rok
          cases o with
          | ub => exact absurd rfl rub
          | oom => exact ⟨ht, by simp⟩
          | ok =>
            obtain ⟨hitems, hcap⟩ := rok rfl
            simp only
            have hroom : fv0.items.length < fv0.cap := by rw [hitems]; omega
            rw [pushBack_after_reserve fv0 _ _ hroom]
            simp only
            have herest : erest = [] := by simpa using hem
            refine ⟨⟨hpre, fun y hy => ?_, rfl⟩, by simp⟩
            simp only [List.mem_append, List.mem_singleton] at hy
            rcases hy with hy | hy
            · exact ht.fe y hy
            · subst hy; simp [herest]

theorem clear_tidy (d : XBDeque) (l : Ledger) (ht : Tidy d) : Tidy (clear d l).2.1 := by
  unfold clear
  cases hrs : d.freeV.reserve (d.freeV.items.length + d.idx.items.length) l with
  | mk o r2 =>
    obtain ⟨fv, l1⟩ := r2
    cases o with
    | ub => exact ht
    | oom => exact ht
    | ok =>
      refine ⟨by simp, fun y hy => ?_, ht.rep⟩
      simp only [List.mem_append, List.mem_map] at hy
      rcases hy with hy | ⟨b0, _, rfl⟩
      · exact ht.fe y hy
      · rfl

theorem step_full (d : XBDeque) (op : Op) (l : Ledger) (f : List Nat) (n : Nat) (hg : Good d l f n) (ht : Tidy d) :
    Good (step d l op).2.1 (step d l op).2.2 f n ∧ Tidy (step d l op).2.1 ∧
    ((step d l op).1 = .ub → op = .pop ∧ d.inIdx = []) := by
  cases op with
  | push x =>
    obtain ⟨a, b⟩ := pushBack_spec x d l f n hg
    exact ⟨a, pushBack_tidy x d l ht, fun hu => absurd hu b⟩
  | pop =>
    obtain ⟨t, u⟩ := popBack_tidy d l f n hg ht
    exact ⟨popBack_spec d l f n hg, t, fun hu => ⟨rfl, u hu⟩⟩
  | clear =>
    obtain ⟨a, b⟩ := clear_spec d l f n hg
    exact ⟨a, clear_tidy d l ht, fun hu => absurd hu b⟩

theorem run_full (ops : List Op) (d : XBDeque) (l : Ledger) (f : List Nat) (n : Nat) (hg : Good d l f n) (ht : Tidy d) :
    Good (run ops d l).2.1 (run ops d l).2.2 f n ∧ Tidy (run ops d l).2.1 := by
  induction ops generalizing d l with
  | nil => exact ⟨hg, ht⟩
  | cons op ops ih =>
    obtain ⟨a, t, _⟩ := step_full d op l f n hg ht
    simp only [run]
    cases hs : step d l op with
    | mk o r =>
      obtain ⟨d1, l1⟩ := r
      rw [hs] at a t
      cases o with
      | ub => exact ⟨a, t⟩
      | ok => exact ih d1 l1 a t
      | oom => exact ih d1 l1 a t

end XBDeque
end XalanModel.C19
