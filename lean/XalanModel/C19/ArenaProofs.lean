import XalanModel.C19.Arena
import XalanModel.C19.LedgerProofs
/-
Invariant proofs for the ReusableArenaBlock model.
-/
namespace XalanModel.C19
open Ledger

namespace Arena

abbrev Slot := Option (Int × Nat)

def blocksOf (ss : List Slot) : List Nat := ss.filterMap (fun s => s.map (·.2))

theorem blocksOf_append (a b : List Slot) : blocksOf (a ++ b) = blocksOf a ++ blocksOf b := by
  simp [blocksOf, List.filterMap_append]

/-- free-list discipline: free indices are in range, name empty slots, and are distinct;
`m_objectCount` is at least the number of objects (plus the pending hand-out) -/
structure Inv (a : Arena) : Prop where
  free_none : ∀ i ∈ a.freeList, a.slots[i]? = some none
  nodup : a.freeList.Nodup
  count_ge : (blocksOf a.slots).length + (if a.pending then 1 else 0) ≤ a.count
  pend_head : a.pending = true → a.freeList ≠ []
  free_len : a.freeList.length + (blocksOf a.slots).length = a.slots.length     -- every slot without an object is on the free list
  count_le : a.count ≤ a.slots.length

theorem blocksOf_replicate (n : Nat) : blocksOf (List.replicate n (none : Slot)) = [] := by
  induction n with
  | zero => rfl
  | succ n ih => simp [List.replicate_succ, blocksOf] at ih ⊢

theorem set_split (ss : List Slot) (i : Nat) (v : Slot) (old : Slot) (h : ss[i]? = some old) :
    ∃ pre post, ss = pre ++ old :: post ∧ ss.set i v = pre ++ v :: post := by
  have hi : i < ss.length := by
    cases hlt : decide (i < ss.length) with
    | true => exact of_decide_eq_true hlt
    | false =>
      have : ss.length ≤ i := Nat.le_of_not_lt (of_decide_eq_false hlt)
      simp [List.getElem?_eq_none this] at h
  have hget : ss[i] = old := by
    have := List.getElem?_eq_getElem hi; rw [this] at h; exact Option.some.inj h
  refine ⟨ss.take i, ss.drop (i + 1), ?_, ?_⟩
  · rw [← hget]; exact (List.take_append_drop i ss).symm.trans (by rw [List.drop_eq_getElem_cons hi])
  · rw [List.set_eq_take_append_cons_drop]; simp [hi]

theorem create_spec (n : Nat) (l : Ledger) (f : List Nat) (m : Nat) (h : Holds l [] f m) :
    (∀ l1, create n l = (none, l1) → Holds l1 [] f m) ∧
    (∀ a l1, create n l = (some a, l1) → a.Inv ∧ Holds l1 a.owned f m ∧ a.size = n) := by
  unfold create
  cases ha : l.alloc with
  | mk ob l1 =>
    cases ob with
    | none =>
      refine ⟨fun l2 he => ?_, fun a l2 he => by simp at he⟩
      simp only [Prod.mk.injEq, true_and] at he; subst he
      exact holds_alloc_none h ha
    | some b =>
      have h1 := holds_alloc h ha
      simp only
      cases ha2 : l1.alloc with
      | mk oa l2 =>
        cases oa with
        | none =>
          refine ⟨fun l3 he => ?_, fun a l3 he => by simp at he⟩
          simp only [Prod.mk.injEq, true_and] at he; subst he
          exact holds_free (holds_alloc_none h1 ha2)
        | some arr =>
          refine ⟨fun l3 he => by simp at he, fun a l3 he => ?_⟩
          simp only [Prod.mk.injEq, Option.some.injEq] at he
          obtain ⟨rfl, rfl⟩ := he
          refine ⟨⟨?_, List.nodup_range, ?_, by simp, by simp [blocksOf_replicate], by simp⟩, ?_, by simp [size]⟩
          · intro i hi
            have : i < n := by simpa using hi
            simp [this]
          · simp [blocksOf]
          · refine holds_congr (holds_alloc h1 ha2) (fun a => ?_)
            simp [owned, objBlocks, List.count_cons]; omega

theorem construct_spec (x : Int) (a : Arena) (l : Ledger) (f : List Nat) (m : Nat) (hi : a.Inv)
    (h : Holds l a.owned f m) :
    (construct x a l).2.2.1.Inv ∧ Holds (construct x a l).2.2.2 (construct x a l).2.2.1.owned f m ∧
    (construct x a l).1 ≠ .ub := by
  unfold construct
  split
  · exact ⟨hi, h, by simp⟩
  · rename_i hfull
    cases hfl : a.freeList with
    | nil =>
      -- free-list non-exhaustion: an empty free list means every slot holds an object, so m_objectCount = m_blockSize
      exfalso
      have h1 := hi.free_len
      have h2 := hi.count_ge
      have h3 := hi.count_le
      rw [hfl] at h1
      simp only [List.length_nil, Nat.zero_add] at h1
      have : a.count = a.size := by unfold size; omega
      exact hfull this
    | cons i rest =>
      have hnone := hi.free_none i (by simp [hfl])
      have hfn := hi.free_none; rw [hfl] at hfn
      have hnd := hi.nodup; rw [hfl] at hnd
      have hc := hi.count_ge
      cases ha : l.alloc with
      | mk oe l1 =>
        cases oe with
        | none =>
          dsimp only
          have hcl := hi.count_le
          have hfl2 := hi.free_len
          rw [hfl] at hfl2
          refine ⟨⟨hfn, hnd, ?_, by simp, by simpa using hfl2, ?_⟩, holds_alloc_none h ha, by simp⟩
          · dsimp only
            cases hp : a.pending <;> simp [hp] at hc ⊢ <;> omega
          · dsimp only
            have : a.count ≠ a.slots.length := hfull
            cases hp : a.pending <;> simp [hp] <;> omega
        | some e =>
          dsimp only
          obtain ⟨pre, post, hs1, hs2⟩ := set_split a.slots i (some (x, e)) none hnone
          have hlen : (blocksOf (a.slots.set i (some (x, e)))).length = (blocksOf a.slots).length + 1 := by
            rw [hs2, hs1]
            simp [blocksOf, List.filterMap_append]; omega
          have hcl := hi.count_le
          have hfl2 := hi.free_len
          rw [hfl] at hfl2
          refine ⟨⟨?_, (List.nodup_cons.mp hnd).2, ?_, by simp, ?_, ?_⟩, ?_, by simp⟩
          · intro j hj
            have hji : j ≠ i := by
              intro heq; subst heq; exact (List.nodup_cons.mp hnd).1 hj
            dsimp only
            rw [List.getElem?_set_ne (Ne.symm hji)]
            exact hfn j (by simp [hj])
          · dsimp only
            rw [hlen]
            cases hp : a.pending <;> simp [hp] at hc ⊢ <;> omega
          · dsimp only
            rw [hlen, List.length_set]
            simp only [List.length_cons] at hfl2; omega
          · dsimp only
            rw [List.length_set]
            have : a.count ≠ a.slots.length := hfull
            cases hp : a.pending <;> simp [hp] <;> omega
          · refine holds_congr (holds_alloc h ha) (fun b => ?_)
            simp only [owned, objBlocks]
            rw [hs2, hs1]
            simp only [List.filterMap_append, List.filterMap_cons, Option.map_some, Option.map_none,
              List.count_cons, List.count_append]
            split <;> split <;> simp_all <;> omega

theorem destroyObject_spec (i : Nat) (a : Arena) (l : Ledger) (f : List Nat) (m : Nat) (hi : a.Inv)
    (h : Holds l a.owned f m) :
    (destroyObject i a l).2.1.Inv ∧ Holds (destroyObject i a l).2.2 (destroyObject i a l).2.1.owned f m ∧
    ((destroyObject i a l).1 = .ub → ∀ v, a.slots[i]? ≠ some (some v)) := by
  unfold destroyObject
  cases hs : a.slots[i]? with
  | none => exact ⟨hi, h, fun _ v => by simp⟩
  | some sl =>
    cases sl with
    | none => exact ⟨hi, h, fun _ v => by simp⟩
    | some ve =>
      obtain ⟨v, e⟩ := ve
      dsimp only
      obtain ⟨pre, post, hs1, hs2⟩ := set_split a.slots i none (some (v, e)) hs
      have hc := hi.count_ge
      have hnotfree : i ∉ a.freeList := by
        intro hm; have := hi.free_none i hm; rw [hs] at this; simp at this
      have hlen0 : (blocksOf a.slots).length = (blocksOf (a.slots.set i none)).length + 1 := by
        rw [hs2, hs1]
        simp [blocksOf, List.filterMap_append]; omega
      refine ⟨⟨?_, List.nodup_cons.mpr ⟨hnotfree, hi.nodup⟩, ?_, by simp, by
          have := hi.free_len; dsimp only; rw [List.length_set]; simp only [List.length_cons]; omega, by
          have := hi.count_le; dsimp only; rw [List.length_set]; omega⟩, ?_, by simp⟩
      · intro j hj
        dsimp only at hj ⊢
        cases List.mem_cons.mp hj with
        | inl heq =>
          subst heq
          have hlt : j < a.slots.length := by
            cases hlt : decide (j < a.slots.length) with
            | true => exact of_decide_eq_true hlt
            | false =>
              have : a.slots.length ≤ j := Nat.le_of_not_lt (of_decide_eq_false hlt)
              simp [List.getElem?_eq_none this] at hs
          simp [List.getElem?_set_self hlt]
        | inr hmem =>
          have hji : j ≠ i := fun heq => hnotfree (heq ▸ hmem)
          rw [List.getElem?_set_ne (Ne.symm hji)]
          exact hi.free_none j hmem
      · dsimp only
        have hlen : (blocksOf a.slots).length = (blocksOf (a.slots.set i none)).length + 1 := by
          rw [hs2, hs1]
          simp [blocksOf, List.filterMap_append]; omega
        simp only [Bool.false_eq_true, if_false]
        cases hp : a.pending <;> simp [hp] at hc <;> omega
      · have hre : Holds l (e :: (Arena.mk a.blk a.arr (a.slots.set i none) (i :: a.freeList) false (a.count - 1)).owned) f m := by
          refine holds_congr h (fun b => ?_)
          simp only [owned, objBlocks]
          rw [hs2, hs1]
          simp only [List.filterMap_append, List.filterMap_cons, Option.map_some, Option.map_none,
            List.count_cons, List.count_append]
          omega
        exact holds_free hre

/-- with the repair, the loop of the destructor frees exactly the blocks of the objects it
passes, provided `m_objectCount` lets it reach them and the skipped slot holds no object -/
theorem destroyLoop_skip (p : Option Nat) (count : Nat) (ss : List Slot) (idx removed : Nat) (l : Ledger)
    (hcount : removed + (blocksOf ss).length ≤ count)
    (hp : ∀ k, p = some (idx + k) → ss[k]? ≠ none → ss[k]? = some none) :
    destroyLoop true p count ss idx removed l = (.ok, l.freeAll (blocksOf ss)) := by
  induction ss generalizing idx removed l with
  | nil => simp [destroyLoop, blocksOf, Ledger.freeAll]
  | cons s ss ih =>
    have hp' : ∀ k, p = some (idx + 1 + k) → ss[k]? ≠ none → ss[k]? = some none := by
      intro k hk hne
      have := hp (k + 1) (by rw [hk]; congr 1; omega)
      simpa using this (by simpa using hne)
    cases s with
    | none =>
      have hc' : removed + (blocksOf ss).length ≤ count := by simpa [blocksOf] using hcount
      simp only [destroyLoop]
      split
      · split
        · simp only [if_true]; rw [ih (idx + 1) removed l hc' hp']; simp [blocksOf]
        · rw [ih (idx + 1) removed l hc' hp']; simp [blocksOf]
      · -- removed ≥ count: nothing left to free
        have : (blocksOf ss).length = 0 := by omega
        have hnil : blocksOf ss = [] := List.length_eq_zero_iff.mp this
        have hnil' : blocksOf (none :: ss) = [] := by simpa [blocksOf] using hnil
        rw [hnil']; rfl
    | some ve =>
      obtain ⟨v, e⟩ := ve
      have hlen : (blocksOf (some (v, e) :: ss)).length = (blocksOf ss).length + 1 := by simp [blocksOf]
      have hlt : removed < count := by omega
      have hnp : p ≠ some idx := by
        intro heq
        have := hp 0 (by simpa using heq) (by simp)
        simp at this
      simp only [destroyLoop, hlt, if_true, hnp, if_false]
      rw [ih (idx + 1) (removed + 1) (l.free e) (by omega) hp']
      simp [blocksOf, Ledger.freeAll]

theorem destroy_spec (a : Arena) (l : Ledger) (f : List Nat) (m : Nat) (hi : a.Inv)
    (h : Holds l a.owned f m) :
    (destroy true a l).1 = .ok ∧ Holds (destroy true a l).2 [] f m := by
  unfold destroy
  have hloop := destroyLoop_skip (if a.pending then a.freeList.head? else none) a.count a.slots 0 0 l
    (by have := hi.count_ge; omega)
    (by
      intro k hk hne
      cases hpd : a.pending with
      | false => simp [hpd] at hk
      | true =>
        simp only [hpd, if_true, Nat.zero_add] at hk
        have hmem : k ∈ a.freeList := List.mem_of_mem_head? hk
        exact hi.free_none k hmem)
  simp only [hloop]
  refine ⟨trivial, ?_⟩
  apply holds_free
  apply holds_free
  apply holds_freeAll
  refine holds_congr h (fun b => ?_)
  have hob : a.objBlocks = blocksOf a.slots := rfl
  simp only [owned, hob, List.count_cons, List.count_append, List.count_nil]; omega

/-- operations on one block -/
inductive Op where
  | create (x : Int) | destroyObject (i : Nat)
deriving Repr, DecidableEq

def step (a : Arena) (l : Ledger) : Op → Out × Arena × Ledger
  | .create x => let r := construct x a l; (r.1, r.2.2.1, r.2.2.2)
  | .destroyObject i => destroyObject i a l

def run : List Op → Arena → Ledger → Out × Arena × Ledger
  | [], a, l => (.ok, a, l)
  | op :: ops, a, l =>
    match step a l op with
    | (.ub, a1, l1) => (.ub, a1, l1)
    | (_, a1, l1) => run ops a1 l1

theorem run_spec (ops : List Op) (a : Arena) (l : Ledger) (f : List Nat) (m : Nat) (hi : a.Inv)
    (h : Holds l a.owned f m) :
    (run ops a l).2.1.Inv ∧ Holds (run ops a l).2.2 (run ops a l).2.1.owned f m := by
  induction ops generalizing a l with
  | nil => exact ⟨hi, h⟩
  | cons op ops ih =>
    have hs : (step a l op).2.1.Inv ∧ Holds (step a l op).2.2 (step a l op).2.1.owned f m := by
      cases op with
      | create x => obtain ⟨p, q, _⟩ := construct_spec x a l f m hi h; exact ⟨p, q⟩
      | destroyObject i => obtain ⟨p, q, _⟩ := destroyObject_spec i a l f m hi h; exact ⟨p, q⟩
    simp only [run]
    cases hst : step a l op with
    | mk o r =>
      obtain ⟨a1, l1⟩ := r
      rw [hst] at hs
      cases o with
      | ub => exact hs
      | ok => exact ih a1 l1 hs.1 hs.2
      | oom => exact ih a1 l1 hs.1 hs.2

end Arena
end XalanModel.C19
