import XalanModel.C19.AutoPtr
import XalanModel.C19.LedgerProofs
namespace XalanModel.C19
open Ledger
namespace APState

theorem count_owned (s : APState) (a : Nat) :
    s.owned.count a = (s.p0.toList.flatMap objBlocks).count a + (s.p1.toList.flatMap objBlocks).count a
      + (s.loose.flatMap objBlocks).count a := by
  simp only [owned, List.flatMap_append, List.count_append]

theorem createObj_spec (l : Ledger) (o f : List Nat) (n : Nat) (h : Holds l o f n) :
    (∀ ob l1, createObj l = (some ob, l1) → Holds l1 (objBlocks ob ++ o) f n) ∧
    (∀ l1, createObj l = (none, l1) → Holds l1 o f n) := by
  unfold createObj
  cases ha : l.alloc with
  | mk ob l1 =>
    cases ob with
    | none => exact ⟨fun _ _ he => by simp at he, fun l2 he => by simp at he; subst he; exact holds_alloc_none h ha⟩
    | some b =>
      have h1 := holds_alloc h ha
      simp only
      cases ha2 : l1.alloc with
      | mk os l2 =>
        cases os with
        | none =>
          refine ⟨fun _ _ he => by simp at he, fun l3 he => ?_⟩
          simp only [Prod.mk.injEq, true_and] at he; subst he
          exact holds_free (holds_alloc_none h1 ha2)
        | some sub =>
          refine ⟨fun ob l3 he => ?_, fun _ he => by simp at he⟩
          simp only [Prod.mk.injEq, Option.some.injEq] at he
          obtain ⟨rfl, rfl⟩ := he
          refine holds_congr (holds_alloc h1 ha2) (fun a => ?_)
          simp [objBlocks, List.count_cons]; omega

theorem dealloc_spec (v : Option Obj) (l : Ledger) (o f : List Nat) (n : Nat)
    (h : Holds l (v.toList.flatMap objBlocks ++ o) f n) : Holds (dealloc v l) o f n := by
  cases v with
  | none => simpa [dealloc] using h
  | some ob =>
    simp only [dealloc, destroyObj]
    apply holds_free
    apply holds_free
    refine holds_congr h (fun a => ?_)
    simp [objBlocks, List.count_cons]; omega

theorem step_spec (s : APState) (op : Op) (l : Ledger) (f : List Nat) (n : Nat) (h : Holds l s.owned f n) :
    Holds (step s l op).2.2 (step s l op).2.1.owned f n ∧ (step s l op).1 ≠ .ub := by
  obtain ⟨p0, p1, loose⟩ := s
  cases op with
  | make i =>
    simp only [step]
    obtain ⟨cs, cn⟩ := createObj_spec l _ f n h
    cases hc : createObj l with
    | mk oo l1 =>
      cases oo with
      | none => exact ⟨cn l1 hc, by simp⟩
      | some ob =>
        refine ⟨?_, by simp⟩
        have h1 := cs ob l1 hc
        by_cases hi : i = 0
        · subst hi
          apply dealloc_spec
          refine holds_congr h1 (fun a => ?_)
          simp [get, set, count_owned, List.count_append]; omega
        · apply dealloc_spec
          refine holds_congr h1 (fun a => ?_)
          simp [get, set, hi, count_owned, List.count_append]; omega
  | move i j =>
    simp only [step]
    split
    · exact ⟨h, by simp⟩
    · rename_i hne
      refine ⟨?_, by simp⟩
      by_cases hi : i = 0 <;> by_cases hj : j = 0
      · simp [hi, hj] at hne
      · apply dealloc_spec
        refine holds_congr h (fun a => ?_)
        simp [get, set, hi, hj, count_owned, List.count_append]; omega
      · apply dealloc_spec
        refine holds_congr h (fun a => ?_)
        simp [get, set, hi, hj, count_owned, List.count_append]; omega
      · simp [hi, hj] at hne
  | release i =>
    simp only [step]
    by_cases hi : i = 0
    · subst hi
      cases p0 with
      | none => exact ⟨h, by simp [get]⟩
      | some ob =>
        refine ⟨?_, by simp [get]⟩
        refine holds_congr h (fun a => ?_)
        simp [get, set, count_owned, List.count_append]; omega
    · cases p1 with
      | none => exact ⟨by simpa [get, hi] using h, by simp [get, hi]⟩
      | some ob =>
        have hg : (APState.mk p0 (some ob) loose).get i = some ob := by simp [get, hi]
        simp only [hg]
        refine ⟨?_, by simp⟩
        refine holds_congr h (fun a => ?_)
        simp [set, hi, count_owned, List.count_append]; omega
  | reset i =>
    simp only [step]
    refine ⟨?_, by simp⟩
    by_cases hi : i = 0
    · subst hi
      apply dealloc_spec
      refine holds_congr h (fun a => ?_)
      simp [get, set, count_owned, List.count_append]; omega
    · apply dealloc_spec
      refine holds_congr h (fun a => ?_)
      simp [get, set, hi, count_owned, List.count_append]; omega

theorem run_spec (ops : List Op) (s : APState) (l : Ledger) (f : List Nat) (n : Nat) (h : Holds l s.owned f n) :
    Holds (run ops s l).2 (run ops s l).1.owned f n := by
  induction ops generalizing s l with
  | nil => exact h
  | cons op ops ih => exact ih _ _ (step_spec s op l f n h).1

theorem foldl_destroy_spec (objs : List Obj) (l : Ledger) (o f : List Nat) (n : Nat)
    (h : Holds l (objs.flatMap objBlocks ++ o) f n) :
    Holds (objs.foldl (fun acc ob => destroyObj ob acc) l) o f n := by
  induction objs generalizing l with
  | nil => simpa using h
  | cons ob objs ih =>
    simp only [List.foldl_cons]
    apply ih
    simp only [destroyObj]
    apply holds_free
    apply holds_free
    refine holds_congr h (fun a => ?_)
    simp [objBlocks, List.count_cons, List.count_append]; omega

theorem finish_spec (s : APState) (l : Ledger) (f : List Nat) (n : Nat) (h : Holds l s.owned f n) :
    Holds (finish s l) [] f n := by
  unfold finish
  apply foldl_destroy_spec
  apply dealloc_spec
  apply dealloc_spec
  refine holds_congr h (fun a => ?_)
  simp [count_owned, List.count_append]; omega

end APState
end XalanModel.C19
