import XalanModel.C19.XMap
import XalanModel.C19.XVecProofs
/-
Invariant proofs for the allocation-explicit XalanMap model.
-/
namespace XalanModel.C19
open Ledger

theorem holds_frame_in {l : Ledger} {a o f : List Nat} {n : Nat} (h : Holds l (a ++ o) f n) :
    Holds l a (o ++ f) n :=
  ⟨fun x => by have := h.1 x; simp only [List.count_append] at this ⊢; omega, h.2⟩

theorem holds_frame_out {l : Ledger} {a o f : List Nat} {n : Nat} (h : Holds l a (o ++ f) n) :
    Holds l (a ++ o) f n :=
  ⟨fun x => by have := h.1 x; simp only [List.count_append] at this ⊢; omega, h.2⟩

theorem list_set_split {α : Type} (ss : List α) (i : Nat) (old : α) (h : ss[i]? = some old) :
    ss = ss.take i ++ old :: ss.drop (i + 1) ∧ ∀ v, ss.set i v = ss.take i ++ v :: ss.drop (i + 1) := by
  have hi : i < ss.length := by
    cases hlt : decide (i < ss.length) with
    | true => exact of_decide_eq_true hlt
    | false =>
      have : ss.length ≤ i := Nat.le_of_not_lt (of_decide_eq_false hlt)
      simp [List.getElem?_eq_none this] at h
  have hget : ss[i] = old := by
    have := List.getElem?_eq_getElem hi; rw [this] at h; exact Option.some.inj h
  refine ⟨?_, fun v => ?_⟩
  · rw [← hget]; exact (List.take_append_drop i ss).symm.trans (by rw [List.drop_eq_getElem_cons hi])
  · rw [List.set_eq_take_append_cons_drop]; simp [hi]

namespace XMap

def AllWF (tbl : List XVec) : Prop := ∀ b ∈ tbl, b.WF

theorem allWF_replicate (n : Nat) : AllWF (List.replicate n ({} : XVec)) := by
  intro b hb
  have := List.eq_of_mem_replicate hb
  subst this; decide

theorem releaseTable_spec (tbl : List XVec) (buf : Option Nat) (l : Ledger) (o f : List Nat) (n : Nat)
    (hw : AllWF tbl) (h : Holds l (buf.toList ++ (tbl.flatMap XVec.owned ++ o)) f n) :
    Holds (releaseTable tbl buf l) o f n := by
  unfold releaseTable
  have key : ∀ (tbl : List XVec) (l : Ledger) (o : List Nat), AllWF tbl →
      Holds l (tbl.flatMap XVec.owned ++ o) f n → Holds (tbl.foldl (fun acc b => b.release acc) l) o f n := by
    intro tbl
    induction tbl with
    | nil => intro l o _ h; simpa using h
    | cons b tbl ih =>
      intro l o hw h
      simp only [List.foldl_cons]
      apply ih _ _ (fun x hx => hw x (List.mem_cons_of_mem _ hx))
      have h1 : Holds l b.owned ((tbl.flatMap XVec.owned ++ o) ++ f) n :=
        holds_frame_in (by simpa [List.flatMap_cons, List.append_assoc] using h)
      have h2 := XVec.release_holds (hw b (List.mem_cons_self ..)) h1
      exact holds_congr (holds_frame_out h2) (fun a => by simp)
  cases buf with
  | none => exact key tbl l o hw (by simpa using h)
  | some b =>
    simp only
    apply holds_free
    apply key tbl l (b :: o) hw
    refine holds_congr h (fun a => ?_)
    simp [List.count_append, List.count_cons]; omega

theorem fillTable_spec (nb : Nat) (es : List MEntry) (tbl : List XVec) (l : Ledger) (o f : List Nat) (n : Nat)
    (hw : AllWF tbl) (h : Holds l (tbl.flatMap XVec.owned ++ o) f n) :
    AllWF (fillTable nb es tbl l).2.1 ∧
    Holds (fillTable nb es tbl l).2.2 ((fillTable nb es tbl l).2.1.flatMap XVec.owned ++ o) f n ∧
    (fillTable nb es tbl l).2.1.length = tbl.length := by
  induction es generalizing tbl l with
  | nil => exact ⟨hw, h, rfl⟩
  | cons e es ih =>
    simp only [fillTable]
    cases hb : tbl[hash e.key % nb]? with
    | none => exact ⟨hw, h, rfl⟩
    | some b =>
      simp only
      obtain ⟨hs1, hset⟩ := list_set_split tbl (hash e.key % nb) b hb
      generalize hpre : tbl.take (hash e.key % nb) = pre at hs1 hset
      generalize hpost : tbl.drop (hash e.key % nb + 1) = post at hs1 hset
      have hbw : b.WF := hw b (by rw [hs1]; simp)
      have hb1 : Holds l b.owned ((pre.flatMap XVec.owned ++ (post.flatMap XVec.owned ++ o)) ++ f) n := by
        apply holds_frame_in
        refine holds_congr h (fun a => ?_)
        rw [hs1]; simp [List.flatMap_append, List.count_append]; omega
      obtain ⟨pw, ph, poom, pub, _⟩ := XVec.pushBack_spec b (Int.ofNat e.node) l _ n hbw hb1
      cases hp : b.pushBack (Int.ofNat e.node) l with
      | mk out rest =>
        obtain ⟨b1, l1⟩ := rest
        rw [hp] at pw ph poom pub
        simp only at pw ph poom pub
        have hgen : Holds l1 ((pre ++ b1 :: post).flatMap XVec.owned ++ o) f n := by
          refine holds_congr (holds_frame_out ph) (fun a => ?_)
          simp [List.flatMap_append, List.count_append]; omega
        have hwgen : AllWF (pre ++ b1 :: post) := by
          intro x hx
          simp only [List.mem_append, List.mem_cons] at hx
          rcases hx with hx | hx | hx
          · exact hw x (by rw [hs1]; simp [hx])
          · subst hx; exact pw
          · exact hw x (by rw [hs1]; simp [hx])
        cases out with
        | ok =>
          simp only
          rw [hset b1]
          have := ih (pre ++ b1 :: post) l1 hwgen hgen
          refine ⟨this.1, this.2.1, ?_⟩
          rw [this.2.2, hs1]; simp
        | oom =>
          simp only
          have hb1b : b1 = b := poom rfl
          subst hb1b
          refine ⟨hw, ?_, trivial⟩
          rw [hs1]; exact hgen
        | ub => exact absurd rfl pub

theorem count_owned (m : XMap) (a : Nat) :
    m.owned.count a = m.tblBuf.toList.count a + (m.buckets.flatMap XVec.owned).count a + m.eHead.toList.count a
      + m.fHead.toList.count a + (m.entries.flatMap entryBlocks).count a + (m.freeE.flatMap entryBlocks).count a
      + m.lost.count a := by
  simp only [owned, List.count_append]; omega

theorem flatMap_owned_replicate (n : Nat) : (List.replicate n ({} : XVec)).flatMap XVec.owned = [] := by
  induction n with
  | zero => rfl
  | succ n ih => simp [List.replicate_succ, ih, XVec.owned]

structure Inv (m : XMap) (l : Ledger) (f : List Nat) (n : Nat) : Prop where
  wf : AllWF m.buckets
  holds : Holds l m.owned f n
  size_eq : m.size = m.entries.length
  nobuckets : m.buckets = [] → m.entries = [] ∧ m.freeE = [] ∧ m.tblBuf = none
  minb : 1 ≤ m.minB

theorem rehash_spec (m : XMap) (l : Ledger) (f : List Nat) (n : Nat) (hi : Inv m l f n) (hs : 1 ≤ m.size)
    (hb : m.buckets ≠ []) :
    Inv (rehash m l).2.1 (rehash m l).2.2 f n ∧ (rehash m l).1 ≠ .ub ∧ (rehash m l).2.1.buckets ≠ [] := by
  unfold rehash
  cases ha : l.alloc with
  | mk ob l1 =>
    cases ob with
    | none => exact ⟨⟨hi.wf, holds_alloc_none hi.holds ha, hi.size_eq, hi.nobuckets, hi.minb⟩, by simp, hb⟩
    | some buf =>
      have h1 := holds_alloc hi.holds ha
      have h1' : Holds l1 ((List.replicate (16 * m.size / 10) ({} : XVec)).flatMap XVec.owned ++ (buf :: m.owned)) f n := by
        simpa [flatMap_owned_replicate] using h1
      obtain ⟨fw, fh, flen⟩ := fillTable_spec (16 * m.size / 10) m.entries _ l1 (buf :: m.owned) f n
        (allWF_replicate _) h1'
      dsimp only
      cases hf : fillTable (16 * m.size / 10) m.entries (List.replicate (16 * m.size / 10) {}) l1 with
      | mk okb rest =>
        obtain ⟨tbl, l2⟩ := rest
        rw [hf] at fw fh flen
        simp only at fw fh flen
        cases okb with
        | true =>
          have htne : tbl ≠ [] := by
            intro hnil
            have : tbl.length = 0 := by rw [hnil]; rfl
            rw [flen, List.length_replicate] at this
            omega
          refine ⟨⟨fw, ?_, hi.size_eq, fun hnil => absurd hnil htne, hi.minb⟩, by simp, htne⟩
          apply releaseTable_spec m.buckets m.tblBuf l2 _ f n hi.wf
          refine holds_congr fh (fun a => ?_)
          simp [count_owned, List.count_append, List.count_cons]; omega
        | false =>
          refine ⟨⟨hi.wf, ?_, hi.size_eq, hi.nobuckets, hi.minb⟩, by simp, hb⟩
          apply releaseTable_spec tbl (some buf) l2 _ f n fw
          refine holds_congr fh (fun a => ?_)
          simp [List.count_append, List.count_cons]; omega

theorem stageBuckets_spec (m : XMap) (l : Ledger) (f : List Nat) (n : Nat) (hi : Inv m l f n) :
    Inv (stageBuckets m l).2.1 (stageBuckets m l).2.2 f n ∧ (stageBuckets m l).1 ≠ .ub ∧
    ((stageBuckets m l).1 = .ok → (stageBuckets m l).2.1.buckets ≠ []) := by
  unfold stageBuckets
  split
  · rename_i hnil
    obtain ⟨he, hfe, hbuf⟩ := hi.nobuckets hnil
    cases ha : l.alloc with
    | mk ob l1 =>
      cases ob with
      | none => exact ⟨⟨hi.wf, holds_alloc_none hi.holds ha, hi.size_eq, hi.nobuckets, hi.minb⟩, by simp, by simp⟩
      | some buf =>
        have hrne : List.replicate m.minB ({} : XVec) ≠ [] := by
          intro hr
          have hm := hi.minb
          have : (List.replicate m.minB ({} : XVec)).length = 0 := by rw [hr]; rfl
          rw [List.length_replicate] at this
          omega
        refine ⟨⟨allWF_replicate _, ?_, hi.size_eq, fun hr => ?_, hi.minb⟩, by simp, fun _ => hrne⟩
        · refine holds_congr (holds_alloc hi.holds ha) (fun a => ?_)
          simp [count_owned, hnil, hbuf, flatMap_owned_replicate, List.count_cons]; omega
        · simp only at hr
          have hm := hi.minb
          have : (List.replicate m.minB ({} : XVec)).length = 0 := by rw [hr]; rfl
          rw [List.length_replicate] at this
          omega
  · rename_i hne
    exact ⟨hi, by simp, fun _ => hne⟩

theorem stageRehash_spec (m : XMap) (l : Ledger) (f : List Nat) (n : Nat) (hi : Inv m l f n) (hb : m.buckets ≠ []) :
    Inv (stageRehash m l).2.1 (stageRehash m l).2.2 f n ∧ (stageRehash m l).1 ≠ .ub ∧
    (stageRehash m l).2.1.buckets ≠ [] := by
  unfold stageRehash
  split
  · rename_i hc
    exact rehash_spec m l f n hi (by omega) hb
  · exact ⟨hi, by simp, hb⟩

theorem stageFreeEntry_spec (m : XMap) (l : Ledger) (f : List Nat) (n : Nat) (hi : Inv m l f n)
    (hb : m.buckets ≠ []) :
    Inv (stageFreeEntry m l).2.1 (stageFreeEntry m l).2.2 f n ∧ (stageFreeEntry m l).1 ≠ .ub ∧
    (stageFreeEntry m l).2.1.buckets = m.buckets ∧
    ((stageFreeEntry m l).1 = .ok → (stageFreeEntry m l).2.1.freeE ≠ []) := by
  unfold stageFreeEntry
  split
  · rename_i hfe
    cases ha : l.alloc with
    | mk ob l1 =>
      cases ob with
      | none => exact ⟨⟨hi.wf, holds_alloc_none hi.holds ha, hi.size_eq, hi.nobuckets, hi.minb⟩, by simp, rfl, by simp⟩
      | some vb =>
        have h1 := holds_alloc hi.holds ha
        simp only
        unfold freeListNode
        cases hh : m.fHead with
        | some h0 =>
          simp only
          cases ha2 : l1.alloc with
          | mk on l2 =>
            cases on with
            | none =>
              refine ⟨⟨hi.wf, ?_, hi.size_eq, hi.nobuckets, hi.minb⟩, by simp, rfl, by simp⟩
              refine holds_congr (holds_alloc_none h1 ha2) (fun a => ?_)
              simp [count_owned, List.count_cons]; omega
            | some nd =>
              refine ⟨⟨hi.wf, ?_, hi.size_eq, fun hn => absurd hn hb, hi.minb⟩, by simp, rfl, by simp⟩
              refine holds_congr (holds_alloc h1 ha2) (fun a => ?_)
              simp [count_owned, hfe, hh, entryBlocks, List.count_cons]; omega
        | none =>
          simp only
          cases ha2 : l1.alloc with
          | mk oh l2 =>
            cases oh with
            | none =>
              refine ⟨⟨hi.wf, ?_, hi.size_eq, hi.nobuckets, hi.minb⟩, by simp, rfl, by simp⟩
              simp only [ha2]
              refine holds_congr (holds_alloc_none h1 ha2) (fun a => ?_)
              simp [count_owned, List.count_cons]; omega
            | some h0 =>
              have h2 := holds_alloc h1 ha2
              simp only
              cases ha3 : l2.alloc with
              | mk on l3 =>
                cases on with
                | none =>
                  refine ⟨⟨hi.wf, ?_, hi.size_eq, hi.nobuckets, hi.minb⟩, by simp, rfl, by simp⟩
                  refine holds_congr (holds_alloc_none h2 ha3) (fun a => ?_)
                  simp [count_owned, hh, List.count_cons]; omega
                | some nd =>
                  refine ⟨⟨hi.wf, ?_, hi.size_eq, fun hn => absurd hn hb, hi.minb⟩, by simp, rfl, by simp⟩
                  refine holds_congr (holds_alloc h2 ha3) (fun a => ?_)
                  simp [count_owned, hfe, hh, entryBlocks, List.count_cons]; omega
  · rename_i hfe
    exact ⟨hi, by simp, rfl, fun _ => hfe⟩

theorem stageLink_spec (k : Nat) (v : Int) (m : XMap) (l : Ledger) (f : List Nat) (n : Nat) (hi : Inv m l f n)
    (hb : m.buckets ≠ []) (hfe : m.freeE ≠ []) :
    Inv (stageLink k v m l).2.1 (stageLink k v m l).2.2 f n ∧ (stageLink k v m l).1 ≠ .ub := by
  unfold stageLink
  have hlen : 0 < m.buckets.length := by
    cases hbb : m.buckets with
    | nil => exact absurd hbb hb
    | cons x xs => simp
  have hidx : hash k % m.buckets.length < m.buckets.length := Nat.mod_lt _ hlen
  have hget : m.buckets[hash k % m.buckets.length]? = some (m.buckets[hash k % m.buckets.length]) :=
    List.getElem?_eq_getElem hidx
  generalize hbdef : m.buckets[hash k % m.buckets.length] = b at hget
  simp only [hget]
  obtain ⟨hs1, hset⟩ := list_set_split m.buckets (hash k % m.buckets.length) b hget
  generalize hpre : m.buckets.take (hash k % m.buckets.length) = pre at hs1 hset
  generalize hpost : m.buckets.drop (hash k % m.buckets.length + 1) = post at hs1 hset
  have hbw : b.WF := hi.wf b (by rw [hs1]; simp)
  -- everything the map owns apart from this bucket
  have hsplit : ∀ a, m.owned.count a = b.owned.count a + (m.tblBuf.toList.count a + (pre.flatMap XVec.owned).count a
      + (post.flatMap XVec.owned).count a + m.eHead.toList.count a + m.fHead.toList.count a
      + (m.entries.flatMap entryBlocks).count a + (m.freeE.flatMap entryBlocks).count a + m.lost.count a) := by
    intro a
    rw [count_owned, hs1]
    simp [List.flatMap_append, List.count_append]; omega
  generalize hrest : (m.tblBuf.toList ++ (pre.flatMap XVec.owned ++ (post.flatMap XVec.owned ++ (m.eHead.toList ++
      (m.fHead.toList ++ (m.entries.flatMap entryBlocks ++ (m.freeE.flatMap entryBlocks ++ m.lost))))))) = rest
  have hb0 : Holds l b.owned (rest ++ f) n := by
    apply holds_frame_in
    refine holds_congr hi.holds (fun a => ?_)
    rw [hsplit a, ← hrest]; simp [List.count_append]; omega
  -- the reserve step
  have hstep : ∃ b1 l1 o, (if b.items.length = b.cap then b.reserve (if b.items.length = 0 then 1 else 2 * b.items.length) l else (.ok, b, l)) = (o, b1, l1)
      ∧ o ≠ .ub ∧ b1.WF ∧ Holds l1 b1.owned (rest ++ f) n ∧ (o = .oom → b1 = b) ∧
      (o = .ok → b1.items = b.items ∧ b1.items.length < b1.cap) := by
    split
    · rename_i hfull
      obtain ⟨rg, rh, room, rub, rok⟩ := XVec.reserve_spec b (if b.items.length = 0 then 1 else 2 * b.items.length) l (rest ++ f) n hbw hb0
      cases hr : b.reserve (if b.items.length = 0 then 1 else 2 * b.items.length) l with
      | mk o r2 =>
        obtain ⟨b1, l1⟩ := r2
        rw [hr] at rg rh room rub rok
        simp only at rg rh room rub rok
        refine ⟨b1, l1, o, rfl, rub, rg, rh, room, fun ho => ?_⟩
        obtain ⟨r1, r3⟩ := rok ho
        refine ⟨r1, ?_⟩
        rw [r1]; split at r3 <;> omega
    · rename_i hnf
      exact ⟨b, l, .ok, rfl, by simp, hbw, hb0, by simp, fun _ => ⟨rfl, by have := hbw.1; omega⟩⟩
  obtain ⟨b1, l1, o, heq, hnub, b1w, b1h, b1oom, b1ok⟩ := hstep
  rw [heq]
  cases o with
  | ub => exact absurd rfl hnub
  | oom =>
    simp only
    have := b1oom rfl; subst this
    exact ⟨⟨hi.wf, by
      refine holds_congr (holds_frame_out b1h) (fun a => ?_)
      rw [hsplit a, ← hrest]; simp [List.count_append]; omega, hi.size_eq, hi.nobuckets, hi.minb⟩, by simp⟩
  | ok =>
    obtain ⟨b1items, b1room⟩ := b1ok rfl
    simp only
    cases hrev : m.freeE.reverse with
    | nil => exact absurd (by simpa using hrev) hfe
    | cons fe frest =>
      simp only
      have hfree : m.freeE = frest.reverse ++ [fe] := by
        have := congrArg List.reverse hrev; simpa using this
      have hwf2 : ∀ b2 : XVec, b2.WF → AllWF ((m.buckets.set (hash k % m.buckets.length) b1).set (hash k % m.buckets.length) b2) := by
        intro b2 hb2 x hx
        rw [List.set_set, hset b2] at hx
        simp only [List.mem_append, List.mem_cons] at hx
        rcases hx with hx | hx | hx
        · exact hi.wf x (by rw [hs1]; simp [hx])
        · subst hx; exact hb2
        · exact hi.wf x (by rw [hs1]; simp [hx])
      have hb2w : XVec.WF { b1 with items := b1.items ++ [Int.ofNat fe.node] } := by
        refine ⟨by simp; omega, b1w.2⟩
      have hne2 : ∀ b2 : XVec, (m.buckets.set (hash k % m.buckets.length) b1).set (hash k % m.buckets.length) b2 ≠ [] := by
        intro b2 h0
        have h1 : ((m.buckets.set (hash k % m.buckets.length) b1).set (hash k % m.buckets.length) b2).length = 0 := by rw [h0]; rfl
        rw [List.length_set, List.length_set] at h1
        omega
      have hwf1 : AllWF (m.buckets.set (hash k % m.buckets.length) b1) := by
        intro x hx
        rw [hset b1] at hx
        simp only [List.mem_append, List.mem_cons] at hx
        rcases hx with hx | hx | hx
        · exact hi.wf x (by rw [hs1]; simp [hx])
        · subst hx; exact b1w
        · exact hi.wf x (by rw [hs1]; simp [hx])
      have hne1 : m.buckets.set (hash k % m.buckets.length) b1 ≠ [] := by
        intro hn
        have h1 : (m.buckets.set (hash k % m.buckets.length) b1).length = 0 := by rw [hn]; rfl
        rw [List.length_set] at h1
        omega
      -- ownership right after the reserve step, with the free entry split off
      have hbase : Holds l1 (b1.owned ++ rest) f n := holds_frame_out b1h
      cases hbx : m.boxed with
      | false =>
        simp only [Bool.false_eq_true, if_false]
        cases hh : m.eHead with
        | some h0 =>
          simp only
          refine ⟨⟨hwf2 _ hb2w, ?_, by simp [hi.size_eq], fun hn => absurd hn (hne2 _), hi.minb⟩, by simp⟩
          refine holds_congr hbase (fun a => ?_)
          rw [count_owned]
          simp only [List.set_set]
          simp only [hset]
          rw [← hrest, hfree]
          simp [List.flatMap_append, List.count_append, XVec.owned, entryBlocks, hh, List.count_cons]; omega
        | none =>
          simp only
          cases ha : l1.alloc with
          | mk oh l2 =>
            cases oh with
            | none =>
              simp only
              refine ⟨⟨hwf1, ?_, hi.size_eq, fun hn => absurd hn hne1, hi.minb⟩, by simp⟩
              refine holds_congr (holds_alloc_none hbase ha) (fun a => ?_)
              rw [count_owned]
              simp only [hset]
              rw [← hrest, hfree]
              simp [List.flatMap_append, List.count_append, XVec.owned, entryBlocks, hh, List.count_cons]; omega
            | some h0 =>
              simp only
              refine ⟨⟨hwf2 _ hb2w, ?_, by simp [hi.size_eq], fun hn => absurd hn (hne2 _), hi.minb⟩, by simp⟩
              refine holds_congr (holds_alloc hbase ha) (fun a => ?_)
              rw [count_owned]
              simp only [List.set_set]
              simp only [hset]
              rw [← hrest, hfree]
              simp [List.flatMap_append, List.count_append, XVec.owned, entryBlocks, hh, List.count_cons]; omega
      | true =>
        simp only [if_true]
        cases hav : l1.alloc with
        | mk ov lv =>
          cases ov with
          | none =>
            simp only
            refine ⟨⟨hwf1, ?_, hi.size_eq, fun hn => absurd hn hne1, hi.minb⟩, by simp⟩
            refine holds_congr (holds_alloc_none hbase hav) (fun a => ?_)
            rw [count_owned]
            simp only [hset]
            rw [← hrest, hfree]
            simp [List.flatMap_append, List.count_append, XVec.owned, entryBlocks, List.count_cons]; omega
          | some vb =>
            simp only
            have hv := holds_alloc hbase hav
            cases hh : m.eHead with
            | some h0 =>
              simp only
              refine ⟨⟨hwf2 _ hb2w, ?_, by simp [hi.size_eq], fun hn => absurd hn (hne2 _), hi.minb⟩, by simp⟩
              refine holds_congr hv (fun a => ?_)
              rw [count_owned]
              simp only [List.set_set]
              simp only [hset]
              rw [← hrest, hfree]
              simp [List.flatMap_append, List.count_append, XVec.owned, entryBlocks, hh, List.count_cons]; omega
            | none =>
              simp only
              cases ha : lv.alloc with
              | mk oh l2 =>
                cases oh with
                | none =>
                  simp only
                  refine ⟨⟨hwf1, ?_, hi.size_eq, fun hn => absurd hn hne1, hi.minb⟩, by simp⟩
                  refine holds_congr (holds_alloc_none hv ha) (fun a => ?_)
                  rw [count_owned]
                  simp only [hset]
                  rw [← hrest, hfree]
                  simp [List.flatMap_append, List.count_append, XVec.owned, entryBlocks, hh, List.count_cons]; omega
                | some h0 =>
                  simp only
                  refine ⟨⟨hwf2 _ hb2w, ?_, by simp [hi.size_eq], fun hn => absurd hn (hne2 _), hi.minb⟩, by simp⟩
                  refine holds_congr (holds_alloc hv ha) (fun a => ?_)
                  rw [count_owned]
                  simp only [List.set_set]
                  simp only [hset]
                  rw [← hrest, hfree]
                  simp [List.flatMap_append, List.count_append, XVec.owned, entryBlocks, hh, List.count_cons]; omega

theorem doCreateEntry_spec (k : Nat) (v : Int) (m : XMap) (l : Ledger) (f : List Nat) (n : Nat) (hi : Inv m l f n) :
    Inv (doCreateEntry k v m l).2.1 (doCreateEntry k v m l).2.2 f n ∧ (doCreateEntry k v m l).1 ≠ .ub := by
  unfold doCreateEntry
  obtain ⟨i1, u1, n1⟩ := stageBuckets_spec m l f n hi
  cases h1 : stageBuckets m l with
  | mk o1 r1 =>
    obtain ⟨m1, l1⟩ := r1
    rw [h1] at i1 u1 n1
    cases o1 with
    | ub => exact absurd rfl u1
    | oom => exact ⟨i1, by simp [andThen]⟩
    | ok =>
      simp only [andThen]
      obtain ⟨i2, u2, n2⟩ := stageRehash_spec m1 l1 f n i1 (n1 rfl)
      cases h2 : stageRehash m1 l1 with
      | mk o2 r2 =>
        obtain ⟨m2, l2⟩ := r2
        rw [h2] at i2 u2 n2
        cases o2 with
        | ub => exact absurd rfl u2
        | oom => exact ⟨i2, by simp⟩
        | ok =>
          simp only
          obtain ⟨i3, u3, b3, f3⟩ := stageFreeEntry_spec m2 l2 f n i2 n2
          cases h3 : stageFreeEntry m2 l2 with
          | mk o3 r3 =>
            obtain ⟨m3, l3⟩ := r3
            rw [h3] at i3 u3 b3 f3
            cases o3 with
            | ub => exact absurd rfl u3
            | oom => exact ⟨i3, by simp⟩
            | ok =>
              simp only
              exact stageLink_spec k v m3 l3 f n i3 (by rw [b3]; exact n2) (f3 rfl)

theorem insert_spec (k : Nat) (v : Int) (m : XMap) (l : Ledger) (f : List Nat) (n : Nat) (hi : Inv m l f n) :
    Inv (insert k v m l).2.1 (insert k v m l).2.2 f n ∧ (insert k v m l).1 ≠ .ub := by
  unfold insert
  split
  · exact ⟨hi, by simp⟩
  · exact doCreateEntry_spec k v m l f n hi

theorem find_eraseP {α : Type} (p : α → Bool) (xs : List α) (x : α) (h : xs.find? p = some x) :
    ∃ pre post, xs = pre ++ x :: post ∧ xs.eraseP p = pre ++ post := by
  obtain ⟨hp, as, bs, hx, hall⟩ := List.find?_eq_some_iff_append.mp h
  refine ⟨as, bs, hx, ?_⟩
  rw [hx, List.eraseP_append_right _ (fun a ha => by simpa using hall a ha)]
  simp [List.eraseP_cons_of_pos hp]

theorem erase_spec (k : Nat) (m : XMap) (l : Ledger) (f : List Nat) (n : Nat) (hi : Inv m l f n) :
    Inv (erase k m l).2.1 (erase k m l).2.2 f n := by
  unfold erase
  split
  · exact hi
  · rename_i e he
    split
    · rename_i x hx
      obtain ⟨pre, post, hs, hep⟩ := find_eraseP _ _ _ hx
      refine ⟨hi.wf, ?_, ?_, ?_, hi.minb⟩
      · apply holds_freeAll
        refine holds_congr hi.holds (fun a => ?_)
        simp only [List.count_append, count_owned, hep]
        rw [hs]
        simp [List.flatMap_append, List.count_append, entryBlocks, List.count_cons]; omega
      · have := hi.size_eq
        simp only [hep]
        rw [this, hs]; simp
      · intro hn
        obtain ⟨h1, _, _⟩ := hi.nobuckets hn
        rw [h1] at hx; simp at hx
    · exact hi

theorem clear_spec (m : XMap) (l : Ledger) (f : List Nat) (n : Nat) (hi : Inv m l f n) :
    Inv (clear m l).2.1 (clear m l).2.2 f n := by
  unfold clear
  have hall : m.entries.take m.size = m.entries := by rw [hi.size_eq]; simp
  have hnone : m.entries.drop m.size = [] := by rw [hi.size_eq]; simp
  refine ⟨?_, ?_, ?_, ?_, hi.minb⟩
  · intro b hb
    simp only [List.mem_map] at hb
    obtain ⟨b0, hb0, rfl⟩ := hb
    have := hi.wf b0 hb0
    exact ⟨by simp, this.2⟩
  · apply holds_freeAll
    refine holds_congr hi.holds (fun a => ?_)
    simp only [List.count_append, count_owned, hall, hnone]
    have hbk : ∀ bs : List XVec, (bs.map fun b => ({ b with items := [] } : XVec)).flatMap XVec.owned = bs.flatMap XVec.owned := by
      intro bs; induction bs with
      | nil => rfl
      | cons b bs ih => simp [List.flatMap_cons, ih, XVec.owned]
    have hent : ∀ es : List MEntry, ((es.map fun e => ({ e with erased := true, vown := none } : MEntry)).flatMap entryBlocks).count a
        + (es.flatMap (·.vown.toList)).count a = (es.flatMap entryBlocks).count a := by
      intro es; induction es with
      | nil => rfl
      | cons e es ih =>
        simp only [List.map_cons, List.flatMap_cons, List.count_append] at ih ⊢
        simp [entryBlocks, List.count_cons, List.count_append] at ih ⊢
        omega
    have := hent m.entries
    simp [hbk, List.flatMap_append, List.count_append] at this ⊢; omega
  · simp [hi.size_eq]
  · intro hn
    simp only [List.map_eq_nil_iff] at hn
    obtain ⟨h1, h2, h3⟩ := hi.nobuckets hn
    simp [h1, h2, h3]

theorem count_map_node_vblk (es : List MEntry) (a : Nat) :
    (es.flatMap entryBlocks).count a = (es.map (·.node)).count a + (es.map (·.vblk)).count a
      + (es.flatMap (·.vown.toList)).count a := by
  induction es with
  | nil => rfl
  | cons e es ih => simp [List.flatMap_cons, entryBlocks, List.count_cons, List.count_append, ih]; omega

theorem destroy_spec (m : XMap) (l : Ledger) (f : List Nat) (n : Nat) (hi : Inv m l f n) :
    Holds (destroy m l) m.lostAll f n := by
  unfold destroy
  have hall : m.entries.take m.size = m.entries := by rw [hi.size_eq]; simp
  have hnone : m.entries.drop m.size = [] := by rw [hi.size_eq]; simp
  simp only [hall, hnone, List.map_nil, Ledger.freeAll]
  -- peel the frees from the outside in
  have step_e : ∀ (l' : Ledger) (o : List Nat), Holds l' (m.eHead.toList ++ o) f n →
      Holds (match m.eHead with | some h => l'.free h | none => l') o f n := by
    intro l' o h
    cases he : m.eHead with
    | none => simpa [he] using h
    | some h0 => exact holds_free (by simpa [he] using h)
  have step_f : ∀ (l' : Ledger) (o : List Nat), Holds l' (m.fHead.toList ++ o) f n →
      Holds (match m.fHead with | some h => l'.free h | none => l') o f n := by
    intro l' o h
    cases he : m.fHead with
    | none => simpa [he] using h
    | some h0 => exact holds_free (by simpa [he] using h)
  apply step_e
  apply step_f
  apply holds_freeAll
  apply releaseTable_spec m.buckets m.tblBuf _ _ f n hi.wf
  by_cases hb : m.buckets = []
  · obtain ⟨h1, h2, h3⟩ := hi.nobuckets hb
    simp only [hb, if_true]
    apply holds_freeAll
    refine holds_congr hi.holds (fun a => ?_)
    simp [count_owned, lostAll, h1, h2, h3, hb, List.count_append]; omega
  · simp only [hb, if_false]
    apply holds_freeAll
    apply holds_freeAll
    refine holds_congr hi.holds (fun a => ?_)
    simp only [count_owned, lostAll, List.count_append, List.map_append, count_map_node_vblk]
    omega

/-- a refusal never happened: no request of the history was the refused one -/
theorem step_spec (m : XMap) (op : Op) (l : Ledger) (f : List Nat) (n : Nat) (hi : Inv m l f n) :
    Inv (step m l op).2.1 (step m l op).2.2 f n := by
  cases op with
  | insert k v => exact (insert_spec k v m l f n hi).1
  | erase k => exact erase_spec k m l f n hi
  | clear => exact clear_spec m l f n hi

theorem run_spec (ops : List Op) (m : XMap) (l : Ledger) (f : List Nat) (n : Nat) (hi : Inv m l f n) :
    Inv (run ops m l).2.1 (run ops m l).2.2 f n := by
  induction ops generalizing m l with
  | nil => exact hi
  | cons op ops ih =>
    have a := step_spec m op l f n hi
    simp only [run]
    cases hs : step m l op with
    | mk o r =>
      obtain ⟨m1, l1⟩ := r
      rw [hs] at a
      cases o with
      | ub => exact a
      | ok => exact ih m1 l1 a
      | oom => exact ih m1 l1 a

end XMap
end XalanModel.C19
