import XalanModel.C19.XVec
/-
C19 — `XalanMap<Key, Value>` (src/xalanc/Include/XalanMap.hpp) with the allocations made explicit, for keys and
values whose construction does not allocate (integers, pointers: the document map of the parser liaison, the
extension-namespace map, …).

Representation as in the source: `m_buckets` — a vector of bucket vectors holding iterators (here: list-node
ids) into `m_entries`; `m_entries` / `m_freeEntries` — two XalanLists of `Entry{value_type* value; bool erased}`
whose nodes are *spliced* from one list to the other (never freed before the map dies); the `value_type` block of
an entry is `allocate(1)`-ed once and recycled.

  doCreateEntry(k, v)   (after 3252d20: reserve, then link)
     if (m_buckets.empty())  m_buckets.insert(begin(), m_minBuckets, BucketType(mgr));            -- 1 request
     if (size_type(m_loadFactor * size()) > m_buckets.size())  rehash();                          -- temp table, swap
     index = hash(k) % m_buckets.size();
     if (m_freeEntries.empty())  m_freeEntries.push_back(Entry(allocate(1)));                     -- value block, then head/node
     if (bucket.size() == bucket.capacity())  bucket.reserve(size == 0 ? 1 : 2 * size);            -- may throw: nothing linked yet
     construct key, value in m_freeEntries.back();  erased = false;
     m_entries.splice(m_entries.end(), m_freeEntries, --m_freeEntries.end());                     -- head of m_entries may be created here
     bucket.push_back(--m_entries.end());  ++m_size;                                              -- cannot throw
  erase(k): doRemoveEntry (splice back to the END of m_freeEntries, erased = true, --m_size); the bucket keeps its
            (now stale) iterator; `find` skips erased entries.  (compactBuckets at m_eraseThreshold is not modelled:
            the harness sets the threshold out of reach.)
  clear(): every entry to the free list; every bucket cleared (capacity kept).
  ~XalanMap(): doRemoveEntries(); if (!m_buckets.empty()) deallocate the value block of every free entry;
               then the members: bucket buffers, table buffer, list nodes and list heads.

`hash` is `XalanHasher<int>` on a little-endian machine for 0 ≤ k < 128: 8·k.  `m_loadFactor` = 0.75.
Core Lean only.
-/
namespace XalanModel.C19

structure MEntry where
  node : Nat            -- list node (moves between m_entries and m_freeEntries)
  vblk : Nat            -- the value_type block
  key : Nat
  val : Int
  erased : Bool
  vown : Option Nat := none     -- block owned by the constructed value (allocating value types only)
deriving Repr, DecidableEq

structure XMap where
  minB : Nat
  lateUnerase : Bool := false         -- repair: `erased = false` only after the entry has been spliced into m_entries
  boxed : Bool := false               -- the mapped type allocates one block when it is copy-constructed (XalanDOMString, …)
  tblBuf : Option Nat := none         -- buffer of m_buckets
  buckets : List XVec := []
  eHead : Option Nat := none          -- sentinel of m_entries
  entries : List MEntry := []
  fHead : Option Nat := none          -- sentinel of m_freeEntries
  freeE : List MEntry := []
  size : Nat := 0
  lost : List Nat := []               -- value blocks leaked by a refused push_back of a new free entry
deriving Repr, DecidableEq

namespace XMap

def entryBlocks (e : MEntry) : List Nat := e.node :: e.vblk :: e.vown.toList

def owned (m : XMap) : List Nat :=
  m.tblBuf.toList ++ (m.buckets.flatMap XVec.owned ++ (m.eHead.toList ++ (m.fHead.toList ++
    (m.entries.flatMap entryBlocks ++ (m.freeE.flatMap entryBlocks ++ m.lost)))))

def hash (k : Nat) : Nat := 8 * k

def lookupNode (m : XMap) (n : Int) : Option MEntry :=
  (m.entries ++ m.freeE).find? (fun e => Int.ofNat e.node == n)

/-- `find(k)`: only when m_size ≠ 0; scans the bucket, skipping erased entries -/
def find (m : XMap) (k : Nat) : Option MEntry :=
  if m.size = 0 then none else
  match m.buckets[hash k % m.buckets.length]? with
  | none => none
  | some b => (b.items.filterMap m.lookupNode).find? (fun e => !e.erased && e.key == k)

/-- release every bucket buffer of a table, then the table buffer -/
def releaseTable (tbl : List XVec) (buf : Option Nat) (l : Ledger) : Ledger :=
  let l1 := tbl.foldl (fun acc b => b.release acc) l
  match buf with | some b => l1.free b | none => l1

/-- the loop of rehash(): `temp[index].push_back(entryPos)` for every entry; on a throw the partly filled
table is returned so that the caller destroys it -/
def fillTable (n : Nat) : List MEntry → List XVec → Ledger → Bool × List XVec × Ledger
  | [], tbl, l => (true, tbl, l)
  | e :: es, tbl, l =>
    let i := hash e.key % n
    match tbl[i]? with
    | none => (true, tbl, l)                          -- n = 0 cannot happen (asserted in the source)
    | some b =>
      match b.pushBack (Int.ofNat e.node) l with
      | (.ok, b1, l1) => fillTable n es (tbl.set i b1) l1
      | (_, _, l1) => (false, tbl, l1)

def rehash (m : XMap) (l : Ledger) : Out × XMap × Ledger :=
  let n := (16 * m.size) / 10
  match l.alloc with                                    -- BucketTableType temp(n, BucketType(mgr), mgr)
  | (none, l1) => (.oom, m, l1)
  | (some buf, l1) =>
    match fillTable n m.entries (List.replicate n {}) l1 with
    | (true, tbl, l2) => (.ok, { m with tblBuf := some buf, buckets := tbl }, releaseTable m.buckets m.tblBuf l2)
    | (false, tbl, l2) => (.oom, m, releaseTable tbl (some buf) l2)

/-- a list node for push_back on m_freeEntries (sentinel first) -/
def freeListNode (m : XMap) (l : Ledger) : Option Nat × XMap × Ledger :=
  match (match m.fHead with
         | some _ => some (m, l)
         | none => match l.alloc with
           | (none, _) => none
           | (some h, l1) => some ({ m with fHead := some h }, l1)) with
  | none => (none, m, (l.alloc).2)
  | some (m1, l1) =>
    match l1.alloc with
    | (none, l2) => (none, m1, l2)
    | (some nd, l2) => (some nd, m1, l2)

def andThen (r : Out × XMap × Ledger) (f : XMap → Ledger → Out × XMap × Ledger) : Out × XMap × Ledger :=
  match r with
  | (.ok, m, l) => f m l
  | other => other

/-- 1. initial buckets -/
def stageBuckets (m : XMap) (l : Ledger) : Out × XMap × Ledger :=
  if m.buckets = [] then
    match l.alloc with
    | (none, l1) => (.oom, m, l1)
    | (some buf, l1) => (.ok, { m with tblBuf := some buf, buckets := List.replicate m.minB {} }, l1)
  else (.ok, m, l)

/-- 2. rehash when the load factor is exceeded -/
def stageRehash (m : XMap) (l : Ledger) : Out × XMap × Ledger :=
  if (3 * m.size) / 4 > m.buckets.length then rehash m l else (.ok, m, l)

/-- 3. a free entry: `m_freeEntries.push_back(Entry(allocate(1)))` -/
def stageFreeEntry (m : XMap) (l : Ledger) : Out × XMap × Ledger :=
  if m.freeE = [] then
    match l.alloc with
    | (none, l1) => (.oom, m, l1)
    | (some vb, l1) =>
      match freeListNode m l1 with
      | (some nd, m1, l2) => (.ok, { m1 with freeE := [⟨nd, vb, 0, 0, false, none⟩] }, l2)
      | (none, m1, l2) => (.oom, { m1 with lost := vb :: m1.lost }, l2)
  else (.ok, m, l)

/-- 4. room in the bucket, construct in `m_freeEntries.back()`, splice to the end of m_entries, bucket push_back -/
def stageLink (k : Nat) (v : Int) (m : XMap) (l : Ledger) : Out × XMap × Ledger :=
  let idx := hash k % m.buckets.length
  match m.buckets[idx]? with
  | none => (.ub, m, l)                                   -- no buckets: m_minBuckets = 0 (modulus 0)
  | some b =>
    let s4 := if b.items.length = b.cap then b.reserve (if b.items.length = 0 then 1 else 2 * b.items.length) l else (.ok, b, l)
    match s4 with
    | (.ok, b1, l1) =>
      let m1 := { m with buckets := m.buckets.set idx b1 }
      (match m1.freeE.reverse with
       | [] => (.ub, m1, l1)
       | fe :: frest =>
         -- erased = false; construct key; construct value (allocating value types: one refusable request)
         let cv : Option (Option Nat) × Ledger :=
           if m1.boxed then (match l1.alloc with | (none, lv) => (none, lv) | (some vb, lv) => (some (some vb), lv))
           else (some none, l1)
         match cv with
         | (none, lv) => (.oom, { m1 with freeE := frest.reverse ++ [{ fe with key := k, erased := if m1.lateUnerase then fe.erased else false }] }, lv)
         | (some vo, lv) =>
           -- a value left constructed in this free entry by an earlier failed splice is overwritten: its block is lost
           let m2 := if m1.boxed then { m1 with lost := fe.vown.toList ++ m1.lost } else m1
           let e : MEntry := { fe with key := k, val := v, erased := false, vown := if m1.boxed then vo else fe.vown }
           match m2.eHead with
           | some _ =>
             (.ok, { m2 with freeE := frest.reverse, entries := m2.entries ++ [e],
                             buckets := m2.buckets.set idx { b1 with items := b1.items ++ [Int.ofNat e.node] },
                             size := m2.size + 1 }, lv)
           | none =>
             match lv.alloc with
             | (none, l2) => (.oom, { m2 with freeE := frest.reverse ++ [{ e with erased := if m1.lateUnerase then fe.erased else false }] }, l2)
             | (some h, l2) =>
               (.ok, { m2 with eHead := some h, freeE := frest.reverse, entries := m2.entries ++ [e],
                               buckets := m2.buckets.set idx { b1 with items := b1.items ++ [Int.ofNat e.node] },
                               size := m2.size + 1 }, l2))
    | (o, _, l1) => (o, m, l1)

def doCreateEntry (k : Nat) (v : Int) (m : XMap) (l : Ledger) : Out × XMap × Ledger :=
  andThen (andThen (andThen (stageBuckets m l) stageRehash) stageFreeEntry) (stageLink k v)

def insert (k : Nat) (v : Int) (m : XMap) (l : Ledger) : Out × XMap × Ledger :=
  match m.find k with
  | some _ => (.ok, m, l)
  | none => doCreateEntry k v m l

/-- `erase(k)` -/
def erase (k : Nat) (m : XMap) (l : Ledger) : Out × XMap × Ledger :=
  match m.find k with
  | none => (.ok, m, l)
  | some e =>
    match m.entries.find? (fun x => x.node == e.node) with
    | some x =>
      -- doRemoveEntry: ~value_type (the value gives its block back), splice to the end of m_freeEntries
      (.ok, { m with entries := m.entries.eraseP (fun y => y.node == e.node),
                     freeE := m.freeE ++ [{ x with erased := true, vown := none }], size := m.size - 1 },
       l.freeAll x.vown.toList)
    | none => (.ub, m, l)      -- find() answered with an entry that is on the free list

/-- `clear()` -/
def clear (m : XMap) (l : Ledger) : Out × XMap × Ledger :=
  -- doRemoveEntries(): while (size() > 0) doRemoveEntry(begin())
  let moved := m.entries.take m.size
  (.ok, { m with entries := m.entries.drop m.size,
                 freeE := m.freeE ++ moved.map (fun e => { e with erased := true, vown := none }),
                 size := m.size - moved.length,
                 buckets := m.buckets.map (fun b => { b with items := [] }) },
   l.freeAll (moved.flatMap (·.vown.toList)))

/-- `~XalanMap()` followed by the destructors of the members -/
def destroy (m : XMap) (l : Ledger) : Ledger :=
  let moved := m.entries.take m.size
  let rest := m.entries.drop m.size
  let freeE := m.freeE ++ moved
  let l0 := l.freeAll (moved.flatMap (·.vown.toList))                        -- doRemoveEntries(): ~value_type of every entry
  let l1 := if m.buckets = [] then l0 else l0.freeAll (freeE.map (·.vblk))
  let l2 := releaseTable m.buckets m.tblBuf l1                              -- ~m_buckets
  let l3 := l2.freeAll (freeE.map (·.node))                                  -- ~m_freeEntries: nodes, then the head
  let l4 := match m.fHead with | some h => l3.free h | none => l3
  let l5 := l4.freeAll (rest.map (·.node))                                   -- ~m_entries
  match m.eHead with | some h => l5.free h | none => l5

inductive Op where
  | insert (k : Nat) (v : Int) | erase (k : Nat) | clear
deriving Repr, DecidableEq

def step (m : XMap) (l : Ledger) : Op → Out × XMap × Ledger
  | .insert k v => insert k v m l
  | .erase k => erase k m l
  | .clear => clear m l

/-- what stays outstanding after the destructor: the recorded leaks and the values left constructed in free entries
by a refused splice (the destructor returns the raw block of a free entry without running a destructor) -/
def lostAll (m : XMap) : List Nat := m.lost ++ m.freeE.flatMap (·.vown.toList)

def run : List Op → XMap → Ledger → Out × XMap × Ledger
  | [], m, l => (.ok, m, l)
  | op :: ops, m, l =>
    match step m l op with
    | (.ub, m1, l1) => (.ub, m1, l1)
    | (_, m1, l1) => run ops m1 l1

end XMap
end XalanModel.C19
