import XalanModel.C19.Ledger
import XalanModel.C19.XVec
/-
C19 — `XalanVector<T>` for an element type whose copy construction allocates one block from the
manager and may be the refused request (XalanDOMString, XalanVector, …: the include stack of
module URLs, vectors of strings).  Same code paths as `XVec`, with the element loops explicit:

  append path (insert at end(): copy constructor, grow, reserve):
        pointer p = ensureCapacity(total);
        while (first != last) { Constructor::construct(p, *first, mgr); ++p; ++m_size; ++first; }
  resize(n, v):  reserve(n);  for (…; ++data, ++m_size) Constructor::construct(data, v, mgr);
  ~XalanVector:  if (m_allocation != 0) { destroy(begin(), end()); deallocate(m_data); }

`m_size` grows by one per constructed element, so when the j-th copy throws exactly the
constructed prefix is destroyed by the destructor of the vector (or of the temporary of the
copy-and-swap paths).  `sizeFirst = true` models the mutation "m_size = theTotalSize before the
loop": the destructor then runs over never-constructed storage (`.ub`).  Core Lean only.
-/
namespace XalanModel.C19

structure XBVec where
  buf : Option Nat := none
  elems : List (Int × Nat) := []      -- (value, block owned by the element)
  cap : Nat := 0
deriving Repr, DecidableEq

namespace XBVec

def owned (v : XBVec) : List Nat := v.buf.toList ++ v.elems.map (·.2)

def WF (v : XBVec) : Prop := v.elems.length ≤ v.cap ∧ (v.buf.isSome ↔ v.cap ≠ 0)

instance (v : XBVec) : Decidable v.WF := by unfold WF; infer_instance

/-- the element loop: copy-construct `vals` one by one; returns whether all were made, and the
elements made (constructed prefix) -/
def copyElems : List Int → Ledger → Bool × List (Int × Nat) × Ledger
  | [], l => (true, [], l)
  | x :: xs, l =>
    match l.alloc with
    | (none, l1) => (false, [], l1)
    | (some e, l1) =>
      let r := copyElems xs l1
      (r.1, (x, e) :: r.2.1, r.2.2)

/-- `~XalanVector` (also of a temporary): destroy the constructed elements, free the buffer -/
def release (v : XBVec) (l : Ledger) : Ledger :=
  if v.cap ≠ 0 then
    let l1 := l.freeAll (v.elems.map (·.2))
    match v.buf with | some b => l1.free b | none => l1
  else l

/-- copy constructor `XalanVector(src, mgr, initial)`.  Result: `none` = threw (the temporary has
been destroyed: constructed prefix and buffer given back); `sizeFirst` = the mutated append loop:
a throw leaves `m_size` at the total, the temporary's destructor is undefined. -/
def copyWith (sizeFirst : Bool) (src : XBVec) (initial : Nat) (l : Ledger) : Out × Option XBVec × Ledger :=
  if src.elems.length > 0 then
    match l.alloc with
    | (none, l1) => (.oom, none, l1)
    | (some b, l1) =>
      let r := copyElems (src.elems.map (·.1)) l1
      if r.1 then (.ok, some ⟨some b, r.2.1, max src.elems.length initial⟩, r.2.2)
      else if sizeFirst then (.ub, none, r.2.2)
      else (.oom, none, (r.2.2.freeAll (r.2.1.map (·.2))).free b)
  else if initial > 0 then
    match l.alloc with
    | (none, l1) => (.oom, none, l1)
    | (some b, l1) => (.ok, some ⟨some b, [], initial⟩, l1)
  else (.ok, some ⟨none, [], 0⟩, l)

def pushBack (sf : Bool) (v : XBVec) (x : Int) (l : Ledger) : Out × XBVec × Ledger :=
  if v.elems.length < v.cap then
    match l.alloc with
    | (none, l1) => (.oom, v, l1)
    | (some e, l1) => (.ok, { v with elems := v.elems ++ [(x, e)] }, l1)
  else if v.elems.length = 0 then
    match l.alloc with                                      -- init: m_data = allocate(1); m_allocation = 1
    | (none, l1) => (.oom, v, l1)
    | (some b, l1) =>
      match l1.alloc with                                   -- construct_back
      | (none, l2) => (.oom, ⟨some b, [], 1⟩, l2)
      | (some e, l2) => (.ok, ⟨some b, [(x, e)], 1⟩, l2)
  else
    match copyWith sf v (XVec.growSize v.elems.length) l with   -- grow
    | (.ok, some t, l1) =>
      (match l1.alloc with                                  -- theTemp.doPushBack(data)
       | (none, l2) => (.oom, v, release t l2)              -- ~theTemp
       | (some e, l2) => (.ok, { t with elems := t.elems ++ [(x, e)] }, release v l2))
    | (o, _, l1) => (o, v, l1)

def reserve (sf : Bool) (v : XBVec) (n : Nat) (l : Ledger) : Out × XBVec × Ledger :=
  if n > v.cap then
    match copyWith sf v n l with
    | (.ok, some t, l1) => (.ok, t, release v l1)
    | (o, _, l1) => (o, v, l1)
  else (.ok, v, l)

def popBack (v : XBVec) (l : Ledger) : Out × XBVec × Ledger :=
  match v.elems.reverse with
  | [] => (.ub, v, l)
  | (_, e) :: rrest => (.ok, { v with elems := rrest.reverse }, l.free e)

def clear (v : XBVec) (l : Ledger) : Out × XBVec × Ledger :=
  (.ok, { v with elems := [] }, l.freeAll (v.elems.reverse.map (·.2)))

/-- `resize(n, x)` -/
def resize (sf : Bool) (v : XBVec) (n : Nat) (x : Int) (l : Ledger) : Out × XBVec × Ledger :=
  if v.elems.length > n then
    (.ok, { v with elems := v.elems.take n }, l.freeAll ((v.elems.drop n).reverse.map (·.2)))
  else if v.elems.length < n then
    match reserve sf v n l with
    | (.ok, v1, l1) =>
      let r := copyElems (List.replicate (n - v1.elems.length) x) l1
      (if r.1 then .ok else .oom, { v1 with elems := v1.elems ++ r.2.1 }, r.2.2)
    | r => r
  else (.ok, v, l)

/-- make a copy (`XalanVector(v, mgr)`) and destroy it again -/
def copyProbe (sf : Bool) (v : XBVec) (l : Ledger) : Out × XBVec × Ledger :=
  match copyWith sf v 0 l with
  | (.ok, some t, l1) => (.ok, v, release t l1)
  | (o, _, l1) => (o, v, l1)

def destroy (v : XBVec) (l : Ledger) : Ledger := release v l

inductive Op where
  | push (x : Int) | reserve (n : Nat) | pop | clear | resize (n : Nat) (x : Int) | copy
deriving Repr, DecidableEq

def step (sf : Bool) (v : XBVec) (l : Ledger) : Op → Out × XBVec × Ledger
  | .push x => pushBack sf v x l
  | .reserve n => reserve sf v n l
  | .pop => popBack v l
  | .clear => clear v l
  | .resize n x => resize sf v n x l
  | .copy => copyProbe sf v l

def run (sf : Bool) : List Op → XBVec → Ledger → Out × XBVec × Ledger
  | [], v, l => (.ok, v, l)
  | op :: ops, v, l =>
    match step sf v l op with
    | (.ub, v1, l1) => (.ub, v1, l1)
    | (_, v1, l1) => run sf ops v1 l1

end XBVec
end XalanModel.C19
