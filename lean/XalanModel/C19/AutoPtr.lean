import XalanModel.C19.Ledger
import XalanModel.C19.XVec
/-
C19 — `XalanMemMgrAutoPtr<T>` (src/xalanc/Include/XalanMemMgrAutoPtr.hpp): an auto_ptr that remembers
the MemoryManager.  `T` is an object made with `XalanConstruct` whose constructor allocates one
sub-block (the `Thing` of the harness): an object is the pair (object block, sub-block).

  ~XalanMemMgrAutoPtr / reset(m, p):  if (isInitialized()) { ptr->~T(); mgr->deallocate(ptr); }   then adopt p
  operator=(rhs):                     if (this != &rhs) { deallocate(); m_pointerInfo = rhs.release(); }
  release():                          hand the pointer to the caller, forget it

Two auto pointers (slots 0 and 1) and the list of raw pointers the caller holds after `release()`.
Core Lean only.
-/
namespace XalanModel.C19

abbrev Obj := Nat × Nat          -- (object block, sub-block allocated by its constructor)

structure APState where
  p0 : Option Obj := none
  p1 : Option Obj := none
  loose : List Obj := []           -- released to the caller (who destroys them at the end)
deriving Repr, DecidableEq

namespace APState

def objBlocks (o : Obj) : List Nat := [o.1, o.2]

def owned (s : APState) : List Nat :=
  (s.p0.toList ++ s.p1.toList ++ s.loose).flatMap objBlocks

def get (s : APState) (i : Nat) : Option Obj := if i = 0 then s.p0 else s.p1
def set (s : APState) (i : Nat) (v : Option Obj) : APState := if i = 0 then { s with p0 := v } else { s with p1 := v }

/-- `ptr->~T(); mgr->deallocate(ptr)` -/
def destroyObj (o : Obj) (l : Ledger) : Ledger := (l.free o.2).free o.1

def dealloc (v : Option Obj) (l : Ledger) : Ledger :=
  match v with | some o => destroyObj o l | none => l

/-- `T::create(mgr)` = XalanConstruct of an object whose constructor allocates one block -/
def createObj (l : Ledger) : Option Obj × Ledger :=
  match l.alloc with
  | (none, l1) => (none, l1)
  | (some b, l1) =>
    match l1.alloc with
    | (none, l2) => (none, l2.free b)            -- ~XalanAllocationGuard
    | (some sub, l2) => (some (b, sub), l2)

inductive Op where
  | make (i : Nat)        -- p_i.reset(&mgr, T::create(mgr))   (create first, then the old object is destroyed)
  | move (i j : Nat)      -- p_j = p_i
  | release (i : Nat)     -- caller takes p_i.release()
  | reset (i : Nat)       -- p_i.reset()
deriving Repr, DecidableEq

def step (s : APState) (l : Ledger) : Op → Out × APState × Ledger
  | .make i =>
    match createObj l with
    | (none, l1) => (.oom, s, l1)
    | (some o, l1) => (.ok, s.set i (some o), dealloc (s.get i) l1)
  | .move i j =>
    if decide (i = 0) == decide (j = 0) then (.ok, s, l)   -- this == &rhs
    else
      let src := s.get i
      (.ok, (s.set j src).set i none, dealloc (s.get j) l)
  | .release i =>
    (match s.get i with
     | some o => (.ok, { (s.set i none) with loose := o :: (s.set i none).loose }, l)
     | none => (.ok, s, l))
  | .reset i => (.ok, s.set i none, dealloc (s.get i) l)

def run : List Op → APState → Ledger → APState × Ledger
  | [], s, l => (s, l)
  | op :: ops, s, l => let r := step s l op; run ops r.2.1 r.2.2

/-- both destructors, then the caller destroys what it had released -/
def finish (s : APState) (l : Ledger) : Ledger :=
  let l1 := dealloc s.p1 (dealloc s.p0 l)
  s.loose.foldl (fun acc o => destroyObj o acc) l1

end APState
end XalanModel.C19
