import XalanModel.C17.Navigate
/-!
# C17 — specification: the number list of XSLT 1.0 §7.7 ("Numbering")

Written from the Recommendation over the same `Doc` (node numbers are document-order numbers, so "before
in document order" is `<`, and *preceding ∪ ancestor-or-self* of `cur` is `{m | m ≤ cur}` because descendants and
following nodes come later and attributes/namespace nodes are not numbered).

`count : Nat → Bool` is the count pattern *for the current node* (explicit, or the default "same node type and
expanded name as the current node"); `fromP` the from pattern.

Reading of the Recommendation fixed here (XSLT 1.0 text, not 2.0):
* single / multiple: "the only ancestors that are searched are those that are descendants of the nearest
  ancestor that matches the from pattern": *ancestor* is a proper ancestor of the current node; when no
  ancestor matches, nothing is excluded.
* any: "only nodes after the first node before the current node that match the from pattern are
  considered"; the list always has length one (a zero count is the list `[0]`).
-/
namespace XalanModel.C17

/-- proper ancestors, nearest first -/
def Doc.ancestors (d : Doc) : Nat → Nat → List Nat
  | 0, _ => []
  | f + 1, n => match d.parent n with
    | none => []
    | some p => p :: d.ancestors f p

/-- preceding siblings, nearest first -/
def Doc.precedingSiblings (d : Doc) : Nat → Nat → List Nat
  | 0, _ => []
  | f + 1, n => match d.prevSib n with
    | none => []
    | some s => s :: d.precedingSiblings f s

/-- "one plus the number of preceding siblings of that node that match the count pattern" -/
def siblingNumber (d : Doc) (count : Nat → Bool) (a : Nat) : Nat :=
  1 + ((d.precedingSiblings (a + 1) a).filter count).length

/-- the ancestor-or-self nodes that are searched, innermost first -/
def searched (d : Doc) (fromP : Option (Nat → Bool)) (cur : Nat) : List Nat :=
  let anc := d.ancestors (cur + 1) cur
  match fromP with
  | none => cur :: anc
  | some f => cur :: anc.takeWhile (fun a => ¬ f a)

def specSingle (d : Doc) (count : Nat → Bool) (fromP : Option (Nat → Bool)) (cur : Nat) : List Nat :=
  match (searched d fromP cur).find? count with
  | none => []
  | some a => [siblingNumber d count a]

def specMultiple (d : Doc) (count : Nat → Bool) (fromP : Option (Nat → Bool)) (cur : Nat) : List Nat :=
  (((searched d fromP cur).filter count).reverse).map (siblingNumber d count)

/-- last node strictly before `cur` (document order) matching `f` -/
def lastBefore (f : Nat → Bool) : Nat → Option Nat
  | 0 => none
  | m + 1 => if f m then some m else lastBefore f m

/-- first node number that is considered: just after the last `from` match before `cur` -/
def loBound (fromP : Option (Nat → Bool)) (cur : Nat) : Nat :=
  match fromP with
  | none => 0
  | some f => match lastBefore f cur with
    | none => 0
    | some F => F + 1

def specAny (count : Nat → Bool) (fromP : Option (Nat → Bool)) (cur : Nat) : List Nat :=
  [((List.range (cur + 1)).filter fun m => loBound fromP cur ≤ m ∧ count m).length]

/-- §7.7 `level="any"` for an **attribute** node `a` of element `o` (attributes are numbered from `d.size` up, after
all other nodes, so "before in document order" cannot be read off the numbers): the members of the preceding and
ancestor-or-self axes of `a` are `a` itself and every node `m ≤ o` (the element and what precedes it); the `from`
node is the last match among the nodes `m ≤ o`. -/
def specAnyAttr (count : Nat → Bool) (fromP : Option (Nat → Bool)) (a o : Nat) : List Nat :=
  [(if count a then 1 else 0) + ((List.range (o + 1)).filter fun m => loBound fromP (o + 1) ≤ m ∧ count m).length]

def numberSpec (d : Doc) (level : Level) (count : Nat → Bool) (fromP : Option (Nat → Bool)) (cur : Nat) : List Nat :=
  match level with
  | .single => specSingle d count fromP cur
  | .multiple => specMultiple d count fromP cur
  | .any => specAny count fromP cur

end XalanModel.C17
