import XalanModel.C17.FormatListProofs
/-!
# C17 — helper lemmas for `XalanNumberFormat::applyGrouping` (buffer accounting, separator removal)
-/
namespace XalanModel.C17

/-- buffer slots the loop of `applyGrouping` needs from position `i` on (one-character separator) -/
def room (z : Nat) : List Nat → Nat → Nat
  | [], _ => 0
  | _ :: rest, i => (if i ≠ 0 ∧ i % z = 0 then 1 else 0) + 1 + room z rest (i + 1)

theorem groupLoop_filter (g : Grouping) (sc : Nat) (hs : g.sep = [sc]) :
    ∀ (rev : List Nat) (i p : Nat) (acc : Str), (∀ c ∈ rev, c ≠ sc) → room g.size rev i ≤ p →
      (groupLoop g rev i p acc).2.filter (· ≠ sc) = rev.reverse ++ acc.filter (· ≠ sc) := by
  intro rev
  induction rev with
  | nil => intro i p acc _ _; simp [groupLoop]
  | cons c rest ih =>
    intro i p acc hc hp
    simp only [room] at hp
    have hp0 : ¬ p = 0 := by omega
    simp only [groupLoop, hp0, if_false, hs, List.reverse_cons, List.reverse_nil, List.nil_append,
      List.foldl_cons, List.foldl_nil]
    have hcne : c ≠ sc := hc c (by simp)
    have hrest : ∀ x ∈ rest, x ≠ sc := fun x hx => hc x (by simp [hx])
    by_cases hsep : i ≠ 0 ∧ i % g.size = 0
    · simp only [if_pos hsep] at hp ⊢
      have hpp : p > 0 := by omega
      simp only [hpp, if_true]
      rw [ih (i + 1) (p - 1 - 1) (c :: sc :: acc) hrest (by omega)]
      simp [hcne]
    · simp only [if_neg hsep] at hp ⊢
      rw [ih (i + 1) (p - 1) (c :: acc) hrest (by omega)]
      simp [hcne]

theorem succ_div_ceil (i z : Nat) (hi : 1 ≤ i) (hz : 1 ≤ z) :
    (i + z) / z = (i + z - 1) / z + (if i % z = 0 then 1 else 0) := by
  have h1 : i + z = (i + z - 1) + 1 := by omega
  rw [h1, Nat.succ_div]
  congr 1
  have : (z ∣ i + z - 1 + 1) ↔ i % z = 0 := by
    rw [← h1, Nat.dvd_iff_mod_eq_zero, Nat.add_mod_right]
  by_cases h : i % z = 0 <;> simp [h, this]

theorem room_eq (z : Nat) (hz : 1 ≤ z) : ∀ (rev : List Nat) (i : Nat), 1 ≤ i →
    room z rev i + (i + z - 1) / z = rev.length + (i + rev.length + z - 1) / z := by
  intro rev
  induction rev with
  | nil => intro i _; simp [room]
  | cons c rest ih =>
    intro i hi
    have := ih (i + 1) (by omega)
    have hc := succ_div_ceil i z hi hz
    have e1 : i + 1 + z - 1 = i + z := by omega
    have e2 : i + 1 + rest.length + z - 1 = i + (rest.length + 1) + z - 1 := by omega
    rw [e1, e2] at this
    simp only [room, List.length_cons]
    have hi0 : i ≠ 0 := by omega
    by_cases h : i % z = 0
    · simp only [h, if_true] at hc
      simp only [hi0, ne_eq, not_false_eq_true, h, and_self, if_true]
      omega
    · simp only [h, if_false] at hc
      simp only [h, and_false, if_false]
      omega

theorem room_zero_le (z : Nat) (hz : 1 ≤ z) (rev : List Nat) : room z rev 0 ≤ rev.length + rev.length / z := by
  cases rev with
  | nil => simp [room]
  | cons c rest =>
    have := room_eq z hz rest 1 (by omega)
    have e1 : (1 + z - 1) / z = 1 := by
      have : 1 + z - 1 = z := by omega
      rw [this]; exact Nat.div_self (by omega)
    rw [e1] at this
    simp only [room, List.length_cons, ne_eq, not_true_eq_false, false_and, if_false, Nat.zero_add]
    have hle : (1 + rest.length + z - 1) / z ≤ (rest.length + 1) / z + 1 := by
      have e : 1 + rest.length + z - 1 = rest.length + z := by omega
      rw [e]
      have : (rest.length + z) / z = rest.length / z + 1 := Nat.add_div_right _ (by omega)
      rw [this]
      have : rest.length / z ≤ (rest.length + 1) / z := Nat.div_le_div_right (by omega)
      omega
    omega


/-- `applyGrouping` with a one-character separator: removing the separator gives back the digits -/
theorem applyGrouping_filter (g : Grouping) (sc : Nat) (hs : g.sep = [sc]) (value : Str)
    (hv : ∀ c ∈ value, c ≠ sc) : (applyGrouping g value).filter (· ≠ sc) = value := by
  unfold applyGrouping
  split
  · exact List.filter_eq_self.mpr (fun c hc => by simpa using hv c hc)
  · rename_i hcond
    split
    · exact List.filter_eq_self.mpr (fun c hc => by simpa using hv c hc)
    · have hz : 1 ≤ g.size := by
        cases hsz : g.size with
        | zero => simp [hsz] at hcond
        | succ k => omega
      have hroom := room_zero_le g.size hz value.reverse
      simp only [List.length_reverse] at hroom
      have := groupLoop_filter g sc hs value.reverse 0 (value.length + value.length / g.size + 2 - 2) []
        (fun c hc => hv c (by simpa using hc)) (by omega)
      simpa using this

theorem decimalDigits_chars (n : Nat) : ∀ c ∈ decimalDigits n, 48 ≤ c ∧ c ≤ 57 := by
  have hfold : (decimalDigits n).foldl digitStep (some 0) = some n := by
    unfold decimalDigits
    rw [decimalDigitsFuel_fold (n + 1) n [] (by omega)]
    rfl
  exact digit_chars _ 0 n hfold

/-- decimal numbering **with grouping** (one-character, non-digit separator, any group size ≥ 1, any padding
width): the string decodes back to n -/
theorem formatDecimal_grouping_roundtrip (g : Grouping) (sc : Nat) (hs : g.sep = [sc])
    (hnd : ¬ (48 ≤ sc ∧ sc ≤ 57)) (n width : Nat) :
    decodeDecimal g.sep (formatDecimal g width n) = some n := by
  have hd : ∀ s : Str, decodeDecimal g.sep s = (s.filter (· ≠ sc)).foldl digitStep (some 0) := by
    intro s
    unfold decodeDecimal
    rw [hs]
    have : (fun c => decide ¬ ([sc] : Str).contains c = true) = (fun c => decide (c ≠ sc)) := by
      funext c; simp
    rw [this]
    rfl
  have hne : ∀ m, ∀ c ∈ decimalDigits m, c ≠ sc := by
    intro m c hc he
    have := decimalDigits_chars m c hc
    subst he
    exact hnd this
  have hfold : (decimalDigits n).foldl digitStep (some 0) = some n := by
    unfold decimalDigits
    rw [decimalDigitsFuel_fold (n + 1) n [] (by omega)]
    rfl
  have hz : decimalDigits 0 = [48] := by decide
  rw [hd]
  unfold formatDecimal
  simp only
  split
  · rw [List.filter_append, applyGrouping_filter g sc hs _ (hne n)]
    have : ((List.replicate (width - (applyGrouping g (decimalDigits n)).length) (applyGrouping g (decimalDigits 0))).flatten).filter (· ≠ sc)
        = (List.replicate (width - (applyGrouping g (decimalDigits n)).length) [48]).flatten := by
      rw [List.filter_flatten, List.map_replicate, applyGrouping_filter g sc hs _ (hne 0), hz]
    rw [this, zeros_fold, hfold]
  · rw [applyGrouping_filter g sc hs _ (hne n), hfold]

end XalanModel.C17
