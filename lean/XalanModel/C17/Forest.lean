import XalanModel.C17.Navigate
/-!
# C17 — documents as an inductive type, flattened to `Doc`

`Forest` is the first-child / next-sibling form of an ordered forest: a forest is empty, or a first tree (given by the
forest of its children) followed by the forest of its following siblings.  `Doc.ofForest top` numbers the document node 0
and the nodes of `top` in document order and tabulates, per node, its parent, previous sibling and last child.
`ForestProofs.lean` proves `(Doc.ofForest top).WF` and `.Closed` for **every** forest, so the counting theorems hold for
every document without a well-formedness hypothesis.  Core Lean only.
-/
namespace XalanModel.C17

inductive Forest
  | nil
  | cons (kids rest : Forest)
deriving Repr

def Forest.size : Forest → Nat
  | .nil => 0
  | .cons k r => 1 + k.size + r.size

structure NodeInfo where
  parent : Option Nat
  prevSib : Option Nat
  lastChild : Option Nat
deriving Repr

/-- number of the last tree of a forest whose first tree has number `base` -/
def Forest.lastIdx (base : Nat) : Forest → Option Nat
  | .nil => none
  | .cons k r => match Forest.lastIdx (base + 1 + k.size) r with
    | none => some base
    | some c => some c

/-- the records of the nodes of a forest in document order; `p` = number of the parent, `s` = number of the first tree,
`prev` = number of the tree before it among its siblings -/
def Forest.infos (p s : Nat) (prev : Option Nat) : Forest → List NodeInfo
  | .nil => []
  | .cons k r =>
    ⟨some p, prev, Forest.lastIdx (s + 1) k⟩ :: (Forest.infos s (s + 1) none k ++ Forest.infos p (s + 1 + k.size) (some s) r)

/-- the document node followed by the top-level forest -/
def docInfos (top : Forest) : List NodeInfo :=
  ⟨none, none, Forest.lastIdx 1 top⟩ :: Forest.infos 0 1 none top

def Doc.ofInfos (l : List NodeInfo) : Doc :=
  { size := l.length
    parent := fun i => (l[i]?).bind (·.parent)
    prevSib := fun i => (l[i]?).bind (·.prevSib)
    lastChild := fun i => (l[i]?).bind (·.lastChild) }

def Doc.ofForest (top : Forest) : Doc := Doc.ofInfos (docInfos top)

/-- the forest of a parent list (entry `i` = parent of node `i`, node 0 = document node): children in increasing
order.  Used by the driver to read its input; `Doc.ofForest` of the result is compared with the list it came from. -/
def Forest.ofSiblings (ps : List Int) : Nat → List Nat → Forest
  | 0, _ => .nil
  | _, [] => .nil
  | f + 1, c :: cs =>
    .cons (Forest.ofSiblings ps f ((List.range ps.length).filter fun j => ps.getD j (-1) == (c : Int)))
          (Forest.ofSiblings ps f cs)

def Forest.ofParents (ps : List Int) : Forest :=
  Forest.ofSiblings ps ps.length ((List.range ps.length).filter fun j => ps.getD j (-1) == 0)

end XalanModel.C17
