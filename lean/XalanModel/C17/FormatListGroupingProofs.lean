import XalanModel.C17.GroupingProofs
/-!
# C17 — helper lemmas: `formatNumberList` with grouping (list round trip), transfer between letter/digit predicates
-/
namespace XalanModel.C17

variable (alnum : Nat → Bool)

/-! ## lists with grouping -/

theorem decodeDecimal_sep (sc : Nat) (s : Str) :
    decodeDecimal [sc] s = (s.filter (· ≠ sc)).foldl digitStep (some 0) := by
  unfold decodeDecimal
  have : (fun c => decide ¬ ([sc] : Str).contains c = true) = (fun c => decide (c ≠ sc)) := by
    funext c; simp
  rw [this]
  rfl

theorem formatDecimal_chars_g (g : Grouping) (sc : Nat) (hs : g.sep = [sc]) (hnd : ¬ (48 ≤ sc ∧ sc ≤ 57)) (n width : Nat) :
    ∀ c ∈ formatDecimal g width n, c = sc ∨ (48 ≤ c ∧ c ≤ 57) := by
  intro c hc
  have h := formatDecimal_grouping_roundtrip g sc hs hnd n width
  rw [hs, decodeDecimal_sep] at h
  by_cases hcs : c = sc
  · left; exact hcs
  · right
    exact digit_chars _ 0 n h c (by simp [List.mem_filter, hc, hcs])

theorem formatted_ok_g (ha : AlnumOK alnum) (g : Grouping) (sc : Nat) (hs : g.sep = [sc])
    (hnd : ¬ (48 ≤ sc ∧ sc ≤ 57)) (hsc : alnum sc = true) (hraw : g.rawSepLen ≤ 1) (t width n : Nat) (ht : TypeOK t)
    (hfit : NumFits t n) :
    ∃ s, getFormattedNumber g t width n = some s ∧ s ≠ [] ∧ Homog alnum true s ∧ decodeNumber t [sc] s = some n := by
  by_cases hspecial : t = 65 ∨ t = 97 ∨ t = 73 ∨ t = 105
  · obtain ⟨s, h1, h2, h3, h4⟩ := formatted_ok alnum ha t width n ht hfit
    refine ⟨s, ?_, h2, h3, ?_⟩
    · rw [← h1]
      unfold getFormattedNumber
      rcases hspecial with h | h | h | h <;> simp [h]
    · rw [← h4]
      unfold decodeNumber
      rcases hspecial with h | h | h | h <;> simp [h]
  · have e65 : ¬ t = 65 := fun h => hspecial (Or.inl h)
    have e97 : ¬ t = 97 := fun h => hspecial (Or.inr (Or.inl h))
    have e73 : ¬ t = 73 := fun h => hspecial (Or.inr (Or.inr (Or.inl h)))
    have e105 : ¬ t = 105 := fun h => hspecial (Or.inr (Or.inr (Or.inr h)))
    have hd := formatDecimal_grouping_roundtrip g sc hs hnd n width
    rw [hs] at hd
    have hch := formatDecimal_chars_g g sc hs hnd n width
    refine ⟨formatDecimal g width n, by simp [getFormattedNumber, e65, e97, e73, e105, ht.1, ht.2, hraw], ?_, ?_,
      by simp [decodeNumber, e65, e97, e73, e105, hd]⟩
    · intro he
      rw [he] at hd
      simp [decodeDecimal] at hd
      have := hfit.1
      omega
    · intro c hc
      rcases hch c hc with h | h
      · rw [h]; exact hsc
      · exact ha.digit c h.1 h.2

/-- list round trip **with grouping**, for a letter/digit predicate that counts the grouping separator as part of a
number (what `decodeList` does) -/
theorem formatList_roundtrip_grouping_aux (ha : AlnumOK alnum) (g : Grouping) (sc : Nat) (hu : g.used = true)
    (hz : g.size ≠ 0) (hs : g.sep = [sc]) (hraw : g.rawSepLen ≤ 1) (hnd : ¬ (48 ≤ sc ∧ sc ≤ 57)) (hsc : alnum sc = true)
    (fmt : Str) (l : List Nat) (hl : l ≠ [])
    (hr : ∀ i, i < l.length → NumFits ((numberTypes alnum fmt).getD i ((numberTypes alnum fmt).getLastD 49)) (l.getD i 0))
    (ht : ∀ t ∈ numberTypes alnum fmt, TypeOK t) :
    ∃ out, formatNumberList alnum g fmt l = some out ∧ decodeList alnum g fmt out = some l := by
  apply formatList_roundtrip_gen alnum ha g [sc] (formatted_ok_g alnum ha g sc hs hnd hsc hraw) fmt _ l hl hr ht
  intro out
  have e : (fun c => alnum c || ([sc] : Str).contains c) = alnum := by
    funext c
    by_cases hc : c = sc
    · subst hc; simp [hsc]
    · simp [hc]
  simp only [decodeList, hu, hz, ne_eq, not_false_eq_true, and_self, if_true, hs, e]


/-! ### transfer to the real letter/digit predicate (the separator is not a letter or digit and does not occur in the format) -/

theorem spanClass_congr (p q : Nat → Bool) (cls : Bool) : ∀ (s : Str), (∀ c ∈ s, p c = q c) →
    spanClass p cls s = spanClass q cls s := by
  intro s
  induction s with
  | nil => intro _; rfl
  | cons x xs ih =>
    intro h
    simp only [spanClass, h x (by simp), ih (fun c hc => h c (by simp [hc]))]

theorem spanClass_snd_mem (p : Nat → Bool) (cls : Bool) : ∀ (s : Str), ∀ c ∈ (spanClass p cls s).2, c ∈ s := by
  intro s c hc
  have := spanClass_append p cls s
  rw [← this]
  exact List.mem_append_right _ hc

theorem tokenizeFuel_congr (p q : Nat → Bool) : ∀ (f : Nat) (s : Str), (∀ c ∈ s, p c = q c) →
    tokenizeFuel p f s = tokenizeFuel q f s := by
  intro f
  induction f with
  | zero => intro s _; rfl
  | succ f ih =>
    intro s h
    cases s with
    | nil => rfl
    | cons c cs =>
      have hcs : ∀ x ∈ cs, p x = q x := fun x hx => h x (by simp [hx])
      simp only [tokenizeFuel, h c (by simp), spanClass_congr p q (q c) cs hcs]
      congr 1
      apply ih
      intro x hx
      exact hcs x (spanClass_snd_mem q (q c) cs x hx)

theorem tokens_mem (p : Nat → Bool) (s : Str) : ∀ t ∈ tokenize p s, ∀ c ∈ t, c ∈ s := by
  intro t ht c hc
  have := tokenizeFuel_flatten p s.length s (Nat.le_refl _)
  rw [← this]
  exact List.mem_flatten.mpr ⟨t, ht, hc⟩

theorem firstIsAlnum_congr (p q : Nat → Bool) (t : Str) (h0 : p 0 = q 0) (h : ∀ c ∈ t, p c = q c) :
    firstIsAlnum p t = firstIsAlnum q t := by
  cases t with
  | nil => simpa [firstIsAlnum] using h0
  | cons x xs => simpa [firstIsAlnum] using h x (by simp)

theorem fmtLoop_congr (p q : Nat → Bool) (g : Grouping) (toks : List Str) (tI : Nat) :
    ∀ (l : List Nat) (st : FmtState), fmtLoop p g toks tI l st = fmtLoop q g toks tI l st := by
  intro l
  induction l with
  | nil => intro _; rfl
  | cons n rest ih =>
    intro st
    simp only [fmtLoop, ih]

theorem getD_mem_or_nil (toks : List Str) (i : Nat) : toks.getD i [] = [] ∨ toks.getD i [] ∈ toks := by
  by_cases h : i < toks.length
  · right; simp [List.getD, List.getElem?_eq_getElem h]
  · left; simp [List.getD, List.getElem?_eq_none (by omega : toks.length ≤ i)]

theorem formatNumberList_congr (p q : Nat → Bool) (g : Grouping) (fmt : Str) (l : List Nat) (h0 : p 0 = q 0)
    (h49 : p 49 = q 49) (h : ∀ c ∈ fmt, p c = q c) :
    formatNumberList p g fmt l = formatNumberList q g fmt l ∧ numberTypes p fmt = numberTypes q fmt := by
  have hfmt' : ∀ c ∈ (if fmt.isEmpty then [49] else fmt), p c = q c := by
    split
    · intro c hc; simp at hc; subst hc; exact h49
    · exact h
  have htok : tokenize p (if fmt.isEmpty then [49] else fmt) = tokenize q (if fmt.isEmpty then [49] else fmt) :=
    tokenizeFuel_congr p q _ _ hfmt'
  have hfa : ∀ t, (t = [] ∨ t ∈ tokenize q (if fmt.isEmpty then [49] else fmt)) → firstIsAlnum p t = firstIsAlnum q t := by
    intro t ht
    apply firstIsAlnum_congr p q t h0
    rcases ht with rfl | ht
    · intro c hc; simp at hc
    · intro c hc
      exact hfmt' c (tokens_mem q _ t ht c hc)
  constructor
  · simp only [formatNumberList, formatNumberListP, htok, fmtLoop_congr p q]
    rw [hfa _ (getD_mem_or_nil _ 0), hfa _ (getD_mem_or_nil _ _)]
  · simp only [numberTypes, htok]
    congr 1
    apply List.filter_congr
    intro t ht
    exact hfa t (Or.inr ht)

/-- **list round trip with grouping**, for the real `isXMLLetterOrDigit` (`p`): a one-character grouping separator
that is neither a letter/digit nor `.` nor NUL and does not occur in the format string -/
theorem formatList_roundtrip_grouping_real (p : Nat → Bool) (ha : AlnumOK p) (g : Grouping) (sc : Nat) (hu : g.used = true)
    (hz : g.size ≠ 0) (hs : g.sep = [sc]) (hraw : g.rawSepLen ≤ 1) (hpsc : p sc = false) (hdot : sc ≠ 46) (h0 : sc ≠ 0)
    (fmt : Str) (hfmt : sc ∉ fmt) (l : List Nat) (hl : l ≠ [])
    (hr : ∀ i, i < l.length → NumFits ((numberTypes p fmt).getD i ((numberTypes p fmt).getLastD 49)) (l.getD i 0))
    (ht : ∀ t ∈ numberTypes p fmt, TypeOK t) :
    ∃ out, formatNumberList p g fmt l = some out ∧ decodeList p g fmt out = some l := by
  have hnd : ¬ (48 ≤ sc ∧ sc ≤ 57) := by
    intro h
    have := ha.digit sc h.1 h.2
    rw [hpsc] at this; cases this
  let q : Nat → Bool := fun c => p c || c == sc
  have hq : AlnumOK q := by
    refine ⟨fun c h1 h2 => by simp [q, ha.digit c h1 h2], fun c h1 h2 => by simp [q, ha.upper c h1 h2],
      fun c h1 h2 => by simp [q, ha.lower c h1 h2], ?_⟩
    simp [q, ha.dot]; omega
  have hpq : ∀ c, c ≠ sc → p c = q c := by intro c hc; simp [q, hc]
  have hcongr := formatNumberList_congr p q g fmt l (hpq 0 (by omega))
    (hpq 49 (by intro h; exact hnd (by omega))) (fun c hc => hpq c (by intro h; subst h; exact hfmt hc))
  rw [hcongr.2] at hr ht
  obtain ⟨out, h1, h2⟩ := formatList_roundtrip_grouping_aux q hq g sc hu hz hs hraw hnd (by simp [q]) fmt l hl hr ht
  refine ⟨out, by rw [hcongr.1]; exact h1, ?_⟩
  rw [← h2]
  have e : (fun c => p c || ([sc] : Str).contains c) = (fun c => q c || ([sc] : Str).contains c) := by
    funext c
    by_cases hc : c = sc
    · subst hc; simp [q]
    · simp [q, hc]
  simp only [decodeList, hu, hz, ne_eq, not_false_eq_true, and_self, if_true, hs, e, hcongr.2]


end XalanModel.C17
