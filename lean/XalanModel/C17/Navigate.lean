import XalanModel.C17.Counters
import XalanModel.Generated.C17_NavShape
/-!
# C17 — navigation half of `xsl:number` (ElemNumber.cpp)

Transcription of `findAncestor` (272), `findPrecedingOrAncestorOrSelf` (313), `getPreviousNode` (639),
`getTargetNode` (740), `getMatchingAncestors` (784) and the counting part of `getCountString` (506/534).

A document is given by its navigation functions over node numbers `0 … size-1`; node 0 is the document
node, the others are the element/text/comment/PI nodes in document order (attributes and namespace nodes
are not numbered: none of the navigation used here reaches them).  The count pattern is
`countAt pos n` = "the pattern used when the walk was started at `pos` matches `n`": with an explicit
`count` attribute it ignores `pos`; with the default it is `getCountMatchPattern(pos)` (same node type and
expanded name).  `fromP` is the `from` pattern (`none` when the attribute is absent).  Core Lean only.
-/
namespace XalanModel.C17

structure Doc where
  size : Nat
  parent : Nat → Option Nat
  prevSib : Nat → Option Nat
  lastChild : Nat → Option Nat

inductive Level | single | multiple | any
deriving Repr, DecidableEq

structure NumCfg where
  level : Level
  countAt : Nat → Nat → Bool
  fromP : Option (Nat → Bool)

def NumCfg.fromMatches (c : NumCfg) (n : Nat) : Bool :=
  match c.fromP with
  | none => false
  | some f => f n

/-- `next->getNodeType() == XalanNode::DOCUMENT_NODE` -/
def Doc.isDocNode (_d : Doc) (n : Nat) : Bool := n = 0

/-- "dive down to the lowest right-hand (last) child" -/
def Doc.deepestLast (d : Doc) : Nat → Nat → Nat
  | 0, n => n
  | f + 1, n => match d.lastChild n with
    | none => n
    | some c => d.deepestLast f c

/-- `ElemNumber::findAncestor` (the count pattern is the one derived from `src`) -/
def findAncestor (d : Doc) (c : NumCfg) (src : Nat) : Nat → Option Nat → Option Nat
  | 0, _ => none
  | _, none => none
  | f + 1, some n =>
    if c.fromMatches n then some n
    else if c.countAt src n then some n
    else findAncestor d c src f (d.parent n)

/-- `ElemNumber::findPrecedingOrAncestorOrSelf` -/
def findPrecedingOrAncestorOrSelf (d : Doc) (c : NumCfg) (src : Nat) : Nat → Option Nat → Option Nat
  | 0, _ => none
  | _, none => none
  | f + 1, some pos =>
    if pos ≠ src ∧ c.fromMatches pos then none      -- `thePos != context`: only nodes before the context node
    else if c.countAt src pos then some pos
    else match d.prevSib pos with
      | none => findPrecedingOrAncestorOrSelf d c src f (d.parent pos)
      | some s => findPrecedingOrAncestorOrSelf d c src f (some (d.deepestLast d.size s))

/-- `ElemNumber::getTargetNode` -/
def getTargetNode (d : Doc) (c : NumCfg) (src : Nat) : Option Nat :=
  match c.level with
  | .any => findPrecedingOrAncestorOrSelf d c src (src + 1) (some src)
  | _ => findAncestor d c src (src + 1) (some src)

/-- `getPreviousNode`, `level="any"` branch; `src` = the `pos` the function was entered with.
Each round: `next` = the parent when there is no previous sibling, else the previous sibling's lowest
right-hand descendant; a null `next` ends the walk, a `next` matching `from` ends it with "no previous node"
(every node walked over is tested), else `next` is returned if it matches `count`. -/
def prevAny (d : Doc) (c : NumCfg) (src : Nat) : Nat → Nat → Option Nat
  | 0, _ => none
  | f + 1, pos =>
    let next? : Option Nat := match d.prevSib pos with
      | none => d.parent pos
      | some s => some (d.deepestLast d.size s)
    match next? with
    | none => none
    | some next =>
      if c.fromMatches next then none
      else if c.countAt src next then some next
      else prevAny d c src f next

/-- `getPreviousNode`, `single`/`multiple` branch -/
def prevSibling (d : Doc) (c : NumCfg) (src : Nat) : Nat → Nat → Option Nat
  | 0, _ => none
  | f + 1, pos =>
    match d.prevSib pos with
    | none => none
    | some s => if c.countAt src s then some s else prevSibling d c src f s

/-- `ElemNumber::getPreviousNode` -/
def getPreviousNode (d : Doc) (c : NumCfg) (pos : Nat) : Option Nat :=
  match c.level with
  | .any => prevAny d c pos (pos + 1) pos
  | _ => prevSibling d c pos (pos + 1) pos

/-- `ElemNumber::getMatchingAncestors` (nodes in the order they are added: innermost first) -/
def getMatchingAncestors (d : Doc) (c : NumCfg) (src : Nat) (stopAtFirstFound : Bool) :
    Nat → Option Nat → List Nat
  | 0, _ => []
  | _, none => []
  | f + 1, some node =>
    if node ≠ src ∧ c.fromMatches node then []        -- `node != theContextNode`; for single and multiple alike
    else if c.countAt src node then
      if stopAtFirstFound then [node]
      else node :: getMatchingAncestors d c src stopAtFirstFound f (d.parent node)
    else getMatchingAncestors d c src stopAtFirstFound f (d.parent node)

/-- the nodes `getCountString` passes to `countNode`, in the order of the resulting number list -/
def countTargets (d : Doc) (c : NumCfg) (src : Nat) : List Nat :=
  match c.level with
  | .any => [src]
  | .single => (getMatchingAncestors d c src true (src + 1) (some src)).reverse
  | .multiple => (getMatchingAncestors d c src false (src + 1) (some src)).reverse

/-- `countNode` calls for one number list, threaded through the counters of the instruction -/
def countList (target prev : Nat → Option Nat) (after : Nat → Nat → Bool) :
    List Counter → List Nat → List Counter × List Nat
  | cs, [] => (cs, [])
  | cs, n :: rest =>
    let r := countNode target prev after cs n
    let r2 := countList target prev after r.1 rest
    (r2.1, r.2 :: r2.2)

/-- counting part of `ElemNumber::getCountString` (no `value`): the number list for context node `src`.
`zeroPrintsNothing` = the `level="any"` branch guards `formatNumberList` with `if (theNumber != 0)`, so a zero
count produces no output (the empty list); without the guard the list `[0]` is formatted. -/
def getCountListZ (zeroPrintsNothing : Bool) (d : Doc) (c : NumCfg) (after : Nat → Nat → Bool) (cs : List Counter)
    (src : Nat) : List Counter × List Nat :=
  let r := countList (getTargetNode d c) (getPreviousNode d c) after cs (countTargets d c src)
  match c.level with
  | .any => if zeroPrintsNothing then (r.1, r.2.filter (· ≠ 0)) else r
  | _ => r

/-- `getCountString` on a document with attribute nodes (`Doc.withAttrs`), context node possibly an attribute.
`domParent` = the `level="any"` walk of `getPreviousNode` steps to the parent with `pos->getParentNode()`, which is
null for an attribute: the walk from an attribute node ends at once (with `DOMServices::getParentOfNode` it
continues at the element, which is what `d.parent` of `withAttrs` gives). -/
def getCountListA (domParent zeroPrintsNothing : Bool) (d : Doc) (c : NumCfg) (after : Nat → Nat → Bool)
    (cs : List Counter) (src : Nat) : List Counter × List Nat :=
  let prev : Nat → Option Nat := fun n => if domParent ∧ d.size ≤ n then none else getPreviousNode d c n
  let r := countList (getTargetNode d c) prev after cs (countTargets d c src)
  match c.level with
  | .any => if zeroPrintsNothing then (r.1, r.2.filter (· ≠ 0)) else r
  | _ => r

/-- `getCountString` as the current source has it (`Generated.C17.anyZeroPrintsNothing` is read from it) -/
def getCountList (d : Doc) (c : NumCfg) (after : Nat → Nat → Bool) (cs : List Counter) (src : Nat) :
    List Counter × List Nat :=
  getCountListZ XalanModel.Generated.C17.anyZeroPrintsNothing d c after cs src

/-! ## Well-formedness of the navigation functions (checked by the driver on every document) -/

/-- one backward step in document order as the code performs it: previous sibling's deepest last
descendant, else the parent -/
def Doc.backStep (d : Doc) (n : Nat) : Option Nat :=
  match d.prevSib n with
  | none => d.parent n
  | some s => some (d.deepestLast d.size s)

/-- node numbers are document-order numbers: the document node is 0 and has no parent or siblings;
every other node has a smaller parent, a smaller previous sibling (if any), and the backward step leads to
the number just before; a last child is a larger number inside the document. -/
def Doc.WF (d : Doc) : Prop :=
  0 < d.size ∧ d.parent 0 = none ∧ d.prevSib 0 = none ∧
  (∀ n, n < d.size → 0 < n →
    d.backStep n = some (n - 1) ∧
    (d.parent n).isSome = true ∧ (d.parent n).all (fun p => decide (p < n)) = true ∧
    (d.prevSib n).all (fun s => decide (0 < s ∧ s < n)) = true) ∧
  (∀ n, n < d.size → (d.lastChild n).all (fun c => decide (n < c ∧ c < d.size)) = true)

/-- outside `0 … size-1` there are no nodes -/
def Doc.Closed (d : Doc) : Prop :=
  ∀ n, d.size ≤ n → d.parent n = none ∧ d.prevSib n = none ∧ d.lastChild n = none

/-- The document built from the list of parent numbers (entry `i` = parent of node `i`, negative for the
document node), as the driver receives it.  Previous sibling = the largest smaller number with the same
parent; last child = the largest number whose parent is the node. -/
def Doc.ofParents (ps : List Int) : Doc :=
  let par (i : Nat) : Option Nat :=
    match ps[i]? with
    | some p => if p < 0 then none else some p.toNat
    | none => none
  { size := ps.length
    parent := par
    prevSib := fun i =>
      if i < ps.length then
        (if par i = none then none else
          (List.range i).foldl (fun acc j => if par j = par i then some j else acc) none)
      else none
    lastChild := fun i =>
      if i < ps.length then
        (List.range ps.length).foldl (fun acc j => if par j = some i then some j else acc) none
      else none }

/-- The same document with its attribute nodes added as numbers `size, size+1, …` (document order of the
attributes); `owners[j]` is the element that carries attribute `size + j`.  An attribute has no siblings and no
children; its parent (`DOMServices::getParentOfNode`) is its element.  `size`, and everything about the numbers
below it, is unchanged — the theorems about `0 … size-1` are about the same functions. -/
def Doc.withAttrs (d : Doc) (owners : List Nat) : Doc :=
  { d with parent := fun i => if i < d.size then d.parent i else owners[i - d.size]? }

theorem Doc.ofParents_closed (ps : List Int) : (Doc.ofParents ps).Closed := by
  intro n hn
  simp only [Doc.ofParents] at hn ⊢
  have h1 : ps[n]? = none := List.getElem?_eq_none hn
  have h2 : ¬ n < ps.length := by omega
  simp [h2]

instance (d : Doc) : Decidable d.WF := by
  unfold Doc.WF
  exact inferInstance

end XalanModel.C17
