import XalanModel.C17.Spec
import XalanModel.C17.CountersProofs
/-!
# C17 — helper lemmas about the transcribed navigation (`getPreviousNode`, `getTargetNode`, …)
-/
namespace XalanModel.C17

variable {d : Doc}

theorem Doc.WF.parent_lt (h : d.WF) {n p : Nat} (hn : n < d.size) (hp : d.parent n = some p) : p < n := by
  obtain ⟨_, h0, _, hall, _⟩ := h
  cases n with
  | zero => rw [h0] at hp; cases hp
  | succ k =>
    have := (hall (k + 1) hn (by omega)).2.2.1
    rw [hp] at this
    simpa using this

theorem Doc.WF.prevSib_lt (h : d.WF) {n s : Nat} (hn : n < d.size) (hp : d.prevSib n = some s) : s < n := by
  obtain ⟨_, _, h0, hall, _⟩ := h
  cases n with
  | zero => rw [h0] at hp; cases hp
  | succ k =>
    have := (hall (k + 1) hn (by omega)).2.2.2
    rw [hp] at this
    have h2 : 0 < s ∧ s < k + 1 := by simpa using this
    exact h2.2

theorem Doc.WF.backStep_eq (h : d.WF) {n : Nat} (hn : n < d.size) (h0 : 0 < n) : d.backStep n = some (n - 1) :=
  (h.2.2.2.1 n hn h0).1

/-- with a previous sibling, the dive ends at the node just before -/
theorem Doc.WF.dive_eq (h : d.WF) {n s : Nat} (hn : n < d.size) (hp : d.prevSib n = some s) :
    d.deepestLast d.size s = n - 1 := by
  have h0 : 0 < n := by
    cases n with
    | zero => rw [h.2.2.1] at hp; cases hp
    | succ k => omega
  have := h.backStep_eq hn h0
  simp only [Doc.backStep, hp, Option.some.injEq] at this
  exact this

/-- without a previous sibling, the parent is the node just before -/
theorem Doc.WF.parent_eq (h : d.WF) {n : Nat} (hn : n < d.size) (h0 : 0 < n) (hp : d.prevSib n = none) :
    d.parent n = some (n - 1) := by
  have := h.backStep_eq hn h0
  simpa [Doc.backStep, hp] using this

theorem prevSibling_lt (h : d.WF) (c : NumCfg) (src : Nat) :
    ∀ (f pos m : Nat), pos < d.size → prevSibling d c src f pos = some m → m < pos := by
  intro f
  induction f with
  | zero => intro pos m _ hm; simp [prevSibling] at hm
  | succ f ih =>
    intro pos m hpos hm
    simp only [prevSibling] at hm
    cases hs : d.prevSib pos with
    | none => simp [hs] at hm
    | some s =>
      have hlt := h.prevSib_lt hpos hs
      simp only [hs] at hm
      split at hm
      · cases hm; exact hlt
      · have := ih s m (by omega) hm
        omega

theorem Doc.WF.prevSib_pos (h : d.WF) {n s : Nat} (hn : n < d.size) (hp : d.prevSib n = some s) : 0 < s := by
  obtain ⟨_, _, h0, hall, _⟩ := h
  cases n with
  | zero => rw [h0] at hp; cases hp
  | succ k =>
    have := (hall (k + 1) hn (by omega)).2.2.2
    rw [hp] at this
    have h2 : 0 < s ∧ s < k + 1 := by simpa using this
    exact h2.1

theorem Doc.WF.lastChild_gt (h : d.WF) {n c : Nat} (hn : n < d.size) (hc : d.lastChild n = some c) : n < c ∧ c < d.size := by
  have := h.2.2.2.2 n hn
  rw [hc] at this
  simpa using this

theorem deepestLast_ge (h : d.WF) : ∀ (f s : Nat), s < d.size → s ≤ d.deepestLast f s ∧ d.deepestLast f s < d.size := by
  intro f
  induction f with
  | zero => intro s hs; simp [Doc.deepestLast, hs]
  | succ f ih =>
    intro s hs
    simp only [Doc.deepestLast]
    cases hc : d.lastChild s with
    | none => simp [hs]
    | some c =>
      have := h.lastChild_gt hs hc
      have := ih c this.2
      simp only
      omega

theorem deepestLast_leaf (h : d.WF) : ∀ (f s : Nat), s < d.size → d.size ≤ s + f →
    d.lastChild (d.deepestLast f s) = none := by
  intro f
  induction f with
  | zero => intro s hs hf; omega
  | succ f ih =>
    intro s hs hf
    simp only [Doc.deepestLast]
    cases hc : d.lastChild s with
    | none => simpa using hc
    | some c =>
      have := h.lastChild_gt hs hc
      exact ih c this.2 (by omega)

/-! ## `level="any"` -/

def lastBeforeF (f g : Nat → Bool) : Nat → Option Nat
  | 0 => none
  | m + 1 => if f m then none else if g m then some m else lastBeforeF f g m

/-- scanning down from `n`: stop at the first `f`, count the `g` -/
theorem lastBeforeF_succ (f g : Nat → Bool) (m : Nat) :
    lastBeforeF f g (m + 1) = if f m then none else if g m then some m else lastBeforeF f g m := rfl


/-- scanning down from `n - 1`: stop at the first `f`, count the `g` -/
def cntBelow (f g : Nat → Bool) : Nat → Nat
  | 0 => 0
  | m + 1 => if f m then 0 else (if g m then 1 else 0) + cntBelow f g m

theorem cntBelow_succ (f g : Nat → Bool) (m : Nat) :
    cntBelow f g (m + 1) = if f m then 0 else (if g m then 1 else 0) + cntBelow f g m := rfl

theorem lastBeforeF_cnt (f g : Nat → Bool) : ∀ (n : Nat),
    (lastBeforeF f g n = none → cntBelow f g n = 0) ∧
    (∀ m, lastBeforeF f g n = some m → m < n ∧ g m = true ∧ cntBelow f g n = 1 + cntBelow f g m) := by
  intro n
  induction n with
  | zero => exact ⟨fun _ => rfl, fun m h => by simp [lastBeforeF] at h⟩
  | succ k ih =>
    rw [lastBeforeF_succ, cntBelow_succ]
    by_cases hf : f k = true
    · simp [hf]
    · by_cases hg : g k = true
      · simp only [hf, hg, Bool.false_eq_true, if_false, if_true]
        refine ⟨(by intro h; cases h), ?_⟩
        intro m hm
        simp only [Option.some.injEq] at hm
        subst hm
        exact ⟨by omega, hg, rfl⟩
      · simp only [hf, hg, Bool.false_eq_true, if_false, Nat.zero_add]
        refine ⟨ih.1, ?_⟩
        intro m hm
        have := ih.2 m hm
        exact ⟨by omega, this.2.1, this.2.2⟩

/-- the backward walk of `getPreviousNode` (`any`) visits the document-order predecessors one by one, testing
`from` and then `count` on each -/
theorem prevAny_eq (h : d.WF) (c : NumCfg) (src : Nat) :
    ∀ (fuel pos : Nat), pos < d.size → pos < fuel →
      prevAny d c src fuel pos = lastBeforeF c.fromMatches (c.countAt src) pos := by
  intro fuel
  induction fuel with
  | zero => intro pos _ h2; omega
  | succ f ih =>
    intro pos hp hfu
    simp only [prevAny]
    cases pos with
    | zero => rw [h.2.2.1, h.2.1]; rfl
    | succ k =>
      rw [lastBeforeF_succ]
      have hnext : ∀ (o : Option Nat), o = some k →
          (match o with
            | none => none
            | some next =>
              if c.fromMatches next = true then none
              else if c.countAt src next = true then some next else prevAny d c src f next) =
          (if c.fromMatches k = true then none else if c.countAt src k = true then some k
            else lastBeforeF c.fromMatches (c.countAt src) k) := by
        intro o ho
        subst ho
        simp only
        split
        · rfl
        · split
          · rfl
          · exact ih k (by omega) (by omega)
      cases hs : d.prevSib (k + 1) with
      | none => exact hnext (d.parent (k + 1)) (by rw [h.parent_eq hp (by omega) hs]; rfl)
      | some s => exact hnext (some (d.deepestLast d.size s)) (by rw [h.dive_eq hp hs]; rfl)

theorem findPOAS_below (h : d.WF) (c : NumCfg) (src : Nat) :
    ∀ (fuel pos : Nat), pos < src → pos < d.size → pos < fuel →
      findPrecedingOrAncestorOrSelf d c src fuel (some pos) = lastBeforeF c.fromMatches (c.countAt src) (pos + 1) := by
  intro fuel
  induction fuel with
  | zero => intro pos _ _ h2; omega
  | succ f ih =>
    intro pos hps hp hfu
    have hne : pos ≠ src := by omega
    rw [lastBeforeF_succ]
    simp only [findPrecedingOrAncestorOrSelf, hne, ne_eq, not_false_eq_true, true_and]
    split
    · rfl
    · split
      · rfl
      · cases pos with
        | zero =>
          rw [h.2.2.1, h.2.1]
          cases f <;> simp [findPrecedingOrAncestorOrSelf, lastBeforeF]
        | succ k =>
          have hk := ih k (by omega) (by omega) (by omega)
          cases hs : d.prevSib (k + 1) with
          | none =>
            simp only
            rw [h.parent_eq hp (by omega) hs]
            exact hk
          | some s =>
            simp only
            rw [h.dive_eq hp hs]
            exact hk

theorem getTargetNode_any (h : d.WF) (c : NumCfg) (hl : c.level = .any) (src : Nat) (hs : src < d.size) :
    getTargetNode d c src =
      if c.countAt src src then some src else lastBeforeF c.fromMatches (c.countAt src) src := by
  unfold getTargetNode
  rw [hl]
  simp only [findPrecedingOrAncestorOrSelf, ne_eq, not_true_eq_false, false_and, if_false]
  split
  · rfl
  · cases src with
    | zero =>
      rw [h.2.2.1, h.2.1]
      simp [findPrecedingOrAncestorOrSelf, lastBeforeF]
    | succ k =>
      have hk := findPOAS_below h c (k + 1) (k + 1) k (by omega) (by omega) (by omega)
      cases hs' : d.prevSib (k + 1) with
      | none =>
        simp only
        rw [h.parent_eq hs (by omega) hs']
        exact hk
      | some s =>
        simp only
        rw [h.dive_eq hs hs']
        exact hk

theorem chainLen_cnt (prev : Nat → Option Nat) (f g : Nat → Bool) (B : Nat)
    (hprev : ∀ n, n < B → g n = true → prev n = lastBeforeF f g n) :
    ∀ (fuel t : Nat), t < fuel → t < B → g t = true → chainLen prev fuel (some t) = 1 + cntBelow f g t := by
  intro fuel
  induction fuel with
  | zero => intro t h; omega
  | succ q ih =>
    intro t ht htB hgt
    simp only [chainLen, hprev t htB hgt]
    have hs := lastBeforeF_cnt f g t
    cases hl : lastBeforeF f g t with
    | none =>
      rw [hs.1 hl]
      cases q <;> simp [chainLen]
    | some m =>
      obtain ⟨h1, h2, h3⟩ := hs.2 m hl
      rw [ih m (by omega) (by omega) h2, h3]

theorem lastBefore_between (f : Nat → Bool) : ∀ (n : Nat),
    (lastBefore f n = none → ∀ m, m < n → f m = false) ∧
    (∀ F, lastBefore f n = some F → F < n ∧ f F = true ∧ ∀ m, F < m → m < n → f m = false) := by
  intro n
  induction n with
  | zero => exact ⟨fun _ m hm => by omega, fun F h => by simp [lastBefore] at h⟩
  | succ k ih =>
    simp only [lastBefore]
    by_cases hk : f k = true
    · simp only [hk, if_true]
      refine ⟨(by intro h; cases h), ?_⟩
      intro F hF
      simp only [Option.some.injEq] at hF
      subst hF
      exact ⟨by omega, hk, fun m h1 h2 => by omega⟩
    · simp only [hk, Bool.false_eq_true, if_false]
      have hkf : f k = false := by simpa using hk
      refine ⟨?_, ?_⟩
      · intro h m hm
        by_cases hmk : m = k
        · subst hmk; exact hkf
        · exact ih.1 h m (by omega)
      · intro F hF
        obtain ⟨h1, h2, h3⟩ := ih.2 F hF
        refine ⟨by omega, h2, ?_⟩
        intro m hm1 hm2
        by_cases hmk : m = k
        · subst hmk; exact hkf
        · exact h3 m hm1 (by omega)

theorem filter_range_lt (g : Nat → Bool) (lo : Nat) : ∀ (n : Nat), n < lo →
    ((List.range (n + 1)).filter (fun m => decide (lo ≤ m ∧ g m = true))).length = 0 := by
  intro n hn
  have : (List.range (n + 1)).filter (fun m => decide (lo ≤ m ∧ g m = true)) = [] := by
    apply List.filter_eq_nil_iff.mpr
    intro a ha
    simp only [List.mem_range] at ha
    simp; omega
  rw [this]; rfl

theorem loBound_some_none (f : Nat → Bool) (cur : Nat) (h : lastBefore f cur = none) : loBound (some f) cur = 0 := by
  simp [loBound, h]

theorem loBound_some_some (f : Nat → Bool) (cur F : Nat) (h : lastBefore f cur = some F) : loBound (some f) cur = F + 1 := by
  simp [loBound, h]


theorem cntBelow_range (f g : Nat → Bool) (lo : Nat) : ∀ (n : Nat), lo ≤ n →
    (∀ m, lo ≤ m → m < n → f m = false) → (lo = 0 ∨ f (lo - 1) = true) →
    cntBelow f g n = ((List.range n).filter (fun m => decide (lo ≤ m ∧ g m = true))).length := by
  intro n
  induction n with
  | zero => intro _ _ _; rfl
  | succ k ih =>
    intro hlo hno hbelow
    rw [cntBelow_succ]
    by_cases hle : lo ≤ k
    · have hfk := hno k hle (by omega)
      simp only [hfk, Bool.false_eq_true, if_false]
      rw [ih hle (fun m h1 h2 => hno m h1 (by omega)) hbelow]
      rw [List.range_succ, List.filter_append, List.length_append]
      have hone : ((List.filter (fun m => decide (lo ≤ m ∧ g m = true)) [k]).length) = (if g k = true then 1 else 0) := by
        by_cases hg : g k = true
        · simp [hg, hle]
        · have hg' : g k = false := by simpa using hg
          simp [hg']
      rw [hone]
      omega
    · have hl : lo = k + 1 := by omega
      subst hl
      rcases hbelow with h | h
      · omega
      · have h' : f k = true := h
        simp only [h', if_true]
        have : (List.range (k + 1)).filter (fun m => decide (k + 1 ≤ m ∧ g m = true)) = [] := by
          apply List.filter_eq_nil_iff.mpr
          intro a ha
          simp only [List.mem_range] at ha
          simp; omega
        rw [this]; rfl

/-- §7.7 `level="any"` in terms of the downward scan (`from` absent = a `from` that matches nothing) -/
theorem specAny_eq_cnt (c : NumCfg) (g : Nat → Bool) (cur : Nat) :
    specAny g c.fromP cur = [(if g cur = true then 1 else 0) + cntBelow c.fromMatches g cur] := by
  obtain ⟨hc1, hc2, hc3⟩ : loBound c.fromP cur ≤ cur ∧
      (∀ m, loBound c.fromP cur ≤ m → m < cur → c.fromMatches m = false) ∧
      (loBound c.fromP cur = 0 ∨ c.fromMatches (loBound c.fromP cur - 1) = true) := by
    cases hf : c.fromP with
    | none =>
      refine ⟨by simp [loBound], fun m _ _ => by simp [NumCfg.fromMatches, hf], Or.inl (by simp [loBound])⟩
    | some f =>
      have hfm : c.fromMatches = f := by funext n; simp [NumCfg.fromMatches, hf]
      rw [hfm]
      have hb := lastBefore_between f cur
      cases hl : lastBefore f cur with
      | none =>
        rw [loBound_some_none f cur hl]
        exact ⟨by omega, fun m _ h2 => hb.1 hl m h2, Or.inl rfl⟩
      | some F =>
        rw [loBound_some_some f cur F hl]
        obtain ⟨h1, h2, h3⟩ := hb.2 F hl
        exact ⟨by omega, fun m hm1 hm2 => h3 m (by omega) hm2, Or.inr (by simpa using h2)⟩
  unfold specAny
  rw [cntBelow_range c.fromMatches g (loBound c.fromP cur) cur hc1 hc2 hc3]
  rw [List.range_succ, List.filter_append, List.length_append]
  have hone : ((List.filter (fun m => decide (loBound c.fromP cur ≤ m ∧ g m = true)) [cur]).length) = (if g cur = true then 1 else 0) := by
    by_cases hg : g cur = true
    · simp [hg, hc1]
    · have hg' : g cur = false := by simpa using hg
      simp [hg']
  rw [hone]
  simp only [List.cons.injEq, and_true]
  omega

theorem getPreviousNode_outside (hc : d.Closed) (c : NumCfg) (n : Nat) (hn : d.size ≤ n) :
    getPreviousNode d c n = none := by
  obtain ⟨h1, h2, _⟩ := hc n hn
  unfold getPreviousNode
  cases c.level <;> simp [prevSibling, prevAny, h1, h2]

/-- `getPreviousNode` moves strictly backwards in document order on every well-formed document: the
hypothesis of the history theorem holds for the transcribed navigation. -/
theorem getPreviousNode_lt (h : d.WF) (c : NumCfg) (n m : Nat) (hn : n < d.size)
    (hm : getPreviousNode d c n = some m) : m < n := by
  unfold getPreviousNode at hm
  cases hl : c.level with
  | any =>
    simp only [hl] at hm
    rw [prevAny_eq h c n (n + 1) n hn (by omega)] at hm
    exact ((lastBeforeF_cnt _ _ n).2 m hm).1
  | single =>
    simp only [hl] at hm
    exact prevSibling_lt h c n (n + 1) n m hn hm
  | multiple =>
    simp only [hl] at hm
    exact prevSibling_lt h c n (n + 1) n m hn hm

theorem getPreviousNode_decreases (h : d.WF) (hc : d.Closed) (c : NumCfg) :
    ∀ n m, getPreviousNode d c n = some m → m < n := by
  intro n m hm
  by_cases hn : n < d.size
  · exact getPreviousNode_lt h c n m hn hm
  · rw [getPreviousNode_outside hc c n (by omega)] at hm
    cases hm

/-- `level="any"`, with or without `from`: the counting code (navigation + cache, any history, any oracle)
yields the §7.7 count; nothing is printed for zero. -/
theorem getCountListZ_any (h : d.WF) (hc : d.Closed) (c : NumCfg) (hl : c.level = .any)
    (hcons : ∀ a b, c.countAt a b = true → c.countAt b = c.countAt a)
    (src : Nat) (hs : src < d.size)
    (after : Nat → Nat → Bool) (cs : List Counter)
    (hinv : CountersInv (getPreviousNode d c) cs) (z : Bool) :
    (getCountListZ z d c after cs src).2 =
      (if z then (specAny (c.countAt src) c.fromP src).filter (· ≠ 0) else specAny (c.countAt src) c.fromP src) ∧
    CountersInv (getPreviousNode d c) (getCountListZ z d c after cs src).1 := by
  have hdec := getPreviousNode_decreases h hc c
  have hcn := countNode_spec (getTargetNode d c) hdec after cs hinv src
  have hprev : ∀ n, n < d.size → c.countAt src n = true →
      getPreviousNode d c n = lastBeforeF c.fromMatches (c.countAt src) n := by
    intro n hn hgn
    have he := hcons src n hgn
    unfold getPreviousNode
    rw [hl]
    simp only
    rw [prevAny_eq h c n (n + 1) n hn (by omega), he]
  have hchain := chainLen_cnt (getPreviousNode d c) c.fromMatches (c.countAt src) d.size hprev
  have hs3 := lastBeforeF_cnt c.fromMatches (c.countAt src) src
  -- the value `countNode` answers is the §7.7 count
  have hval : (countNode (getTargetNode d c) (getPreviousNode d c) after cs src).2 =
      (if c.countAt src src = true then 1 else 0) + cntBelow c.fromMatches (c.countAt src) src := by
    rw [hcn.1]
    unfold countSpec
    rw [getTargetNode_any h c hl src hs]
    by_cases hg : c.countAt src src = true
    · simp only [hg, if_true]
      rw [hchain (src + 1) src (by omega) hs hg]
    · have hg' : c.countAt src src = false := by simpa using hg
      simp only [hg', Bool.false_eq_true, if_false, Nat.zero_add]
      cases hlb : lastBeforeF c.fromMatches (c.countAt src) src with
      | none => simp [hs3.1 hlb]
      | some t =>
        obtain ⟨h1, h2, h3⟩ := hs3.2 t hlb
        simp only
        rw [hchain (t + 1) t (by omega) (by omega) h2, h3]
  rw [specAny_eq_cnt c (c.countAt src) src]
  unfold getCountListZ countTargets
  simp only [hl, countList, hval]
  cases z
  · exact ⟨by simp, hcn.2⟩
  · exact ⟨by simp, hcn.2⟩


/-! ## `level="single"` / `level="multiple"` -/



theorem precedingSiblings_fuel (h : d.WF) : ∀ (f1 f2 n : Nat), n < d.size → n < f1 → n < f2 →
    d.precedingSiblings f1 n = d.precedingSiblings f2 n := by
  intro f1
  induction f1 with
  | zero => intro f2 n _ h1; omega
  | succ f ih =>
    intro f2 n hn h1 h2
    cases f2 with
    | zero => omega
    | succ g =>
      simp only [Doc.precedingSiblings]
      cases hs : d.prevSib n with
      | none => rfl
      | some s =>
        have := h.prevSib_lt hn hs
        simp only
        rw [ih g s (by omega) (by omega) (by omega)]

theorem prevSibling_fuel (h : d.WF) (c : NumCfg) (src : Nat) : ∀ (f1 f2 n : Nat), n < d.size → n < f1 → n < f2 →
    prevSibling d c src f1 n = prevSibling d c src f2 n := by
  intro f1
  induction f1 with
  | zero => intro f2 n _ h1; omega
  | succ f ih =>
    intro f2 n hn h1 h2
    cases f2 with
    | zero => omega
    | succ g =>
      simp only [prevSibling]
      cases hs : d.prevSib n with
      | none => rfl
      | some s =>
        have := h.prevSib_lt hn hs
        simp only
        rw [ih g s (by omega) (by omega) (by omega)]

theorem ancestors_fuel (h : d.WF) : ∀ (f1 f2 n : Nat), n < d.size → n ≤ f1 → n ≤ f2 →
    d.ancestors f1 n = d.ancestors f2 n := by
  intro f1
  induction f1 with
  | zero =>
    intro f2 n _ h1 _
    have : n = 0 := by omega
    subst this
    cases f2 <;> simp [Doc.ancestors, h.2.1]
  | succ f ih =>
    intro f2 n hn h1 h2
    cases f2 with
    | zero =>
      have : n = 0 := by omega
      subst this
      simp [Doc.ancestors, h.2.1]
    | succ g =>
      simp only [Doc.ancestors]
      cases hp : d.parent n with
      | none => rfl
      | some p =>
        have := h.parent_lt hn hp
        simp only
        rw [ih g p (by omega) (by omega) (by omega)]

theorem ancestors_lt (h : d.WF) : ∀ (f n : Nat), n < d.size → ∀ a ∈ d.ancestors f n, a < n := by
  intro f
  induction f with
  | zero => intro n _ a ha; simp [Doc.ancestors] at ha
  | succ f ih =>
    intro n hn a ha
    simp only [Doc.ancestors] at ha
    cases hp : d.parent n with
    | none => simp [hp] at ha
    | some p =>
      have hlt := h.parent_lt hn hp
      simp only [hp, List.mem_cons] at ha
      rcases ha with rfl | ha
      · exact hlt
      · have := ih p (by omega) a ha
        omega

/-- the sibling walk: chain length from the first matching preceding sibling = number of matching
preceding siblings -/
theorem chainLen_siblings (h : d.WF) (c : NumCfg) (g : Nat → Bool)
    (prev : Nat → Option Nat) (hdec : ∀ n m, prev n = some m → m < n)
    (hprev : ∀ n, n < d.size → g n = true → prev n = prevSibling d c n (n + 1) n)
    (hg : ∀ n, g n = true → c.countAt n = g) :
    ∀ (bound pos : Nat), pos < bound → pos < d.size → ∀ src, c.countAt src = g → ∀ fuel, pos ≤ fuel →
      chainLen prev fuel (prevSibling d c src (pos + 1) pos) =
        ((d.precedingSiblings (pos + 1) pos).filter g).length := by
  intro bound
  induction bound with
  | zero => intro pos hb; omega
  | succ b ih =>
    intro pos hb hsz src hsrc fuel hfu
    simp only [prevSibling, Doc.precedingSiblings]
    cases hs : d.prevSib pos with
    | none => cases fuel <;> simp [chainLen]
    | some s =>
      have hlt := h.prevSib_lt hsz hs
      simp only
      have hps : d.precedingSiblings pos s = d.precedingSiblings (s + 1) s :=
        precedingSiblings_fuel h pos (s + 1) s (by omega) hlt (by omega)
      have hpv : prevSibling d c src pos s = prevSibling d c src (s + 1) s :=
        prevSibling_fuel h c src pos (s + 1) s (by omega) hlt (by omega)
      rw [hps, hpv]
      have ihs := ih s (by omega) (by omega)
      simp only [hsrc]
      by_cases hgs : g s = true
      · simp only [hgs, if_true, List.filter_cons, List.length_cons]
        cases fuel with
        | zero => omega
        | succ f =>
          simp only [chainLen]
          rw [hprev s (by omega) hgs]
          rw [ihs s (hg s hgs) f (by omega)]
          omega
      · simp only [hgs, Bool.false_eq_true, if_false, List.filter_cons]
        exact ihs src hsrc fuel (by omega)

theorem findAncestor_self (c : NumCfg) (a : Nat) (ha : c.countAt a a = true) :
    findAncestor d c a (a + 1) (some a) = some a := by
  simp only [findAncestor]
  split
  · rfl
  · simp [ha]

/-- every `countNode` call made for `single`/`multiple` answers the sibling number of its node -/
theorem countNode_sibling (h : d.WF) (hc : d.Closed) (c : NumCfg) (hl : c.level ≠ .any)
    (g : Nat → Bool) (hg : ∀ n, g n = true → c.countAt n = g)
    (after : Nat → Nat → Bool) (cs : List Counter)
    (hinv : CountersInv (getPreviousNode d c) cs)
    (a : Nat) (ha : a < d.size) (hga : g a = true) :
    (countNode (getTargetNode d c) (getPreviousNode d c) after cs a).2 = siblingNumber d g a ∧
    CountersInv (getPreviousNode d c) (countNode (getTargetNode d c) (getPreviousNode d c) after cs a).1 := by
  have hdec := getPreviousNode_decreases h hc c
  have hcn := countNode_spec (getTargetNode d c) hdec after cs hinv a
  refine ⟨?_, hcn.2⟩
  rw [hcn.1]
  have hprev : ∀ n, getPreviousNode d c n = prevSibling d c n (n + 1) n := by
    intro n
    unfold getPreviousNode
    cases hlv : c.level with
    | any => exact absurd hlv hl
    | single => rfl
    | multiple => rfl
  have htarget : getTargetNode d c a = some a := by
    unfold getTargetNode
    have haa : c.countAt a a = true := by rw [hg a hga]; exact hga
    cases hlv : c.level with
    | any => exact absurd hlv hl
    | single => exact findAncestor_self c a haa
    | multiple => exact findAncestor_self c a haa
  unfold countSpec
  rw [htarget]
  simp only [chainLen, hprev a]
  unfold siblingNumber
  cases a with
  | zero =>
    -- the document node has no siblings
    simp [prevSibling, Doc.precedingSiblings, h.2.2.1, chainLen]
  | succ k =>
    have hk := chainLen_siblings h c g (getPreviousNode d c) hdec
      (fun n _ _ => hprev n) hg (k + 2) (k + 1) (by omega) ha (k + 1) (hg (k + 1) hga) (k + 1) (by omega)
    rw [hk]

theorem countList_siblings (h : d.WF) (hc : d.Closed) (c : NumCfg) (hl : c.level ≠ .any)
    (g : Nat → Bool) (hg : ∀ n, g n = true → c.countAt n = g) (after : Nat → Nat → Bool) :
    ∀ (L : List Nat) (cs : List Counter), (∀ a ∈ L, a < d.size ∧ g a = true) →
      CountersInv (getPreviousNode d c) cs →
      (countList (getTargetNode d c) (getPreviousNode d c) after cs L).2 = L.map (siblingNumber d g) ∧
      CountersInv (getPreviousNode d c)
        (countList (getTargetNode d c) (getPreviousNode d c) after cs L).1 := by
  intro L
  induction L with
  | nil => intro cs _ hinv; exact ⟨rfl, hinv⟩
  | cons a rest ih =>
    intro cs hL hinv
    have ha := hL a (by simp)
    have h1 := countNode_sibling h hc c hl g hg after cs hinv a ha.1 ha.2
    have h2 := ih _ (fun x hx => hL x (by simp [hx])) h1.2
    constructor
    · simp only [countList, List.map_cons, h1.1, h2.1]
    · simpa only [countList] using h2.2

/-- `getMatchingAncestors`, `multiple`: the ancestor-or-self nodes up to (excluding) the first one matching
`from`, filtered by `count` -/
theorem takeWhile_all {α : Type} (p : α → Bool) : ∀ (l : List α), (∀ a ∈ l, p a = true) → l.takeWhile p = l := by
  intro l
  induction l with
  | nil => intro _; rfl
  | cons x xs ih =>
    intro hp
    simp only [List.takeWhile_cons, hp x (by simp), if_true, List.cons.injEq, true_and]
    exact ih (fun a ha => hp a (by simp [ha]))

theorem aos_lt (h : d.WF) (src : Nat) (hs : src < d.size) :
    ∀ a ∈ src :: d.ancestors (src + 1) src, a < d.size := by
  intro a ha
  simp only [List.mem_cons] at ha
  rcases ha with rfl | ha
  · exact hs
  · have := ancestors_lt h (src + 1) src hs a ha
    omega

/-- `getMatchingAncestors` above the context node: the ancestor-or-self nodes of `node` up to (excluding) the
first one matching `from`, filtered by `count` -/
theorem getMatchingAncestors_above (h : d.WF) (c : NumCfg) (src : Nat) (stop : Bool) : ∀ (f node : Nat),
    node < src → node < d.size →
    getMatchingAncestors d c src stop (f + 1) (some node) =
      if stop then (((node :: d.ancestors f node).takeWhile (fun a => !c.fromMatches a)).find? (c.countAt src)).toList
      else ((node :: d.ancestors f node).takeWhile (fun a => !c.fromMatches a)).filter (c.countAt src) := by
  intro f
  induction f with
  | zero =>
    intro node hlt _
    have hne : node ≠ src := by omega
    by_cases hfm : c.fromMatches node = true <;> by_cases hcn : c.countAt src node = true <;> cases stop <;>
      simp [getMatchingAncestors, Doc.ancestors, hfm, hcn, hne]
  | succ f ih =>
    intro node hlt hsz
    have hne : node ≠ src := by omega
    rw [getMatchingAncestors]
    cases hp : d.parent node with
    | none =>
      by_cases hfm : c.fromMatches node = true <;> by_cases hcn : c.countAt src node = true <;> cases stop <;>
        simp [getMatchingAncestors, Doc.ancestors, hfm, hcn, hp, hne]
    | some p =>
      have hpl := h.parent_lt hsz hp
      rw [ih p (by omega) (by omega)]
      by_cases hfm : c.fromMatches node = true <;> by_cases hcn : c.countAt src node = true <;> cases stop <;>
        simp [Doc.ancestors, hfm, hcn, hp, hne]

/-- `getMatchingAncestors` from the context node (which is never tested against `from`): the nodes of
§7.7's `searched`, filtered by `count` (first match only for `single`) -/
theorem getMatchingAncestors_top (h : d.WF) (c : NumCfg) (src : Nat) (hs : src < d.size) (stop : Bool) :
    getMatchingAncestors d c src stop (src + 1) (some src) =
      if stop then ((searched d c.fromP src).find? (c.countAt src)).toList
      else (searched d c.fromP src).filter (c.countAt src) := by
  have hsearched : searched d c.fromP src = src :: (d.ancestors (src + 1) src).takeWhile (fun a => !c.fromMatches a) := by
    unfold searched
    cases hfp : c.fromP with
    | none =>
      simp only [List.cons.injEq, true_and]
      symm
      apply takeWhile_all
      intro a _
      simp [NumCfg.fromMatches, hfp]
    | some f =>
      simp only [List.cons.injEq, true_and]
      congr 1
      funext a
      simp [NumCfg.fromMatches, hfp]
  have hanc : d.ancestors src src = d.ancestors (src + 1) src :=
    ancestors_fuel h src (src + 1) src hs (by omega) (by omega)
  rw [hsearched, ← hanc, getMatchingAncestors]
  cases src with
  | zero =>
    rw [h.2.1]
    by_cases hcn : c.countAt 0 0 = true <;> cases stop <;> simp [getMatchingAncestors, Doc.ancestors, hcn]
  | succ k =>
    cases hp : d.parent (k + 1) with
    | none =>
      by_cases hcn : c.countAt (k + 1) (k + 1) = true <;> cases stop <;>
        simp [getMatchingAncestors, Doc.ancestors, hcn, hp]
    | some p =>
      have hpl := h.parent_lt hs hp
      rw [getMatchingAncestors_above h c (k + 1) stop k p hpl (by omega)]
      by_cases hcn : c.countAt (k + 1) (k + 1) = true <;> cases stop <;>
        simp [Doc.ancestors, hcn, hp]

theorem searched_lt (h : d.WF) (fromP : Option (Nat → Bool)) (src : Nat) (hs : src < d.size) :
    ∀ a ∈ searched d fromP src, a < d.size := by
  intro a ha
  apply aos_lt h src hs a
  unfold searched at ha
  cases fromP with
  | none => exact ha
  | some f =>
    simp only [List.mem_cons] at ha ⊢
    rcases ha with rfl | ha
    · left; rfl
    · right; exact (List.takeWhile_sublist _).subset ha

/-- `level="multiple"`: the counting code yields the §7.7 list, with or without `from`. -/
theorem getCountListZ_multiple (h : d.WF) (hc : d.Closed) (c : NumCfg) (hl : c.level = .multiple)
    (hcons : ∀ a b, c.countAt a b = true → c.countAt b = c.countAt a)
    (src : Nat) (hs : src < d.size)
    (after : Nat → Nat → Bool) (cs : List Counter)
    (hinv : CountersInv (getPreviousNode d c) cs) (z : Bool) :
    (getCountListZ z d c after cs src).2 = specMultiple d (c.countAt src) c.fromP src ∧
    CountersInv (getPreviousNode d c) (getCountListZ z d c after cs src).1 := by
  have hne : c.level ≠ .any := by rw [hl]; decide
  have htargets : countTargets d c src = ((searched d c.fromP src).filter (c.countAt src)).reverse := by
    unfold countTargets
    rw [hl]
    simp only
    rw [getMatchingAncestors_top h c src hs false]
    rfl
  have hall : ∀ a ∈ ((searched d c.fromP src).filter (c.countAt src)).reverse,
      a < d.size ∧ c.countAt src a = true := by
    intro a ha
    simp only [List.mem_reverse, List.mem_filter] at ha
    exact ⟨searched_lt h c.fromP src hs a ha.1, ha.2⟩
  have := countList_siblings h hc c hne (c.countAt src) (fun n hn => hcons src n hn) after _ cs hall hinv
  unfold getCountListZ
  rw [htargets]
  simp only [hl]
  exact ⟨this.1, this.2⟩

/-- `level="single"`: the counting code yields the §7.7 list, with or without `from`. -/
theorem getCountListZ_single (h : d.WF) (hc : d.Closed) (c : NumCfg) (hl : c.level = .single)
    (hcons : ∀ a b, c.countAt a b = true → c.countAt b = c.countAt a)
    (src : Nat) (hs : src < d.size)
    (after : Nat → Nat → Bool) (cs : List Counter)
    (hinv : CountersInv (getPreviousNode d c) cs) (z : Bool) :
    (getCountListZ z d c after cs src).2 = specSingle d (c.countAt src) c.fromP src ∧
    CountersInv (getPreviousNode d c) (getCountListZ z d c after cs src).1 := by
  have hne : c.level ≠ .any := by rw [hl]; decide
  have htargets : countTargets d c src = ((searched d c.fromP src).find? (c.countAt src)).toList := by
    unfold countTargets
    rw [hl]
    simp only
    rw [getMatchingAncestors_top h c src hs true]
    cases ((searched d c.fromP src).find? (c.countAt src)) <;> simp
  have hall : ∀ a ∈ ((searched d c.fromP src).find? (c.countAt src)).toList,
      a < d.size ∧ c.countAt src a = true := by
    intro a ha
    simp only [Option.mem_toList] at ha
    exact ⟨searched_lt h c.fromP src hs a (List.mem_of_find?_eq_some ha), by simpa using List.find?_some ha⟩
  have := countList_siblings h hc c hne (c.countAt src) (fun n hn => hcons src n hn) after _ cs hall hinv
  unfold getCountListZ
  rw [htargets]
  simp only [hl]
  refine ⟨?_, this.2⟩
  rw [this.1]
  unfold specSingle
  cases ((searched d c.fromP src).find? (c.countAt src)) <;> simp

end XalanModel.C17
